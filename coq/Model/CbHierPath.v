(* CbHierPath.v — property C01 / C06 for header unification at ANY level of a
   hierarchy and with ANY kind of predecessor (blocks, branching synthetic
   blocks, regions - whose exiting blocks are renamed by update_exiting):
   CbHier.insert_cb_h, the line-by-line model of
   SCFG.insert_block_and_control_blocks compared with the code on every call
   the pipeline makes, keeps the flat walk.  A successor s in S of a
   predecessor - or of the exiting block at the bottom of a region predecessor -
   becomes an assignment block a of its own; a continues to the new head, which
   sends the assigned value back to s; every name resolves to the same block as
   before. *)
From Coq Require Import List ZArith Bool Lia.
Import ListNotations.
From V Require Import Valid.Hier Valid.Walk Valid.FlatRegion Model.Graph Model.Edits Model.Edits3 Model.TableSpec
                      Model.Extract Model.CbHier Model.Refine Model.CbPath Model.LoopSpec Model.LoopPath Model.ExtractPath.
Local Open Scope Z_scope.

Definition arc3 := (name * name * Z)%type.     (* original successor, assignment block, value *)

Section Rel.
Variable Ss : list name.
Variable M : list arc3.

Definition Rn (t t' : name) : Prop := exists i, In (t, t', i) M.

(* the arcs recorded so far: sources in S, assignment names never in S and used once *)
Definition MOk : Prop :=
  (forall s a i, In (s, a, i) M -> In s Ss /\ ~ In a Ss) /\
  (forall s a i s' i', In (s, a, i) M -> In (s', a, i') M -> s' = s /\ i' = i).

Definition PosRelM (jt jt' : list name) : Prop :=
  length jt = length jt' /\
  forall k t t', nth_error jt k = Some t -> nth_error jt' k = Some t' -> t' = t \/ Rn t t'.

Definition tgt_relM (o o' : option name) : Prop :=
  match o, o' with
  | Some t, Some t' => t' = t \/ Rn t t'
  | None, None => True
  | _, _ => False
  end.

Definition KindRelM (n n' : node) : Prop :=
  match n_kind n, n_kind n' with
  | KOrig p, KOrig p' => p' = p
  | KPlain c, KPlain c' => c' = c
  | KAssign a, KAssign a' => a' = a
  | KBranch c v tbl, KBranch c' v' tbl' =>
    c' = c /\ v' = v /\ forall z, tgt_relM (proceed n tbl z) (proceed n' tbl' z)
  | _, _ => False
  end.

Definition LeafRelM (n n' : node) : Prop :=
  n_name n' = n_name n /\ PosRelM (n_jt n) (n_jt n') /\ KindRelM n n'.

Lemma PosRelM_refl jt : PosRelM jt jt.
Proof. split; [reflexivity|]. intros k t t' H1 H2. left. congruence. Qed.

Lemma Rn_fresh : MOk -> forall t a b, Rn t a -> ~ Rn a b.
Proof. intros [H1 _] t a b [i Hi] [j Hj]. destruct (H1 _ _ _ Hi) as [_ A]. destruct (H1 _ _ _ Hj) as [B _]. contradiction. Qed.

Lemma PosRelM_trans : MOk -> forall a b c, PosRelM a b -> PosRelM b c -> PosRelM a c.
Proof.
  intros HM a b c [L1 P1] [L2 P2]. split; [congruence|]. intros k t t2 Ht Ht2.
  destruct (nth_error b k) as [t1|] eqn:Hb.
  - destruct (P1 k t t1 Ht Hb) as [->|R1]; [exact (P2 k t t2 Hb Ht2)|].
    destruct (P2 k t1 t2 Hb Ht2) as [->|R2]; [right; exact R1|]. exfalso. exact (Rn_fresh HM _ _ _ R1 R2).
  - exfalso. apply nth_error_None in Hb. assert (k < length a)%nat by (apply nth_error_Some; congruence). lia.
Qed.

Lemma tgt_relM_refl o : tgt_relM o o.
Proof. destruct o; cbn; auto. Qed.

Lemma tgt_relM_trans : MOk -> forall a b c, tgt_relM a b -> tgt_relM b c -> tgt_relM a c.
Proof.
  intros HM a b c. destruct a as [t|], b as [t1|], c as [t2|]; cbn; try tauto.
  intros [->|R1] [->|R2]; auto. exfalso. exact (Rn_fresh HM _ _ _ R1 R2).
Qed.

Lemma LeafRelM_refl n : is_region n = false -> LeafRelM n n.
Proof.
  intros Hr. split; [reflexivity|]. split; [apply PosRelM_refl|]. unfold KindRelM, is_region in *.
  destruct (n_kind n); try reflexivity; [|discriminate]. repeat split. intros z. apply tgt_relM_refl.
Qed.

Lemma LeafRelM_trans : MOk -> forall a b c, LeafRelM a b -> LeafRelM b c -> LeafRelM a c.
Proof.
  intros HM a b c [N1 [P1 K1]] [N2 [P2 K2]]. split; [congruence|]. split; [eapply PosRelM_trans; eauto|].
  unfold KindRelM in *. destruct (n_kind a), (n_kind b), (n_kind c); try contradiction; try congruence.
  destruct K1 as [-> [-> T1]], K2 as [-> [-> T2]]. repeat split. intros z. eapply tgt_relM_trans; eauto.
Qed.
End Rel.

(* more arcs: the relations only grow *)
Lemma Rn_mono M M' t t' : (forall x, In x M -> In x M') -> Rn M t t' -> Rn M' t t'.
Proof. intros Hs [i Hi]. exists i. auto. Qed.

Lemma LeafRelM_mono M M' n n' : (forall x, In x M -> In x M') -> LeafRelM M n n' -> LeafRelM M' n n'.
Proof.
  intros Hs [N [[L P] K]]. split; [exact N|]. split.
  - split; [exact L|]. intros k t t' H1 H2. destruct (P k t t' H1 H2) as [A|A]; [auto|right; eapply Rn_mono; eauto].
  - unfold KindRelM in *. destruct (n_kind n), (n_kind n'); try exact K.
    destruct K as [A [B T]]. repeat split; auto. intros z. specialize (T z). unfold tgt_relM in *.
    destruct (proceed n tbl z), (proceed n' tbl0 z); try exact T. destruct T as [T|T]; [auto|right; eapply Rn_mono; eauto].
Qed.

(* ---------- replacing the successors of a block that is not a region ---------- *)
Lemma replace_leaf M n jt' n' :
  is_region n = false -> NoDup (n_jt n) ->
  (forall c v tbl, n_kind n = KBranch c v tbl -> NoDup (map fst tbl)) ->
  PosRelM M (n_jt n) jt' ->
  (forall k s t, nth_error (n_jt n) k = Some s -> nth_error jt' k = Some t -> t = s \/ ~ In t (n_jt n)) ->
  node_replace_jt n jt' = Some n' ->
  LeafRelM M n n' /\ is_region n' = false /\ n_parent n' = n_parent n /\ n_jt n' = jt' /\ n_be n' = n_be n /\
  (forall c v tbl, n_kind n' = KBranch c v tbl -> NoDup (map fst tbl)).
Proof.
  intros Hr Hnd Hkeys Hpos Hfr H. unfold node_replace_jt in H. unfold is_region in Hr.
  destruct (n_kind n) as [p|c|a|c v tbl|? ? ? ? ? ?] eqn:Hk; try discriminate;
    try (injection H as <-; split; [split; [reflexivity|]; split; [exact Hpos|]; unfold KindRelM; cbn [n_kind]; rewrite Hk; reflexivity|];
         split; [unfold is_region; reflexivity|]; split; [reflexivity|]; split; [reflexivity|]; split; [reflexivity|];
         intros ? ? ? E; cbn in E; discriminate).
  destruct (table_rewrite tbl (n_jt n) jt' (n_jt n) 0 []) as [tbl'|] eqn:Htr; [|discriminate].
  injection H as <-. split; [|split; [unfold is_region; reflexivity|split; [reflexivity|split; [reflexivity|split; [reflexivity|]]]]].
  - split; [reflexivity|]. split; [exact Hpos|]. unfold KindRelM. cbn [n_kind]. rewrite Hk.
    split; [reflexivity|]. split; [reflexivity|]. intros z.
    pose proof (table_rewrite_lookup tbl (n_jt n) jt' (Hkeys c v tbl eq_refl) (eq_sym (proj1 Hpos)) Hfr Hnd tbl' Htr z) as Hz.
    unfold proceed. cbn [n_jt].
    destruct (zassoc z tbl) as [t0|] eqn:Hzt.
    + destruct Hz as [Hin0 Hout0]. destruct (zmem t0 (n_jt n)) eqn:Hm.
      * apply zmem_In in Hm. apply In_nth_error in Hm as [k Hk0]. rewrite (Hin0 k Hk0).
        destruct (nth_error jt' k) as [t0'|] eqn:Hk'.
        -- assert (zmem t0' jt' = true) as -> by (apply zmem_In; eapply nth_error_In; eauto).
           cbn. apply (proj2 Hpos k t0 t0' Hk0 Hk').
        -- exfalso. apply nth_error_None in Hk'. rewrite <- (proj1 Hpos) in Hk'.
           assert (k < length (n_jt n))%nat.
           { apply nth_error_Some. intros Hc. pose proof (eq_trans (eq_sym Hc) Hk0) as X. discriminate X. } lia.
      * apply zmem_false in Hm. rewrite (Hout0 Hm). exact I.
    + rewrite Hz. exact I.
  - cbn [n_kind]. intros c0 v0 t0 [= <- <- <-]. eapply table_rewrite_keys; [|exact Htr]. constructor.
Qed.

(* ---------- what keeps later renamings harmless ---------- *)
Definition GoodMU (M : list arc3) (U : list name) (n : node) : Prop :=
  NoDup (n_jt n) /\
  (forall c v tbl, n_kind n = KBranch c v tbl -> NoDup (map fst tbl)) /\
  (forall a, In a U -> ~ In a (n_jt n)) /\
  (forall s a i, In (s, a, i) M -> In a (n_jt n) -> ~ In s (n_jt n)).

Lemma rename1_in s a jt x : In x (rename1 s a jt) -> x = a \/ (In x jt /\ x <> s).
Proof.
  unfold rename1. intros Hi. apply in_map_iff in Hi as [u [Hu Hin]].
  destruct (Z.eqb u s) eqn:E; [left; congruence|right; apply Z.eqb_neq in E; subst; auto].
Qed.

Lemma rename_leafM Ss M U n s a i n' :
  MOk Ss M -> In (s, a, i) M -> ~ In a U -> is_region n = false -> GoodMU M U n ->
  rename_node n s a = Some n' ->
  LeafRelM M n n' /\ GoodMU M U n' /\ is_region n' = false /\ n_parent n' = n_parent n.
Proof.
  intros HM Hin HaU Hr [Hnd [Hkeys [HU HMj]]] H. unfold rename_node in H.
  destruct (node_replace_jt n (rename1 s a (n_jt n))) as [n1|] eqn:H1; [|discriminate]. injection H as <-.
  assert (Hcase : ~ In a (n_jt n) \/ ~ In s (n_jt n)).
  { destruct (in_dec Z.eq_dec a (n_jt n)) as [Ha|Ha]; [right; eapply HMj; eauto|left; exact Ha]. }
  assert (Hsa : a <> s).
  { destruct HM as [A _]. destruct (A _ _ _ Hin) as [B C]. intros ->. contradiction. }
  assert (Hpos : PosRelM M (n_jt n) (rename1 s a (n_jt n))).
  { destruct (rename1_pos s a (n_jt n)) as [L P]. split; [exact L|]. intros k t t' Ht Ht'.
    destruct (P k t t' Ht Ht') as [->|[-> ->]]; [auto|right; exists i; exact Hin]. }
  destruct (replace_leaf M n _ n1 Hr Hnd Hkeys Hpos (pos_fresh s a (n_jt n) Hnd Hcase) H1)
    as [L [Rl [P [Hjt [Hbe Hk']]]]].
  assert (Hkind : n_kind (with_be n1 (rename1 s a (n_be n1))) = n_kind n1) by reflexivity.
  split; [|split; [|split; [exact Rl|exact P]]].
  - destruct L as [N [Pp K]]. split; [exact N|]. split; [exact Pp|]. unfold KindRelM in *. cbn [n_kind with_be]. exact K.
  - unfold GoodMU. cbn [n_jt n_kind with_be]. rewrite Hjt. split; [|split; [|split]].
    + destruct Hcase as [A|A]; [apply (rename1_nodup s a); assumption|rewrite (rename1_id s a) by exact A; exact Hnd].
    + intros c v tbl Ek. apply (Hk' c v tbl). exact Ek.
    + intros b Hb Hi. apply rename1_in in Hi as [->|[Hi _]]; [contradiction|exact (HU b Hb Hi)].
    + intros s2 a2 i2 Hin2 Ha2 Hs2. apply rename1_in in Ha2 as [->|[Ha2 _]].
      * (* the name just introduced: its source is gone *)
        destruct HM as [_ Huniq]. destruct (Huniq _ _ _ _ _ Hin Hin2) as [-> _].
        apply (rename1_no_hd s a Hsa (n_jt n)). exact Hs2.
      * apply rename1_in in Hs2 as [->|[Hs2 _]].
        -- destruct HM as [A _]. destruct (A _ _ _ Hin2) as [B _]. destruct (A _ _ _ Hin) as [_ C]. contradiction.
        -- exact (HMj _ _ _ Hin2 Ha2 Hs2).
Qed.

(* ---------- several successors replaced at once ---------- *)
Lemma subst_all_nodup : forall l jt, NoDup jt -> NoDup (map snd l) ->
  (forall a, In a (map snd l) -> ~ In a jt) -> NoDup (subst_all l jt).
Proof.
  induction l as [|[t a] r IH]; intros jt Hjt Hs Hfr; [exact Hjt|].
  unfold subst_all. cbn [fold_left fst snd]. fold (subst_all r (replace_first t a jt)).
  cbn [map snd] in Hs, Hfr. inversion Hs as [|? ? Ha Hs']; subst.
  apply IH; [apply nodup_replace_first'; [exact Hjt|apply Hfr; left; reflexivity]|exact Hs'|].
  intros b Hb Hi. apply In_replace_first in Hi as [->|Hi]; [contradiction|exact (Hfr b (or_intror Hb) Hi)].
Qed.

Lemma subst_all_in : forall l jt, NoDup jt -> NoDup (map snd l) -> NoDup (map fst l) ->
  (forall a, In a (map snd l) -> ~ In a jt /\ ~ In a (map fst l)) ->
  forall x, In x (subst_all l jt) -> (In x jt /\ passoc x l = None) \/ In x (map snd l).
Proof.
  intros l jt Hjt Hs Hf Hfr x Hx. apply In_nth_error in Hx as [k Hk].
  destruct (nth_error jt k) as [t|] eqn:Ht.
  - rewrite (subst_all_pos l jt Hjt Hs Hf Hfr k t Ht) in Hk. injection Hk as <-.
    destruct (passoc t l) as [a|] eqn:Hp; [|left; split; [eapply nth_error_In; eauto|exact Hp]].
    right. clear -Hp. induction l as [|[t0 a0] r IH]; [discriminate|]. cbn in *.
    destruct (Z.eqb t t0); [injection Hp as ->; left; reflexivity|right; apply IH; exact Hp].
  - exfalso. apply nth_error_None in Ht. rewrite <- (subst_all_length l jt) in Ht.
    assert (k < length (subst_all l jt))%nat by (apply nth_error_Some; congruence). lia.
Qed.

Lemma passoc_in_fst t l : In t (map fst l) -> passoc t l <> None.
Proof.
  induction l as [|[t0 a0] r IH]; [intros []|]. cbn. destruct (Z.eqb_spec t t0); [discriminate|].
  intros [E|Hi]; [congruence|apply IH; exact Hi].
Qed.

(* ---------- the invariant of the loops ---------- *)
Section Loops.
Variables (Ss : list name) (lvl new : name) (var : Z) (h0 : hier).
(* the nesting is a tree: a parent lies above its children *)
Variable rank : name -> nat.
Hypothesis Hrank : forall x n, find h0 x = Some n -> (rank (n_parent n) < rank x)%nat.

Definition NodeRelMU (M : list arc3) (U : list name) (n n' : node) : Prop :=
  n_parent n' = n_parent n /\
  (is_region n = false -> LeafRelM M n n' /\ GoodMU M U n' /\ is_region n' = false) /\
  (is_region n = true -> RegRel n n').

Definition asg_node (a : name) (i : Z) : node := mkNode a lvl [new] [] (KAssign [(var, i)]).

Record InvMU (hc : hier) (M : list arc3) (U : list name) : Prop := {
  iv_img : forall x n, find h0 x = Some n -> exists n', find hc x = Some n' /\ NodeRelMU M U n n';
  iv_asg : forall s a i, In (s, a, i) M -> find hc a = Some (asg_node a i) /\ find h0 a = None /\ ~ In a U /\ a <> new;
  iv_only : forall x n', find hc x = Some n' -> find h0 x <> None \/ exists s i, In (s, x, i) M;
  iv_unused : forall a, In a U -> find hc a = None /\ find h0 a = None /\ ~ In a Ss /\ a <> new;
  iv_len : (length h0 <= length hc)%nat;
  iv_mok : MOk Ss M }.

Lemma NodeRelMU_region M U n n' : NodeRelMU M U n n' -> is_region n' = is_region n.
Proof.
  intros [_ [A B]]. destruct (is_region n) eqn:E.
  - destruct (B eq_refl) as [_ K]. unfold is_region in *. destruct (n_kind n), (n_kind n'); try contradiction; reflexivity.
  - apply (A eq_refl).
Qed.

Lemma NodeRelMU_trans M U a b c : MOk Ss M -> NodeRelMU M U a b -> NodeRelMU M U b c -> NodeRelMU M U a c.
Proof.
  intros HM R1 R2. pose proof (NodeRelMU_region M U a b R1) as Hr.
  destruct R1 as [P1 [A1 B1]], R2 as [P2 [A2 B2]]. split; [congruence|]. split.
  - intros Ha. destruct (A1 Ha) as [L1 [G1 Rb]]. destruct (A2 Rb) as [L2 [G2 Rc]].
    split; [eapply LeafRelM_trans; eauto|auto].
  - intros Ha. rewrite Ha in Hr. eapply RegRel_trans; [apply B1; exact Ha|apply B2; exact Hr].
Qed.

Lemma Inv_curM hc M U x n' : InvMU hc M U -> find hc x = Some n' ->
  (exists n, find h0 x = Some n /\ NodeRelMU M U n n') \/ (exists s i, In (s, x, i) M /\ n' = asg_node x i /\ find h0 x = None).
Proof.
  intros HI Hx. destruct (find h0 x) as [n|] eqn:H0.
  - left. destruct (iv_img _ _ _ HI x n H0) as [n1 [H1 R1]]. rewrite Hx in H1. injection H1 as <-. eauto.
  - right. destruct (iv_only _ _ _ HI x n' Hx) as [A|[s [i Hi]]]; [congruence|].
    exists s, i. split; [exact Hi|]. destruct (iv_asg _ _ _ HI s x i Hi) as [B _]. rewrite Hx in B. injection B as ->. auto.
Qed.

(* replacing the current image of an original node by a related one *)
Lemma Inv_setM hc M U m' : InvMU hc M U -> find h0 (n_name m') <> None -> find hc (n_name m') <> None ->
  (forall n, find h0 (n_name m') = Some n -> NodeRelMU M U n m') -> InvMU (hset hc m') M U.
Proof.
  intros HI H0 Hpres Hrel. constructor.
  - intros x n Hx. rewrite find_hset by exact Hpres.
    destruct (Z.eqb_spec x (n_name m')) as [->|E]; [exists m'; split; [reflexivity|apply Hrel; exact Hx]|].
    apply (iv_img _ _ _ HI). exact Hx.
  - intros s a i Hi. destruct (iv_asg _ _ _ HI s a i Hi) as [A [B C]]. split; [|auto].
    rewrite find_hset by exact Hpres. destruct (Z.eqb_spec a (n_name m')) as [->|E]; [congruence|exact A].
  - intros x n' Hx. rewrite find_hset in Hx by exact Hpres.
    destruct (Z.eqb_spec x (n_name m')) as [->|E]; [left; exact H0|apply (iv_only _ _ _ HI x n'); exact Hx].
  - intros a Ha. destruct (iv_unused _ _ _ HI a Ha) as [A [B C]]. split; [|auto].
    rewrite find_hset by exact Hpres. destruct (Z.eqb_spec a (n_name m')) as [->|E]; [congruence|exact A].
  - rewrite hset_length. apply (iv_len _ _ _ HI).
  - apply (iv_mok _ _ _ HI).
Qed.

Lemma rename_relM M U n0 n s a i n' : MOk Ss M -> In (s, a, i) M -> ~ In a U ->
  NodeRelMU M U n0 n -> rename_node n s a = Some n' -> NodeRelMU M U n0 n'.
Proof.
  intros HM Hin HaU R Hrn. apply (NodeRelMU_trans M U n0 n n' HM R).
  pose proof (NodeRelMU_region M U n0 n R) as Hreg.
  destruct (is_region n) eqn:Hrx.
  - destruct (rename_region n s a n' Hrx Hrn) as [RR [P Rr]]. split; [exact P|]. split; [congruence|intros _; exact RR].
  - destruct R as [_ [A _]]. destruct (A (eq_sym Hreg)) as [_ [G _]].
    destruct (rename_leafM Ss M U n s a i n' HM Hin HaU Hrx G Hrn) as [L [G' [Rr P]]].
    split; [exact P|]. split; [intros _; auto|congruence].
Qed.

Lemma children_relM M U n0 n f : MOk Ss M -> NodeRelMU M U n0 n -> is_region n = true -> NodeRelMU M U n0 (with_children n f).
Proof.
  intros HM R Hr. apply (NodeRelMU_trans M U n0 n _ HM R). destruct (children_region n f Hr) as [RR [P Rr]].
  split; [exact P|]. split; [congruence|intros _; exact RR].
Qed.

(* update_exiting with a recorded arc, below the level *)
Lemma upd_exiting_invM M U s a i : forall fuel hc e h1,
  InvMU hc M U -> In (s, a, i) M -> (rank lvl < rank e)%nat ->
  upd_exiting fuel hc e s a = XOk h1 -> InvMU h1 M U.
Proof.
  intros fuel. induction fuel as [|f IH]; intros hc e h1 HI Hin Hrk H; [discriminate|]. cbn [upd_exiting] in H.
  destruct (find hc e) as [ne|] eqn:He; [|discriminate].
  destruct (n_kind ne) as [| | | |rk h00 ex ch pd ok] eqn:Hk; try discriminate.
  destruct (find hc ex) as [nx|] eqn:Hx; [|discriminate].
  destruct (Z.eqb_spec (n_parent nx) e) as [Hpar|Hpar]; [cbn [negb] in H|discriminate].
  destruct (rename_node nx s a) as [nx'|] eqn:Hrn; [|discriminate].
  assert (Hner : is_region ne = true) by (unfold is_region; rewrite Hk; reflexivity).
  pose proof (iv_mok _ _ _ HI) as HM. destruct (iv_asg _ _ _ HI s a i Hin) as [_ [_ [HaU _]]].
  (* e is the image of an original region *)
  destruct (Inv_curM hc M U e ne HI He) as [[n0e [H0e R0e]]|[s1 [i1 [_ [-> _]]]]]; [|discriminate].
  (* the exiting block is an original node as well: an assignment block lies in the level, not below it *)
  destruct (Inv_curM hc M U ex nx HI Hx) as [[n0x [H0x R0x]]|[s1 [i1 [_ [-> _]]]]].
  2:{ exfalso. cbn in Hpar. subst e. lia. }
  assert (Hnx'n : n_name nx' = ex) by (rewrite (rename_name s a nx nx' Hrn); eapply find_name; eauto).
  assert (Hnen : n_name ne = e) by (eapply find_name; eauto).
  assert (HI1 : InvMU (hset hc nx') M U).
  { apply Inv_setM; [exact HI|rewrite Hnx'n; congruence|rewrite Hnx'n; congruence|].
    intros n Hn. rewrite Hnx'n, H0x in Hn. injection Hn as <-. eapply rename_relM; eauto. }
  assert (HI2 : InvMU (hset (hset hc nx') (with_children ne (move_last ex))) M U).
  { apply Inv_setM; [exact HI1|rewrite children_name, Hnen; congruence| |].
    - rewrite children_name, Hnen. rewrite find_hset by (rewrite Hnx'n; congruence).
      destruct (Z.eqb e (n_name nx')); [discriminate|congruence].
    - intros n Hn. rewrite children_name, Hnen, H0e in Hn. injection Hn as <-. apply children_relM; assumption. }
  destruct (is_region nx'); [|injection H as <-; exact HI2].
  eapply IH; [exact HI2|exact Hin| |exact H].
  (* the exiting block lies below e *)
  destruct R0x as [Hp0 _]. rewrite Hpar in Hp0.
  pose proof (Hrank ex n0x H0x) as Hlt. rewrite <- Hp0 in Hlt. lia.
Qed.

Lemma push_down_inv M U p : forall renamed fuel hc h1,
  InvMU hc M U -> (forall s a, In (s, a) renamed -> exists i, In (s, a, i) M) -> (rank lvl < rank p)%nat ->
  push_down fuel hc p renamed = XOk h1 -> InvMU h1 M U.
Proof.
  induction renamed as [|[s a] rest IH]; intros fuel hc h1 HI Hall Hrk H; [cbn in H; injection H as <-; exact HI|].
  cbn [push_down] in H. destruct (upd_exiting fuel hc p s a) as [h2| |] eqn:Hu; try discriminate.
  destruct (Hall s a (or_introl eq_refl)) as [i Hi].
  eapply IH; [eapply upd_exiting_invM; eauto| |exact Hrk|exact H].
  intros s0 a0 H0. apply Hall. right. exact H0.
Qed.

(* monotonicity of the invariant's relations *)
Lemma GoodMU_mono M U M' U' n : (forall x, In x U' -> In x U) ->
  (forall s a i, In (s, a, i) M' -> In (s, a, i) M \/ In a U) -> GoodMU M U n -> GoodMU M' U' n.
Proof.
  intros HU HM [A [B [C D]]]. split; [exact A|]. split; [exact B|]. split; [intros a Ha; apply C, HU; exact Ha|].
  intros s a i Hi Ha. destruct (HM _ _ _ Hi) as [Hi'|Hi']; [eapply D; eauto|exfalso; exact (C a Hi' Ha)].
Qed.

Lemma NodeRelMU_mono M U M' U' n n' : (forall x, In x M -> In x M') -> (forall x, In x U' -> In x U) ->
  (forall s a i, In (s, a, i) M' -> In (s, a, i) M \/ In a U) -> NodeRelMU M U n n' -> NodeRelMU M' U' n n'.
Proof.
  intros HM HU HM' [P [A B]]. split; [exact P|]. split; [|exact B].
  intros Hr. destruct (A Hr) as [L [G R]]. split; [eapply LeafRelM_mono; eauto|]. split; [eapply GoodMU_mono; eauto|exact R].
Qed.

Hypothesis Hlvl0 : exists nl0, find h0 lvl = Some nl0 /\ is_region nl0 = true.

(* one more assignment block in the level *)
Lemma add_asg_inv hc M U s a i :
  InvMU hc M (a :: U) -> NoDup (a :: U) -> In s Ss ->
  InvMU (add_child (hc ++ [asg_node a i]) lvl a) (M ++ [(s, a, i)]) U.
Proof.
  intros HI Hnd Hs. inversion Hnd as [|? ? HaU HndU]; subst.
  destruct (iv_unused _ _ _ HI a (or_introl eq_refl)) as [Hca [H0a [HaS Hanew]]].
  destruct Hlvl0 as [nl0 [Hnl0 Hrl0]].
  destruct (iv_img _ _ _ HI lvl nl0 Hnl0) as [nl [Hnl Rl]].
  assert (Hla : lvl <> a) by (intros ->; congruence).
  assert (Hfapp : forall x, find (hc ++ [asg_node a i]) x = if Z.eqb x a then Some (asg_node a i) else find hc x).
  { intros x. rewrite find_app_none. destruct (Z.eqb_spec x a) as [->|E].
    - rewrite Hca. cbn. rewrite Z.eqb_refl. reflexivity.
    - destruct (find hc x); [reflexivity|]. cbn. destruct (Z.eqb_spec a x); [congruence|reflexivity]. }
  assert (Hnlapp : find (hc ++ [asg_node a i]) lvl = Some nl).
  { rewrite Hfapp. destruct (Z.eqb_spec lvl a); [contradiction|exact Hnl]. }
  unfold add_child. rewrite Hnlapp.
  set (nl' := with_children nl (fun ch => ch ++ [a])).
  assert (Hnl'n : n_name nl' = lvl) by (unfold nl'; rewrite children_name; eapply find_name; eauto).
  assert (Hpres : find (hc ++ [asg_node a i]) (n_name nl') <> None) by (rewrite Hnl'n; congruence).
  assert (Hf : forall x, find (hset (hc ++ [asg_node a i]) nl') x =
                         if Z.eqb x lvl then Some nl' else if Z.eqb x a then Some (asg_node a i) else find hc x).
  { intros x. rewrite find_hset by exact Hpres. rewrite Hnl'n. destruct (Z.eqb x lvl); [reflexivity|apply Hfapp]. }
  assert (HMsub : forall x, In x M -> In x (M ++ [(s, a, i)])) by (intros x Hx; apply in_or_app; left; exact Hx).
  assert (HUsub : forall x, In x U -> In x (a :: U)) by (intros x Hx; right; exact Hx).
  assert (HM' : forall s0 a0 i0, In (s0, a0, i0) (M ++ [(s, a, i)]) -> In (s0, a0, i0) M \/ In a0 (a :: U)).
  { intros s0 a0 i0 Hi. apply in_app_or in Hi as [Hi|[[= <- <- <-]|[]]]; [left; exact Hi|right; left; reflexivity]. }
  pose proof (iv_mok _ _ _ HI) as [MO1 MO2].
  assert (HMok : MOk Ss (M ++ [(s, a, i)])).
  { split.
    - intros s0 a0 i0 Hi. apply in_app_or in Hi as [Hi|[[= <- <- <-]|[]]]; [apply (MO1 _ _ _ Hi)|auto].
    - intros s0 a0 i0 s1 i1 H1 H2.
      apply in_app_or in H1 as [H1|[E1|[]]]; apply in_app_or in H2 as [H2|[E2|[]]].
      + eapply MO2; eauto.
      + injection E2 as _ Ea _. subst a0. exfalso. destruct (iv_asg _ _ _ HI _ _ _ H1) as [_ [_ [C _]]]. apply C. left. reflexivity.
      + injection E1 as _ Ea _. subst a0. exfalso. destruct (iv_asg _ _ _ HI _ _ _ H2) as [_ [_ [C _]]]. apply C. left. reflexivity.
      + injection E1 as <- _ <-. injection E2 as <- _ <-. auto. }
  constructor.
  - intros x n Hx. rewrite Hf. destruct (Z.eqb_spec x lvl) as [->|E].
    + exists nl'. split; [reflexivity|]. rewrite Hnl0 in Hx. injection Hx as <-.
      apply (NodeRelMU_mono M (a :: U) _ U nl0 nl' HMsub HUsub HM').
      apply children_relM; [exact (conj MO1 MO2)|exact Rl|]. rewrite (NodeRelMU_region _ _ _ _ Rl). exact Hrl0.
    + destruct (Z.eqb_spec x a) as [->|E2]; [congruence|].
      destruct (iv_img _ _ _ HI x n Hx) as [n' [Hn' R]]. exists n'. split; [exact Hn'|].
      eapply NodeRelMU_mono; eauto.
  - intros s0 a0 i0 Hi. rewrite Hf. apply in_app_or in Hi as [Hi|[[= <- <- <-]|[]]].
    + destruct (iv_asg _ _ _ HI _ _ _ Hi) as [A [B [C D]]].
      destruct (Z.eqb_spec a0 lvl) as [->|E]; [congruence|].
      destruct (Z.eqb_spec a0 a) as [->|E2]; [exfalso; apply C; left; reflexivity|].
      split; [exact A|]. split; [exact B|]. split; [intros Hx; apply C; right; exact Hx|exact D].
    + destruct (Z.eqb_spec a lvl) as [E|E]; [congruence|]. rewrite Z.eqb_refl. auto.
  - intros x n' Hx. rewrite Hf in Hx. destruct (Z.eqb_spec x lvl) as [->|E]; [left; congruence|].
    destruct (Z.eqb_spec x a) as [->|E2].
    + right. exists s, i. apply in_or_app. right. left. reflexivity.
    + destruct (iv_only _ _ _ HI x n' Hx) as [A|[s0 [i0 Hi]]]; [left; exact A|right; exists s0, i0; apply HMsub; exact Hi].
  - intros b Hb. destruct (iv_unused _ _ _ HI b (or_intror Hb)) as [A [B C]]. split; [|auto].
    rewrite Hf. destruct (Z.eqb_spec b lvl) as [->|E]; [congruence|].
    destruct (Z.eqb_spec b a) as [->|E2]; [contradiction|exact A].
  - rewrite hset_length, app_length. pose proof (iv_len _ _ _ HI). cbn. lia.
  - exact HMok.
Qed.

(* the head's table and the arcs recorded so far *)
Definition TblOk (tbl : list (Z * name)) (value : Z) (M : list arc3) : Prop :=
  (forall s a i, In (s, a, i) M -> zassoc i tbl = Some s) /\
  (forall i s, zassoc i tbl = Some s -> 0 <= i < value) /\ 0 <= value.

Lemma cbh_arcs_inv : forall ss hc jt value tbl names renamed M h1 jt1 value1 tbl1 names1 renamed1,
  InvMU hc M names -> TblOk tbl value M -> NoDup names -> (forall s, In s ss -> In s Ss) ->
  cbh_arcs hc lvl new var ss jt value tbl names renamed = Some (h1, jt1, value1, tbl1, names1, renamed1) ->
  exists used M1, names = used ++ names1 /\ length used = length ss /\
    InvMU h1 M1 names1 /\ TblOk tbl1 value1 M1 /\ (forall x, In x M -> In x M1) /\
    jt1 = subst_all (combine ss used) jt /\ renamed1 = renamed ++ combine ss used /\
    (forall s a, In (s, a) (combine ss used) -> exists i, In (s, a, i) M1) /\
    (forall s a i, In (s, a, i) M1 -> In (s, a, i) M \/ In a used) /\
    (forall x, x <> lvl -> ~ In x used -> find h1 x = find hc x).
Proof.
  induction ss as [|s rest IH]; intros hc jt value tbl names renamed M h1 jt1 value1 tbl1 names1 renamed1 HI HT Hnd Hss H.
  - cbn in H. injection H as <- <- <- <- <- <-. exists [], M. cbn. rewrite app_nil_r.
    split; [reflexivity|]. split; [reflexivity|]. split; [exact HI|]. split; [exact HT|]. split; [auto|].
    split; [reflexivity|]. split; [reflexivity|]. split; [intros s a []|]. split; [auto|auto].
  - cbn [cbh_arcs] in H. destruct names as [|a names']; [discriminate|].
    assert (HI' : InvMU (add_child (hc ++ [asg_node a value]) lvl a) (M ++ [(s, a, value)]) names').
    { apply add_asg_inv; [exact HI|exact Hnd|apply Hss; left; reflexivity]. }
    destruct HT as [T1 [T2 T3]].
    assert (HT' : TblOk (tset tbl value s) (value + 1) (M ++ [(s, a, value)])).
    { split; [|split; [|lia]].
      - intros s0 a0 i0 Hi. rewrite zassoc_tset. apply in_app_or in Hi as [Hi|[[= <- <- <-]|[]]].
        + destruct (Z.eqb_spec i0 value) as [->|E]; [|apply (T1 _ _ _ Hi)].
          pose proof (T2 _ _ (T1 _ _ _ Hi)). lia.
        + rewrite Z.eqb_refl. reflexivity.
      - intros i0 s0. rewrite zassoc_tset. destruct (Z.eqb_spec i0 value) as [->|E]; [intros _; lia|].
        intros Hz. pose proof (T2 _ _ Hz). lia. }
    inversion Hnd as [|? ? Han Hnd']; subst.
    destruct (IH _ _ _ _ _ _ _ _ _ _ _ _ _ HI' HT' Hnd' (fun s0 Hs0 => Hss s0 (or_intror Hs0)) H)
      as [used [M1 [Hn [Hl [HI1 [HT1 [Hsub [Hjt [Hren [Hp [Hnew Hsame]]]]]]]]]]].
    exists (a :: used), M1. split; [cbn; rewrite Hn; reflexivity|]. split; [cbn; rewrite Hl; reflexivity|].
    split; [exact HI1|]. split; [exact HT1|]. split; [intros x Hx; apply Hsub; apply in_or_app; left; exact Hx|].
    split; [rewrite Hjt; reflexivity|]. split; [rewrite Hren, <- app_assoc; reflexivity|].
    split; [intros s0 a0 [[= <- <-]|Hin]; [exists value; apply Hsub; apply in_or_app; right; left; reflexivity|apply Hp; exact Hin]|].
    split.
    + intros s0 a0 i0 Hi. destruct (Hnew _ _ _ Hi) as [Hi'|Hi']; [|right; right; exact Hi'].
      apply in_app_or in Hi' as [Hi'|[[= <- <- <-]|[]]]; [left; exact Hi'|right; left; reflexivity].
    + intros x Hxl Hxu. rewrite Hsame; [|exact Hxl|intros Hi; apply Hxu; right; exact Hi].
      (* one assignment block more: other names are found as before *)
      destruct (iv_unused _ _ _ HI a (or_introl eq_refl)) as [Hca _].
      destruct Hlvl0 as [nl0 [Hnl0 _]]. destruct (iv_img _ _ _ HI lvl nl0 Hnl0) as [nl [Hnl _]].
      assert (Hxa : x <> a) by (intros ->; apply Hxu; left; reflexivity).
      assert (Hfapp : forall y, find (hc ++ [asg_node a value]) y = if Z.eqb y a then Some (asg_node a value) else find hc y).
      { intros y. rewrite find_app_none. destruct (Z.eqb_spec y a) as [->|E].
        - rewrite Hca. cbn. rewrite Z.eqb_refl. reflexivity.
        - destruct (find hc y); [reflexivity|]. cbn. destruct (Z.eqb_spec a y); [congruence|reflexivity]. }
      unfold add_child. rewrite Hfapp. destruct (Z.eqb_spec lvl a) as [E|E]; [subst; congruence|]. rewrite Hnl.
      rewrite find_hset by (rewrite children_name, (find_name hc lvl nl Hnl), Hfapp; destruct (Z.eqb lvl a); congruence).
      rewrite children_name, (find_name hc lvl nl Hnl). destruct (Z.eqb_spec x lvl); [contradiction|].
      rewrite Hfapp. destruct (Z.eqb_spec x a); [contradiction|reflexivity].
Qed.

Lemma nodup_app_r' {A} (l1 l2 : list A) : NoDup (l1 ++ l2) -> NoDup l2.
Proof. induction l1 as [|x r IH]; cbn; intros H; [exact H|]. inversion H; subst. auto. Qed.

Lemma nodup_app_l' {A} (l1 l2 : list A) : NoDup (l1 ++ l2) -> NoDup l1.
Proof.
  induction l1 as [|x r IH]; cbn; intros H; [constructor|]. inversion H as [|? ? Hx Hr]; subst.
  constructor; [intros Hi; apply Hx; apply in_or_app; left; exact Hi|auto].
Qed.

Lemma nodup_app_disj {A} (l1 l2 : list A) x : NoDup (l1 ++ l2) -> In x l1 -> ~ In x l2.
Proof.
  induction l1 as [|y r IH]; cbn; intros H Hi; [destruct Hi|]. inversion H as [|? ? Hy Hr]; subst.
  destruct Hi as [->|Hi]; [intros Hx; apply Hy; apply in_or_app; right; exact Hx|auto].
Qed.

(* the loop over the predecessors *)
Lemma cbh_preds_inv fuel : forall preds hc value tbl names M h1 tbl1,
  InvMU hc M names -> TblOk tbl value M -> NoDup names ->
  (forall p, In p preds -> p <> lvl /\ exists n0, find h0 p = Some n0 /\ n_parent n0 = lvl) ->
  cbh_preds fuel hc lvl new var Ss preds value tbl names = XOk (h1, tbl1) ->
  exists M1 names1 value1, InvMU h1 M1 names1 /\ TblOk tbl1 value1 M1.
Proof.
  induction preds as [|p rest IH]; intros hc value tbl names M h1 tbl1 HI HT Hnd Hps H.
  - cbn in H. injection H as <- <-. eauto.
  - cbn [cbh_preds] in H. destruct (Hps p (or_introl eq_refl)) as [Hpl [n0p [H0p Hpar0]]].
    destruct (find hc p) as [np|] eqn:Hp; [|discriminate].
    destruct (find hc lvl) as [nl|] eqn:Hl; [|discriminate]. cbv zeta in H.
    match type of H with (if ?c then _ else _) = _ => destruct c end; [discriminate|].
    destruct (cbh_arcs hc lvl new var (zsort (filter (fun t => zmem t Ss) (n_jt np))) (n_jt np) value tbl names [])
      as [[[[[[h2 jt] value'] tbl'] names'] renamed]|] eqn:Ha; [|discriminate].
    assert (Hss : forall s, In s (zsort (filter (fun t => zmem t Ss) (n_jt np))) -> In s Ss).
    { intros s Hs. apply (proj1 (zsort_In _ _)) in Hs. apply filter_In in Hs as [_ Hs]. apply zmem_In. exact Hs. }
    destruct (cbh_arcs_inv _ _ _ _ _ _ _ _ _ _ _ _ _ _ HI HT Hnd Hss Ha)
      as [used [M1 [Hn [Hlen [HI2 [HT2 [Hsub [Hjt [Hren [Hpairs [Hnew Hsame]]]]]]]]]]].
    cbn [app] in Hren. subst renamed.
    set (ss := zsort (filter (fun t => zmem t Ss) (n_jt np))) in *.
    assert (Hpu : ~ In p used).
    { intros Hi. assert (In p names) by (rewrite Hn; apply in_or_app; left; exact Hi).
      destruct (iv_unused _ _ _ HI p H0) as [_ [A _]]. congruence. }
    rewrite (Hsame p Hpl Hpu), Hp in H.
    destruct (node_replace_jt np jt) as [np'|] eqn:Hr; [|discriminate].
    pose proof (iv_mok _ _ _ HI2) as HM1.
    assert (Hnd1 : NoDup names') by (rewrite Hn in Hnd; apply nodup_app_r' in Hnd; exact Hnd).
    assert (Hndu : NoDup used) by (rewrite Hn in Hnd; apply nodup_app_l' in Hnd; exact Hnd).
    (* p's current node, seen from the invariant after the arcs *)
    destruct (iv_img _ _ _ HI2 p n0p H0p) as [np2 [Hnp2 R2]].
    rewrite (Hsame p Hpl Hpu), Hp in Hnp2. injection Hnp2 as <-.
    assert (Hnpn : n_name np = p) by (eapply find_name; eauto).
    (* the replaced node is related to the original one *)
    assert (Hrel' : NodeRelMU M1 names' n0p np' /\ n_name np' = p).
    { pose proof (NodeRelMU_region _ _ _ _ R2) as Hreg.
      destruct (is_region np) eqn:Hrp.
      - (* a region: only its successors change *)
        unfold node_replace_jt in Hr. unfold is_region in Hrp. destruct (n_kind np) eqn:Hk; try discriminate.
        injection Hr as <-. split; [|exact Hnpn].
        apply (NodeRelMU_trans M1 names' n0p np _ HM1 R2). split; [reflexivity|]. split.
        + intros Hc. unfold is_region in Hc. rewrite Hk in Hc. discriminate.
        + intros _. unfold RegRel. cbn. rewrite Hk. auto.
      - destruct R2 as [Pp [A _]]. destruct (A (eq_sym Hreg)) as [L0 [[G1 [G2 [G3 G4]]] _]].
        assert (Hus : forall a, In a (map snd (combine ss used)) -> ~ In a (n_jt np) /\ ~ In a (map fst (combine ss used))).
        { intros a Hau. rewrite LoopPath.map_snd_combine in Hau by (symmetry; exact Hlen).
          rewrite LoopPath.map_fst_combine by (symmetry; exact Hlen).
          assert (Han : In a names) by (rewrite Hn; apply in_or_app; left; exact Hau).
          destruct (iv_unused _ _ _ HI a Han) as [_ [_ [HaS _]]].
          split; [|intros Hi; apply HaS; apply Hss; exact Hi].
          (* names not yet used do not occur among the successors: seen before the arcs *)
          destruct (iv_img _ _ _ HI p n0p H0p) as [np0 [Hnp0 R0]]. rewrite Hp in Hnp0. injection Hnp0 as <-.
          destruct R0 as [_ [A0 _]]. destruct (A0 (eq_sym Hreg)) as [_ [[_ [_ [U0 _]]] _]]. apply U0. exact Han. }
        assert (Hfs : NoDup (map fst (combine ss used))).
        { rewrite LoopPath.map_fst_combine by (symmetry; exact Hlen). apply sorted_nodup. apply zsort_sorted. }
        assert (Hsn : NoDup (map snd (combine ss used))) by (rewrite LoopPath.map_snd_combine by (symmetry; exact Hlen); exact Hndu).
        assert (Hposk : forall k t, nth_error (n_jt np) k = Some t ->
                  nth_error jt k = Some (match passoc t (combine ss used) with Some a => a | None => t end)).
        { intros k t Ht. rewrite Hjt. apply subst_all_pos; assumption. }
        assert (Hpos : PosRelM M1 (n_jt np) jt).
        { split; [rewrite Hjt; symmetry; apply subst_all_length|].
          intros k t t' Ht Ht'. rewrite (Hposk k t Ht) in Ht'. injection Ht' as <-.
          destruct (passoc t (combine ss used)) as [a|] eqn:Hpa; [|left; reflexivity].
          right. apply passoc_combine_in in Hpa. destruct (Hpairs t a Hpa) as [i Hi]. exists i. exact Hi. }
        assert (Hfr : forall k s0 t0, nth_error (n_jt np) k = Some s0 -> nth_error jt k = Some t0 -> t0 = s0 \/ ~ In t0 (n_jt np)).
        { intros k s0 t0 Hs0 Ht0. rewrite (Hposk k s0 Hs0) in Ht0. injection Ht0 as <-.
          destruct (passoc s0 (combine ss used)) as [a|] eqn:Hpa; [|left; reflexivity].
          right. apply passoc_combine_in in Hpa. apply (Hus a). apply in_map_iff. exists (s0, a). auto. }
        destruct (replace_leaf M1 np jt np' Hrp G1 G2 Hpos Hfr Hr) as [L [Rl [Pn [Hjt' [Hbe' Hk']]]]].
        split; [|rewrite (proj1 L); exact Hnpn].
        split; [congruence|]. split; [|intros Hc; congruence].
        intros _. split; [eapply LeafRelM_trans; eauto|]. split; [|exact Rl].
        (* the new node stays harmless for later renamings *)
        unfold GoodMU. rewrite Hjt'. split; [|split; [exact Hk'|split]].
        + rewrite Hjt. apply subst_all_nodup; [exact G1|exact Hsn|intros a Hau; apply (Hus a Hau)].
        + intros a Hau Hi. rewrite Hjt in Hi. destruct (subst_all_in _ _ G1 Hsn Hfs Hus a Hi) as [[Hi' _]|Hi'].
          * exact (G3 a Hau Hi').
          * rewrite LoopPath.map_snd_combine in Hi' by (symmetry; exact Hlen).
            rewrite Hn in Hnd. exact (nodup_app_disj _ _ a Hnd Hi' Hau).
        + intros s0 a0 i0 Hi0 Ha0 Hs0. rewrite Hjt in Ha0, Hs0.
          destruct (subst_all_in _ _ G1 Hsn Hfs Hus s0 Hs0) as [[Hs0' Hpn]|Hs0'].
          * destruct (subst_all_in _ _ G1 Hsn Hfs Hus a0 Ha0) as [[Ha0' _]|Ha0'].
            -- exact (G4 _ _ _ Hi0 Ha0' Hs0').
            -- (* a0 was put in by this predecessor: then s0 was replaced *)
               apply in_map_iff in Ha0' as [[t1 a1] [E1 Hin1]]. cbn in E1. subst a1.
               destruct (Hpairs t1 a0 Hin1) as [i1 Hi1]. destruct HM1 as [_ Huniq].
               destruct (Huniq _ _ _ _ _ Hi0 Hi1) as [-> _].
               apply (passoc_in_fst s0 (combine ss used)); [apply in_map_iff; exists (s0, a0); auto|exact Hpn].
          * rewrite LoopPath.map_snd_combine in Hs0' by (symmetry; exact Hlen).
            destruct HM1 as [AA _]. destruct (AA _ _ _ Hi0) as [BB _].
            assert (Hsn0 : In s0 names) by (rewrite Hn; apply in_or_app; left; exact Hs0').
            destruct (iv_unused _ _ _ HI s0 Hsn0) as [_ [_ [CC _]]]. contradiction. }
    destruct Hrel' as [Hrel' Hnp'n].
    assert (HI3 : InvMU (hset h2 np') M1 names').
    { apply Inv_setM; [exact HI2|rewrite Hnp'n; congruence|rewrite Hnp'n, (Hsame p Hpl Hpu); congruence|].
      intros n Hn0. rewrite Hnp'n, H0p in Hn0. injection Hn0 as <-. exact Hrel'. }
    assert (Hrkp : (rank lvl < rank p)%nat) by (pose proof (Hrank p n0p H0p) as Hlt; rewrite Hpar0 in Hlt; exact Hlt).
    match type of H with match ?c with _ => _ end = _ => destruct c as [h3| |] eqn:Hs3 end; try discriminate.
    assert (HI4 : InvMU h3 M1 names').
    { destruct (is_region np'); [|injection Hs3 as <-; exact HI3].
      eapply push_down_inv; [exact HI3|exact Hpairs|exact Hrkp|exact Hs3]. }
    destruct (find h3 lvl) as [nl3|] eqn:Hl3; [|discriminate].
    destruct Hlvl0 as [nl0 [Hnl0 Hrl0]].
    destruct (iv_img _ _ _ HI4 lvl nl0 Hnl0) as [nl3' [Hnl3' R3]]. rewrite Hl3 in Hnl3'. injection Hnl3' as <-.
    assert (HI5 : InvMU (hset h3 (with_children nl3 (move_last p))) M1 names').
    { apply Inv_setM; [exact HI4| | |].
      - rewrite children_name, (find_name h3 lvl nl3 Hl3). congruence.
      - rewrite children_name, (find_name h3 lvl nl3 Hl3). congruence.
      - intros n Hn0. rewrite children_name, (find_name h3 lvl nl3 Hl3), Hnl0 in Hn0. injection Hn0 as <-.
        apply children_relM; [exact HM1|exact R3|]. rewrite (NodeRelMU_region _ _ _ _ R3). exact Hrl0. }
    eapply IH; [exact HI5|exact HT2|exact Hnd1| |exact H].
    intros q Hq. apply Hps. right. exact Hq.
Qed.
End Loops.

(* ---------- the whole edit ---------- *)
Section FinalCb.
Variables (h : hier) (lvl new : name) (var : Z) (preds Ss names : list name) (h' : hier) (strict : bool).
Hypothesis Hcb : insert_cb_h h lvl new var preds Ss names = XOk h'.
Hypothesis Hrank : exists rank : name -> nat, forall x n, find h x = Some n -> (rank (n_parent n) < rank x)%nat.
Hypothesis Hlvl : exists nl0, find h lvl = Some nl0 /\ is_region nl0 = true.
Hypothesis Hpreds : forall p, In p preds -> p <> lvl /\ exists n0, find h p = Some n0 /\ n_parent n0 = lvl.
Hypothesis Hnames : NoDup names /\ forall a, In a names -> find h a = None /\ ~ In a Ss /\ a <> new.
Hypothesis Hnew : find h new = None.
(* blocks that are no regions: distinct successors, none of them a fresh name, tables with distinct keys,
   and the new control variable is not mentioned *)
Hypothesis Hleaves : forall x n, find h x = Some n -> is_region n = false ->
  NoDup (n_jt n) /\ (forall a, In a names -> ~ In a (n_jt n)) /\
  (forall c v tbl, n_kind n = KBranch c v tbl -> NoDup (map fst tbl) /\ v <> var) /\
  (forall a, n_kind n = KAssign a -> forall p, In p a -> fst p <> var).
(* every successor of every block, and every member of S, resolves *)
Hypothesis Hres : forall x n t, find h x = Some n -> is_region n = false -> In t (n_jt n) ->
  enter_flat h (S (length h)) t <> None.
Hypothesis HresS : forall s, In s Ss -> enter_flat h (S (length h)) s <> None.

Let r := resolve_flat h.
Let r' := resolve_flat h'.
Definition Fc (w : Z) : Prop := w = var.
Definition Oldc (x : name) : Prop := exists n, find h x = Some n /\ is_region n = false.

Lemma parts_cb : exists rank h1 tbl M U value,
  (forall x n, find h x = Some n -> (rank (n_parent n) < rank x)%nat) /\
  InvMU Ss lvl new var h h1 M U /\ TblOk tbl value M /\
  h' = add_child (h1 ++ [mkNode new lvl Ss [] (KBranch C_HEADH var tbl)]) lvl new.
Proof.
  destruct Hrank as [rank Hr]. pose proof Hcb as H. unfold insert_cb_h in H.
  destruct (cbh_preds (S (length h + length names)) h lvl new var Ss preds 0 [] names) as [[h1 tbl]| |] eqn:Hp; try discriminate.
  injection H as <-.
  assert (HI0 : InvMU Ss lvl new var h h [] names).
  { constructor.
    - intros x n Hx. exists n. split; [exact Hx|]. split; [reflexivity|]. split.
      + intros Hl. destruct (Hleaves x n Hx Hl) as [A [B [C _]]].
        split; [apply LeafRelM_refl; exact Hl|]. split; [|exact Hl].
        split; [exact A|]. split; [intros c v t Ek; apply (C c v t Ek)|]. split; [exact B|intros s a i []].
      + intros Hl. apply RegRel_refl. exact Hl.
    - intros s a i [].
    - intros x n' Hx. left. congruence.
    - intros a Ha. destruct (proj2 Hnames a Ha) as [A [B C]]. auto.
    - lia.
    - split; [intros s a i []|intros s a i s' i' []]. }
  assert (HT0 : TblOk [] 0 []) by (split; [intros s a i []|split; [intros i s; discriminate|lia]]).
  destruct (cbh_preds_inv Ss lvl new var h rank Hr Hlvl _ preds h 0 [] names [] h1 tbl HI0 HT0 (proj1 Hnames) Hpreds Hp)
    as [M1 [names1 [value1 [HI1 HT1]]]].
  exists rank, h1, tbl, M1, names1, value1. auto.
Qed.

Section PartsCb.
Variables (h1 : hier) (tbl : list (Z * name)) (M : list arc3) (U : list name) (value : Z).
Hypothesis HI : InvMU Ss lvl new var h h1 M U.
Hypothesis HT : TblOk tbl value M.
Hypothesis Hh' : h' = add_child (h1 ++ [mkNode new lvl Ss [] (KBranch C_HEADH var tbl)]) lvl new.

Let head : node := mkNode new lvl Ss [] (KBranch C_HEADH var tbl).

Lemma new_not_in_h1 : find h1 new = None.
Proof.
  destruct (find h1 new) as [n'|] eqn:E; [|reflexivity]. exfalso.
  destruct (iv_only _ _ _ _ _ _ _ _ HI new n' E) as [A|[s [i Hi]]]; [congruence|].
  (* an assignment block is one of the fresh names, and those differ from new *)
  destruct (iv_asg _ _ _ _ _ _ _ _ HI s new i Hi) as [_ [_ [_ D]]]. congruence.
Qed.

Lemma lvl_in_h1 : exists nl, find h1 lvl = Some nl /\ is_region nl = true.
Proof.
  destruct Hlvl as [nl0 [A B]]. destruct (iv_img _ _ _ _ _ _ _ _ HI lvl nl0 A) as [nl [C R]].
  exists nl. split; [exact C|]. rewrite (NodeRelMU_region _ _ _ _ R). exact B.
Qed.

Lemma lvl_ne_new : lvl <> new.
Proof. intros E0. destruct Hlvl as [nl0 [A _]]. rewrite E0 in A. congruence. Qed.

(* lookups in the result *)
Lemma find_h'c x : find h' x =
  if Z.eqb x lvl then option_map (fun nl => with_children nl (fun ch => ch ++ [new])) (find h1 lvl)
  else if Z.eqb x new then Some head else find h1 x.
Proof.
  destruct lvl_in_h1 as [nl [Hnl _]].
  assert (Hfapp : forall y, find (h1 ++ [head]) y = if Z.eqb y new then Some head else find h1 y).
  { intros y. rewrite find_app_none. destruct (Z.eqb_spec y new) as [->|E].
    - rewrite new_not_in_h1. cbn. rewrite Z.eqb_refl. reflexivity.
    - destruct (find h1 y); [reflexivity|]. cbn. destruct (Z.eqb_spec new y); [congruence|reflexivity]. }
  rewrite Hh'. unfold add_child. rewrite Hfapp. destruct (Z.eqb_spec lvl new) as [E|E]; [exfalso; exact (lvl_ne_new E)|].
  rewrite Hnl. rewrite find_hset by (rewrite children_name, (find_name h1 lvl nl Hnl), Hfapp; destruct (Z.eqb lvl new); congruence).
  rewrite children_name, (find_name h1 lvl nl Hnl). cbn [option_map].
  destruct (Z.eqb x lvl); [reflexivity|apply Hfapp].
Qed.

(* every node of h is still there, related *)
Lemma node_after_c x n : find h x = Some n -> exists n', find h' x = Some n' /\
  (is_region n = false -> LeafRelM M n n' /\ is_region n' = false) /\ (is_region n = true -> RegRel n n').
Proof.
  intros Hn. destruct (iv_img _ _ _ _ _ _ _ _ HI x n Hn) as [n1 [H1 [_ [A B]]]].
  rewrite find_h'c. destruct (Z.eqb_spec x lvl) as [->|E].
  - rewrite H1. cbn [option_map]. eexists. split; [reflexivity|].
    destruct Hlvl as [nl0 [Hnl0 Hrl0]]. rewrite Hn in Hnl0. injection Hnl0 as <-.
    split; [congruence|]. intros _. eapply RegRel_trans; [apply B; exact Hrl0|].
    apply children_region. destruct lvl_in_h1 as [nl [C D]]. rewrite H1 in C. injection C as <-. exact D.
  - destruct (Z.eqb_spec x new) as [->|E2]; [congruence|]. exists n1. split; [exact H1|].
    split; [intros Hl; destruct (A Hl) as [L [_ R]]; auto|exact B].
Qed.

Lemma length_h' : (length h <= length h')%nat.
Proof.
  rewrite Hh'. unfold add_child. pose proof (iv_len _ _ _ _ _ _ _ _ HI) as Hl.
  match goal with |- context [match ?c with _ => _ end] => destruct c end.
  - rewrite hset_length, app_length. cbn. lia.
  - rewrite app_length. cbn. lia.
Qed.

(* names resolve as before: no header changed *)
Lemma enter_same : forall f t c, enter_flat h f t = Some c -> enter_flat h' f t = Some c.
Proof.
  induction f as [|f IH]; intros t c H; [discriminate|]. cbn [enter_flat] in *.
  destruct (find h t) as [n|] eqn:Hn; [|discriminate].
  destruct (node_after_c t n Hn) as [n' [Hn' [A B]]]. rewrite Hn'.
  destruct (n_kind n) as [| | | |rk0 hd0 e0 c0 p0 o0] eqn:Hk.
  1-4: (assert (Hl : is_region n = false) by (unfold is_region; rewrite Hk; reflexivity);
        destruct (A Hl) as [[_ [_ K]] _]; unfold KindRelM in K; rewrite Hk in K;
        destruct (n_kind n'); try contradiction; exact H).
  assert (Hl : is_region n = true) by (unfold is_region; rewrite Hk; reflexivity).
  destruct (B Hl) as [_ K]. rewrite Hk in K. destruct (n_kind n'); try contradiction. destruct K as [-> _].
  apply IH. exact H.
Qed.

Lemma resolve_same_c x t c : r x t = Some c -> r' x t = Some c.
Proof.
  unfold r, r', resolve_flat. intros H. apply enter_same in H.
  replace (S (length h')) with (S (length h) + (length h' - length h))%nat by (pose proof length_h'; lia).
  apply enter_flat_mono. exact H.
Qed.

Lemma find_head : find h' new = Some head.
Proof. rewrite find_h'c. destruct (Z.eqb_spec new lvl) as [E|E]; [exfalso; apply lvl_ne_new; auto|]. rewrite Z.eqb_refl. reflexivity. Qed.

Lemma resolve_new_c x : r' x new = Some new.
Proof. unfold r', resolve_flat. eapply CbPath.enter_flat_leaf; [exact find_head|reflexivity]. Qed.

(* ---------- the arcs ---------- *)
Lemma edge_same_c x b t : find h x = Some b -> is_region b = false -> In t (n_jt b) -> Edge h' r r' strict Fc Oldc x t t.
Proof.
  intros Hb Hl Hin e e' He.
  destruct (enter_flat h (S (length h)) t) as [c|] eqn:Hc; [|exfalso; exact (Hres x b t Hb Hl Hin Hc)].
  exists c, c, 0%nat, e'. split; [exact Hc|]. split; [exact (enter_flat_result h _ t c Hc)|].
  split; [apply resolve_same_c; exact Hc|]. split; [exact He|]. intros fuel. reflexivity.
Qed.

Lemma edge_arc x s a i : In (s, a, i) M -> Edge h' r r' strict Fc Oldc x s a.
Proof.
  intros Hin e e' He.
  destruct (iv_asg _ _ _ _ _ _ _ _ HI s a i Hin) as [Ha1 [Ha0 [_ Hanew]]].
  destruct (iv_mok _ _ _ _ _ _ _ _ HI) as [MO1 _]. destruct (MO1 _ _ _ Hin) as [HsS _].
  destruct HT as [T1 _]. pose proof (T1 _ _ _ Hin) as Hz.
  destruct (enter_flat h (S (length h)) s) as [c|] eqn:Hc; [|exfalso; exact (HresS s HsS Hc)].
  assert (Hal : a <> lvl) by (intros ->; destruct Hlvl as [nl0 [A _]]; congruence).
  assert (Hfa : find h' a = Some (asg_node lvl new var a i)).
  { rewrite find_h'c. destruct (Z.eqb_spec a lvl); [contradiction|]. destruct (Z.eqb_spec a new); [contradiction|exact Ha1]. }
  set (e1 := eupd [(var, i)] e').
  exists c, a, 2%nat, (if strict then eread var i [] new e1 else e1).
  split; [exact Hc|]. split; [exact (enter_flat_result h _ s c Hc)|].
  split; [unfold r', resolve_flat; eapply CbPath.enter_flat_leaf; [exact Hfa|reflexivity]|]. split.
  - intros w Hw. assert (Hwv : w <> var) by exact Hw.
    assert (H1 : elook w e1 = elook w e').
    { unfold e1. rewrite elook_eupd. cbn. destruct (Z.eqb_spec w var); [contradiction|reflexivity]. }
    destruct strict; [rewrite elook_eread; destruct (Z.eqb_spec w var); [contradiction|]|]; rewrite H1; apply He; exact Hw.
  - intros fuel. change (2 + fuel)%nat with (S (S fuel)).
    assert (Hstep1 : srun h' r' strict (S (S fuel)) a e' = srun h' r' strict (S fuel) new e1).
    { cbn [srun]. rewrite Hfa. unfold asg_node. cbn [n_kind n_jt]. rewrite (resolve_new_c a). reflexivity. }
    rewrite Hstep1. cbn [srun]. rewrite find_head. unfold head. cbn [n_kind n_jt].
    assert (Hl1 : elook var e1 = Some (i, [])) by (unfold e1; rewrite elook_eupd; cbn; rewrite Z.eqb_refl; reflexivity).
    rewrite Hl1, Hz. assert (zmem s Ss = true) as -> by (apply zmem_In; exact HsS).
    rewrite (resolve_same_c new s c Hc). destruct strict; reflexivity.
Qed.

Lemma hold_c : forall x, Oldc x -> exists b b', find h x = Some b /\ find h' x = Some b' /\
  Compat h' r r' strict Fc Oldc x b b'.
Proof.
  intros x [b [Hb Hl]]. destruct (node_after_c x b Hb) as [b' [Hb' [A _]]].
  destruct (A Hl) as [[_ [[Hlen Hpos] K]] _].
  exists b, b'. split; [exact Hb|]. split; [exact Hb'|].
  assert (Hedge : forall t t', In t (n_jt b) -> (t' = t \/ Rn M t t') -> Edge h' r r' strict Fc Oldc x t t').
  { intros t t' Hin [->|[i Hi]]; [eapply edge_same_c; eauto|eapply edge_arc; eauto]. }
  assert (Hedgek : forall k t t', nth_error (n_jt b) k = Some t -> nth_error (n_jt b') k = Some t' ->
                                  Edge h' r r' strict Fc Oldc x t t').
  { intros k t t' Ht Ht'. apply Hedge; [eapply nth_error_In; exact Ht|exact (Hpos k t t' Ht Ht')]. }
  destruct (Hleaves x b Hb Hl) as [_ [_ [Hbr Has]]].
  unfold Compat. unfold KindRelM in K.
  destruct (n_kind b) as [p|c|a|c v tb|? ? ? ? ? ?] eqn:Hk; destruct (n_kind b') as [p'|c'|a'|c' v' tb'|? ? ? ? ? ?] eqn:Hk';
    try contradiction.
  - split; [exact Hlen|exact Hedgek].
  - destruct (n_jt b) as [|t1 [|t2 r1]] eqn:Ej; destruct (n_jt b') as [|t1' [|t2' r2]] eqn:Ej'; try discriminate.
    + left. auto.
    + right. left. exists t1, t1'. split; [reflexivity|]. split; [reflexivity|]. apply (Hedgek 0%nat); reflexivity.
    + right. right. exists t1, t2, r1, t1', t2', r2. auto.
  - split; [exact K|]. split; [intros p Hp; unfold Fc; apply (Has a eq_refl p Hp)|].
    destruct (n_jt b) as [|t1 [|t2 r1]] eqn:Ej; destruct (n_jt b') as [|t1' [|t2' r2]] eqn:Ej'; try discriminate.
    + right. cbn. split; discriminate.
    + left. exists t1, t1'. split; [reflexivity|]. split; [reflexivity|]. apply (Hedgek 0%nat); reflexivity.
    + right. cbn. split; discriminate.
  - destruct K as [_ [-> T]]. split; [reflexivity|]. split; [unfold Fc; apply (Hbr c v tb eq_refl)|]. intros z. specialize (T z).
    destruct (proceed b tb z) as [t|] eqn:Hp; destruct (proceed b' tb' z) as [t'|] eqn:Hp'; cbn in T; try contradiction; [|exact I].
    apply Hedge; [|exact T].
    unfold proceed in Hp. destruct (zassoc z tb) as [t0|]; [|discriminate].
    destruct (zmem t0 (n_jt b)) eqn:Hm; [|discriminate]. injection Hp as <-. apply zmem_In. exact Hm.
Qed.
End PartsCb.

(* property C05: an original block keeps its payload and arity; a successor stays, or - if it is in S -
   becomes an assignment block of the level *)
Theorem insert_cb_h_conserves : forall x n p, find h x = Some n -> n_kind n = KOrig p ->
  exists n', find h' x = Some n' /\ n_kind n' = KOrig p /\ length (n_jt n') = length (n_jt n) /\
    forall k t t', nth_error (n_jt n) k = Some t -> nth_error (n_jt n') k = Some t' ->
      t' = t \/ (In t Ss /\ exists i, find h' t' = Some (mkNode t' lvl [new] [] (KAssign [(var, i)]))).
Proof.
  intros x n p Hn Hk.
  destruct parts_cb as [rank [h1 [tbl [M [U [value [_ [HI [HT Hh']]]]]]]]].
  destruct (node_after_c h1 tbl M U HI Hh' x n Hn) as [n' [Hn' [A _]]].
  assert (Hl : is_region n = false) by (unfold is_region; rewrite Hk; reflexivity).
  destruct (A Hl) as [[_ [[Hlen Hpos] K]] _]. exists n'. split; [exact Hn'|].
  unfold KindRelM in K. rewrite Hk in K. destruct (n_kind n') as [p'| | | |]; try contradiction. rewrite K.
  split; [reflexivity|]. split; [symmetry; exact Hlen|].
  intros k t t' Ht Ht'. destruct (Hpos k t t' Ht Ht') as [->|[i Hi]]; [left; reflexivity|right].
  destruct (iv_mok _ _ _ _ _ _ _ _ HI) as [MO1 _]. destruct (MO1 _ _ _ Hi) as [HsS _]. split; [exact HsS|].
  exists i. destruct (iv_asg _ _ _ _ _ _ _ _ HI t t' i Hi) as [Ha1 [Ha0 [_ Hanew]]].
  rewrite (find_h'c h1 tbl M U HI Hh').
  destruct (Z.eqb_spec t' lvl) as [->|E]; [destruct Hlvl as [nl0 [B _]]; congruence|].
  destruct (Z.eqb_spec t' new); [contradiction|exact Ha1].
Qed.

Theorem insert_cb_h_keeps_walks : forall n e e' ds tr st,
  (exists b p, find h n = Some b /\ n_kind b = KOrig p) ->
  E Fc e e' ->
  WTrace h r strict n e ds tr st -> WTrace h' r' strict n e' ds tr st.
Proof.
  intros n e e' ds tr st [b [p [Hb Hk]]] He Hw.
  destruct parts_cb as [rank [h1 [tbl [M [U [value [_ [HI [HT Hh']]]]]]]]].
  apply (walk_refines h h' r r' strict Fc Oldc (hold_c h1 tbl M U value HI HT Hh') n e ds tr st Hw e').
  - exists b. split; [exact Hb|]. unfold is_region. rewrite Hk. reflexivity.
  - eauto.
  - exact He.
Qed.

Theorem insert_cb_h_keeps_ctrace : forall n e e' ds,
  (exists b p, find h n = Some b /\ n_kind b = KOrig p) ->
  E Fc e e' ->
  CTrace h r strict n e ds -> CTrace h' r' strict n e' ds.
Proof.
  intros n e e' ds [b [p [Hb Hk]]] He Hw.
  destruct parts_cb as [rank [h1 [tbl [M [U [value [_ [HI [HT Hh']]]]]]]]].
  apply (ctrace_refines h h' r r' strict Fc Oldc (hold_c h1 tbl M U value HI HT Hh') n e ds Hw e').
  - exists b. split; [exact Hb|]. unfold is_region. rewrite Hk. reflexivity.
  - eauto.
  - exact He.
Qed.
End FinalCb.

(* Edits3.v — insert_block_and_control_blocks, universally: for every graph, every
   choice of predecessors and successors and every supply of fresh assignment
   names, each rerouted arc gets its own assignment block, which continues to
   the new head and sets the control variable to a value that the head's table
   sends to the arc's original target; every other position of every
   predecessor is unchanged.  (The statement the verified checker cb_ok decides
   per call, now proved for all calls.) *)
From Coq Require Import List ZArith Bool Lia Permutation.
Import ListNotations.
From V Require Import Valid.Hier Model.Graph Model.Edits Model.Edits2.
Local Open Scope Z_scope.

(* one created arc: original target, assignment block, value *)
Definition arc := (name * name * Z)%type.

Definition ArcsOf (jt0 jt : list name) (M : list arc) : Prop :=
  length jt = length jt0 /\
  forall k s t, nth_error jt0 k = Some s -> nth_error jt k = Some t ->
    t = s \/ exists i, In (s, t, i) M.

Lemma replace_first_length s a jt : length (replace_first s a jt) = length jt.
Proof. induction jt as [|t r IH]; [reflexivity|]. cbn. destruct (Z.eqb t s); cbn; congruence. Qed.

(* position by position: the first position holding s gets a, every other position is unchanged *)
Lemma replace_first_nth s a jt : forall k t', nth_error (replace_first s a jt) k = Some t' ->
  nth_error jt k = Some t' \/ (nth_error jt k = Some s /\ t' = a).
Proof.
  induction jt as [|t r IH]; intros k t' H; [destruct k; discriminate|]. cbn in H.
  destruct (Z.eqb t s) eqn:E.
  - apply Z.eqb_eq in E. subst t. destruct k as [|k]; cbn in *; [injection H as <-; right; auto|left; exact H].
  - destruct k as [|k]; cbn in *; [left; exact H|]. apply IH. exact H.
Qed.

Section CB.
Variables (new var : Z) (S : list name).   (* S: names no assignment block may take *)

(* the state of the loop: graph, table, next value, names still available, arcs created *)
Record Inv (g : egraph) (tbl : list (Z * name)) (value : Z) (names : list name) (M : list arc) : Prop := {
  iv_arcs : forall s a i, In (s, a, i) M ->
      efind g a = Some (mkE [new] [] (EAssign [(var, i)])) /\ zassoc i tbl = Some s /\ 0 <= i < value /\
      ~ In a names /\ ~ In a S;
  iv_tbl : forall i s, zassoc i tbl = Some s -> 0 <= i < value;
  iv_names : NoDup names /\ forall a, In a names -> efind g a = None /\ ~ In a S;
  iv_value : 0 <= value }.

Lemma zassoc_tset tbl k v x : zassoc x (tset tbl k v) = if Z.eqb x k then Some v else zassoc x tbl.
Proof. unfold tset. apply zassoc_dset. Qed.

(* the inner loop: one assignment block per successor in ss *)
Lemma cb_arcs_spec : forall ss g jt0 jt value tbl names M g1 jt1 value1 tbl1 names1,
  Inv g tbl value names M ->
  ArcsOf jt0 jt M ->
  (forall s, In s ss -> In s S) ->
  cb_arcs g new var ss jt value tbl names = Some (g1, jt1, value1, tbl1, names1) ->
  exists M1,
    Inv g1 tbl1 value1 names1 M1 /\ ArcsOf jt0 jt1 M1 /\
    (forall x, In x M -> In x M1) /\
    (forall x, ~ In x names -> efind g1 x = efind g x) /\
    (forall a, In a names1 -> In a names).
Proof.
  induction ss as [|s rest IH]; intros g jt0 jt value tbl names M g1 jt1 value1 tbl1 names1 HI HA HsS H.
  - cbn in H. injection H as <- <- <- <- <-. exists M. split; [exact HI|]. split; [exact HA|]. auto 10.
  - cbn [cb_arcs] in H. destruct names as [|a names']; [discriminate|].
    destruct HI as [Iarcs Itbl [Inn Inf] Iv].
    inversion Inn as [|? ? Hani Hnn']; subst.
    set (g' := dset g a (mkE [new] [] (EAssign [(var, value)]))) in *.
    set (M' := (s, a, value) :: M).
    assert (Hfa : forall x, efind g' x = if Z.eqb x a then Some (mkE [new] [] (EAssign [(var, value)])) else efind g x)
      by (intros x; unfold g', efind; apply zassoc_dset).
    destruct (Inf a (or_introl eq_refl)) as [Hga HaS].
    assert (HI' : Inv g' (tset tbl value s) (value + 1) names' M').
    { constructor.
      - intros s0 a0 i0 [[= <- <- <-]|Hin].
        + rewrite Hfa, Z.eqb_refl. rewrite zassoc_tset, Z.eqb_refl. repeat split; auto; lia.
        + destruct (Iarcs _ _ _ Hin) as [A [B [C [D E0]]]].
          assert (Hne : a0 <> a) by (intros ->; apply D; left; reflexivity).
          rewrite Hfa. destruct (Z.eqb a0 a) eqn:E; [apply Z.eqb_eq in E; contradiction|].
          rewrite zassoc_tset. destruct (Z.eqb i0 value) eqn:E2; [apply Z.eqb_eq in E2; lia|].
          repeat split; auto; try lia. intros Hx. apply D. right. exact Hx.
      - intros i s0. rewrite zassoc_tset. destruct (Z.eqb i value) eqn:E.
        + apply Z.eqb_eq in E. intros _. lia.
        + intros Hz. specialize (Itbl _ _ Hz). lia.
      - split; [exact Hnn'|]. intros a0 Ha0. rewrite Hfa.
        destruct (Z.eqb a0 a) eqn:E; [apply Z.eqb_eq in E; subst; contradiction|]. apply Inf. right. exact Ha0.
      - lia. }
    assert (HA' : ArcsOf jt0 (replace_first s a jt) M').
    { destruct HA as [Hl Hp]. split; [rewrite replace_first_length; exact Hl|].
      intros k s0 t Hs0 Ht. destruct (replace_first_nth s a jt k t Ht) as [Hsame|[Hks ->]].
      - destruct (Hp k s0 t Hs0 Hsame) as [->|[i Hi]]; [left; reflexivity|right; exists i; right; exact Hi].
      - (* the position holds s in the current tuple: it is the original s - an assignment name is never in S *)
        destruct (Hp k s0 s Hs0 Hks) as [->|[i Hi]]; [right; exists value; left; reflexivity|].
        exfalso. destruct (Iarcs _ _ _ Hi) as [_ [_ [_ [_ HnS]]]]. apply HnS. apply HsS. left. reflexivity. }
    destruct (IH g' jt0 (replace_first s a jt) (value + 1) (tset tbl value s) names' M' g1 jt1 value1 tbl1 names1
                 HI' HA' (fun s0 Hs0 => HsS s0 (or_intror Hs0)) H)
      as [M1 [I1 [A1 [Hsub [Hkeep Hnames]]]]].
    exists M1. split; [exact I1|]. split; [exact A1|]. split; [intros x Hx; apply Hsub; right; exact Hx|].
    split.
    + intros x Hx. rewrite Hkeep by (intros Hi; apply Hx; right; exact Hi).
      rewrite Hfa. destruct (Z.eqb x a) eqn:E; [apply Z.eqb_eq in E; subst; exfalso; apply Hx; left; reflexivity|reflexivity].
    + intros a0 Ha0. right. apply Hnames. exact Ha0.
Qed.

End CB.

Lemma ArcsOf_refl jt M : ArcsOf jt jt M.
Proof. split; [reflexivity|]. intros k s t H1 H2. left. congruence. Qed.

Lemma ArcsOf_mono jt0 jt M M1 : (forall x, In x M -> In x M1) -> ArcsOf jt0 jt M -> ArcsOf jt0 jt M1.
Proof.
  intros Hs [Hl Hp]. split; [exact Hl|]. intros k s t H1 H2.
  destruct (Hp k s t H1 H2) as [->|[i Hi]]; [left; reflexivity|right; exists i; apply Hs; exact Hi].
Qed.

Lemma In_zsort_filter (S jt : list name) s : In s (zsort (filter (fun t => zmem t S) jt)) -> In s S.
Proof.
  intros H. apply (proj1 (zsort_In _ _)) in H.
  apply filter_In in H as [_ H]. apply zmem_In. exact H.
Qed.

(* the outer loop over the predecessors.  F: new, the predecessors and the successors S *)
Lemma cb_preds_spec new var Ss F g0 names0 :
  (forall s, In s Ss -> In s F) ->
  forall preds g value tbl names M done,
  NoDup preds -> (forall p, In p preds -> In p F) -> (forall p, In p done -> In p F) ->
  (forall p, In p preds -> ~ In p done) ->
  Inv new var F g tbl value names M ->
  (forall p, In p preds -> efind g p = efind g0 p) ->
  (forall p, In p done -> exists b b', efind g0 p = Some b /\ efind g p = Some b' /\
       replace_jt b (e_jt b') = Some b' /\ ArcsOf (e_jt b) (e_jt b') M) ->
  (forall a, In a names -> In a names0) ->
  (forall x, ~ In x done -> ~ In x names0 -> efind g x = efind g0 x) ->
  forall g' tbl',
  cb_preds g new var Ss preds value tbl names = Ok (g', tbl') ->
  exists value' names' M',
    Inv new var F g' tbl' value' names' M' /\
    (forall p, In p preds \/ In p done -> exists b b', efind g0 p = Some b /\ efind g' p = Some b' /\
       replace_jt b (e_jt b') = Some b' /\ ArcsOf (e_jt b) (e_jt b') M') /\
    (forall x, ~ In x preds -> ~ In x done -> ~ In x names0 -> efind g' x = efind g0 x).
Proof.
  intros HSsF. induction preds as [|p rest IH];
    intros g value tbl names M done Hnd HpF HdF Hpd HI Hrest Hdone Hn0 Hoth g' tbl' H.
  - cbn in H. injection H as <- <-. exists value, names, M. split; [exact HI|]. split; [|intros x _; apply Hoth].
    intros p [[]|Hp]. apply Hdone. exact Hp.
  - cbn [cb_preds] in H. inversion Hnd as [|? ? Hnp Hnd']; subst.
    destruct (efind g p) as [b|] eqn:Hb; [|discriminate].
    destruct (cb_arcs g new var (zsort (filter (fun t => zmem t Ss) (e_jt b))) (e_jt b) value tbl names)
      as [[[[[g1 jt] value1] tbl1] names1]|] eqn:Ha; [|discriminate].
    destruct (dpop g1 p) as [[b0 g2]|] eqn:Hpop; [|discriminate].
    destruct (replace_jt b0 jt) as [b'|] eqn:Hr; [|discriminate].
    destruct (cb_arcs_spec new var F _ g (e_jt b) (e_jt b) value tbl names M g1 jt value1 tbl1 names1
                HI (ArcsOf_refl _ _) (fun s Hs => HSsF s (In_zsort_filter _ _ _ Hs)) Ha)
      as [M1 [I1 [A1 [Hsub [Hkeep Hnames]]]]].
    assert (HFn : forall x, In x F -> ~ In x names).
    { intros x Hx Hn. destruct HI as [_ _ [_ Inf] _]. destruct (Inf x Hn) as [_ HnF]. contradiction. }
    assert (HpF' : In p F) by (apply HpF; left; reflexivity).
    assert (Hb0 : b0 = b).
    { apply dpop_value in Hpop. unfold efind in *. rewrite Hkeep in Hpop by (apply HFn; exact HpF'). congruence. }
    subst b0. destruct (replace_jt_facts _ _ _ Hr) as [Hjt Hbe].
    set (g3 := dset g2 p b') in *.
    assert (Hf3 : forall x, efind g3 x = if Z.eqb x p then Some b' else efind g1 x).
    { intros x. unfold g3, efind. rewrite zassoc_dset. destruct (Z.eqb x p) eqn:E; [reflexivity|].
      apply Z.eqb_neq in E. eapply zassoc_dpop; eauto. }
    assert (Hf3n : forall x, x <> p -> efind g3 x = efind g1 x).
    { intros x Hx. rewrite Hf3. destruct (Z.eqb x p) eqn:E; [apply Z.eqb_eq in E; contradiction|reflexivity]. }
    assert (I3 : Inv new var F g3 tbl1 value1 names1 M1).
    { destruct I1 as [Jarcs Jtbl [Jnn Jnf] Jv]. constructor; auto.
      - intros s a i Hin. destruct (Jarcs _ _ _ Hin) as [A [B [C [D E]]]].
        rewrite Hf3n by (intros ->; contradiction). auto.
      - split; [exact Jnn|]. intros a Hain. destruct (Jnf a Hain) as [A B].
        rewrite Hf3n by (intros ->; contradiction). auto. }
    assert (P1 : forall q, In q rest -> In q F) by (intros q Hq; apply HpF; right; exact Hq).
    assert (P2 : forall q, In q (p :: done) -> In q F) by (intros q [<-|Hq]; [exact HpF'|apply HdF; exact Hq]).
    assert (P3 : forall q, In q rest -> ~ In q (p :: done)).
    { intros q Hq [<-|Hd]; [contradiction|]. apply (Hpd q); [right; exact Hq|exact Hd]. }
    assert (P4 : forall q, In q rest -> efind g3 q = efind g0 q).
    { intros q Hq. rewrite Hf3n by (intros ->; contradiction).
      rewrite Hkeep by (apply HFn, HpF; right; exact Hq). apply Hrest. right. exact Hq. }
    assert (P5 : forall q, In q (p :: done) -> exists b b', efind g0 q = Some b /\ efind g3 q = Some b' /\
       replace_jt b (e_jt b') = Some b' /\ ArcsOf (e_jt b) (e_jt b') M1).
    { intros q [<-|Hq].
      * exists b, b'. split; [rewrite <- Hrest by (left; reflexivity); exact Hb|].
        rewrite Hf3, Z.eqb_refl. split; [reflexivity|]. rewrite Hjt. split; [exact Hr|]. exact A1.
      * destruct (Hdone q Hq) as [c [c' [H1 [H2 [H3 H4]]]]]. exists c, c'. split; [exact H1|].
        assert (q <> p) by (intros ->; apply (Hpd p); [left; reflexivity|exact Hq]).
        rewrite Hf3n by assumption. rewrite Hkeep by (apply HFn, HdF; exact Hq).
        split; [exact H2|]. split; [exact H3|]. eapply ArcsOf_mono; eauto. }
    assert (P6 : forall a, In a names1 -> In a names0) by (intros a Ha0; apply Hn0, Hnames; exact Ha0).
    assert (P7 : forall x, ~ In x (p :: done) -> ~ In x names0 -> efind g3 x = efind g0 x).
    { intros x Hxd Hxn0. assert (x <> p) by (intros ->; apply Hxd; left; reflexivity).
      rewrite Hf3n by assumption. rewrite Hkeep by (intros Hi; apply Hxn0, Hn0; exact Hi).
      apply Hoth; [|assumption]. intros Hd. apply Hxd. right. exact Hd. }
    destruct (IH g3 value1 tbl1 names1 M1 (p :: done) Hnd' P1 P2 P3 I3 P4 P5 P6 P7 g' tbl' H)
      as [value' [names' [M' [I' [Hall Hoth']]]]].
    exists value', names', M'. split; [exact I'|]. split.
    2:{ intros x Hxp Hxd. apply Hoth'; [intros Hi; apply Hxp; right; exact Hi|].
        intros [<-|Hd]; [apply Hxp; left; reflexivity|contradiction]. }
    intros q [[<-|Hq]|Hq]; apply Hall; [right; left; reflexivity|left; exact Hq|right; right; exact Hq].
Qed.

(* ---------- the whole primitive, for every graph ---------- *)
Theorem insert_cb_spec g new var preds Ss names cls g' :
  NoDup preds -> ~ In new preds -> NoDup names ->
  (forall a, In a names -> efind g a = None /\ a <> new /\ ~ In a preds /\ ~ In a Ss) ->
  insert_cb g new var preds Ss names cls = Ok g' ->
  exists tbl,
    efind g' new = Some (mkE Ss [] (EBranch cls var tbl)) /\
    (forall p, In p preds -> exists b b', efind g p = Some b /\ efind g' p = Some b' /\
       length (e_jt b) = length (e_jt b') /\ e_be b' = e_be b /\ replace_jt b (e_jt b') = Some b' /\
       forall k s t', nth_error (e_jt b) k = Some s -> nth_error (e_jt b') k = Some t' ->
                      ArcOk g' new var tbl s t') /\
    (forall x, x <> new -> ~ In x preds -> ~ In x names -> efind g' x = efind g x).
Proof.
  intros Hnd Hnew Hndn Hfresh. unfold insert_cb.
  destruct (cb_preds g new var Ss preds 0 [] names) as [[g1 tbl]| |] eqn:Hp; try discriminate.
  intros [= <-]. set (F := new :: preds ++ Ss).
  assert (HI : Inv new var F g [] 0 names []).
  { constructor.
    - intros s a i [].
    - intros i s. cbn. discriminate.
    - split; [exact Hndn|]. intros a Ha. destruct (Hfresh a Ha) as [A [B [C D]]]. split; [exact A|].
      unfold F. intros [E|E]; [congruence|]. apply in_app_or in E as [E|E]; contradiction.
    - lia. }
  destruct (cb_preds_spec new var Ss F g names
              (fun s Hs => or_intror (in_or_app _ _ _ (or_intror Hs)))
              preds g 0 [] names [] [] Hnd
              (fun p Hp0 => or_intror (in_or_app _ _ _ (or_introl Hp0)))
              (fun p (Hp0 : In p []) => match Hp0 with end)
              (fun p _ (Hp0 : In p []) => match Hp0 with end)
              HI (fun p _ => eq_refl)
              (fun p (Hp0 : In p []) => match Hp0 with end)
              (fun a Ha => Ha) (fun x _ _ => eq_refl) g1 tbl Hp)
    as [value' [names' [M' [[Jarcs Jtbl Jn Jv] [Hall Hoth]]]]].
  assert (Hf : forall x, efind (dset g1 new (mkE Ss [] (EBranch cls var tbl))) x =
                         if Z.eqb x new then Some (mkE Ss [] (EBranch cls var tbl)) else efind g1 x)
    by (intros x; unfold efind; apply zassoc_dset).
  assert (Hfn : forall x, x <> new -> efind (dset g1 new (mkE Ss [] (EBranch cls var tbl))) x = efind g1 x).
  { intros x Hx. rewrite Hf. destruct (Z.eqb x new) eqn:E; [apply Z.eqb_eq in E; contradiction|reflexivity]. }
  exists tbl. split; [rewrite Hf, Z.eqb_refl; reflexivity|]. split.
  - intros p Hpin. destruct (Hall p (or_introl Hpin)) as [b [b' [H1 [H2 [H3 [Hl Hpos]]]]]].
    exists b, b'. split; [exact H1|]. rewrite Hfn by (intros ->; contradiction).
    split; [exact H2|]. split; [symmetry; exact Hl|]. split; [apply (replace_jt_facts _ _ _ H3)|]. split; [exact H3|].
    intros k s t' Hs Ht. destruct (Hpos k s t' Hs Ht) as [->|[i Hi]]; [left; reflexivity|].
    right. exists i. destruct (Jarcs _ _ _ Hi) as [A [B [_ [_ E]]]].
    rewrite Hfn by (intros ->; apply E; left; reflexivity). auto.
  - intros x Hx Hxp Hxn. rewrite Hfn by exact Hx. apply Hoth; auto.
Qed.

(* ---------- which positions are rerouted ---------- *)
Lemma nodup_replace_first' s a jt : NoDup jt -> ~ In a jt -> NoDup (replace_first s a jt).
Proof.
  induction jt as [|t r IH]; intros Hnd Ha; [constructor|]. cbn.
  inversion Hnd as [|? ? Hnt Hnd']; subst. destruct (Z.eqb t s).
  - constructor; [intros H; apply Ha; right; exact H|exact Hnd'].
  - constructor; [|apply IH; [exact Hnd'|intros H; apply Ha; right; exact H]].
    intros H. apply In_replace_first in H as [->|H]; [apply Ha; left; reflexivity|contradiction].
Qed.

Lemma replace_first_other s a jt : forall k t, nth_error jt k = Some t -> t <> s ->
  nth_error (replace_first s a jt) k = Some t.
Proof.
  induction jt as [|x r IH]; intros k t H Hne; [destruct k; discriminate|]. cbn.
  destruct (Z.eqb x s) eqn:E.
  - apply Z.eqb_eq in E. subst x. destruct k as [|k]; cbn in *; [congruence|exact H].
  - destruct k as [|k]; cbn in *; [exact H|]. apply IH; assumption.
Qed.

Lemma replace_first_hit s a jt : NoDup jt -> forall k, nth_error jt k = Some s ->
  nth_error (replace_first s a jt) k = Some a.
Proof.
  induction jt as [|x r IH]; intros Hnd k H; [destruct k; discriminate|]. cbn.
  inversion Hnd as [|? ? Hnx Hnd']; subst. destruct (Z.eqb x s) eqn:E.
  - apply Z.eqb_eq in E. subst x. destruct k as [|k]; [reflexivity|].
    cbn in H. exfalso. apply Hnx. eapply nth_error_In; eauto.
  - destruct k as [|k]; cbn in *; [apply Z.eqb_neq in E; congruence|]. apply IH; assumption.
Qed.

Lemma cb_arcs_names new var : forall ss g jt value tbl names g1 jt1 value1 tbl1 names1,
  cb_arcs g new var ss jt value tbl names = Some (g1, jt1, value1, tbl1, names1) ->
  forall x, In x names1 -> In x names.
Proof.
  induction ss as [|s rest IH]; intros g jt value tbl names g1 jt1 value1 tbl1 names1 H x Hx.
  - cbn in H. injection H as <- <- <- <- <-. exact Hx.
  - cbn [cb_arcs] in H. destruct names as [|a names']; [discriminate|]. right. eapply IH; eauto.
Qed.

Lemma cb_arcs_keep new var : forall ss g jt value tbl names g1 jt1 value1 tbl1 names1,
  cb_arcs g new var ss jt value tbl names = Some (g1, jt1, value1, tbl1, names1) ->
  forall x, ~ In x names -> efind g1 x = efind g x.
Proof.
  induction ss as [|s rest IH]; intros g jt value tbl names g1 jt1 value1 tbl1 names1 H x Hx.
  - cbn in H. injection H as <- <- <- <- <-. reflexivity.
  - cbn [cb_arcs] in H. destruct names as [|a names']; [discriminate|].
    rewrite (IH _ _ _ _ _ _ _ _ _ _ H x) by (intros Hi; apply Hx; right; exact Hi).
    unfold efind. rewrite zassoc_dset. destruct (Z.eqb x a) eqn:E; [|reflexivity].
    apply Z.eqb_eq in E. subst. exfalso. apply Hx. left. reflexivity.
Qed.

Lemma cb_arcs_pos new var : forall ss g jt value tbl names g1 jt1 value1 tbl1 names1,
  NoDup ss -> NoDup names -> NoDup jt ->
  (forall a, In a names -> ~ In a ss /\ ~ In a jt) ->
  cb_arcs g new var ss jt value tbl names = Some (g1, jt1, value1, tbl1, names1) ->
  NoDup jt1 /\
  (forall k t, nth_error jt k = Some t -> ~ In t ss -> nth_error jt1 k = Some t) /\
  (forall k s, nth_error jt k = Some s -> In s ss ->
     exists a, In a names /\ ~ In a names1 /\ nth_error jt1 k = Some a) /\
  (forall x, In x jt1 -> In x jt \/ (In x names /\ ~ In x names1)).
Proof.
  induction ss as [|s rest IH]; intros g jt value tbl names g1 jt1 value1 tbl1 names1 Hss Hnn Hjt Hfr H.
  - cbn in H. injection H as <- <- <- <- <-. split; [exact Hjt|]. split; [auto|]. split; [intros k s _ []|auto].
  - cbn [cb_arcs] in H. destruct names as [|a names']; [discriminate|].
    inversion Hss as [|? ? Hsr Hss']; subst. inversion Hnn as [|? ? Han Hnn']; subst.
    destruct (Hfr a (or_introl eq_refl)) as [Hass Hajt].
    assert (Hjt' : NoDup (replace_first s a jt)) by (apply nodup_replace_first'; assumption).
    assert (Hfr' : forall a0, In a0 names' -> ~ In a0 rest /\ ~ In a0 (replace_first s a jt)).
    { intros a0 Ha0. destruct (Hfr a0 (or_intror Ha0)) as [A B]. split; [intros Hi; apply A; right; exact Hi|].
      intros Hi. apply In_replace_first in Hi as [->|Hi]; contradiction. }
    assert (Hsub : forall x, In x names1 -> In x names') by (eapply cb_arcs_names; eauto).
    destruct (IH _ _ _ _ _ _ _ _ _ _ Hss' Hnn' Hjt' Hfr' H) as [R1 [R2 [R3 R4]]].
    assert (Ha1 : ~ In a names1) by (intros Hi; apply Han, Hsub; exact Hi).
    split; [exact R1|]. split; [|split].
    + intros k t Hk Ht. apply R2; [|intros Hi; apply Ht; right; exact Hi].
      apply replace_first_other; [exact Hk|]. intros ->. apply Ht. left. reflexivity.
    + intros k s0 Hk [<-|Hin].
      * exists a. split; [left; reflexivity|]. split; [exact Ha1|].
        apply R2; [apply replace_first_hit; assumption|].
        intros Hi. apply Hass. right. exact Hi.
      * assert (s0 <> s) by (intros ->; contradiction).
        destruct (R3 k s0 (replace_first_other _ _ _ _ _ Hk H0) Hin) as [a0 [A [B C]]].
        exists a0. split; [right; exact A|]. auto.
    + intros x Hx. destruct (R4 x Hx) as [Hi|[A B]].
      * apply In_replace_first in Hi as [->|Hi]; [right; split; [left; reflexivity|exact Ha1]|left; exact Hi].
      * right. split; [right; exact A|exact B].
Qed.

Lemma sorted_nodup l : Sorted.StronglySorted Z.lt l -> NoDup l.
Proof.
  induction 1 as [|x l Hs IH Hall]; constructor; [|exact IH].
  intros Hin. rewrite Forall_forall in Hall. specialize (Hall x Hin). lia.
Qed.

(* a finished predecessor: positions outside S unchanged, positions into S now hold
   a name of the supply that is no longer available *)
Definition PosOk (Ss names0 names : list name) (jt0 jt' : list name) : Prop :=
  NoDup jt' /\
  (forall k s t', nth_error jt0 k = Some s -> nth_error jt' k = Some t' ->
     (~ In s Ss -> t' = s) /\ (In s Ss -> In t' names0 /\ t' <> s)) /\
  (forall x, In x jt' -> In x names0 -> ~ In x names).

Lemma cb_preds_pos new var Ss names0 g0 :
  (forall a, In a names0 -> ~ In a Ss) ->
  forall preds g value tbl names done,
  NoDup preds -> NoDup names -> (forall a, In a names -> In a names0) ->
  (forall p, In p preds -> ~ In p done /\ ~ In p names0) -> (forall p, In p done -> ~ In p names0) ->
  (forall p b, In p preds -> efind g0 p = Some b -> NoDup (e_jt b) /\ forall a, In a names0 -> ~ In a (e_jt b)) ->
  (forall p, In p preds -> efind g p = efind g0 p) ->
  (forall p, In p done -> exists b b', efind g0 p = Some b /\ efind g p = Some b' /\
       PosOk Ss names0 names (e_jt b) (e_jt b')) ->
  (forall p q b1 b2, In p done -> In q done -> p <> q -> efind g p = Some b1 -> efind g q = Some b2 ->
       forall a, In a names0 -> In a (e_jt b1) -> ~ In a (e_jt b2)) ->
  forall g' tbl',
  cb_preds g new var Ss preds value tbl names = Ok (g', tbl') ->
  (forall p, In p preds \/ In p done -> exists b b', efind g0 p = Some b /\ efind g' p = Some b' /\
       PosOk Ss names0 [] (e_jt b) (e_jt b')) /\
  (forall p q b1 b2, In p preds \/ In p done -> In q preds \/ In q done -> p <> q ->
       efind g' p = Some b1 -> efind g' q = Some b2 ->
       forall a, In a names0 -> In a (e_jt b1) -> ~ In a (e_jt b2)).
Proof.
  intros HnS. induction preds as [|p rest IH];
    intros g value tbl names done Hnd Hnn Hn0 Hpd Hdn0 Hjt0 Hrest Hdone Hdisj g' tbl' H.
  - cbn in H. injection H as <- <-. split.
    + intros p [[]|Hp]. destruct (Hdone p Hp) as [b [b' [A [B [C1 [C2 C3]]]]]]. exists b, b'.
      split; [exact A|]. split; [exact B|]. split; [exact C1|]. split; [exact C2|]. intros x _ _ [].
    + intros p q b1 b2 [[]|Hp] [[]|Hq]. apply Hdisj; assumption.
  - cbn [cb_preds] in H. inversion Hnd as [|? ? Hnp Hnd']; subst.
    destruct (efind g p) as [b|] eqn:Hb; [|discriminate].
    destruct (cb_arcs g new var (zsort (filter (fun t => zmem t Ss) (e_jt b))) (e_jt b) value tbl names)
      as [[[[[g1 jt] value1] tbl1] names1]|] eqn:Ha; [|discriminate].
    destruct (dpop g1 p) as [[b0 g2]|] eqn:Hpop; [|discriminate].
    destruct (replace_jt b0 jt) as [b'|] eqn:Hr; [|discriminate].
    assert (Hb0 : efind g0 p = Some b) by (rewrite <- Hrest by (left; reflexivity); exact Hb).
    destruct (Hjt0 p b (or_introl eq_refl) Hb0) as [Hndjt Hfrjt].
    assert (Hfr : forall a, In a names -> ~ In a (zsort (filter (fun t => zmem t Ss) (e_jt b))) /\ ~ In a (e_jt b)).
    { intros a Ha0. split; [|apply Hfrjt, Hn0; exact Ha0].
      intros Hi. apply In_zsort_filter in Hi. apply (HnS a); [apply Hn0; exact Ha0|exact Hi]. }
    destruct (cb_arcs_pos new var _ _ _ _ _ _ _ _ _ _ _ (sorted_nodup _ (zsort_sorted _)) Hnn Hndjt Hfr Ha)
      as [R1 [R2 [R3 R4]]].
    assert (Hsub : forall x, In x names1 -> In x names) by (eapply cb_arcs_names; eauto).
    destruct (replace_jt_facts _ _ _ Hr) as [Hjt _].
    set (g3 := dset g2 p b') in *.
    assert (Hf3 : forall x, efind g3 x = if Z.eqb x p then Some b' else efind g1 x).
    { intros x. unfold g3, efind. rewrite zassoc_dset. destruct (Z.eqb x p) eqn:E; [reflexivity|].
      apply Z.eqb_neq in E. eapply zassoc_dpop; eauto. }
    assert (Hf3n : forall x, x <> p -> efind g3 x = efind g1 x).
    { intros x Hx. rewrite Hf3. destruct (Z.eqb x p) eqn:E; [apply Z.eqb_eq in E; contradiction|reflexivity]. }
    assert (Hkeep : forall x, ~ In x names -> efind g1 x = efind g x) by (eapply cb_arcs_keep; eauto).
    assert (Hn1 : NoDup names1).
    { clear -Ha Hnn. revert Ha Hnn. generalize (zsort (filter (fun t => zmem t Ss) (e_jt b))) as ss.
      generalize (e_jt b) as jt0. revert g value tbl names.
      intros g value tbl names jt0 ss. revert g jt0 value tbl names.
      induction ss as [|s r IHs]; intros g jt0 value tbl names H Hn; cbn in H.
      - injection H as <- <- <- <- <-. exact Hn.
      - destruct names as [|a n']; [discriminate|]. inversion Hn; subst. eapply IHs; eauto. }
    assert (Hpn0 : ~ In p names0) by (apply Hpd; left; reflexivity).
    assert (HposP : PosOk Ss names0 names1 (e_jt b) jt).
    { split; [exact R1|]. split.
      - intros k s t' Hs Ht. split.
        + intros HsS. rewrite (R2 k s Hs) in Ht; [congruence|].
          intros Hi. apply HsS. eapply In_zsort_filter; eauto.
        + intros HsS. assert (Hin : In s (zsort (filter (fun t => zmem t Ss) (e_jt b)))).
          { apply zsort_In. apply filter_In. split; [eapply nth_error_In; eauto|apply zmem_In; exact HsS]. }
          destruct (R3 k s Hs Hin) as [a [A [B C]]]. rewrite C in Ht. injection Ht as <-.
          split; [apply Hn0; exact A|]. intros ->. apply (proj2 (Hfr _ A)). eapply nth_error_In; eauto.
      - intros x Hx Hx0. destruct (R4 x Hx) as [Hi|[_ B]]; [exfalso; apply (Hfrjt x Hx0); exact Hi|exact B]. }
    assert (Hinp : forall x, In x jt -> In x names0 -> In x names).
    { intros x Hx Hx0. destruct (R4 x Hx) as [Hi|[A _]]; [exfalso; apply (Hfrjt x Hx0); exact Hi|exact A]. }
    assert (Hdq : forall q, In q done -> q <> p /\ efind g3 q = efind g q).
    { intros q Hq. assert (q <> p) by (intros ->; apply (proj1 (Hpd p (or_introl eq_refl))); exact Hq).
      split; [assumption|]. rewrite Hf3n by assumption. apply Hkeep. intros Hi. apply (Hdn0 q Hq), Hn0; exact Hi. }
    apply (IH g3 value1 tbl1 names1 (p :: done) Hnd' Hn1) in H.
    + destruct H as [Hall Hdj]. split.
      * intros q [[<-|Hq]|Hq]; apply Hall; [right; left; reflexivity|left; exact Hq|right; right; exact Hq].
      * intros q1 q2 b1 b2 Hq1 Hq2. apply Hdj.
        -- destruct Hq1 as [[<-|Hq1]|Hq1]; [right; left; reflexivity|left; exact Hq1|right; right; exact Hq1].
        -- destruct Hq2 as [[<-|Hq2]|Hq2]; [right; left; reflexivity|left; exact Hq2|right; right; exact Hq2].
    + intros a Ha0. apply Hn0, Hsub. exact Ha0.
    + intros q Hq. destruct (Hpd q (or_intror Hq)) as [A B]. split; [|exact B].
      intros [<-|Hd]; [contradiction|contradiction].
    + intros q [<-|Hq]; [exact Hpn0|apply Hdn0; exact Hq].
    + intros q c Hq. apply Hjt0. right. exact Hq.
    + intros q Hq. rewrite Hf3n by (intros ->; contradiction).
      rewrite Hkeep by (intros Hi; apply (proj2 (Hpd q (or_intror Hq))), Hn0; exact Hi).
      apply Hrest. right. exact Hq.
    + intros q [<-|Hq].
      * exists b, b'. split; [exact Hb0|]. rewrite Hf3, Z.eqb_refl. split; [reflexivity|]. rewrite Hjt. exact HposP.
      * destruct (Hdone q Hq) as [c [c' [A [B [C1 [C2 C3]]]]]]. exists c, c'. split; [exact A|].
        rewrite (proj2 (Hdq q Hq)). split; [exact B|]. split; [exact C1|]. split; [exact C2|].
        intros x Hx Hx0 Hi. apply (C3 x Hx Hx0). apply Hsub. exact Hi.
    + intros q1 q2 b1 b2 [<-|Hq1] [<-|Hq2] Hne E1 E2 a Ha0 Hi1 Hi2.
      * contradiction.
      * rewrite Hf3, Z.eqb_refl in E1. injection E1 as <-. rewrite Hjt in Hi1.
        rewrite (proj2 (Hdq q2 Hq2)) in E2. destruct (Hdone q2 Hq2) as [c [c' [_ [B [_ [_ C3]]]]]].
        rewrite B in E2. injection E2 as <-. apply (C3 a Hi2 Ha0). apply Hinp; assumption.
      * rewrite Hf3, Z.eqb_refl in E2. injection E2 as <-. rewrite Hjt in Hi2.
        rewrite (proj2 (Hdq q1 Hq1)) in E1. destruct (Hdone q1 Hq1) as [c [c' [_ [B [_ [_ C3]]]]]].
        rewrite B in E1. injection E1 as <-. apply (C3 a Hi1 Ha0). apply Hinp; assumption.
      * rewrite (proj2 (Hdq q1 Hq1)) in E1. rewrite (proj2 (Hdq q2 Hq2)) in E2.
        eapply (Hdisj q1 q2); eauto.
Qed.

(* ---------- every arc into S is rerouted through its own assignment block ---------- *)
Theorem insert_cb_reroutes g new var preds Ss names cls g' :
  NoDup preds -> ~ In new preds -> NoDup names ->
  (forall a, In a names -> efind g a = None /\ a <> new /\ ~ In a preds /\ ~ In a Ss) ->
  (forall p b, In p preds -> efind g p = Some b -> NoDup (e_jt b) /\ forall a, In a names -> ~ In a (e_jt b)) ->
  insert_cb g new var preds Ss names cls = Ok g' ->
  exists tbl,
    efind g' new = Some (mkE Ss [] (EBranch cls var tbl)) /\
    (forall p, In p preds -> exists b b', efind g p = Some b /\ efind g' p = Some b' /\
       length (e_jt b) = length (e_jt b') /\ e_be b' = e_be b /\ replace_jt b (e_jt b') = Some b' /\ NoDup (e_jt b') /\
       forall k s t', nth_error (e_jt b) k = Some s -> nth_error (e_jt b') k = Some t' ->
         (~ In s Ss -> t' = s) /\
         (In s Ss -> In t' names /\
            exists i, efind g' t' = Some (mkE [new] [] (EAssign [(var, i)])) /\ zassoc i tbl = Some s)) /\
    (forall p q b1 b2, In p preds -> In q preds -> p <> q -> efind g' p = Some b1 -> efind g' q = Some b2 ->
       forall a, In a names -> In a (e_jt b1) -> ~ In a (e_jt b2)) /\
    (forall x, x <> new -> ~ In x preds -> ~ In x names -> efind g' x = efind g x).
Proof.
  intros Hnd Hnew Hndn Hfresh Hjts H.
  destruct (insert_cb_spec _ _ _ _ _ _ _ _ Hnd Hnew Hndn Hfresh H) as [tbl [Hhead [Hpreds Hoth]]].
  unfold insert_cb in H.
  destruct (cb_preds g new var Ss preds 0 [] names) as [[g1 tbl0]| |] eqn:Hp; try discriminate.
  injection H as <-.
  assert (Hfn : forall x, x <> new -> efind (dset g1 new (mkE Ss [] (EBranch cls var tbl0))) x = efind g1 x).
  { intros x Hx. unfold efind. rewrite zassoc_dset.
    destruct (Z.eqb x new) eqn:E; [apply Z.eqb_eq in E; contradiction|reflexivity]. }
  destruct (cb_preds_pos new var Ss names g (fun a Ha => proj2 (proj2 (proj2 (Hfresh a Ha))))
              preds g 0 [] names [] Hnd Hndn (fun a Ha => Ha)
              (fun p Hp0 => conj (fun (Hx : In p []) => match Hx with end)
                                 (fun Hi => proj1 (proj2 (proj2 (Hfresh p Hi))) Hp0))
              (fun p (Hx : In p []) => match Hx with end)
              Hjts (fun p _ => eq_refl)
              (fun p (Hx : In p []) => match Hx with end)
              (fun p q b1 b2 (Hx : In p []) => match Hx with end)
              g1 tbl0 Hp) as [Hpos Hdisj].
  exists tbl. split; [exact Hhead|]. split; [|split; [|exact Hoth]].
  - intros p Hpin. destruct (Hpreds p Hpin) as [b [b' [H1 [H2 [Hl [Hbe [Hrj Harc]]]]]]].
    exists b, b'. split; [exact H1|]. split; [exact H2|]. split; [exact Hl|]. split; [exact Hbe|]. split; [exact Hrj|].
    destruct (Hpos p (or_introl Hpin)) as [c [c' [G1 [G2 [P1 [P2 _]]]]]].
    assert (c = b) by congruence. subst c.
    assert (c' = b') by (rewrite Hfn in H2 by (intros ->; contradiction); congruence). subst c'.
    split; [exact P1|]. intros k s t' Hs Ht. destruct (P2 k s t' Hs Ht) as [Q1 Q2].
    split; [exact Q1|]. intros HsS. destruct (Q2 HsS) as [Q3 Q4]. split; [exact Q3|].
    destruct (Harc k s t' Hs Ht) as [->|Hx]; [contradiction|exact Hx].
  - intros p q b1 b2 Hpi Hqi Hne E1 E2. rewrite Hfn in E1 by (intros ->; contradiction).
    rewrite Hfn in E2 by (intros ->; contradiction).
    apply (Hdisj p q b1 b2 (or_introl Hpi) (or_introl Hqi) Hne E1 E2).
Qed.

(* ---------- the head's table has distinct keys ---------- *)
Lemma dset_keys_nodup {A} (l : list (Z * A)) k v : NoDup (map fst l) -> NoDup (map fst (dset l k v)).
Proof.
  induction l as [|[k' v'] r IH]; intros H; cbn; [constructor; [intros []|constructor]|].
  cbn in H. inversion H as [|? ? Hk Hr]; subst.
  destruct (Z.eqb k k') eqn:E; cbn; [constructor; assumption|].
  constructor; [|apply IH; exact Hr].
  intros Hi. apply Hk. clear -Hi E. induction r as [|[k2 v2] r IH]; cbn in *.
  - destruct Hi as [Hi|[]]. apply Z.eqb_neq in E. congruence.
  - destruct (Z.eqb k k2) eqn:E2; cbn in Hi; [exact Hi|]. destruct Hi as [Hi|Hi]; [left; exact Hi|right; apply IH; exact Hi].
Qed.

Lemma cb_arcs_tbl_nodup new var : forall ss g jt value tbl names g1 jt1 value1 tbl1 names1,
  NoDup (map fst tbl) ->
  cb_arcs g new var ss jt value tbl names = Some (g1, jt1, value1, tbl1, names1) -> NoDup (map fst tbl1).
Proof.
  induction ss as [|s rest IH]; intros g jt value tbl names g1 jt1 value1 tbl1 names1 Hnd H.
  - cbn in H. injection H as <- <- <- <- <-. exact Hnd.
  - cbn [cb_arcs] in H. destruct names as [|a names']; [discriminate|].
    eapply IH; [|exact H]. unfold tset. apply dset_keys_nodup. exact Hnd.
Qed.

Lemma cb_preds_tbl_nodup new var Ss : forall preds g value tbl names g' tbl',
  NoDup (map fst tbl) ->
  cb_preds g new var Ss preds value tbl names = Ok (g', tbl') -> NoDup (map fst tbl').
Proof.
  induction preds as [|p rest IH]; intros g value tbl names g' tbl' Hnd H.
  - cbn in H. injection H as <- <-. exact Hnd.
  - cbn [cb_preds] in H. destruct (efind g p) as [b|]; [|discriminate].
    destruct (cb_arcs g new var _ (e_jt b) value tbl names) as [[[[[g1 jt] value1] tbl1] names1]|] eqn:Ha; [|discriminate].
    destruct (dpop g1 p) as [[b0 g2]|]; [|discriminate].
    destruct (replace_jt b0 jt) as [b'|]; [|discriminate].
    eapply IH; [|exact H]. eapply cb_arcs_tbl_nodup; [exact Hnd|exact Ha].
Qed.

Theorem insert_cb_tbl_nodup g new var preds Ss names cls g' c v tbl :
  insert_cb g new var preds Ss names cls = Ok g' ->
  efind g' new = Some (mkE Ss [] (EBranch c v tbl)) -> NoDup (map fst tbl).
Proof.
  unfold insert_cb. destruct (cb_preds g new var Ss preds 0 [] names) as [[g1 tbl0]| |] eqn:Hp; try discriminate.
  intros [= <-] Hf. unfold efind in Hf. rewrite zassoc_dset, Z.eqb_refl in Hf. injection Hf as _ _ <-.
  eapply cb_preds_tbl_nodup; [|exact Hp]. constructor.
Qed.

(* UniHierPath.v — the rotation of a loop with SEVERAL headers at ANY level of a hierarchy keeps every
   flat walk: the level's dictionary, header unification (Edits2.insert_cb, entries that are blocks)
   followed by the rotation on the unified head (LoopEdit.loop_rotate, the head's variable reused as
   the exit variable), written back into the hierarchy.
   Route, as for one header (LoopHierPath.v): the flat walk of a hierarchy is the walk of its resolved
   leaf graph (Flatten.v); both edits, pushed through the resolution of region names, are the same
   edits of the resolved leaf graph (CbRename.v, LoopRename2.v); these keep every walk of a flat
   graph (LoopPath2.v); what write_back does to the resolved leaf graph is LoopHierPath.link. *)
From Coq Require Import List ZArith Bool Lia.
Import ListNotations.
From V Require Import Valid.Hier Valid.Walk Valid.FlatRegion Model.Graph Model.Edits Model.Edits2 Model.Edits3
     Model.JoinPath Model.Refine Model.CbPath Model.ExtractPath Model.LoopEdit Model.LoopSpec Model.LoopPath
     Model.LoopPath2 Model.Extract Model.CbHier Model.LoopHier Model.Flatten Model.LoopRename Model.InsRename
     Model.CbRename Model.LoopRename2 Model.LoopHierPath.
Local Open Scope Z_scope.

Definition not_eq (x : name) : name -> bool := fun y => negb (Z.eqb y x).

Section FinalU.
Variables (h : hier) (lvl top : name) (nl : node) (H : name) (v : Z) (entries headers names_cb : list name)
          (exits todo : list name) (header_tbl : list (Z * name)) (isback : name -> name -> bool)
          (latch sexit : name) (bv : Z) (names : list name) (g0 g1 g1' : egraph) (strict : bool).
Let h' := write_back h lvl g1'.
Let rh := rho h.
Let needs : bool := match exits with _ :: _ :: _ => true | _ => false end.
Let todo' : list name := filter (not_eq H) todo.
Let todoL : list name := entries ++ todo'.
Let namesL : list name := H :: names_cb ++ names.
Let dl : list name :=
  exits ++ H :: latch :: sexit :: names ++ names_cb ++ headers ++
  flat_map (fun p => match efind g0 p with Some b => blk_targets b | None => [] end) todoL.

(* the model: the level's dictionary, unified, rotated, written back *)
Hypothesis Hl : find h lvl = Some nl.
Hypothesis Hlr : is_region nl = true.
Hypothesis HLG : collect h (children_h nl) = Some g0.
Hypothesis Hcb1 : insert_cb g0 H v entries headers names_cb C_HEAD = Ok g1.
Hypothesis Hhtbl1 : efind g1 H = Some (mkE headers [] (EBranch C_HEAD v header_tbl)).
Hypothesis Htbl_in : forall q, In q header_tbl -> In (snd q) headers.
Hypothesis Hrot1 : loop_rotate g1 H headers exits todo true header_tbl isback latch sexit v bv names = Ok g1'.
(* both hierarchies: distinct names, top unused, no plain block of the class reserved for original blocks,
   every successor / declared back edge / table target of a block resolves, table targets are successors *)
Hypothesis Hnd_h : NoDup (Hier.names h).
Hypothesis Htop_h : ~ In top (Hier.names h).
Hypothesis Hplain_h : forall n, In n h -> n_kind n <> KPlain 100.
Hypothesis Hres_h : forall x n t, find h x = Some n -> is_region n = false -> In t (node_targets n) ->
  enter_flat h (S (length h)) t <> None.
Hypothesis Htab_h : forall x n c w tbl z t, find h x = Some n -> n_kind n = KBranch c w tbl ->
  zassoc z tbl = Some t -> In t (n_jt n).
Hypothesis Hnd_h' : NoDup (Hier.names h').
Hypothesis Htop_h' : ~ In top (Hier.names h').
Hypothesis Hplain_h' : forall n, In n h' -> n_kind n <> KPlain 100.
Hypothesis Hres_h' : forall x n t, find h' x = Some n -> is_region n = false -> In t (n_jt n) ->
  enter_flat h' (S (length h')) t <> None.
Hypothesis Htab_h' : forall x n c w tbl z t, find h' x = Some n -> n_kind n = KBranch c w tbl ->
  zassoc z tbl = Some t -> In t (n_jt n).
(* the resulting dictionary *)
Hypothesis Hkeys' : NoDup (ekeys g1').
Hypothesis Hlvl' : efind g1' lvl = None.
Hypothesis Hstay : forall p, In p todoL -> efind g1' p <> None.
Hypothesis Hkind : forall p b b', In p todoL -> efind g0 p = Some b -> efind g1' p = Some b' ->
  match e_kind b with
  | EBranch _ _ _ => exists c w t, e_kind b' = EBranch c w t
  | k => e_kind b' = k
  end.
Hypothesis Hres_new : forall x b t, (In x todoL \/ In x namesL \/ x = latch \/ x = sexit) -> efind g1' x = Some b ->
  In t (blk_targets b) -> enter_flat h (S (length h)) t <> None \/ find h t = None.
(* the arguments *)
Hypothesis Hfresh : forall x, (In x namesL \/ x = latch \/ x = sexit) -> find h x = None.
Hypothesis Hentries_h : forall p, In p entries -> exists n, find h p = Some n /\ is_region n = false /\
  zmem p (children_h nl) = true.
Hypothesis Htodo_h : forall p, In p todo' -> exists n, find h p = Some n /\ is_region n = false /\
  zmem p (children_h nl) = true /\ (forall c w t, n_kind n <> KBranch c w t).
Hypothesis Hheaders_h : forall s, In s headers -> exists n, find h s = Some n /\ is_region n = false.
Hypothesis Hndt : NoDup todo.
Hypothesis Hndn : NoDup names.
Hypothesis Hnde : NoDup entries.
Hypothesis Hnt : forall a, In a names -> ~ In a todo.
Hypothesis Hte : forall p, In p todo -> ~ In p entries.
Hypothesis Hncb_e : forall a, In a names_cb -> ~ In a entries.
(* distinct names that matter resolve to distinct blocks *)
Hypothesis Hinj : forall a b, In a dl -> In b dl -> rh a = rh b -> a = b.
(* the hypotheses of the flat theorem (LoopPath2.unified_rotation_keeps_walks), on the resolved leaf graph *)
Hypothesis HG_names_cb : NoDup names_cb /\
  forall a, In a names_cb -> a <> H /\ ~ In a headers /\ a <> top.
Hypothesis HG_pjt : forall p b, In p entries -> efind (RL h) p = Some b ->
  NoDup (e_jt b) /\ (forall a, In a names_cb -> ~ In a (e_jt b)) /\
  (forall c w t, e_kind b = EBranch c w t -> NoDup (map fst t)).
Hypothesis HG_topH : top <> H.
Hypothesis HG_headers : NoDup headers /\ (forall s, In s headers -> ~ In s exits).
Hypothesis HG_vars : v <> bv /\ forall x b, efind (RL h) x = Some b ->
  match e_kind b with
  | EAssign a => forall p, In p a -> fst p <> v /\ fst p <> bv
  | EBranch _ w _ => w <> v /\ w <> bv
  | EPlain _ => True
  end.
Hypothesis HG_todo : forall p, In p todo' -> exists b, efind (RL h) p = Some b /\ nonbranch b /\ e_be b = [] /\
  NoDup (e_jt b) /\ (forall a, In a names -> ~ In a (e_jt b)).
Hypothesis HG_backH : forall t, In t headers -> isback H t = false.
Hypothesis HG_names : forall a, In a names -> ~ In a names_cb /\ a <> H /\ a <> latch /\ a <> sexit /\ a <> top.
Hypothesis HG_latch : ~ In latch names_cb /\ latch <> H /\ latch <> top /\ ~ In latch todo.
Hypothesis HG_sexit : needs = true ->
  ~ In sexit names_cb /\ sexit <> H /\ sexit <> latch /\ sexit <> top /\ ~ In sexit todo.
Hypothesis Hsx_cb : ~ In sexit names_cb.
Hypothesis HG_exits : NoDup (map rh exits) /\ (forall x, In x (map rh exits) -> In x (ekeys (RL h))) /\
  (forall s, In s headers -> ~ In s (map rh exits)).
Hypothesis HG_cover : forall t, In t headers -> exists p b k, In p entries /\ efind (RL h) p = Some b /\ nth_error (e_jt b) k = Some t.

Let Kcb := fun x => In x entries \/ In x names_cb \/ x = H.
Let Krot := fun x => In x todo \/ In x names \/ x = latch \/ x = sexit.
Let KL := fun x => In x todoL \/ In x namesL \/ x = latch \/ x = sexit.
Let Dd := fun x => In x dl.

Lemma Hres_jt : forall x n t, find h x = Some n -> is_region n = false -> In t (n_jt n) ->
  enter_flat h (S (length h)) t <> None.
Proof. intros x n t Hn Hr Ht. apply (Hres_h x n t Hn Hr). unfold node_targets. apply in_or_app. left. exact Ht. Qed.

Lemma efind_g0 x : efind g0 x = if zmem x (children_h nl) then option_map eblk_of (find h x) else None.
Proof. apply (efind_collect h _ _ _ HLG). Qed.

Lemma efind_G x : efind (RL h) x =
  match find h x with Some n => if is_region n then None else Some (rl h n) | None => None end.
Proof. unfold RL. apply efind_RL_gen. exact Hnd_h. Qed.

Lemma todo_split p : In p todo -> p = H \/ In p todo'.
Proof.
  intros Hi. destruct (Z.eq_dec p H) as [->|Hne]; [left; reflexivity|]. right. unfold todo', not_eq.
  apply filter_In. split; [exact Hi|]. destruct (Z.eqb_spec p H); [contradiction|reflexivity].
Qed.

Lemma todo'_todo p : In p todo' -> In p todo /\ p <> H.
Proof.
  unfold todo', not_eq. intros Hi. apply filter_In in Hi as [Hi Hb]. split; [exact Hi|].
  intros ->. rewrite Z.eqb_refl in Hb. discriminate.
Qed.

Lemma KL_iff x : KL x <-> Kcb x \/ Krot x.
Proof.
  unfold KL, Kcb, Krot, todoL, namesL. split.
  - intros [Hx|[Hx|Hx]].
    + apply in_app_or in Hx as [Hx|Hx]; [left; left; exact Hx|]. right. left. apply todo'_todo in Hx. apply Hx.
    + destruct Hx as [<-|Hx]; [left; right; right; reflexivity|].
      apply in_app_or in Hx as [Hx|Hx]; [left; right; left; exact Hx|right; right; left; exact Hx].
    + right. right. right. exact Hx.
  - intros [[Hx|[Hx|Hx]]|[Hx|[Hx|Hx]]].
    + left. apply in_or_app. left. exact Hx.
    + right. left. right. apply in_or_app. left. exact Hx.
    + right. left. left. symmetry. exact Hx.
    + destruct (todo_split x Hx) as [->|Hx']; [right; left; left; reflexivity|]. left. apply in_or_app. right. exact Hx'.
    + right. left. right. apply in_or_app. right. exact Hx.
    + right. right. exact Hx.
Qed.

(* a block of the level that is no region, or an unused name: the level's dictionary and the resolved
   leaf graph hold the same block, up to the resolution of its targets *)
Lemma rel_base x :
  (exists n, find h x = Some n /\ is_region n = false /\ zmem x (children_h nl) = true) \/ find h x = None ->
  efind (RL h) x = option_map (mapb rh) (efind g0 x).
Proof.
  intros [[n [Hn [Hr Hz]]]|Hn].
  - rewrite efind_G, efind_g0, Hn, Hr, Hz. cbn [option_map]. unfold rh. rewrite mapb_eblk_of. reflexivity.
  - rewrite efind_G, efind_g0, Hn. destruct (zmem x (children_h nl)); reflexivity.
Qed.

Lemma base_of x : KL x ->
  (exists n, find h x = Some n /\ is_region n = false /\ zmem x (children_h nl) = true) \/ find h x = None.
Proof.
  unfold KL, todoL. intros [Hx|Hx].
  - left. apply in_app_or in Hx as [Hx|Hx]; [apply Hentries_h; exact Hx|].
    destruct (Htodo_h x Hx) as [n [A [B [C _]]]]. eauto.
  - right. apply Hfresh. exact Hx.
Qed.

Lemma in_dl_blk p b t : In p todoL -> efind g0 p = Some b -> In t (blk_targets b) -> In t dl.
Proof.
  intros Hp Hb Ht. unfold dl. apply in_or_app. right. right. right. right. apply in_or_app. right.
  apply in_or_app. right. apply in_or_app. right.
  apply in_flat_map. exists p. split; [exact Hp|]. rewrite Hb. exact Ht.
Qed.

Lemma dl_exits x : In x exits -> In x dl.  Proof. intros Hx. unfold dl. apply in_or_app. left. exact Hx. Qed.
Lemma dl_H : In H dl.  Proof. unfold dl. apply in_or_app. right. left. reflexivity. Qed.
Lemma dl_latch : In latch dl.  Proof. unfold dl. apply in_or_app. right. right. left. reflexivity. Qed.
Lemma dl_sexit : In sexit dl.  Proof. unfold dl. apply in_or_app. right. right. right. left. reflexivity. Qed.
Lemma dl_names x : In x names -> In x dl.
Proof. intros Hx. unfold dl. apply in_or_app. right. right. right. right. apply in_or_app. left. exact Hx. Qed.
Lemma dl_names_cb x : In x names_cb -> In x dl.
Proof.
  intros Hx. unfold dl. apply in_or_app. right. right. right. right. apply in_or_app. right. apply in_or_app. left. exact Hx.
Qed.
Lemma dl_headers x : In x headers -> In x dl.
Proof.
  intros Hx. unfold dl. apply in_or_app. right. right. right. right. apply in_or_app. right. apply in_or_app. right.
  apply in_or_app. left. exact Hx.
Qed.

Lemma fix_headers s : In s headers -> rh s = s.
Proof. intros Hs. destruct (Hheaders_h s Hs) as [n [A B]]. apply (rho_leaf h s n A B). Qed.
Lemma fix_fresh x : (In x namesL \/ x = latch \/ x = sexit) -> rh x = x.
Proof. intros Hx. apply rho_fresh. apply Hfresh. exact Hx. Qed.

Lemma ejts_nobe jt k : ejts (mkE jt [] k) = jt.
Proof. unfold ejts. cbn [e_jt e_be]. induction jt as [|t r IH]; [reflexivity|]. cbn in *. f_equal. exact IH. Qed.

Lemma map_fix (l : list name) : (forall x, In x l -> rh x = x) -> map rh l = l.
Proof.
  induction l as [|x r IH]; intros Hf; [reflexivity|]. cbn. rewrite (Hf x (or_introl eq_refl)), IH; [reflexivity|].
  intros y Hy. apply Hf. right. exact Hy.
Qed.

(* both edits, pushed through the resolution of region names *)
Lemma renamed : exists GA G',
  insert_cb (RL h) H v entries headers names_cb C_HEAD = Ok GA /\
  efind GA H = Some (mkE headers [] (EBranch C_HEAD v header_tbl)) /\
  loop_rotate GA H headers (map rh exits) todo true header_tbl isback latch sexit v bv names = Ok G' /\
  (forall x, KL x -> efind G' x = option_map (mapb rh) (efind g1' x)) /\
  (forall x, ~ KL x -> efind g1' x = efind g0 x /\ efind G' x = efind (RL h) x).
Proof.
  destruct (insert_cb_rho rh Dd Hinj H v headers (fix_fresh H (or_introl (or_introl eq_refl)))
              (fun s Hs => conj (fix_headers s Hs) (dl_headers s Hs))
              Kcb g0 (RL h) entries names_cb C_HEAD g1 Hcb1) as [GA [EGA [HKcb HFcb]]].
  - intros x. unfold Kcb. tauto.
  - intros x Kx. apply rel_base. apply base_of. apply KL_iff. left. exact Kx.
  - exact Hnde.
  - intros p b Hp Hb. assert (HpL : In p todoL) by (apply in_or_app; left; exact Hp). split.
    + intros y Hy. apply (in_dl_blk p b y HpL Hb). unfold blk_targets. apply in_or_app. left. exact Hy.
    + intros c w t Ek q Hq. apply (in_dl_blk p b (snd q) HpL Hb). unfold blk_targets. apply in_or_app. right.
      apply in_or_app. right. rewrite Ek. cbn. apply in_map. exact Hq.
  - intros a Ha. split; [apply dl_names_cb; exact Ha|]. split; [|apply Hncb_e; exact Ha].
    apply fix_fresh. left. right. apply in_or_app. left. exact Ha.
  - assert (HGA_H : efind GA H = Some (mkE headers [] (EBranch C_HEAD v header_tbl))).
    { rewrite (HKcb H (or_intror (or_intror eq_refl))), Hhtbl1. cbn [option_map]. unfold mapb. cbn [e_jt e_be e_kind map].
      rewrite (map_fix headers fix_headers). f_equal. f_equal. f_equal.
      assert (Hm : forall tbl : list (Z * name), (forall q, In q tbl -> In (snd q) headers) -> map_snd rh tbl = tbl).
      { unfold map_snd. induction tbl as [|[k t] r IH]; intros Ht; [reflexivity|]. cbn [map fst snd].
        rewrite (fix_headers t (Ht (k, t) (or_introl eq_refl))), IH; [reflexivity|].
        intros q Hq. apply Ht. right. exact Hq. }
      apply Hm. exact Htbl_in. }
    (* a processed block other than the head is as it was in the level's dictionary *)
    assert (Hnot_cb : forall p, In p todo' -> ~ Kcb p).
    { intros p Hp [Hx|[Hx|Hx]].
      - apply (Hte p (proj1 (todo'_todo p Hp)) Hx).
      - destruct (Htodo_h p Hp) as [n [A _]]. rewrite (Hfresh p (or_introl (or_intror (in_or_app _ _ _ (or_introl Hx))))) in A. discriminate.
      - apply (proj2 (todo'_todo p Hp)). exact Hx. }
    assert (Hrel_rot : Rel rh Krot g1 GA).
    { intros x Kx. destruct (Z.eq_dec x H) as [->|HxH]; [apply HKcb; right; right; reflexivity|].
      assert (NK : ~ Kcb x).
      { intros [Hx|[Hx|Hx]]; [|  |contradiction].
        - destruct Kx as [Kx|[Kx|[Kx|Kx]]].
          + exact (Hte x Kx Hx).
          + destruct (Hentries_h x Hx) as [n [A _]]. rewrite (Hfresh x (or_introl (or_intror (in_or_app _ _ _ (or_intror Kx))))) in A. discriminate.
          + destruct (Hentries_h x Hx) as [n [A _]]. rewrite (Hfresh x (or_intror (or_introl Kx))) in A. discriminate.
          + destruct (Hentries_h x Hx) as [n [A _]]. rewrite (Hfresh x (or_intror (or_intror Kx))) in A. discriminate.
        - destruct Kx as [Kx|[Kx|[Kx|Kx]]].
          + destruct (todo_split x Kx) as [E|Kx']; [contradiction|]. apply (Hnot_cb x Kx'). right. left. exact Hx.
          + apply (proj1 (HG_names x Kx)). exact Hx.
          + subst x. apply (proj1 HG_latch). exact Hx.
          + subst x. exact (Hsx_cb Hx). }
      destruct (HFcb x NK) as [A B]. rewrite A, B. apply rel_base. apply base_of. apply KL_iff. right. exact Kx. }
    destruct (loop_rotate_rho_q rh Dd Hinj g1 GA H headers exits todo true header_tbl isback latch sexit v bv names g1' Hrot1)
      as [G' [EG' [HKrot HFrot]]].
    + exact Hrel_rot.
    + exact Hndt.
    + exact Hndn.
    + intros x Hx. split; [apply fix_headers; exact Hx|apply dl_headers; exact Hx].
    + intros x Hx. apply dl_exits. exact Hx.
    + apply fix_fresh. left. left. reflexivity.
    + apply dl_H.
    + apply fix_fresh. right. left. reflexivity.
    + apply dl_latch.
    + apply fix_fresh. right. right. reflexivity.
    + apply dl_sexit.
    + intros p Hp. destruct (todo_split p Hp) as [->|Hp'].
      * exists (mkE headers [] (EBranch C_HEAD v header_tbl)). split; [exact Hhtbl1|]. cbn [e_jt e_be e_kind].
        split; [intros y Hy; apply dl_headers; exact Hy|]. split; [intros y []|]. right. split.
        -- rewrite ejts_nobe. intros jt Hjt. unfold ctx_of. cbn [l_exits l_headers l_isback]. split.
           ++ apply zmem_false. apply (proj2 HG_headers). exact Hjt.
           ++ rewrite (HG_backH jt Hjt). apply andb_false_r.
        -- intros cc w t [= _ _ <-] q Hq. apply dl_headers. apply Htbl_in. exact Hq.
      * destruct (Htodo_h p Hp') as [np [Hnp [Hr [Hz Hnb]]]].
        assert (Eg0 : efind g0 p = Some (eblk_of np)) by (rewrite efind_g0, Hz, Hnp; reflexivity).
        assert (Eg : efind g1 p = Some (eblk_of np)) by (rewrite (proj1 (HFcb p (Hnot_cb p Hp'))); exact Eg0).
        assert (HpL : In p todoL) by (apply in_or_app; right; exact Hp').
        exists (eblk_of np). split; [exact Eg|].
        split; [intros y Hy; apply (in_dl_blk p _ y HpL Eg0); unfold blk_targets; apply in_or_app; left; exact Hy|].
        split; [intros y Hy; apply (in_dl_blk p _ y HpL Eg0); unfold blk_targets; apply in_or_app; right; apply in_or_app; left; exact Hy|].
        left. unfold nonbranch, eblk_of. cbn. intros cc w t. destruct (n_kind np) eqn:Ek; cbn; try discriminate. exfalso. eapply Hnb; eauto.
    + intros a Ha. split; [apply dl_names; exact Ha|]. split; [|apply Hnt; exact Ha].
      apply fix_fresh. left. right. apply in_or_app. right. exact Ha.
    + exists GA, G'. split; [exact EGA|]. split; [exact HGA_H|]. split; [exact EG'|]. split.
      * intros x Kx.
        assert (Kdec : {Krot x} + {~ Krot x}).
        { unfold Krot. destruct (in_dec Z.eq_dec x todo); [left; auto|]. destruct (in_dec Z.eq_dec x names); [left; auto|].
          destruct (Z.eq_dec x latch); [left; auto|]. destruct (Z.eq_dec x sexit); [left; auto|]. right. tauto. }
        destruct Kdec as [Kr|NKr]; [apply HKrot; exact Kr|].
        destruct (HFrot x NKr) as [A B]. rewrite A, B. apply HKcb.
        apply KL_iff in Kx as [Kx|Kx]; [exact Kx|contradiction].
      * intros x NK. assert (NKr : ~ Krot x) by (intros Kx; apply NK; apply KL_iff; right; exact Kx).
        assert (NKc : ~ Kcb x) by (intros Kx; apply NK; apply KL_iff; left; exact Kx).
        destruct (HFrot x NKr) as [A B]. destruct (HFcb x NKc) as [A0 B0]. split; congruence.
Qed.

Lemma orig_stays n bn pn : find h n = Some bn -> n_kind bn = KOrig pn ->
  (forall x, ~ KL x -> efind g1' x = efind g0 x) ->
  exists b' p', find h' n = Some b' /\ n_kind b' = KOrig p'.
Proof.
  intros Hbn Hkn HF1.
  assert (Hnl : n <> lvl) by (intros ->; rewrite Hl in Hbn; injection Hbn as <-; unfold is_region in Hlr; rewrite Hkn in Hlr; discriminate).
  unfold h'. rewrite (find_write_back h lvl g1' n nl Hkeys' Hl Hlvl' Hnl).
  destruct (efind g1' n) as [b'|] eqn:Eb; [|eauto].
  eexists. exists pn. split; [reflexivity|]. unfold node_back. rewrite Hbn. cbn [n_kind].
  destruct (in_dec Z.eq_dec n todoL) as [Ht|Hnt0].
  - assert (Hz : zmem n (children_h nl) = true).
    { apply in_app_or in Ht as [Ht|Ht]; [destruct (Hentries_h n Ht) as [n0 [_ [_ Hz]]]; exact Hz|].
      destruct (Htodo_h n Ht) as [n0 [_ [_ [Hz _]]]]. exact Hz. }
    assert (Eg : efind g0 n = Some (eblk_of bn)) by (rewrite efind_g0, Hz, Hbn; reflexivity).
    pose proof (Hkind n _ _ Ht Eg Eb) as Hk. cbn [eblk_of e_kind] in Hk. rewrite Hkn in Hk. cbn [ekind_of] in Hk.
    rewrite Hk. cbn [kind_back]. exact Hkn.
  - assert (NK : ~ KL n).
    { intros [Hx|Hx]; [contradiction|]. rewrite (Hfresh n Hx) in Hbn. discriminate. }
    rewrite (HF1 n NK), efind_g0 in Eb. destruct (zmem n (children_h nl)); [|discriminate].
    rewrite Hbn in Eb. injection Eb as <-. cbn [eblk_of e_kind]. rewrite Hkn. reflexivity.
Qed.

Lemma fresh_G x : (In x namesL \/ x = latch \/ x = sexit) -> efind (RL h) x = None.
Proof. intros Hx. rewrite efind_G, (Hfresh x Hx). reflexivity. Qed.

Lemma linked G' :
  (forall x, KL x -> efind G' x = option_map (mapb rh) (efind g1' x)) ->
  (forall x, ~ KL x -> efind g1' x = efind g0 x /\ efind G' x = efind (RL h) x) ->
  forall x, efind (RL h') x = efind G' x.
Proof.
  intros HKrel HF.
  assert (HtodoW : forall p, In p todoL -> exists n0, find h p = Some n0 /\ is_region n0 = false /\ zmem p (children_h nl) = true).
  { intros p Hp. apply in_app_or in Hp as [Hp|Hp]; [apply Hentries_h; exact Hp|].
    destruct (Htodo_h p Hp) as [np [A [B [C _]]]]. eauto. }
  assert (HkindW : forall p b b', In p todoL -> efind g0 p = Some b -> efind g1' p = Some b' ->
             match e_kind b' with EBranch _ _ _ => True | k => k = e_kind b end).
  { intros p b b' Hp Hb Hb'. pose proof (Hkind p b b' Hp Hb Hb') as Hk.
    destruct (e_kind b) eqn:E1; [rewrite Hk; reflexivity|rewrite Hk; reflexivity|].
    destruct Hk as [c0 [w0 [t0 Hk]]]. rewrite Hk. exact I. }
  intros x. unfold h'.
  exact (link h lvl nl todoL namesL latch sexit g0 g1' G' Hl Hlr HLG Hnd_h Hkeys' Hlvl' Hfresh HtodoW Hstay HkindW
              HKrel (fun x0 NK => proj1 (HF x0 NK)) (fun x0 NK => proj2 (HF x0 NK)) Hres_h Hres_new Hnd_h' x).
Qed.

Ltac flat_hyps :=
  first [ exact HG_pjt | exact HG_vars | exact HG_backH | exact HG_cover ].

Theorem unified_rotation_h_keeps_walks : forall n e e' ds tr st,
  (exists b p, find h n = Some b /\ n_kind b = KOrig p) ->
  E (Fu v bv) e e' ->
  WTrace h (resolve_flat h) strict n e ds tr st -> WTrace h' (resolve_flat h') strict n e' ds tr st.
Proof.
  intros n e e' ds tr st [bn [pn [Hbn Hkn]]] He W.
  destruct renamed as [GA [G' [EGA [HGA_H [EG' [HKrel HF]]]]]].
  pose proof (orig_stays n bn pn Hbn Hkn (fun x NK => proj1 (HF x NK))) as Horig'.
  (* 1: h is its resolved leaf graph *)
  apply (proj1 (flatten_walk h top strict Hnd_h Htop_h Hplain_h Hres_jt Htab_h n e ds tr st (ex_intro _ bn (ex_intro _ pn (conj Hbn Hkn))))) in W.
  (* 2: unification and rotation of a flat graph keep the walk *)
  assert (HnG : exists b, efind (RL h) n = Some b /\ e_kind b = EPlain 100).
  { exists (rl h bn). split; [rewrite efind_G, Hbn; unfold is_region; rewrite Hkn; reflexivity|]. unfold rl. cbn. rewrite Hkn. reflexivity. }
  assert (W2 : WTrace (ehier top G') (resolve_flat (ehier top G')) strict n e' ds tr st).
  { eapply (unified_rotation_keeps_walks (RL h) top H v entries headers names_cb GA (map rh exits) todo header_tbl isback
              latch sexit bv names G' strict EGA HGA_H EG').
    - split; [exact Hnde|]. intros Hi. destruct (Hentries_h H Hi) as [n0 [A _]].
      rewrite (Hfresh H (or_introl (or_introl eq_refl))) in A. discriminate.
    - split; [exact (proj1 HG_names_cb)|]. intros a Ha. destruct (proj2 HG_names_cb a Ha) as [A [B C]].
      split; [apply fresh_G; left; right; apply in_or_app; left; exact Ha|]. split; [exact A|].
      split; [apply Hncb_e; exact Ha|]. split; [exact B|exact C].
    - exact HG_pjt.
    - split; [|exact HG_topH]. intros Hi. apply Htop_h. apply ekeys_RL. exact Hi.
    - apply fresh_G. left. left. reflexivity.
    - intros x b t Hb Ht. destruct (efind (RL h) t) as [bt|] eqn:Et; [eapply efind_keys; eauto|].
      exfalso. exact (RL_closed h Hnd_h Hres_jt x b t Hb Ht Et).
    - split; [exact (proj1 HG_headers)|]. split; [|exact (proj2 (proj2 HG_exits))].
      intros s Hs. destruct (Hheaders_h s Hs) as [n0 [A B]]. eapply efind_keys. rewrite efind_G, A, B. reflexivity.
    - exact HG_vars.
    - split; [exact Hndt|]. intros p Hp. destruct (todo_split p Hp) as [->|Hp']; [left; reflexivity|]. right.
      split; [apply Hte; exact Hp|apply HG_todo; exact Hp'].
    - exact HG_backH.
    - split; [exact Hndn|]. intros a Ha. destruct (HG_names a Ha) as [A [B [C [D0 E0]]]].
      split; [apply fresh_G; left; right; apply in_or_app; right; exact Ha|]. split; [exact A|]. split; [exact B|].
      split; [apply Hnt; exact Ha|]. split; [exact C|]. split; [exact D0|exact E0].
    - split; [apply fresh_G; right; left; reflexivity|exact HG_latch].
    - intros Hn. rewrite needs_map in Hn. split; [apply fresh_G; right; right; reflexivity|apply HG_sexit; exact Hn].
    - split; [exact (proj1 HG_exits)|exact (proj1 (proj2 HG_exits))].
    - exact HG_cover.
    - exact HnG.
    - exact He.
    - exact W. }
  (* 3: the resulting leaf graph is the leaf graph of the result *)
  pose proof (linked G' HKrel HF) as Hlink.
  assert (W3 : WTrace (ehier top (RL h')) (resolve_flat (ehier top (RL h'))) strict n e' ds tr st).
  { destruct Horig' as [b' [p' [Hb' Hk']]].
    assert (HnG' : exists b, efind (RL h') n = Some b /\ e_kind b = EPlain 100).
    { exists (rl h' b'). split; [rewrite (efind_RL' h' n Hnd_h'), Hb'; unfold is_region; rewrite Hk'; reflexivity|].
      unfold rl. cbn. rewrite Hk'. reflexivity. }
    apply (proj2 (ehier_congr (RL h') G' top strict Hlink
                    (fun Hi => Htop_h' (ekeys_RL h' top Hi))
                    (RL_closed h' Hnd_h' Hres_h') n e' ds tr st HnG')).
    exact W2. }
  (* 4: and that is the walk of the result *)
  exact (proj2 (flatten_walk h' top strict Hnd_h' Htop_h' Hplain_h' Hres_h' Htab_h' n e' ds tr st Horig') W3).
Qed.

Theorem unified_rotation_h_keeps_ctrace : forall n e e' ds,
  (exists b p, find h n = Some b /\ n_kind b = KOrig p) ->
  E (Fu v bv) e e' ->
  CTrace h (resolve_flat h) strict n e ds -> CTrace h' (resolve_flat h') strict n e' ds.
Proof.
  intros n e e' ds [bn [pn [Hbn Hkn]]] He W.
  destruct renamed as [GA [G' [EGA [HGA_H [EG' [HKrel HF]]]]]].
  pose proof (orig_stays n bn pn Hbn Hkn (fun x NK => proj1 (HF x NK))) as Horig'.
  apply (proj1 (flatten_ctrace h top strict Hnd_h Htop_h Hplain_h Hres_jt Htab_h n e ds (ex_intro _ bn (ex_intro _ pn (conj Hbn Hkn))))) in W.
  assert (HnG : exists b, efind (RL h) n = Some b /\ e_kind b = EPlain 100).
  { exists (rl h bn). split; [rewrite efind_G, Hbn; unfold is_region; rewrite Hkn; reflexivity|]. unfold rl. cbn. rewrite Hkn. reflexivity. }
  assert (W2 : CTrace (ehier top G') (resolve_flat (ehier top G')) strict n e' ds).
  { eapply (unified_rotation_keeps_ctrace (RL h) top H v entries headers names_cb GA (map rh exits) todo header_tbl isback
              latch sexit bv names G' strict EGA HGA_H EG').
    - split; [exact Hnde|]. intros Hi. destruct (Hentries_h H Hi) as [n0 [A _]].
      rewrite (Hfresh H (or_introl (or_introl eq_refl))) in A. discriminate.
    - split; [exact (proj1 HG_names_cb)|]. intros a Ha. destruct (proj2 HG_names_cb a Ha) as [A [B C]].
      split; [apply fresh_G; left; right; apply in_or_app; left; exact Ha|]. split; [exact A|].
      split; [apply Hncb_e; exact Ha|]. split; [exact B|exact C].
    - exact HG_pjt.
    - split; [|exact HG_topH]. intros Hi. apply Htop_h. apply ekeys_RL. exact Hi.
    - apply fresh_G. left. left. reflexivity.
    - intros x b t Hb Ht. destruct (efind (RL h) t) as [bt|] eqn:Et; [eapply efind_keys; eauto|].
      exfalso. exact (RL_closed h Hnd_h Hres_jt x b t Hb Ht Et).
    - split; [exact (proj1 HG_headers)|]. split; [|exact (proj2 (proj2 HG_exits))].
      intros s Hs. destruct (Hheaders_h s Hs) as [n0 [A B]]. eapply efind_keys. rewrite efind_G, A, B. reflexivity.
    - exact HG_vars.
    - split; [exact Hndt|]. intros p Hp. destruct (todo_split p Hp) as [->|Hp']; [left; reflexivity|]. right.
      split; [apply Hte; exact Hp|apply HG_todo; exact Hp'].
    - exact HG_backH.
    - split; [exact Hndn|]. intros a Ha. destruct (HG_names a Ha) as [A [B [C [D0 E0]]]].
      split; [apply fresh_G; left; right; apply in_or_app; right; exact Ha|]. split; [exact A|]. split; [exact B|].
      split; [apply Hnt; exact Ha|]. split; [exact C|]. split; [exact D0|exact E0].
    - split; [apply fresh_G; right; left; reflexivity|exact HG_latch].
    - intros Hn. rewrite needs_map in Hn. split; [apply fresh_G; right; right; reflexivity|apply HG_sexit; exact Hn].
    - split; [exact (proj1 HG_exits)|exact (proj1 (proj2 HG_exits))].
    - exact HG_cover.
    - exact HnG.
    - exact He.
    - exact W. }
  pose proof (linked G' HKrel HF) as Hlink.
  assert (W3 : CTrace (ehier top (RL h')) (resolve_flat (ehier top (RL h'))) strict n e' ds).
  { destruct Horig' as [b' [p' [Hb' Hk']]].
    assert (HnG' : exists b, efind (RL h') n = Some b /\ e_kind b = EPlain 100).
    { exists (rl h' b'). split; [rewrite (efind_RL' h' n Hnd_h'), Hb'; unfold is_region; rewrite Hk'; reflexivity|].
      unfold rl. cbn. rewrite Hk'. reflexivity. }
    apply (proj2 (ehier_congr_c (RL h') G' top strict Hlink
                    (fun Hi => Htop_h' (ekeys_RL h' top Hi))
                    (RL_closed h' Hnd_h' Hres_h') n e' ds HnG')).
    exact W2. }
  exact (proj2 (flatten_ctrace h' top strict Hnd_h' Htop_h' Hplain_h' Hres_h' Htab_h' n e' ds Horig') W3).
Qed.
End FinalU.

(* HierEquiv.v — the per-call columns compare the hierarchy a path theorem speaks about with the one the
   implementation produced "up to the order of the node list": same length, and every node of the first is
   found, field for field, under its name in the second (Extract.xnode_eqb).  This file proves that this
   comparison is enough: two such hierarchies with distinct names have the same lookups, hence the same
   resolution of region names, the same resolved leaf graph (block for block) and - when both are fit for
   flattening - the same flat walks and the same walkable decision lists. *)
From Coq Require Import List ZArith Bool Lia.
Import ListNotations.
From V Require Import Valid.Hier Valid.Walk Valid.FlatRegion Model.Graph Model.Edits Model.Extract Model.LoopHier
     Model.JoinPath Model.Flatten Model.LoopHierPath Model.Total2 Model.LoopHierApplic Valid.Struct.
Local Open Scope Z_scope.

Lemma xkind_eqb_eq a b : xkind_eqb a b = true -> a = b.
Proof.
  destruct a, b; cbn; try discriminate.
  - intros H. apply Z.eqb_eq in H. congruence.
  - intros H. apply Z.eqb_eq in H. congruence.
  - intros H. apply andb_true_iff in H as [H1 H2]. apply list_eqb_eq in H1, H2. f_equal.
    apply split_eq; assumption.
  - intros H. repeat (apply andb_true_iff in H as [H ?]). apply Z.eqb_eq in H.
    match goal with H1 : Z.eqb _ _ = true |- _ => apply Z.eqb_eq in H1 end.
    repeat match goal with H1 : list_eqb _ _ = true |- _ => apply list_eqb_eq in H1 end.
    subst. f_equal. apply split_eq; assumption.
  - intros H. repeat (apply andb_true_iff in H as [H ?]).
    repeat match goal with H1 : Z.eqb _ _ = true |- _ => apply Z.eqb_eq in H1 end.
    repeat match goal with H1 : list_eqb _ _ = true |- _ => apply list_eqb_eq in H1 end.
    repeat match goal with H1 : Bool.eqb _ _ = true |- _ => apply Bool.eqb_prop in H1 end.
    subst. reflexivity.
Qed.

Lemma xnode_eqb_eq a b : xnode_eqb a b = true -> a = b.
Proof.
  unfold xnode_eqb. intros H. repeat (apply andb_true_iff in H as [H ?]).
  repeat match goal with H1 : Z.eqb _ _ = true |- _ => apply Z.eqb_eq in H1 end.
  repeat match goal with H1 : list_eqb _ _ = true |- _ => apply list_eqb_eq in H1 end.
  match goal with H1 : xkind_eqb _ _ = true |- _ => apply xkind_eqb_eq in H1 end.
  destruct a, b. cbn in *. subst. reflexivity.
Qed.

(* the comparison the columns make *)
Definition xhier_eqb (h' ha : hier) : bool :=
  Nat.eqb (length h') (length ha) &&
  forallb (fun n => match find ha (n_name n) with Some m => xnode_eqb n m | None => false end) h'.

Lemma find_none_names h x : find h x = None <-> ~ In x (names h).
Proof.
  induction h as [|n r IH]; cbn [find names map]; [tauto|].
  destruct (Z.eqb_spec (n_name n) x) as [E|E].
  - split; [discriminate|]. intros Hn. exfalso. apply Hn. left. exact E.
  - rewrite IH. unfold names. split; [intros Hn [Hx|Hx]; [contradiction|exact (Hn Hx)]|intros Hn Hx; apply Hn; right; exact Hx].
Qed.

Theorem xhier_eqb_sound a b : NoDup (names a) -> xhier_eqb a b = true ->
  length a = length b /\ (forall x, find a x = find b x) /\ NoDup (names b).
Proof.
  intros Hna H. unfold xhier_eqb in H. apply andb_true_iff in H as [Hlen Hall].
  apply Nat.eqb_eq in Hlen. split; [exact Hlen|].
  rewrite forallb_forall in Hall.
  assert (Hsome : forall x n, find a x = Some n -> find b x = Some n).
  { intros x n Hx. destruct (find_In _ _ _ Hx) as [Hin Hname]. specialize (Hall n Hin). rewrite Hname in Hall.
    destruct (find b x) as [m|]; [|discriminate]. apply xnode_eqb_eq in Hall. congruence. }
  assert (Hincl : incl (names a) (names b)).
  { intros x Hx. destruct (find a x) as [n|] eqn:E.
    - specialize (Hsome x n E). destruct (find_In _ _ _ Hsome) as [Hin Hname]. rewrite <- Hname. apply in_map. exact Hin.
    - apply find_none_names in E. contradiction. }
  assert (Hlen' : (length (names b) <= length (names a))%nat) by (unfold names; rewrite !map_length; lia).
  assert (Hincl' : incl (names b) (names a)) by (apply NoDup_length_incl; assumption).
  split; [|apply (NoDup_incl_NoDup Hna Hlen' Hincl)].
  intros x. destruct (find a x) as [n|] eqn:E; [symmetry; apply Hsome; exact E|].
  symmetry. apply find_none_names. intros Hx. apply find_none_names in E. apply E. apply Hincl'. exact Hx.
Qed.

Section Ext.
Variables a b : hier.
Hypothesis Hlen : length a = length b.
Hypothesis Hfind : forall x, find a x = find b x.

Lemma enter_flat_ext : forall f t, enter_flat a f t = enter_flat b f t.
Proof.
  induction f as [|f IH]; intros t; [reflexivity|]. cbn [enter_flat]. rewrite <- Hfind.
  destruct (find a t) as [n|]; [|reflexivity]. destruct (n_kind n); try reflexivity. apply IH.
Qed.

Lemma rho_ext t : rho a t = rho b t.
Proof. unfold rho. rewrite Hlen, enter_flat_ext. reflexivity. Qed.

Lemma rl_ext n : rl a n = rl b n.
Proof.
  unfold rl. f_equal.
  - apply map_ext. exact rho_ext.
  - apply map_ext. exact rho_ext.
  - destruct (n_kind n); try reflexivity. f_equal. apply map_ext. intros p. rewrite rho_ext. reflexivity.
Qed.

Lemma RL_ext : NoDup (names a) -> NoDup (names b) -> forall x, efind (RL a) x = efind (RL b) x.
Proof.
  intros Ha Hb x. rewrite (efind_RL' a x Ha), (efind_RL' b x Hb), <- Hfind.
  destruct (find a x) as [n|]; [|reflexivity]. rewrite rl_ext. reflexivity.
Qed.
End Ext.

(* fit for flattening (the conclusion of LoopHierApplic.flat_okb_sound, successors only) *)
Definition FlatOk (h : hier) (top : name) : Prop :=
  NoDup (names h) /\ ~ In top (names h) /\ (forall n, In n h -> n_kind n <> KPlain 100) /\
  (forall x n t, find h x = Some n -> is_region n = false -> In t (n_jt n) -> enter_flat h (S (length h)) t <> None) /\
  (forall x n c v tbl z t, find h x = Some n -> n_kind n = KBranch c v tbl -> zassoc z tbl = Some t -> In t (n_jt n)).

Lemma flat_okb_FlatOk h top : flat_okb h top true = true -> FlatOk h top.
Proof. intros H. exact (flat_okb_sound h top true H). Qed.

Theorem same_lookups_same_walks a b top strict :
  length a = length b -> (forall x, find a x = find b x) -> FlatOk a top -> FlatOk b top ->
  forall n e ds tr st,
    (exists bn p, find a n = Some bn /\ n_kind bn = KOrig p) ->
    (WTrace a (resolve_flat a) strict n e ds tr st <-> WTrace b (resolve_flat b) strict n e ds tr st).
Proof.
  intros Hlen Hfind [A1 [A2 [A3 [A4 A5]]]] [B1 [B2 [B3 [B4 B5]]]] n e ds tr st Hn.
  assert (Hn' : exists bn p, find b n = Some bn /\ n_kind bn = KOrig p) by (destruct Hn as [bn [p [X Y]]]; exists bn, p; rewrite <- Hfind; auto).
  rewrite (flatten_walk a top strict A1 A2 A3 A4 A5 n e ds tr st Hn).
  rewrite (flatten_walk b top strict B1 B2 B3 B4 B5 n e ds tr st Hn').
  destruct Hn as [bn [p [Hbn Hk]]].
  apply (ehier_congr (RL a) (RL b) top strict (RL_ext a b Hlen Hfind A1 B1)
           (fun Hi => A2 (ekeys_RL a top Hi)) (RL_closed a A1 A4) n e ds tr st).
  exists (rl a bn). split; [rewrite (efind_RL' a n A1), Hbn; unfold is_region; rewrite Hk; reflexivity|].
  unfold rl. cbn. rewrite Hk. reflexivity.
Qed.

Theorem same_lookups_same_ctrace a b top strict :
  length a = length b -> (forall x, find a x = find b x) -> FlatOk a top -> FlatOk b top ->
  forall n e ds,
    (exists bn p, find a n = Some bn /\ n_kind bn = KOrig p) ->
    (CTrace a (resolve_flat a) strict n e ds <-> CTrace b (resolve_flat b) strict n e ds).
Proof.
  intros Hlen Hfind [A1 [A2 [A3 [A4 A5]]]] [B1 [B2 [B3 [B4 B5]]]] n e ds Hn.
  assert (Hn' : exists bn p, find b n = Some bn /\ n_kind bn = KOrig p) by (destruct Hn as [bn [p [X Y]]]; exists bn, p; rewrite <- Hfind; auto).
  rewrite (flatten_ctrace a top strict A1 A2 A3 A4 A5 n e ds Hn).
  rewrite (flatten_ctrace b top strict B1 B2 B3 B4 B5 n e ds Hn').
  destruct Hn as [bn [p [Hbn Hk]]].
  apply (ehier_congr_c (RL a) (RL b) top strict (RL_ext a b Hlen Hfind A1 B1)
           (fun Hi => A2 (ekeys_RL a top Hi)) (RL_closed a A1 A4) n e ds).
  exists (rl a bn). split; [rewrite (efind_RL' a n A1), Hbn; unfold is_region; rewrite Hk; reflexivity|].
  unfold rl. cbn. rewrite Hk. reflexivity.
Qed.

Lemma FlatOk_transfer a b top : length a = length b -> (forall x, find a x = find b x) -> NoDup (names b) ->
  FlatOk a top -> FlatOk b top.
Proof.
  intros Hlen Hfind Hnb [A1 [A2 [A3 [A4 A5]]]]. split; [exact Hnb|]. split.
  - intros Hi. apply A2. destruct (find a top) as [n|] eqn:E.
    + destruct (find_In _ _ _ E) as [Hin Hname]. rewrite <- Hname. apply in_map. exact Hin.
    + rewrite Hfind in E. apply find_none_names in E. contradiction.
  - split.
    + intros n Hn. pose proof (find_of_In_nodup b n Hnb Hn) as Hf. rewrite <- Hfind in Hf.
      apply A3. apply (find_In _ _ _ Hf).
    + split.
      * intros x n t Hx Hl Ht. rewrite <- Hfind in Hx. rewrite <- Hlen, <- (enter_flat_ext a b Hfind). exact (A4 x n t Hx Hl Ht).
      * intros x n c v tbl z t Hx. rewrite <- Hfind in Hx. exact (A5 x n c v tbl z t Hx).
Qed.

(* the comparison made per call is enough *)
Theorem compared_equal_same_walks a b top strict :
  xhier_eqb a b = true -> flat_okb a top true = true ->
  forall n e ds tr st,
    (exists bn p, find a n = Some bn /\ n_kind bn = KOrig p) ->
    (WTrace a (resolve_flat a) strict n e ds tr st <-> WTrace b (resolve_flat b) strict n e ds tr st).
Proof.
  intros He Fa. pose proof (flat_okb_FlatOk a top Fa) as OA.
  destruct (xhier_eqb_sound a b (proj1 OA) He) as [Hlen [Hfind Hnb]].
  exact (same_lookups_same_walks a b top strict Hlen Hfind OA (FlatOk_transfer a b top Hlen Hfind Hnb OA)).
Qed.

Theorem compared_equal_same_ctrace a b top strict :
  xhier_eqb a b = true -> flat_okb a top true = true ->
  forall n e ds,
    (exists bn p, find a n = Some bn /\ n_kind bn = KOrig p) ->
    (CTrace a (resolve_flat a) strict n e ds <-> CTrace b (resolve_flat b) strict n e ds).
Proof.
  intros He Fa. pose proof (flat_okb_FlatOk a top Fa) as OA.
  destruct (xhier_eqb_sound a b (proj1 OA) He) as [Hlen [Hfind Hnb]].
  exact (same_lookups_same_ctrace a b top strict Hlen Hfind OA (FlatOk_transfer a b top Hlen Hfind Hnb OA)).
Qed.

(* Refine.v — when does an edit of a graph keep every walk?  A generic answer for
   the path semantics of Valid/Walk.v (non-strict reading, any walk discipline):

   if every block of the old hierarchy h is still there in h' with the same
   kind, the same arity, the same assignments and the same tested variable, and
   every way of leaving it ("edge": the d-th successor of an original block, the
   single successor of a synthetic block, the successor a table gives for a
   value) leads in h' - after a bridge of k steps through blocks that only touch
   fresh variables - to the block it led to in h, then from every original block,
   under every decision list and every pair of environments that agree outside
   the fresh variables, the walk of h' visits the same original blocks and ends
   the same way as the walk of h.

   Used by Model/CbPath.v for insert_block_and_control_blocks. *)
From Coq Require Import List ZArith Bool Lia.
Import ListNotations.
From V Require Import Valid.Hier Valid.Walk.
Local Open Scope Z_scope.

(* ---------- the fuelled run and the fuel-free run agree ---------- *)
Section Basics.
Variables (h : hier) (resolve : name -> name -> option name) (strict : bool).

Lemma srun_mono : forall fuel cur e o,
  srun h resolve strict fuel cur e = o -> o <> Stuck -> forall k, srun h resolve strict (fuel + k) cur e = o.
Proof.
  induction fuel as [|f IH]; intros cur e o H Hne k; [cbn in H; congruence|].
  cbn [srun Nat.add] in *. destruct (find h cur) as [b|]; [|congruence].
  destruct (n_kind b) as [p|c|a|c v tbl|? ? ? ? ? ?]; try congruence.
  - destruct (n_jt b) as [|t [|t2 r]]; try congruence.
    destruct (resolve cur t) as [nx|]; [|congruence]. apply IH; assumption.
  - destruct (n_jt b) as [|t [|t2 r]]; try congruence.
    destruct (resolve cur t) as [nx|]; [|congruence]. apply IH; assumption.
  - destruct (elook v e) as [[z rs]|]; [|congruence].
    destruct (zassoc z tbl) as [t|]; [|congruence].
    destruct (zmem t (n_jt b)); [|congruence].
    destruct strict.
    + destruct (zmem cur rs); [congruence|].
      destruct (resolve cur t) as [nx|]; [|congruence]. apply IH; assumption.
    + destruct (resolve cur t) as [nx|]; [|congruence]. apply IH; assumption.
Qed.

Lemma srun_correct : forall fuel cur e o,
  srun h resolve strict fuel cur e = o -> o <> Stuck -> SRun h resolve strict cur e o.
Proof.
  induction fuel as [|f IH]; intros cur e o H Hne; [cbn in H; congruence|].
  cbn [srun] in H. destruct (find h cur) as [b|] eqn:Hb; [|congruence].
  destruct (n_kind b) as [p|c|a|c v tbl|? ? ? ? ? ?] eqn:Hk; try congruence.
  - subst o. eapply SR_orig; eauto.
  - destruct (n_jt b) as [|t [|t2 r]] eqn:Hj; try congruence.
    + subst o. eapply SR_stop; eauto.
    + destruct (resolve cur t) as [nx|] eqn:Hr; [|congruence]. eapply SR_plain; eauto.
  - destruct (n_jt b) as [|t [|t2 r]] eqn:Hj; try congruence.
    destruct (resolve cur t) as [nx|] eqn:Hr; [|congruence]. eapply SR_assign; eauto.
  - destruct (elook v e) as [[z rs]|] eqn:Hv; [|congruence].
    destruct (zassoc z tbl) as [t|] eqn:Hz; [|congruence].
    destruct (zmem t (n_jt b)) eqn:Hm; [|congruence].
    destruct strict eqn:Hs.
    + destruct (zmem cur rs) eqn:Hrd; [congruence|].
      destruct (resolve cur t) as [nx|] eqn:Hr; [|congruence]. eapply SR_branch_strict; eauto.
    + destruct (resolve cur t) as [nx|] eqn:Hr; [|congruence]. eapply SR_branch; eauto.
Qed.

Lemma srun_complete cur e o : SRun h resolve strict cur e o -> exists fuel, srun h resolve strict fuel cur e = o.
Proof.
  induction 1 as [cur e b p Hb Hk|cur e b c Hb Hk Hj|cur e b c t nx o Hb Hk Hj Hr _ [f IH]
                 |cur e b a t nx o Hb Hk Hj Hr _ [f IH]
                 |cur e b c v tbl z rs t nx o Hb Hk Hv Hz Hm Hs Hr _ [f IH]
                 |cur e b c v tbl z rs t nx o Hb Hk Hv Hz Hm Hs Hrd Hr _ [f IH]].
  - exists 1%nat. cbn. rewrite Hb, Hk. reflexivity.
  - exists 1%nat. cbn. rewrite Hb, Hk, Hj. reflexivity.
  - exists (S f). cbn [srun]. rewrite Hb, Hk, Hj, Hr. exact IH.
  - exists (S f). cbn [srun]. rewrite Hb, Hk, Hj, Hr. exact IH.
  - exists (S f). cbn [srun]. rewrite Hb, Hk, Hv, Hz, Hm, Hr. rewrite Hs at 1. exact IH.
  - exists (S f). cbn [srun]. rewrite Hb, Hk, Hv, Hz, Hm, Hrd, Hr. rewrite Hs at 1. exact IH.
Qed.

Lemma SRun_not_stuck cur e o : SRun h resolve strict cur e o -> o <> Stuck.
Proof. induction 1; try discriminate; assumption. Qed.

Lemma SRun_reached_orig cur e m e1 : SRun h resolve strict cur e (Reached m e1) ->
  exists b p, find h m = Some b /\ n_kind b = KOrig p.
Proof.
  remember (Reached m e1) as o eqn:Eo. induction 1; try discriminate; try (apply IHSRun; exact Eo).
  injection Eo as <- <-. eauto.
Qed.
End Basics.

(* ---------- refinement ---------- *)
Section Refine.
Variables (h h' : hier) (r r' : name -> name -> option name) (strict : bool).
Variable F : Z -> Prop.          (* the control variables only the bridges touch *)
Variable Old : name -> Prop.     (* the blocks of h *)

Definition E (e e' : env) : Prop := forall v, ~ F v -> elook v e = elook v e'.

(* leaving x towards t in h is leaving it towards t' in h', up to a bridge *)
Definition Edge (x t t' : name) : Prop :=
  forall e e', E e e' ->
    exists c c' k e'', r x t = Some c /\ Old c /\ r' x t' = Some c' /\ E e e'' /\
      forall fuel, srun h' r' strict (k + fuel) c' e' = srun h' r' strict fuel c e''.

Definition proceed (b : node) (tbl : list (Z * name)) (z : Z) : option name :=
  match zassoc z tbl with
  | Some t => if zmem t (n_jt b) then Some t else None
  | None => None
  end.

Definition Compat (x : name) (b b' : node) : Prop :=
  match n_kind b, n_kind b' with
  | KOrig _, KOrig _ =>
    length (n_jt b) = length (n_jt b') /\
    forall d t t', nth_error (n_jt b) d = Some t -> nth_error (n_jt b') d = Some t' -> Edge x t t'
  | KPlain _, KPlain _ =>
    (n_jt b = [] /\ n_jt b' = []) \/
    (exists t t', n_jt b = [t] /\ n_jt b' = [t'] /\ Edge x t t') \/
    (exists t1 t2 r1 t1' t2' r2, n_jt b = t1 :: t2 :: r1 /\ n_jt b' = t1' :: t2' :: r2)
  | KAssign a, KAssign a' =>
    a' = a /\ (forall p, In p a -> ~ F (fst p)) /\
    ((exists t t', n_jt b = [t] /\ n_jt b' = [t'] /\ Edge x t t') \/
     (length (n_jt b) <> 1%nat /\ length (n_jt b') <> 1%nat))
  | KBranch _ v tbl, KBranch _ v' tbl' =>
    v' = v /\ ~ F v /\
    forall z, match proceed b tbl z, proceed b' tbl' z with
              | Some t, Some t' => Edge x t t'
              | None, None => True
              | _, _ => False
              end
  | _, _ => False
  end.

Hypothesis Hold : forall x, Old x -> exists b b', find h x = Some b /\ find h' x = Some b' /\ Compat x b b'.

Definition O (o o' : outcome) : Prop :=
  match o, o' with
  | Reached m e, Reached m' e' => m' = m /\ E e e' /\ Old m
  | Stopped, Stopped => True
  | _, _ => False
  end.

Lemma E_upd a e e' : (forall p, In p a -> ~ F (fst p)) -> E e e' -> E (eupd a e) (eupd a e').
Proof.
  intros Ha He v Hv. rewrite !elook_eupd.
  destruct (zassoc v (map (fun p => (fst p, (snd p, @nil name))) a)); [reflexivity|apply He; exact Hv].
Qed.

Lemma E_read v z rs cur e e' : ~ F v -> E e e' -> E (eread v z rs cur e) (eread v z rs cur e').
Proof.
  intros Hv He w Hw. rewrite !elook_eread. destruct (Z.eqb w v); [reflexivity|apply He; exact Hw].
Qed.

Lemma strict_dec : {strict = true} + {strict = false}.
Proof. destruct strict; auto. Qed.

Lemma if_t {T} (a b : T) : strict = true -> (if strict then a else b) = a.
Proof. destruct strict; [reflexivity|discriminate]. Qed.

Lemma if_f {T} (a b : T) : strict = false -> (if strict then a else b) = b.
Proof. destruct strict; [discriminate|reflexivity]. Qed.

Lemma forward : forall f x e e' o, Old x -> E e e' ->
  srun h r strict f x e = o -> o <> Stuck ->
  exists f' o', srun h' r' strict f' x e' = o' /\ O o o'.
Proof.
  induction f as [|f IH]; intros x e e' o Hx He H Hne; [cbn in H; congruence|].
  destruct (Hold x Hx) as [b [b' [Hb [Hb' Hc]]]]. cbn [srun] in H. rewrite Hb in H.
  unfold Compat in Hc.
  destruct (n_kind b) as [p|c|a|c v tbl|? ? ? ? ? ?] eqn:Hk; destruct (n_kind b') as [p'|c'|a'|c' v' tbl'|? ? ? ? ? ?] eqn:Hk';
    try contradiction.
  - exists 1%nat, (Reached x e'). split; [cbn; rewrite Hb', Hk'; reflexivity|]. subst o. cbn. auto.
  - destruct Hc as [[Hj Hj']|[[t [t' [Hj [Hj' Hedge]]]]|[t1 [t2 [r1 [t1' [t2' [r2 [Hj Hj']]]]]]]]].
    + rewrite Hj in H. subst o. exists 1%nat, Stopped. split; [cbn; rewrite Hb', Hk', Hj'; reflexivity|exact I].
    + rewrite Hj in H. destruct (Hedge e e' He) as [c0 [c0' [k [e'' [Hr [Hold0 [Hr' [He'' Hbr]]]]]]]].
      rewrite Hr in H. destruct (IH c0 e e'' o Hold0 He'' H Hne) as [f1 [o' [H1 HO]]].
      exists (S (k + f1)), o'. split; [|exact HO]. cbn [srun]. rewrite Hb', Hk', Hj', Hr', Hbr. exact H1.
    + rewrite Hj in H. congruence.
  - destruct Hc as [-> [Hfa [[t [t' [Hj [Hj' Hedge]]]]|[Hl Hl']]]].
    + rewrite Hj in H. destruct (Hedge (eupd a e) (eupd a e') (E_upd a e e' Hfa He)) as [c0 [c0' [k [e'' [Hr [Hold0 [Hr' [He'' Hbr]]]]]]]].
      rewrite Hr in H. destruct (IH c0 _ e'' o Hold0 He'' H Hne) as [f1 [o' [H1 HO]]].
      exists (S (k + f1)), o'. split; [|exact HO]. cbn [srun]. rewrite Hb', Hk', Hj', Hr', Hbr. exact H1.
    + destruct (n_jt b) as [|t [|t2 r1]]; try congruence. cbn in Hl. congruence.
  - destruct Hc as [-> [Hv Htab]].
    destruct (elook v e) as [[z rs]|] eqn:Hlook; [|congruence].
    specialize (Htab z). unfold proceed in Htab.
    destruct (zassoc z tbl) as [t|]; [|congruence].
    destruct (zmem t (n_jt b)); [|congruence].
    destruct (zassoc z tbl') as [t'|] eqn:Hz'; [|contradiction].
    destruct (zmem t' (n_jt b')) eqn:Hm'; [|contradiction].
    destruct strict_dec as [Hs|Hs].
    + rewrite (if_t _ _ Hs) in H. destruct (zmem x rs) eqn:Hrd; [congruence|].
      destruct (Htab _ _ (E_read v z rs x e e' Hv He)) as [c0 [c0' [k [e'' [Hr [Hold0 [Hr' [He'' Hbr]]]]]]]].
      rewrite Hr in H. destruct (IH c0 _ e'' o Hold0 He'' H Hne) as [f1 [o' [H1 HO]]].
      exists (S (k + f1)), o'. split; [|exact HO]. cbn [srun]. rewrite Hb', Hk'.
      rewrite <- (He v Hv), Hlook, Hz', Hm'. rewrite (if_t _ _ Hs). rewrite Hrd, Hr', Hbr. exact H1.
    + rewrite (if_f _ _ Hs) in H.
      destruct (Htab e e' He) as [c0 [c0' [k [e'' [Hr [Hold0 [Hr' [He'' Hbr]]]]]]]].
      rewrite Hr in H. destruct (IH c0 e e'' o Hold0 He'' H Hne) as [f1 [o' [H1 HO]]].
      exists (S (k + f1)), o'. split; [|exact HO]. cbn [srun]. rewrite Hb', Hk'.
      rewrite <- (He v Hv), Hlook, Hz', Hm'. rewrite (if_f _ _ Hs). rewrite Hr', Hbr. exact H1.
Qed.

Lemma bridge_back k c c' e' e'' f o' :
  (forall fuel, srun h' r' strict (k + fuel) c' e' = srun h' r' strict fuel c e'') ->
  srun h' r' strict f c' e' = o' -> o' <> Stuck ->
  (k <= f)%nat /\ srun h' r' strict (f - k) c e'' = o'.
Proof.
  intros Hbr H Hne. destruct (Nat.le_gt_cases k f) as [Hle|Hgt].
  - split; [exact Hle|]. rewrite <- Hbr. replace (k + (f - k))%nat with f by lia. exact H.
  - exfalso. pose proof (srun_mono h' r' strict f c' e' o' H Hne (k - f)) as Hm.
    replace (f + (k - f))%nat with (k + 0)%nat in Hm by lia. rewrite Hbr in Hm. cbn in Hm. congruence.
Qed.

Lemma O_not_stuck o o' : O o o' -> o <> Stuck.
Proof. destruct o; [discriminate|discriminate|destruct o'; contradiction]. Qed.

Lemma backward : forall f x e e' o', Old x -> E e e' ->
  srun h' r' strict f x e' = o' -> o' <> Stuck ->
  exists o, srun h r strict f x e = o /\ O o o'.
Proof.
  induction f as [f IH] using (well_founded_induction lt_wf). intros x e e' o' Hx He H Hne.
  destruct f as [|f]; [cbn in H; congruence|].
  destruct (Hold x Hx) as [b [b' [Hb [Hb' Hc]]]]. cbn [srun] in H |- *. rewrite Hb' in H. rewrite Hb.
  unfold Compat in Hc.
  destruct (n_kind b) as [p|c|a|c v tbl|? ? ? ? ? ?] eqn:Hk; destruct (n_kind b') as [p'|c'|a'|c' v' tbl'|? ? ? ? ? ?] eqn:Hk';
    try contradiction.
  - exists (Reached x e). split; [reflexivity|]. subst o'. cbn. auto.
  - destruct Hc as [[Hj Hj']|[[t [t' [Hj [Hj' Hedge]]]]|[t1 [t2 [r1 [t1' [t2' [r2 [Hj Hj']]]]]]]]].
    + rewrite Hj' in H. rewrite Hj. subst o'. exists Stopped. split; [reflexivity|exact I].
    + rewrite Hj' in H. rewrite Hj. destruct (Hedge e e' He) as [c0 [c0' [k [e'' [Hr [Hold0 [Hr' [He'' Hbr]]]]]]]].
      rewrite Hr' in H. rewrite Hr. destruct (bridge_back k c0 c0' e' e'' f o' Hbr H Hne) as [Hle H2].
      destruct (IH (f - k)%nat ltac:(lia) c0 e e'' o' Hold0 He'' H2 Hne) as [o [H3 HO]].
      exists o. split; [|exact HO]. pose proof (srun_mono h r strict _ _ _ _ H3 (O_not_stuck _ _ HO) k) as Hm.
      replace (f - k + k)%nat with f in Hm by lia. exact Hm.
    + rewrite Hj' in H. congruence.
  - destruct Hc as [-> [Hfa [[t [t' [Hj [Hj' Hedge]]]]|[Hl Hl']]]].
    + rewrite Hj' in H. rewrite Hj.
      destruct (Hedge (eupd a e) (eupd a e') (E_upd a e e' Hfa He)) as [c0 [c0' [k [e'' [Hr [Hold0 [Hr' [He'' Hbr]]]]]]]].
      rewrite Hr' in H. rewrite Hr. destruct (bridge_back k c0 c0' _ e'' f o' Hbr H Hne) as [Hle H2].
      destruct (IH (f - k)%nat ltac:(lia) c0 _ e'' o' Hold0 He'' H2 Hne) as [o [H3 HO]].
      exists o. split; [|exact HO]. pose proof (srun_mono h r strict _ _ _ _ H3 (O_not_stuck _ _ HO) k) as Hm.
      replace (f - k + k)%nat with f in Hm by lia. exact Hm.
    + destruct (n_jt b') as [|t [|t2 r1]]; try congruence. cbn in Hl'. congruence.
  - destruct Hc as [-> [Hv Htab]]. rewrite (He v Hv).
    destruct (elook v e') as [[z rs]|] eqn:Hlook; [|congruence].
    specialize (Htab z). unfold proceed in Htab.
    destruct (zassoc z tbl') as [t'|]; [|destruct (zassoc z tbl) as [t|]; [destruct (zmem t (n_jt b)); [contradiction|congruence]|congruence]].
    destruct (zmem t' (n_jt b')); [|destruct (zassoc z tbl) as [t|]; [destruct (zmem t (n_jt b)); [contradiction|congruence]|congruence]].
    destruct (zassoc z tbl) as [t|] eqn:Hz; [|contradiction].
    destruct (zmem t (n_jt b)) eqn:Hm0; [|contradiction].
    destruct strict_dec as [Hs|Hs].
    + rewrite (if_t _ _ Hs) in H. rewrite (if_t _ _ Hs). destruct (zmem x rs) eqn:Hrd; [congruence|].
      destruct (Htab _ _ (E_read v z rs x e e' Hv He)) as [c0 [c0' [k [e'' [Hr [Hold0 [Hr' [He'' Hbr]]]]]]]].
      rewrite Hr' in H. rewrite Hr. destruct (bridge_back k c0 c0' _ e'' f o' Hbr H Hne) as [Hle H2].
      destruct (IH (f - k)%nat ltac:(lia) c0 _ e'' o' Hold0 He'' H2 Hne) as [o [H3 HO]].
      exists o. split; [|exact HO]. pose proof (srun_mono h r strict _ _ _ _ H3 (O_not_stuck _ _ HO) k) as Hm.
      replace (f - k + k)%nat with f in Hm by lia. exact Hm.
    + rewrite (if_f _ _ Hs) in H. rewrite (if_f _ _ Hs).
      destruct (Htab e e' He) as [c0 [c0' [k [e'' [Hr [Hold0 [Hr' [He'' Hbr]]]]]]]].
      rewrite Hr' in H. rewrite Hr. destruct (bridge_back k c0 c0' e' e'' f o' Hbr H Hne) as [Hle H2].
      destruct (IH (f - k)%nat ltac:(lia) c0 e e'' o' Hold0 He'' H2 Hne) as [o [H3 HO]].
      exists o. split; [|exact HO]. pose proof (srun_mono h r strict _ _ _ _ H3 (O_not_stuck _ _ HO) k) as Hm.
      replace (f - k + k)%nat with f in Hm by lia. exact Hm.
Qed.

(* the same for the fuel-free run, started behind an edge *)
Lemma edge_forward x t t' e e' c o : Edge x t t' -> E e e' -> r x t = Some c ->
  SRun h r strict c e o -> exists c' o', r' x t' = Some c' /\ SRun h' r' strict c' e' o' /\ O o o'.
Proof.
  intros Hedge He Hr Hrun. destruct (Hedge e e' He) as [c0 [c0' [k [e'' [Hr0 [Hold0 [Hr' [He'' Hbr]]]]]]]].
  rewrite Hr in Hr0. injection Hr0 as <-.
  destruct (srun_complete h r strict c e o Hrun) as [f Hf].
  destruct (forward f c e e'' o Hold0 He'' Hf (SRun_not_stuck h r strict c e o Hrun)) as [f' [o' [H1 HO]]].
  exists c0', o'. split; [exact Hr'|]. split; [|exact HO].
  apply (srun_correct h' r' strict (k + f')). { rewrite Hbr. exact H1. }
  intros ->. destruct o; cbn in HO; contradiction.
Qed.

Lemma edge_backward x t t' e e' c' o' : Edge x t t' -> E e e' -> r' x t' = Some c' ->
  SRun h' r' strict c' e' o' -> exists c o, r x t = Some c /\ SRun h r strict c e o /\ O o o'.
Proof.
  intros Hedge He Hr' Hrun. destruct (Hedge e e' He) as [c0 [c0' [k [e'' [Hr0 [Hold0 [Hr0' [He'' Hbr]]]]]]]].
  rewrite Hr' in Hr0'. injection Hr0' as <-.
  destruct (srun_complete h' r' strict c' e' o' Hrun) as [f Hf].
  pose proof (SRun_not_stuck h' r' strict c' e' o' Hrun) as Hne.
  destruct (bridge_back k c0 c' e' e'' f o' Hbr Hf Hne) as [Hle H2].
  destruct (backward (f - k) c0 e e'' o' Hold0 He'' H2 Hne) as [o [H3 HO]].
  exists c0, o. split; [exact Hr0|]. split; [|exact HO].
  apply (srun_correct h r strict (f - k)); [exact H3|apply (O_not_stuck _ _ HO)].
Qed.

(* ---------- walks ---------- *)
Theorem walk_refines : forall n e ds tr st,
  WTrace h r strict n e ds tr st ->
  forall e', Old n -> (exists b p, find h n = Some b /\ n_kind b = KOrig p) -> E e e' ->
  WTrace h' r' strict n e' ds tr st.
Proof.
  induction 1 as [n e ds Hj|n e ds t c Hj Hr Hs|n e l Hj Hne Hnot|n e d ds l Hj Hne Hnot Hnth
                 |n e d ds l t c m e1 tr st Hj Hnth Hr Hrun Hrest IH];
    intros e' Hn [b [p [Hb Hk]]] He;
    destruct (Hold n Hn) as [b0 [b' [Hb0 [Hb' Hc]]]]; rewrite Hb in Hb0; injection Hb0 as <-;
    unfold Compat in Hc; rewrite Hk in Hc; destruct (n_kind b') as [p'| | | |] eqn:Hk'; try contradiction;
    destruct Hc as [Hlen Hedges];
    unfold jt_of in Hj; rewrite Hb in Hj; injection Hj as Hj.
  - apply WT_halt0. unfold jt_of. rewrite Hb'. rewrite Hj in Hlen. destruct (n_jt b'); [reflexivity|discriminate].
  - rewrite Hj in Hlen. destruct (n_jt b') as [|t' [|? ?]] eqn:Hj'; try discriminate.
    assert (Hedge : Edge n t t') by (apply (Hedges 0%nat); [rewrite Hj; reflexivity|reflexivity]).
    destruct (edge_forward n t t' e e' c Stopped Hedge He Hr Hs) as [c' [o' [Hr' [Hrun' HO]]]].
    destruct o'; try contradiction.
    eapply WT_halt1; [unfold jt_of; rewrite Hb', Hj'; reflexivity|exact Hr'|exact Hrun'].
  - apply WT_more with (l := n_jt b'); [unfold jt_of; rewrite Hb'; reflexivity| |].
    + intros Hnil. apply Hne. rewrite <- Hj. rewrite Hnil in Hlen. destruct (n_jt b); [reflexivity|discriminate].
    + intros t' c' Hj' Hr' Hstop. rewrite Hj' in Hlen. destruct (n_jt b) as [|t [|? ?]] eqn:Hjb; try discriminate.
      assert (Hedge : Edge n t t') by (apply (Hedges 0%nat); [reflexivity|rewrite Hj'; reflexivity]).
      destruct (edge_backward n t t' e e' c' Stopped Hedge He Hr' Hstop) as [c [o [Hr0 [Hrun HO]]]].
      destruct o; try contradiction. apply (Hnot t c); [symmetry; exact Hj|exact Hr0|exact Hrun].
  - apply WT_bad with (l := n_jt b'); [unfold jt_of; rewrite Hb'; reflexivity| | |].
    + intros Hnil. apply Hne. rewrite <- Hj. rewrite Hnil in Hlen. destruct (n_jt b); [reflexivity|discriminate].
    + intros t' c' Hj' Hr' Hstop. rewrite Hj' in Hlen. destruct (n_jt b) as [|t [|? ?]] eqn:Hjb; try discriminate.
      assert (Hedge : Edge n t t') by (apply (Hedges 0%nat); [reflexivity|rewrite Hj'; reflexivity]).
      destruct (edge_backward n t t' e e' c' Stopped Hedge He Hr' Hstop) as [c [o [Hr0 [Hrun HO]]]].
      destruct o; try contradiction. apply (Hnot t c); [symmetry; exact Hj|exact Hr0|exact Hrun].
    + apply nth_error_None. rewrite <- Hlen. apply nth_error_None. rewrite Hj. exact Hnth.
  - rewrite <- Hj in Hnth.
    destruct (nth_error (n_jt b') d) as [t'|] eqn:Hnth'.
    2:{ apply nth_error_None in Hnth'. rewrite <- Hlen in Hnth'. apply nth_error_None in Hnth'. congruence. }
    pose proof (Hedges d t t' Hnth Hnth') as Hedge.
    destruct (edge_forward n t t' e e' c (Reached m e1) Hedge He Hr Hrun) as [c' [o' [Hr' [Hrun' HO]]]].
    destruct o' as [m' e1'| |]; try contradiction. destruct HO as [-> [He1 Hm]].
    eapply WT_step; [unfold jt_of; rewrite Hb'; reflexivity|exact Hnth'|exact Hr'|exact Hrun'|].
    apply IH; [exact Hm|eapply SRun_reached_orig; eauto|exact He1].
Qed.

(* the same for "every decision list can be walked without getting stuck" (C06 reads it with strict = true) *)
Theorem ctrace_refines : forall n e ds,
  CTrace h r strict n e ds ->
  forall e', Old n -> (exists b p, find h n = Some b /\ n_kind b = KOrig p) -> E e e' ->
  CTrace h' r' strict n e' ds.
Proof.
  induction 1 as [n e|n e d ds l Hj Hnth|n e d ds l t c Hj Hnth Hr Hs|n e d ds l t c m e1 Hj Hnth Hr Hrun Hrest IH];
    intros e' Hn [b [p [Hb Hk]]] He; [apply CT_nil| | |];
    destruct (Hold n Hn) as [b0 [b' [Hb0 [Hb' Hc]]]]; rewrite Hb in Hb0; injection Hb0 as <-;
    unfold Compat in Hc; rewrite Hk in Hc; destruct (n_kind b') as [p'| | | |] eqn:Hk'; try contradiction;
    destruct Hc as [Hlen Hedges];
    unfold jt_of in Hj; rewrite Hb in Hj; injection Hj as Hj.
  - apply CT_bad with (l := n_jt b'); [unfold jt_of; rewrite Hb'; reflexivity|].
    apply nth_error_None. rewrite <- Hlen. apply nth_error_None. rewrite Hj. exact Hnth.
  - rewrite <- Hj in Hnth.
    destruct (nth_error (n_jt b') d) as [t'|] eqn:Hnth'.
    2:{ apply nth_error_None in Hnth'. rewrite <- Hlen in Hnth'. apply nth_error_None in Hnth'. congruence. }
    destruct (edge_forward n t t' e e' c Stopped (Hedges d t t' Hnth Hnth') He Hr Hs) as [c' [o' [Hr' [Hrun' HO]]]].
    destruct o'; try contradiction.
    eapply CT_stop; [unfold jt_of; rewrite Hb'; reflexivity|exact Hnth'|exact Hr'|exact Hrun'].
  - rewrite <- Hj in Hnth.
    destruct (nth_error (n_jt b') d) as [t'|] eqn:Hnth'.
    2:{ apply nth_error_None in Hnth'. rewrite <- Hlen in Hnth'. apply nth_error_None in Hnth'. congruence. }
    destruct (edge_forward n t t' e e' c (Reached m e1) (Hedges d t t' Hnth Hnth') He Hr Hrun) as [c' [o' [Hr' [Hrun' HO]]]].
    destruct o' as [m' e1'| |]; try contradiction. destruct HO as [-> [He1 Hm]].
    eapply CT_step; [unfold jt_of; rewrite Hb'; reflexivity|exact Hnth'|exact Hr'|exact Hrun'|].
    apply IH; [exact Hm|eapply SRun_reached_orig; eauto|exact He1].
Qed.
End Refine.

(* LoopPath2.v — property C01 / C06 for loop rotation with SEVERAL headers,
   universally: header unification (Edits2.insert_cb) followed by
   LoopEdit.loop_rotate on the unified head, reusing the head's variable as the
   exit variable, keeps every walk of the graph it started from.  An entry arc
   p -> s becomes p -> assignment -> head -> s; a back edge q -> s inside the
   loop becomes q -> assignment -> latch -> head -> s; an arc q -> x out of the
   loop becomes q -> assignment -> latch (-> exit branch) -> x.  The head and
   its assignment blocks are not blocks of the original graph, so the variable
   they share with the exit branch is fresh for every original block. *)
From Coq Require Import List ZArith Bool Lia.
Import ListNotations.
From V Require Import Valid.Hier Valid.Walk Valid.FlatRegion Model.Graph Model.Edits Model.Edits2 Model.Edits3
                      Model.TableSpec Model.LoopEdit Model.LoopSpec Model.JoinPath Model.Refine Model.CbPath
                      Model.LoopPath.
Local Open Scope Z_scope.

Lemma rev_lookup_assoc : forall (tbl : list (Z * name)) t k0,
  NoDup (map fst tbl) -> In (k0, t) tbl -> zassoc (rev_lookup tbl t) tbl = Some t.
Proof.
  induction tbl as [|[k x] r IH]; intros t k0 Hnd Hin; [destruct Hin|].
  cbn [map fst] in Hnd. inversion Hnd as [|? ? Hk Hnd']; subst.
  unfold rev_lookup in *. cbn [filter snd].
  destruct (Z.eqb x t) eqn:E.
  - apply Z.eqb_eq in E. subst x. cbn [zassoc]. rewrite Z.eqb_refl. reflexivity.
  - destruct Hin as [[= <- <-]|Hin]; [rewrite Z.eqb_refl in E; discriminate|].
    specialize (IH t k0 Hnd' Hin). cbn [zassoc].
    set (z := match filter (fun p => Z.eqb (snd p) t) r with (k1, _) :: _ => k1 | [] => -1 end) in *.
    destruct (Z.eqb z k) eqn:Ez; [|exact IH].
    apply Z.eqb_eq in Ez. exfalso. apply Hk. apply zassoc_In in IH. rewrite <- Ez.
    apply in_map_iff. exists (z, t). auto.
Qed.

Section Unified.
Variables (g : egraph) (top H : name) (v : Z) (entries headers names_cb : list name) (g1 : egraph)
          (exits todo : list name) (header_tbl : list (Z * name)) (isback : name -> name -> bool)
          (latch sexit : name) (bv : Z) (names : list name) (g2 : egraph) (strict : bool).
Let needs : bool := match exits with _ :: _ :: _ => true | _ => false end.

(* the two steps *)
Hypothesis Hcb : insert_cb g H v entries headers names_cb C_HEAD = Ok g1.
Hypothesis Hhtbl : efind g1 H = Some (mkE headers [] (EBranch C_HEAD v header_tbl)).
Hypothesis Hrot : loop_rotate g1 H headers exits todo true header_tbl isback latch sexit v bv names = Ok g2.

(* the graph it started from *)
Hypothesis Hpreds : NoDup entries /\ ~ In H entries.
Hypothesis Hnames_cb : NoDup names_cb /\
  forall a, In a names_cb -> efind g a = None /\ a <> H /\ ~ In a entries /\ ~ In a headers /\ a <> top.
Hypothesis Hpjt : forall p b, In p entries -> efind g p = Some b ->
  NoDup (e_jt b) /\ (forall a, In a names_cb -> ~ In a (e_jt b)) /\
  (forall c w t, e_kind b = EBranch c w t -> NoDup (map fst t)).
Hypothesis Htop : ~ In top (ekeys g) /\ top <> H.
Hypothesis Hnew : efind g H = None.
Hypothesis Hclosed : forall x b t, efind g x = Some b -> In t (e_jt b) -> In t (ekeys g).
Hypothesis Hheaders : NoDup headers /\ (forall s, In s headers -> In s (ekeys g)) /\
                      (forall s, In s headers -> ~ In s exits).
Hypothesis Hvars : v <> bv /\ forall x b, efind g x = Some b ->
  match e_kind b with
  | EAssign a => forall p, In p a -> fst p <> v /\ fst p <> bv
  | EBranch _ w _ => w <> v /\ w <> bv
  | EPlain _ => True
  end.

(* what is processed: the unified head (none of its arcs is a back edge) and blocks of the loop that
   are no entries, have no table, no declared back edges and distinct successors *)
Hypothesis Htodo : NoDup todo /\
  forall p, In p todo -> p = H \/
    (~ In p entries /\ exists b, efind g p = Some b /\ nonbranch b /\ e_be b = [] /\ NoDup (e_jt b) /\
                                 (forall a, In a names -> ~ In a (e_jt b))).
Hypothesis HbackH : forall t, In t headers -> isback H t = false.
Hypothesis Hnames : NoDup names /\
  forall a, In a names -> efind g a = None /\ ~ In a names_cb /\ a <> H /\ ~ In a todo /\
                          a <> latch /\ a <> sexit /\ a <> top.
Hypothesis Hlatch : efind g latch = None /\ ~ In latch names_cb /\ latch <> H /\ latch <> top /\ ~ In latch todo.
Hypothesis Hsexit : needs = true ->
  efind g sexit = None /\ ~ In sexit names_cb /\ sexit <> H /\ sexit <> latch /\ sexit <> top /\ ~ In sexit todo.
Hypothesis Hexits : NoDup exits /\ (forall x, In x exits -> In x (ekeys g)).
(* every header is entered from outside (that is what makes it a header) *)
Hypothesis Hcover : forall t, In t headers -> exists p b k, In p entries /\ efind g p = Some b /\ nth_error (e_jt b) k = Some t.

Let h := ehier top g.
Let h2 := ehier top g2.
Let r := resolve_flat h.
Let r2 := resolve_flat h2.
Definition Oldu (x : name) : Prop := In x (ekeys g).

(* ---------- the graph after the unification ---------- *)
Lemma cb_spec : exists tbl,
    efind g1 H = Some (mkE headers [] (EBranch C_HEAD v tbl)) /\
    (forall p, In p entries -> exists b b', efind g p = Some b /\ efind g1 p = Some b' /\
       length (e_jt b) = length (e_jt b') /\ e_be b' = e_be b /\ replace_jt b (e_jt b') = Some b' /\ NoDup (e_jt b') /\
       forall k s t', nth_error (e_jt b) k = Some s -> nth_error (e_jt b') k = Some t' ->
         (~ In s headers -> t' = s) /\
         (In s headers -> In t' names_cb /\
            exists i, efind g1 t' = Some (mkE [H] [] (EAssign [(v, i)])) /\ zassoc i tbl = Some s)) /\
    (forall x, x <> H -> ~ In x entries -> ~ In x names_cb -> efind g1 x = efind g x).
Proof. exact (CbPath.spec g top H v entries headers names_cb C_HEAD g1 Hpreds Hnames_cb Hpjt Hcb). Qed.

Lemma tbl_is : exists tbl, tbl = header_tbl /\
    (forall p, In p entries -> exists b b', efind g p = Some b /\ efind g1 p = Some b' /\
       length (e_jt b) = length (e_jt b') /\ e_be b' = e_be b /\ replace_jt b (e_jt b') = Some b' /\ NoDup (e_jt b') /\
       forall k s t', nth_error (e_jt b) k = Some s -> nth_error (e_jt b') k = Some t' ->
         (~ In s headers -> t' = s) /\
         (In s headers -> In t' names_cb /\
            exists i, efind g1 t' = Some (mkE [H] [] (EAssign [(v, i)])) /\ zassoc i tbl = Some s)) /\
    (forall x, x <> H -> ~ In x entries -> ~ In x names_cb -> efind g1 x = efind g x).
Proof.
  destruct cb_spec as [tbl [A [B C]]]. exists tbl. rewrite Hhtbl in A. injection A as ->. auto.
Qed.

Lemma tbl_keys : NoDup (map fst header_tbl).
Proof. eapply insert_cb_tbl_nodup; [exact Hcb|exact Hhtbl]. Qed.

Lemma old_not_special x : Oldu x -> x <> H /\ ~ In x names_cb /\ x <> top /\ ~ In x names /\ x <> latch /\
                                    (needs = true -> x <> sexit).
Proof.
  intros Hx. destruct (keys_efind g x Hx) as [b Hb].
  split; [intros ->; congruence|]. split; [intros Hi; destruct (proj2 Hnames_cb x Hi) as [A _]; congruence|].
  split; [intros ->; apply (proj1 Htop); exact Hx|].
  split; [intros Hi; destruct (proj2 Hnames x Hi) as [A _]; congruence|].
  split; [intros ->; destruct Hlatch as [A _]; congruence|].
  intros Hn ->. destruct (Hsexit Hn) as [A _]. congruence.
Qed.

(* a block of g that is no entry is the same in g1 *)
Lemma g1_same x : Oldu x -> ~ In x entries -> efind g1 x = efind g x.
Proof.
  intros Hx Hne. destruct tbl_is as [tbl [_ [_ C]]]. destruct (old_not_special x Hx) as [A [B _]]. apply C; assumption.
Qed.

Lemma g1_old x : Oldu x -> In x (ekeys g1).
Proof.
  intros Hx. destruct (CbPath.old_in_g' g top H v entries headers names_cb C_HEAD g1 Hpreds Hnames_cb Hpjt Hnew Hcb x Hx)
    as [b' Hb']. eapply efind_keys; eauto.
Qed.

(* the keys of g1: those of g, the head, names of the first supply *)
Lemma g1_keys x : In x (ekeys g1) -> Oldu x \/ x = H \/ In x names_cb.
Proof.
  intros Hx. destruct (Z.eq_dec x H) as [->|Hn]; [auto|].
  destruct (in_dec Z.eq_dec x names_cb) as [Hi|Hni]; [auto|].
  destruct (in_dec Z.eq_dec x entries) as [He|Hne].
  - left. destruct tbl_is as [tbl [_ [B _]]]. destruct (B x He) as [b [_ [Hb _]]]. eapply efind_keys; eauto.
  - left. destruct tbl_is as [tbl [_ [_ C]]]. destruct (keys_efind g1 x Hx) as [b Hb].
    rewrite (C x Hn Hne Hni) in Hb. eapply efind_keys; eauto.
Qed.

(* ---------- the hypotheses of LoopPath, for the unified graph ---------- *)
Lemma entries_old p : In p entries -> Oldu p.
Proof. intros Hp. destruct tbl_is as [tbl [_ [B _]]]. destruct (B p Hp) as [b [_ [Hb _]]]. eapply efind_keys; eauto. Qed.

Lemma fresh_in_g1 a : efind g a = None -> a <> H -> ~ In a names_cb -> efind g1 a = None.
Proof.
  intros Ha Hh Hn. destruct tbl_is as [tbl [_ [_ C]]]. rewrite C; [exact Ha|exact Hh| |exact Hn].
  intros Hi. destruct (keys_efind g a (entries_old a Hi)) as [b Hb]. congruence.
Qed.

Lemma HT1 : NoDup todo /\
  forall p, In p todo -> exists b, efind g1 p = Some b /\ e_be b = [] /\ NoDup (e_jt b) /\
                                   (forall a, In a names -> ~ In a (e_jt b)) /\
                                   (nonbranch b \/
                                    forall t, In t (e_jt b) -> zmem t exits = false /\ zmem t headers && isback p t = false).
Proof.
  split; [apply Htodo|]. intros p Hp. destruct (proj2 Htodo p Hp) as [->|[Hne [b [Hb [Hnb [Hbe [Hnd Hfr]]]]]]].
  - exists (mkE headers [] (EBranch C_HEAD v header_tbl)). split; [exact Hhtbl|]. split; [reflexivity|].
    split; [apply Hheaders|]. split.
    + intros a Ha Hi. cbn in Hi. destruct (proj2 Hnames a Ha) as [A _].
      destruct (keys_efind g a (proj1 (proj2 Hheaders) a Hi)) as [b Hb]. congruence.
    + right. intros t Ht. cbn in Ht. split; [apply zmem_false; apply (proj2 (proj2 Hheaders)); exact Ht|].
      rewrite (HbackH t Ht). apply andb_false_r.
  - exists b. split; [rewrite g1_same; [exact Hb|eapply efind_keys; eauto|exact Hne]|]. auto.
Qed.

Lemma HN1 : NoDup names /\
  forall a, In a names -> efind g1 a = None /\ ~ In a todo /\ a <> latch /\ a <> sexit /\ a <> top.
Proof.
  split; [apply Hnames|]. intros a Ha. destruct (proj2 Hnames a Ha) as [A [B [C [D [E0 [F0 G0]]]]]].
  split; [apply fresh_in_g1; assumption|]. auto.
Qed.

Lemma HL1 : efind g1 latch = None /\ latch <> top /\ ~ In latch todo.
Proof. destruct Hlatch as [A [B [C [D E0]]]]. split; [apply fresh_in_g1; assumption|]. auto. Qed.

Lemma HS1 : needs = true -> efind g1 sexit = None /\ sexit <> latch /\ sexit <> top /\ ~ In sexit todo.
Proof. intros Hn. destruct (Hsexit Hn) as [A [B [C [D [E0 F0]]]]]. split; [apply fresh_in_g1; assumption|]. auto. Qed.

Lemma HE1 : NoDup exits /\ (forall x, In x exits -> In x (ekeys g1)) /\ ~ In H exits.
Proof.
  split; [apply Hexits|]. split; [intros x Hx; apply g1_old; apply (proj2 Hexits); exact Hx|].
  intros Hi. destruct (keys_efind g H (proj2 Hexits H Hi)) as [b Hb]. congruence.
Qed.

Lemma Hhd1 : In H (ekeys g1).
Proof. eapply efind_keys. exact Hhtbl. Qed.

Definition Fu (w : Z) : Prop := w = v \/ w = bv.

Lemma Htop1 : ~ In top (ekeys g1).
Proof.
  intros Hi. destruct (g1_keys top Hi) as [A|[A|A]].
  - apply (proj1 Htop). exact A.
  - apply (proj2 Htop). exact A.
  - destruct (proj2 Hnames_cb top A) as [_ [_ [_ [_ B]]]]. congruence.
Qed.

(* ---------- the rotated graph ---------- *)
Section Parts2.
Variables (xt : name) (gg : egraph) (rest : list name).
Let c : lctx := mkL headers exits needs true v bv latch H xt (enumerate exits) [(0, H); (1, xt)] header_tbl isback.
Hypothesis Hxt : LoopPath.exit_target_of exits sexit = Some xt.
Hypothesis Hblocks : le_blocks c g1 todo names = Ok (gg, rest).
Hypothesis Hg2 : g2 = (let g3 := dset gg latch (mkE [xt; H] [H] (EBranch C_LATCH bv [(0, H); (1, xt)])) in
                      if needs then dset g3 sexit (mkE exits [] (EBranch C_EXITBRANCH v (enumerate exits))) else g3).

Ltac lph := first [exact HT1 | exact HN1 | exact HL1 | exact HS1 | exact HE1 | exact Hhd1 | exact Htop1
                  | exact (proj1 Hvars) | exact Hrot | exact Hxt | exact Hblocks | exact Hg2].

Lemma g2_untouched x : In x (ekeys g1) -> ~ In x todo -> efind g2 x = efind g1 x.
Proof.
  intros Hx Hn.
  unshelve eapply (LoopPath.untouched g1 top H headers exits todo true header_tbl isback latch sexit v bv names g2);
    try lph; try exact xt; try exact gg; try exact rest; try lph; assumption.
Qed.

Lemma g2_processed p : In p todo -> exists b usedp b',
  efind g1 p = Some b /\ e_be b = [] /\ NoDup (e_jt b) /\
  length usedp = length (filter (rerouted c p) (e_jt b)) /\
  (forall a, In a usedp -> In a names) /\ NoDup usedp /\
  efind g2 p = Some b' /\
  replace_jt b (subst_all (combine (filter (rerouted c p) (e_jt b)) usedp) (e_jt b)) = Some b' /\
  (forall t a, In (t, a) (combine (filter (rerouted c p) (e_jt b)) usedp) ->
               efind g2 a = Some (mkE [latch] [] (EAssign (asg_of c t)))).
Proof.
  intros Hp.
  unshelve eapply (LoopPath.processed g1 top H headers exits todo true header_tbl isback latch sexit v bv names g2);
    try lph; try exact xt; try exact gg; try exact rest; try lph; assumption.
Qed.

Lemma g2_bridge_exit t a :
  In t exits -> a <> top -> efind g2 a = Some (mkE [latch] [] (EAssign (asg_of c t))) ->
  forall e', exists k e'',
    (forall w, ~ Fu w -> elook w e'' = elook w e') /\
    forall fuel, srun h2 r2 strict (k + fuel) a e' = srun h2 r2 strict fuel t e''.
Proof.
  intros Ht Ha Hf.
  unshelve eapply (LoopPath.bridge_exit g1 top H headers exits todo true header_tbl isback latch sexit v bv names g2 strict);
    try lph; try exact xt; try exact gg; try exact rest; try lph; assumption.
Qed.

Lemma g2_bridge_back t a :
  ~ In t exits -> a <> top -> efind g2 a = Some (mkE [latch] [] (EAssign (asg_of c t))) ->
  forall e', exists e2,
    (forall w, ~ Fu w -> elook w e2 = elook w e') /\
    (needs || true = true -> elook v e2 = Some (rev_lookup header_tbl t, [])) /\
    forall fuel, srun h2 r2 strict (2 + fuel) a e' = srun h2 r2 strict fuel H e2.
Proof.
  intros Ht Ha Hf.
  unshelve eapply (LoopPath.bridge_back g1 top H headers exits todo true header_tbl isback latch sexit v bv names g2 strict);
    try lph; try exact xt; try exact gg; try exact rest; try lph; assumption.
Qed.

Lemma g2_has x : In x (ekeys g1) -> exists b', efind g2 x = Some b'.
Proof.
  intros Hx.
  unshelve eapply (LoopPath.old_in_g'l g1 top H headers exits todo true header_tbl isback latch sexit v bv names g2);
    try lph; try exact xt; try exact gg; try exact rest; try lph; assumption.
Qed.

(* ---------- lookups ---------- *)
Lemma find_hu x b : efind g x = Some b -> find h x = Some (node_of top (x, b)).
Proof.
  intros Hb. unfold h. rewrite find_ehier by (intros ->; apply (proj1 Htop); eapply efind_keys; eauto). rewrite Hb. reflexivity.
Qed.

Lemma find_h2 x b' : x <> top -> efind g2 x = Some b' -> find h2 x = Some (node_of top (x, b')).
Proof. intros Hne Hb. unfold h2. rewrite find_ehier by exact Hne. rewrite Hb. reflexivity. Qed.

Lemma leaf_u x b : is_region (node_of top (x, b)) = false.
Proof.
  unfold is_region, node_of. cbn. pose proof (kind_of_not_region b). destruct (kind_of b); try reflexivity. contradiction.
Qed.

Lemma res_u x t : Oldu t -> r x t = Some t.
Proof.
  intros Ht. destruct (keys_efind g t Ht) as [b Hb]. unfold r, resolve_flat.
  eapply enter_flat_leaf; [apply find_hu; exact Hb|apply leaf_u].
Qed.

Lemma res2_leaf x t b' : t <> top -> efind g2 t = Some b' -> r2 x t = Some t.
Proof.
  intros Hne Hb. unfold r2, resolve_flat. eapply enter_flat_leaf; [apply find_h2; eassumption|apply leaf_u].
Qed.

Lemma res2_old x t : Oldu t -> r2 x t = Some t.
Proof.
  intros Ht. destruct (g2_has t (g1_old t Ht)) as [b' Hb']. eapply res2_leaf; [apply (old_not_special t Ht)|exact Hb'].
Qed.

(* ---------- the head and its assignment blocks in the rotated graph ---------- *)
Lemma head_in_g2 : exists tbl',
  efind g2 H = Some (mkE headers [] (EBranch C_HEAD v tbl')) /\
  forall z t, zassoc z header_tbl = Some t -> In t headers -> zassoc z tbl' = Some t.
Proof.
  destruct (in_dec Z.eq_dec H todo) as [Hin|Hnin].
  - destruct (g2_processed H Hin) as [b [usedp [b' [Hb [_ [_ [Hlen [_ [_ [Hb' [Hrj _]]]]]]]]]]].
    rewrite Hhtbl in Hb. injection Hb as <-. cbn [e_jt] in *.
    assert (Hnone : filter (rerouted c H) headers = []).
    { apply filter_none. intros t Ht. unfold rerouted, c. cbn [l_exits l_headers l_isback].
      assert (zmem t exits = false) as -> by (apply zmem_false; apply (proj2 (proj2 Hheaders)); exact Ht).
      rewrite (HbackH t Ht). cbn. apply andb_false_r. }
    rewrite Hnone in Hrj. cbn [combine] in Hrj. unfold subst_all in Hrj. cbn [fold_left] in Hrj.
    unfold replace_jt in Hrj. cbn [e_kind e_jt e_be] in Hrj.
    destruct (table_rewrite header_tbl headers headers headers 0 []) as [tbl'|] eqn:Htr; [|discriminate].
    injection Hrj as <-. exists tbl'. split; [exact Hb'|].
    intros z t Hz Ht.
    pose proof (table_rewrite_lookup header_tbl headers headers tbl_keys eq_refl
                  (fun k s t0 Hs Ht0 => or_introl (eq_sym (f_equal (fun o => match o with Some y => y | None => s end)
                                                             (eq_trans (eq_sym Hs) Ht0))))
                  (proj1 Hheaders) tbl' Htr z) as Hl.
    rewrite Hz in Hl. destruct Hl as [Hl _]. apply In_nth_error in Ht as [k Hk]. rewrite (Hl k Hk). exact Hk.
  - exists header_tbl. split; [rewrite (g2_untouched H Hhd1 Hnin); exact Hhtbl|auto].
Qed.

Lemma head_step fuel e2 z t :
  elook v e2 = Some (z, []) -> zassoc z header_tbl = Some t -> In t headers ->
  srun h2 r2 strict (S fuel) H e2 = srun h2 r2 strict fuel t (if strict then eread v z [] H e2 else e2).
Proof.
  intros Hl Hz Ht. destruct head_in_g2 as [tbl' [HH Hlook]].
  assert (Hf : find h2 H = Some (node_of top (H, mkE headers [] (EBranch C_HEAD v tbl')))).
  { apply find_h2; [intros E0; apply (proj2 Htop); symmetry; exact E0|exact HH]. }
  cbn [srun]. rewrite Hf. cbn [node_of n_kind n_jt fst snd kind_of e_kind e_jt].
  rewrite Hl, (Hlook z t Hz Ht).
  assert (zmem t headers = true) as -> by (apply zmem_In; exact Ht).
  rewrite (res2_old H t (proj1 (proj2 Hheaders) t Ht)). destruct strict; reflexivity.
Qed.

Lemma eupd_other_u asg e w : (forall p, In p asg -> fst p <> w) -> elook w (eupd asg e) = elook w e.
Proof.
  intros Hn. rewrite elook_eupd.
  assert (zassoc w (map (fun p => (fst p, (snd p, @nil name))) asg) = None) as ->; [|reflexivity].
  induction asg as [|[k z] rr IH]; [reflexivity|]. cbn.
  destruct (Z.eqb w k) eqn:E0; [apply Z.eqb_eq in E0; exfalso; apply (Hn (k, z)); [left; reflexivity|cbn; congruence]|].
  apply IH. intros p Hp. apply Hn. right. exact Hp.
Qed.

(* ---------- the arcs ---------- *)
Lemma edge_same_u x t : Oldu t -> Edge h2 r r2 strict Fu Oldu x t t.
Proof.
  intros Ht e e' He. exists t, t, 0%nat, e'. split; [apply res_u; exact Ht|]. split; [exact Ht|].
  split; [apply res2_old; exact Ht|]. split; [exact He|]. intros fuel. reflexivity.
Qed.

(* an entry arc: through its assignment block and the head *)
Lemma edge_entry x s a i :
  In s headers -> In a names_cb -> efind g1 a = Some (mkE [H] [] (EAssign [(v, i)])) ->
  zassoc i header_tbl = Some s -> Edge h2 r r2 strict Fu Oldu x s a.
Proof.
  intros Hs Ha Hasg Htab e e' He.
  assert (Hso : Oldu s) by (apply (proj1 (proj2 Hheaders)); exact Hs).
  destruct (proj2 Hnames_cb a Ha) as [Hag [HaH [_ [_ Hat]]]].
  assert (Ha1 : In a (ekeys g1)) by (eapply efind_keys; eauto).
  assert (Hant : ~ In a todo).
  { intros Hi. destruct (proj2 Htodo a Hi) as [->|[_ [b [Hb _]]]]; congruence. }
  assert (Ha2 : efind g2 a = Some (mkE [H] [] (EAssign [(v, i)]))) by (rewrite (g2_untouched a Ha1 Hant); exact Hasg).
  set (e1 := eupd [(v, i)] e').
  exists s, a, 2%nat, (if strict then eread v i [] H e1 else e1).
  split; [apply res_u; exact Hso|]. split; [exact Hso|]. split; [eapply res2_leaf; eassumption|]. split.
  - intros w Hw. assert (Hwv : w <> v) by (intros ->; apply Hw; left; reflexivity).
    assert (H1 : elook w e1 = elook w e').
    { unfold e1. apply eupd_other_u. intros p [<-|[]]. cbn. congruence. }
    destruct strict; [rewrite elook_eread; destruct (Z.eqb w v) eqn:E0; [apply Z.eqb_eq in E0; contradiction|]|];
      rewrite H1; apply He; exact Hw.
  - intros fuel. change (2 + fuel)%nat with (S (S fuel)).
    assert (Hfa : find h2 a = Some (node_of top (a, mkE [H] [] (EAssign [(v, i)])))) by (apply find_h2; assumption).
    destruct head_in_g2 as [tbl' [HH _]].
    assert (HrH : r2 a H = Some H).
    { eapply res2_leaf; [intros E0; apply (proj2 Htop); symmetry; exact E0|exact HH]. }
    assert (Hstep : srun h2 r2 strict (S (S fuel)) a e' = srun h2 r2 strict (S fuel) H e1).
    { cbn [srun]. rewrite Hfa. cbn [node_of n_kind n_jt fst snd kind_of e_kind e_jt]. rewrite HrH. reflexivity. }
    rewrite Hstep. apply head_step; [|exact Htab|exact Hs].
    unfold e1. rewrite elook_eupd. cbn. rewrite Z.eqb_refl. reflexivity.
Qed.

Lemma edge_exit_u x t a :
  In t exits -> a <> top -> efind g2 a = Some (mkE [latch] [] (EAssign (asg_of c t))) ->
  Edge h2 r r2 strict Fu Oldu x t a.
Proof.
  intros Hte Hat Ha e e' He.
  assert (Ht : Oldu t) by (apply (proj2 Hexits); exact Hte).
  destruct (g2_bridge_exit t a Hte Hat Ha e') as [k [e'' [Hsame Hrun]]].
  exists t, a, k, e''. split; [apply res_u; exact Ht|]. split; [exact Ht|].
  split; [eapply res2_leaf; eassumption|]. split; [|exact Hrun].
  intros w Hw. rewrite Hsame by exact Hw. apply He. exact Hw.
Qed.

(* a back edge to a header: assignment block, latch, head *)
Lemma edge_back_u x t a k0 :
  In t headers -> In (k0, t) header_tbl -> a <> top ->
  efind g2 a = Some (mkE [latch] [] (EAssign (asg_of c t))) ->
  Edge h2 r r2 strict Fu Oldu x t a.
Proof.
  intros Hth Hval Hat Ha e e' He.
  assert (Ht : Oldu t) by (apply (proj1 (proj2 Hheaders)); exact Hth).
  destruct (g2_bridge_back t a (proj2 (proj2 Hheaders) t Hth) Hat Ha e') as [e2 [Hsame [Hev Hrun]]].
  assert (Hev' : elook v e2 = Some (rev_lookup header_tbl t, [])) by (apply Hev; apply orb_true_r).
  set (z := rev_lookup header_tbl t) in *.
  exists t, a, 3%nat, (if strict then eread v z [] H e2 else e2).
  split; [apply res_u; exact Ht|]. split; [exact Ht|]. split; [eapply res2_leaf; eassumption|]. split.
  - intros w Hw. assert (Hwv : w <> v) by (intros ->; apply Hw; left; reflexivity).
    destruct strict; [rewrite elook_eread; destruct (Z.eqb w v) eqn:E0; [apply Z.eqb_eq in E0; contradiction|]|];
      rewrite Hsame by exact Hw; apply He; exact Hw.
  - intros fuel. change (3 + fuel)%nat with (2 + S fuel)%nat. rewrite Hrun.
    apply head_step; [exact Hev'| |exact Hth]. unfold z. eapply rev_lookup_assoc; [exact tbl_keys|exact Hval].
Qed.

Lemma header_in_tbl t : In t headers -> exists k0, In (k0, t) header_tbl.
Proof.
  intros Ht. destruct (Hcover t Ht) as [p [b [k [Hp [Hb Hk]]]]].
  destruct tbl_is as [tbl [Etbl [B _]]]. subst tbl.
  destruct (B p Hp) as [b0 [b1 [Hb0 [_ [Hlen [_ [_ [_ Hpos]]]]]]]]. rewrite Hb in Hb0. injection Hb0 as <-.
  destruct (nth_error (e_jt b1) k) as [t'|] eqn:Hk'.
  - destruct (Hpos k t t' Hk Hk') as [_ Q]. destruct (Q Ht) as [_ [i [_ Hi]]]. exists i. apply zassoc_In. exact Hi.
  - exfalso. apply nth_error_None in Hk'. assert (k < length (e_jt b))%nat.
    { apply nth_error_Some. intros Hc. pose proof (eq_trans (eq_sym Hc) Hk) as X. discriminate X. } lia.
Qed.

Lemma todo_not_entry x : Oldu x -> In x todo -> ~ In x entries.
Proof.
  intros Hx Hi. destruct (proj2 Htodo x Hi) as [->|[A _]]; [|exact A].
  destruct (keys_efind g H Hx) as [b Hb]. congruence.
Qed.

Lemma hold_u : forall x, Oldu x -> exists b b', find h x = Some b /\ find h2 x = Some b' /\
  Compat h2 r r2 strict Fu Oldu x b b'.
Proof.
  intros x Hx. destruct (old_not_special x Hx) as [HxH [_ [Hxt0 _]]].
  destruct (in_dec Z.eq_dec x entries) as [Hent|Hnent].
  - (* an entry: rerouted by the unification, untouched by the rotation *)
    destruct tbl_is as [tbl [Etbl [B _]]]. subst tbl.
    destruct (B x Hent) as [b [b1 [Hb [Hb1 [Hlen [Hbe1 [Hrj [Hnd1 Hpos]]]]]]]].
    assert (Hnt : ~ In x todo) by (intros Hi; exact (todo_not_entry x Hx Hi Hent)).
    assert (Hb2 : efind g2 x = Some b1) by (rewrite (g2_untouched x (g1_old x Hx) Hnt); exact Hb1).
    destruct (Hpjt x b Hent Hb) as [Hndjt [Hnojt Hkeys]].
    assert (Hedge : forall k t t', nth_error (e_jt b) k = Some t -> nth_error (e_jt b1) k = Some t' ->
                                   Edge h2 r r2 strict Fu Oldu x t t').
    { intros k t t' Ht Ht'. destruct (Hpos k t t' Ht Ht') as [Q1 Q2].
      destruct (in_dec Z.eq_dec t headers) as [HS|HS].
      - destruct (Q2 HS) as [Ha [i [Hasg Htab]]]. eapply edge_entry; eauto.
      - rewrite (Q1 HS). apply edge_same_u. eapply Hclosed; [exact Hb|eapply nth_error_In; exact Ht]. }
    pose proof (CbPath.replace_jt_kind b _ b1 Hrj) as Hkind.
    pose proof (proj2 Hvars x b Hb) as Hv.
    exists (node_of top (x, b)), (node_of top (x, b1)).
    split; [apply find_hu; exact Hb|]. split; [apply find_h2; assumption|].
    destruct b1 as [jt1 be1 k1]. cbn [e_jt e_kind e_be] in *.
    destruct (e_kind b) as [cc|a|cc w t] eqn:Ek.
    + subst k1. rewrite <- Ek. apply compat_positions; try assumption.
      * intros c0 v0 t0 E0. congruence.
      * rewrite Ek. exact I.
    + subst k1. rewrite <- Ek. apply compat_positions; try assumption.
      * intros c0 v0 t0 E0. congruence.
      * rewrite Ek. intros p Hp [E0|E0]; destruct (Hv p Hp); congruence.
    + destruct Hkind as [t' [Htr ->]].
      apply (compat_branch h2 r r2 strict Fu Oldu top x b jt1 be1 cc w t t' Ek).
      * intros [E0|E0]; destruct Hv; congruence.
      * apply (Hkeys cc w t eq_refl).
      * exact Hndjt.
      * exact Hlen.
      * intros k s0 t0 Hs0 Ht0. destruct (Hpos k s0 t0 Hs0 Ht0) as [Q1 Q2].
        destruct (in_dec Z.eq_dec s0 headers) as [HS|HS]; [right|left; apply Q1; exact HS].
        destruct (Q2 HS) as [Ha _]. apply Hnojt. exact Ha.
      * exact Htr.
      * exact Hedge.
  - destruct (in_dec Z.eq_dec x todo) as [Hin|Hnin].
    + (* a block of the loop that was processed *)
      destruct (proj2 Htodo x Hin) as [->|[_ [b [Hb [Hnb [Hbe [Hnd Hfr]]]]]]]; [contradiction|].
      destruct (g2_processed x Hin) as [b0 [usedp [b' [Hb0 [_ [_ [Hlen [Hun [Hndu [Hb' [Hrj Hasg]]]]]]]]]]].
      rewrite (g1_same x Hx Hnent), Hb in Hb0. injection Hb0 as <-.
      set (arcs := combine (filter (rerouted c x) (e_jt b)) usedp) in *.
      rewrite (replace_jt_nonbranch b _ Hnb) in Hrj. injection Hrj as <-.
      exists (node_of top (x, b)), (node_of top (x, mkE (subst_all arcs (e_jt b)) (e_be b) (e_kind b))).
      split; [apply find_hu; exact Hb|]. split; [apply find_h2; assumption|].
      apply compat_positions.
      * exact Hnb.
      * symmetry. apply subst_all_length.
      * intros k t t' Ht Ht'. cbn [e_jt] in Ht'. unfold arcs in Ht'.
        assert (Hpp : nth_error (subst_all (combine (filter (rerouted c x) (e_jt b)) usedp) (e_jt b)) k =
                      Some (match passoc t (combine (filter (rerouted c x) (e_jt b)) usedp) with Some a => a | None => t end)).
        { apply subst_all_pos; try assumption.
          - rewrite LoopPath.map_snd_combine by (symmetry; exact Hlen). exact Hndu.
          - rewrite LoopPath.map_fst_combine by (symmetry; exact Hlen). apply LoopPath.nodup_filter. exact Hnd.
          - intros a Ha. rewrite LoopPath.map_snd_combine in Ha by (symmetry; exact Hlen).
            split; [apply Hfr; apply Hun; exact Ha|].
            rewrite LoopPath.map_fst_combine by (symmetry; exact Hlen). intros Hi. apply filter_In in Hi as [Hi _].
            apply (Hfr a (Hun a Ha)). exact Hi. }
        rewrite Hpp in Ht'. injection Ht' as <-. fold arcs.
        destruct (passoc t arcs) as [a|] eqn:Hpa.
        -- apply passoc_combine_in in Hpa. pose proof (Hasg t a Hpa) as Ha.
           assert (Han : In a names) by (apply Hun; apply in_combine_r in Hpa; exact Hpa).
           destruct (proj2 Hnames a Han) as [_ [_ [_ [_ [_ [_ Hat]]]]]].
           assert (Hrr : rerouted c x t = true).
           { apply in_combine_l in Hpa. apply filter_In in Hpa. apply Hpa. }
           unfold rerouted, c in Hrr. cbn [l_exits l_headers l_isback] in Hrr.
           destruct (zmem t exits) eqn:Hze.
           ++ apply zmem_In in Hze. apply edge_exit_u; assumption.
           ++ cbn [orb] in Hrr. apply andb_true_iff in Hrr as [Hh _]. apply zmem_In in Hh.
              destruct (header_in_tbl t Hh) as [k0 Hk0]. eapply edge_back_u; eauto.
        -- apply edge_same_u. eapply Hclosed; [exact Hb|eapply nth_error_In; exact Ht].
      * pose proof (proj2 Hvars x b Hb) as Hv. destruct (e_kind b); try exact I.
        intros p Hp [E0|E0]; destruct (Hv p Hp); congruence.
    + (* any other block *)
      destruct (keys_efind g x Hx) as [b Hb].
      assert (Hb2 : efind g2 x = Some b).
      { rewrite (g2_untouched x (g1_old x Hx) Hnin), (g1_same x Hx Hnent). exact Hb. }
      exists (node_of top (x, b)), (node_of top (x, b)).
      split; [apply find_hu; exact Hb|]. split; [apply find_h2; assumption|].
      apply compat_same.
      * intros t Ht. apply edge_same_u. eapply Hclosed; eauto.
      * pose proof (proj2 Hvars x b Hb) as Hv. destruct (e_kind b); try exact I.
        -- intros p Hp [E0|E0]; destruct (Hv p Hp); congruence.
        -- intros [E0|E0]; destruct Hv; congruence.
Qed.
End Parts2.

Theorem unified_rotation_keeps_walks : forall n e e' ds tr st,
  (exists b, efind g n = Some b /\ e_kind b = EPlain 100) ->
  E Fu e e' ->
  WTrace h r strict n e ds tr st -> WTrace h2 r2 strict n e' ds tr st.
Proof.
  intros n e e' ds tr st [b [Hb Hk]] He Hw.
  destruct (LoopPath.rot_parts g1 top H headers exits todo true header_tbl isback latch sexit v bv names g2 Hrot)
    as [xt [gg [rest [Hxt [Hblocks Hg2]]]]].
  apply (walk_refines h h2 r r2 strict Fu Oldu (hold_u xt gg rest Hxt Hblocks Hg2) n e ds tr st Hw e').
  - eapply efind_keys; eauto.
  - exists (node_of top (n, b)), 1. split; [apply find_hu; exact Hb|]. unfold node_of, kind_of. cbn. rewrite Hk. reflexivity.
  - exact He.
Qed.

Theorem unified_rotation_keeps_ctrace : forall n e e' ds,
  (exists b, efind g n = Some b /\ e_kind b = EPlain 100) ->
  E Fu e e' ->
  CTrace h r strict n e ds -> CTrace h2 r2 strict n e' ds.
Proof.
  intros n e e' ds [b [Hb Hk]] He Hw.
  destruct (LoopPath.rot_parts g1 top H headers exits todo true header_tbl isback latch sexit v bv names g2 Hrot)
    as [xt [gg [rest [Hxt [Hblocks Hg2]]]]].
  apply (ctrace_refines h h2 r r2 strict Fu Oldu (hold_u xt gg rest Hxt Hblocks Hg2) n e ds Hw e').
  - eapply efind_keys; eauto.
  - exists (node_of top (n, b)), 1. split; [apply find_hu; exact Hb|]. unfold node_of, kind_of. cbn. rewrite Hk. reflexivity.
  - exact He.
Qed.
End Unified.

(* InsHierPath.v — insert_block with one successor (join_tails_and_exits, insert_SyntheticFill during
   branch restructuring) at ANY level of a hierarchy keeps every flat walk; predecessors are blocks of
   the level (branching synthetic blocks included), the successor may be a region.
   Same route as the loop rotation: Flatten.v, InsRename.v, LoopHierPath.link, IbPath.v. *)
From Coq Require Import List ZArith Bool Lia.
Import ListNotations.
From V Require Import Valid.Hier Valid.Walk Valid.FlatRegion Model.Graph Model.Edits Model.Edits2 Model.Edits3
     Model.JoinPath Model.Refine Model.CbPath Model.ExtractPath Model.LoopEdit Model.LoopSpec Model.IbPath
     Model.Extract Model.CbHier Model.LoopHier Model.Flatten Model.LoopRename Model.InsRename Model.LoopHierPath.
Local Open Scope Z_scope.

Section FinalIns.
Variables (h : hier) (lvl top new e0 : name) (nl : node) (preds : list name) (cls : Z) (g1 g1' : egraph) (strict : bool).
Let h' := write_back h lvl g1'.
Let rh := rho h.
Let dl : list name :=
  e0 :: new :: flat_map (fun p => match efind g1 p with Some b => e_jt b ++ tbl_targets (e_kind b) | None => [] end) preds.

(* the model: the level's dictionary, the block inserted, written back *)
Hypothesis Hl : find h lvl = Some nl.
Hypothesis Hlr : is_region nl = true.
Hypothesis HLG : collect h (children_h nl) = Some g1.
Hypothesis Hins : insert_block g1 new preds [e0] cls = Ok g1'.
(* both hierarchies are fit for flattening *)
Hypothesis Hnd_h : NoDup (Hier.names h).
Hypothesis Htop_h : ~ In top (Hier.names h).
Hypothesis Hplain_h : forall n, In n h -> n_kind n <> KPlain 100.
Hypothesis Hres_h : forall x n t, find h x = Some n -> is_region n = false -> In t (node_targets n) ->
  enter_flat h (S (length h)) t <> None.
Hypothesis Htab_h : forall x n c v tbl z t, find h x = Some n -> n_kind n = KBranch c v tbl ->
  zassoc z tbl = Some t -> In t (n_jt n).
Hypothesis Hnd_h' : NoDup (Hier.names h').
Hypothesis Htop_h' : ~ In top (Hier.names h').
Hypothesis Hplain_h' : forall n, In n h' -> n_kind n <> KPlain 100.
Hypothesis Hres_h' : forall x n t, find h' x = Some n -> is_region n = false -> In t (n_jt n) ->
  enter_flat h' (S (length h')) t <> None.
Hypothesis Htab_h' : forall x n c v tbl z t, find h' x = Some n -> n_kind n = KBranch c v tbl ->
  zassoc z tbl = Some t -> In t (n_jt n).
(* the dictionary after the insertion *)
Hypothesis Hkeys' : NoDup (ekeys g1').
Hypothesis Hlvl' : efind g1' lvl = None.
Hypothesis Hstay : forall p, In p preds -> efind g1' p <> None.
Hypothesis Hkind : forall p b b', In p preds -> efind g1 p = Some b -> efind g1' p = Some b' ->
  match e_kind b, e_kind b' with
  | EBranch c v _, EBranch c' v' _ => c' = c /\ v' = v
  | k, k' => k' = k
  end.
Hypothesis Hres_new : forall x b t, (In x preds \/ x = new) -> efind g1' x = Some b ->
  In t (blk_targets b) -> enter_flat h (S (length h)) t <> None \/ find h t = None.
(* the arguments *)
Hypothesis Hfresh : find h new = None.
Hypothesis Hpreds_h : forall p, In p preds -> exists n, find h p = Some n /\ is_region n = false /\
  zmem p (children_h nl) = true.
Hypothesis Hndp : NoDup preds.
Hypothesis Hinj : forall a b, In a dl -> In b dl -> rh a = rh b -> a = b.
(* the hypotheses of the flat theorem, on the resolved leaf graph *)
Hypothesis HG_preds : forall p b, In p preds -> efind (RL h) p = Some b ->
  NoDup (e_jt b) /\ ~ In new (e_jt b) /\ (forall c w t, e_kind b = EBranch c w t -> NoDup (map fst t)).
Hypothesis HG_new : new <> top /\ cls <> 100.
Hypothesis HG_e0 : In (rh e0) (ekeys (RL h)).

Let K := fun x => In x preds \/ In x [new] \/ x = new \/ x = new.

Lemma new_not_pred : ~ In new preds.
Proof. intros Hi. destruct (Hpreds_h new Hi) as [n [Hn _]]. rewrite Hfresh in Hn. discriminate. Qed.

Lemma Hres_jt_i : forall x n t, find h x = Some n -> is_region n = false -> In t (n_jt n) ->
  enter_flat h (S (length h)) t <> None.
Proof. intros x n t Hn Hr Ht. apply (Hres_h x n t Hn Hr). unfold node_targets. apply in_or_app. left. exact Ht. Qed.

Lemma efind_g1i x : efind g1 x = if zmem x (children_h nl) then option_map eblk_of (find h x) else None.
Proof. apply (efind_collect h _ _ _ HLG). Qed.

Lemma efind_Gi x : efind (RL h) x =
  match find h x with Some n => if is_region n then None else Some (rl h n) | None => None end.
Proof. apply efind_RL'. exact Hnd_h. Qed.

Lemma fresh_K x : (In x [new] \/ x = new \/ x = new) -> find h x = None.
Proof. intros [[<-|[]]|[->| ->]]; exact Hfresh. Qed.

Theorem insert_block_h_keeps_walks : forall n e e' ds tr st,
  (exists b p, find h n = Some b /\ n_kind b = KOrig p) ->
  E Fn e e' ->
  WTrace h (resolve_flat h) strict n e ds tr st -> WTrace h' (resolve_flat h') strict n e' ds tr st.
Proof.
  intros n e e' ds tr st [bn [pn [Hbn Hkn]]] He W.
  destruct (insert_block_rho rh (fun x => In x dl) Hinj new e0) with (g1 := g1) (g2 := RL h) (preds := preds) (cls := cls) (g1' := g1')
    as [G' [EG' [HKrel HF]]].
  - unfold dl. right. left. reflexivity.
  - unfold dl. left. reflexivity.
  - apply rho_fresh. exact Hfresh.
  - exact Hins.
  - intros x [Hx| ->].
    + destruct (Hpreds_h x Hx) as [nx [Hn [Hr Hz]]]. rewrite efind_Gi, efind_g1i, Hn, Hr, Hz. cbn [option_map].
      unfold rh. rewrite mapb_eblk_of. reflexivity.
    + rewrite efind_Gi, efind_g1i, Hfresh. destruct (zmem new (children_h nl)); reflexivity.
  - exact Hndp.
  - exact new_not_pred.
  - intros p b Hp Hb. split.
    + intros y Hy. unfold dl. right. right. apply in_flat_map. exists p. split; [exact Hp|]. rewrite Hb. apply in_or_app. left. exact Hy.
    + intros c v t Ek q Hq. unfold dl. right. right. apply in_flat_map. exists p. split; [exact Hp|]. rewrite Hb.
      apply in_or_app. right. unfold tbl_targets. rewrite Ek. apply in_map. exact Hq.
  - (* the chain *)
    assert (KK : forall x, K x <-> (In x preds \/ x = new)).
    { intros x. unfold K. split; [intros [H|[[<-|[]]|[H|H]]]; auto|intros [H| ->]; [left; exact H|right; right; left; reflexivity]]. }
    assert (HkindW : forall p b b', In p preds -> efind g1 p = Some b -> efind g1' p = Some b' ->
               match e_kind b' with EBranch _ _ _ => True | k => k = e_kind b end).
    { intros p b b' Hp Hb Hb'. pose proof (Hkind p b b' Hp Hb Hb') as Hk.
      destruct (e_kind b) eqn:E1; destruct (e_kind b') eqn:E2; try exact I; try discriminate; congruence. }
    assert (Horig' : exists b' p', find h' n = Some b' /\ n_kind b' = KOrig p').
    { assert (Hnl : n <> lvl) by (intros ->; rewrite Hl in Hbn; injection Hbn as <-; unfold is_region in Hlr; rewrite Hkn in Hlr; discriminate).
      unfold h'. rewrite (find_write_back h lvl g1' n nl Hkeys' Hl Hlvl' Hnl).
      destruct (efind g1' n) as [b'|] eqn:Eb; [|eauto].
      eexists. exists pn. split; [reflexivity|]. unfold node_back. rewrite Hbn. cbn [n_kind].
      destruct (in_dec Z.eq_dec n preds) as [Ht|Hnt0].
      - destruct (Hpreds_h n Ht) as [n0 [Hn0 [_ Hz]]]. rewrite Hbn in Hn0. injection Hn0 as <-.
        assert (Eg : efind g1 n = Some (eblk_of bn)) by (rewrite efind_g1i, Hz, Hbn; reflexivity).
        pose proof (Hkind n _ _ Ht Eg Eb) as Hkd. cbn [eblk_of e_kind] in Hkd. rewrite Hkn in Hkd. cbn [ekind_of] in Hkd.
        rewrite Hkd. cbn [kind_back]. exact Hkn.
      - assert (NK : ~ (In n preds \/ n = new)).
        { intros [H| ->]; [contradiction|]. rewrite Hfresh in Hbn. discriminate. }
        destruct (HF n NK) as [A _]. rewrite A, efind_g1i in Eb. destruct (zmem n (children_h nl)); [|discriminate].
        rewrite Hbn in Eb. injection Eb as <-. cbn [eblk_of e_kind]. rewrite Hkn. reflexivity. }
    (* 1: h is its resolved leaf graph *)
    apply (proj1 (flatten_walk h top strict Hnd_h Htop_h Hplain_h Hres_jt_i Htab_h n e ds tr st (ex_intro _ bn (ex_intro _ pn (conj Hbn Hkn))))) in W.
    (* 2: the insertion into a flat graph keeps the walk *)
    assert (HnG : exists b, efind (RL h) n = Some b /\ e_kind b = EPlain 100).
    { exists (rl h bn). split; [rewrite efind_Gi, Hbn; unfold is_region; rewrite Hkn; reflexivity|]. unfold rl. cbn. rewrite Hkn. reflexivity. }
    assert (W2 : WTrace (ehier top G') (resolve_flat (ehier top G')) strict n e' ds tr st).
    { eapply (insert_block_one_keeps_walks (RL h) top new (rh e0) preds cls G' strict EG').
      - split; [exact Hndp|exact new_not_pred].
      - exact HG_preds.
      - split; [rewrite efind_Gi, Hfresh; reflexivity|exact HG_new].
      - intros Hi. apply Htop_h. apply ekeys_RL. exact Hi.
      - exact HG_e0.
      - intros x b t Hb Ht. destruct (efind (RL h) t) as [bt|] eqn:Et; [eapply efind_keys; eauto|].
        exfalso. exact (RL_closed h Hnd_h Hres_jt_i x b t Hb Ht Et).
      - exact HnG.
      - exact He.
      - exact W. }
    (* 3: the leaf graph of the result *)
    assert (Hlink : forall x, efind (RL h') x = efind G' x).
    { intros x. unfold h'.
      refine (link h lvl nl preds [new] new new g1 g1' G' Hl Hlr HLG Hnd_h Hkeys' Hlvl' fresh_K Hpreds_h Hstay HkindW
                  _ _ _ Hres_h _ Hnd_h' x).
      - intros x0 Kx. apply HKrel. apply KK. exact Kx.
      - intros x0 NK. apply (proj1 (HF x0 (fun H => NK (proj2 (KK x0) H)))).
      - intros x0 NK. apply (proj2 (HF x0 (fun H => NK (proj2 (KK x0) H)))).
      - intros x0 b t Kx Hb Ht. apply (Hres_new x0 b t (proj1 (KK x0) Kx) Hb Ht). }
    assert (W3 : WTrace (ehier top (RL h')) (resolve_flat (ehier top (RL h'))) strict n e' ds tr st).
    { destruct Horig' as [b' [p' [Hb' Hk']]].
      assert (HnG' : exists b, efind (RL h') n = Some b /\ e_kind b = EPlain 100).
      { exists (rl h' b'). split; [rewrite (efind_RL' h' n Hnd_h'), Hb'; unfold is_region; rewrite Hk'; reflexivity|].
        unfold rl. cbn. rewrite Hk'. reflexivity. }
      apply (proj2 (ehier_congr (RL h') G' top strict Hlink
                      (fun Hi => Htop_h' (ekeys_RL h' top Hi))
                      (RL_closed h' Hnd_h' Hres_h') n e' ds tr st HnG')).
      exact W2. }
    exact (proj2 (flatten_walk h' top strict Hnd_h' Htop_h' Hplain_h' Hres_h' Htab_h' n e' ds tr st Horig') W3).
Qed.

Theorem insert_block_h_keeps_ctrace : forall n e e' ds,
  (exists b p, find h n = Some b /\ n_kind b = KOrig p) ->
  E Fn e e' ->
  CTrace h (resolve_flat h) strict n e ds -> CTrace h' (resolve_flat h') strict n e' ds.
Proof.
  intros n e e' ds [bn [pn [Hbn Hkn]]] He W.
  destruct (insert_block_rho rh (fun x => In x dl) Hinj new e0) with (g1 := g1) (g2 := RL h) (preds := preds) (cls := cls) (g1' := g1')
    as [G' [EG' [HKrel HF]]].
  - unfold dl. right. left. reflexivity.
  - unfold dl. left. reflexivity.
  - apply rho_fresh. exact Hfresh.
  - exact Hins.
  - intros x [Hx| ->].
    + destruct (Hpreds_h x Hx) as [nx [Hn [Hr Hz]]]. rewrite efind_Gi, efind_g1i, Hn, Hr, Hz. cbn [option_map].
      unfold rh. rewrite mapb_eblk_of. reflexivity.
    + rewrite efind_Gi, efind_g1i, Hfresh. destruct (zmem new (children_h nl)); reflexivity.
  - exact Hndp.
  - exact new_not_pred.
  - intros p b Hp Hb. split.
    + intros y Hy. unfold dl. right. right. apply in_flat_map. exists p. split; [exact Hp|]. rewrite Hb. apply in_or_app. left. exact Hy.
    + intros c v t Ek q Hq. unfold dl. right. right. apply in_flat_map. exists p. split; [exact Hp|]. rewrite Hb.
      apply in_or_app. right. unfold tbl_targets. rewrite Ek. apply in_map. exact Hq.
  - (* the chain *)
    assert (KK : forall x, K x <-> (In x preds \/ x = new)).
    { intros x. unfold K. split; [intros [H|[[<-|[]]|[H|H]]]; auto|intros [H| ->]; [left; exact H|right; right; left; reflexivity]]. }
    assert (HkindW : forall p b b', In p preds -> efind g1 p = Some b -> efind g1' p = Some b' ->
               match e_kind b' with EBranch _ _ _ => True | k => k = e_kind b end).
    { intros p b b' Hp Hb Hb'. pose proof (Hkind p b b' Hp Hb Hb') as Hk.
      destruct (e_kind b) eqn:E1; destruct (e_kind b') eqn:E2; try exact I; try discriminate; congruence. }
    assert (Horig' : exists b' p', find h' n = Some b' /\ n_kind b' = KOrig p').
    { assert (Hnl : n <> lvl) by (intros ->; rewrite Hl in Hbn; injection Hbn as <-; unfold is_region in Hlr; rewrite Hkn in Hlr; discriminate).
      unfold h'. rewrite (find_write_back h lvl g1' n nl Hkeys' Hl Hlvl' Hnl).
      destruct (efind g1' n) as [b'|] eqn:Eb; [|eauto].
      eexists. exists pn. split; [reflexivity|]. unfold node_back. rewrite Hbn. cbn [n_kind].
      destruct (in_dec Z.eq_dec n preds) as [Ht|Hnt0].
      - destruct (Hpreds_h n Ht) as [n0 [Hn0 [_ Hz]]]. rewrite Hbn in Hn0. injection Hn0 as <-.
        assert (Eg : efind g1 n = Some (eblk_of bn)) by (rewrite efind_g1i, Hz, Hbn; reflexivity).
        pose proof (Hkind n _ _ Ht Eg Eb) as Hkd. cbn [eblk_of e_kind] in Hkd. rewrite Hkn in Hkd. cbn [ekind_of] in Hkd.
        rewrite Hkd. cbn [kind_back]. exact Hkn.
      - assert (NK : ~ (In n preds \/ n = new)).
        { intros [H| ->]; [contradiction|]. rewrite Hfresh in Hbn. discriminate. }
        destruct (HF n NK) as [A _]. rewrite A, efind_g1i in Eb. destruct (zmem n (children_h nl)); [|discriminate].
        rewrite Hbn in Eb. injection Eb as <-. cbn [eblk_of e_kind]. rewrite Hkn. reflexivity. }
    (* 1: h is its resolved leaf graph *)
    apply (proj1 (flatten_ctrace h top strict Hnd_h Htop_h Hplain_h Hres_jt_i Htab_h n e ds (ex_intro _ bn (ex_intro _ pn (conj Hbn Hkn))))) in W.
    (* 2: the insertion into a flat graph keeps the walk *)
    assert (HnG : exists b, efind (RL h) n = Some b /\ e_kind b = EPlain 100).
    { exists (rl h bn). split; [rewrite efind_Gi, Hbn; unfold is_region; rewrite Hkn; reflexivity|]. unfold rl. cbn. rewrite Hkn. reflexivity. }
    assert (W2 : CTrace (ehier top G') (resolve_flat (ehier top G')) strict n e' ds).
    { eapply (insert_block_one_keeps_ctrace (RL h) top new (rh e0) preds cls G' strict EG').
      - split; [exact Hndp|exact new_not_pred].
      - exact HG_preds.
      - split; [rewrite efind_Gi, Hfresh; reflexivity|exact HG_new].
      - intros Hi. apply Htop_h. apply ekeys_RL. exact Hi.
      - exact HG_e0.
      - intros x b t Hb Ht. destruct (efind (RL h) t) as [bt|] eqn:Et; [eapply efind_keys; eauto|].
        exfalso. exact (RL_closed h Hnd_h Hres_jt_i x b t Hb Ht Et).
      - exact HnG.
      - exact He.
      - exact W. }
    (* 3: the leaf graph of the result *)
    assert (Hlink : forall x, efind (RL h') x = efind G' x).
    { intros x. unfold h'.
      refine (link h lvl nl preds [new] new new g1 g1' G' Hl Hlr HLG Hnd_h Hkeys' Hlvl' fresh_K Hpreds_h Hstay HkindW
                  _ _ _ Hres_h _ Hnd_h' x).
      - intros x0 Kx. apply HKrel. apply KK. exact Kx.
      - intros x0 NK. apply (proj1 (HF x0 (fun H => NK (proj2 (KK x0) H)))).
      - intros x0 NK. apply (proj2 (HF x0 (fun H => NK (proj2 (KK x0) H)))).
      - intros x0 b t Kx Hb Ht. apply (Hres_new x0 b t (proj1 (KK x0) Kx) Hb Ht). }
    assert (W3 : CTrace (ehier top (RL h')) (resolve_flat (ehier top (RL h'))) strict n e' ds).
    { destruct Horig' as [b' [p' [Hb' Hk']]].
      assert (HnG' : exists b, efind (RL h') n = Some b /\ e_kind b = EPlain 100).
      { exists (rl h' b'). split; [rewrite (efind_RL' h' n Hnd_h'), Hb'; unfold is_region; rewrite Hk'; reflexivity|].
        unfold rl. cbn. rewrite Hk'. reflexivity. }
      apply (proj2 (ehier_congr_c (RL h') G' top strict Hlink
                      (fun Hi => Htop_h' (ekeys_RL h' top Hi))
                      (RL_closed h' Hnd_h' Hres_h') n e' ds HnG')).
      exact W2. }
    exact (proj2 (flatten_ctrace h' top strict Hnd_h' Htop_h' Hplain_h' Hres_h' Htab_h' n e' ds Horig') W3).
Qed.
End FinalIns.

(* TableSpec.v — SyntheticBranch.replace_jump_targets (model Edits.table_rewrite),
   functionally: when the successors are replaced position by position (each
   stays or becomes a name that was not a successor), every value of the table
   is sent to the new successor at the position of its old one; values whose
   target was not a successor disappear.  For every table with distinct keys
   and every tuple of distinct successors. *)
From Coq Require Import List ZArith Bool Lia.
Import ListNotations.
From V Require Import Valid.Hier Model.Graph Model.Edits Model.Edits2 Model.Edits3.
Local Open Scope Z_scope.

Lemma zassoc_tset' tbl k v x : zassoc x (tset tbl k v) = if Z.eqb x k then Some v else zassoc x tbl.
Proof. unfold tset. apply zassoc_dset. Qed.

(* copying every entry that points to target *)
Lemma copy_spec target tgt : forall (tbl acc : list (Z * name)) z,
  NoDup (map fst tbl) ->
  zassoc z (fold_left (fun a kv => if Z.eqb (snd kv) target then tset a (fst kv) tgt else a) tbl acc) =
  match zassoc z tbl with
  | Some t => if Z.eqb t target then Some tgt else zassoc z acc
  | None => zassoc z acc
  end.
Proof.
  induction tbl as [|[k t] r IH]; intros acc z Hnd; [reflexivity|].
  cbn [map fst] in Hnd. inversion Hnd as [|? ? Hk Hnd']; subst.
  cbn [fold_left snd fst zassoc]. rewrite IH by exact Hnd'.
  destruct (Z.eqb z k) eqn:Ezk.
  - apply Z.eqb_eq in Ezk. subst z.
    assert (Hnone : zassoc k r = None).
    { destruct (zassoc k r) as [t0|] eqn:E0; [|reflexivity]. exfalso. apply Hk.
      apply zassoc_In in E0. apply in_map_iff. exists (k, t0). auto. }
    rewrite Hnone. destruct (Z.eqb t target); [rewrite zassoc_tset', Z.eqb_refl; reflexivity|reflexivity].
  - destruct (zassoc z r) as [t0|]; [destruct (Z.eqb t0 target); [reflexivity|]|];
      (destruct (Z.eqb t target); [rewrite zassoc_tset', Ezk; reflexivity|reflexivity]).
Qed.

Section Positional.
Variables (tbl : list (Z * name)) (all_old new_jt : list name).
Hypothesis Hkeys : NoDup (map fst tbl).
Hypothesis Hlen : length new_jt = length all_old.
(* a position keeps its successor or takes a name that was no successor *)
Hypothesis Hpos : forall k s t, nth_error all_old k = Some s -> nth_error new_jt k = Some t ->
  t = s \/ ~ In t all_old.
Hypothesis Hnd : NoDup all_old.

(* an old successor is a new one only at its own position *)
Lemma stays_iff k s : nth_error all_old k = Some s ->
  (In s new_jt <-> nth_error new_jt k = Some s).
Proof.
  intros Hs. split.
  - intros Hin. apply In_nth_error in Hin as [j Hj].
    destruct (nth_error all_old j) as [s'|] eqn:Hs'.
    + destruct (Hpos j s' s Hs' Hj) as [->|Hn].
      * assert (j = k); [|subst; exact Hj].
        apply (proj1 (NoDup_nth_error all_old) Hnd j k); [apply nth_error_Some; congruence|congruence].
      * exfalso. apply Hn. eapply nth_error_In; eauto.
    + exfalso. apply nth_error_None in Hs'. assert (j < length new_jt)%nat by (apply nth_error_Some; congruence). lia.
  - intros H. eapply nth_error_In; eauto.
Qed.

(* the table built so far: the values whose target lies among the first idx successors *)
Definition Done (idx : nat) (acc : list (Z * name)) : Prop :=
  forall z, zassoc z acc =
    match zassoc z tbl with
    | Some t => match List.find (fun k => match nth_error all_old k with Some s => Z.eqb s t | None => false end) (seq 0 idx) with
                | Some k => nth_error new_jt k
                | None => None
                end
    | None => None
    end.

Lemma find_pos_ext idx t k : (k < idx)%nat -> nth_error all_old k = Some t ->
  List.find (fun j => match nth_error all_old j with Some s => Z.eqb s t | None => false end) (seq 0 idx) = Some k.
Proof.
  intros Hlt Hk.
  assert (Hgen : forall a n, (a <= k < a + n)%nat ->
            List.find (fun j => match nth_error all_old j with Some s => Z.eqb s t | None => false end) (seq a n) = Some k).
  { intros a n. revert a. induction n as [|n IH]; intros a Hr; [lia|]. cbn [seq List.find].
    destruct (nth_error all_old a) as [s|] eqn:Ea.
    - destruct (Z.eqb s t) eqn:Est.
      + apply Z.eqb_eq in Est. subst s.
        assert (a = k) as ->; [|reflexivity].
        apply (proj1 (NoDup_nth_error all_old) Hnd a k); [apply nth_error_Some; congruence|congruence].
      + apply IH. destruct (Nat.eq_dec a k) as [->|Hne]; [rewrite Hk in Ea; injection Ea as ->; rewrite Z.eqb_refl in Est; discriminate|lia].
    - apply IH. destruct (Nat.eq_dec a k) as [->|Hne]; [congruence|lia]. }
  apply Hgen. lia.
Qed.

Lemma find_pos_none idx t : (forall k, (k < idx)%nat -> nth_error all_old k <> Some t) ->
  List.find (fun j => match nth_error all_old j with Some s => Z.eqb s t | None => false end) (seq 0 idx) = None.
Proof.
  intros H. destruct (List.find _ (seq 0 idx)) as [k|] eqn:E; [|reflexivity]. exfalso.
  apply find_some in E as [Hin Hk]. apply in_seq in Hin.
  destruct (nth_error all_old k) as [s|] eqn:Es; [|discriminate]. apply Z.eqb_eq in Hk. subst s.
  apply (H k); [lia|exact Es].
Qed.

Lemma rewrite_spec : forall old_jt idx acc res,
  (forall j s, nth_error old_jt j = Some s -> nth_error all_old (idx + j) = Some s) ->
  (idx + length old_jt = length all_old)%nat ->
  Done idx acc ->
  table_rewrite tbl old_jt new_jt all_old idx acc = Some res -> Done (length all_old) res.
Proof.
  induction old_jt as [|target rest IH]; intros idx acc res Hsuf Hl HD H.
  - cbn in H. injection H as <-. cbn in Hl. rewrite Nat.add_0_r in Hl. rewrite <- Hl. exact HD.
  - cbn [table_rewrite] in H. cbn [length] in Hl.
    assert (Htk : nth_error all_old idx = Some target) by (rewrite <- (Nat.add_0_r idx); apply Hsuf; reflexivity).
    assert (Hnew : exists nt, nth_error new_jt idx = Some nt).
    { destruct (nth_error new_jt idx) eqn:E; [eauto|]. apply nth_error_None in E. lia. }
    destruct Hnew as [nt Hnt].
    (* whatever branch is taken, the copied target is the new successor at this position *)
    assert (Hstep : forall tgt, tgt = nt ->
              Done (S idx) (fold_left (fun a kv => if Z.eqb (snd kv) target then tset a (fst kv) tgt else a) tbl acc)).
    { intros tgt ->. intros z. rewrite copy_spec by exact Hkeys. rewrite HD.
      destruct (zassoc z tbl) as [t|]; [|reflexivity].
      destruct (Z.eqb t target) eqn:Et.
      - apply Z.eqb_eq in Et. subst t. rewrite (find_pos_ext (S idx) target idx) by (lia || exact Htk). symmetry. exact Hnt.
      - apply Z.eqb_neq in Et.
        destruct (List.find _ (seq 0 idx)) as [k|] eqn:Ef.
        + apply find_some in Ef as [Hin Hk]. apply in_seq in Hin.
          destruct (nth_error all_old k) as [s|] eqn:Es; [|discriminate]. apply Z.eqb_eq in Hk. subst s.
          rewrite (find_pos_ext (S idx) t k) by (lia || exact Es). reflexivity.
        + rewrite find_pos_none; [reflexivity|]. intros k Hk Hn.
          destruct (Nat.eq_dec k idx) as [->|Hne]; [congruence|].
          assert (E0 : List.find (fun j => match nth_error all_old j with Some s => Z.eqb s t | None => false end) (seq 0 idx) = Some k)
            by (apply find_pos_ext; [lia|exact Hn]). congruence. }
    assert (Hsuf' : forall j s, nth_error rest j = Some s -> nth_error all_old (S idx + j) = Some s).
    { intros j s Hj. replace (S idx + j)%nat with (idx + S j)%nat by lia. apply Hsuf. exact Hj. }
    destruct (zmem target new_jt) eqn:Hmem.
    + apply zmem_In in Hmem. apply (stays_iff idx target Htk) in Hmem. rewrite Hnt in Hmem. injection Hmem as ->.
      eapply IH; [exact Hsuf'|lia|apply Hstep; reflexivity|exact H].
    + rewrite Hlen, Nat.eqb_refl in H. rewrite Hnt in H.
      eapply IH; [exact Hsuf'|lia|apply Hstep; reflexivity|exact H].
Qed.

Theorem table_rewrite_positional res :
  table_rewrite tbl all_old new_jt all_old O [] = Some res ->
  forall z, zassoc z res =
    match zassoc z tbl with
    | Some t => match List.find (fun k => match nth_error all_old k with Some s => Z.eqb s t | None => false end)
                           (seq 0 (length all_old)) with
                | Some k => nth_error new_jt k
                | None => None
                end
    | None => None
    end.
Proof.
  intros H. apply (rewrite_spec all_old O [] res); [intros j s Hj; exact Hj|reflexivity| |exact H].
  intros z. cbn. destruct (zassoc z tbl); reflexivity.
Qed.

Corollary table_rewrite_lookup res :
  table_rewrite tbl all_old new_jt all_old O [] = Some res ->
  forall z, match zassoc z tbl with
            | Some t => (forall k, nth_error all_old k = Some t -> zassoc z res = nth_error new_jt k) /\
                        (~ In t all_old -> zassoc z res = None)
            | None => zassoc z res = None
            end.
Proof.
  intros H z. pose proof (table_rewrite_positional res H z) as Hz.
  destruct (zassoc z tbl) as [t|]; [|exact Hz]. split.
  - intros k Hk. rewrite Hz. rewrite (find_pos_ext (length all_old) t k); [reflexivity| |exact Hk].
    apply nth_error_Some. congruence.
  - intros Hn. rewrite Hz. rewrite find_pos_none; [reflexivity|]. intros k _ Hk. apply Hn. eapply nth_error_In; eauto.
Qed.
End Positional.

(* the rewritten table has distinct keys *)
Lemma copy_keys_nodup target tgt : forall (tbl acc : list (Z * name)),
  NoDup (map fst acc) ->
  NoDup (map fst (fold_left (fun a kv => if Z.eqb (snd kv) target then tset a (fst kv) tgt else a) tbl acc)).
Proof.
  induction tbl as [|[k t] r IH]; intros acc H; [exact H|]. cbn [fold_left snd fst]. apply IH.
  destruct (Z.eqb t target); [unfold tset; apply dset_keys_nodup; exact H|exact H].
Qed.

Lemma table_rewrite_keys tbl new_jt all_old : forall old_jt idx acc res,
  NoDup (map fst acc) -> table_rewrite tbl old_jt new_jt all_old idx acc = Some res -> NoDup (map fst res).
Proof.
  induction old_jt as [|target rest IH]; intros idx acc res Hnd H.
  - cbn in H. injection H as <-. exact Hnd.
  - cbn [table_rewrite] in H. destruct (zmem target new_jt).
    + eapply IH; [|exact H]. apply copy_keys_nodup. exact Hnd.
    + destruct (Nat.eqb (length new_jt) (length all_old)).
      * destruct (nth_error new_jt idx) as [nt|]; [|discriminate]. eapply IH; [|exact H]. apply copy_keys_nodup. exact Hnd.
      * destruct (dedupe (filter (fun t => negb (zmem t all_old)) new_jt)) as [|nt [|? ?]]; try discriminate.
        eapply IH; [|exact H]. apply copy_keys_nodup. exact Hnd.
Qed.

(* ---------- property C06, second sentence, for the table rewrite ---------- *)
(* every entry names a successor and every successor is named by an entry *)
Definition table_ok_for (tbl : list (Z * name)) (jt : list name) : Prop :=
  (forall z t, zassoc z tbl = Some t -> In t jt) /\ (forall t, In t jt -> exists z, zassoc z tbl = Some t).

Theorem table_rewrite_keeps_ok tbl all_old new_jt res :
  NoDup (map fst tbl) -> length new_jt = length all_old ->
  (forall k s t, nth_error all_old k = Some s -> nth_error new_jt k = Some t -> t = s \/ ~ In t all_old) ->
  NoDup all_old ->
  table_rewrite tbl all_old new_jt all_old O [] = Some res ->
  table_ok_for tbl all_old -> table_ok_for res new_jt.
Proof.
  intros Hkeys Hlen Hpos Hnd Htr [Hin Hall].
  pose proof (table_rewrite_lookup tbl all_old new_jt Hkeys Hlen Hpos Hnd res Htr) as Hl.
  split.
  - intros z t Hz. specialize (Hl z). destruct (zassoc z tbl) as [t0|] eqn:Hzt; [|congruence].
    destruct Hl as [A _]. pose proof (Hin z t0 Hzt) as Ht0. apply In_nth_error in Ht0 as [k Hk].
    rewrite (A k Hk) in Hz. eapply nth_error_In; eauto.
  - intros t Ht. apply In_nth_error in Ht as [k Hk].
    destruct (nth_error all_old k) as [s|] eqn:Hs.
    + destruct (Hall s (nth_error_In _ _ Hs)) as [z Hz]. exists z. specialize (Hl z). rewrite Hz in Hl.
      destruct Hl as [A _]. rewrite (A k Hs). exact Hk.
    + exfalso. apply nth_error_None in Hs. assert (k < length new_jt)%nat by (apply nth_error_Some; congruence). lia.
Qed.

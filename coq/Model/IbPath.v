(* IbPath.v — property C01 for the plain insertion with ONE successor (what
   join_tails_and_exits and insert_SyntheticFill do in branch restructuring once
   the tail has a single header): Edits.insert_block g new P [e] cls keeps every
   walk.  For every flat graph whose targets exist, every list of distinct
   predecessors with distinct successors (branching ones with distinct table
   keys), every successor e among the blocks and every fresh name: an arc
   p -> e becomes p -> new -> e, where new is a synthetic block that does
   nothing. *)
From Coq Require Import List ZArith Bool Lia.
Import ListNotations.
From V Require Import Valid.Hier Valid.Walk Valid.FlatRegion Model.Graph Model.Edits Model.Edits2 Model.Edits3
                      Model.TableSpec Model.JoinPath Model.Refine Model.CbPath Model.LoopPath.
Local Open Scope Z_scope.

Section IbPath.
Variables (g : egraph) (top new e0 : name) (preds : list name) (cls : Z) (g' : egraph) (strict : bool).

Hypothesis Hib : insert_block g new preds [e0] cls = Ok g'.
Hypothesis Hpreds : NoDup preds /\ ~ In new preds.
Hypothesis Hpjt : forall p b, In p preds -> efind g p = Some b ->
  NoDup (e_jt b) /\ ~ In new (e_jt b) /\ (forall c w t, e_kind b = EBranch c w t -> NoDup (map fst t)).
Hypothesis Hnew : efind g new = None /\ new <> top /\ cls <> 100.
Hypothesis Htop : ~ In top (ekeys g).
Hypothesis He0 : In e0 (ekeys g).
Hypothesis Hclosed : forall x b t, efind g x = Some b -> In t (e_jt b) -> In t (ekeys g).

Let h := ehier top g.
Let h' := ehier top g'.
Let r := resolve_flat h.
Let r' := resolve_flat h'.
Definition Fn (w : Z) : Prop := False.
Definition Oldi (x : name) : Prop := In x (ekeys g).

Lemma ib_spec :
  efind g' new = Some (mkE [e0] [] (EPlain cls)) /\
  (forall x, ~ In x preds -> x <> new -> efind g' x = efind g x) /\
  (forall p, In p preds -> exists b b', efind g p = Some b /\ efind g' p = Some b' /\
       e_jt b' = retarget new [e0] (e_jt b) /\ e_be b' = e_be b).
Proof. exact (insert_block_spec g new preds [e0] cls g' (proj1 Hpreds) (proj2 Hpreds) Hib). Qed.

Lemma old_ne x : Oldi x -> x <> new /\ x <> top.
Proof.
  intros Hx. destruct (keys_efind g x Hx) as [b Hb]. split; [intros ->; destruct Hnew; congruence|intros ->; contradiction].
Qed.

Lemma find_hi x b : efind g x = Some b -> find h x = Some (node_of top (x, b)).
Proof.
  intros Hb. unfold h. rewrite find_ehier by (intros ->; apply Htop; eapply efind_keys; eauto). rewrite Hb. reflexivity.
Qed.

Lemma find_hi' x b' : x <> top -> efind g' x = Some b' -> find h' x = Some (node_of top (x, b')).
Proof. intros Hne Hb. unfold h'. rewrite find_ehier by exact Hne. rewrite Hb. reflexivity. Qed.

Lemma leaf_i x b : is_region (node_of top (x, b)) = false.
Proof.
  unfold is_region, node_of. cbn. pose proof (kind_of_not_region b). destruct (kind_of b); try reflexivity. contradiction.
Qed.

Lemma old_in_g'i x : Oldi x -> exists b', efind g' x = Some b'.
Proof.
  intros Hx. destruct ib_spec as [_ [Ho Hp]]. destruct (in_dec Z.eq_dec x preds) as [Hin|Hnin].
  - destruct (Hp x Hin) as [b [b' [_ [H2 _]]]]. eauto.
  - rewrite (Ho x Hnin (proj1 (old_ne x Hx))). apply keys_efind. exact Hx.
Qed.

Lemma res_i x t : Oldi t -> r x t = Some t.
Proof.
  intros Ht. destruct (keys_efind g t Ht) as [b Hb]. unfold r, resolve_flat.
  eapply enter_flat_leaf; [apply find_hi; exact Hb|apply leaf_i].
Qed.

Lemma res_i' x t : Oldi t -> r' x t = Some t.
Proof.
  intros Ht. destruct (old_in_g'i t Ht) as [b' Hb']. unfold r', resolve_flat.
  eapply enter_flat_leaf; [apply find_hi'; [apply (old_ne t Ht)|exact Hb']|apply leaf_i].
Qed.

Lemma edge_same_i x t : Oldi t -> Edge h' r r' strict Fn Oldi x t t.
Proof.
  intros Ht e e' He. exists t, t, 0%nat, e'. split; [apply res_i; exact Ht|]. split; [exact Ht|].
  split; [apply res_i'; exact Ht|]. split; [exact He|]. intros fuel. reflexivity.
Qed.

(* the rerouted arc: through the new block, which only continues *)
Lemma edge_new x : Edge h' r r' strict Fn Oldi x e0 new.
Proof.
  intros e e' He. destruct ib_spec as [Hn _]. destruct Hnew as [_ [Hnt Hc]].
  assert (Hf : find h' new = Some (node_of top (new, mkE [e0] [] (EPlain cls)))) by (apply find_hi'; assumption).
  exists e0, new, 1%nat, e'. split; [apply res_i; exact He0|]. split; [exact He0|].
  split; [unfold r', resolve_flat; eapply enter_flat_leaf; [exact Hf|apply leaf_i]|]. split; [exact He|].
  intros fuel. change (1 + fuel)%nat with (S fuel). cbn [srun]. rewrite Hf.
  cbn [node_of n_kind n_jt fst snd kind_of e_kind e_jt].
  apply Z.eqb_neq in Hc. rewrite Hc. rewrite (res_i' new e0 He0). reflexivity.
Qed.

Lemma hold_i : forall x, Oldi x -> exists b b', find h x = Some b /\ find h' x = Some b' /\
  Compat h' r r' strict Fn Oldi x b b'.
Proof.
  intros x Hx. destruct (old_ne x Hx) as [Hxn Hxt]. destruct ib_spec as [_ [Ho Hp]].
  destruct (in_dec Z.eq_dec x preds) as [Hin|Hnin].
  - destruct (Hp x Hin) as [b [b' [Hb [Hb' [Hjt Hbe]]]]].
    destruct (Hpjt x b Hin Hb) as [Hnd [Hnn Hkeys]].
    (* one successor: the first (only) occurrence of e0 is replaced *)
    assert (Hrt : e_jt b' = if zmem e0 (e_jt b) then replace_first e0 new (e_jt b) else e_jt b).
    { rewrite Hjt. unfold retarget. cbn [fold_left]. unfold rt_step.
      destruct (zmem e0 (e_jt b)); [|reflexivity].
      assert (zmem new (e_jt b) = false) as -> by (apply zmem_false; exact Hnn). reflexivity. }
    assert (Hlen : length (e_jt b) = length (e_jt b')).
    { rewrite Hrt. destruct (zmem e0 (e_jt b)); [rewrite replace_first_length|]; reflexivity. }
    assert (Hpos : forall k t t', nth_error (e_jt b) k = Some t -> nth_error (e_jt b') k = Some t' ->
                                  (t = e0 /\ t' = new) \/ (t <> e0 /\ t' = t)).
    { intros k t t' Ht Ht'. rewrite Hrt in Ht'. destruct (zmem e0 (e_jt b)) eqn:Hz.
      - destruct (Z.eq_dec t e0) as [->|Hne].
        + rewrite (replace_first_hit e0 new (e_jt b) Hnd k Ht) in Ht'. injection Ht' as <-. left. auto.
        + rewrite (replace_first_other e0 new (e_jt b) k t Ht Hne) in Ht'. injection Ht' as <-. right. auto.
      - apply zmem_false in Hz. right. split; [intros ->; apply Hz; eapply nth_error_In; eauto|congruence]. }
    assert (Hedge : forall k t t', nth_error (e_jt b) k = Some t -> nth_error (e_jt b') k = Some t' ->
                                   Edge h' r r' strict Fn Oldi x t t').
    { intros k t t' Ht Ht'. destruct (Hpos k t t' Ht Ht') as [[-> ->]|[_ ->]]; [apply edge_new|].
      apply edge_same_i. eapply Hclosed; [exact Hb|eapply nth_error_In; exact Ht]. }
    (* the block itself: the old one with the new successors *)
    destruct (insert_block_spec2 g new preds [e0] cls g' (proj1 Hpreds) (proj2 Hpreds) Hib x Hin)
      as [b2 [b2' [Hb2 [Hb2' Hrj]]]].
    rewrite Hb in Hb2. injection Hb2 as <-. rewrite Hb' in Hb2'. injection Hb2' as <-.
    rewrite <- Hjt in Hrj.
    pose proof (CbPath.replace_jt_kind b _ b' Hrj) as Hkind.
    exists (node_of top (x, b)), (node_of top (x, b')).
    split; [apply find_hi; exact Hb|]. split; [apply find_hi'; assumption|].
    destruct b' as [jt1 be1 k1]. cbn [e_jt e_kind e_be] in *.
    destruct (e_kind b) as [cc|a|cc w t] eqn:Ek.
    + subst k1. rewrite <- Ek. apply compat_positions; try assumption.
      * intros c0 v0 t0 E0. congruence.
      * rewrite Ek. exact I.
    + subst k1. rewrite <- Ek. apply compat_positions; try assumption.
      * intros c0 v0 t0 E0. congruence.
      * rewrite Ek. intros p Hp0 [].
    + destruct Hkind as [t' [Htr ->]].
      apply (compat_branch h' r r' strict Fn Oldi top x b jt1 be1 cc w t t' Ek).
      * intros [].
      * apply (Hkeys cc w t eq_refl).
      * exact Hnd.
      * exact Hlen.
      * intros k s0 t0 Hs0 Ht0. destruct (Hpos k s0 t0 Hs0 Ht0) as [[-> ->]|[_ ->]]; [right; exact Hnn|left; reflexivity].
      * exact Htr.
      * exact Hedge.
  - destruct (keys_efind g x Hx) as [b Hb].
    exists (node_of top (x, b)), (node_of top (x, b)).
    split; [apply find_hi; exact Hb|]. split; [apply find_hi'; [exact Hxt|rewrite (Ho x Hnin Hxn); exact Hb]|].
    apply compat_same.
    + intros t Ht. apply edge_same_i. eapply Hclosed; eauto.
    + destruct (e_kind b); try exact I; intros; intros [].
Qed.

Theorem insert_block_one_keeps_walks : forall n e e' ds tr st,
  (exists b, efind g n = Some b /\ e_kind b = EPlain 100) ->
  E Fn e e' ->
  WTrace h r strict n e ds tr st -> WTrace h' r' strict n e' ds tr st.
Proof.
  intros n e e' ds tr st [b [Hb Hk]] He Hw.
  apply (walk_refines h h' r r' strict Fn Oldi hold_i n e ds tr st Hw e').
  - eapply efind_keys; eauto.
  - exists (node_of top (n, b)), 1. split; [apply find_hi; exact Hb|]. unfold node_of, kind_of. cbn. rewrite Hk. reflexivity.
  - exact He.
Qed.

Theorem insert_block_one_keeps_ctrace : forall n e e' ds,
  (exists b, efind g n = Some b /\ e_kind b = EPlain 100) ->
  E Fn e e' ->
  CTrace h r strict n e ds -> CTrace h' r' strict n e' ds.
Proof.
  intros n e e' ds [b [Hb Hk]] He Hw.
  apply (ctrace_refines h h' r r' strict Fn Oldi hold_i n e ds Hw e').
  - eapply efind_keys; eauto.
  - exists (node_of top (n, b)), 1. split; [apply find_hi; exact Hb|]. unfold node_of, kind_of. cbn. rewrite Hk. reflexivity.
  - exact He.
Qed.
End IbPath.

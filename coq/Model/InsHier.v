(* InsHier.v — SCFG.insert_block as the pipeline calls it: on the dictionary of ONE LEVEL of a
   hierarchy.  The flat model (Edits.insert_block, line by line) applied to that dictionary and
   written back; a predecessor that is a region then has every successor renaming pushed down its
   exiting blocks (update_exiting), as the code does.  Compared with the code on every call the
   pipeline makes. *)
From Coq Require Import List ZArith Bool Lia.
Import ListNotations.
From V Require Import Valid.Hier Model.Graph Model.Edits Model.Edits2 Model.LoopEdit Model.Extract Model.CbHier Model.LoopHier.
Local Open Scope Z_scope.

Fixpoint push_regions (fuel : nat) (h : hier) (preds : list name) (renamed : list (name * name)) : xres hier :=
  match preds with
  | [] => XOk h
  | p :: rest =>
    match find h p with
    | Some np =>
      if is_region np then
        match push_down fuel h p renamed with
        | XOk h1 => push_regions fuel h1 rest renamed
        | XKey => XKey
        | XAssert => XAssert
        end
      else push_regions fuel h rest renamed
    | None => XKey
    end
  end.

Definition insert_block_h (h : hier) (lvl new : name) (preds S : list name) (cls : Z) : xres hier :=
  match level_graph h lvl with
  | None => XKey
  | Some g =>
    match insert_block g new preds S cls with
    | Ok g' =>
      let h1 := write_back h lvl g' in
      push_regions (Datatypes.S (length h1)) h1 preds (map (fun s => (s, new)) S)
    | KeyError => XKey
    | AssertionError => XAssert
    end
  end.

(* ---------- correspondence driver ----------
   rows: the hierarchy before the call (Hier.v tags 1-6), then
     51 lvl new cls P preds.. S succs..
     50 status
     47 <row>                  the hierarchy after the call
   answer: [decoded; same outcome; every block and region equal, children in dictionary order] *)
Fixpoint split_ib (rows : list (list Z)) : list (list Z) * list (list Z) * list Z * list Z :=
  match rows with
  | [] => ([], [], [], [])
  | row :: rest =>
    let '(b, a, op, st) := split_ib rest in
    match row with
    | 47 :: r => (b, r :: a, op, st)
    | 51 :: r => (b, a, r, st)
    | 50 :: r => (b, a, op, r)
    | _ => (row :: b, a, op, st)
    end
  end.

Definition run_ibh (rows : list (list Z)) : list Z :=
  let '(br, ar, op, st) := split_ib rows in
  match decode br, op with
  | Some (_, h), lvl :: new :: cls :: r =>
    match take_list r with
    | Some (preds, r1) =>
      match take_list r1 with
      | Some (Ss, []) =>
        match insert_block_h h lvl new preds Ss cls, st with
        | XOk h', [0] =>
          match decode ar with
          | Some (_, ha) =>
            [1; 1; if Nat.eqb (length h') (length ha) &&
                      forallb (fun n => match find ha (n_name n) with Some m => xnode_eqb n m | None => false end) h'
                   then 1 else 0]
          | None => [0; 0; 0]
          end
        | XKey, [1] => [1; 1; 1]
        | XAssert, [2] => [1; 1; 1]
        | _, _ => [1; 0; 0]
        end
      | _ => [0; 0; 0]
      end
    | None => [0; 0; 0]
    end
  | _, _ => [0; 0; 0]
  end.

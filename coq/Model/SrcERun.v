(* SrcERun.v — correspondence driver for SrcE.v: the extended skeleton (with expression
   trees) is compiled by the model, the blocks are serialised and compared, token for
   token and in creation order, with the serialisation of the transformer's unpruned blocks.

   rows: 170                                   marker
         171 tokens..                          function body: list
              list := k stmt*k
              stmt := 1 a expr | 2 a | 3 a 0 | 3 a 1 expr | 4 a | 5 a
                    | 6 expr list list | 7 expr list list | 8 tgt expr list list
              expr := 1 a | 2 isor k expr*k | 3 c k expr*k
         172 idx J jt*J tokens..               block of the implementation (creation order), instructions as
              instr := 1 a rexpr | 2 a | 3 a 0 | 3 a 1 rexpr | 4 a | 5 a | 6 rexpr | 7 k rexpr
                     | 8 h rexpr | 9 tgt | 10 h tgt | 11 h tgt | 12 tgt | 13 h tgt
              rexpr := 1 a | 2 k | 3 c n rexpr*n
   answer: [decoded; blocks equal; header indices of for-loops consistent;
            1 when the program lies in the fragment of the theorem front_end_correct_e (good_stmts);
            pruned blocks (rows 173, as 172) and entry (row 174: status entry) equal] *)
From Coq Require Import List ZArith Bool.
Import ListNotations.
From V Require Import Valid.Hier Model.SrcE Model.SrcEProof Model.SrcEPrune.
Local Open Scope Z_scope.

Fixpoint parse_expr (fuel : nat) (l : list Z) : option (expr * list Z) :=
  match fuel with
  | O => None
  | S f =>
    match l with
    | 1 :: a :: r => Some (EAtom a, r)
    | 2 :: o :: k :: r =>
      match parse_exprs f (Z.to_nat k) r with Some (es, r1) => Some (EBool (Z.eqb o 1) es, r1) | None => None end
    | 3 :: c :: k :: r =>
      match parse_exprs f (Z.to_nat k) r with Some (es, r1) => Some (EOp c es, r1) | None => None end
    | _ => None
    end
  end
with parse_exprs (fuel : nat) (k : nat) (l : list Z) : option (list expr * list Z) :=
  match fuel with
  | O => None
  | S f =>
    match k with
    | O => Some ([], l)
    | S k' => match parse_expr f l with
              | Some (e, r) => match parse_exprs f k' r with Some (es, r2) => Some (e :: es, r2) | None => None end
              | None => None end
    end
  end.

Fixpoint parse_stmt (fuel : nat) (l : list Z) : option (stmt * list Z) :=
  match fuel with
  | O => None
  | S f =>
    match l with
    | 1 :: a :: r => match parse_expr f r with Some (e, r1) => Some (SAct a e, r1) | None => None end
    | 2 :: a :: r => Some (SPass a, r)
    | 3 :: a :: 0 :: r => Some (SRet a None, r)
    | 3 :: a :: 1 :: r => match parse_expr f r with Some (e, r1) => Some (SRet a (Some e), r1) | None => None end
    | 4 :: a :: r => Some (SBreak a, r)
    | 5 :: a :: r => Some (SContinue a, r)
    | 6 :: r =>
      match parse_expr f r with
      | Some (c, r0) =>
        match parse_list f r0 with
        | Some (t, r1) => match parse_list f r1 with Some (e, r2) => Some (SIf c t e, r2) | None => None end
        | None => None end
      | None => None end
    | 7 :: r =>
      match parse_expr f r with
      | Some (c, r0) =>
        match parse_list f r0 with
        | Some (b, r1) => match parse_list f r1 with Some (o, r2) => Some (SWhile c b o, r2) | None => None end
        | None => None end
      | None => None end
    | 8 :: tg :: r =>
      match parse_expr f r with
      | Some (it, r0) =>
        match parse_list f r0 with
        | Some (b, r1) => match parse_list f r1 with Some (o, r2) => Some (SFor 0 tg it b o, r2) | None => None end
        | None => None end
      | None => None end
    | _ => None
    end
  end
with parse_list (fuel : nat) (l : list Z) : option (stmts * list Z) :=
  match fuel with
  | O => None
  | S f =>
    match l with
    | k :: r => if Z.ltb k 0 then None else parse_n f (Z.to_nat k) r
    | [] => None
    end
  end
with parse_n (fuel : nat) (k : nat) (l : list Z) : option (stmts * list Z) :=
  match fuel with
  | O => None
  | S f =>
    match k with
    | O => Some (SNil, l)
    | S k' =>
      match parse_stmt f l with
      | Some (x, r) => match parse_n f k' r with Some (xs, r2) => Some (SCons x xs, r2) | None => None end
      | None => None
      end
    end
  end.

(* header indices of for-loops: the counter advances by 3 per if, 4 per loop and 2 per and/or
   cut out of an expression; simplest is to read them off a first run of the builder *)
(* the builder is run twice: a first time with any annotation to learn the header index of each
   for-loop in order of appearance, a second time with those *)
Fixpoint ser_rexpr (fuel : nat) (e : rexpr) : list Z :=
  match fuel with
  | O => []
  | S f =>
    match e with
    | RAtom a => [1; a]
    | RTmp k => [2; k]
    | ROp c es => 3 :: c :: Z.of_nat (length es) :: flat_map (ser_rexpr f) es
    end
  end.

Definition ser_instr (i : instr) : list Z :=
  let sr := ser_rexpr 400 in
  match i with
  | IAct a e => 1 :: a :: sr e
  | IPass a => [2; a]
  | IRet a None => [3; a; 0]
  | IRet a (Some e) => 3 :: a :: 1 :: sr e
  | IBrk a => [4; a]
  | ICnt a => [5; a]
  | ITest e => 6 :: sr e
  | ISet k e => 7 :: k :: sr e
  | IForIter h e => 8 :: h :: sr e
  | IForInit t => [9; t]
  | IForSave h t => [10; h; t]
  | IForNext h t => [11; h; t]
  | IForTest t => [12; t]
  | IForRestore h t => [13; h; t]
  end.

Definition ser_blk (b : blk) : list Z :=
  b_idx b :: Z.of_nat (length (b_jt b)) :: b_jt b ++ flat_map ser_instr (b_ins b).

(* learn the header indices: the i-th for-loop (in builder order) checks `h = n`; we recover n by
   building with h taken from a list and collecting what the builder saw *)
Fixpoint for_count (l : stmts) : nat :=
  match l with
  | SNil => O
  | SCons x r => (match x with
                  | SIf _ t e => for_count t + for_count e
                  | SWhile _ b o => for_count b + for_count o
                  | SFor _ _ _ b o => S (for_count b + for_count o)
                  | _ => O end + for_count r)%nat
  end.

(* annotate with explicit index allocation: ifs take 3, loops 4, each and/or cut out takes 2 *)
Fixpoint cuts (fuel : nat) (e : expr) : Z :=
  match fuel with
  | O => 0
  | S f =>
    match e with
    | EAtom _ => 0
    | EOp _ es => fold_left (fun acc x => acc + cuts f x) es 0
    | EBool _ es => 2 * (Z.of_nat (length es) - 1) + fold_left (fun acc x => acc + cuts f x) es 0
    end
  end.

Fixpoint an_stmt (x : stmt) (n : Z) {struct x} : stmt * Z :=
  match x with
  | SAct a e => (x, n + cuts 400 e)
  | SRet a (Some e) => (x, n + cuts 400 e)
  | SIf c t e => let '(t', n1) := an_stmts t (n + 3 + cuts 400 c) in
                 let '(e', n2) := an_stmts e n1 in (SIf c t' e', n2)
  | SWhile c b o => let '(b', n1) := an_stmts b (n + 4 + cuts 400 c) in
                    let '(o', n2) := an_stmts o n1 in (SWhile c b' o', n2)
  | SFor _ tg it b o => let '(b', n1) := an_stmts b (n + 4 + cuts 400 it) in
                        let '(o', n2) := an_stmts o n1 in (SFor n tg it b' o', n2)
  | _ => (x, n)
  end
with an_stmts (l : stmts) (n : Z) {struct l} : stmts * Z :=
  match l with
  | SNil => (SNil, n)
  | SCons x r => let '(x', n1) := an_stmt x n in
                 if is_jump x then (SCons x' r, n1)
                 else let '(r', n2) := an_stmts r n1 in (SCons x' r', n2)
  end.

Definition rows_of (rows : list (list Z)) (tag : Z) : list (list Z) :=
  flat_map (fun r => match r with t :: rest => if Z.eqb t tag then [rest] else [] | [] => [] end) rows.

Definition program_of (rows : list (list Z)) : option stmts :=
  match rows_of rows 171 with
  | [toks] => match parse_list (S (S (length toks))) toks with
              | Some (p, []) => Some (fst (an_stmts p 1))
              | _ => None end
  | _ => None
  end.

Fixpoint blocks_same (m : list blk) (e : list (list Z)) : bool :=
  match m, e with
  | [], [] => true
  | b :: m', r :: e' => list_eqb (ser_blk b) r && blocks_same m' e'
  | _, _ => false
  end.

Definition b2z (b : bool) : Z := if b then 1 else 0.

Definition run_srce (rows : list (list Z)) : list Z :=
  match program_of rows with
  | None => [0; 0; 0; 0; 0]
  | Some p => [1; b2z (blocks_same (build p) (rows_of rows 172)); b2z (build_ok p); b2z (good_stmts p);
               match rows_of rows 174, sprune (build p) 0 with
               | [[0; e]], Some (G', e') => b2z (blocks_same G' (rows_of rows 173) && Z.eqb e e')
               | [[1; _]], None => 1
               | _, _ => 0
               end]
  end.

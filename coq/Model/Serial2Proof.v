(* Serial2Proof.v — property C15, the round trip: reading the dictionary that
   to_dict wrote for a closed hierarchy gives that hierarchy back (every block
   with its class, payload, ordered successors, back edges, table or
   assignments; every region with its kind, header, exiting block, parent and
   the same blocks in its graph), and writing the result again gives the same
   dictionary.  For every hierarchy, of any size and depth. *)
From Coq Require Import List ZArith Bool Lia Permutation Sorting.Sorted.
Import ListNotations.
From V Require Import Valid.Hier Valid.FlatRegion Model.Graph Model.SetOrder Model.Serial Model.Serial2.
Local Open Scope Z_scope.

Definition nontop (n : node) : Prop := n_parent n <> 0.
Definition children (n : node) : list name :=
  match n_kind n with KRegion _ _ _ ch _ _ => ch | _ => [] end.
Definition edges_of (h : hier) (x : name) : list name :=
  match find h x with Some n => n_jt n | None => [] end.
(* make_scfg does not follow the edges of the exiting block *)
Definition walk_succ (h : hier) (ex : name) (a : name) : list name :=
  if Z.eqb a ex then [] else edges_of h a.

(* ---------- reading back one entry ---------- *)
Lemma dfind_to_dict h n :
  NoDup (names h) -> In n h -> nontop n -> dfind (to_dict h) (n_name n) = Some (entry_of n).
Proof.
  unfold dfind, to_dict. induction h as [|m r IH]; intros Hnd Hin Hnt; [destruct Hin|].
  cbn [names map] in Hnd. inversion Hnd as [|? ? Hnot Hnd']; subst. cbn [filter].
  destruct Hin as [->|Hin].
  - unfold nontop in Hnt. apply Z.eqb_neq in Hnt. rewrite Hnt. cbn. rewrite entry_name, Z.eqb_refl. reflexivity.
  - destruct (negb (n_parent m =? 0)); [|apply IH; assumption]. cbn. rewrite entry_name.
    destruct (Z.eqb (n_name m) (n_name n)) eqn:E; [|apply IH; assumption].
    apply Z.eqb_eq in E. exfalso. apply Hnot. rewrite E. apply in_map. exact Hin.
Qed.

Lemma dfind_some d x e : dfind d x = Some e -> In e d /\ d_name e = x.
Proof.
  unfold dfind. intros H. apply find_some in H as [H1 H2]. apply Z.eqb_eq in H2. auto.
Qed.

Lemma iskey_to_dict h n : NoDup (names h) -> In n h -> nontop n -> iskey (to_dict h) (n_name n) = true.
Proof. intros A B C. unfold iskey. rewrite (dfind_to_dict h n A B C). reflexivity. Qed.

Lemma leaf_of_entry p n : codes_ok n = true -> is_region n = false ->
  leaf_of p (entry_of n) = Some (mkNode (n_name n) p (n_jt n) (n_be n) (n_kind n)) /\ d_type (entry_of n) <> 50.
Proof.
  unfold codes_ok, is_region, leaf_of, entry_of. destruct (n_kind n) as [pl|c|a|c v t|]; intros Hc Hr; try discriminate.
  - cbn. split; [reflexivity|lia].
  - apply andb_true_iff in Hc as [H1 H2]. cbn. apply Z.leb_le in H1. apply Z.leb_le in H2.
    destruct (Z.eqb c 100) eqn:E1; [apply Z.eqb_eq in E1; lia|].
    destruct (Z.eqb c 20) eqn:E2; [apply Z.eqb_eq in E2; lia|].
    assert (Z.leb 1 c && Z.leb c 9 = true) as -> by (apply andb_true_iff; split; apply Z.leb_le; lia).
    split; [reflexivity|lia].
  - cbn. rewrite unflat_flat. split; [reflexivity|lia].
  - apply andb_true_iff in Hc as [H1 H2]. cbn. apply Z.leb_le in H1. apply Z.leb_le in H2.
    destruct (Z.eqb c 100) eqn:E1; [apply Z.eqb_eq in E1; lia|].
    destruct (Z.eqb c 20) eqn:E2; [apply Z.eqb_eq in E2; lia|].
    assert (Z.leb 1 c && Z.leb c 9 = false) as -> by (apply andb_false_iff; right; apply Z.leb_gt; lia).
    assert (Z.leb 10 c && Z.leb c 19 = true) as -> by (apply andb_true_iff; split; apply Z.leb_le; lia).
    rewrite unflat_flat. split; [reflexivity|lia].
Qed.

Lemma region_entry n rk hd ex ch pd ok : n_kind n = KRegion rk hd ex ch pd ok ->
  d_type (entry_of n) = 50 /\ d_extra (entry_of n) = rk :: hd :: ex :: pd :: zsort ch /\
  d_edges (entry_of n) = n_jt n /\ d_back (entry_of n) = n_be n.
Proof. unfold entry_of. intros ->. cbn. auto. Qed.

Lemma entry_edges n : d_edges (entry_of n) = n_jt n /\ d_back (entry_of n) = n_be n.
Proof. unfold entry_of. destruct (n_kind n); cbn; auto. Qed.

(* ---------- closed hierarchies ---------- *)
Record Closed (h : hier) (topn : node) : Prop := {
  c_nodup : NoDup (names h);
  c_codes : forallb codes_ok h = true;
  c_top : In topn h /\ n_parent topn = 0 /\ forall n, In n h -> n_parent n = 0 -> n = topn;
  c_names : forall n, In n h -> n_name n <> 0;
  (* successors and back edges name blocks that are written *)
  c_targets : forall n t, In n h -> nontop n -> In t (n_jt n ++ n_be n) ->
      exists m, In m h /\ nontop m /\ n_name m = t;
  (* a block lies in the graph of its parent, and only there *)
  c_listed : forall n, In n h -> nontop n -> exists r, In r h /\ n_name r = n_parent n /\ In (n_name n) (children r);
  c_children : forall r x, In r h -> In x (children r) -> exists n, In n h /\ n_name n = x /\ n_parent n = n_name r;
  (* the outermost graph is closed under successors *)
  c_top_closed : forall x n t, In x (children topn) -> find h x = Some n -> In t (n_jt n) -> In t (children topn);
  (* a region: recorded parent, header inside, only the exiting block leaves, everything reachable from the header *)
  c_region : forall r rk hd ex ch pd ok, In r h -> nontop r -> n_kind r = KRegion rk hd ex ch pd ok ->
      pd = n_parent r /\ In hd ch /\
      (forall x n t, In x ch -> x <> ex -> find h x = Some n -> In t (n_jt n) -> In t ch) /\
      (forall x, In x ch -> Reach (walk_succ h ex) hd x);
  (* the nesting is a tree under the outermost region *)
  c_rank : exists rank : name -> nat, forall n, In n h -> nontop n -> (rank (n_parent n) < rank (n_name n))%nat }.

Section RoundTrip.
Variables (h : hier) (topn : node).
Hypothesis HC : Closed h topn.
Variable top : name.   (* the name the reader gives the outermost region *)

Let d := to_dict h.
Definition ren (p : name) : name := if Z.eqb p (n_name topn) then top else p.

(* n' is what the reader should build for n *)
Definition Rep (n n' : node) : Prop :=
  n_name n' = n_name n /\ n_jt n' = n_jt n /\ n_be n' = n_be n /\ n_parent n' = ren (n_parent n) /\
  match n_kind n, n_kind n' with
  | KRegion rk hd ex ch pd _, KRegion rk' hd' ex' ch' pd' ok' =>
    rk' = rk /\ hd' = hd /\ ex' = ex /\ pd' = ren pd /\ ok' = true /\ NoDup ch' /\ (forall x, In x ch' <-> In x ch)
  | KRegion _ _ _ _ _ _, _ => False
  | k, k' => k' = k
  end.

Definition HasRep (x : name) (nodes : list node) : Prop :=
  exists n n', find h x = Some n /\ In n' nodes /\ Rep n n'.

Definition NodesOk (nodes : list node) : Prop :=
  (forall n', In n' nodes -> exists n, In n h /\ nontop n /\ Rep n n') /\
  (forall r', In r' nodes -> forall x, In x (children r') -> HasRep x nodes).

Lemma HasRep_mono x a b : (forall n, In n a -> In n b) -> HasRep x a -> HasRep x b.
Proof. intros Hs [n [n' [A [B C]]]]. exists n, n'. auto. Qed.

Lemma NodesOk_app a b : NodesOk a -> NodesOk b -> NodesOk (a ++ b).
Proof.
  intros [A1 A2] [B1 B2]. split.
  - intros n' Hin. apply in_app_or in Hin as [Hin|Hin]; auto.
  - intros r' Hin x Hx. apply in_app_or in Hin as [Hin|Hin].
    + eapply HasRep_mono; [|eapply A2; eauto]. intros; apply in_or_app; auto.
    + eapply HasRep_mono; [|eapply B2; eauto]. intros; apply in_or_app; auto.
Qed.

Lemma find_named n : In n h -> find h (n_name n) = Some n.
Proof. apply find_of_In. apply (c_nodup _ _ HC). Qed.

Lemma codes_of n : In n h -> codes_ok n = true.
Proof. pose proof (c_codes _ _ HC) as Hc. rewrite forallb_forall in Hc. apply Hc. Qed.

Lemma keys_ok n : In n h -> nontop n ->
  forallb (iskey d) (d_edges (entry_of n)) && forallb (iskey d) (d_back (entry_of n)) = true.
Proof.
  intros Hin Hnt. destruct (entry_edges n) as [-> ->]. apply andb_true_iff. split; apply forallb_forall; intros t Ht.
  - destruct (c_targets _ _ HC n t Hin Hnt (in_or_app _ _ _ (or_introl Ht))) as [m [A [B <-]]].
    apply iskey_to_dict; [apply (c_nodup _ _ HC)|exact A|exact B].
  - destruct (c_targets _ _ HC n t Hin Hnt (in_or_app _ _ _ (or_intror Ht))) as [m [A [B <-]]].
    apply iskey_to_dict; [apply (c_nodup _ _ HC)|exact A|exact B].
Qed.

(* what a call of make_scfg for region r must return *)
Definition RegionPost (r : node) (res : list name * list node * list name) : Prop :=
  let '(ch', sub, _) := res in
  NoDup ch' /\ (forall x, In x ch' <-> In x (children r)) /\ NodesOk sub /\ (forall x, In x ch' -> HasRep x sub).

Definition RegionsOk (fuel : nat) : Prop :=
  forall r rk hd ex ch pd ok res, In r h -> nontop r -> n_kind r = KRegion rk hd ex ch pd ok ->
    mk_loop d fuel (n_name r) ex [hd] [] [] [] [] = Some res -> RegionPost r res.

(* ---------- one level ---------- *)
Section Level.
Variables (p0 ex : name) (L : list name).
Hypothesis HL : forall x, In x L -> exists n, In n h /\ n_name n = x /\ nontop n /\ n_parent n = p0.
Hypothesis Hclosed : forall x n t, In x L -> x <> ex -> find h x = Some n -> In t (n_jt n) -> In t L.

Record LInv (todo seen out : list name) (nodes : list node) (pn : list name) : Prop := {
  li_nodup : NoDup out;
  li_seen : forall x, In x seen <-> In x out;
  li_out : forall x, In x out -> In x L;
  li_todo : forall x, In x todo -> In x L;
  li_closed : forall x t, In x out -> In t (walk_succ h ex x) -> In t seen \/ In t todo;
  li_nodes : NodesOk nodes;
  li_rep : forall x, In x out -> HasRep x nodes;
  li_pn : forall p, In p pn -> p = p0;
  li_pnreg : forall x n, In x out -> find h x = Some n -> is_region n = true -> pn <> [] }.

Lemma level_loop : forall fuel, (forall f', (f' < fuel)%nat -> RegionsOk f') ->
  forall todo seen out nodes pn res,
  LInv todo seen out nodes pn ->
  mk_loop d fuel (ren p0) ex todo seen out nodes pn = Some res ->
  exists out' nodes' pn', res = (rev out', nodes', pn') /\ LInv [] out' out' nodes' pn' /\
    (forall x, In x out -> In x out') /\ (forall x, In x todo -> In x out').
Proof.
  induction fuel as [|f IH]; intros HR todo seen out nodes pn res HI H; [discriminate|].
  cbn [mk_loop] in H. destruct todo as [|x rest].
  - injection H as <-. exists out, nodes, pn. split; [reflexivity|]. split; [|split; [auto|intros x []]].
    destruct HI as [I1 I2 I3 I4 I5 I6 I7 I8 I9].
    constructor; [exact I1|intros y; tauto|exact I3|intros y []| |exact I6|exact I7|exact I8|exact I9].
    intros y t Hy Ht. destruct (I5 y t Hy Ht) as [A|[]]. left. apply I2. exact A.
  - assert (HRf : forall f', (f' < f)%nat -> RegionsOk f') by (intros f' Hf; apply HR; lia).
    destruct (zmem x seen) eqn:Hseen.
    + (* already built *)
      apply zmem_In in Hseen.
      assert (HI' : LInv rest seen out nodes pn).
      { destruct HI as [I1 I2 I3 I4 I5 I6 I7 I8 I9]. constructor; auto.
        - intros y Hy. apply I4. right. exact Hy.
        - intros y t Hy Ht. destruct (I5 y t Hy Ht) as [A|[<-|A]]; auto. }
      destruct (IH HRf _ _ _ _ _ _ HI' H) as [out' [nodes' [pn' [E [J [K1 K2]]]]]].
      exists out', nodes', pn'. split; [exact E|]. split; [exact J|]. split; [exact K1|].
      intros y [<-|Hy]; [apply K1; apply (li_seen _ _ _ _ _ HI); exact Hseen|apply K2; exact Hy].
    + apply zmem_false in Hseen.
      destruct (HL x (li_todo _ _ _ _ _ HI x (or_introl eq_refl))) as [n [Hin [Hname [Hnt Hpar]]]].
      assert (Hfind : find h x = Some n) by (rewrite <- Hname; apply find_named; exact Hin).
      assert (Hd : dfind d x = Some (entry_of n)).
      { rewrite <- Hname. apply dfind_to_dict; [apply (c_nodup _ _ HC)|exact Hin|exact Hnt]. }
      rewrite Hd in H. rewrite (keys_ok n Hin Hnt) in H. cbn [negb] in H.
      destruct (entry_edges n) as [Hedges Hback]. rewrite Hedges, Hback in H.
      set (todo' := if Z.eqb x ex then rest else rest ++ n_jt n) in *.
      assert (Hxout : ~ In x out) by (intros Hi; apply Hseen; apply (li_seen _ _ _ _ _ HI); exact Hi).
      assert (Htodo' : forall y, In y todo' -> In y L).
      { intros y Hy. unfold todo' in Hy. destruct (Z.eqb x ex) eqn:E.
        - apply (li_todo _ _ _ _ _ HI). right. exact Hy.
        - apply in_app_or in Hy as [Hy|Hy]; [apply (li_todo _ _ _ _ _ HI); right; exact Hy|].
          apply Z.eqb_neq in E. eapply Hclosed; eauto. apply (li_todo _ _ _ _ _ HI). left. reflexivity. }
      assert (Hcl' : forall y t, In y (x :: out) -> In t (walk_succ h ex y) -> In t (x :: seen) \/ In t todo').
      { intros y t [<-|Hy] Ht.
        - unfold walk_succ in Ht. unfold todo'. destruct (Z.eqb x ex); [destruct Ht|].
          unfold edges_of in Ht. rewrite Hfind in Ht. right. apply in_or_app. right. exact Ht.
        - destruct (li_closed _ _ _ _ _ HI y t Hy Ht) as [A|[<-|A]]; [left; right; exact A|left; left; reflexivity|].
          right. unfold todo'. destruct (Z.eqb x ex); [exact A|apply in_or_app; left; exact A]. }
      assert (Hstep : forall n' nodes1 pn1,
                 Rep n n' -> NodesOk nodes1 -> (forall y, In y nodes -> In y nodes1) -> In n' nodes1 ->
                 (forall p, In p pn1 -> p = p0) -> (is_region n = true -> pn1 <> []) -> (pn <> [] -> pn1 <> []) ->
                 LInv todo' (x :: seen) (x :: out) nodes1 pn1).
      { intros n' nodes1 pn1 Hrep Hok Hmono Hn' Hp1 Hp2 Hp3.
        destruct HI as [I1 I2 I3 I4 I5 I6 I7 I8 I9]. constructor; auto.
        - constructor; assumption.
        - intros y. cbn. rewrite I2. tauto.
        - intros y [<-|Hy]; [apply I4; left; reflexivity|apply I3; exact Hy].
        - intros y [<-|Hy].
          + exists n, n'. auto.
          + eapply HasRep_mono; [exact Hmono|apply I7; exact Hy].
        - intros y m [<-|Hy] Hfy Hreg.
          + rewrite Hfind in Hfy. injection Hfy as <-. apply Hp2. exact Hreg.
          + apply Hp3. eapply I9; eauto. }
      destruct (is_region n) eqn:Hreg.
      * (* a region: its graph is rebuilt by walking from its header *)
        unfold is_region in Hreg. destruct (n_kind n) as [| | | |rk hd ex' ch pd ok] eqn:Hk; try discriminate.
        destruct (region_entry n rk hd ex' ch pd ok Hk) as [Hty [Hex _]]. rewrite Hty in H. change (50 =? 50) with true in H. cbv iota in H. rewrite Hex in H.
        match type of H with match ?t with _ => _ end = _ => destruct t as [[[ch' sub] pnsub]|] eqn:Hsub end; [|discriminate].
        rewrite <- Hname in Hsub.
        pose proof (HR f ltac:(lia) n rk hd ex' ch pd ok _ Hin Hnt Hk Hsub) as [Q1 [Q2 [Q3 Q4]]].
        destruct (c_region _ _ HC n rk hd ex' ch pd ok Hin Hnt Hk) as [Hpd _].
        set (r' := mkNode x (ren p0) (n_jt n) (n_be n) (KRegion rk hd ex' ch' (ren p0) true)) in *.
        assert (Hrep : Rep n r').
        { unfold Rep, r'. cbn. rewrite Hk. split; [symmetry; exact Hname|]. split; [reflexivity|].
          split; [reflexivity|]. split; [rewrite Hpar; reflexivity|]. split; [reflexivity|]. split; [reflexivity|].
          split; [reflexivity|]. split; [rewrite Hpd, Hpar; reflexivity|]. split; [reflexivity|]. split; [exact Q1|].
          intros y. rewrite Q2. unfold children. rewrite Hk. tauto. }
        assert (Hok1 : NodesOk (nodes ++ r' :: sub)).
        { apply NodesOk_app; [apply (li_nodes _ _ _ _ _ HI)|]. destruct Q3 as [S1 S2]. split.
          - intros m [<-|Hm]; [exists n; auto|apply S1; exact Hm].
          - intros m [<-|Hm] y Hy.
            + eapply HasRep_mono; [|apply Q4; exact Hy]. intros; right; assumption.
            + eapply HasRep_mono; [|eapply S2; eauto]. intros; right; assumption. }
        eapply (IH HRf) in H.
        2:{ apply (Hstep r' _ (pd :: pn) Hrep Hok1).
            - intros y Hy. apply in_or_app. left. exact Hy.
            - apply in_or_app. right. left. reflexivity.
            - intros p [<-|Hp]; [rewrite Hpd; exact Hpar|apply (li_pn _ _ _ _ _ HI); exact Hp].
            - intros _. discriminate.
            - intros _. discriminate. }
        destruct H as [out' [nodes' [pn' [E [J [K1 K2]]]]]].
        exists out', nodes', pn'. split; [exact E|]. split; [exact J|]. split.
        -- intros y Hy. apply K1. right. exact Hy.
        -- intros y [<-|Hy]; [apply K1; left; reflexivity|].
           assert (In y todo') by (unfold todo'; destruct (Z.eqb x ex); [exact Hy|apply in_or_app; left; exact Hy]).
           apply K2. assumption.
      * (* any other block *)
        destruct (leaf_of_entry (ren p0) n (codes_of n Hin) Hreg) as [Hleaf Hty].
        apply Z.eqb_neq in Hty. rewrite Hty, Hleaf in H. rewrite Hname in H.
        set (n' := mkNode x (ren p0) (n_jt n) (n_be n) (n_kind n)) in *.
        assert (Hrep : Rep n n').
        { unfold Rep, n'. cbn. split; [symmetry; exact Hname|]. split; [reflexivity|]. split; [reflexivity|].
          split; [rewrite Hpar; reflexivity|].
          unfold is_region in Hreg. destruct (n_kind n); try reflexivity. discriminate. }
        assert (Hok1 : NodesOk (nodes ++ [n'])).
        { apply NodesOk_app; [apply (li_nodes _ _ _ _ _ HI)|]. split.
          - intros m [<-|[]]. exists n. auto.
          - intros m [<-|[]] y Hy. unfold children, n' in Hy. cbn in Hy.
            unfold is_region in Hreg. destruct (n_kind n); try destruct Hy. discriminate. }
        eapply (IH HRf) in H.
        2:{ apply (Hstep n' _ pn Hrep Hok1).
            - intros y Hy. apply in_or_app. left. exact Hy.
            - apply in_or_app. right. left. reflexivity.
            - apply (li_pn _ _ _ _ _ HI).
            - intros; discriminate.
            - auto. }
        destruct H as [out' [nodes' [pn' [E [J [K1 K2]]]]]].
        exists out', nodes', pn'. split; [exact E|]. split; [exact J|]. split.
        -- intros y Hy. apply K1. right. exact Hy.
        -- intros y [<-|Hy]; [apply K1; left; reflexivity|].
           assert (In y todo') by (unfold todo'; destruct (Z.eqb x ex); [exact Hy|apply in_or_app; left; exact Hy]).
           apply K2. assumption.
Qed.

(* when the queue is empty everything reachable from what was taken is taken *)
Lemma level_reach out nodes pn a x :
  LInv [] out out nodes pn -> In a out -> Reach (walk_succ h ex) a x -> In x out.
Proof.
  intros HI Ha Hr. induction Hr as [a|a y z Hr IH Hz]; [exact Ha|].
  destruct (li_closed _ _ _ _ _ HI y z (IH Ha) Hz) as [A|[]]. exact A.
Qed.
End Level.

Lemma ren_nontop r : In r h -> nontop r -> ren (n_name r) = n_name r.
Proof.
  intros Hin Hnt. unfold ren. destruct (Z.eqb (n_name r) (n_name topn)) eqn:E; [|reflexivity].
  apply Z.eqb_eq in E. exfalso. destruct (c_top _ _ HC) as [Ht [Hp _]].
  assert (find h (n_name r) = Some r) by (apply find_named; exact Hin).
  assert (find h (n_name topn) = Some topn) by (apply find_named; exact Ht).
  rewrite E in H. rewrite H in H0. injection H0 as ->. apply Hnt. exact Hp.
Qed.

Lemma level_of_region r : In r h -> forall x, In x (children r) ->
  exists n, In n h /\ n_name n = x /\ nontop n /\ n_parent n = n_name r.
Proof.
  intros Hin x Hx. destruct (c_children _ _ HC r x Hin Hx) as [n [A [B C]]].
  exists n. repeat split; auto. unfold nontop. rewrite C. apply (c_names _ _ HC). exact Hin.
Qed.

Theorem regions_ok : forall fuel, RegionsOk fuel.
Proof.
  induction fuel as [fuel IHf] using (well_founded_induction lt_wf).
  intros r rk hd ex ch pd ok res Hin Hnt Hk H.
  destruct (c_region _ _ HC r rk hd ex ch pd ok Hin Hnt Hk) as [Hpd [Hhd [Hcl Hreach]]].
  assert (Hch : children r = ch) by (unfold children; rewrite Hk; reflexivity).
  assert (HL : forall x, In x ch -> exists n, In n h /\ n_name n = x /\ nontop n /\ n_parent n = n_name r).
  { intros x Hx. apply level_of_region; [exact Hin|rewrite Hch; exact Hx]. }
  assert (HI : LInv (n_name r) ex ch [hd] [] [] [] []).
  { constructor.
    - constructor.
    - intros x; tauto.
    - intros x [].
    - intros x [<-|[]]. exact Hhd.
    - intros x t [].
    - split; [intros n' []|intros r' []].
    - intros x [].
    - intros p [].
    - intros x n []. }
  rewrite <- (ren_nontop r Hin Hnt) in H.
  destruct (level_loop (n_name r) ex ch HL Hcl fuel IHf _ _ _ _ _ _ HI H)
    as [out' [nodes' [pn' [-> [J [_ K2]]]]]].
  assert (Hhd' : In hd out') by (apply K2; left; reflexivity).
  unfold RegionPost. split; [apply NoDup_rev; apply (li_nodup _ _ _ _ _ _ _ _ J)|]. split; [|split].
  - intros x. rewrite <- in_rev. rewrite Hch. split; [apply (li_out _ _ _ _ _ _ _ _ J)|].
    intros Hx. eapply level_reach; eauto.
  - apply (li_nodes _ _ _ _ _ _ _ _ J).
  - intros x Hx. apply in_rev in Hx. apply (li_rep _ _ _ _ _ _ _ _ J). exact Hx.
Qed.

(* ---------- the outermost graph ---------- *)
Lemma top_level x : In x (children topn) -> exists n, In n h /\ n_name n = x /\ nontop n /\ n_parent n = n_name topn.
Proof. apply level_of_region. apply (c_top _ _ HC). Qed.

Lemma top_run fuel heads res :
  (forall x, In x heads -> In x (children topn)) ->
  mk_loop d fuel (ren (n_name topn)) 0 heads [] [] [] [] = Some res ->
  exists out' nodes' pn', res = (rev out', nodes', pn') /\
    LInv (n_name topn) 0 (children topn) [] out' out' nodes' pn' /\ (forall x, In x heads -> In x out').
Proof.
  intros Hheads H.
  assert (Hcl : forall x n t, In x (children topn) -> x <> 0 -> find h x = Some n -> In t (n_jt n) -> In t (children topn)).
  { intros x n t Hx _. apply (c_top_closed _ _ HC). exact Hx. }
  assert (HI : LInv (n_name topn) 0 (children topn) heads [] [] [] []).
  { constructor.
    - constructor.
    - intros x; tauto.
    - intros x [].
    - exact Hheads.
    - intros x t [].
    - split; [intros n' []|intros r' []].
    - intros x [].
    - intros p [].
    - intros x n []. }
  destruct (level_loop (n_name topn) 0 (children topn) top_level Hcl fuel (fun f' _ => regions_ok f') _ _ _ _ _ _ HI H)
    as [out' [nodes' [pn' [E [J [_ K2]]]]]].
  exists out', nodes', pn'. auto.
Qed.

(* every written block is rebuilt *)
Lemma all_rebuilt out nodes pn :
  LInv (n_name topn) 0 (children topn) [] out out nodes pn ->
  (forall x, In x (children topn) -> In x out) ->
  forall n, In n h -> nontop n -> exists n', In n' nodes /\ Rep n n'.
Proof.
  intros HI Hall. destruct (c_rank _ _ HC) as [rank Hrank].
  assert (Hk : forall k n, (rank (n_name n) < k)%nat -> In n h -> nontop n -> exists n', In n' nodes /\ Rep n n').
  { induction k as [|k IH]; intros n Hlt Hin Hnt; [lia|].
    destruct (c_listed _ _ HC n Hin Hnt) as [r [Hr [Hrn Hch]]].
    assert (Hhas : HasRep (n_name n) nodes).
    { destruct (Z.eq_dec (n_parent r) 0) as [Hz|Hnz].
      - destruct (c_top _ _ HC) as [_ [_ Huniq]]. rewrite (Huniq r Hr Hz) in Hch.
        apply (li_rep _ _ _ _ _ _ _ _ HI). apply Hall. exact Hch.
      - assert (Hlt' : (rank (n_name r) < k)%nat).
        { pose proof (Hrank n Hin Hnt). rewrite <- Hrn in H. lia. }
        destruct (IH r Hlt' Hr Hnz) as [r' [Hr' Hrep]].
        destruct (li_nodes _ _ _ _ _ _ _ _ HI) as [_ Hgood]. apply (Hgood r' Hr').
        destruct Hrep as [_ [_ [_ [_ Hkind]]]]. unfold children in Hch |- *.
        destruct (n_kind r) as [| | | |rk hd ex ch pd ok]; try destruct Hch.
        destruct (n_kind r') as [| | | |rk' hd' ex' ch' pd' ok']; try contradiction.
        destruct Hkind as [_ [_ [_ [_ [_ [_ Hset]]]]]]. apply Hset. exact Hch. }
    destruct Hhas as [n0 [n' [Hf [Hn' Hrep]]]]. rewrite (find_named n Hin) in Hf. injection Hf as <-.
    exists n'. auto. }
  intros n. apply (Hk (S (rank (n_name n)))). lia.
Qed.
End RoundTrip.

(* ---------- from_dict on a written dictionary ---------- *)
Lemma valid_type_entry n : codes_ok n = true -> valid_type (entry_of n) = true.
Proof.
  unfold codes_ok, valid_type, entry_of. destruct (n_kind n) as [p|c|a|c v t|]; cbn; intros Hc; try reflexivity.
  - apply andb_true_iff in Hc as [H1 H2]. apply Z.leb_le in H1. apply Z.leb_le in H2.
    apply orb_true_iff. right. apply andb_true_iff. split; apply Z.leb_le; lia.
  - apply andb_true_iff in Hc as [H1 H2]. apply Z.leb_le in H1. apply Z.leb_le in H2.
    apply orb_true_iff. right. apply andb_true_iff. split; apply Z.leb_le; lia.
Qed.

Lemma zsort_ext l l' : (forall x, In x l <-> In x l') -> zsort l = zsort l'.
Proof.
  intros H. apply sorted_unique; try apply zsort_sorted. intros x. rewrite !zsort_In. apply H.
Qed.

Lemma zsort_const l a : l <> [] -> (forall p, In p l -> p = a) -> zsort l = [a].
Proof.
  intros Hne Hall. apply (sorted_unique (zsort l) [a]); [apply zsort_sorted|repeat constructor|].
  intros x. rewrite zsort_In. split.
  - intros Hx. left. symmetry. apply Hall. exact Hx.
  - intros [<-|[]]. destruct l as [|b r]; [contradiction|]. left. apply Hall. left. reflexivity.
Qed.

Lemma contains_entry n : codes_ok n = true ->
  contains_of (entry_of n) = match n_kind n with KRegion _ _ _ ch _ _ => zsort ch | _ => [] end.
Proof.
  unfold contains_of, entry_of, codes_ok. destruct (n_kind n) as [p|c|a|c v t|rk hd ex ch pd ok]; cbn; intros Hc; try reflexivity.
  - destruct (Z.eqb c 50); reflexivity.
  - apply andb_true_iff in Hc as [H1 H2]. apply Z.leb_le in H1. apply Z.leb_le in H2.
    destruct (Z.eqb c 50) eqn:E; [apply Z.eqb_eq in E; lia|reflexivity].
Qed.

Lemma outer_is_top h topn : Closed h topn -> forall x, In x (outer (to_dict h)) <-> In x (children topn).
Proof.
  intros HC x. unfold outer. rewrite filter_In, negb_true_iff.
  assert (Hcodes : forall n, In n h -> codes_ok n = true).
  { pose proof (c_codes _ _ HC) as Hc. rewrite forallb_forall in Hc. exact Hc. }
  assert (Hkeys : In x (map d_name (to_dict h)) <-> exists n, In n h /\ nontop n /\ n_name n = x).
  { rewrite in_map_iff. split.
    - intros [e [He Hin]]. apply in_to_dict in Hin as [n [A [B <-]]]. exists n. rewrite entry_name in He. auto.
    - intros [n [A [B C]]]. exists (entry_of n). split; [rewrite entry_name; exact C|]. apply in_to_dict. eauto. }
  assert (Hcont : existsb (fun e => zmem x (contains_of e)) (to_dict h) = true <->
                  exists r, In r h /\ nontop r /\ In x (children r)).
  { rewrite existsb_exists. split.
    - intros [e [Hin Hz]]. apply in_to_dict in Hin as [r [A [B <-]]]. exists r. split; [exact A|]. split; [exact B|].
      apply zmem_In in Hz. rewrite contains_entry in Hz by (apply Hcodes; exact A). unfold children.
      destruct (n_kind r); try destruct Hz. apply (proj1 (zsort_In _ _)) in Hz. exact Hz.
    - intros [r [A [B C]]]. exists (entry_of r). split; [apply in_to_dict; eauto|].
      apply zmem_In. rewrite contains_entry by (apply Hcodes; exact A). unfold children in C.
      destruct (n_kind r); try destruct C. apply zsort_In. exact C. }
  destruct (c_top _ _ HC) as [Htop [Hp0 Huniq]].
  split.
  - intros [Hk Hn]. apply Hkeys in Hk as [n [A [B C]]].
    destruct (c_listed _ _ HC n A B) as [r [Hr [Hrn Hch]]]. rewrite C in Hch.
    destruct (Z.eq_dec (n_parent r) 0) as [Hz|Hnz]; [rewrite <- (Huniq r Hr Hz); exact Hch|].
    exfalso. assert (existsb (fun e => zmem x (contains_of e)) (to_dict h) = true) by (apply Hcont; eauto). congruence.
  - intros Hx. destruct (c_children _ _ HC topn x Htop Hx) as [n [A [B C]]].
    assert (Hnt : nontop n) by (unfold nontop; rewrite C; apply (c_names _ _ HC); exact Htop).
    split; [apply Hkeys; eauto|].
    destruct (existsb _ _) eqn:E; [|reflexivity]. exfalso.
    destruct (proj1 Hcont eq_refl) as [r [Hr [Hrnt Hxr]]].
    destruct (c_children _ _ HC r x Hr Hxr) as [n2 [A2 [B2 C2]]].
    assert (n2 = n).
    { pose proof (find_of_In h n (c_nodup _ _ HC) A). pose proof (find_of_In h n2 (c_nodup _ _ HC) A2).
      rewrite B in H. rewrite B2 in H0. congruence. }
    subst n2. rewrite C in C2.
    pose proof (find_of_In h r (c_nodup _ _ HC) Hr). pose proof (find_of_In h topn (c_nodup _ _ HC) Htop).
    rewrite <- C2 in H. rewrite H0 in H. injection H as <-. apply Hrnt. exact Hp0.
Qed.

Theorem from_dict_round_trip h topn fuel fresh top ch nodes :
  Closed h topn ->
  from_dict (to_dict h) fuel fresh = Some (top, ch, nodes) ->
  (top = n_name topn \/
   top = fresh /\ forall x n, In x (children topn) -> find h x = Some n -> is_region n = false) /\
  NoDup ch /\ (forall x, In x ch <-> In x (children topn)) /\
  (forall n, In n h -> nontop n -> exists n', In n' nodes /\ Rep topn top n n') /\
  (forall n', In n' nodes -> exists n, In n h /\ nontop n /\ Rep topn top n n').
Proof.
  intros HC H. unfold from_dict in H.
  destruct (forallb valid_type (to_dict h)); [|discriminate]. cbn [negb] in H.
  rewrite (zsort_ext _ _ (outer_is_top h topn HC)) in H.
  destruct (zsort (children topn)) as [|h0 hs] eqn:Hheads; [discriminate|]. rewrite <- Hheads in H.
  assert (Hin_heads : forall x, In x (zsort (children topn)) -> In x (children topn)) by (intros x; apply zsort_In).
  destruct (mk_loop (to_dict h) fuel 0 0 (zsort (children topn)) [] [] [] []) as [[[o1 n1] pn1]|] eqn:H1; [|discriminate].
  assert (Hren0 : ren topn 0 (n_name topn) = 0) by (unfold ren; rewrite Z.eqb_refl; reflexivity).
  rewrite <- Hren0 in H1 at 1.
  destruct (top_run h topn HC 0 fuel _ _ Hin_heads H1) as [out1 [nodes1 [pn1' [E1 [J1 K1]]]]].
  injection E1 as -> -> ->.
  set (tp := match zsort (filter (fun p => negb (Z.eqb p 0)) pn1') with [p] => p | _ => fresh end) in *.
  destruct (mk_loop (to_dict h) fuel tp 0 (zsort (children topn)) [] [] [] []) as [[[o2 n2] pn2]|] eqn:H2; [|discriminate].
  injection H as <- <- <-.
  assert (Hren : ren topn tp (n_name topn) = tp) by (unfold ren; rewrite Z.eqb_refl; reflexivity).
  rewrite <- Hren in H2.
  destruct (top_run h topn HC tp fuel _ _ Hin_heads H2) as [out2 [nodes2 [pn2' [E2 [J2 K2]]]]].
  injection E2 as -> -> ->.
  assert (Hall2 : forall x, In x (children topn) -> In x out2) by (intros x Hx; apply K2; apply zsort_In; exact Hx).
  assert (Hall1 : forall x, In x (children topn) -> In x out1) by (intros x Hx; apply K1; apply zsort_In; exact Hx).
  pose proof J2 as J2'. destruct J1 as [A1 A2 A3 A4 A5 A6 A7 A8 A9]. destruct J2 as [B1 B2 B3 B4 B5 B6 B7 B8 B9].
  split; [|split; [|split; [|split]]].
  - (* the name of the outermost region *)
    destruct (c_top _ _ HC) as [Htop _].
    assert (Hnz : n_name topn <> 0) by (apply (c_names _ _ HC); exact Htop).
    assert (Hfil : filter (fun p => negb (Z.eqb p 0)) pn1' = pn1').
    { clear -A8 Hnz. induction pn1' as [|p r IH]; [reflexivity|].
      cbn. rewrite (A8 p (or_introl eq_refl)). apply Z.eqb_neq in Hnz. rewrite Hnz. cbn. f_equal.
      apply IH. intros q Hq. apply A8. right. exact Hq. }
    destruct pn1' as [|p0 r0] eqn:Epn.
    + right. split; [unfold tp; reflexivity|]. intros x n Hx Hf.
      destruct (is_region n) eqn:Hreg; [|reflexivity]. exfalso.
      apply (A9 x n (Hall1 x Hx) Hf Hreg). reflexivity.
    + left. unfold tp. rewrite Hfil.
      rewrite (zsort_const (p0 :: r0) (n_name topn)); [reflexivity|discriminate|exact A8].
  - apply NoDup_rev. exact B1.
  - intros x. rewrite <- in_rev. split; [apply B3|apply Hall2].
  - apply (all_rebuilt h topn HC tp out2 nodes2 pn2' J2' Hall2).
  - apply B6.
Qed.

(* ---------- writing the re-read graph gives the same dictionary ---------- *)
Lemma rep_entry topn top n n' :
  Rep topn top n n' -> (is_region n = true -> ren topn top (n_parent n) = n_parent n) ->
  (forall rk hd ex ch pd ok, n_kind n = KRegion rk hd ex ch pd ok -> pd = n_parent n) ->
  entry_of n' = entry_of n.
Proof.
  intros [Hn [Hj [Hb [Hp Hk]]]] Hren Hpd. unfold entry_of. rewrite Hn, Hj, Hb.
  destruct (n_kind n) as [p|c|a|c v t|rk hd ex ch pd ok] eqn:Ek.
  - rewrite Hk. reflexivity.
  - rewrite Hk. reflexivity.
  - rewrite Hk. reflexivity.
  - rewrite Hk. reflexivity.
  - destruct (n_kind n') as [| | | |rk' hd' ex' ch' pd' ok']; try contradiction.
    destruct Hk as [-> [-> [-> [-> [_ [_ Hset]]]]]].
    rewrite (Hpd _ _ _ _ _ _ eq_refl). rewrite Hren by (unfold is_region; rewrite Ek; reflexivity).
    rewrite (zsort_ext ch' ch Hset). reflexivity.
Qed.

Theorem from_dict_same_dictionary h topn fuel fresh top ch nodes :
  Closed h topn ->
  from_dict (to_dict h) fuel fresh = Some (top, ch, nodes) ->
  forall e, In e (map entry_of nodes) <-> In e (to_dict h).
Proof.
  intros HC H. destruct (from_dict_round_trip h topn fuel fresh top ch nodes HC H) as [Htop [_ [_ [Hall Honly]]]].
  assert (Hent : forall n n', In n h -> nontop n -> Rep topn top n n' -> entry_of n' = entry_of n).
  { intros n n' Hin Hnt Hrep. apply (rep_entry topn top n n' Hrep).
    - intros Hreg. unfold ren. destruct (Z.eqb (n_parent n) (n_name topn)) eqn:E; [|reflexivity].
      apply Z.eqb_eq in E. destruct Htop as [->|[_ Hnoreg]]; [symmetry; exact E|].
      exfalso. destruct (c_listed _ _ HC n Hin Hnt) as [r [Hr [Hrn Hch]]].
      assert (r = topn).
      { pose proof (find_of_In h r (c_nodup _ _ HC) Hr). destruct (c_top _ _ HC) as [Ht _].
        pose proof (find_of_In h topn (c_nodup _ _ HC) Ht). rewrite Hrn, E in H0. congruence. }
      subst r. rewrite (Hnoreg (n_name n) n Hch (find_of_In h n (c_nodup _ _ HC) Hin)) in Hreg. discriminate.
    - intros rk hd ex ch0 pd ok Hk. apply (c_region _ _ HC n rk hd ex ch0 pd ok Hin Hnt Hk). }
  intros e. rewrite in_map_iff, in_to_dict. split.
  - intros [n' [<- Hin']]. destruct (Honly n' Hin') as [n [A [B C]]]. exists n. split; [exact A|]. split; [exact B|].
    symmetry. apply Hent; assumption.
  - intros [n [A [B <-]]]. destruct (Hall n A B) as [n' [Hin' Hrep]]. exists n'. split; [|exact Hin'].
    apply Hent; assumption.
Qed.

(* ---------- the reader terminates and does not raise on a written dictionary ---------- *)
Section Termination.
Variables (h : hier) (topn : node).
Hypothesis HC : Closed h topn.
Let d := to_dict h.

(* region x is rebuilt whenever at least N steps are allowed *)
Definition Term (x : name) (N : nat) : Prop :=
  forall n rk hd ex ch pd ok, find h x = Some n -> n_kind n = KRegion rk hd ex ch pd ok ->
    forall fuel, (N <= fuel)%nat -> mk_loop d fuel x ex [hd] [] [] [] [] <> None.

Definition weight_on (l : list name) (seen : list name) : nat :=
  fold_right (fun c acc => if zmem c seen then acc else (S (length (edges_of h c)) + acc)%nat) O l.

Lemma weight_on_visit l x seen : In x l -> ~ In x seen ->
  (weight_on l (x :: seen) + S (length (edges_of h x)) <= weight_on l seen)%nat.
Proof.
  unfold weight_on.
  assert (Hmono : forall l, (fold_right (fun c acc => if zmem c (x :: seen) then acc else (S (length (edges_of h c)) + acc)%nat) O l
                        <= fold_right (fun c acc => if zmem c seen then acc else (S (length (edges_of h c)) + acc)%nat) O l)%nat).
  { induction l0 as [|c' r' IHl]; cbn [fold_right]; [lia|].
    destruct (zmem c' (x :: seen)) eqn:E1; destruct (zmem c' seen) eqn:E2; try lia.
    exfalso. apply zmem_In in E2. apply zmem_false in E1. apply E1. right. exact E2. }
  induction l as [|c r IH]; intros Hin Hs; [destruct Hin|]. cbn [fold_right].
  destruct (Z.eq_dec c x) as [->|Hne].
  - assert (zmem x (x :: seen) = true) as -> by (apply zmem_In; left; reflexivity).
    assert (zmem x seen = false) as -> by (apply zmem_false; exact Hs).
    specialize (Hmono r). lia.
  - destruct Hin as [Hin|Hin]; [contradiction|]. specialize (IH Hin Hs).
    destruct (zmem c (x :: seen)) eqn:E1; destruct (zmem c seen) eqn:E2; try lia.
    exfalso. apply zmem_In in E2. apply zmem_false in E1. apply E1. right. exact E2.
Qed.

Section LevelT.
Variables (p0 ex : name) (L : list name) (Nsub : nat).
Hypothesis HL : forall x, In x L -> exists n, In n h /\ n_name n = x /\ nontop n /\ n_parent n = p0.
Hypothesis Hclosed : forall x n t, In x L -> x <> ex -> find h x = Some n -> In t (n_jt n) -> In t L.
Hypothesis HN : forall x, In x L -> Term x Nsub.

Definition weight (seen : list name) : nat := weight_on L seen.

Lemma weight_visit x seen : In x L -> ~ In x seen ->
  (weight (x :: seen) + S (length (edges_of h x)) <= weight seen)%nat.
Proof. apply weight_on_visit. Qed.

Lemma level_term P : forall m todo seen out nodes pn fuel,
  (forall x, In x todo -> In x L) ->
  (length todo + weight seen <= m)%nat -> (Nsub + m + 1 <= fuel)%nat ->
  mk_loop d fuel P ex todo seen out nodes pn <> None.
Proof.
  induction m as [|m IH]; intros todo seen out nodes pn fuel Htodo Hm Hf.
  - destruct fuel as [|f]; [lia|]. destruct todo as [|x rest]; [cbn; discriminate|cbn in Hm; lia].
  - destruct fuel as [|f]; [lia|]. cbn [mk_loop]. destruct todo as [|x rest]; [discriminate|].
    cbn [length] in Hm.
    destruct (zmem x seen) eqn:Hseen.
    + apply IH; [intros y Hy; apply Htodo; right; exact Hy|lia|lia].
    + apply zmem_false in Hseen.
      assert (HxL : In x L) by (apply Htodo; left; reflexivity).
      destruct (HL x HxL) as [n [Hin [Hname [Hnt Hpar]]]].
      assert (Hfind : find h x = Some n) by (rewrite <- Hname; apply find_of_In; [apply (c_nodup _ _ HC)|exact Hin]).
      assert (Hd : dfind d x = Some (entry_of n)).
      { rewrite <- Hname. apply dfind_to_dict; [apply (c_nodup _ _ HC)|exact Hin|exact Hnt]. }
      rewrite Hd. pose proof (keys_ok h topn HC n Hin Hnt) as Hkeys. fold d in Hkeys. rewrite Hkeys. cbn [negb].
      destruct (entry_edges n) as [Hedges Hback]. rewrite Hedges, Hback.
      pose proof (weight_visit x seen HxL Hseen) as Hw.
      assert (He : edges_of h x = n_jt n) by (unfold edges_of; rewrite Hfind; reflexivity). rewrite He in Hw.
      set (todo' := if Z.eqb x ex then rest else rest ++ n_jt n).
      assert (Htodo' : forall y, In y todo' -> In y L).
      { intros y Hy. unfold todo' in Hy. destruct (Z.eqb x ex) eqn:E.
        - apply Htodo. right. exact Hy.
        - apply in_app_or in Hy as [Hy|Hy]; [apply Htodo; right; exact Hy|].
          apply Z.eqb_neq in E. eapply Hclosed; eauto. }
      assert (Hm' : (length todo' + weight (x :: seen) <= m)%nat).
      { unfold todo'. destruct (Z.eqb x ex); [lia|]. rewrite app_length. lia. }
      destruct (is_region n) eqn:Hreg.
      * unfold is_region in Hreg. destruct (n_kind n) as [| | | |rk hd ex' ch pd ok] eqn:Hk; try discriminate.
        destruct (region_entry n rk hd ex' ch pd ok Hk) as [Hty [Hex _]]. rewrite Hty.
        change (50 =? 50) with true. cbv iota. rewrite Hex.
        pose proof (HN x HxL n rk hd ex' ch pd ok Hfind Hk f ltac:(lia)) as Hsub.
        match goal with |- match ?t with _ => _ end <> None => destruct t as [[[ch' sub] pnsub]|] eqn:Et end; [|exact (fun _ => Hsub Et)].
        apply IH; [exact Htodo'|exact Hm'|lia].
      * destruct (leaf_of_entry P n (codes_of h topn HC n Hin) Hreg) as [Hleaf Hty].
        apply Z.eqb_neq in Hty. rewrite Hty, Hleaf.
        apply IH; [exact Htodo'|exact Hm'|lia].
Qed.
End LevelT.

Lemma term_mono x N N' : Term x N -> (N <= N')%nat -> Term x N'.
Proof. intros H Hle n rk hd ex ch pd ok Hf Hk fuel Hfuel. apply (H n rk hd ex ch pd ok Hf Hk). lia. Qed.

Lemma uniform_bound l : (forall x, In x l -> exists N, Term x N) -> exists N, forall x, In x l -> Term x N.
Proof.
  induction l as [|a r IH]; intros H; [exists O; intros x []|].
  destruct (H a (or_introl eq_refl)) as [Na Ha].
  destruct (IH (fun x Hx => H x (or_intror Hx))) as [Nr Hr].
  exists (Nat.max Na Nr). intros x [<-|Hx]; [eapply term_mono; [exact Ha|lia]|eapply term_mono; [apply Hr; exact Hx|lia]].
Qed.

Lemma rank_bound_l (rank : name -> nat) (l : list node) : exists R, forall n, In n l -> (rank (n_name n) < R)%nat.
Proof.
  induction l as [|m r IH]; [exists O; intros n []|].
  destruct IH as [R0 HR]. exists (Nat.max R0 (S (rank (n_name m)))). intros n [<-|Hn]; [lia|]. specialize (HR n Hn). lia.
Qed.

Lemma region_term : forall r, In r h -> nontop r -> exists N, Term (n_name r) N.
Proof.
  destruct (c_rank _ _ HC) as [rank Hrank]. destruct (rank_bound_l rank h) as [R HR].
  assert (Hk : forall k r, In r h -> nontop r -> (R - rank (n_name r) <= k)%nat -> exists N, Term (n_name r) N).
  { induction k as [|k IH]; intros r Hin Hnt Hle; [specialize (HR r Hin); lia|].
    destruct (n_kind r) as [| | | |rk hd ex ch pd ok] eqn:Hk;
      try (exists O; intros n rk' hd' ex' ch' pd' ok' Hf Hk';
           rewrite (find_of_In h r (c_nodup _ _ HC) Hin) in Hf; injection Hf as <-; congruence).
    destruct (c_region _ _ HC r rk hd ex ch pd ok Hin Hnt Hk) as [Hpd [Hhd [Hcl Hreach]]].
    assert (Hch : children r = ch) by (unfold children; rewrite Hk; reflexivity).
    assert (HL : forall x, In x ch -> exists n, In n h /\ n_name n = x /\ nontop n /\ n_parent n = n_name r).
    { intros x Hx. apply (level_of_region h topn HC r Hin). rewrite Hch. exact Hx. }
    destruct (uniform_bound ch) as [Nsub HN].
    { intros x Hx. destruct (HL x Hx) as [n [A [B [C D]]]]. rewrite <- B. apply IH; [exact A|exact C|].
      pose proof (Hrank n A C). rewrite D in H. pose proof (HR n A). lia. }
    exists (Nsub + (1 + weight_on ch []) + 1)%nat.
    intros n rk' hd' ex' ch' pd' ok' Hf Hk' fuel Hfuel.
    rewrite (find_of_In h r (c_nodup _ _ HC) Hin) in Hf. injection Hf as <-. rewrite Hk in Hk'.
    injection Hk' as <- <- <- <- <- <-.
    apply (level_term (n_name r) ex ch Nsub HL Hcl HN (n_name r) (1 + weight_on ch [])).
    - intros x [<-|[]]. exact Hhd.
    - cbn [length]. unfold weight. lia.
    - lia. }
  intros r Hin Hnt. apply (Hk R r Hin Hnt). lia.
Qed.

Theorem from_dict_total : children topn <> [] ->
  exists N, forall fuel fresh, (N <= fuel)%nat -> from_dict d fuel fresh <> None.
Proof.
  intros Hne.
  assert (HL : forall x, In x (children topn) -> exists n, In n h /\ n_name n = x /\ nontop n /\ n_parent n = n_name topn).
  { apply (level_of_region h topn HC topn). apply (c_top _ _ HC). }
  assert (Hcl : forall x n t, In x (children topn) -> x <> 0 -> find h x = Some n -> In t (n_jt n) -> In t (children topn)).
  { intros x n t Hx _. apply (c_top_closed _ _ HC). exact Hx. }
  destruct (uniform_bound (children topn)) as [Nsub HN].
  { intros x Hx. destruct (HL x Hx) as [n [A [B [C D]]]]. rewrite <- B. apply region_term; assumption. }
  set (m := (length (zsort (children topn)) + weight_on (children topn) [])%nat).
  exists (Nsub + m + 1)%nat. intros fuel fresh Hfuel. unfold from_dict.
  assert (Hvalid : forallb valid_type d = true).
  { apply forallb_forall. intros e He. apply in_to_dict in He as [n [A [B <-]]]. apply valid_type_entry.
    apply (codes_of h topn HC n A). }
  rewrite Hvalid. cbn [negb]. unfold d. rewrite (zsort_ext _ _ (outer_is_top h topn HC)).
  destruct (zsort (children topn)) as [|h0 hs] eqn:Hheads.
  { exfalso. destruct (children topn) as [|c cs] eqn:Ec; [contradiction|].
    assert (In c (zsort (c :: cs))) by (apply zsort_In; left; reflexivity). rewrite Hheads in H. destruct H. }
  rewrite <- Hheads.
  assert (Hrun : forall P, mk_loop d fuel P 0 (zsort (children topn)) [] [] [] [] <> None).
  { intros P. apply (level_term (n_name topn) 0 (children topn) Nsub HL Hcl HN P m).
    - intros x Hx. apply (proj1 (zsort_In _ _)) in Hx. exact Hx.
    - unfold m, weight. rewrite Hheads. apply le_n.
    - exact Hfuel. }
  fold d. destruct (mk_loop d fuel 0 0 (zsort (children topn)) [] [] [] []) as [[[o1 n1] pn1]|] eqn:E1;
    [|exact (fun _ => Hrun 0 E1)].
  match goal with |- match ?t with _ => _ end <> None => destruct t as [[[o2 n2] pn2]|] eqn:E2 end;
    [discriminate|exact (fun _ => Hrun _ E2)].
Qed.
End Termination.

(* ---------- the hypothesis, decided ---------- *)
Definition nontopb (n : node) : bool := negb (Z.eqb (n_parent n) 0).

Definition topof (h : hier) : option node :=
  match filter (fun n => Z.eqb (n_parent n) 0) h with [t] => Some t | _ => None end.

Fixpoint depthf (h : hier) (fuel : nat) (x : name) : nat :=
  match fuel with
  | O => O
  | S f => match find h x with
           | Some n => if Z.eqb (n_parent n) 0 then O else S (depthf h f (n_parent n))
           | None => O
           end
  end.

Definition region_okb (h : hier) (r : node) : bool :=
  match n_kind r with
  | KRegion rk hd ex ch pd ok =>
    Z.eqb pd (n_parent r) && zmem hd ch &&
    forallb (fun x => Z.eqb x ex ||
                      match find h x with Some n => forallb (fun t => zmem t ch) (n_jt n) | None => true end) ch &&
    match closure (walk_succ h ex) (S (length h)) [hd] with
    | Some cl => forallb (fun x => zmem x cl) ch
    | None => false
    end
  | _ => true
  end.

Definition closedb (h : hier) : bool :=
  match topof h with
  | None => false
  | Some topn =>
    nodupb (names h) && forallb codes_ok h &&
    forallb (fun n => negb (Z.eqb (n_name n) 0)) h &&
    forallb (fun n => negb (nontopb n) ||
               forallb (fun t => existsb (fun m => nontopb m && Z.eqb (n_name m) t) h) (n_jt n ++ n_be n)) h &&
    forallb (fun n => negb (nontopb n) ||
               match find h (n_parent n) with Some r => zmem (n_name n) (children r) | None => false end) h &&
    forallb (fun r => forallb (fun x => match find h x with
                                        | Some n => Z.eqb (n_parent n) (n_name r) | None => false end) (children r)) h &&
    forallb (fun x => match find h x with
                      | Some n => forallb (fun t => zmem t (children topn)) (n_jt n) | None => true end) (children topn) &&
    forallb (fun r => negb (nontopb r) || region_okb h r) h &&
    forallb (fun n => negb (nontopb n) ||
               Nat.ltb (depthf h (length h) (n_parent n)) (depthf h (length h) (n_name n))) h
  end.

Lemma nontopb_spec n : nontopb n = true <-> nontop n.
Proof. unfold nontopb, nontop. rewrite negb_true_iff, Z.eqb_neq. tauto. Qed.

Lemma guarded P n : negb (nontopb n) || P = true -> nontop n -> P = true.
Proof.
  intros H Hnt. apply nontopb_spec in Hnt. rewrite Hnt in H. exact H.
Qed.

Theorem closedb_sound h : closedb h = true -> exists topn, topof h = Some topn /\ Closed h topn.
Proof.
  unfold closedb. destruct (topof h) as [topn|] eqn:Htop; [|discriminate]. intros H.
  apply andb_true_iff in H as [H H9]. apply andb_true_iff in H as [H H8]. apply andb_true_iff in H as [H H7].
  apply andb_true_iff in H as [H H6]. apply andb_true_iff in H as [H H5x]. apply andb_true_iff in H as [H H4x].
  apply andb_true_iff in H as [H H3x]. apply andb_true_iff in H as [H1 H2x].
  exists topn. split; [reflexivity|].
  unfold topof in Htop. destruct (filter (fun n => Z.eqb (n_parent n) 0) h) as [|t [|? ?]] eqn:Hf; try discriminate.
  injection Htop as ->.
  assert (Htin : In topn h /\ n_parent topn = 0).
  { assert (In topn (filter (fun n => Z.eqb (n_parent n) 0) h)) by (rewrite Hf; left; reflexivity).
    apply filter_In in H as [A B]. apply Z.eqb_eq in B. auto. }
  constructor.
  - apply nodupb_NoDup. exact H1.
  - exact H2x.
  - destruct Htin as [A B]. split; [exact A|]. split; [exact B|]. intros n Hn Hp.
    assert (In n (filter (fun n => Z.eqb (n_parent n) 0) h)) by (apply filter_In; split; [exact Hn|apply Z.eqb_eq; exact Hp]).
    rewrite Hf in H. destruct H as [<-|[]]. reflexivity.
  - intros n Hn. rewrite forallb_forall in H3x. specialize (H3x n Hn). apply negb_true_iff, Z.eqb_neq in H3x. exact H3x.
  - intros n t Hn Hnt Ht. rewrite forallb_forall in H4x. pose proof (guarded _ n (H4x n Hn) Hnt) as G.
    rewrite forallb_forall in G. specialize (G t Ht). apply existsb_exists in G as [m [Hm G]].
    apply andb_true_iff in G as [G1 G2]. exists m. split; [exact Hm|]. split; [apply nontopb_spec; exact G1|apply Z.eqb_eq; exact G2].
  - intros n Hn Hnt. rewrite forallb_forall in H5x. pose proof (guarded _ n (H5x n Hn) Hnt) as G.
    destruct (find h (n_parent n)) as [r|] eqn:Hr; [|discriminate]. destruct (find_In _ _ _ Hr) as [A B].
    exists r. split; [exact A|]. split; [exact B|]. apply zmem_In. exact G.
  - intros r x Hr Hx. rewrite forallb_forall in H6. specialize (H6 r Hr). rewrite forallb_forall in H6. specialize (H6 x Hx).
    destruct (find h x) as [n|] eqn:Hn; [|discriminate]. destruct (find_In _ _ _ Hn) as [A B].
    exists n. split; [exact A|]. split; [exact B|]. apply Z.eqb_eq. exact H6.
  - intros x n t Hx Hfn Ht. rewrite forallb_forall in H7. specialize (H7 x Hx). rewrite Hfn in H7.
    rewrite forallb_forall in H7. apply zmem_In. apply H7. exact Ht.
  - intros r rk hd ex ch pd ok Hr Hnt Hk. rewrite forallb_forall in H8. pose proof (guarded _ r (H8 r Hr) Hnt) as G.
    unfold region_okb in G. rewrite Hk in G.
    destruct (closure (walk_succ h ex) (S (length h)) [hd]) as [Sx|] eqn:Hcl; [|rewrite andb_false_r in G; discriminate].
    apply andb_true_iff in G as [G G4]. apply andb_true_iff in G as [G G3]. apply andb_true_iff in G as [G1 G2].
    split; [apply Z.eqb_eq; exact G1|]. split; [apply zmem_In; exact G2|]. split.
    + intros x n t Hx Hne Hfn Ht. rewrite forallb_forall in G3. specialize (G3 x Hx).
      apply orb_true_iff in G3 as [G3|G3]; [apply Z.eqb_eq in G3; contradiction|].
      rewrite Hfn in G3. rewrite forallb_forall in G3. apply zmem_In. apply G3. exact Ht.
    + intros x Hx. rewrite forallb_forall in G4. specialize (G4 x Hx). apply zmem_In in G4.
      apply (closure_spec _ _ _ _ Hcl) in G4 as [a [[<-|[]] Hreach]]. exact Hreach.
  - exists (depthf h (length h)). intros n Hn Hnt. rewrite forallb_forall in H9.
    pose proof (guarded _ n (H9 n Hn) Hnt) as G. apply Nat.ltb_lt in G. exact G.
Qed.

(* ---------- the statement in one piece ---------- *)
Theorem round_trip h topn :
  Closed h topn -> children topn <> [] ->
  exists N, forall fuel fresh, (N <= fuel)%nat ->
    exists top ch nodes,
      from_dict (to_dict h) fuel fresh = Some (top, ch, nodes) /\
      (top = n_name topn \/
       top = fresh /\ forall x n, In x (children topn) -> find h x = Some n -> is_region n = false) /\
      NoDup ch /\ (forall x, In x ch <-> In x (children topn)) /\
      (forall n, In n h -> nontop n -> exists n', In n' nodes /\ Rep topn top n n') /\
      (forall n', In n' nodes -> exists n, In n h /\ nontop n /\ Rep topn top n n') /\
      (forall e, In e (map entry_of nodes) <-> In e (to_dict h)).
Proof.
  intros HC Hne. destruct (from_dict_total h topn HC Hne) as [N HN]. exists N. intros fuel fresh Hfuel.
  destruct (from_dict (to_dict h) fuel fresh) as [[[top ch] nodes]|] eqn:E; [|exfalso; exact (HN fuel fresh Hfuel E)].
  exists top, ch, nodes. split; [reflexivity|].
  destruct (from_dict_round_trip h topn fuel fresh top ch nodes HC E) as [A [B [C [D F]]]].
  repeat (split; [assumption|]). apply (from_dict_same_dictionary h topn fuel fresh top ch nodes HC E).
Qed.

(* SrcEPrune.v — (the same for the model with expressions, SrcE.v)
   SrcPrune.v — the three pruning passes of the front end on graphs whose
   instructions keep their kind (Src.blk), mirroring Prune.v line by line, and the
   theorem that pruning keeps the meaning: whenever the block-by-block
   interpretation of the unpruned graph returns or raises, the interpretation of
   the pruned graph — started at the entry pruning leaves — does the same in the
   same state. *)
From Coq Require Import List ZArith Bool Lia.
Import ListNotations.
From V Require Import Valid.Hier Model.Graph Model.SrcE Model.SrcEProof.
Local Open Scope Z_scope.

(* ---------- the passes ---------- *)
Definition bsucc (G : list blk) (x : Z) : list Z :=
  match findb G x with Some b => b_jt b | None => [] end.

Definition sreach (G : list blk) (entry : Z) : option (list Z) :=
  closure (bsucc G) (S (length G + length (flat_map b_jt G))) [entry].

Definition sprune_unreachable (G : list blk) (entry : Z) : option (list blk) :=
  match sreach G entry with
  | Some R => Some (filter (fun b => zmem (b_idx b) R) G)
  | None => None
  end.

Definition is_noop (i : instr) : bool :=
  match i with IPass _ | IBrk _ | ICnt _ => true | _ => false end.
Definition is_test (i : instr) : bool :=
  match i with ITest _ | IForTest _ => true | _ => false end.

Definition sprune_noops (G : list blk) : list blk :=
  map (fun b => mkB (b_idx b) (filter (fun i => negb (is_noop i)) (b_ins b)) (b_jt b)) G.

Definition redir (name it t : Z) : Z := if Z.eqb t name then it else t.

Definition srewire (name it : Z) (b : blk) : blk :=
  match b_jt b with
  | [t] => mkB (b_idx b) (b_ins b) [redir name it t]
  | [t1; t2] => mkB (b_idx b) (b_ins b) [redir name it t1; redir name it t2]
  | _ => b
  end.

Definition remove_blk (name it : Z) (G : list blk) : list blk :=
  map (srewire name it) (filter (fun b => negb (Z.eqb (b_idx b) name)) G).

(* the entry is threaded through: when block 0 goes, its target is where execution starts *)
Fixpoint sprune_empty_loop (order : list Z) (G : list blk) (entry : Z) : option (list blk * Z) :=
  match order with
  | [] => Some (G, entry)
  | name :: rest =>
    match findb G name with
    | None => sprune_empty_loop rest G entry
    | Some b =>
      match b_ins b with
      | _ :: _ => sprune_empty_loop rest G entry
      | [] =>
        match b_jt b with
        | [] => None
        | it :: _ =>
          if Z.eqb name 0 &&
             existsb (fun p => negb (Z.eqb (b_idx p) name) && zmem it (b_jt p)) G
          then sprune_empty_loop rest G entry
          else sprune_empty_loop rest (remove_blk name it G) (redir name it entry)
        end
      end
    end
  end.

Definition scollapse (b : blk) : blk :=
  match b_jt b with
  | [t1; t2] => if Z.eqb t1 t2 then mkB (b_idx b) (b_ins b) [t1] else b
  | _ => b
  end.

Definition sprune_empty (G : list blk) (entry : Z) : option (list blk * Z) :=
  match sprune_empty_loop (map b_idx G) G entry with
  | Some (G', e') => Some (map scollapse G', e')
  | None => None
  end.

Definition sprune (G : list blk) (entry : Z) : option (list blk * Z) :=
  match sprune_unreachable G entry with
  | Some G1 => sprune_empty (sprune_noops G1) entry
  | None => None
  end.

(* a test is the last instruction of its block *)
Fixpoint tests_last (l : list instr) : Prop :=
  match l with
  | [] => True
  | i :: r => (if is_test i then r = [] else True) /\ tests_last r
  end.

Definition TestsLast (G : list blk) : Prop := forall b, In b G -> tests_last (b_ins b).

(* ---------- meaning is kept ---------- *)
Section Keep.
Variable state : Type.
Variable aval : Z -> state -> option (Z * state).
Variable opf : Z -> list Z -> state -> option (Z * state).
Variable act : Z -> option Z -> state -> option state.
Variable foract : Z -> Z -> Z -> option Z -> state -> option state.
Variable fortest : Z -> state -> option (bool * state).

Notation run := (run state aval opf act foract fortest).
Notation run_ins := (run_ins state aval opf act foract fortest).

Definition Term (o : outcome state) : Prop := (exists a s', o = ORet a s') \/ o = ORaise.

Lemma not_term_stuck : ~ Term OStuck.
Proof. intros [[a [s' H]]|H]; discriminate. Qed.
Lemma not_term_fuel : ~ Term OFuel.
Proof. intros [[a [s' H]]|H]; discriminate. Qed.

(* -- unreachable blocks -- *)
Lemma findb_filter_in (R : list Z) G pc : zmem pc R = true ->
  findb (filter (fun b => zmem (b_idx b) R) G) pc = findb G pc.
Proof.
  intros Hpc. unfold findb. induction G as [|b G IH]; [reflexivity|]. cbn.
  destruct (Z.eqb (b_idx b) pc) eqn:E.
  - apply Z.eqb_eq in E. rewrite E, Hpc. cbn. rewrite <- E, Z.eqb_refl. reflexivity.
  - destruct (zmem (b_idx b) R); [cbn; rewrite E|]; exact IH.
Qed.

Lemma unreachable_keeps G entry G' : sprune_unreachable G entry = Some G' ->
  forall fuel te s, run G' fuel entry te s = run G fuel entry te s.
Proof.
  unfold sprune_unreachable, sreach. destruct (closure _ _ _) as [R|] eqn:E; [|discriminate]. intros [= <-].
  pose proof (closure_spec _ _ _ _ E) as HR.
  assert (Hstep : forall x t, In x R -> In t (bsucc G x) -> In t R).
  { intros x t Hx Ht. apply HR. apply HR in Hx as [e [He Hr]]. exists e. split; [exact He|].
    eapply R_step; eauto. }
  assert (Hall : forall fuel pc te s, In pc R ->
            run (filter (fun b => zmem (b_idx b) R) G) fuel pc te s = run G fuel pc te s).
  { induction fuel as [|f IH]; intros pc te s Hpc; [reflexivity|]. cbn [SrcE.run].
    rewrite findb_filter_in by (apply zmem_In; exact Hpc).
    destruct (findb G pc) as [b|] eqn:Ef; [|reflexivity].
    assert (Hs : forall t, In t (b_jt b) -> In t R).
    { intros t Ht. apply (Hstep pc t Hpc). unfold bsucc. rewrite Ef. exact Ht. }
    destruct (run_ins (b_ins b) te s) as [te' s' lb|o]; [|reflexivity].
    destruct (b_jt b) as [|t1 [|t2 [|t3 r]]]; try reflexivity.
    - apply IH. apply Hs. left. reflexivity.
    - destruct lb as [[|]|]; try reflexivity; apply IH; apply Hs; cbn; auto. }
  intros fuel te s. apply Hall. apply HR. exists entry. split; [left; reflexivity|apply R_refl].
Qed.

(* -- no-op statements -- *)
Lemma run_ins_noops l : tests_last l -> forall te s,
  run_ins (filter (fun i => negb (is_noop i)) l) te s = run_ins l te s.
Proof.
  induction l as [|i l IH]; intros Htl te s; [reflexivity|].
  cbn [tests_last] in Htl. destruct Htl as [Hlast Htl].
  assert (Hfl : is_test i = true -> filter (fun i0 => negb (is_noop i0)) l = []) by (intros Ht; rewrite Ht in Hlast; subst l; reflexivity).
  destruct i as [a e|a|a oe|a|a|e|k e|h e|t|h t|h t|t|h t]; cbn [filter is_noop negb SrcE.run_ins is_test] in *;
    try (apply IH; exact Htl).
  - destruct (reval state aval opf e te s) as [[v s1]|]; [|reflexivity]. destruct (act a (Some v) s1); [apply IH; exact Htl|reflexivity].
  - destruct oe as [e|]; reflexivity.
  - rewrite (Hfl eq_refl). specialize (Hlast). subst l. reflexivity.
  - destruct (reval state aval opf e te s) as [[v s1]|]; [apply IH; exact Htl|reflexivity].
  - destruct (reval state aval opf e te s) as [[v s1]|]; [|reflexivity]. destruct (foract 0 h 0 (Some v) s1); [apply IH; exact Htl|reflexivity].
  - destruct (foract 1 0 t None s); [apply IH; exact Htl|reflexivity].
  - destruct (foract 2 h t None s); [apply IH; exact Htl|reflexivity].
  - destruct (foract 3 h t None s); [apply IH; exact Htl|reflexivity].
  - rewrite (Hfl eq_refl). subst l. reflexivity.
  - destruct (foract 5 h t None s); [apply IH; exact Htl|reflexivity].
Qed.

Lemma findb_map (f : blk -> blk) G pc : (forall b, b_idx (f b) = b_idx b) ->
  findb (map f G) pc = option_map f (findb G pc).
Proof.
  intros Hf. unfold findb. induction G as [|b G IH]; [reflexivity|]. cbn. rewrite Hf.
  destruct (Z.eqb (b_idx b) pc); [reflexivity|exact IH].
Qed.

Lemma findb_In G pc b : findb G pc = Some b -> In b G /\ b_idx b = pc.
Proof.
  unfold findb. intros H. apply find_some in H as [H1 H2]. apply Z.eqb_eq in H2. auto.
Qed.

Lemma noops_keeps G : TestsLast G -> forall fuel pc te s, run (sprune_noops G) fuel pc te s = run G fuel pc te s.
Proof.
  intros Htl. induction fuel as [|f IH]; intros pc te s; [reflexivity|]. cbn [SrcE.run].
  unfold sprune_noops. rewrite findb_map by reflexivity.
  destruct (findb G pc) as [b|] eqn:Ef; [|reflexivity]. cbn [option_map b_ins b_jt].
  rewrite run_ins_noops by (apply Htl; apply (findb_In _ _ _ Ef)).
  destruct (run_ins (b_ins b) te s) as [te' s' lb|o]; [|reflexivity].
  destruct (b_jt b) as [|t1 [|t2 [|t3 r]]]; try reflexivity.
  - apply IH.
  - destruct lb as [[|]|]; try reflexivity; apply IH.
Qed.

(* -- one empty block removed -- *)
Lemma findb_remove name it G pc : pc <> name ->
  findb (remove_blk name it G) pc = option_map (srewire name it) (findb G pc).
Proof.
  intros Hne. unfold remove_blk. rewrite findb_map.
  2:{ intros b. unfold srewire. destruct (b_jt b) as [|t1 [|t2 [|t3 r]]]; reflexivity. }
  f_equal. unfold findb. induction G as [|b G IH]; [reflexivity|]. cbn.
  destruct (Z.eqb (b_idx b) name) eqn:E; cbn.
  - apply Z.eqb_eq in E. destruct (Z.eqb (b_idx b) pc) eqn:E2; [apply Z.eqb_eq in E2; congruence|exact IH].
  - destruct (Z.eqb (b_idx b) pc); [reflexivity|exact IH].
Qed.

Lemma remove_keeps name it rest G b :
  findb G name = Some b -> b_ins b = [] -> b_jt b = it :: rest ->
  forall fuel pc te s o, run G fuel pc te s = o -> Term o ->
    exists fuel', run (remove_blk name it G) fuel' (redir name it pc) te s = o.
Proof.
  intros Hf Hi Hj. induction fuel as [|f IH]; intros pc te s o Hr Ht.
  - cbn in Hr. subst o. exfalso. exact (not_term_fuel Ht).
  - cbn [SrcE.run] in Hr. unfold redir at 1. destruct (Z.eqb pc name) eqn:E.
    + apply Z.eqb_eq in E. subst pc. rewrite Hf, Hi in Hr. cbn [SrcE.run_ins] in Hr. rewrite Hj in Hr.
      destruct rest as [|t2 [|t3 r]].
      * destruct (IH it te s o Hr Ht) as [f' Hf']. exists f'.
        unfold redir in Hf'. destruct (Z.eqb it name); exact Hf'.
      * subst o. exfalso. exact (not_term_stuck Ht).
      * subst o. exfalso. exact (not_term_stuck Ht).
    + apply Z.eqb_neq in E.
      destruct (findb G pc) as [b'|] eqn:Ef; [|subst o; exfalso; exact (not_term_stuck Ht)].
      assert (Hf' : findb (remove_blk name it G) pc = Some (srewire name it b')).
      { rewrite findb_remove by exact E. rewrite Ef. reflexivity. }
      assert (Hins : b_ins (srewire name it b') = b_ins b').
      { unfold srewire. destruct (b_jt b') as [|t1 [|t2 [|t3 r]]]; reflexivity. }
      destruct (run_ins (b_ins b') te s) as [te' s' lb|o'] eqn:Er.
      2:{ exists 1%nat. cbn [SrcE.run]. rewrite Hf', Hins, Er. exact Hr. }
      destruct (b_jt b') as [|t1 [|t2 [|t3 r]]] eqn:Ej;
        try (subst o; exfalso; exact (not_term_stuck Ht)).
      * destruct (IH t1 te' s' o Hr Ht) as [f' Hf2]. exists (S f'). cbn [SrcE.run]. rewrite Hf', Hins, Er.
        unfold srewire. rewrite Ej. cbn [b_jt]. exact Hf2.
      * destruct lb as [[|]|]; try (subst o; exfalso; exact (not_term_stuck Ht)).
        -- destruct (IH t1 te' s' o Hr Ht) as [f' Hf2]. exists (S f'). cbn [SrcE.run]. rewrite Hf', Hins, Er.
           unfold srewire. rewrite Ej. cbn [b_jt]. exact Hf2.
        -- destruct (IH t2 te' s' o Hr Ht) as [f' Hf2]. exists (S f'). cbn [SrcE.run]. rewrite Hf', Hins, Er.
           unfold srewire. rewrite Ej. cbn [b_jt]. exact Hf2.
Qed.

Lemma empty_loop_keeps : forall order G entry G' e',
  sprune_empty_loop order G entry = Some (G', e') ->
  forall fuel te s o, run G fuel entry te s = o -> Term o -> exists fuel', run G' fuel' e' te s = o.
Proof.
  induction order as [|name rest IH]; intros G entry G' e' H fuel te s o Hr Ht.
  - injection H as <- <-. exists fuel. exact Hr.
  - cbn [sprune_empty_loop] in H.
    destruct (findb G name) as [b|] eqn:Ef; [|eapply IH; eauto].
    destruct (b_ins b) as [|i l] eqn:Ei; [|eapply IH; eauto].
    destruct (b_jt b) as [|it r] eqn:Ej; [discriminate|].
    destruct (Z.eqb name 0 && existsb _ G); [eapply IH; eauto|].
    destruct (remove_keeps name it r G b Ef Ei Ej fuel entry te s o Hr Ht) as [f1 H1].
    eapply IH; eauto.
Qed.

(* -- both branches to the same block -- *)
Lemma collapse_keeps G : forall fuel pc te s o, run G fuel pc te s = o -> Term o -> run (map scollapse G) fuel pc te s = o.
Proof.
  induction fuel as [|f IH]; intros pc te s o Hr Ht; [exact Hr|]. cbn [SrcE.run] in *.
  rewrite findb_map.
  2:{ intros b. unfold scollapse. destruct (b_jt b) as [|t1 [|t2 [|t3 r]]]; try reflexivity.
      destruct (Z.eqb t1 t2); reflexivity. }
  destruct (findb G pc) as [b|] eqn:Ef; [|exact Hr]. cbn [option_map].
  assert (Hins : b_ins (scollapse b) = b_ins b).
  { unfold scollapse. destruct (b_jt b) as [|t1 [|t2 [|t3 r]]]; try reflexivity. destruct (Z.eqb t1 t2); reflexivity. }
  rewrite Hins. destruct (run_ins (b_ins b) te s) as [te' s' lb|o']; [|exact Hr].
  unfold scollapse. destruct (b_jt b) as [|t1 [|t2 [|t3 r]]] eqn:Ej; rewrite ?Ej; try exact Hr.
  - cbn [b_jt]. rewrite ?Ej. apply IH; assumption.
  - destruct (Z.eqb t1 t2) eqn:E; cbn [b_jt]; rewrite ?Ej.
    + apply Z.eqb_eq in E. subst t2.
      destruct lb as [[|]|]; try (subst o; exfalso; exact (not_term_stuck Ht)); apply IH; assumption.
    + destruct lb as [[|]|]; try exact Hr; apply IH; assumption.
Qed.

Lemma TestsLast_filter (P : blk -> bool) G : TestsLast G -> TestsLast (filter P G).
Proof. intros H b Hb. apply filter_In in Hb as [Hb _]. apply H. exact Hb. Qed.

Theorem prune_keeps_meaning G entry G' e' :
  TestsLast G -> sprune G entry = Some (G', e') ->
  forall fuel te s o, run G fuel entry te s = o -> Term o -> exists fuel', run G' fuel' e' te s = o.
Proof.
  unfold sprune, sprune_empty. intros Htl H fuel te s o Hr Ht.
  destruct (sprune_unreachable G entry) as [G1|] eqn:E1; [|discriminate].
  destruct (sprune_empty_loop _ _ _) as [[G2 e2]|] eqn:E2; [|discriminate]. injection H as <- <-.
  assert (Htl1 : TestsLast G1).
  { unfold sprune_unreachable in E1. destruct (sreach G entry); [|discriminate]. injection E1 as <-.
    apply TestsLast_filter. exact Htl. }
  assert (H1 : run (sprune_noops G1) fuel entry te s = o).
  { rewrite (noops_keeps G1 Htl1). rewrite (unreachable_keeps G entry G1 E1). exact Hr. }
  destruct (empty_loop_keeps _ _ _ _ _ E2 fuel te s o H1 Ht) as [f2 H2].
  exists f2. apply collapse_keeps; assumption.
Qed.
End Keep.

(* ---------- in every graph the model builds, a test is the last instruction of its block ---------- *)
Definition no_test (l : list instr) : Prop := forall i, In i l -> is_test i = false.
Definition TL (st : bst) : Prop :=
  (forall b, In b (done st) -> tests_last (b_ins b)) /\ no_test (b_ins (cur st)).

Lemma no_test_tests_last l : no_test l -> tests_last l.
Proof.
  induction l as [|i l IH]; intros H; [exact I|]. cbn [tests_last]. split.
  - rewrite (H i (or_introl eq_refl)). exact I.
  - apply IH. intros j Hj. apply H. right. exact Hj.
Qed.

Lemma tests_last_snoc l i : no_test l -> tests_last (l ++ [i]).
Proof.
  induction l as [|j l IH]; intros H; cbn [app tests_last].
  - split; [destruct (is_test i); [reflexivity|exact I]|exact I].
  - split; [rewrite (H j (or_introl eq_refl)); exact I|]. apply IH. intros k Hk. apply H. right. exact Hk.
Qed.

Lemma TL_emit i st : is_test i = false -> TL st -> TL (emit i st).
Proof.
  intros Hi [H1 H2]. split; [exact H1|]. cbn. intros j Hj. apply in_app_or in Hj as [Hj|[<-|[]]]; [exact (H2 j Hj)|exact Hi].
Qed.

Lemma TL_test i j jt st : TL st -> TL (addblk j (setjt jt (emit i st))).
Proof.
  intros [H1 H2]. split.
  - intros b [<-|Hb]; [cbn; apply tests_last_snoc; exact H2|apply H1; exact Hb].
  - intros k [].
Qed.

Lemma TL_addblk j st : TL st -> TL (addblk j st).
Proof.
  intros [H1 H2]. split.
  - intros b [<-|Hb]; [apply no_test_tests_last; exact H2|apply H1; exact Hb].
  - intros k [].
Qed.

Lemma TL_same st st' : done st' = done st -> b_ins (cur st') = b_ins (cur st) -> TL st -> TL st'.
Proof. intros Hd Hc [H1 H2]. split; [rewrite Hd; exact H1|rewrite Hc; exact H2]. Qed.

Lemma TL_seal lp d st : TL st -> TL (seal lp d st).
Proof.
  intros H. apply (TL_same st); [| |exact H]; unfold seal;
    destruct lp as [[h e]|]; destruct (last_instr (cur st)) as [[]|]; reflexivity.
Qed.

Definition TLTh (th : bst -> rexpr * bst) : Prop := forall st, TL st -> TL (snd (th st)).

Lemma TL_boolop isor first second : TLTh first -> TLTh second -> TLTh (boolop isor first second).
Proof.
  intros HF HS st H. unfold boolop.
  destruct (newtmp st) as [k st0] eqn:Ent.
  assert (H0 : TL st0) by (apply (TL_same st); [unfold newtmp in Ent; injection Ent as _ <-; reflexivity|
                                                 unfold newtmp in Ent; injection Ent as _ <-; reflexivity|exact H]).
  pose proof (HF st0 H0) as H1. destruct (first st0) as [l st1]. cbn [snd] in H1.
  set (st2 := emit (ISet k l) st1).
  assert (H2 : TL st2) by (apply TL_emit; [reflexivity|exact H1]).
  set (jts := if isor then [next st2 + 1; next st2] else [next st2; next st2 + 1]).
  assert (H4 : TL (addblk (next st2) (setjt jts (emit (ITest (RTmp k)) (bump 2 st2))))).
  { apply TL_test. apply (TL_same st2); [reflexivity|reflexivity|exact H2]. }
  pose proof (HS _ H4) as H5. destruct (second _) as [r2 st5]. cbn [snd] in *.
  apply TL_addblk. apply (TL_same (emit (ISet k r2) st5)); [reflexivity|reflexivity|].
  apply TL_emit; [reflexivity|exact H5].
Qed.

Lemma TL_hexpr e : TLTh (hexpr e).
Proof.
  induction e as [a|o es IH|c es IH] using expr_ind'.
  - intros st H. exact H.
  - assert (Hc : TLTh (hchain o es)).
    { induction es as [|a es IHes]; [intros st H; apply (TL_same st); [reflexivity|reflexivity|exact H]|].
      inversion IH as [|? ? Pa Pr]; subst.
      destruct es as [|b [|d r]].
      - intros st H. apply (TL_same st); [reflexivity|reflexivity|exact H].
      - inversion Pr as [|? ? Pb _]; subst. intros st H. cbn [hchain].
        pose proof (Pa st H) as Ha. destruct (hexpr a st) as [ra st1]. cbn [snd] in Ha.
        pose proof (Pb st1 Ha) as Hb. destruct (hexpr b st1) as [rb st2]. cbn [snd] in Hb.
        apply (TL_boolop o (fun s => (ra, s)) (fun s => (rb, s))); [intros s0 Hs0; exact Hs0|intros s0 Hs0; exact Hs0|exact Hb].
      - change (hchain o (a :: b :: d :: r)) with (boolop o (fun s => hexpr a s) (fun s => hchain o (b :: d :: r) s)).
        apply TL_boolop; [exact Pa|apply IHes; exact Pr]. }
    intros st H. rewrite hexpr_bool. apply Hc. exact H.
  - assert (Hl : forall st, TL st -> TL (snd (hlist es st))).
    { induction es as [|x r IHr]; intros st H; [exact H|].
      inversion IH as [|? ? Px Pr]; subst. cbn [hlist].
      pose proof (Px st H) as Hx. destruct (hexpr x st) as [rx st1]. cbn [snd] in Hx.
      pose proof (IHr Pr st1 Hx) as Hr. destruct (hlist r st1) as [rr st2]. exact Hr. }
    intros st H. rewrite hexpr_op. pose proof (Hl st H) as H'. destruct (hlist es st) as [rs st1]. exact H'.
Qed.

Lemma TL_hx e st : TL st -> TL (snd (hx e st)).
Proof. apply TL_hexpr. Qed.

Lemma TL_cg :
  (forall x lp st, TL st -> TL (cg_stmt x lp st)) /\
  (forall l lp st, TL st -> TL (cg_stmts l lp st)).
Proof.
  apply stmt_stmts_ind.
  - intros a e lp st H. cbn [cg_stmt]. pose proof (TL_hx e st H) as H1. destruct (hx e st) as [r st1].
    apply TL_emit; [reflexivity|exact H1].
  - intros a lp st H. apply TL_emit; [reflexivity|exact H].
  - intros a [e|] lp st H; cbn [cg_stmt].
    + pose proof (TL_hx e st H) as H1. destruct (hx e st) as [r st1]. apply TL_emit; [reflexivity|exact H1].
    + apply TL_emit; [reflexivity|exact H].
  - intros a lp st H. apply TL_emit; [reflexivity|exact H].
  - intros a lp st H. apply TL_emit; [reflexivity|exact H].
  - intros c t IHt e IHe lp st H. cbn [cg_stmt].
    assert (H0 : TL (bump 3 st)) by (apply (TL_same st); [reflexivity|reflexivity|exact H]).
    pose proof (TL_hx c _ H0) as H1. destruct (hx c (bump 3 st)) as [r st0]. cbn [snd] in H1.
    apply TL_addblk, TL_seal, IHe, TL_addblk, TL_seal, IHt, TL_test. exact H1.
  - intros c b IHb o IHo lp st H. cbn [cg_stmt].
    assert (H0 : TL (addblk (next st) (setjt [next st] (bump 4 st)))).
    { apply TL_addblk. apply (TL_same st); [reflexivity|reflexivity|exact H]. }
    pose proof (TL_hx c _ H0) as H1. destruct (hx c _) as [r st1']. cbn [snd] in H1.
    apply TL_addblk, TL_seal, IHo, TL_addblk, TL_seal, IHb, TL_test. exact H1.
  - intros h tg it b IHb o IHo lp st H. cbn [cg_stmt].
    assert (H0 : TL (bump 4 (chk (Z.eqb h (next st)) st))) by (apply (TL_same st); [reflexivity|reflexivity|exact H]).
    pose proof (TL_hx it _ H0) as H1. destruct (hx it _) as [ri st0]. cbn [snd] in H1.
    apply TL_addblk, TL_seal, IHo.
    apply TL_emit; [reflexivity|].
    apply TL_addblk, TL_seal, IHb, TL_test.
    apply TL_emit; [reflexivity|]. apply TL_emit; [reflexivity|].
    apply TL_addblk.
    apply (TL_same (emit (IForInit tg) (emit (IForIter h ri) st0))); [reflexivity|reflexivity|].
    apply TL_emit; [reflexivity|]. apply TL_emit; [reflexivity|]. exact H1.
  - intros lp st H. exact H.
  - intros x IHx r IHr lp st H. cbn [cg_stmts]. destruct (is_jump x); [apply IHx; exact H|apply IHr, IHx; exact H].
Qed.

Theorem build_tests_last body : TestsLast (build body).
Proof.
  unfold build, blocks_of, TestsLast. intros b Hb. apply in_rev in Hb.
  destruct (proj2 TL_cg body None st_init) as [H1 H2].
  { split; [intros b0 []|intros i []]. }
  destruct Hb as [<-|Hb]; [apply no_test_tests_last; exact H2|apply H1; exact Hb].
Qed.

(* ImmDom.v — transformations._imm_doms, line by line: idoms[k] = doms[k] - {k}; passes over the
   dictionary while something changes, each pass pruning vs -= idoms[v] for v in a SNAPSHOT list(vs)
   taken in the iteration order of a set (an arbitrary enumeration here: `snap`); finally `[v] = vs`
   for the non-empty sets (IOne = ValueError when a set is not a singleton, IKey = KeyError).
   Theorem: if the strict-dominator sets form chains (given by an immediate-dominator witness), then for
   EVERY enumeration order the function returns, without error, exactly the witness - after the first pass
   every set is a singleton already. *)
From Coq Require Import List ZArith Bool Lia.
Import ListNotations.
From V Require Import Valid.Hier Model.Graph Model.Edits.
Local Open Scope Z_scope.

Definition imap := list (name * list name).

Inductive ires := IOk (out : list (name * name)) | IKey | IOne | IFuel.

Definition diff (a b : list name) : list name := filter (fun x => negb (zmem x b)) a.

Section Imm.
(* the order in which list(vs) enumerates the set vs while block k is processed *)
Variable snap : name -> list name -> list name.

(* for v in list(vs): vs -= idoms[v] *)
Fixpoint prune (I : imap) (vs : list name) (sn : list name) : option (list name) :=
  match sn with
  | [] => Some vs
  | v :: r =>
    match zassoc v I with
    | Some dv => prune I (diff vs dv) r
    | None => None
    end
  end.

(* one pass: for k, vs in idoms.items() *)
Fixpoint pass (I : imap) (keys : list name) (changed : bool) : option (imap * bool) :=
  match keys with
  | [] => Some (I, changed)
  | k :: r =>
    match zassoc k I with
    | None => None
    | Some vs =>
      match prune I vs (snap k vs) with
      | None => None
      | Some vs' => pass (dset I k vs') r (changed || Nat.ltb (length vs') (length vs))
      end
    end
  end.

Fixpoint loop (fuel : nat) (I : imap) : option imap :=
  match fuel with
  | 0%nat => None
  | S f =>
    match pass I (map fst I) false with
    | None => None
    | Some (M', true) => loop f M'
    | Some (M', false) => Some M'
    end
  end.

Fixpoint fix_output (M : imap) : option (list (name * name)) :=
  match M with
  | [] => Some []
  | (k, vs) :: r =>
    match vs, fix_output r with
    | [], Some o => Some o
    | [v], Some o => Some ((k, v) :: o)
    | _, _ => None
    end
  end.

Definition imm_doms (fuel : nat) (doms : imap) : ires :=
  let I0 := map (fun p => (fst p, diff (snd p) [fst p])) doms in
  match fuel with
  | 0%nat => IFuel
  | _ =>
    (* a KeyError or exhausted fuel inside the passes *)
    match loop fuel I0 with
    | None => IKey
    | Some M => match fix_output M with Some o => IOk o | None => IOne end
    end
  end.
End Imm.

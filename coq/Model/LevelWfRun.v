(* LevelWfRun.v — the conditions of LevelWf.level_edit_keeps_wf as one boolean (level_okb), proved to imply
   them, and the column the extracted checker computes for every call of loop_restructure_helper and of
   insert_block the pipeline makes: the hierarchy before the call is self-consistent (Wf.wf_check), the
   dictionary of the level after the call (read off the implementation's result) meets level_okb, and the
   hierarchy the theorem then speaks about - that dictionary written back into the hierarchy before the call -
   is, up to the order of the node list, the hierarchy the implementation produced.  So the call is an
   edit of one level, and it keeps the hierarchy self-consistent by the universal theorem. *)
From Coq Require Import List ZArith Bool Lia.
Import ListNotations.
From V Require Import Valid.Hier Valid.FlatRegion Valid.Wf Valid.Struct Model.Graph Model.Edits Model.Extract
     Model.LoopHier Model.JoinPath Model.LoopHierPath Model.Total2 Model.LoopHierApplic Model.HierEquiv Model.LevelWf.
Local Open Scope Z_scope.

Definition level_okb (h : hier) (lvl : name) (g' : egraph) : bool :=
  match find h lvl with
  | None => false
  | Some nl =>
    match n_kind nl with
    | KRegion rk hd ex ch pd ok =>
      let keys := ekeys g' in
      nodupb (names (write_back h lvl g')) && nodupb keys && is_none (efind g' lvl) && negb (Z.eqb lvl 0) &&
      forallb (fun x => is_none (find h x) || zmem x ch) keys &&
      forallb (fun c => zmem c keys) ch &&
      forallb (fun p => match find h (fst p) with
                        | Some n => negb (is_region n) ||
                                    (list_eqb (e_jt (snd p)) (n_jt n) && list_eqb (e_be (snd p)) (n_be n) &&
                                     match e_kind (snd p) with EPlain _ => true | _ => false end)
                        | None => true end) g' &&
      forallb (fun p => forallb (fun t => zmem t keys || (Z.eqb (fst p) ex && visibleb h (S (length h)) lvl t))
                                (e_jt (snd p) ++ e_be (snd p))) g' &&
      (Z.eqb (n_parent nl) 0 ||
       match efind g' ex with
       | Some b => list_eqb (filter (fun t => negb (zmem t (e_be b))) (e_jt b)) (n_jt nl)
       | None => true end)
    | _ => false
    end
  end.

Theorem level_edit_keeps_wf_b h lvl g' :
  wf_check h = true -> level_okb h lvl g' = true -> WfHier (write_back h lvl g').
Proof.
  intros Hwf H. apply wf_check_sound in Hwf. unfold level_okb in H.
  destruct (find h lvl) as [nl|] eqn:Hl; [|discriminate].
  destruct (n_kind nl) as [| | | |rk hd ex ch pd ok] eqn:Hk; try discriminate. cbv zeta in H.
  apply andb_true_iff in H as [H Brjt]. apply andb_true_iff in H as [H Bscope]. apply andb_true_iff in H as [H Breg].
  apply andb_true_iff in H as [H Bch]. apply andb_true_iff in H as [H Bcases]. apply andb_true_iff in H as [H Bl0].
  apply andb_true_iff in H as [H Blvl]. apply andb_true_iff in H as [Bnd Bkeys].
  apply (level_edit_keeps_wf h lvl g' nl rk hd ex ch pd ok Hwf Hl Hk).
  - apply nodupb_sound. exact Bnd.
  - apply nodupb_sound. exact Bkeys.
  - destruct (efind g' lvl); [discriminate|reflexivity].
  - apply negb_true_iff in Bl0. apply Z.eqb_neq in Bl0. exact Bl0.
  - intros x Hx. rewrite forallb_forall in Bcases. specialize (Bcases x Hx). apply orb_true_iff in Bcases as [A|A].
    + left. destruct (find h x); [discriminate|reflexivity].
    + right. apply zmem_In. exact A.
  - intros c Hc. rewrite forallb_forall in Bch. apply zmem_In. apply Bch. exact Hc.
  - intros x n b Hb Hn Hr. rewrite forallb_forall in Breg. specialize (Breg (x, b) (efind_In _ _ _ Hb)). cbn [fst snd] in Breg.
    rewrite Hn, Hr in Breg. cbn [negb orb] in Breg. apply andb_true_iff in Breg as [A C]. apply andb_true_iff in A as [A B].
    apply list_eqb_eq in A, B. split; [exact A|]. split; [exact B|]. destruct (e_kind b); try discriminate. eauto.
  - intros x b t Hb Ht. rewrite forallb_forall in Bscope. specialize (Bscope (x, b) (efind_In _ _ _ Hb)). cbn [fst snd] in Bscope.
    rewrite forallb_forall in Bscope. specialize (Bscope t Ht). apply orb_true_iff in Bscope as [A|A].
    + left. apply zmem_In. exact A.
    + right. apply andb_true_iff in A as [A B]. apply Z.eqb_eq in A. split; [exact A|]. eapply visibleb_sound. exact B.
  - intros Hp b Hb. apply orb_true_iff in Brjt as [A|A]; [apply Z.eqb_eq in A; contradiction|].
    rewrite Hb in A. apply list_eqb_eq. exact A.
Qed.

(* rows: the hierarchy before the call and, on rows tagged 47, after it; lvl is given by the caller *)
Definition wf_level_col (h ha : hier) (lvl : name) : Z :=
  match level_graph ha lvl with
  | Some g' =>
    if wf_check h && level_okb h lvl g' && xhier_eqb (write_back h lvl g') ha then 1 else 0
  | None => 0
  end.

From V Require Import Model.InsHier Model.InsHierRun Model.UniHierRun Model.HelperCol Model.InsCol.

Definition wf_col_lh (rows : list (list Z)) : Z :=
  let '(br, ar, op, st, dm) := split_lh rows in
  match decode br, decode ar, op with
  | Some (_, h), Some (_, ha), lvl :: _ => wf_level_col h ha lvl
  | _, _, _ => 0
  end.

Definition wf_col_ib (rows : list (list Z)) : Z :=
  let '(br, ar, op, st) := split_ib rows in
  match decode br, decode ar, op with
  | Some (_, h), Some (_, ha), lvl :: _ => wf_level_col h ha lvl
  | _, _, _ => 0
  end.

Definition run_looph4 (rows : list (list Z)) : list Z := run_looph3h rows ++ [wf_col_lh rows].
Definition run_ibh3 (rows : list (list Z)) : list Z := run_ibh2c rows ++ [wf_col_ib rows].

From V Require Import Model.LevelCons.

Definition cons_col_lh (rows : list (list Z)) : Z :=
  let '(br, ar, op, st, dm) := split_lh rows in
  match decode br, decode ar, op with
  | Some (_, h), Some (_, ha), lvl :: _ => cons_level_col h ha lvl
  | _, _, _ => 0
  end.

Definition cons_col_ib (rows : list (list Z)) : Z :=
  let '(br, ar, op, st) := split_ib rows in
  match decode br, decode ar, op with
  | Some (_, h), Some (_, ha), lvl :: _ => cons_level_col h ha lvl
  | _, _, _ => 0
  end.

Definition run_looph5 (rows : list (list Z)) : list Z := run_looph4 rows ++ [cons_col_lh rows].
Definition run_ibh4 (rows : list (list Z)) : list Z := run_ibh3 rows ++ [cons_col_ib rows].

(* ---------- "equal up to the order of the node list" keeps self-consistency ---------- *)
Section WfTransfer.
Variables a b : hier.
Hypothesis Hfind : forall x, find a x = find b x.
Hypothesis Hna : NoDup (names a).
Hypothesis Hnb : NoDup (names b).

Lemma in_transfer n : In n a -> In n b.
Proof. intros Hn. pose proof (find_of_In_nodup a n Hna Hn) as Hf. rewrite Hfind in Hf. apply (find_In _ _ _ Hf). Qed.
Lemma in_transfer' n : In n b -> In n a.
Proof. intros Hn. pose proof (find_of_In_nodup b n Hnb Hn) as Hf. rewrite <- Hfind in Hf. apply (find_In _ _ _ Hf). Qed.

Lemma vis_transfer x t : Visible a x t -> Visible b x t.
Proof.
  induction 1 as [x t nx p rk0 hd0 ex0 ch0 pd0 ok0 Hx Hp Hkp Ht|x t nx p rk0 hd0 ex0 ch0 pd0 ok0 Hx Hp Hkp Hex _ IH].
  - rewrite Hfind in Hx, Hp. eapply Vis_sib; eauto.
  - rewrite Hfind in Hx, Hp. eapply Vis_up; eauto.
Qed.

Theorem wf_transfer : WfHier a -> WfHier b.
Proof.
  intros W. constructor.
  - exact Hnb.
  - destruct (wf_top a W) as [top [Htop Hr]]. exists top. split; [|exact Hr]. unfold top_region in *.
    destruct (filter (fun n => Z.eqb (n_parent n) 0) a) as [|t0 [|t1 r]] eqn:Ef; try discriminate. injection Htop as ->.
    destruct (filter_single_inv _ _ _ Ef) as [Hin [Hp Hu]].
    rewrite (filter_single (fun n => Z.eqb (n_parent n) 0) b top); [reflexivity| | | |].
    + apply (NoDup_map_inv n_name). exact Hnb.
    + apply in_transfer. exact Hin.
    + exact Hp.
    + intros y Hy Hpy. apply Hu; [apply in_transfer'; exact Hy|exact Hpy].
  - intros n Hn Hp. destruct (wf_up a W n (in_transfer' n Hn) Hp) as [p [rk0 [hd0 [ex0 [ch0 [pd0 [ok0 [A [B C]]]]]]]]].
    rewrite Hfind in A. eauto 10.
  - intros p rk0 hd0 ex0 ch0 pd0 ok0 Hin Hk. destruct (wf_down a W p _ _ _ _ _ _ (in_transfer' p Hin) Hk) as [A B].
    split; [exact A|]. intros c Hc. destruct (B c Hc) as [n [Hn Hp]]. rewrite Hfind in Hn. eauto.
  - intros p rk0 hd0 ex0 ch0 pd0 ok0 Hin Hk. exact (wf_hdr a W p _ _ _ _ _ _ (in_transfer' p Hin) Hk).
  - intros n t Hin Hp Ht. apply vis_transfer. exact (wf_scope a W n t (in_transfer' n Hin) Hp Ht).
  - intros p rk0 hd0 ex0 ch0 pd0 ok0 Hin Hk Hp. destruct (wf_rjt a W p _ _ _ _ _ _ (in_transfer' p Hin) Hk Hp) as [nex [A B]].
    rewrite Hfind in A. eauto.
  - intros p rk0 hd0 ex0 ch0 pd0 ok0 Hin Hk. exact (wf_parent a W p _ _ _ _ _ _ (in_transfer' p Hin) Hk).
Qed.
End WfTransfer.

(* the comparison made per call is enough for C04 as well *)
Theorem compared_equal_keeps_wf a b : xhier_eqb a b = true -> WfHier a -> WfHier b.
Proof.
  intros He W. destruct (xhier_eqb_sound a b (wf_nodup a W) He) as [_ [Hfind Hnb]].
  exact (wf_transfer a b Hfind (wf_nodup a W) Hnb W).
Qed.

(* so a call whose column is 1 leaves the implementation's hierarchy self-consistent *)
Theorem wf_level_col_sound h ha lvl : wf_level_col h ha lvl = 1 -> WfHier ha.
Proof.
  unfold wf_level_col. destruct (level_graph ha lvl) as [g'|]; [|discriminate].
  destruct (wf_check h && level_okb h lvl g' && xhier_eqb (write_back h lvl g') ha) eqn:E; [|discriminate]. intros _.
  apply andb_true_iff in E as [E E3]. apply andb_true_iff in E as [E1 E2].
  apply (compared_equal_keeps_wf _ _ E3). apply level_edit_keeps_wf_b; assumption.
Qed.

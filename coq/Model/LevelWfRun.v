(* LevelWfRun.v — the conditions of LevelWf.level_edit_keeps_wf as one boolean (level_okb), proved to imply
   them, and the column the extracted checker computes for every call of loop_restructure_helper and of
   insert_block the pipeline makes: the hierarchy before the call is self-consistent (Wf.wf_check), the
   dictionary of the level after the call (read off the implementation's result) meets level_okb, and the
   hierarchy the theorem then speaks about - that dictionary written back into the hierarchy before the call -
   is, up to the order of the node list, the hierarchy the implementation produced.  So the call is an
   edit of one level, and it keeps the hierarchy self-consistent by the universal theorem. *)
From Coq Require Import List ZArith Bool Lia.
Import ListNotations.
From V Require Import Valid.Hier Valid.FlatRegion Valid.Wf Valid.Struct Model.Graph Model.Edits Model.Extract
     Model.LoopHier Model.JoinPath Model.LoopHierPath Model.Total2 Model.LoopHierApplic Model.HierEquiv Model.LevelWf.
Local Open Scope Z_scope.

Definition level_okb (h : hier) (lvl : name) (g' : egraph) : bool :=
  match find h lvl with
  | None => false
  | Some nl =>
    match n_kind nl with
    | KRegion rk hd ex ch pd ok =>
      let keys := ekeys g' in
      nodupb (names (write_back h lvl g')) && nodupb keys && is_none (efind g' lvl) && negb (Z.eqb lvl 0) &&
      forallb (fun x => is_none (find h x) || zmem x ch) keys &&
      forallb (fun c => zmem c keys) ch &&
      forallb (fun p => match find h (fst p) with
                        | Some n => negb (is_region n) ||
                                    (list_eqb (e_jt (snd p)) (n_jt n) && list_eqb (e_be (snd p)) (n_be n) &&
                                     match e_kind (snd p) with EPlain _ => true | _ => false end)
                        | None => true end) g' &&
      forallb (fun p => forallb (fun t => zmem t keys || (Z.eqb (fst p) ex && visibleb h (S (length h)) lvl t))
                                (e_jt (snd p) ++ e_be (snd p))) g' &&
      (Z.eqb (n_parent nl) 0 ||
       match efind g' ex with
       | Some b => list_eqb (filter (fun t => negb (zmem t (e_be b))) (e_jt b)) (n_jt nl)
       | None => true end)
    | _ => false
    end
  end.

Theorem level_edit_keeps_wf_b h lvl g' :
  wf_check h = true -> level_okb h lvl g' = true -> WfHier (write_back h lvl g').
Proof.
  intros Hwf H. apply wf_check_sound in Hwf. unfold level_okb in H.
  destruct (find h lvl) as [nl|] eqn:Hl; [|discriminate].
  destruct (n_kind nl) as [| | | |rk hd ex ch pd ok] eqn:Hk; try discriminate. cbv zeta in H.
  apply andb_true_iff in H as [H Brjt]. apply andb_true_iff in H as [H Bscope]. apply andb_true_iff in H as [H Breg].
  apply andb_true_iff in H as [H Bch]. apply andb_true_iff in H as [H Bcases]. apply andb_true_iff in H as [H Bl0].
  apply andb_true_iff in H as [H Blvl]. apply andb_true_iff in H as [Bnd Bkeys].
  apply (level_edit_keeps_wf h lvl g' nl rk hd ex ch pd ok Hwf Hl Hk).
  - apply nodupb_sound. exact Bnd.
  - apply nodupb_sound. exact Bkeys.
  - destruct (efind g' lvl); [discriminate|reflexivity].
  - apply negb_true_iff in Bl0. apply Z.eqb_neq in Bl0. exact Bl0.
  - intros x Hx. rewrite forallb_forall in Bcases. specialize (Bcases x Hx). apply orb_true_iff in Bcases as [A|A].
    + left. destruct (find h x); [discriminate|reflexivity].
    + right. apply zmem_In. exact A.
  - intros c Hc. rewrite forallb_forall in Bch. apply zmem_In. apply Bch. exact Hc.
  - intros x n b Hb Hn Hr. rewrite forallb_forall in Breg. specialize (Breg (x, b) (efind_In _ _ _ Hb)). cbn [fst snd] in Breg.
    rewrite Hn, Hr in Breg. cbn [negb orb] in Breg. apply andb_true_iff in Breg as [A C]. apply andb_true_iff in A as [A B].
    apply list_eqb_eq in A, B. split; [exact A|]. split; [exact B|]. destruct (e_kind b); try discriminate. eauto.
  - intros x b t Hb Ht. rewrite forallb_forall in Bscope. specialize (Bscope (x, b) (efind_In _ _ _ Hb)). cbn [fst snd] in Bscope.
    rewrite forallb_forall in Bscope. specialize (Bscope t Ht). apply orb_true_iff in Bscope as [A|A].
    + left. apply zmem_In. exact A.
    + right. apply andb_true_iff in A as [A B]. apply Z.eqb_eq in A. split; [exact A|]. eapply visibleb_sound. exact B.
  - intros Hp b Hb. apply orb_true_iff in Brjt as [A|A]; [apply Z.eqb_eq in A; contradiction|].
    rewrite Hb in A. apply list_eqb_eq. exact A.
Qed.

(* rows: the hierarchy before the call and, on rows tagged 47, after it; lvl is given by the caller *)
Definition wf_level_col (h ha : hier) (lvl : name) : Z :=
  match level_graph ha lvl with
  | Some g' =>
    if wf_check h && level_okb h lvl g' && xhier_eqb (write_back h lvl g') ha then 1 else 0
  | None => 0
  end.

From V Require Import Model.InsHier Model.InsHierRun Model.UniHierRun.

Definition wf_col_lh (rows : list (list Z)) : Z :=
  let '(br, ar, op, st, dm) := split_lh rows in
  match decode br, decode ar, op with
  | Some (_, h), Some (_, ha), lvl :: _ => wf_level_col h ha lvl
  | _, _, _ => 0
  end.

Definition wf_col_ib (rows : list (list Z)) : Z :=
  let '(br, ar, op, st) := split_ib rows in
  match decode br, decode ar, op with
  | Some (_, h), Some (_, ha), lvl :: _ => wf_level_col h ha lvl
  | _, _, _ => 0
  end.

Definition run_looph4 (rows : list (list Z)) : list Z := run_looph3 rows ++ [wf_col_lh rows].
Definition run_ibh3 (rows : list (list Z)) : list Z := run_ibh2 rows ++ [wf_col_ib rows].

From V Require Import Model.LevelCons.

Definition cons_col_lh (rows : list (list Z)) : Z :=
  let '(br, ar, op, st, dm) := split_lh rows in
  match decode br, decode ar, op with
  | Some (_, h), Some (_, ha), lvl :: _ => cons_level_col h ha lvl
  | _, _, _ => 0
  end.

Definition cons_col_ib (rows : list (list Z)) : Z :=
  let '(br, ar, op, st) := split_ib rows in
  match decode br, decode ar, op with
  | Some (_, h), Some (_, ha), lvl :: _ => cons_level_col h ha lvl
  | _, _, _ => 0
  end.

Definition run_looph5 (rows : list (list Z)) : list Z := run_looph4 rows ++ [cons_col_lh rows].
Definition run_ibh4 (rows : list (list Z)) : list Z := run_ibh3 rows ++ [cons_col_ib rows].

(* SrcProof.v — the graph the front-end model builds interprets, block by block,
   exactly as the skeleton executes: for EVERY program of the skeleton (any
   nesting), every meaning of its statements and tests, every state.  Forward
   simulation from the fuelled source semantics into a small-step reading of the
   block interpretation; the result is then transported to the executable
   interpreter `run`. *)
From Coq Require Import List ZArith Bool Lia.
Import ListNotations.
From V Require Import Model.Src.
Local Open Scope Z_scope.

Scheme stmt_mut := Induction for stmt Sort Prop
  with stmts_mut := Induction for stmts Sort Prop.
Combined Scheme stmt_stmts_ind from stmt_mut, stmts_mut.

Section Proof.
Variable state : Type.
Variable act : Z -> state -> option state.
Variable test : Z -> state -> option (bool * state).
Variable G : list blk.

Notation outcome := (outcome state).
Notation exec := (exec state act test).
Notation loop := (loop state act test).
Notation acts := (acts state act).

(* ---------- small-step reading of the block interpretation ---------- *)
Definition conf := (Z * nat * state)%type.

Inductive step : conf -> conf -> Prop :=
| st_act pc k s b a s' :
    findb G pc = Some b -> nth_error (b_ins b) k = Some (IAct a) ->
    act a s = Some s' -> step (pc, k, s) (pc, S k, s')
| st_nop pc k s b a :
    findb G pc = Some b ->
    (nth_error (b_ins b) k = Some (IPass a) \/ nth_error (b_ins b) k = Some (IBrk a) \/ nth_error (b_ins b) k = Some (ICnt a)) ->
    step (pc, k, s) (pc, S k, s)
| st_test pc k s b c bv s' t1 t2 :
    findb G pc = Some b -> nth_error (b_ins b) k = Some (ITest c) -> S k = length (b_ins b) ->
    test c s = Some (bv, s') -> b_jt b = [t1; t2] ->
    step (pc, k, s) ((if bv then t1 else t2), O, s')
| st_goto pc k s b t :
    findb G pc = Some b -> k = length (b_ins b) -> b_jt b = [t] -> step (pc, k, s) (t, O, s).

Inductive steps : conf -> conf -> Prop :=
| steps_refl c : steps c c
| steps_cons c1 c2 c3 : step c1 c2 -> steps c2 c3 -> steps c1 c3.

Inductive halts : conf -> outcome -> Prop :=
| h_ret pc k s b a s' :
    findb G pc = Some b -> nth_error (b_ins b) k = Some (IRet a) -> act a s = Some s' ->
    halts (pc, k, s) (ORet a s')
| h_ret_raise pc k s b a :
    findb G pc = Some b -> nth_error (b_ins b) k = Some (IRet a) -> act a s = None ->
    halts (pc, k, s) (ORaise a)
| h_act_raise pc k s b a :
    findb G pc = Some b -> nth_error (b_ins b) k = Some (IAct a) ->
    act a s = None -> halts (pc, k, s) (ORaise a)
| h_test_raise pc k s b c :
    findb G pc = Some b -> nth_error (b_ins b) k = Some (ITest c) -> S k = length (b_ins b) ->
    test c s = None -> halts (pc, k, s) (ORaise c)
| h_step c1 c2 o : step c1 c2 -> halts c2 o -> halts c1 o.

Lemma steps_trans c1 c2 c3 : steps c1 c2 -> steps c2 c3 -> steps c1 c3.
Proof. induction 1; intros; [assumption|]. econstructor; eauto. Qed.

Lemma steps_one c1 c2 : step c1 c2 -> steps c1 c2.
Proof. intros. econstructor; [eassumption|constructor]. Qed.

Lemma steps_halts c1 c2 o : steps c1 c2 -> halts c2 o -> halts c1 o.
Proof. induction 1; intros; [assumption|]. eapply h_step; eauto. Qed.

(* ---------- the final graph extends every intermediate builder state ---------- *)
Definition prefix {A} (l1 l2 : list A) : Prop := exists r, l2 = l1 ++ r.

Definition Ext (st : bst) : Prop :=
  (forall b, In b (done st) -> findb G (b_idx b) = Some b) /\
  (exists bG, findb G (b_idx (cur st)) = Some bG /\ prefix (b_ins (cur st)) (b_ins bG)).

Lemma Ext_emit i st : Ext (emit i st) -> Ext st.
Proof.
  intros [H1 [bG [H2 [r H3]]]]. split; [exact H1|]. exists bG. split; [exact H2|].
  cbn in H3. exists ([i] ++ r). rewrite H3. rewrite <- app_assoc. reflexivity.
Qed.

Lemma Ext_emits l : forall st, Ext (emits l st) -> Ext st.
Proof.
  induction l as [|i l IH]; intros st H; [exact H|]. cbn in H. apply IH in H. eapply Ext_emit; eauto.
Qed.

Lemma Ext_setjt jt st : Ext (setjt jt st) -> Ext st.
Proof. intros [H1 H2]. split; [exact H1|exact H2]. Qed.

Lemma Ext_bump k st : Ext (bump k st) -> Ext st.
Proof. intros [H1 H2]. split; [exact H1|exact H2]. Qed.

Lemma Ext_chk b st : Ext (chk b st) -> Ext st.
Proof. intros [H1 H2]. split; [exact H1|exact H2]. Qed.

Lemma Ext_addblk i st : Ext (addblk i st) -> Ext st.
Proof.
  intros [H1 _]. split.
  - intros b Hb. apply H1. right. exact Hb.
  - exists (cur st). split; [apply H1; left; reflexivity|]. exists []. rewrite app_nil_r. reflexivity.
Qed.

Lemma Ext_seal lp d st : Ext (seal lp d st) -> Ext st.
Proof.
  unfold seal. destruct lp as [[h e]|]; destruct (last_instr (cur st)) as [[a|a|a|a|a|c]|];
    intros H; try exact H; eapply Ext_setjt; eauto.
Qed.

Lemma Ext_cg :
  (forall x lp st, Ext (cg_stmt x lp st) -> Ext st) /\
  (forall l lp st, Ext (cg_stmts l lp st) -> Ext st).
Proof.
  apply stmt_stmts_ind.
  - intros a lp st H. cbn in H. eapply Ext_emit; eauto.
  - intros a lp st H. cbn in H. eapply Ext_emit; eauto.
  - intros a lp st H. cbn in H. eapply Ext_emit; eauto.
  - intros a lp st H. cbn in H. eapply Ext_emit; eauto.
  - intros a lp st H. cbn in H. eapply Ext_emit; eauto.
  - intros c t IHt e IHe lp st H. cbn [cg_stmt] in H.
    apply Ext_addblk, Ext_seal, IHe, Ext_addblk, Ext_seal, IHt, Ext_addblk, Ext_setjt, Ext_emit, Ext_bump in H.
    exact H.
  - intros c b IHb o IHo lp st H. cbn [cg_stmt] in H.
    apply Ext_addblk, Ext_seal, IHo, Ext_addblk, Ext_seal, IHb, Ext_addblk, Ext_setjt, Ext_emit,
          Ext_addblk, Ext_setjt, Ext_bump in H.
    exact H.
  - intros h tg it b IHb o IHo lp st H. cbn [cg_stmt] in H.
    apply Ext_addblk, Ext_seal, IHo, Ext_emit, Ext_addblk, Ext_seal, IHb, Ext_addblk, Ext_setjt, Ext_emits,
          Ext_addblk, Ext_setjt, Ext_emits, Ext_bump, Ext_chk in H.
    exact H.
  - intros lp st H. exact H.
  - intros x IHx r IHr lp st H. cbn [cg_stmts] in H.
    destruct (is_jump x); [apply IHx in H; exact H|apply IHr, IHx in H; exact H].
Qed.

Definition Ext_cg_stmt := proj1 Ext_cg.
Definition Ext_cg_stmts := proj2 Ext_cg.

(* ---------- positions ---------- *)
Definition at_ (st : bst) (s : state) : conf := (b_idx (cur st), length (b_ins (cur st)), s).

Lemma nth_emit i st : Ext (emit i st) ->
  exists bG, findb G (b_idx (cur st)) = Some bG /\ nth_error (b_ins bG) (length (b_ins (cur st))) = Some i.
Proof.
  intros [_ [bG [H2 [r H3]]]]. exists bG. split; [exact H2|]. cbn in H3. rewrite H3.
  rewrite <- app_assoc. rewrite nth_error_app2 by lia. rewrite Nat.sub_diag. reflexivity.
Qed.

Lemma at_emit i st s : at_ (emit i st) s = (b_idx (cur st), S (length (b_ins (cur st))), s).
Proof. unfold at_. cbn. rewrite app_length. cbn. rewrite Nat.add_1_r. reflexivity. Qed.

Lemma step_emit_act a st s s' : Ext (emit (IAct a) st) -> act a s = Some s' ->
  step (at_ st s) (at_ (emit (IAct a) st) s').
Proof.
  intros HE Ha. destruct (nth_emit _ _ HE) as [bG [Hf Hn]]. rewrite at_emit.
  eapply st_act; eauto.
Qed.

Lemma step_emit_pass a st s : Ext (emit (IPass a) st) -> step (at_ st s) (at_ (emit (IPass a) st) s).
Proof.
  intros HE. destruct (nth_emit _ _ HE) as [bG [Hf Hn]]. rewrite at_emit. eapply st_nop; eauto.
Qed.

Lemma step_emit_brk a st s : Ext (emit (IBrk a) st) -> step (at_ st s) (at_ (emit (IBrk a) st) s).
Proof.
  intros HE. destruct (nth_emit _ _ HE) as [bG [Hf Hn]]. rewrite at_emit. eapply st_nop; eauto.
Qed.

Lemma step_emit_cnt a st s : Ext (emit (ICnt a) st) -> step (at_ st s) (at_ (emit (ICnt a) st) s).
Proof.
  intros HE. destruct (nth_emit _ _ HE) as [bG [Hf Hn]]. rewrite at_emit. eapply st_nop; eauto.
Qed.

Lemma done_exact i st : Ext (addblk i st) -> findb G (b_idx (cur st)) = Some (cur st).
Proof. intros [H1 _]. apply H1. left. reflexivity. Qed.

Lemma step_test c t1 t2 j st s bv s' :
  Ext (addblk j (setjt [t1; t2] (emit (ITest c) st))) -> test c s = Some (bv, s') ->
  step (at_ st s) ((if bv then t1 else t2), O, s').
Proof.
  intros HE Ht. pose proof (done_exact _ _ HE) as Hf. cbn in Hf.
  eapply st_test; [exact Hf| | |exact Ht|reflexivity]; cbn.
  - rewrite nth_error_app2 by lia. rewrite Nat.sub_diag. reflexivity.
  - rewrite app_length. cbn. lia.
Qed.

Lemma halt_test c t1 t2 j st s :
  Ext (addblk j (setjt [t1; t2] (emit (ITest c) st))) -> test c s = None ->
  halts (at_ st s) (ORaise c).
Proof.
  intros HE Ht. pose proof (done_exact _ _ HE) as Hf. cbn in Hf.
  eapply h_test_raise; [exact Hf| | |exact Ht]; cbn.
  - rewrite nth_error_app2 by lia. rewrite Nat.sub_diag. reflexivity.
  - rewrite app_length. cbn. lia.
Qed.

Lemma step_goto t j st s : Ext (addblk j (setjt [t] st)) -> step (at_ st s) (t, O, s).
Proof.
  intros HE. pose proof (done_exact _ _ HE) as Hf. cbn in Hf.
  eapply st_goto; [exact Hf| |]; reflexivity.
Qed.

(* ---------- sealing ---------- *)
Definition nojump (b : blk) : Prop :=
  match last_instr b with
  | Some (IBrk _) | Some (ICnt _) | Some (IRet _) => False
  | _ => True
  end.

Lemma seal_normal lp d j st s : nojump (cur st) -> Ext (addblk j (seal lp d st)) -> step (at_ st s) (d, O, s).
Proof.
  unfold nojump, seal. intros Hn HE.
  destruct lp as [[h e]|]; destruct (last_instr (cur st)) as [[a|a|a|a|a|c]|]; try contradiction;
    eapply step_goto; exact HE.
Qed.

Lemma seal_brk h e d j st s a : last_instr (cur st) = Some (IBrk a) ->
  Ext (addblk j (seal (Some (h, e)) d st)) -> step (at_ st s) (e, O, s).
Proof. unfold seal. intros Hl HE. rewrite Hl in HE. eapply step_goto; exact HE. Qed.

Lemma seal_cnt h e d j st s a : last_instr (cur st) = Some (ICnt a) ->
  Ext (addblk j (seal (Some (h, e)) d st)) -> step (at_ st s) (h, O, s).
Proof. unfold seal. intros Hl HE. rewrite Hl in HE. eapply step_goto; exact HE. Qed.

Lemma last_instr_emit i st : last_instr (cur (emit i st)) = Some i.
Proof.
  unfold last_instr. cbn. rewrite map_app. cbn.
  induction (map Some (b_ins (cur st))) as [|x l IH]; [reflexivity|].
  cbn. destruct (l ++ [Some i]) eqn:E; [destruct l; discriminate|]. exact IH.
Qed.

Lemma nojump_empty i st : nojump (cur (addblk i st)).
Proof. unfold nojump. cbn. exact I. Qed.

(* ---------- what a suite's code does, before and after it is sealed ---------- *)
Definition post (lp : option (Z * Z)) (c0 : conf) (stF : bst) (o : outcome) : Prop :=
  match o with
  | ONormal s' => steps c0 (at_ stF s') /\ nojump (cur stF)
  | OBreak s' =>
    match lp with
    | None => True
    | Some (h, e) => (steps c0 (at_ stF s') /\ exists a, last_instr (cur stF) = Some (IBrk a)) \/
                     steps c0 (e, O, s')
    end
  | OCont s' =>
    match lp with
    | None => True
    | Some (h, e) => (steps c0 (at_ stF s') /\ exists a, last_instr (cur stF) = Some (ICnt a)) \/
                     steps c0 (h, O, s')
    end
  | ORet a s' => halts c0 (ORet a s')
  | ORaise a => halts c0 (ORaise a)
  | OFuel | OStuck => True
  end.

Definition spost (lp : option (Z * Z)) (c0 : conf) (d : Z) (o : outcome) : Prop :=
  match o with
  | ONormal s' => steps c0 (d, O, s')
  | OBreak s' => match lp with None => True | Some (h, e) => steps c0 (e, O, s') end
  | OCont s' => match lp with None => True | Some (h, e) => steps c0 (h, O, s') end
  | ORet a s' => halts c0 (ORet a s')
  | ORaise a => halts c0 (ORaise a)
  | OFuel | OStuck => True
  end.

Lemma post_prepend lp c0 c1 stF o : steps c0 c1 -> post lp c1 stF o -> post lp c0 stF o.
Proof.
  intros Hs. destruct o as [s'|s'|s'|a s'|a| |]; cbn; try tauto.
  - intros [H1 H2]. split; [eapply steps_trans; eauto|exact H2].
  - destruct lp as [[h e]|]; [|tauto]. intros [[H1 H2]|H1]; [left; split; [eapply steps_trans; eauto|exact H2]|
                                                              right; eapply steps_trans; eauto].
  - destruct lp as [[h e]|]; [|tauto]. intros [[H1 H2]|H1]; [left; split; [eapply steps_trans; eauto|exact H2]|
                                                              right; eapply steps_trans; eauto].
  - intros H. eapply steps_halts; eauto.
  - intros H. eapply steps_halts; eauto.
Qed.

Lemma spost_prepend lp c0 c1 d o : steps c0 c1 -> spost lp c1 d o -> spost lp c0 d o.
Proof.
  intros Hs. destruct o as [s'|s'|s'|a s'|a| |]; cbn; try tauto.
  - intros H. eapply steps_trans; eauto.
  - destruct lp as [[h e]|]; [|tauto]. intros H. eapply steps_trans; eauto.
  - destruct lp as [[h e]|]; [|tauto]. intros H. eapply steps_trans; eauto.
  - intros H. eapply steps_halts; eauto.
  - intros H. eapply steps_halts; eauto.
Qed.

Lemma post_seal lp c0 d j stB o : post lp c0 stB o -> Ext (addblk j (seal lp d stB)) -> spost lp c0 d o.
Proof.
  intros Hp HE. destruct o as [s'|s'|s'|a s'|a| |]; cbn in *; try tauto.
  - destruct Hp as [H1 H2]. eapply steps_trans; [exact H1|]. apply steps_one. eapply seal_normal; eauto.
  - destruct lp as [[h e]|]; [|tauto]. destruct Hp as [[H1 [a H2]]|H1]; [|exact H1].
    eapply steps_trans; [exact H1|]. apply steps_one. eapply seal_brk; eauto.
  - destruct lp as [[h e]|]; [|tauto]. destruct Hp as [[H1 [a H2]]|H1]; [|exact H1].
    eapply steps_trans; [exact H1|]. apply steps_one. eapply seal_cnt; eauto.
Qed.

(* an abrupt outcome of a sealed suite is an outcome of whatever follows *)
Lemma spost_abrupt lp c0 d o stF :
  spost lp c0 d o -> (forall s', o <> ONormal s') -> post lp c0 stF o.
Proof.
  destruct o as [s'|s'|s'|a s'|a| |]; cbn; intros H Hn; try tauto.
  - exfalso. eapply Hn. reflexivity.
  - destruct lp as [[h e]|]; [right; exact H|exact I].
  - destruct lp as [[h e]|]; [right; exact H|exact I].
Qed.

(* runs of plain statements emitted into the open block *)
Lemma emits_app l i st : emits (l ++ [i]) st = emit i (emits l st).
Proof. unfold emits. rewrite fold_left_app. reflexivity. Qed.

Lemma steps_emits_acts l : forall st s s',
  Ext (emits (map IAct l) st) -> acts l s = inl s' -> steps (at_ st s) (at_ (emits (map IAct l) st) s').
Proof.
  induction l as [|a l IH]; intros st s s' HE Ha; cbn in *.
  - injection Ha as <-. constructor.
  - destruct (act a s) as [s1|] eqn:E; [|discriminate].
    econstructor; [eapply step_emit_act; [eapply Ext_emits; exact HE|exact E]|].
    apply IH; assumption.
Qed.

Lemma halts_emits_acts l : forall st s a,
  Ext (emits (map IAct l) st) -> acts l s = inr a -> halts (at_ st s) (ORaise a).
Proof.
  induction l as [|a0 l IH]; intros st s a HE Ha; cbn in *; [discriminate|].
  destruct (act a0 s) as [s1|] eqn:E.
  - eapply h_step; [eapply step_emit_act; [eapply Ext_emits; exact HE|exact E]|].
    eapply IH; eauto.
  - injection Ha as <-. apply Ext_emits in HE. destruct (nth_emit _ _ HE) as [bG [Hf Hn]].
    eapply h_act_raise; eauto.
Qed.

Lemma nojump_emits_acts l st : nojump (cur st) -> nojump (cur (emits (map IAct l) st)).
Proof.
  revert st. induction l as [|a l IH]; intros st H; [exact H|]. cbn. apply IH.
  unfold nojump. rewrite last_instr_emit. exact I.
Qed.

(* ---------- unfolding equations of the source semantics ---------- *)
Lemma exec_cons f x r s :
  exec (S f) (SCons x r) s =
  match x with
  | SAct a => match act a s with Some s' => exec f r s' | None => ORaise a end
  | SPass _ => exec f r s
  | SRet a => match act a s with Some s' => ORet a s' | None => ORaise a end
  | SBreak _ => OBreak s
  | SContinue _ => OCont s
  | SIf c t e =>
    match test c s with
    | None => ORaise c
    | Some (b, s') => match exec f (if b then t else e) s' with ONormal s'' => exec f r s'' | o => o end
    end
  | SWhile c body orelse =>
    match loop f [] c body [] orelse s with ONormal s' => exec f r s' | o => o end
  | SFor h tgt itr body orelse =>
    let g slot := gslot slot h tgt itr in
    match acts [g 0; g 1] s with
    | inr a => ORaise a
    | inl s0 => match loop f [g 2; g 3] (g 4) body [g 5] orelse s0 with ONormal s' => exec f r s' | o => o end
    end
  end.
Proof. reflexivity. Qed.

Lemma loop_S f hdr c body epre orelse s :
  loop (S f) hdr c body epre orelse s =
  match acts hdr s with
  | inr a => ORaise a
  | inl s1 =>
    match test c s1 with
    | None => ORaise c
    | Some (true, s2) =>
      match exec f body s2 with
      | ONormal s3 | OCont s3 => loop f hdr c body epre orelse s3
      | OBreak s3 => ONormal s3
      | o => o
      end
    | Some (false, s2) =>
      match acts epre s2 with inr a => ORaise a | inl s3 => exec f orelse s3 end
    end
  end.
Proof. reflexivity. Qed.

(* ---------- the simulation, by induction on the fuel of the source semantics ---------- *)
Definition P_exec (fuel : nat) : Prop :=
  forall l lp st s, nojump (cur st) -> Ext (cg_stmts l lp st) ->
    post lp (at_ st s) (cg_stmts l lp st) (exec fuel l s).

Definition P_loop (fuel : nat) : Prop :=
  forall hdr c body epre orelse lp n bi ei xi st1 s,
    cur st1 = mkB n [] [] ->
    Ext (addblk xi (seal lp xi (cg_stmts orelse lp
          (emits (map IAct epre) (addblk ei (seal (Some (n, xi)) n (cg_stmts body (Some (n, xi))
             (addblk bi (setjt [bi; ei] (emit (ITest c) (emits (map IAct hdr) st1))))))))))) ->
    spost lp (n, O, s) xi (loop fuel hdr c body epre orelse s).

Lemma loop_step f : P_exec f -> P_loop f -> P_loop (S f).
Proof.
  intros IHe IHl. unfold P_loop. intros hdr c body epre orelse lp n bi ei xi st1 s Hc HE.
  rewrite loop_S.
  set (stH := emits (map IAct hdr) st1) in *.
  set (st2 := addblk bi (setjt [bi; ei] (emit (ITest c) stH))) in *.
  set (stB := cg_stmts body (Some (n, xi)) st2) in *.
  set (st3 := seal (Some (n, xi)) n stB) in *.
  set (st4 := emits (map IAct epre) (addblk ei st3)) in *.
  set (stO := cg_stmts orelse lp st4) in *.
  assert (EO : Ext stO) by (eapply Ext_seal, Ext_addblk; exact HE).
  assert (E4 : Ext st4) by (eapply Ext_cg_stmts; exact EO).
  assert (E3a : Ext (addblk ei st3)) by (eapply Ext_emits; exact E4).
  assert (EB : Ext stB) by (eapply Ext_seal, Ext_addblk; exact E3a).
  assert (E2 : Ext st2) by (eapply Ext_cg_stmts; exact EB).
  assert (EH : Ext stH) by (eapply Ext_emit, Ext_setjt, Ext_addblk; exact E2).
  assert (Hat : forall s0, (n, O, s0) = at_ st1 s0) by (intros s0; unfold at_; rewrite Hc; reflexivity).
  rewrite Hat.
  destruct (acts hdr s) as [s1|a] eqn:Ea.
  2:{ cbn. eapply halts_emits_acts; eauto. }
  pose proof (steps_emits_acts hdr st1 s s1 EH Ea) as S1. fold stH in S1.
  destruct (test c s1) as [[b s2]|] eqn:Et.
  2:{ cbn. eapply steps_halts; [exact S1|]. eapply halt_test; [exact E2|exact Et]. }
  pose proof (step_test c bi ei bi stH s1 b s2 E2 Et) as S2.
  destruct b.
  - (* the body *)
    assert (S12 : steps (at_ st1 s) (at_ st2 s2)).
    { eapply steps_trans; [exact S1|]. apply steps_one. exact S2. }
    pose proof (IHe body (Some (n, xi)) st2 s2 (nojump_empty bi _) EB) as Pb. fold stB in Pb.
    pose proof (post_seal _ _ n ei stB _ Pb E3a) as Sb.
    destruct (exec f body s2) as [s3|s3|s3|a s3|a| |] eqn:Eb; cbn in Sb.
    + eapply spost_prepend; [eapply steps_trans; [exact S12|exact Sb]|].
      apply (IHl hdr c body epre orelse lp n bi ei xi st1 s3 Hc HE).
    + cbn. eapply steps_trans; [exact S12|exact Sb].
    + eapply spost_prepend; [eapply steps_trans; [exact S12|exact Sb]|].
      apply (IHl hdr c body epre orelse lp n bi ei xi st1 s3 Hc HE).
    + cbn. eapply steps_halts; [exact S12|exact Sb].
    + cbn. eapply steps_halts; [exact S12|exact Sb].
    + exact I.
    + exact I.
  - (* the else clause *)
    assert (S12 : steps (at_ st1 s) (at_ (addblk ei st3) s2)).
    { eapply steps_trans; [exact S1|]. apply steps_one. exact S2. }
    destruct (acts epre s2) as [s3|a] eqn:Ee.
    2:{ cbn. eapply steps_halts; [exact S12|]. eapply halts_emits_acts; eauto. }
    pose proof (steps_emits_acts epre (addblk ei st3) s2 s3 E4 Ee) as S3. fold st4 in S3.
    pose proof (IHe orelse lp st4 s3 (nojump_emits_acts epre _ (nojump_empty ei st3)) EO) as Po. fold stO in Po.
    pose proof (post_seal _ _ xi xi stO _ Po HE) as So.
    eapply spost_prepend; [eapply steps_trans; [exact S12|exact S3]|exact So].
Qed.

Lemma at_bump k st s : at_ (bump k st) s = at_ st s.
Proof. reflexivity. Qed.
Lemma at_chk b st s : at_ (chk b st) s = at_ st s.
Proof. reflexivity. Qed.

(* continuing with the rest of a suite after a compound statement *)
Lemma after_compound f lp c0 d (st' : bst) r o :
  P_exec f -> (forall s', (d, O, s') = at_ st' s') -> nojump (cur st') -> Ext (cg_stmts r lp st') ->
  spost lp c0 d o ->
  post lp c0 (cg_stmts r lp st')
       (match o with
        | ONormal s'' => exec f r s''
        | OBreak s0 => OBreak s0 | OCont s0 => OCont s0 | ORet a s0 => ORet a s0
        | ORaise a => ORaise a | OFuel => OFuel | OStuck => OStuck
        end).
Proof.
  intros IHe Hat Hn HE Hs.
  destruct o as [s'|s'|s'|a s'|a| |] eqn:Eo.
  - cbn in Hs. eapply post_prepend; [exact Hs|]. rewrite Hat. apply IHe; assumption.
  - eapply spost_abrupt; [exact Hs|intros; discriminate].
  - eapply spost_abrupt; [exact Hs|intros; discriminate].
  - eapply spost_abrupt; [exact Hs|intros; discriminate].
  - eapply spost_abrupt; [exact Hs|intros; discriminate].
  - exact I.
  - exact I.
Qed.

Lemma exec_step f : P_exec f -> P_loop f -> P_exec (S f).
Proof.
  intros IHe IHl. unfold P_exec. intros l lp st s Hnj HE.
  destruct l as [|x r].
  - cbn. split; [constructor|exact Hnj].
  - rewrite exec_cons. destruct x as [a|a|a|a|a|c t e|c body orelse|h tg it body orelse];
      cbn [cg_stmts cg_stmt is_jump] in *.
    + (* SAct *)
      assert (E1 : Ext (emit (IAct a) st)) by (eapply Ext_cg_stmts; exact HE).
      destruct (act a s) as [s1|] eqn:Ea.
      * eapply post_prepend; [apply steps_one; eapply step_emit_act; eauto|].
        apply IHe; [unfold nojump; rewrite last_instr_emit; exact I|exact HE].
      * cbn. destruct (nth_emit _ _ E1) as [bG [Hf Hn]]. eapply h_act_raise; eauto.
    + (* SPass *)
      assert (E1 : Ext (emit (IPass a) st)) by (eapply Ext_cg_stmts; exact HE).
      eapply post_prepend; [apply steps_one; eapply step_emit_pass; eauto|].
      apply IHe; [unfold nojump; rewrite last_instr_emit; exact I|exact HE].
    + (* SRet *)
      destruct (nth_emit _ _ HE) as [bG [Hf Hn]].
      destruct (act a s) as [s1|] eqn:Ea; cbn; [eapply h_ret; eauto|eapply h_ret_raise; eauto].
    + (* SBreak *)
      cbn. destruct lp as [[h e]|]; [|exact I]. left. split.
      * apply steps_one. apply step_emit_brk. exact HE.
      * exists a. apply last_instr_emit.
    + (* SContinue *)
      cbn. destruct lp as [[h e]|]; [|exact I]. left. split.
      * apply steps_one. apply step_emit_cnt. exact HE.
      * exists a. apply last_instr_emit.
    + (* SIf *)
      set (n := next st) in *.
      set (stT0 := addblk n (setjt [n; n + 1] (emit (ITest c) (bump 3 st)))) in *.
      set (stT := cg_stmts t lp stT0) in *.
      set (st3 := addblk (n + 1) (seal lp (n + 2) stT)) in *.
      set (stE := cg_stmts e lp st3) in *.
      set (st' := addblk (n + 2) (seal lp (n + 2) stE)) in *.
      assert (E' : Ext st') by (eapply Ext_cg_stmts; exact HE).
      assert (EE : Ext stE) by (eapply Ext_seal, Ext_addblk; exact E').
      assert (E3 : Ext st3) by (eapply Ext_cg_stmts; exact EE).
      assert (ET : Ext stT) by (eapply Ext_seal, Ext_addblk; exact E3).
      assert (ET0 : Ext stT0) by (eapply Ext_cg_stmts; exact ET).
      destruct (test c s) as [[b s1]|] eqn:Et.
      2:{ cbn. rewrite <- (at_bump 3). eapply halt_test; [exact ET0|exact Et]. }
      pose proof (step_test c n (n + 1) n (bump 3 st) s b s1 ET0 Et) as S1. rewrite at_bump in S1.
      destruct b.
      * pose proof (IHe t lp stT0 s1 (nojump_empty n _) ET) as Pt. fold stT in Pt.
        pose proof (post_seal _ _ (n + 2) (n + 1) stT _ Pt E3) as St.
        apply (after_compound f lp (at_ st s) (n + 2) st' r (exec f t s1) IHe);
          [intros; reflexivity|apply nojump_empty|exact HE|].
        eapply spost_prepend; [apply steps_one; exact S1|exact St].
      * pose proof (IHe e lp st3 s1 (nojump_empty (n + 1) _) EE) as Pe. fold stE in Pe.
        pose proof (post_seal _ _ (n + 2) (n + 2) stE _ Pe E') as Se.
        apply (after_compound f lp (at_ st s) (n + 2) st' r (exec f e s1) IHe);
          [intros; reflexivity|apply nojump_empty|exact HE|].
        eapply spost_prepend; [apply steps_one; exact S1|exact Se].
    + (* SWhile *)
      set (n := next st) in *.
      set (st1 := addblk n (setjt [n] (bump 4 st))) in *.
      match type of HE with Ext (cg_stmts r lp ?X) => set (st' := X) in * end.
      assert (E' : Ext st') by (eapply Ext_cg_stmts; exact HE).
      assert (E1 : Ext st1).
      { unfold st' in E'.
        apply Ext_addblk, Ext_seal, Ext_cg_stmts, Ext_addblk, Ext_seal, Ext_cg_stmts, Ext_addblk, Ext_setjt, Ext_emit in E'.
        exact E'. }
      pose proof (step_goto n n (bump 4 st) s E1) as S1. rewrite at_bump in S1.
      pose proof (IHl [] c body [] orelse lp n (n + 1) (n + 3) (n + 2) st1 s eq_refl E') as Sl.
      apply (after_compound f lp (at_ st s) (n + 2) st' r _ IHe);
        [intros; reflexivity|apply nojump_empty|exact HE|].
      eapply spost_prepend; [apply steps_one; exact S1|exact Sl].
    + (* SFor *)
      set (n := next st) in *.
      set (st0 := emits [IAct (gslot 0 h tg it); IAct (gslot 1 h tg it)] (bump 4 (chk (Z.eqb h n) st))) in *.
      set (st1 := addblk n (setjt [n] st0)) in *.
      match type of HE with Ext (cg_stmts r lp ?X) => set (st' := X) in * end.
      assert (E' : Ext st') by (eapply Ext_cg_stmts; exact HE).
      assert (E1 : Ext st1).
      { unfold st' in E'.
        apply Ext_addblk, Ext_seal, Ext_cg_stmts, Ext_emit, Ext_addblk, Ext_seal, Ext_cg_stmts, Ext_addblk,
              Ext_setjt, Ext_emits in E'.
        exact E'. }
      assert (E0 : Ext st0) by (eapply Ext_setjt, Ext_addblk; exact E1).
      cbv beta zeta.
      destruct (acts [gslot 0 h tg it; gslot 1 h tg it] s) as [s0|a] eqn:Ea.
      2:{ change (halts (at_ (bump 4 (chk (Z.eqb h n) st)) s) (ORaise a)).
          eapply (halts_emits_acts [gslot 0 h tg it; gslot 1 h tg it]); [exact E0|exact Ea]. }
      pose proof (steps_emits_acts [gslot 0 h tg it; gslot 1 h tg it] (bump 4 (chk (Z.eqb h n) st)) s s0 E0 Ea) as S0.
      rewrite at_bump, at_chk in S0.
      pose proof (step_goto n n st0 s0 E1) as S1.
      pose proof (IHl [gslot 2 h tg it; gslot 3 h tg it] (gslot 4 h tg it) body [gslot 5 h tg it] orelse lp
                      n (n + 1) (n + 2) (n + 3) st1 s0 eq_refl E') as Sl.
      apply (after_compound f lp (at_ st s) (n + 3) st' r _ IHe);
        [intros; reflexivity|apply nojump_empty|exact HE|].
      eapply spost_prepend; [eapply steps_trans; [exact S0|apply steps_one; exact S1]|exact Sl].
Qed.

Theorem simulation : forall fuel, P_exec fuel /\ P_loop fuel.
Proof.
  induction fuel as [|f [IHe IHl]].
  - split.
    + unfold P_exec. intros. exact I.
    + unfold P_loop. intros. exact I.
  - split; [apply exec_step; assumption|apply loop_step; assumption].
Qed.

(* ---------- the finished graph extends the final builder state ---------- *)
Lemma findb_NoDup : NoDup (map b_idx G) -> forall b, In b G -> findb G (b_idx b) = Some b.
Proof.
  unfold findb. induction G as [|x l IH]; intros Hnd b Hin; [destruct Hin|].
  cbn in Hnd. inversion Hnd as [|? ? Hnot Hnd']; subst. cbn.
  destruct Hin as [->|Hin]; [rewrite Z.eqb_refl; reflexivity|].
  destruct (Z.eqb (b_idx x) (b_idx b)) eqn:E.
  - apply Z.eqb_eq in E. exfalso. apply Hnot. rewrite E. apply in_map. exact Hin.
  - apply IH; assumption.
Qed.

Lemma Ext_final st : G = blocks_of st -> NoDup (map b_idx G) -> Ext st.
Proof.
  intros HG Hnd. split.
  - intros b Hb. apply findb_NoDup; [exact Hnd|]. rewrite HG. unfold blocks_of. apply in_rev.
    rewrite rev_involutive. right. exact Hb.
  - exists (cur st). split.
    + apply findb_NoDup; [exact Hnd|]. rewrite HG. unfold blocks_of. apply in_rev.
      rewrite rev_involutive. left. reflexivity.
    + exists []. rewrite app_nil_r. reflexivity.
Qed.

Theorem graph_simulates_source body fuel s :
  G = build body -> NoDup (map b_idx G) ->
  match exec fuel body s with
  | ORet a s' => halts (0, O, s) (ORet a s')
  | ORaise a => halts (0, O, s) (ORaise a)
  | _ => True
  end.
Proof.
  intros HG Hnd. destruct (simulation fuel) as [He _].
  pose proof (He body None st_init s I (Ext_final _ HG Hnd)) as Hp.
  destruct (exec fuel body s); try exact I; exact Hp.
Qed.

(* ---------- from the small-step reading to the executable interpreter ---------- *)
Definition cont (fuel : nat) (b : blk) (r : rres state) : outcome :=
  match r with
  | RHalt _ o => o
  | RGo _ s' lastb =>
    match b_jt b, lastb with
    | [t], _ => run state act test G fuel t s'
    | [t1; t2], Some true => run state act test G fuel t1 s'
    | [t1; t2], Some false => run state act test G fuel t2 s'
    | _, _ => OStuck
    end
  end.

Lemma run_S fuel pc s b : findb G pc = Some b ->
  run state act test G (S fuel) pc s = cont fuel b (run_ins state act test (b_ins b) s).
Proof. intros H. cbn [run]. rewrite H. unfold cont. destruct (run_ins _ _ _ _ _); reflexivity. Qed.

Lemma skipn_nth {A} (l : list A) : forall k x, nth_error l k = Some x -> skipn k l = x :: skipn (S k) l.
Proof.
  induction l as [|y l IH]; intros [|k] x H; cbn in *; try discriminate.
  - injection H as ->. reflexivity.
  - apply IH. exact H.
Qed.

Lemma skipn_last {A} (l : list A) k x : nth_error l k = Some x -> S k = length l -> skipn k l = [x].
Proof.
  intros H1 H2. rewrite (skipn_nth _ _ _ H1). rewrite skipn_all2 by lia. reflexivity.
Qed.

Lemma halts_run c o : halts c o ->
  exists fuel b, findb G (fst (fst c)) = Some b /\
    cont fuel b (run_ins state act test (skipn (snd (fst c)) (b_ins b)) (snd c)) = o.
Proof.
  induction 1 as [pc k s b a s' Hf Hn Ha|pc k s b a Hf Hn Ha|pc k s b a Hf Hn Ha|pc k s b c Hf Hn Hl Ht|
                  c1 c2 o Hs Hh [fuel [b2 [Hf2 Hr2]]]]; cbn [fst snd].
  - exists O, b. split; [exact Hf|]. rewrite (skipn_nth _ _ _ Hn). cbn. rewrite Ha. reflexivity.
  - exists O, b. split; [exact Hf|]. rewrite (skipn_nth _ _ _ Hn). cbn. rewrite Ha. reflexivity.
  - exists O, b. split; [exact Hf|]. rewrite (skipn_nth _ _ _ Hn). cbn. rewrite Ha. reflexivity.
  - exists O, b. split; [exact Hf|]. rewrite (skipn_last _ _ _ Hn Hl). cbn. rewrite Ht. reflexivity.
  - destruct Hs as [pc k s b a s' Hf Hn Ha|pc k s b a Hf Hn|pc k s b c bv s' t1 t2 Hf Hn Hl Ht Hj|pc k s b t Hf Hk Hj];
      cbn [fst snd] in *.
    + exists fuel, b2. split; [exact Hf2|]. rewrite Hf in Hf2. injection Hf2 as <-.
      rewrite (skipn_nth _ _ _ Hn); cbn [run_ins]; rewrite Ha; exact Hr2.
    + exists fuel, b2. split; [exact Hf2|]. rewrite Hf in Hf2. injection Hf2 as <-.
      destruct Hn as [Hn|[Hn|Hn]]; rewrite (skipn_nth _ _ _ Hn); cbn [run_ins]; exact Hr2.
    + exists (S fuel), b. split; [exact Hf|]. rewrite (skipn_last _ _ _ Hn Hl). cbn [run_ins]. rewrite Ht.
      unfold cont at 1. rewrite Hj.
      destruct bv; rewrite (run_S _ _ _ _ Hf2); exact Hr2.
    + exists (S fuel), b. split; [exact Hf|]. subst k. rewrite skipn_all. cbn [run_ins].
      unfold cont at 1. rewrite Hj. rewrite (run_S _ _ _ _ Hf2). exact Hr2.
Qed.

End Proof.

(* ---------- the statement for a whole function body ---------- *)
Theorem front_end_correct :
  forall (state : Type) (act : Z -> state -> option state) (test : Z -> state -> option (bool * state))
         (body : stmts) (fuel : nat) (s : state) (o : outcome state),
    NoDup (map b_idx (build body)) ->
    exec state act test fuel body s = o ->
    (exists a s', o = ORet a s') \/ (exists a, o = ORaise a) ->
    exists fuel', run state act test (build body) fuel' 0 s = o.
Proof.
  intros state act test body fuel s o Hnd He Ho.
  pose proof (graph_simulates_source state act test (build body) body fuel s eq_refl Hnd) as H.
  rewrite He in H.
  assert (Hh : halts state act test (build body) (0, O, s) o).
  { destruct Ho as [[a [s' ->]]|[a ->]]; exact H. }
  destruct (halts_run _ _ _ _ _ _ Hh) as [fuel' [b [Hf Hr]]]. cbn [fst snd] in *.
  exists (S fuel'). rewrite (run_S _ _ _ _ _ _ _ _ Hf). exact Hr.
Qed.

(* OpCheck.v — the finite obligations on the translated opcode tables. *)
From Coq Require Import String List ZArith Bool.
Import ListNotations.
Local Open Scope Z_scope.

Definition smem (x : string) (l : list string) : bool := existsb (String.eqb x) l.

(* the order of the if/elif chain in FlowInfo.from_bytecode: conditional, unconditional, exiting *)
Definition lib_class (cond uncond term : list string) (n : string) : Z :=
  if smem n cond then 1 else if smem n uncond then 2 else if smem n term then 3 else 0.

(* op = (name, interpreter's class, inline cache entries, in the domain of C09) *)
Definition op_agrees (cond uncond term : list string) (op : string * Z * Z * bool) : bool :=
  let '(n, cls, _, dom) := op in negb dom || Z.eqb (lib_class cond uncond term n) cls.

Definition tables_agree (cond uncond term : list string) (ops : list (string * Z * Z * bool)) : bool :=
  forallb (op_agrees cond uncond term) ops.

(* jumps that do not fall through and returns carry no inline cache: the block
   cutter finds them at end - 2 *)
Definition cachefree (ops : list (string * Z * Z * bool)) : bool :=
  forallb (fun op => let '(_, cls, caches, dom) := op in
                     negb dom || negb (Z.eqb cls 2 || Z.eqb cls 3) || Z.eqb caches 0) ops.

(* at least the opcodes every function needs are there (guards against an empty table passing vacuously) *)
Definition nonvacuous (ops : list (string * Z * Z * bool)) : bool :=
  existsb (fun op => let '(_, cls, _, dom) := op in dom && Z.eqb cls 1) ops &&
  existsb (fun op => let '(_, cls, _, dom) := op in dom && Z.eqb cls 2) ops &&
  existsb (fun op => let '(_, cls, _, dom) := op in dom && Z.eqb cls 3) ops.

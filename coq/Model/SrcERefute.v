(* SrcERefute.v — the statement "interpreting the graph equals running the function"
   is FALSE of the faithful model on two shapes; each is refuted by a witness evaluated
   in the kernel.  The witnesses, replayed on the implementation, are the known findings
   K2 and K-expr (harness: streams K2 and K4 of the source-pipeline run). *)
From Coq Require Import List ZArith Bool.
Import ListNotations.
From V Require Import Model.SrcE.
Local Open Scope Z_scope.

(* a state that records which leaves were evaluated, most recent first; a leaf's value is its identity *)
Definition tstate := list Z.
Definition t_aval (a : Z) (s : tstate) : option (Z * tstate) := Some (a, a :: s).
Definition t_opf (c : Z) (vs : list Z) (s : tstate) : option (Z * tstate) := Some (fold_left Z.add vs 0, s).
Definition t_act (a : Z) (v : option Z) (s : tstate) : option tstate := Some s.
Definition t_foract (slot h tgt : Z) (v : option Z) (s : tstate) : option tstate := Some s.
Definition t_fortest (tgt : Z) (s : tstate) : option (bool * tstate) := Some (false, s).

Notation texec := (exec tstate t_aval t_opf t_act t_foract t_fortest).
Notation trun := (run tstate t_aval t_opf t_act t_foract t_fortest).

(* K-expr:   return x1 + (x2 or x3)   — Python evaluates x1 first; the graph evaluates x2 first *)
Definition prog_kexpr : stmts :=
  SCons (SRet 9 (Some (EOp 7 [EAtom 1; EBool true [EAtom 2; EAtom 3]]))) SNil.

Theorem expr_order_refuted :
  exists s1 s2, texec 10 prog_kexpr [] = ORet 9 s1 /\ trun (build prog_kexpr) 10 0 [] [] = ORet 9 s2 /\ s1 <> s2.
Proof.
  exists [2; 1], [1; 2]. split; [vm_compute; reflexivity|]. split; [vm_compute; reflexivity|]. discriminate.
Qed.

(* K2:   return x1 or (x2 and x3)   — Python stops after x1; the graph has already evaluated x2 and x3 *)
Definition prog_k2 : stmts :=
  SCons (SRet 9 (Some (EBool true [EAtom 1; EBool false [EAtom 2; EAtom 3]]))) SNil.

Theorem nested_boolop_refuted :
  exists s1 s2, texec 10 prog_k2 [] = ORet 9 s1 /\ trun (build prog_k2) 10 0 [] [] = ORet 9 s2 /\ s1 <> s2.
Proof.
  exists [1], [1; 3; 2]. split; [vm_compute; reflexivity|]. split; [vm_compute; reflexivity|]. discriminate.
Qed.

(* where the transformer is right: a flat chain in a test, and an and/or as the FIRST operand *)
Definition prog_good : stmts :=
  SCons (SIf (EBool true [EAtom 1; EAtom 2; EAtom 3])
             (SCons (SRet 9 (Some (EOp 7 [EBool false [EAtom 4; EAtom 5]; EAtom 6]))) SNil)
             SNil)
        (SCons (SRet 8 None) SNil).

Example good_shapes_agree :
  texec 10 prog_good [] = trun (build prog_good) 10 0 [] [] /\ texec 10 prog_good [] = ORet 9 [6; 5; 4; 1].
Proof. vm_compute. split; reflexivity. Qed.

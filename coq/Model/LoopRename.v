(* LoopRename.v — the loop rotation commutes with a renaming of targets.
   rho renames successors (in the application: a region name becomes the block it
   resolves to).  If rho is injective on the names that matter and fixes the
   headers, the new blocks and the fresh names, then rotating the renamed graph
   gives the renaming of the rotated graph - on the processed blocks and the
   blocks the rotation adds; every other block is left alone by both runs.
   Processed blocks carry no value table (the pipeline only rotates original blocks). *)
From Coq Require Import List ZArith Bool Lia.
Import ListNotations.
From V Require Import Valid.Hier Model.Graph Model.Edits Model.Edits2 Model.Edits3 Model.LoopEdit Model.LoopSpec Model.Total.
Local Open Scope Z_scope.

Section Rename.
Variable rho : name -> name.

Definition map_snd (tbl : list (Z * name)) : list (Z * name) := map (fun p => (fst p, rho (snd p))) tbl.

Definition mapb (b : eblk) : eblk :=
  mkE (map rho (e_jt b)) (map rho (e_be b))
      (match e_kind b with EBranch c v t => EBranch c v (map_snd t) | k => k end).

Variable D : name -> Prop.
Hypothesis Hinj : forall a b, D a -> D b -> rho a = rho b -> a = b.

Lemma zmem_rho x l : D x -> (forall y, In y l -> D y) -> zmem (rho x) (map rho l) = zmem x l.
Proof.
  intros Hx Hl. destruct (zmem x l) eqn:E.
  - apply zmem_In. apply in_map. apply zmem_In. exact E.
  - apply zmem_false. intros Hi. apply in_map_iff in Hi as [y [Hy Hin]].
    apply zmem_false in E. apply E. rewrite <- (Hinj y x (Hl y Hin) Hx Hy). exact Hin.
Qed.

Lemma replace_first_rho s a l : D s -> (forall y, In y l -> D y) ->
  map rho (replace_first s a l) = replace_first (rho s) (rho a) (map rho l).
Proof.
  intros Hs. induction l as [|t r IH]; intros Hl; [reflexivity|]. cbn [replace_first map].
  destruct (Z.eqb_spec t s) as [->|Hne].
  - rewrite Z.eqb_refl. reflexivity.
  - destruct (Z.eqb_spec (rho t) (rho s)) as [E|_].
    + exfalso. apply Hne. apply Hinj; auto. apply Hl. left; reflexivity.
    + cbn [map]. rewrite IH; [reflexivity|]. intros y Hy. apply Hl. right. exact Hy.
Qed.

Lemma remove_first_rho s l : D s -> (forall y, In y l -> D y) ->
  map rho (remove_first s l) = remove_first (rho s) (map rho l).
Proof.
  intros Hs. induction l as [|t r IH]; intros Hl; [reflexivity|]. cbn [remove_first map].
  destruct (Z.eqb_spec t s) as [->|Hne].
  - rewrite Z.eqb_refl. reflexivity.
  - destruct (Z.eqb_spec (rho t) (rho s)) as [E|_].
    + exfalso. apply Hne. apply Hinj; auto. apply Hl. left; reflexivity.
    + cbn [map]. rewrite IH; [reflexivity|]. intros y Hy. apply Hl. right. exact Hy.
Qed.

Lemma remove_first_incl s l y : In y (remove_first s l) -> In y l.
Proof.
  induction l as [|t r IH]; cbn; [tauto|]. destruct (Z.eqb t s); [intros H; right; exact H|].
  intros [H|H]; [left; exact H|right; apply IH; exact H].
Qed.

Lemma fold_remove_rho hs : forall l, (forall y, In y hs -> D y) -> (forall y, In y l -> D y) ->
  map rho (fold_left (fun acc h => remove_first h acc) hs l) =
  fold_left (fun acc h => remove_first h acc) (map rho hs) (map rho l).
Proof.
  induction hs as [|s r IH]; intros l Hh Hl; [reflexivity|]. cbn [fold_left map].
  rewrite <- remove_first_rho by (auto; apply Hh; left; reflexivity).
  apply IH; [intros y Hy; apply Hh; right; exact Hy|]. intros y Hy. apply Hl. eapply remove_first_incl; eauto.
Qed.

Lemma ejts_rho b : (forall y, In y (e_jt b) -> D y) -> (forall y, In y (e_be b) -> D y) ->
  ejts (mapb b) = map rho (ejts b).
Proof.
  intros Hj Hb. unfold ejts, mapb. cbn [e_jt e_be].
  induction (e_jt b) as [|t r IH]; [reflexivity|]. cbn [map filter].
  rewrite zmem_rho by (auto; apply Hj; left; reflexivity).
  destruct (zmem t (e_be b)); cbn [negb map]; rewrite IH; auto; intros y Hy; apply Hj; right; exact Hy.
Qed.

Lemma rev_lookup_rho tbl v : D v -> (forall p, In p tbl -> D (snd p)) ->
  rev_lookup (map_snd tbl) (rho v) = rev_lookup tbl v.
Proof.
  intros Hv Ht. unfold rev_lookup, map_snd. induction tbl as [|[k w] r IH]; [reflexivity|]. cbn [map filter fst snd].
  assert (Hw : D w) by (apply (Ht (k, w)); left; reflexivity).
  destruct (Z.eqb_spec w v) as [->|Hne].
  - rewrite Z.eqb_refl. reflexivity.
  - destruct (Z.eqb_spec (rho w) (rho v)) as [E|_]; [exfalso; apply Hne; apply Hinj; auto|].
    apply IH. intros p Hp. apply Ht. right. exact Hp.
Qed.

Lemma enumerate_rho l : enumerate (map rho l) = map_snd (enumerate l).
Proof.
  unfold enumerate, map_snd. rewrite map_length. generalize (map Z.of_nat (seq 0 (length l))) as ks.
  induction l as [|x r IH]; intros ks; destruct ks as [|k ks']; try reflexivity. cbn. rewrite IH. reflexivity.
Qed.

Lemma in_enumerate l p : In p (enumerate l) -> In (snd p) l.
Proof. unfold enumerate. intros H. destruct p as [k v]. apply in_combine_r in H. exact H. Qed.

(* ---------- the two contexts ---------- *)
Variables (c : lctx).
Definition mapc : lctx :=
  mkL (l_headers c) (map rho (l_exits c)) (l_needs c) (l_unified c) (l_ev c) (l_bv c) (l_latch c) (l_head c)
      (rho (l_exit_target c)) (map_snd (l_exit_tbl c)) (map_snd (l_back_tbl c)) (l_header_tbl c) (l_isback c).

Hypothesis Hfix_h : forall x, In x (l_headers c) -> rho x = x.
Hypothesis Hfix_latch : rho (l_latch c) = l_latch c.
Hypothesis HD_h : forall x, In x (l_headers c) -> D x.
Hypothesis HD_x : forall x, In x (l_exits c) -> D x.
Hypothesis HD_et : D (l_exit_target c).
Hypothesis HD_hd : D (l_head c).
Hypothesis HD_etbl : forall p, In p (l_exit_tbl c) -> D (snd p).
Hypothesis HD_btbl : forall p, In p (l_back_tbl c) -> D (snd p).
Hypothesis HD_htbl : forall p, In p (l_header_tbl c) -> D (snd p) /\ rho (snd p) = snd p.
Hypothesis Hfix_hd : rho (l_head c) = l_head c.

Lemma headers_rho t : D t -> zmem (rho t) (l_headers c) = zmem t (l_headers c) /\
  (zmem t (l_headers c) = true -> rho t = t).
Proof.
  intros Ht. split.
  - destruct (zmem t (l_headers c)) eqn:E.
    + apply zmem_In in E. rewrite (Hfix_h t E). apply zmem_In. exact E.
    + apply zmem_false. intros Hi. apply zmem_false in E. apply E.
      assert (Heq : rho t = t).
      { apply Hinj; [apply HD_h; exact Hi|exact Ht|]. apply Hfix_h. exact Hi. }
      rewrite <- Heq. exact Hi.
  - intros E. apply zmem_In in E. apply Hfix_h. exact E.
Qed.

Lemma rev_header_tbl t : rho t = t -> rev_lookup (l_header_tbl c) (rho t) = rev_lookup (l_header_tbl c) t.
Proof. intros ->. reflexivity. Qed.

(* the relation between the two graphs, on the keys that matter *)
Definition Rel (K : name -> Prop) (g1 g2 : egraph) : Prop :=
  forall x, K x -> efind g2 x = option_map mapb (efind g1 x).

Lemma rel_dset K g1 g2 a b : Rel K g1 g2 -> Rel K (dset g1 a b) (dset g2 a (mapb b)).
Proof.
  intros H x Hx. unfold efind. rewrite !zassoc_dset. destruct (Z.eqb x a); [reflexivity|apply H; exact Hx].
Qed.

(* ---------- le_targets ---------- *)
Lemma le_targets_rho p (K : name -> Prop) : K p -> forall snap (g1 g2 : egraph) new_jt names g1' jt1 names1 (bp : eblk),
  le_targets c g1 p snap new_jt names = Ok (g1', jt1, names1) ->
  Rel K g1 g2 -> efind g1 p = Some bp -> nonbranch bp ->
  (forall y, In y (e_jt bp) -> D y) -> (forall y, In y (e_be bp) -> D y) ->
  (forall y, In y snap -> D y) -> (forall y, In y new_jt -> D y) ->
  (forall a, In a names -> D a /\ rho a = a /\ K a /\ a <> p) ->
  exists g2' bp1,
    le_targets mapc g2 p (map rho snap) (map rho new_jt) names = Ok (g2', map rho jt1, names1) /\
    Rel K g1' g2' /\
    efind g1' p = Some bp1 /\ nonbranch bp1 /\
    (forall y, In y (e_jt bp1) -> D y) /\ (forall y, In y (e_be bp1) -> D y) /\
    (forall y, In y jt1 -> D y) /\
    (forall a, In a names1 -> In a names) /\
    (forall x, ~ K x -> efind g1' x = efind g1 x /\ efind g2' x = efind g2 x).
Proof.
  intros Kp. induction snap as [|jt rest IH]; intros g1 g2 new_jt names g1' jt1 names1 bp H HR Hp Hnb Hdj Hdb Hds Hdn Hnames.
  - cbn in H. injection H as <- <- <-. exists g2, bp. cbn. repeat split; auto.
  - assert (Hjt : D jt) by (apply Hds; left; reflexivity).
    assert (Hds' : forall y, In y rest -> D y) by (intros y Hy; apply Hds; right; exact Hy).
    cbn [le_targets map] in H |- *. cbn [mapc l_exits l_headers l_isback l_needs l_ev l_exit_tbl l_bv l_back_tbl
                                             l_exit_target l_latch l_head l_unified l_header_tbl].
    rewrite (zmem_rho jt (l_exits c) Hjt HD_x).
    destruct (zmem jt (l_exits c)) eqn:Hex.
    + destruct names as [|a names']; [discriminate|].
      destruct (Hnames a (or_introl eq_refl)) as [Da [Fa [Ka Hap]]].
      rewrite (rev_lookup_rho (l_exit_tbl c) jt Hjt HD_etbl), (rev_lookup_rho (l_back_tbl c) (l_exit_target c) HD_et HD_btbl).
      set (ab := mkE [l_latch c] [] (EAssign ((if l_needs c then [(l_ev c, rev_lookup (l_exit_tbl c) jt)] else []) ++
                                               [(l_bv c, rev_lookup (l_back_tbl c) (l_exit_target c))]))) in *.
      assert (Hab : mapb ab = ab) by (unfold mapb, ab; cbn; rewrite Hfix_latch; reflexivity).
      assert (HR' : Rel K (dset g1 a ab) (dset g2 a ab)) by (rewrite <- Hab at 2; apply rel_dset; exact HR).
      assert (Hp' : efind (dset g1 a ab) p = Some bp).
      { unfold efind. rewrite zassoc_dset. destruct (Z.eqb_spec p a); [congruence|exact Hp]. }
      assert (Hrf : map rho (replace_first jt a new_jt) = replace_first (rho jt) a (map rho new_jt)).
      { rewrite (replace_first_rho jt a new_jt Hjt Hdn), Fa. reflexivity. }
      rewrite <- Hrf.
      destruct (IH _ (dset g2 a ab) _ _ _ _ _ bp H HR' Hp' Hnb Hdj Hdb Hds') as [g2' [bp1 [E2 [R2 [P1 [N1 [J1 [B1 [T1 [S1 Fr]]]]]]]]]].
      * intros y Hy. apply In_replace_first in Hy as [->|Hy]; [exact Da|apply Hdn; exact Hy].
      * intros a0 Ha0. apply Hnames. right. exact Ha0.
      * exists g2', bp1. split; [exact E2|]. split; [exact R2|]. split; [exact P1|]. split; [exact N1|].
        split; [exact J1|]. split; [exact B1|]. split; [exact T1|]. split; [intros a0 Ha0; right; apply S1; exact Ha0|].
        intros x Hx. destruct (Fr x Hx) as [A B]. assert (x <> a) by (intros ->; contradiction).
        split; [rewrite A|rewrite B]; unfold efind; rewrite zassoc_dset; destruct (Z.eqb_spec x a); congruence.
    + destruct (headers_rho jt Hjt) as [Hz Hfixjt]. rewrite Hz.
      destruct (zmem jt (l_headers c)) eqn:Hh; cbn [andb] in H |- *.
      * rewrite (Hfixjt eq_refl).
        destruct (l_isback c p jt) eqn:Hib.
        -- destruct names as [|a names']; [discriminate|].
           destruct (Hnames a (or_introl eq_refl)) as [Da [Fa [Ka Hap]]].
           destruct (dpop g1 p) as [[b0 g0]|] eqn:Hpop; [|discriminate].
           assert (Hb0 : b0 = bp) by (apply dpop_value in Hpop; unfold efind in Hp; congruence). subst b0.
           rewrite (replace_jt_nonbranch bp _ Hnb) in H.
           assert (Hp2 : efind g2 p = Some (mapb bp)) by (rewrite (HR p Kp), Hp; reflexivity).
           destruct (Total.dpop_total g2 p (mapb bp) Hp2) as [g20 Hpop2]. rewrite Hpop2.
           assert (Hnb2 : nonbranch (mapb bp)).
           { unfold nonbranch, mapb. cbn. intros cc v t. destruct (e_kind bp) eqn:Ek; try discriminate. exfalso. eapply Hnb; eauto. }
           rewrite (replace_jt_nonbranch (mapb bp) _ Hnb2).
           rewrite (ejts_rho bp Hdj Hdb).
           assert (Hmh : map rho (l_headers c) = l_headers c).
           { clear -Hfix_h. induction (l_headers c) as [|x r IH]; [reflexivity|]. cbn.
             rewrite (Hfix_h x (or_introl eq_refl)), IH; [reflexivity|]. intros y Hy. apply Hfix_h. right. exact Hy. }
           assert (Hfold : fold_left (fun acc h => remove_first h acc) (l_headers c) (map rho (ejts bp)) =
                           map rho (fold_left (fun acc h => remove_first h acc) (l_headers c) (ejts bp))).
           { rewrite (fold_remove_rho (l_headers c) (ejts bp) HD_h), Hmh; [reflexivity|].
             intros y Hy. apply Hdj. unfold ejts in Hy. apply filter_In in Hy. apply Hy. }
           rewrite Hfold.
           set (jts' := fold_left (fun acc h => remove_first h acc) (l_headers c) (ejts bp)) in *.
           set (b1 := mkE jts' (e_be bp) (e_kind bp)) in *.
           assert (Hb1 : mkE (map rho jts') (e_be (mapb bp)) (e_kind (mapb bp)) = mapb b1).
           { unfold mapb, b1. cbn. reflexivity. }
           rewrite Hb1.
           assert (Hrl : rev_lookup (map_snd (l_back_tbl c)) (l_head c) = rev_lookup (l_back_tbl c) (l_head c)).
           { rewrite <- Hfix_hd at 1. apply rev_lookup_rho; auto. }
           rewrite Hrl.
           set (ab := mkE [l_latch c] [] (EAssign ([(l_bv c, rev_lookup (l_back_tbl c) (l_head c))] ++
                        (if l_needs c || l_unified c then [(l_ev c, rev_lookup (l_header_tbl c) jt)] else [])))) in *.
           assert (Hab : mapb ab = ab) by (unfold mapb, ab; cbn; rewrite Hfix_latch; reflexivity).
           assert (Hf1 : forall x, efind (dset (dset g0 p b1) a ab) x =
                                   if Z.eqb x a then Some ab else if Z.eqb x p then Some b1 else efind g1 x).
           { intros x. unfold efind. rewrite !zassoc_dset. destruct (Z.eqb x a); [reflexivity|].
             destruct (Z.eqb x p) eqn:E; [reflexivity|]. apply Z.eqb_neq in E. eapply zassoc_dpop; eauto. }
           assert (Hf2 : forall x, efind (dset (dset g20 p (mapb b1)) a ab) x =
                                   if Z.eqb x a then Some ab else if Z.eqb x p then Some (mapb b1) else efind g2 x).
           { intros x. unfold efind. rewrite !zassoc_dset. destruct (Z.eqb x a); [reflexivity|].
             destruct (Z.eqb x p) eqn:E; [reflexivity|]. apply Z.eqb_neq in E. eapply zassoc_dpop; eauto. }
           assert (HR' : Rel K (dset (dset g0 p b1) a ab) (dset (dset g20 p (mapb b1)) a ab)).
           { intros x Kx. rewrite Hf1, Hf2. destruct (Z.eqb x a); [cbn; rewrite Hab; reflexivity|].
             destruct (Z.eqb x p); [reflexivity|apply HR; exact Kx]. }
           assert (Hp' : efind (dset (dset g0 p b1) a ab) p = Some b1).
           { rewrite Hf1. destruct (Z.eqb_spec p a); [congruence|]. rewrite Z.eqb_refl. reflexivity. }
           assert (Hnb1 : nonbranch b1) by (unfold nonbranch, b1; cbn; exact Hnb).
           assert (Hrf : map rho (replace_first jt a new_jt) = replace_first jt a (map rho new_jt)).
           { rewrite (replace_first_rho jt a new_jt Hjt Hdn), Fa, (Hfixjt eq_refl). reflexivity. }
           rewrite <- Hrf.
           destruct (IH _ (dset (dset g20 p (mapb b1)) a ab) _ _ _ _ _ b1 H HR' Hp' Hnb1) as [g2' [bp1 [E2 [R2 [P1 [N1 [J1 [B1 [T1 [S1 Fr]]]]]]]]]].
           ++ intros y Hy. unfold b1, jts' in Hy. cbn in Hy. apply Hdj.
              assert (Hgen : forall hs l, In y (fold_left (fun acc h => remove_first h acc) hs l) -> In y l).
              { clear. induction hs as [|s r IHs]; intros l Hy; [exact Hy|]. cbn in Hy. apply IHs in Hy. eapply remove_first_incl; eauto. }
              apply Hgen in Hy. unfold ejts in Hy. apply filter_In in Hy. apply Hy.
           ++ exact Hdb.
           ++ exact Hds'.
           ++ intros y Hy. apply In_replace_first in Hy as [->|Hy]; [exact Da|apply Hdn; exact Hy].
           ++ intros a0 Ha0. apply Hnames. right. exact Ha0.
           ++ exists g2', bp1. split; [exact E2|]. split; [exact R2|]. split; [exact P1|]. split; [exact N1|].
              split; [exact J1|]. split; [exact B1|]. split; [exact T1|]. split; [intros a0 Ha0; right; apply S1; exact Ha0|].
              intros x Hx. destruct (Fr x Hx) as [A B]. assert (x <> a) by (intros ->; contradiction).
              assert (x <> p) by (intros ->; contradiction).
              split; [rewrite A, Hf1|rewrite B, Hf2]; destruct (Z.eqb_spec x a); try congruence; destruct (Z.eqb_spec x p); congruence.
        -- destruct (IH _ g2 _ _ _ _ _ bp H HR Hp Hnb Hdj Hdb Hds' Hdn Hnames) as [g2' [bp1 [E2 Rest]]].
           exists g2', bp1. split; [exact E2|exact Rest].
      * destruct (IH _ g2 _ _ _ _ _ bp H HR Hp Hnb Hdj Hdb Hds' Hdn Hnames) as [g2' [bp1 [E2 Rest]]].
        exists g2', bp1. split; [exact E2|exact Rest].
Qed.

(* ---------- le_blocks ---------- *)
Lemma nonbranch_mapb b : nonbranch b -> nonbranch (mapb b).
Proof.
  unfold nonbranch, mapb. cbn. intros Hnb cc v t. destruct (e_kind b) eqn:Ek; try discriminate. exfalso. eapply Hnb; eauto.
Qed.

Lemma mapb_nonbranch_jt b jt : nonbranch b ->
  mkE (map rho jt) (e_be (mapb b)) (e_kind (mapb b)) = mapb (mkE jt (e_be b) (e_kind b)).
Proof. intros _. unfold mapb. cbn. reflexivity. Qed.

Lemma le_blocks_rho (K : name -> Prop) : forall todo (g1 g2 : egraph) names g1' names1,
  le_blocks c g1 todo names = Ok (g1', names1) ->
  Rel K g1 g2 ->
  NoDup todo -> NoDup names ->
  (forall p, In p todo -> K p /\ exists bp, efind g1 p = Some bp /\ nonbranch bp /\
                                   (forall y, In y (e_jt bp) -> D y) /\ (forall y, In y (e_be bp) -> D y)) ->
  (forall a, In a names -> D a /\ rho a = a /\ K a /\ ~ In a todo) ->
  exists g2', le_blocks mapc g2 todo names = Ok (g2', names1) /\ Rel K g1' g2' /\
    (forall a, In a names1 -> In a names) /\
    (forall x, ~ K x -> efind g1' x = efind g1 x /\ efind g2' x = efind g2 x).
Proof.
  induction todo as [|p rest IH]; intros g1 g2 names g1' names1 H HR Hnd Hndn Htodo Hnames.
  - cbn in H. injection H as <- <-. exists g2. cbn. repeat split; auto.
  - cbn [le_blocks] in H |- *.
    destruct (Htodo p (or_introl eq_refl)) as [Kp [bp [Hp [Hnb [Hdj Hdb]]]]].
    rewrite Hp in H. assert (Hp2 : efind g2 p = Some (mapb bp)) by (rewrite (HR p Kp), Hp; reflexivity). rewrite Hp2.
    destruct (le_targets c g1 p (ejts bp) (ejts bp) names) as [[[g1a jt1] names1a]| |] eqn:Hlt; try discriminate.
    assert (Hdsnap : forall y, In y (ejts bp) -> D y).
    { intros y Hy. apply Hdj. unfold ejts in Hy. apply filter_In in Hy. apply Hy. }
    assert (Hpn : ~ In p names) by (intros Hi; destruct (Hnames p Hi) as [_ [_ [_ Hn]]]; apply Hn; left; reflexivity).
    destruct (le_targets_rho p K Kp (ejts bp) g1 g2 (ejts bp) names g1a jt1 names1a bp Hlt HR Hp Hnb Hdj Hdb Hdsnap Hdsnap)
      as [g2a [bp1 [E2 [R2 [P1 [N1 [J1 [B1 [T1 [S1 Fr]]]]]]]]]].
    { intros a Ha. destruct (Hnames a Ha) as [A [B [C Hn]]]. repeat split; auto. intros ->. contradiction. }
    rewrite (ejts_rho bp Hdj Hdb). rewrite E2.
    destruct (dpop g1a p) as [[b0 g1b]|] eqn:Hpop; [|discriminate].
    assert (Hb0 : b0 = bp1) by (apply dpop_value in Hpop; unfold efind in P1; congruence). subst b0.
    rewrite (replace_jt_nonbranch bp1 _ N1) in H.
    assert (Hp2a : efind g2a p = Some (mapb bp1)) by (rewrite (R2 p Kp), P1; reflexivity).
    destruct (dpop_total g2a p (mapb bp1) Hp2a) as [g2b Hpop2]. rewrite Hpop2.
    rewrite (replace_jt_nonbranch (mapb bp1) _ (nonbranch_mapb bp1 N1)).
    rewrite (mapb_nonbranch_jt bp1 jt1 N1).
    set (b1 := mkE jt1 (e_be bp1) (e_kind bp1)) in *.
    assert (Hf1 : forall x, efind (dset g1b p b1) x = if Z.eqb x p then Some b1 else efind g1a x).
    { intros x. unfold efind. rewrite zassoc_dset. destruct (Z.eqb x p) eqn:E; [reflexivity|]. apply Z.eqb_neq in E. eapply zassoc_dpop; eauto. }
    assert (Hf2 : forall x, efind (dset g2b p (mapb b1)) x = if Z.eqb x p then Some (mapb b1) else efind g2a x).
    { intros x. unfold efind. rewrite zassoc_dset. destruct (Z.eqb x p) eqn:E; [reflexivity|]. apply Z.eqb_neq in E. eapply zassoc_dpop; eauto. }
    assert (HR' : Rel K (dset g1b p b1) (dset g2b p (mapb b1))).
    { intros x Kx. rewrite Hf1, Hf2. destruct (Z.eqb x p); [reflexivity|apply R2; exact Kx]. }
    (* the remaining processed blocks are as they were *)
    destruct (le_targets_spec c p (ejts bp) g1 (ejts bp) names g1a jt1 names1a bp Hlt Hp Hnb Hndn Hpn)
      as [used [bp1' [Hn [_ [_ [_ [Hoth _]]]]]]].
    apply NoDup_cons_iff in Hnd as [Hpr Hnd'].
    assert (Hrest : forall q, In q rest -> efind (dset g1b p b1) q = efind g1 q).
    { intros q Hq. rewrite Hf1. destruct (Z.eqb_spec q p) as [->|Hne]; [contradiction|].
      apply Hoth; [exact Hne|]. intros Hi. assert (Hqn : In q names) by (rewrite Hn; apply in_or_app; left; exact Hi).
      destruct (Hnames q Hqn) as [_ [_ [_ Hnq]]]. apply Hnq. right. exact Hq. }
    assert (Hndn1 : NoDup names1a) by (rewrite Hn in Hndn; apply (nodup_app_r _ _ Hndn)).
    destruct (IH _ (dset g2b p (mapb b1)) _ _ _ H HR' Hnd' Hndn1) as [g2' [E' [R' [S' Fr']]]].
    + intros q Hq. destruct (Htodo q (or_intror Hq)) as [Kq [bq [Hbq Rest]]]. split; [exact Kq|]. exists bq.
      split; [rewrite (Hrest q Hq); exact Hbq|exact Rest].
    + intros a Ha. destruct (Hnames a (S1 a Ha)) as [A [B [C Hn0]]]. repeat split; auto. intros Hi. apply Hn0. right. exact Hi.
    + exists g2'. split; [exact E'|]. split; [exact R'|]. split; [intros a Ha; apply S1, S'; exact Ha|].
      intros x Hx. destruct (Fr' x Hx) as [A B]. destruct (Fr x Hx) as [A0 B0].
      assert (x <> p) by (intros ->; contradiction).
      split; [rewrite A, Hf1|rewrite B, Hf2]; destruct (Z.eqb_spec x p); congruence.
Qed.
End Rename.

(* ---------- the whole rotation ---------- *)
Lemma needs_map (rho : name -> name) (l : list name) :
  match map rho l with _ :: _ :: _ => true | _ => false end = match l with _ :: _ :: _ => true | _ => false end.
Proof. destruct l as [|a [|b r]]; reflexivity. Qed.

Theorem loop_rotate_rho (rho : name -> name) (D : name -> Prop) :
  (forall a b, D a -> D b -> rho a = rho b -> a = b) ->
  forall g1 g2 hd headers exits todo unified header_tbl isback latch sexit ev bv names g1',
  loop_rotate g1 hd headers exits todo unified header_tbl isback latch sexit ev bv names = Ok g1' ->
  let K := fun x => In x todo \/ In x names \/ x = latch \/ x = sexit in
  Rel rho K g1 g2 ->
  NoDup todo -> NoDup names ->
  (forall x, In x headers -> rho x = x /\ D x) ->
  (forall x, In x exits -> D x) ->
  rho hd = hd -> D hd -> rho latch = latch -> D latch -> rho sexit = sexit -> D sexit ->
  (forall p, In p todo -> exists bp, efind g1 p = Some bp /\ nonbranch bp /\
                                     (forall y, In y (e_jt bp) -> D y) /\ (forall y, In y (e_be bp) -> D y)) ->
  (forall a, In a names -> D a /\ rho a = a /\ ~ In a todo) ->
  exists g2',
    loop_rotate g2 hd headers (map rho exits) todo unified header_tbl isback latch sexit ev bv names = Ok g2' /\
    (forall x, K x -> efind g2' x = option_map (mapb rho) (efind g1' x)) /\
    (forall x, ~ K x -> efind g1' x = efind g1 x /\ efind g2' x = efind g2 x).
Proof.
  intros Hinj g1 g2 hd headers exits todo unified header_tbl isback latch sexit ev bv names g1' H K HR Hnd Hndn
         Hhead Hex Fhd Dhd Flatch Dlatch Fsexit Dsexit Htodo Hnames.
  unfold loop_rotate in H |- *. rewrite needs_map.
  set (needs := match exits with _ :: _ :: _ => true | _ => false end) in *.
  assert (Hxt : (if needs then Some sexit else hd_error (map rho exits)) =
                option_map rho (if needs then Some sexit else hd_error exits)).
  { destruct needs; [cbn; rewrite Fsexit; reflexivity|]. destruct exits; reflexivity. }
  rewrite Hxt.
  destruct (if needs then Some sexit else hd_error exits) as [xt|] eqn:Ext; [|discriminate]. cbn [option_map].
  assert (Dxt : D xt).
  { destruct needs; [injection Ext as <-; exact Dsexit|]. destruct exits as [|x r]; [discriminate|]. injection Ext as <-.
    apply Hex. left; reflexivity. }
  set (c := mkL headers exits needs unified ev bv latch hd xt (enumerate exits) [(0, hd); (1, xt)] header_tbl isback) in *.
  assert (Hc2 : mkL headers (map rho exits) needs unified ev bv latch hd (rho xt) (enumerate (map rho exits))
                    [(0, hd); (1, rho xt)] header_tbl isback = mapc rho c).
  { unfold mapc, c. cbn. rewrite enumerate_rho. unfold map_snd. cbn. rewrite Fhd. reflexivity. }
  rewrite Hc2.
  destruct (le_blocks c g1 todo names) as [[g1b rest]| |] eqn:Hb; try discriminate.
  destruct (le_blocks_rho rho D Hinj c) with (K := K) (todo := todo) (g1 := g1) (g2 := g2) (names := names) (g1' := g1b) (names1 := rest)
    as [g2b [E2 [R2 [_ Fr]]]]; auto.
  - intros x Hx. apply (Hhead x Hx).
  - intros x Hx. apply (Hhead x Hx).
  - intros p Hp. cbn [c l_exit_tbl] in Hp. apply in_enumerate in Hp. apply Hex. exact Hp.
  - intros p Hp. cbn [c l_back_tbl] in Hp. destruct Hp as [<-|[<-|[]]]; cbn; assumption.
  - intros p Hp. split; [left; exact Hp|]. apply Htodo. exact Hp.
  - intros a Ha. destruct (Hnames a Ha) as [A [B C]]. repeat split; auto. right. left. exact Ha.
  - rewrite E2. injection H as <-.
    set (LB := mkE [xt; hd] [hd] (EBranch C_LATCH bv [(0, hd); (1, xt)])).
    set (SX := mkE exits [] (EBranch C_EXITBRANCH ev (enumerate exits))).
    assert (HLB : mkE [rho xt; hd] [hd] (EBranch C_LATCH bv [(0, hd); (1, rho xt)]) = mapb rho LB).
    { unfold mapb, LB, map_snd. cbn. rewrite Fhd. reflexivity. }
    assert (HSX : mkE (map rho exits) [] (EBranch C_EXITBRANCH ev (enumerate (map rho exits))) = mapb rho SX).
    { unfold mapb, SX. cbn. rewrite enumerate_rho. reflexivity. }
    rewrite HLB, HSX.
    eexists. split; [reflexivity|].
    assert (Hf : forall (ga : egraph) (lb sx : eblk) x,
               efind (if needs then dset (dset ga latch lb) sexit sx else dset ga latch lb) x =
               if needs && Z.eqb x sexit then Some sx else if Z.eqb x latch then Some lb else efind ga x).
    { intros ga lb sx x. destruct needs; cbn [andb]; unfold efind; rewrite ?zassoc_dset; [|reflexivity].
      destruct (Z.eqb x sexit); reflexivity. }
    split.
    + intros x Kx. rewrite !Hf. destruct (needs && Z.eqb x sexit); [reflexivity|].
      destruct (Z.eqb x latch); [reflexivity|]. apply R2. exact Kx.
    + intros x Hx. rewrite !Hf.
      assert (x <> latch) by (intros ->; apply Hx; right; right; left; reflexivity).
      assert (x <> sexit) by (intros ->; apply Hx; right; right; right; reflexivity).
      destruct (Z.eqb_spec x sexit); [contradiction|]. rewrite andb_false_r.
      destruct (Z.eqb_spec x latch); [contradiction|]. apply Fr. exact Hx.
Qed.

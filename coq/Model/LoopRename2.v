(* LoopRename2.v — LoopRename.loop_rotate_rho for a list of processed blocks that may hold blocks WITH a
   value table, as long as such a block is "quiet": none of its arcs leaves the loop or is a back edge, so
   the rotation only pops it and puts it back.  That is the unified head of a loop with several headers,
   which the code processes along with the blocks of the loop (it has arcs to the headers; it dominates
   them, so none of these arcs is a back edge). *)
From Coq Require Import List ZArith Bool Lia.
Import ListNotations.
From V Require Import Valid.Hier Model.Graph Model.Edits Model.Edits2 Model.Edits3 Model.LoopEdit Model.LoopSpec
                      Model.Total Model.LoopRename Model.InsRename.
Local Open Scope Z_scope.

Definition quiet (c : lctx) (p : name) (l : list name) : Prop :=
  forall jt, In jt l -> zmem jt (l_exits c) = false /\ (zmem jt (l_headers c) && l_isback c p jt) = false.

Lemma le_targets_quiet c p : forall snap g new_jt names,
  quiet c p snap -> le_targets c g p snap new_jt names = Ok (g, new_jt, names).
Proof.
  induction snap as [|jt r IH]; intros g new_jt names Hq; [reflexivity|]. cbn [le_targets].
  destruct (Hq jt (or_introl eq_refl)) as [A B]. rewrite A, B. apply IH. intros y Hy. apply Hq. right. exact Hy.
Qed.

Section Rename2.
Variable rho : name -> name.
Variable D : name -> Prop.
Hypothesis Hinj : forall a b, D a -> D b -> rho a = rho b -> a = b.
Variable c : lctx.
Hypothesis Hfix_h : forall x, In x (l_headers c) -> rho x = x.
Hypothesis Hfix_latch : rho (l_latch c) = l_latch c.
Hypothesis HD_h : forall x, In x (l_headers c) -> D x.
Hypothesis HD_x : forall x, In x (l_exits c) -> D x.
Hypothesis HD_et : D (l_exit_target c).
Hypothesis HD_hd : D (l_head c).
Hypothesis HD_etbl : forall p, In p (l_exit_tbl c) -> D (snd p).
Hypothesis HD_btbl : forall p, In p (l_back_tbl c) -> D (snd p).
Hypothesis Hfix_hd : rho (l_head c) = l_head c.

Lemma quiet_rho p l : (forall y, In y l -> D y) -> quiet c p l -> quiet (mapc rho c) p (map rho l).
Proof.
  intros Hd Hq jt' Hjt'. apply in_map_iff in Hjt' as [jt [<- Hjt]]. destruct (Hq jt Hjt) as [A B].
  cbn [mapc l_exits l_headers l_isback]. split.
  - rewrite (zmem_rho rho D Hinj jt (l_exits c) (Hd jt Hjt) HD_x). exact A.
  - destruct (headers_rho rho D Hinj c Hfix_h HD_h jt (Hd jt Hjt)) as [Hz Hfix]. rewrite Hz.
    destruct (zmem jt (l_headers c)) eqn:E; [|reflexivity]. rewrite (Hfix eq_refl). exact B.
Qed.

(* a processed block: without a table, or quiet *)
Definition todo_ok (g1 : egraph) (p : name) : Prop :=
  exists bp, efind g1 p = Some bp /\
    (forall y, In y (e_jt bp) -> D y) /\ (forall y, In y (e_be bp) -> D y) /\
    (nonbranch bp \/
     (quiet c p (ejts bp) /\ forall cc v t, e_kind bp = EBranch cc v t -> forall q, In q t -> D (snd q))).

Lemma le_blocks_rho_q (K : name -> Prop) : forall todo (g1 g2 : egraph) names g1' names1,
  le_blocks c g1 todo names = Ok (g1', names1) ->
  Rel rho K g1 g2 ->
  NoDup todo -> NoDup names ->
  (forall p, In p todo -> K p /\ todo_ok g1 p) ->
  (forall a, In a names -> D a /\ rho a = a /\ K a /\ ~ In a todo) ->
  exists g2', le_blocks (mapc rho c) g2 todo names = Ok (g2', names1) /\ Rel rho K g1' g2' /\
    (forall a, In a names1 -> In a names) /\
    (forall x, ~ K x -> efind g1' x = efind g1 x /\ efind g2' x = efind g2 x).
Proof.
  induction todo as [|p rest IH]; intros g1 g2 names g1' names1 H HR Hnd Hndn Htodo Hnames.
  - cbn in H. injection H as <- <-. exists g2. cbn. repeat split; auto.
  - destruct (Htodo p (or_introl eq_refl)) as [Kp [bp [Hp [Hdj [Hdb Hcase]]]]].
    assert (Hp2 : efind g2 p = Some (mapb rho bp)) by (rewrite (HR p Kp), Hp; reflexivity).
    assert (Hdsnap : forall y, In y (ejts bp) -> D y).
    { intros y Hy. apply Hdj. unfold ejts in Hy. apply filter_In in Hy. apply Hy. }
    assert (Hpn : ~ In p names) by (intros Hi; destruct (Hnames p Hi) as [_ [_ [_ Hn]]]; apply Hn; left; reflexivity).
    apply NoDup_cons_iff in Hnd as [Hpr Hnd'].
    destruct Hcase as [Hnb|[Hq Htb]].
    + (* without a table: as in LoopRename.le_blocks_rho *)
      cbn [le_blocks] in H |- *. rewrite Hp in H. rewrite Hp2.
      destruct (le_targets c g1 p (ejts bp) (ejts bp) names) as [[[g1a jt1] names1a]| |] eqn:Hlt; try discriminate.
      destruct (le_targets_rho rho D Hinj c Hfix_h Hfix_latch HD_h HD_x HD_et HD_hd HD_etbl HD_btbl Hfix_hd
                  p K Kp (ejts bp) g1 g2 (ejts bp) names g1a jt1 names1a bp Hlt HR Hp Hnb Hdj Hdb Hdsnap Hdsnap)
        as [g2a [bp1 [E2 [R2 [P1 [N1 [J1 [B1 [T1 [S1 Fr]]]]]]]]]].
      { intros a Ha. destruct (Hnames a Ha) as [A [B [C Hn]]]. repeat split; auto. intros ->. contradiction. }
      rewrite (ejts_rho rho D Hinj bp Hdj Hdb). rewrite E2.
      destruct (dpop g1a p) as [[b0 g1b]|] eqn:Hpop; [|discriminate].
      assert (Hb0 : b0 = bp1) by (apply dpop_value in Hpop; unfold efind in P1; congruence). subst b0.
      rewrite (replace_jt_nonbranch bp1 _ N1) in H.
      assert (Hp2a : efind g2a p = Some (mapb rho bp1)) by (rewrite (R2 p Kp), P1; reflexivity).
      destruct (dpop_total g2a p (mapb rho bp1) Hp2a) as [g2b Hpop2]. rewrite Hpop2.
      rewrite (replace_jt_nonbranch (mapb rho bp1) _ (nonbranch_mapb rho bp1 N1)).
      rewrite (mapb_nonbranch_jt rho bp1 jt1 N1).
      set (b1 := mkE jt1 (e_be bp1) (e_kind bp1)) in *.
      assert (Hf1 : forall x, efind (dset g1b p b1) x = if Z.eqb x p then Some b1 else efind g1a x).
      { intros x. unfold efind. rewrite zassoc_dset. destruct (Z.eqb x p) eqn:E; [reflexivity|]. apply Z.eqb_neq in E. eapply zassoc_dpop; eauto. }
      assert (Hf2 : forall x, efind (dset g2b p (mapb rho b1)) x = if Z.eqb x p then Some (mapb rho b1) else efind g2a x).
      { intros x. unfold efind. rewrite zassoc_dset. destruct (Z.eqb x p) eqn:E; [reflexivity|]. apply Z.eqb_neq in E. eapply zassoc_dpop; eauto. }
      assert (HR' : Rel rho K (dset g1b p b1) (dset g2b p (mapb rho b1))).
      { intros x Kx. rewrite Hf1, Hf2. destruct (Z.eqb x p); [reflexivity|apply R2; exact Kx]. }
      destruct (le_targets_spec c p (ejts bp) g1 (ejts bp) names g1a jt1 names1a bp Hlt Hp Hnb Hndn Hpn)
        as [used [bp1' [Hn [_ [_ [_ [Hoth _]]]]]]].
      assert (Hrest : forall q, In q rest -> efind (dset g1b p b1) q = efind g1 q).
      { intros q Hq. rewrite Hf1. destruct (Z.eqb_spec q p) as [->|Hne]; [contradiction|].
        apply Hoth; [exact Hne|]. intros Hi. assert (Hqn : In q names) by (rewrite Hn; apply in_or_app; left; exact Hi).
        destruct (Hnames q Hqn) as [_ [_ [_ Hnq]]]. apply Hnq. right. exact Hq. }
      assert (Hndn1 : NoDup names1a) by (rewrite Hn in Hndn; apply (nodup_app_r _ _ Hndn)).
      destruct (IH _ (dset g2b p (mapb rho b1)) _ _ _ H HR' Hnd' Hndn1) as [g2' [E' [R' [S' Fr']]]].
      * intros q Hq. destruct (Htodo q (or_intror Hq)) as [Kq [bq [Hbq Rest]]]. split; [exact Kq|]. exists bq.
        split; [rewrite (Hrest q Hq); exact Hbq|exact Rest].
      * intros a Ha. destruct (Hnames a (S1 a Ha)) as [A [B [C Hn0]]]. repeat split; auto. intros Hi. apply Hn0. right. exact Hi.
      * exists g2'. split; [exact E'|]. split; [exact R'|]. split; [intros a Ha; apply S1, S'; exact Ha|].
        intros x Hx. destruct (Fr' x Hx) as [A B]. destruct (Fr x Hx) as [A0 B0].
        assert (x <> p) by (intros ->; contradiction).
        split; [rewrite A, Hf1|rewrite B, Hf2]; destruct (Z.eqb_spec x p); congruence.
    + (* quiet: popped and put back *)
      cbn [le_blocks] in H |- *. rewrite Hp in H. rewrite Hp2.
      rewrite (le_targets_quiet c p (ejts bp) g1 (ejts bp) names Hq) in H.
      rewrite (ejts_rho rho D Hinj bp Hdj Hdb).
      rewrite (le_targets_quiet (mapc rho c) p (map rho (ejts bp)) g2 (map rho (ejts bp)) names (quiet_rho p (ejts bp) Hdsnap Hq)).
      destruct (dpop g1 p) as [[b0 g1b]|] eqn:Hpop; [|discriminate].
      assert (Hb0 : b0 = bp) by (apply dpop_value in Hpop; unfold efind in Hp; congruence). subst b0.
      destruct (dpop_total g2 p (mapb rho bp) Hp2) as [g2b Hpop2]. rewrite Hpop2.
      rewrite (replace_jt_rho rho D Hinj bp (ejts bp) Hdj Hdsnap Htb).
      destruct (replace_jt bp (ejts bp)) as [b1|] eqn:Hrj; [|discriminate]. cbn [option_map].
      assert (Hf1 : forall x, efind (dset g1b p b1) x = if Z.eqb x p then Some b1 else efind g1 x).
      { intros x. unfold efind. rewrite zassoc_dset. destruct (Z.eqb x p) eqn:E; [reflexivity|]. apply Z.eqb_neq in E. eapply zassoc_dpop; eauto. }
      assert (Hf2 : forall x, efind (dset g2b p (mapb rho b1)) x = if Z.eqb x p then Some (mapb rho b1) else efind g2 x).
      { intros x. unfold efind. rewrite zassoc_dset. destruct (Z.eqb x p) eqn:E; [reflexivity|]. apply Z.eqb_neq in E. eapply zassoc_dpop; eauto. }
      assert (HR' : Rel rho K (dset g1b p b1) (dset g2b p (mapb rho b1))).
      { intros x Kx. rewrite Hf1, Hf2. destruct (Z.eqb x p); [reflexivity|apply HR; exact Kx]. }
      assert (Hrest : forall q, In q rest -> efind (dset g1b p b1) q = efind g1 q).
      { intros q Hq0. rewrite Hf1. destruct (Z.eqb_spec q p) as [->|Hne]; [contradiction|reflexivity]. }
      destruct (IH _ (dset g2b p (mapb rho b1)) _ _ _ H HR' Hnd' Hndn) as [g2' [E' [R' [S' Fr']]]].
      * intros q Hq0. destruct (Htodo q (or_intror Hq0)) as [Kq [bq [Hbq Rest]]]. split; [exact Kq|]. exists bq.
        split; [rewrite (Hrest q Hq0); exact Hbq|exact Rest].
      * intros a Ha. destruct (Hnames a Ha) as [A [B [C Hn0]]]. repeat split; auto. intros Hi. apply Hn0. right. exact Hi.
      * exists g2'. split; [exact E'|]. split; [exact R'|]. split; [exact S'|].
        intros x Hx. destruct (Fr' x Hx) as [A B].
        assert (x <> p) by (intros ->; contradiction).
        split; [rewrite A, Hf1|rewrite B, Hf2]; destruct (Z.eqb_spec x p); congruence.
Qed.
End Rename2.

(* ---------- the whole rotation ---------- *)
Definition ctx_of (hd : name) (headers exits : list name) (unified : bool) (header_tbl : list (Z * name))
           (isback : name -> name -> bool) (latch sexit : name) (ev bv : Z) : lctx :=
  let needs := match exits with _ :: _ :: _ => true | _ => false end in
  let xt := match (if needs then Some sexit else hd_error exits) with Some t => t | None => 0 end in
  mkL headers exits needs unified ev bv latch hd xt (enumerate exits) [(0, hd); (1, xt)] header_tbl isback.

Theorem loop_rotate_rho_q (rho : name -> name) (D : name -> Prop) :
  (forall a b, D a -> D b -> rho a = rho b -> a = b) ->
  forall g1 g2 hd headers exits todo unified header_tbl isback latch sexit ev bv names g1',
  loop_rotate g1 hd headers exits todo unified header_tbl isback latch sexit ev bv names = Ok g1' ->
  let K := fun x => In x todo \/ In x names \/ x = latch \/ x = sexit in
  Rel rho K g1 g2 ->
  NoDup todo -> NoDup names ->
  (forall x, In x headers -> rho x = x /\ D x) ->
  (forall x, In x exits -> D x) ->
  rho hd = hd -> D hd -> rho latch = latch -> D latch -> rho sexit = sexit -> D sexit ->
  (forall p, In p todo ->
     todo_ok D (ctx_of hd headers exits unified header_tbl isback latch sexit ev bv) g1 p) ->
  (forall a, In a names -> D a /\ rho a = a /\ ~ In a todo) ->
  exists g2',
    loop_rotate g2 hd headers (map rho exits) todo unified header_tbl isback latch sexit ev bv names = Ok g2' /\
    (forall x, K x -> efind g2' x = option_map (mapb rho) (efind g1' x)) /\
    (forall x, ~ K x -> efind g1' x = efind g1 x /\ efind g2' x = efind g2 x).
Proof.
  intros Hinj g1 g2 hd headers exits todo unified header_tbl isback latch sexit ev bv names g1' H K HR Hnd Hndn
         Hhead Hex Fhd Dhd Flatch Dlatch Fsexit Dsexit Htodo Hnames.
  unfold loop_rotate in H |- *. rewrite needs_map. unfold ctx_of in Htodo.
  set (needs := match exits with _ :: _ :: _ => true | _ => false end) in *.
  assert (Hxt : (if needs then Some sexit else hd_error (map rho exits)) =
                option_map rho (if needs then Some sexit else hd_error exits)).
  { destruct needs; [cbn; rewrite Fsexit; reflexivity|]. destruct exits; reflexivity. }
  rewrite Hxt.
  destruct (if needs then Some sexit else hd_error exits) as [xt|] eqn:Ext; [|discriminate]. cbn [option_map].
  assert (Dxt : D xt).
  { destruct needs; [injection Ext as <-; exact Dsexit|]. destruct exits as [|x r]; [discriminate|]. injection Ext as <-.
    apply Hex. left; reflexivity. }
  set (c := mkL headers exits needs unified ev bv latch hd xt (enumerate exits) [(0, hd); (1, xt)] header_tbl isback) in *.
  assert (Hc2 : mkL headers (map rho exits) needs unified ev bv latch hd (rho xt) (enumerate (map rho exits))
                    [(0, hd); (1, rho xt)] header_tbl isback = mapc rho c).
  { unfold mapc, c. cbn. rewrite enumerate_rho. unfold map_snd. cbn. rewrite Fhd. reflexivity. }
  rewrite Hc2.
  destruct (le_blocks c g1 todo names) as [[g1b rest]| |] eqn:Hb; try discriminate.
  destruct (le_blocks_rho_q rho D Hinj c) with (K := K) (todo := todo) (g1 := g1) (g2 := g2) (names := names) (g1' := g1b) (names1 := rest)
    as [g2b [E2 [R2 [_ Fr]]]]; auto.
  - intros x Hx. apply (Hhead x Hx).
  - intros x Hx. apply (Hhead x Hx).
  - intros p Hp. cbn [c l_exit_tbl] in Hp. apply in_enumerate in Hp. apply Hex. exact Hp.
  - intros p Hp. cbn [c l_back_tbl] in Hp. destruct Hp as [<-|[<-|[]]]; cbn; assumption.
  - intros p Hp. split; [left; exact Hp|]. apply Htodo. exact Hp.
  - intros a Ha. destruct (Hnames a Ha) as [A [B C]]. repeat split; auto. right. left. exact Ha.
  - rewrite E2. injection H as <-.
    set (LB := mkE [xt; hd] [hd] (EBranch C_LATCH bv [(0, hd); (1, xt)])).
    set (SX := mkE exits [] (EBranch C_EXITBRANCH ev (enumerate exits))).
    assert (HLB : mkE [rho xt; hd] [hd] (EBranch C_LATCH bv [(0, hd); (1, rho xt)]) = mapb rho LB).
    { unfold mapb, LB, map_snd. cbn. rewrite Fhd. reflexivity. }
    assert (HSX : mkE (map rho exits) [] (EBranch C_EXITBRANCH ev (enumerate (map rho exits))) = mapb rho SX).
    { unfold mapb, SX. cbn. rewrite enumerate_rho. reflexivity. }
    rewrite HLB, HSX.
    eexists. split; [reflexivity|].
    assert (Hf : forall (ga : egraph) (lb sx : eblk) x,
               efind (if needs then dset (dset ga latch lb) sexit sx else dset ga latch lb) x =
               if needs && Z.eqb x sexit then Some sx else if Z.eqb x latch then Some lb else efind ga x).
    { intros ga lb sx x. destruct needs; cbn [andb]; unfold efind; rewrite ?zassoc_dset; [|reflexivity].
      destruct (Z.eqb x sexit); reflexivity. }
    split.
    + intros x Kx. rewrite !Hf. destruct (needs && Z.eqb x sexit); [reflexivity|].
      destruct (Z.eqb x latch); [reflexivity|]. apply R2. exact Kx.
    + intros x Hx. rewrite !Hf.
      assert (x <> latch) by (intros ->; apply Hx; right; right; left; reflexivity).
      assert (x <> sexit) by (intros ->; apply Hx; right; right; right; reflexivity).
      destruct (Z.eqb_spec x sexit); [contradiction|]. rewrite andb_false_r.
      destruct (Z.eqb_spec x latch); [contradiction|]. apply Fr. exact Hx.
Qed.

(* SetOrder.v — property C12: why iterating a Python set in arbitrary order does
   not influence results at the reviewed sites.  A set handed to a modelled
   function is a list; "arbitrary order" is any permutation of it. *)
From Coq Require Import List ZArith Bool Lia Permutation Sorting.Sorted String.
Import ListNotations.
From V Require Import Valid.Hier Model.Graph Model.Queries.
Local Open Scope Z_scope.

(* two strictly sorted lists with the same elements are equal *)
Lemma sorted_unique : forall l l', StronglySorted Z.lt l -> StronglySorted Z.lt l' ->
  (forall x, In x l <-> In x l') -> l = l'.
Proof.
  induction l as [|a l IH]; intros [|b l'] Hs Hs' Heq.
  - reflexivity.
  - exfalso. apply (proj2 (Heq b)). left; reflexivity.
  - exfalso. apply (proj1 (Heq a)). left; reflexivity.
  - inversion Hs as [|? ? Hs1 Hf]; subst. inversion Hs' as [|? ? Hs1' Hf']; subst.
    rewrite Forall_forall in Hf, Hf'.
    assert (a = b).
    { destruct (proj1 (Heq a) (or_introl eq_refl)) as [->|Ha]; [reflexivity|].
      destruct (proj2 (Heq b) (or_introl eq_refl)) as [->|Hb]; [reflexivity|].
      specialize (Hf _ Hb). specialize (Hf' _ Ha). lia. }
    subst b. f_equal. apply IH; auto. intros x. split; intros Hx.
    + destruct (proj1 (Heq x) (or_intror Hx)) as [->|H]; [|exact H]. specialize (Hf _ Hx). lia.
    + destruct (proj2 (Heq x) (or_intror Hx)) as [->|H]; [|exact H]. specialize (Hf' _ Hx). lia.
Qed.

(* sorted(set) does not depend on the order in which the set is enumerated *)
Theorem zsort_perm l l' : Permutation l l' -> zsort l = zsort l'.
Proof.
  intros Hp. apply sorted_unique; try apply zsort_sorted.
  intros x. rewrite !zsort_In. split; intros H; [eapply Permutation_in; eauto|].
  eapply Permutation_in; [apply Permutation_sym; exact Hp|exact H].
Qed.

Lemma zmem_perm x l l' : Permutation l l' -> zmem x l = zmem x l'.
Proof.
  intros Hp. destruct (zmem x l) eqn:E.
  - symmetry. apply zmem_In. eapply Permutation_in; eauto. apply zmem_In. exact E.
  - symmetry. apply zmem_false. intros H. apply zmem_false in E. apply E.
    eapply Permutation_in; [apply Permutation_sym; exact Hp|exact H].
Qed.

Lemma forallb_perm {A} (f : A -> bool) l l' : Permutation l l' -> forallb f l = forallb f l'.
Proof.
  induction 1 as [|x l l' _ IH|x y l|l l' l'' _ IH1 _ IH2]; cbn; auto.
  - rewrite IH. reflexivity.
  - destruct (f x), (f y); reflexivity.
  - congruence.
Qed.

Lemma perm_filter {A} (f : A -> bool) l l' : Permutation l l' -> Permutation (filter f l) (filter f l').
Proof.
  induction 1 as [|x l l' _ IH|x y l|l l' l'' _ IH1 _ IH2]; cbn.
  - constructor.
  - destruct (f x); [constructor|]; exact IH.
  - destruct (f x), (f y); try apply Permutation_refl. constructor.
  - eapply Permutation_trans; eauto.
Qed.

(* find_exiting_and_exits: `for inside in subgraph` only feeds sets that are sorted at the end *)
Theorem exiting_exits_perm g sub sub' : Permutation sub sub' -> exiting_exits g sub = exiting_exits g sub'.
Proof.
  intros Hp. unfold exiting_exits.
  assert (Hf : forallb (fun x => zmem x (keys g)) sub = forallb (fun x => zmem x (keys g)) sub')
    by (apply forallb_perm; exact Hp).
  rewrite Hf. destruct (forallb (fun x => zmem x (keys g)) sub'); [|reflexivity].
  assert (Hm : forall t, zmem t sub = zmem t sub') by (intros; apply zmem_perm; exact Hp).
  assert (Houts : forall x, filter (fun t => negb (zmem t sub)) (gsucc g x) =
                            filter (fun t => negb (zmem t sub')) (gsucc g x)).
  { intros x. apply filter_ext. intros t. rewrite Hm. reflexivity. }
  f_equal. f_equal.
  - rewrite (filter_ext _ (fun x => match filter (fun t => negb (zmem t sub')) (gsucc g x) with
                                    | [] => match gsucc g x with [] => true | _ :: _ => false end
                                    | _ :: _ => true end)).
    + apply zsort_perm. apply perm_filter. exact Hp.
    + intros x. rewrite Houts. reflexivity.
  - rewrite (flat_map_ext _ (fun x => filter (fun t => negb (zmem t sub')) (gsucc g x))) by exact Houts.
    apply zsort_perm. apply Permutation_flat_map. exact Hp.
Qed.

(* find_headers_and_entries receives the subset as a set and only tests membership in it *)
Theorem headers_entries_perm g sub sub' pe : Permutation sub sub' ->
  headers_entries g sub pe = headers_entries g sub' pe.
Proof.
  intros Hp. unfold headers_entries.
  assert (Hm : forall t, zmem t sub = zmem t sub') by (intros; apply zmem_perm; exact Hp).
  assert (Hout : filter (fun k => negb (zmem k sub)) (keys g) = filter (fun k => negb (zmem k sub')) (keys g))
    by (apply filter_ext; intros; rewrite Hm; reflexivity).
  assert (Hhits : forall o, match gfind g o with
                            | Some b => filter (fun t => zmem t sub) (b_jt b) | None => [] end =
                            match gfind g o with
                            | Some b => filter (fun t => zmem t sub') (b_jt b) | None => [] end).
  { intros o. destruct (gfind g o); [|reflexivity]. apply filter_ext. intros; apply Hm. }
  cbv zeta.
  match goal with
  | |- (match ?A with [] => _ | _ :: _ => Some (zsort _, zsort ?E) end) =
       (match ?B with [] => _ | _ :: _ => Some (zsort _, zsort ?F) end) =>
    assert (HA : A = B); [|assert (HE : E = F); [|rewrite HA, HE; reflexivity]]
  end.
  - rewrite Hout. apply flat_map_ext. exact Hhits.
  - rewrite Hout. apply filter_ext. intros o. rewrite Hhits. reflexivity.
Qed.

(* remove_blocks / discard loops: deleting a set of keys one by one, in any order *)
Definition del_key {A} (g : list (Z * A)) (k : Z) : list (Z * A) :=
  filter (fun p => negb (Z.eqb (fst p) k)) g.

Lemma del_all {A} (names : list Z) : forall (g : list (Z * A)),
  fold_left del_key names g = filter (fun p => negb (zmem (fst p) names)) g.
Proof.
  induction names as [|n r IH]; intros g; cbn [fold_left].
  - symmetry. induction g as [|p g IHg]; [reflexivity|]. cbn. f_equal. exact IHg.
  - rewrite IH. unfold del_key. induction g as [|p g IHg]; [reflexivity|].
    cbn [filter]. unfold zmem at 2. cbn [existsb]. fold (zmem (fst p) r).
    destruct (Z.eqb (fst p) n) eqn:E; cbn [negb orb].
    + exact IHg.
    + cbn [filter]. destruct (negb (zmem (fst p) r)); [f_equal|]; exact IHg.
Qed.

Theorem remove_blocks_perm {A} (g : list (Z * A)) names names' :
  Permutation names names' -> fold_left del_key names g = fold_left del_key names' g.
Proof.
  intros Hp. rewrite !del_all. apply filter_ext. intros p. rewrite (zmem_perm _ _ _ Hp). reflexivity.
Qed.

(* a set that is only used when it has exactly one element (next(iter(s)) after
   len(s) == 1), or only through its length, membership and — when it is a
   singleton — its first element (backedge_blocks) *)
Theorem singleton_perm {A} (l l' : list A) :
  Permutation l l' ->
  List.length l = List.length l' /\ (forall x, In x l <-> In x l') /\ (List.length l = 1%nat -> l = l').
Proof.
  intros Hp. split; [apply Permutation_length; exact Hp|]. split.
  - intros x. split; intros H; [eapply Permutation_in; eauto|].
    eapply Permutation_in; [apply Permutation_sym; exact Hp|exact H].
  - intros Hl. destruct l as [|a [|? ?]]; try discriminate. symmetry. apply Permutation_length_1_inv. exact Hp.
Qed.

(* set.intersection folded over a collection of sets: as a set, independent of the order *)
Definition inter (a b : list Z) : list Z := filter (fun x => zmem x b) a.

Theorem inter_all_perm (u : list Z) (ls ls' : list (list Z)) :
  Permutation ls ls' -> forall x, In x (fold_left inter ls u) <-> In x (fold_left inter ls' u).
Proof.
  assert (H : forall ls u x, In x (fold_left inter ls u) <-> In x u /\ forall l, In l ls -> In x l).
  { induction ls0 as [|l r IH]; intros u0 x; cbn.
    - split; [intros Hx; split; [exact Hx|intros l []]|intros [Hx _]; exact Hx].
    - rewrite IH. unfold inter. rewrite filter_In, zmem_In. split.
      + intros [[Hu Hl] Hr]. split; [exact Hu|]. intros l0 [<-|Hl0]; auto.
      + intros [Hu Hall]. split; [split; [exact Hu|apply Hall; left; reflexivity]|].
        intros l0 Hl0. apply Hall. right. exact Hl0. }
  intros Hp x. rewrite !H. split; intros [Hu Hall]; (split; [exact Hu|]); intros l Hl; apply Hall.
  - eapply Permutation_in; [apply Permutation_sym; exact Hp|exact Hl].
  - eapply Permutation_in; eauto.
Qed.

(* ---------- the reviewed table ----------
   Every place where numba_scfg iterates over a set (Gen/SetSites.v, regenerated
   on every run) must be listed here with the reason its order is irrelevant:
     "sorted-result"   feeds only sets/membership; the result is sorted before use   (zsort_perm, *_perm above)
     "singleton"       used only when the set has exactly one element               (singleton_perm)
     "len-member"      used only through length, membership, and [0] when singleton (singleton_perm)
     "delete-keys"     deletes/discards keys one by one                              (remove_blocks_perm)
     "commutative"     folds a commutative, associative, idempotent operation        (inter_all_perm)
     "ordered"         the iterable is not a set at all (list / dict / sorted list): the scanner could not infer it
     "fixpoint"        order can change intermediate states only; the final value is a unique fixpoint /
                       closure — NOT proved here, covered by the cross-seed runs only *)
Local Open Scope string_scope.
Definition reviewed : list (string * string * string * string * string * string) :=
  [ ("basic_block.py", "replace_jump_targets", "next-iter", "diff", "new_target = next(iter(diff))", "singleton");
    ("flow_info.py", "from_bytecode", "for?", "bc", "for inst in bc:", "ordered");
    ("scc.py", "scc", "for?", "G", "for source in G:", "ordered");
    ("scc.py", "sccr", "for?", "G", "for source in G:", "ordered");
    ("scfg.py", "find_exiting_and_exits", "for", "subgraph", "for inside in subgraph:", "sorted-result");
    ("scfg.py", "find_head", "next-iter", "heads", "return next(iter(heads))", "singleton");
    ("scfg.py", "remove_blocks", "for", "names", "for name in names:", "delete-keys");
    ("scfg.py", "reserve_names", "for?", "names", "for name in names:", "commutative");
    ("scfg.py", "make_scfg", "pop", "parent_names",
     "object.__setattr__(scfg.region, 'name', parent_names.pop())", "singleton");
    ("transformations.py", "_find_dominators_internal", "comp", "preds",
     "new_doms |= functools.reduce(set.intersection, [doms[p] for p in preds])", "commutative");
    ("transformations.py", "_find_dominators_internal", "extend", "succs_table[n]", "todo.extend(succs_table[n])", "fixpoint");
    ("transformations.py", "_find_dominators_internal", "for", "entries", "for e in entries:", "fixpoint");
    ("transformations.py", "_imm_doms", "list", "vs", "for v in list(vs):", "fixpoint");
    ("transformations.py", "extract_region", "for?", "entries", "for name in entries:", "ordered");
    ("transformations.py", "find_tail_blocks", "for?", "sub", "for s in sub:", "delete-keys");
    ("transformations.py", "loop_restructure_helper", "comp", "loop",
     "backedge_blocks = [block for block in loop if set(headers).intersection(scfg[block].jump_targets)]", "len-member");
    ("transformations.py", "loop_restructure_helper", "for?", "headers", "for h in headers:", "ordered");
    ("transformations.py", "restructure_branch", "for?", "branch_regions", "for region in branch_regions:", "ordered");
    ("transformations.py", "restructure_loop", "next-iter", "nodes",
     "loops: List[Set[str]] = [nodes for nodes in scc if len(nodes) > 1 or next(iter(nodes)) in scfg[next(iter(nodes))].jump_targets]",
     "singleton");
    ("ast_transforms.py", "prune_unreachable", "pop", "to_visit", "block = to_visit.pop()", "fixpoint") ].

Definition site_eqb (a : string * string * string * string * string)
                    (b : string * string * string * string * string * string) : bool :=
  let '(f1, n1, k1, e1, t1) := a in
  let '(f2, n2, k2, e2, t2, _) := b in
  String.eqb f1 f2 && String.eqb n1 n2 && String.eqb k1 k2 && String.eqb e1 e2 && String.eqb t1 t2.

Definition sites_covered (sites : list (string * string * string * string * string)) : bool :=
  forallb (fun s => existsb (site_eqb s) reviewed) sites.

Definition proved_classes : list string :=
  ["sorted-result"; "singleton"; "len-member"; "delete-keys"; "commutative"; "ordered"].

(* SrcEIdx.v — block indices of the front-end model with expressions are pairwise
   distinct, for every program (no condition on the shape of its expressions). *)
From Coq Require Import List ZArith Bool Lia.
Import ListNotations.
From V Require Import Model.SrcE Model.SrcEProof.
Local Open Scope Z_scope.

Definition idxs (st : bst) : list Z := b_idx (cur st) :: map b_idx (done st).

(* N: fresh indices, all within [lo, hi) *)
Definition Fr (lo hi : Z) (N : list Z) : Prop := NoDup N /\ forall i, In i N -> lo <= i < hi.

Definition Frame (st st' : bst) : Prop :=
  exists N, idxs st' = N ++ idxs st /\ Fr (next st) (next st') N /\ next st <= next st'.

Lemma NoDup_app_intro {A} (l1 l2 : list A) :
  NoDup l1 -> NoDup l2 -> (forall x, In x l1 -> ~ In x l2) -> NoDup (l1 ++ l2).
Proof.
  induction l1 as [|a l1 IH]; intros H1 H2 Hd; [exact H2|].
  inversion H1 as [|? ? Hn H1']; subst. cbn. constructor.
  - rewrite in_app_iff. intros [H|H]; [contradiction|]. eapply Hd; [left; reflexivity|exact H].
  - apply IH; [exact H1'|exact H2|]. intros x Hx. apply Hd. right. exact Hx.
Qed.

Lemma Frame_refl st : Frame st st.
Proof. exists []. split; [reflexivity|]. split; [split; [constructor|intros i []]|lia]. Qed.

(* operations that create no block *)
Lemma Frame_same st st1 st2 :
  idxs st2 = idxs st1 -> next st2 = next st1 -> Frame st st1 -> Frame st st2.
Proof. intros Hi Hn [N [H1 [H2 H3]]]. exists N. rewrite Hi, Hn. auto. Qed.

Lemma Frame_bump k st st1 : 0 <= k -> Frame st st1 -> Frame st (bump k st1).
Proof.
  intros Hk [N [H1 [[H2 H2'] H3]]]. exists N. split; [exact H1|]. cbn. split; [|lia].
  split; [exact H2|]. intros i Hi. specialize (H2' i Hi). lia.
Qed.

(* creating block i, where i lies below the counter and was not used since st *)
Lemma Frame_addblk i st st1 :
  Frame st st1 -> next st <= i < next st1 -> ~ In i (idxs st1) -> Frame st (addblk i st1).
Proof.
  intros [N [H1 [[H2 H2'] H3]]] Hi Hn. exists (i :: N). split.
  - unfold idxs in *. cbn. rewrite <- H1. reflexivity.
  - split; [|exact H3]. split.
    + constructor; [|exact H2]. intros Hin. apply Hn. rewrite H1. apply in_or_app. left. exact Hin.
    + intros j [<-|Hj]; [exact Hi|apply H2'; exact Hj].
Qed.

Lemma Frame_trans st st1 st2 : Frame st st1 -> Frame st1 st2 ->
  (forall i, In i (idxs st) -> i < next st) -> Frame st st2.
Proof.
  intros [N1 [A1 [[B1 B1'] C1]]] [N2 [A2 [[B2 B2'] C2]]] Hold. exists (N2 ++ N1). split.
  - rewrite A2, A1. rewrite app_assoc. reflexivity.
  - split; [|lia]. split.
    + apply NoDup_app_intro; [exact B2|exact B1|]. intros x H2x H1x.
      specialize (B2' x H2x). specialize (B1' x H1x). lia.
    + intros i Hi. apply in_app_or in Hi as [Hi|Hi]; [specialize (B2' i Hi)|specialize (B1' i Hi)]; lia.
Qed.

(* every index in use lies below the counter *)
Definition Below (st : bst) : Prop := forall i, In i (idxs st) -> i < next st.

Lemma Frame_below st st' : Below st -> Frame st st' -> Below st'.
Proof.
  intros Hb [N [H1 [[H2 H2'] H3]]] i Hi. rewrite H1 in Hi. apply in_app_or in Hi as [Hi|Hi].
  - specialize (H2' i Hi). lia.
  - specialize (Hb i Hi). lia.
Qed.

(* an index at or above the counter of st1 is not in use in st1 *)
Lemma not_used st1 i : Below st1 -> next st1 <= i -> ~ In i (idxs st1).
Proof. intros Hb Hi Hin. specialize (Hb i Hin). lia. Qed.

Lemma idxs_emit i st : idxs (emit i st) = idxs st.  Proof. reflexivity. Qed.
Lemma idxs_setjt j st : idxs (setjt j st) = idxs st.  Proof. reflexivity. Qed.
Lemma idxs_seal lp d st : idxs (seal lp d st) = idxs st.
Proof. unfold seal. destruct lp as [[h e]|]; destruct (last_instr (cur st)) as [[]|]; reflexivity. Qed.
Lemma next_seal lp d st : next (seal lp d st) = next st.
Proof. unfold seal. destruct lp as [[h e]|]; destruct (last_instr (cur st)) as [[]|]; reflexivity. Qed.

Lemma unused_frame a b i : Frame a b -> i < next a -> ~ In i (idxs a) -> ~ In i (idxs b).
Proof.
  intros [N [H1 [[H2 H2'] H3]]] Hi Hn Hin. rewrite H1 in Hin. apply in_app_or in Hin as [Hin|Hin].
  - specialize (H2' i Hin). lia.
  - contradiction.
Qed.

Lemma next_mono a b : Frame a b -> next a <= next b.
Proof. intros [N [_ [_ H]]]. exact H. Qed.

Lemma unused_addblk j s i : i <> j -> ~ In i (idxs s) -> ~ In i (idxs (addblk j s)).
Proof. intros Hne Hn [H|H]; [apply Hne; symmetry; exact H|apply Hn; exact H]. Qed.

Lemma unused_below s i : Below s -> next s <= i -> ~ In i (idxs s).
Proof. intros Hb Hi Hin. specialize (Hb i Hin). lia. Qed.

(* a compound statement: bump the counter by k, then any number of phases, each of
   which keeps the frame; the lemma below packages one phase "run a sub-suite, seal,
   create a pre-allocated block" *)
Lemma phase (st a : bst) (j : Z) lp d (sub : bst -> bst) :
  Below st -> Frame st a -> Below a ->
  (forall s0, Below s0 -> Frame s0 (sub s0)) ->
  next st <= j < next a -> ~ In j (idxs a) ->
  Frame st (addblk j (seal lp d (sub a))) /\
  (forall i, i < next a -> ~ In i (idxs a) -> i <> j -> ~ In i (idxs (addblk j (seal lp d (sub a))))).
Proof.
  intros Hb Fa Ba Hsub Hj Hnj.
  pose proof (Hsub a Ba) as Fs.
  assert (F1 : Frame st (sub a)) by (eapply Frame_trans; eauto).
  assert (F2 : Frame st (seal lp d (sub a))).
  { eapply Frame_same; [apply idxs_seal|apply next_seal|exact F1]. }
  split.
  - apply Frame_addblk; [exact F2| |].
    + rewrite next_seal. pose proof (next_mono _ _ Fs). lia.
    + rewrite idxs_seal. eapply unused_frame; [exact Fs|lia|exact Hnj].
  - intros i Hi Hni Hne. apply unused_addblk; [exact Hne|]. rewrite idxs_seal.
    eapply unused_frame; [exact Fs|exact Hi|exact Hni].
Qed.


(* ---------- expressions ---------- *)
Definition FrameTh (th : bst -> rexpr * bst) : Prop :=
  forall st, Below st -> Frame st (snd (th st)).

Lemma frame_boolop isor first second : FrameTh first -> FrameTh second -> FrameTh (boolop isor first second).
Proof.
  intros HF HS st Hb. unfold boolop.
  destruct (newtmp st) as [k st0] eqn:Ent.
  assert (Hst0 : st0 = snd (newtmp st)) by (rewrite Ent; reflexivity).
  assert (F0 : Frame st st0) by (rewrite Hst0; apply (Frame_same st st); [reflexivity|reflexivity|apply Frame_refl]).
  assert (B0 : Below st0) by exact (Frame_below st st0 Hb F0).
  pose proof (HF st0 B0) as F01. destruct (first st0) as [l st1] eqn:EF. cbn [snd] in F01.
  assert (F1 : Frame st st1) by exact (Frame_trans st st0 st1 F0 F01 Hb).
  set (st2 := emit (ISet k l) st1).
  assert (F2 : Frame st st2) by exact F1.
  assert (B2 : Below st2) by exact (Frame_below st st2 Hb F2).
  set (other := next st2). set (merge := other + 1).
  set (jts := if isor then [merge; other] else [other; merge]).
  set (st3 := setjt jts (emit (ITest (RTmp k)) (bump 2 st2))).
  assert (F3 : Frame st st3) by (apply (Frame_bump 2 st st2); [lia|exact F2]).
  assert (N2 : next st <= next st2) by (apply (next_mono _ _ F2)).
  assert (F4 : Frame st (addblk other st3)).
  { apply Frame_addblk; [exact F3|change (next st3) with (next st2 + 2); unfold other; lia|].
    change (idxs st3) with (idxs st2). apply unused_below; [exact B2|unfold other; lia]. }
  set (st4 := addblk other st3) in *.
  assert (B4 : Below st4) by exact (Frame_below st st4 Hb F4).
  pose proof (HS st4 B4) as F45. destruct (second st4) as [r2 st5] eqn:ES. cbn [snd] in F45.
  assert (F5 : Frame st st5) by exact (Frame_trans st st4 st5 F4 F45 Hb).
  cbn [snd].
  apply Frame_addblk.
  - exact F5.
  - change (next (setjt [merge] (emit (ISet k r2) st5))) with (next st5).
    pose proof (next_mono _ _ F45) as N45. change (next st4) with (next st2 + 2) in N45. unfold merge, other. lia.
  - change (idxs (setjt [merge] (emit (ISet k r2) st5))) with (idxs st5).
    eapply unused_frame; [exact F45|change (next st4) with (next st2 + 2); unfold merge, other; lia|].
    apply unused_addblk; [unfold merge; lia|].
    change (idxs st3) with (idxs st2). apply unused_below; [exact B2|unfold merge, other; lia].
Qed.

Lemma frame_hexpr e : FrameTh (hexpr e).
Proof.
  induction e as [a|o es IH|c es IH] using expr_ind'.
  - intros st Hb. apply Frame_refl.
  - assert (H : FrameTh (hchain o es)).
    { induction es as [|a es IHes]; [intros st Hb; apply (Frame_same st st); [reflexivity|reflexivity|apply Frame_refl]|].
      inversion IH as [|? ? Pa Pr]; subst.
      destruct es as [|b [|d r]].
      - intros st Hb. apply (Frame_same st st); [reflexivity|reflexivity|apply Frame_refl].
      - inversion Pr as [|? ? Pb _]; subst. intros st Hb. cbn [hchain].
        pose proof (Pa st Hb) as Fa. destruct (hexpr a st) as [ra st1] eqn:Ea. cbn [snd] in Fa.
        assert (B1 : Below st1) by exact (Frame_below st st1 Hb Fa).
        pose proof (Pb st1 B1) as Fb. destruct (hexpr b st1) as [rb st2] eqn:Eb. cbn [snd] in Fb.
        assert (F12 : Frame st st2) by exact (Frame_trans st st1 st2 Fa Fb Hb).
        assert (B2 : Below st2) by exact (Frame_below st st2 Hb F12).
        eapply Frame_trans; [exact F12| |exact Hb].
        apply (frame_boolop o (fun s => (ra, s)) (fun s => (rb, s))); [| |exact B2];
          intros s0 Hs0; apply Frame_refl.
      - change (hchain o (a :: b :: d :: r)) with (boolop o (fun s => hexpr a s) (fun s => hchain o (b :: d :: r) s)).
        apply frame_boolop; [exact Pa|apply IHes; exact Pr]. }
    intros st Hb. rewrite hexpr_bool. apply H. exact Hb.
  - assert (H : forall st, Below st -> Frame st (snd (hlist es st))).
    { induction es as [|x r IHr]; intros st Hb; [apply Frame_refl|].
      inversion IH as [|? ? Px Pr]; subst. cbn [hlist].
      pose proof (Px st Hb) as Fx. destruct (hexpr x st) as [rx st1] eqn:Ex. cbn [snd] in Fx.
      assert (B1 : Below st1) by exact (Frame_below st st1 Hb Fx).
      pose proof (IHr Pr st1 B1) as Fr. destruct (hlist r st1) as [rr st2] eqn:Er. cbn [snd] in *.
      exact (Frame_trans st st1 st2 Fx Fr Hb). }
    intros st Hb. rewrite hexpr_op. pose proof (H st Hb) as F. destruct (hlist es st) as [rs st1]. exact F.
Qed.

Lemma frame_hx e st : Below st -> Frame st (snd (hx e st)).
Proof. apply frame_hexpr. Qed.

(* ---------- statements ---------- *)
Lemma frame_cg :
  (forall x lp st, Below st -> Frame st (cg_stmt x lp st)) /\
  (forall l lp st, Below st -> Frame st (cg_stmts l lp st)).
Proof.
  apply stmt_stmts_ind.
  - (* SAct *)
    intros a e lp st Hb. cbn [cg_stmt]. pose proof (frame_hx e st Hb) as F. destruct (hx e st) as [r st1]. exact F.
  - intros a lp st Hb. apply (Frame_same st st); [reflexivity|reflexivity|apply Frame_refl].
  - intros a [e|] lp st Hb; cbn [cg_stmt].
    + pose proof (frame_hx e st Hb) as F. destruct (hx e st) as [r st1]. exact F.
    + apply (Frame_same st st); [reflexivity|reflexivity|apply Frame_refl].
  - intros a lp st Hb. apply (Frame_same st st); [reflexivity|reflexivity|apply Frame_refl].
  - intros a lp st Hb. apply (Frame_same st st); [reflexivity|reflexivity|apply Frame_refl].
  - (* SIf *)
    intros c t IHt e IHe lp st Hb. cbn [cg_stmt].
    set (n := next st).
    assert (F0 : Frame st (bump 3 st)) by (apply (Frame_bump 3 st st); [lia|apply Frame_refl]).
    assert (B0 : Below (bump 3 st)) by exact (Frame_below st _ Hb F0).
    pose proof (frame_hx c (bump 3 st) B0) as Fc. destruct (hx c (bump 3 st)) as [rc st0] eqn:Ec. cbn [snd] in Fc.
    assert (F1 : Frame st st0) by exact (Frame_trans st _ st0 F0 Fc Hb).
    set (a1 := setjt [n; n + 1] (emit (ITest rc) st0)).
    assert (F1' : Frame st a1) by exact F1.
    assert (N1 : n + 3 <= next a1).
    { change (next a1) with (next st0). pose proof (next_mono _ _ Fc) as H. change (next (bump 3 st)) with (n + 3) in H. exact H. }
    (* n, n+1, n+2 were reserved before the test was processed: nothing created since uses them *)
    assert (U : forall i, n <= i < n + 3 -> ~ In i (idxs a1)).
    { intros i Hi. change (idxs a1) with (idxs st0). eapply unused_frame; [exact Fc|change (next (bump 3 st)) with (n + 3); lia|].
      change (idxs (bump 3 st)) with (idxs st). apply unused_below; [exact Hb|unfold n in Hi; lia]. }
    assert (F2 : Frame st (addblk n a1)) by (apply Frame_addblk; [exact F1'|lia|apply U; lia]).
    set (a2 := addblk n a1) in *.
    assert (B2 : Below a2) by exact (Frame_below st a2 Hb F2).
    assert (U2 : forall i, n + 1 <= i < n + 3 -> ~ In i (idxs a2)).
    { intros i Hi. apply unused_addblk; [lia|apply U; lia]. }
    destruct (phase st a2 (n + 1) lp (n + 2) (cg_stmts t lp) Hb F2 B2 (fun s0 => IHt lp s0)) as [F3 U3];
      [change (next a2) with (next a1); lia|apply U2; lia|].
    set (a3 := addblk (n + 1) (seal lp (n + 2) (cg_stmts t lp a2))) in *.
    assert (B3 : Below a3) by exact (Frame_below st a3 Hb F3).
    assert (N3 : n + 3 <= next a3).
    { change (next a3) with (next (seal lp (n + 2) (cg_stmts t lp a2))). rewrite next_seal.
      pose proof (next_mono _ _ (IHt lp a2 B2)). change (next a2) with (next a1) in H. lia. }
    destruct (phase st a3 (n + 2) lp (n + 2) (cg_stmts e lp) Hb F3 B3 (fun s0 => IHe lp s0)) as [F4 _];
      [lia|apply U3; [change (next a2) with (next a1); lia|apply U2; lia|lia]|].
    exact F4.
  - (* SWhile *)
    intros c b IHb o IHo lp st Hb. cbn [cg_stmt].
    set (n := next st).
    set (a1 := setjt [n] (bump 4 st)).
    assert (F1 : Frame st a1) by (apply (Frame_bump 4 st st); [lia|apply Frame_refl]).
    assert (U : forall i, n <= i -> ~ In i (idxs a1)) by (intros i Hi; apply (unused_below st i Hb Hi)).
    assert (F2 : Frame st (addblk n a1)) by (apply Frame_addblk; [exact F1|change (next a1) with (n + 4); lia|apply U; lia]).
    set (a2 := addblk n a1) in *.
    assert (B2 : Below a2) by exact (Frame_below st a2 Hb F2).
    pose proof (frame_hx c a2 B2) as Fc. destruct (hx c a2) as [rc a2'] eqn:Ec. cbn [snd] in Fc.
    assert (F2' : Frame st a2') by exact (Frame_trans st a2 a2' F2 Fc Hb).
    assert (N2 : n + 4 <= next a2') by (pose proof (next_mono _ _ Fc) as H; change (next a2) with (n + 4) in H; exact H).
    assert (U2 : forall i, n + 1 <= i < n + 4 -> ~ In i (idxs a2')).
    { intros i Hi. eapply unused_frame; [exact Fc|change (next a2) with (n + 4); lia|].
      apply unused_addblk; [lia|apply U; lia]. }
    set (a2t := setjt [n + 1; n + 3] (emit (ITest rc) a2')).
    assert (F3 : Frame st (addblk (n + 1) a2t)).
    { apply Frame_addblk; [exact F2'|change (next a2t) with (next a2'); lia|change (idxs a2t) with (idxs a2'); apply U2; lia]. }
    set (a3 := addblk (n + 1) a2t) in *.
    assert (B3 : Below a3) by exact (Frame_below st a3 Hb F3).
    assert (U3 : forall i, n + 2 <= i < n + 4 -> ~ In i (idxs a3)).
    { intros i Hi. apply unused_addblk; [lia|change (idxs a2t) with (idxs a2'); apply U2; lia]. }
    destruct (phase st a3 (n + 3) (Some (n, n + 2)) n (cg_stmts b (Some (n, n + 2))) Hb F3 B3
                    (fun s0 => IHb (Some (n, n + 2)) s0)) as [F4 U4];
      [change (next a3) with (next a2'); lia|apply U3; lia|].
    set (a4 := addblk (n + 3) (seal (Some (n, n + 2)) n (cg_stmts b (Some (n, n + 2)) a3))) in *.
    assert (B4 : Below a4) by exact (Frame_below st a4 Hb F4).
    assert (N4 : n + 4 <= next a4).
    { change (next a4) with (next (seal (Some (n, n + 2)) n (cg_stmts b (Some (n, n + 2)) a3))). rewrite next_seal.
      pose proof (next_mono _ _ (IHb (Some (n, n + 2)) a3 B3)). change (next a3) with (next a2') in H. lia. }
    destruct (phase st a4 (n + 2) lp (n + 2) (cg_stmts o lp) Hb F4 B4 (fun s0 => IHo lp s0)) as [F5 _];
      [lia|apply U4; [change (next a3) with (next a2'); lia|apply U3; lia|lia]|].
    exact F5.
  - (* SFor *)
    intros h tg it b IHb o IHo lp st Hb. cbn [cg_stmt].
    set (n := next st).
    set (s0 := bump 4 (chk (Z.eqb h n) st)).
    assert (F0 : Frame st s0).
    { apply (Frame_same st (bump 4 st) s0); [reflexivity|reflexivity|]. apply (Frame_bump 4 st st); [lia|apply Frame_refl]. }
    assert (B0 : Below s0) by exact (Frame_below st s0 Hb F0).
    pose proof (frame_hx it s0 B0) as Fi. destruct (hx it s0) as [ri st0] eqn:Ei. cbn [snd] in Fi.
    assert (F0' : Frame st st0) by exact (Frame_trans st s0 st0 F0 Fi Hb).
    assert (N0 : n + 4 <= next st0) by (pose proof (next_mono _ _ Fi) as H; change (next s0) with (n + 4) in H; exact H).
    assert (U : forall i, n <= i < n + 4 -> ~ In i (idxs st0)).
    { intros i Hi. eapply unused_frame; [exact Fi|change (next s0) with (n + 4); lia|].
      change (idxs s0) with (idxs st). apply unused_below; [exact Hb|unfold n in Hi; lia]. }
    set (a1 := setjt [n] (emit (IForInit tg) (emit (IForIter h ri) st0))).
    assert (F1 : Frame st a1) by exact F0'.
    assert (F2 : Frame st (addblk n a1)).
    { apply Frame_addblk; [exact F1|change (next a1) with (next st0); lia|change (idxs a1) with (idxs st0); apply U; lia]. }
    set (a2 := setjt [n + 1; n + 2] (emit (IForTest tg) (emit (IForNext h tg) (emit (IForSave h tg) (addblk n a1))))).
    assert (F2' : Frame st a2) by exact F2.
    assert (U2 : forall i, n + 1 <= i < n + 4 -> ~ In i (idxs a2)).
    { intros i Hi. apply (unused_addblk n a1 i); [lia|change (idxs a1) with (idxs st0); apply U; lia]. }
    assert (F3 : Frame st (addblk (n + 1) a2)).
    { apply Frame_addblk; [exact F2'|change (next a2) with (next st0); lia|apply U2; lia]. }
    set (a3 := addblk (n + 1) a2) in *.
    assert (B3 : Below a3) by exact (Frame_below st a3 Hb F3).
    assert (U3 : forall i, n + 2 <= i < n + 4 -> ~ In i (idxs a3)).
    { intros i Hi. apply unused_addblk; [lia|apply U2; lia]. }
    destruct (phase st a3 (n + 2) (Some (n, n + 3)) n (cg_stmts b (Some (n, n + 3))) Hb F3 B3
                    (fun s1 => IHb (Some (n, n + 3)) s1)) as [F4 U4];
      [change (next a3) with (next st0); lia|apply U3; lia|].
    set (a4 := addblk (n + 2) (seal (Some (n, n + 3)) n (cg_stmts b (Some (n, n + 3)) a3))) in *.
    set (a4' := emit (IForRestore h tg) a4).
    assert (F4' : Frame st a4') by exact F4.
    assert (B4 : Below a4') by exact (Frame_below st a4' Hb F4').
    assert (N4 : n + 4 <= next a4').
    { change (next a4') with (next (seal (Some (n, n + 3)) n (cg_stmts b (Some (n, n + 3)) a3))). rewrite next_seal.
      pose proof (next_mono _ _ (IHb (Some (n, n + 3)) a3 B3)). change (next a3) with (next st0) in H. lia. }
    destruct (phase st a4' (n + 3) lp (n + 3) (cg_stmts o lp) Hb F4' B4 (fun s1 => IHo lp s1)) as [F5 _];
      [lia|change (idxs a4') with (idxs a4); apply U4; [change (next a3) with (next st0); lia|apply U3; lia|lia]|].
    exact F5.
  - intros lp st Hb. apply Frame_refl.
  - intros x IHx r IHr lp st Hb. cbn [cg_stmts].
    destruct (is_jump x); [apply IHx; exact Hb|].
    eapply Frame_trans; [apply IHx; exact Hb| |exact Hb].
    apply IHr. eapply Frame_below; [exact Hb|apply IHx; exact Hb].
Qed.

Theorem build_indices_distinct body : NoDup (map b_idx (build body)).
Proof.
  unfold build, blocks_of.
  destruct (proj2 frame_cg body None st_init) as [N [H1 [[H2 H2'] H3]]].
  { intros i [<-|[]]. cbn. lia. }
  set (stF := cg_stmts body None st_init) in *.
  rewrite map_rev. apply NoDup_rev. change (map b_idx (cur stF :: done stF)) with (idxs stF).
  rewrite H1. apply NoDup_app_intro; [exact H2|repeat constructor; intros []|].
  intros x Hx [<-|[]]. specialize (H2' _ Hx). cbn in H2'. lia.
Qed.

(* LevelCons.v — property C05 for every edit that works on the dictionary of ONE level and is written back
   (LoopHier.write_back): if the new dictionary gives every original block of the level its class back (no
   table, no assignment) and as many successors, each the old one or a name unused before (a block without
   successors may gain one such successor: the common exit), then every original block of the hierarchy is still
   there - once, same payload, same parent, successors position by position unchanged or renamed to an inserted
   block - and nothing else has become an original block.  (Declared back edges are a marking the early return
   of the loop helper adds to an original block; the property does not speak about them.)  One boolean (cons_okb), evaluated on every call of
   loop_restructure_helper and insert_block the pipeline makes, the dictionary being read off the result. *)
From Coq Require Import List ZArith Bool Lia.
Import ListNotations.
From V Require Import Valid.Hier Valid.FlatRegion Model.Graph Model.Edits Model.Extract
     Model.LoopHier Model.JoinPath Model.LoopHierPath Model.Total2 Model.LoopHierApplic Model.HierEquiv.
Local Open Scope Z_scope.

Definition Renamed (h : hier) (t' t : name) : Prop := t' = t \/ find h t' = None.
(* position by position unchanged or renamed to an unused name; a block without successors may gain one
   successor that is an unused name (the common exit of join_returns) *)
Definition SuccsKept (h : hier) (l' l : list name) : Prop :=
  Forall2 (Renamed h) l' l \/ (l = [] /\ exists t', l' = [t'] /\ find h t' = None).

Section LevelCons.
Variables (h : hier) (lvl : name) (g' : egraph) (nl : node).
Let h' := write_back h lvl g'.
Hypothesis Hl : find h lvl = Some nl.
Hypothesis Hlr : is_region nl = true.
Hypothesis Hkeys' : NoDup (ekeys g').
Hypothesis Hlvl' : efind g' lvl = None.
Hypothesis Hcons : forall x n b p, efind g' x = Some b -> find h x = Some n -> n_kind n = KOrig p ->
  (exists c, e_kind b = EPlain c) /\ SuccsKept h (e_jt b) (n_jt n).

Lemma forall2_refl : forall l, Forall2 (Renamed h) l l.
Proof. induction l; constructor; [left; reflexivity|assumption]. Qed.

Theorem level_edit_conserves : forall x n p, find h x = Some n -> n_kind n = KOrig p ->
  exists n', find h' x = Some n' /\ n_kind n' = KOrig p /\ n_parent n' = n_parent n /\
             SuccsKept h (n_jt n') (n_jt n).
Proof.
  intros x n p Hn Hk.
  assert (Hx : x <> lvl) by (intros ->; rewrite Hl in Hn; injection Hn as <-; unfold is_region in Hlr; rewrite Hk in Hlr; discriminate).
  unfold h'. rewrite (find_write_back h lvl g' x nl Hkeys' Hl Hlvl' Hx).
  destruct (efind g' x) as [b|] eqn:Eb.
  - destruct (Hcons x n b p Eb Hn Hk) as [[c Ek] Hj]. eexists. split; [reflexivity|].
    unfold node_back. rewrite Hn. cbn [n_kind n_be n_parent n_jt]. rewrite Ek, Hk. cbn [kind_back]. auto.
  - exists n. split; [exact Hn|]. split; [exact Hk|]. split; [reflexivity|left; apply forall2_refl].
Qed.

Theorem level_edit_creates_no_original : forall x n' p, find h' x = Some n' -> n_kind n' = KOrig p ->
  exists n, find h x = Some n /\ n_kind n = KOrig p.
Proof.
  intros x n' p Hn' Hk'.
  destruct (Z.eq_dec x lvl) as [->|Hx].
  - unfold h' in Hn'. rewrite (find_write_back_lvl h lvl g' nl Hkeys' Hl Hlvl') in Hn'. injection Hn' as <-.
    unfold with_children in Hk'. unfold is_region in Hlr. destruct (n_kind nl); try discriminate.
  - unfold h' in Hn'. rewrite (find_write_back h lvl g' x nl Hkeys' Hl Hlvl' Hx) in Hn'.
    destruct (efind g' x) as [b|] eqn:Eb; [|eauto].
    injection Hn' as <-. unfold node_back in Hk'. destruct (find h x) as [n|] eqn:Hn; cbn [n_kind] in Hk'.
    + exists n. split; [reflexivity|]. destruct (e_kind b); cbn [kind_back] in Hk'; try discriminate. exact Hk'.
    + destruct (e_kind b); discriminate.
Qed.
End LevelCons.

Fixpoint renamedb (h : hier) (l' l : list name) : bool :=
  match l', l with
  | [], [] => true
  | t' :: r', t :: r => (Z.eqb t' t || is_none (find h t')) && renamedb h r' r
  | _, _ => false
  end.

Lemma renamedb_sound h : forall l' l, renamedb h l' l = true -> Forall2 (Renamed h) l' l.
Proof.
  induction l' as [|t' r' IH]; intros [|t r] H; cbn in H; try discriminate; constructor.
  - apply andb_true_iff in H as [H _]. apply orb_true_iff in H as [H|H]; [left; apply Z.eqb_eq; exact H|].
    right. destruct (find h t'); [discriminate|reflexivity].
  - apply IH. apply andb_true_iff in H as [_ H]. exact H.
Qed.

Definition cons_okb (h : hier) (lvl : name) (g' : egraph) : bool :=
  match find h lvl with
  | Some nl =>
    is_region nl && nodupb (ekeys g') && is_none (efind g' lvl) &&
    forallb (fun q => match find h (fst q) with
                      | Some n => match n_kind n with
                                  | KOrig _ => match e_kind (snd q) with EPlain _ => true | _ => false end &&
                                               (renamedb h (e_jt (snd q)) (n_jt n) ||
                                                match n_jt n, e_jt (snd q) with
                                                | [], [t'] => is_none (find h t')
                                                | _, _ => false end)
                                  | _ => true end
                      | None => true end) g'
  | None => false
  end.

Theorem level_edit_conserves_b h lvl g' : cons_okb h lvl g' = true ->
  (forall x n p, find h x = Some n -> n_kind n = KOrig p ->
     exists n', find (write_back h lvl g') x = Some n' /\ n_kind n' = KOrig p /\
                n_parent n' = n_parent n /\ SuccsKept h (n_jt n') (n_jt n)) /\
  (forall x n' p, find (write_back h lvl g') x = Some n' -> n_kind n' = KOrig p ->
     exists n, find h x = Some n /\ n_kind n = KOrig p).
Proof.
  unfold cons_okb. destruct (find h lvl) as [nl|] eqn:Hl; [|discriminate]. intros H.
  apply andb_true_iff in H as [H Hall]. apply andb_true_iff in H as [H Hlv]. apply andb_true_iff in H as [Hlr Hk].
  apply nodupb_sound in Hk. assert (Hlvl' : efind g' lvl = None) by (destruct (efind g' lvl); [discriminate|reflexivity]).
  split.
  - apply (level_edit_conserves h lvl g' nl Hl Hlr Hk Hlvl').
    intros x n b p Hb Hn Hkn. rewrite forallb_forall in Hall. specialize (Hall (x, b) (efind_In _ _ _ Hb)). cbn [fst snd] in Hall.
    rewrite Hn, Hkn in Hall. apply andb_true_iff in Hall as [A C].
    split; [destruct (e_kind b); try discriminate; eauto|]. apply orb_true_iff in C as [C|C].
    + left. apply renamedb_sound. exact C.
    + right. destruct (n_jt n); [|discriminate]. destruct (e_jt b) as [|t' [|? ?]]; try discriminate.
      split; [reflexivity|]. exists t'. split; [reflexivity|]. destruct (find h t'); [discriminate|reflexivity].
  - apply (level_edit_creates_no_original h lvl g' nl Hl Hlr Hk Hlvl').
Qed.

Definition cons_level_col (h ha : hier) (lvl : name) : Z :=
  match level_graph ha lvl with
  | Some g' => if cons_okb h lvl g' && xhier_eqb (write_back h lvl g') ha then 1 else 0
  | None => 0
  end.

(* LoopHierApplic.v — the hypotheses of LoopHierPath.loop_rotate_h_keeps_walks as ONE boolean
   (walk_pre_rot), proved to imply them: the theorem with a computable premise.  The
   extracted checker evaluates it on every rotation the pipeline performs (any level). *)
From Coq Require Import List ZArith Bool Lia.
Import ListNotations.
From V Require Import Valid.Hier Valid.Walk Valid.FlatRegion Model.Graph Model.Edits Model.Edits2 Model.Edits3
     Model.JoinPath Model.Refine Model.CbPath Model.ExtractPath Model.LoopEdit Model.LoopSpec Model.LoopPath
     Model.Extract Model.CbHier Model.LoopHier Model.Flatten Model.LoopRename Model.LoopHierPath Model.Total2 Model.Applic.
Local Open Scope Z_scope.

Definition ekind_eqb (a b : ekind) : bool :=
  match a, b with
  | EPlain c, EPlain c' => Z.eqb c c'
  | EAssign x, EAssign y => list_eqb (map fst x) (map fst y) && list_eqb (map snd x) (map snd y)
  | EBranch c v t, EBranch c' v' t' =>
    Z.eqb c c' && Z.eqb v v' && list_eqb (map fst t) (map fst t') && list_eqb (map snd t) (map snd t')
  | _, _ => false
  end.

Lemma split_eq {A B} (x y : list (A * B)) : map fst x = map fst y -> map snd x = map snd y -> x = y.
Proof.
  revert y. induction x as [|[a b] r IH]; intros [|[a' b'] r']; cbn; try discriminate; [reflexivity|].
  intros [= -> H1] [= -> H2]. f_equal. apply IH; assumption.
Qed.

Lemma ekind_eqb_eq a b : ekind_eqb a b = true -> a = b.
Proof.
  destruct a, b; cbn; try discriminate.
  - intros H. apply Z.eqb_eq in H. congruence.
  - intros H. apply andb_true_iff in H as [H1 H2]. apply list_eqb_eq in H1, H2. f_equal. apply split_eq; assumption.
  - intros H. repeat (apply andb_true_iff in H as [H ?]). apply Z.eqb_eq in H.
    match goal with H1 : Z.eqb _ _ = true |- _ => apply Z.eqb_eq in H1 end.
    repeat match goal with H1 : list_eqb _ _ = true |- _ => apply list_eqb_eq in H1 end.
    subst. f_equal. apply split_eq; assumption.
Qed.

Definition is_none {A} (o : option A) : bool := match o with None => true | Some _ => false end.
Definition leafb (h : hier) (x : name) : bool :=
  match find h x with Some n => negb (is_region n) | None => false end.

(* fit for flattening; jt_only: resolve the successors only (the result), else back edges and table targets too *)
Definition flat_okb (h : hier) (top : name) (jt_only : bool) : bool :=
  nodupb (Hier.names h) && negb (zmem top (Hier.names h)) &&
  forallb (fun n => match n_kind n with KPlain c => negb (Z.eqb c 100) | _ => true end) h &&
  forallb (fun n => is_region n ||
                    (forallb (resolves h) (if jt_only then n_jt n else node_targets n) &&
                     match n_kind n with KBranch _ _ tbl => forallb (fun p => zmem (snd p) (n_jt n)) tbl | _ => true end)) h.

Lemma flat_okb_sound h top jo : flat_okb h top jo = true ->
  NoDup (Hier.names h) /\ ~ In top (Hier.names h) /\ (forall n, In n h -> n_kind n <> KPlain 100) /\
  (forall x n t, find h x = Some n -> is_region n = false -> In t (if jo then n_jt n else node_targets n) ->
     enter_flat h (S (length h)) t <> None) /\
  (forall x n c v tbl z t, find h x = Some n -> n_kind n = KBranch c v tbl -> zassoc z tbl = Some t -> In t (n_jt n)).
Proof.
  unfold flat_okb. intros H.
  apply andb_true_iff in H as [H HL]. apply andb_true_iff in H as [H HP]. apply andb_true_iff in H as [H HT].
  split; [apply nodupb_sound; exact H|]. split; [apply negb_true_iff in HT; apply zmem_false in HT; exact HT|].
  split.
  - intros n Hn E. rewrite forallb_forall in HP. specialize (HP n Hn). rewrite E in HP. discriminate.
  - split.
    + intros x n t Hx Hl Ht. pose proof (find_forallb h _ HL x n Hx) as Hn. cbv beta in Hn. rewrite Hl in Hn. cbn [orb] in Hn.
      apply andb_true_iff in Hn as [Hn _]. rewrite forallb_forall in Hn. specialize (Hn t Ht). unfold resolves in Hn.
      destruct (enter_flat h (S (length h)) t); [discriminate|discriminate].
    + intros x n c v tbl z t Hx Hk Hz. pose proof (find_forallb h _ HL x n Hx) as Hn. cbv beta in Hn.
      assert (Hl : is_region n = false) by (unfold is_region; rewrite Hk; reflexivity). rewrite Hl in Hn. cbn [orb] in Hn.
      apply andb_true_iff in Hn as [_ Hn]. rewrite Hk in Hn. rewrite forallb_forall in Hn.
      apply zassoc_In in Hz. specialize (Hn (z, t) Hz). apply zmem_In in Hn. exact Hn.
Qed.

Definition nonbranchb (b : eblk) : bool := match e_kind b with EBranch _ _ _ => false | _ => true end.
Lemma nonbranchb_sound b : nonbranchb b = true -> nonbranch b.
Proof. unfold nonbranchb, nonbranch. intros H cc v t E. rewrite E in H. discriminate. Qed.

Definition vars_okb (ev bv : Z) (b : eblk) : bool :=
  match e_kind b with
  | EAssign a => forallb (fun p => negb (Z.eqb (fst p) ev) && negb (Z.eqb (fst p) bv)) a
  | EBranch _ v _ => negb (Z.eqb v ev) && negb (Z.eqb v bv)
  | EPlain _ => true
  end.

Definition walk_pre_rot (h : hier) (lvl top hd : name) (exits todo : list name) (isback : name -> name -> bool)
           (latch sexit : name) (ev bv : Z) (names : list name) : bool :=
  match find h lvl with
  | None => false
  | Some nl =>
    is_region nl &&
    match collect h (children_h nl) with
    | None => false
    | Some g1 =>
      match loop_rotate g1 hd [hd] exits todo false [] isback latch sexit ev bv names with
      | Ok g1' =>
        let h' := write_back h lvl g1' in
        let rh := rho h in
        let needs := match exits with _ :: _ :: _ => true | _ => false end in
        let ks := todo ++ names ++ [latch; sexit] in
        let dl := exits ++ hd :: latch :: sexit :: names ++
                  flat_map (fun p => match efind g1 p with Some b => e_jt b ++ e_be b | None => [] end) todo in
        flat_okb h top false && flat_okb h' top true &&
        nodupb (ekeys g1') && is_none (efind g1' lvl) &&
        forallb (fun p => negb (is_none (efind g1' p))) todo &&
        forallb (fun p => match efind g1 p, efind g1' p with
                          | Some b, Some b' => ekind_eqb (e_kind b') (e_kind b)
                          | _, _ => true end) todo &&
        forallb (fun x => match efind g1' x with
                          | Some b => forallb (fun t => resolves h t || is_none (find h t)) (blk_targets b)
                          | None => true end) ks &&
        forallb (fun x => is_none (find h x)) (names ++ [latch; sexit]) &&
        forallb (fun p => match find h p with
                          | Some n => negb (is_region n) && zmem p (children_h nl) &&
                                      match n_kind n with KBranch _ _ _ => false | _ => true end
                          | None => false end) todo &&
        nodupb todo && nodupb names && forallb (fun a => negb (zmem a todo)) names && leafb h hd &&
        forallb (fun a => forallb (fun b => negb (Z.eqb (rh a) (rh b)) || Z.eqb a b) dl) dl &&
        forallb (fun p => match efind (RL h) p with
                          | Some b => nonbranchb b && match e_be b with [] => true | _ => false end && nodupb (e_jt b) &&
                                      forallb (fun a => negb (zmem a (e_jt b))) names
                          | None => false end) todo &&
        forallb (fun a => negb (Z.eqb a latch) && negb (Z.eqb a sexit) && negb (Z.eqb a top)) names &&
        negb (Z.eqb latch top) && negb (zmem latch todo) &&
        (negb needs || (negb (Z.eqb sexit latch) && negb (Z.eqb sexit top) && negb (zmem sexit todo))) &&
        nodupb (map rh exits) && forallb (fun x => zmem x (ekeys (RL h))) (map rh exits) && negb (zmem hd (map rh exits)) &&
        negb (Z.eqb ev bv) && forallb (fun p => vars_okb ev bv (snd p)) (RL h)
      | _ => false
      end
    end
  end.

Ltac split_and H :=
  repeat match type of H with
         | (_ && _ = true) => let H2 := fresh "B" in apply andb_true_iff in H as [H H2]
         end.

Theorem loop_rotate_h_keeps_walks_b h lvl top hd exits todo isback latch sexit ev bv names strict :
  walk_pre_rot h lvl top hd exits todo isback latch sexit ev bv names = true ->
  exists nl g1 g1',
    find h lvl = Some nl /\ collect h (children_h nl) = Some g1 /\
    loop_rotate g1 hd [hd] exits todo false [] isback latch sexit ev bv names = Ok g1' /\
    forall n e e' ds tr st,
      (exists b p, find h n = Some b /\ n_kind b = KOrig p) ->
      E (Fl ev bv) e e' ->
      WTrace h (resolve_flat h) strict n e ds tr st ->
      WTrace (write_back h lvl g1') (resolve_flat (write_back h lvl g1')) strict n e' ds tr st.
Proof.
  unfold walk_pre_rot. destruct (find h lvl) as [nl|] eqn:Hl; [|discriminate].
  intros H. apply andb_true_iff in H as [Hlr H].
  destruct (collect h (children_h nl)) as [g1|] eqn:HLG; [|discriminate].
  destruct (loop_rotate g1 hd [hd] exits todo false [] isback latch sexit ev bv names) as [g1'| |] eqn:Hrot; try discriminate.
  exists nl, g1, g1'. split; [reflexivity|]. split; [exact HLG|]. split; [exact Hrot|].
  cbv zeta in H.
  apply andb_true_iff in H as [H Hvars].
  apply andb_true_iff in H as [H Hevbv].
  apply andb_true_iff in H as [H Hhdx].
  apply andb_true_iff in H as [H Hxin].
  apply andb_true_iff in H as [H Hxnd].
  apply andb_true_iff in H as [H Hsx].
  apply andb_true_iff in H as [H Hlt].
  apply andb_true_iff in H as [H Hltop].
  apply andb_true_iff in H as [H Hnm].
  apply andb_true_iff in H as [H HGt].
  apply andb_true_iff in H as [H Hinjb].
  apply andb_true_iff in H as [H Hhdl].
  apply andb_true_iff in H as [H Hnt].
  apply andb_true_iff in H as [H Hndn].
  apply andb_true_iff in H as [H Hndt].
  apply andb_true_iff in H as [H Htodo].
  apply andb_true_iff in H as [H Hfr].
  apply andb_true_iff in H as [H Hrn].
  apply andb_true_iff in H as [H Hkd].
  apply andb_true_iff in H as [H Hst].
  apply andb_true_iff in H as [H Hlv].
  apply andb_true_iff in H as [H Hk'].
  apply andb_true_iff in H as [H Hf'].
  destruct (flat_okb_sound h top false H) as [F1 [F2 [F3 [F4 F5]]]].
  destruct (flat_okb_sound _ top true Hf') as [F1' [F2' [F3' [F4' F5']]]].
  assert (Hfresh : forall x, In x names \/ x = latch \/ x = sexit -> find h x = None).
  { intros x Hx. rewrite forallb_forall in Hfr.
    assert (Hi : In x (names ++ [latch; sexit])).
    { apply in_or_app. destruct Hx as [Hx|[->| ->]]; [left; exact Hx|right; left; reflexivity|right; right; left; reflexivity]. }
    specialize (Hfr x Hi). destruct (find h x); [discriminate|reflexivity]. }
  apply (loop_rotate_h_keeps_walks h lvl top hd nl exits todo isback latch sexit ev bv names g1 g1' strict Hl Hlr HLG Hrot
           F1 F2 F3 F4 F5 F1' F2' F3' F4' F5').
  - apply nodupb_sound. exact Hk'.
  - destruct (efind g1' lvl); [discriminate|reflexivity].
  - intros p Hp E. rewrite forallb_forall in Hst. specialize (Hst p Hp). rewrite E in Hst. discriminate.
  - intros p b b' Hp Hb Hb'. rewrite forallb_forall in Hkd. specialize (Hkd p Hp). rewrite Hb, Hb' in Hkd.
    apply ekind_eqb_eq. exact Hkd.
  - intros x b t Hx Hb Ht. rewrite forallb_forall in Hrn.
    assert (Hi : In x (todo ++ names ++ [latch; sexit])).
    { apply in_or_app. destruct Hx as [Hx|[Hx|[->| ->]]]; [left; exact Hx|right; apply in_or_app; left; exact Hx| |];
        right; apply in_or_app; right; [left|right; left]; reflexivity. }
    specialize (Hrn x Hi). rewrite Hb in Hrn. rewrite forallb_forall in Hrn. specialize (Hrn t Ht).
    apply orb_true_iff in Hrn as [Hr|Hr].
    + left. unfold resolves in Hr. destruct (enter_flat h (S (length h)) t); [discriminate|discriminate].
    + right. destruct (find h t); [discriminate|reflexivity].
  - exact Hfresh.
  - intros p Hp. rewrite forallb_forall in Htodo. specialize (Htodo p Hp).
    destruct (find h p) as [n|]; [|discriminate]. apply andb_true_iff in Htodo as [Ht1 Ht3]. apply andb_true_iff in Ht1 as [Ht1 Ht2].
    exists n. split; [reflexivity|]. split; [apply negb_true_iff; exact Ht1|]. split; [exact Ht2|].
    intros c v t E. rewrite E in Ht3. discriminate.
  - apply nodupb_sound. exact Hndt.
  - apply nodupb_sound. exact Hndn.
  - intros a Ha. rewrite forallb_forall in Hnt. specialize (Hnt a Ha). apply negb_true_iff in Hnt. apply zmem_false in Hnt. exact Hnt.
  - unfold leafb in Hhdl. destruct (find h hd) as [n|]; [|discriminate]. exists n. split; [reflexivity|apply negb_true_iff; exact Hhdl].
  - intros a b Ha Hb E. rewrite forallb_forall in Hinjb. specialize (Hinjb a Ha). rewrite forallb_forall in Hinjb. specialize (Hinjb b Hb).
    apply orb_true_iff in Hinjb as [Hn|Hn]; [apply negb_true_iff in Hn; apply Z.eqb_neq in Hn; contradiction|apply Z.eqb_eq; exact Hn].
  - intros p Hp. rewrite forallb_forall in HGt. specialize (HGt p Hp). destruct (efind (RL h) p) as [b|]; [|discriminate].
    repeat (apply andb_true_iff in HGt as [HGt ?]).
    exists b. split; [reflexivity|]. split; [apply nonbranchb_sound; exact HGt|].
    split; [destruct (e_be b); [reflexivity|discriminate]|]. split; [apply nodupb_sound; assumption|].
    intros a Ha. match goal with X : forallb (fun a0 => negb (zmem a0 (e_jt b))) names = true |- _ => rewrite forallb_forall in X; specialize (X a Ha);
      apply negb_true_iff in X; apply zmem_false in X; exact X end.
  - intros a Ha. rewrite forallb_forall in Hnm. specialize (Hnm a Ha). repeat (apply andb_true_iff in Hnm as [Hnm ?]).
    repeat match goal with X : negb (Z.eqb _ _) = true |- _ => apply negb_true_iff in X; apply Z.eqb_neq in X end. auto.
  - apply negb_true_iff in Hltop, Hlt. apply Z.eqb_neq in Hltop. apply zmem_false in Hlt. auto.
  - intros Hn. rewrite Hn in Hsx. cbn [negb orb] in Hsx. repeat (apply andb_true_iff in Hsx as [Hsx ?]).
    repeat match goal with X : negb (Z.eqb _ _) = true |- _ => apply negb_true_iff in X; apply Z.eqb_neq in X end.
    match goal with X : negb (zmem sexit todo) = true |- _ => apply negb_true_iff in X; apply zmem_false in X end. auto.
  - split; [apply nodupb_sound; exact Hxnd|]. split.
    + intros x Hx. rewrite forallb_forall in Hxin. apply zmem_In. apply Hxin. exact Hx.
    + apply negb_true_iff in Hhdx. apply zmem_false in Hhdx. exact Hhdx.
  - split; [apply negb_true_iff in Hevbv; apply Z.eqb_neq in Hevbv; exact Hevbv|].
    intros x b Hb. rewrite forallb_forall in Hvars. unfold efind in Hb. apply zassoc_In in Hb. specialize (Hvars (x, b) Hb).
    unfold vars_okb in Hvars. cbn [snd] in Hvars. destruct (e_kind b) as [c|a|c v t]; [exact I| |].
    + intros p Hp. rewrite forallb_forall in Hvars. specialize (Hvars p Hp). apply andb_true_iff in Hvars as [A B0].
      apply negb_true_iff in A, B0. apply Z.eqb_neq in A, B0. auto.
    + apply andb_true_iff in Hvars as [A B0]. apply negb_true_iff in A, B0. apply Z.eqb_neq in A, B0. auto.
Qed.

Theorem loop_rotate_h_keeps_ctrace_b h lvl top hd exits todo isback latch sexit ev bv names strict :
  walk_pre_rot h lvl top hd exits todo isback latch sexit ev bv names = true ->
  exists nl g1 g1',
    find h lvl = Some nl /\ collect h (children_h nl) = Some g1 /\
    loop_rotate g1 hd [hd] exits todo false [] isback latch sexit ev bv names = Ok g1' /\
    forall n e e' ds,
      (exists b p, find h n = Some b /\ n_kind b = KOrig p) ->
      E (Fl ev bv) e e' ->
      CTrace h (resolve_flat h) strict n e ds ->
      CTrace (write_back h lvl g1') (resolve_flat (write_back h lvl g1')) strict n e' ds.
Proof.
  unfold walk_pre_rot. destruct (find h lvl) as [nl|] eqn:Hl; [|discriminate].
  intros H. apply andb_true_iff in H as [Hlr H].
  destruct (collect h (children_h nl)) as [g1|] eqn:HLG; [|discriminate].
  destruct (loop_rotate g1 hd [hd] exits todo false [] isback latch sexit ev bv names) as [g1'| |] eqn:Hrot; try discriminate.
  exists nl, g1, g1'. split; [reflexivity|]. split; [exact HLG|]. split; [exact Hrot|].
  cbv zeta in H.
  apply andb_true_iff in H as [H Hvars].
  apply andb_true_iff in H as [H Hevbv].
  apply andb_true_iff in H as [H Hhdx].
  apply andb_true_iff in H as [H Hxin].
  apply andb_true_iff in H as [H Hxnd].
  apply andb_true_iff in H as [H Hsx].
  apply andb_true_iff in H as [H Hlt].
  apply andb_true_iff in H as [H Hltop].
  apply andb_true_iff in H as [H Hnm].
  apply andb_true_iff in H as [H HGt].
  apply andb_true_iff in H as [H Hinjb].
  apply andb_true_iff in H as [H Hhdl].
  apply andb_true_iff in H as [H Hnt].
  apply andb_true_iff in H as [H Hndn].
  apply andb_true_iff in H as [H Hndt].
  apply andb_true_iff in H as [H Htodo].
  apply andb_true_iff in H as [H Hfr].
  apply andb_true_iff in H as [H Hrn].
  apply andb_true_iff in H as [H Hkd].
  apply andb_true_iff in H as [H Hst].
  apply andb_true_iff in H as [H Hlv].
  apply andb_true_iff in H as [H Hk'].
  apply andb_true_iff in H as [H Hf'].
  destruct (flat_okb_sound h top false H) as [F1 [F2 [F3 [F4 F5]]]].
  destruct (flat_okb_sound _ top true Hf') as [F1' [F2' [F3' [F4' F5']]]].
  assert (Hfresh : forall x, In x names \/ x = latch \/ x = sexit -> find h x = None).
  { intros x Hx. rewrite forallb_forall in Hfr.
    assert (Hi : In x (names ++ [latch; sexit])).
    { apply in_or_app. destruct Hx as [Hx|[->| ->]]; [left; exact Hx|right; left; reflexivity|right; right; left; reflexivity]. }
    specialize (Hfr x Hi). destruct (find h x); [discriminate|reflexivity]. }
  apply (loop_rotate_h_keeps_ctrace h lvl top hd nl exits todo isback latch sexit ev bv names g1 g1' strict Hl Hlr HLG Hrot
           F1 F2 F3 F4 F5 F1' F2' F3' F4' F5').
  - apply nodupb_sound. exact Hk'.
  - destruct (efind g1' lvl); [discriminate|reflexivity].
  - intros p Hp E. rewrite forallb_forall in Hst. specialize (Hst p Hp). rewrite E in Hst. discriminate.
  - intros p b b' Hp Hb Hb'. rewrite forallb_forall in Hkd. specialize (Hkd p Hp). rewrite Hb, Hb' in Hkd.
    apply ekind_eqb_eq. exact Hkd.
  - intros x b t Hx Hb Ht. rewrite forallb_forall in Hrn.
    assert (Hi : In x (todo ++ names ++ [latch; sexit])).
    { apply in_or_app. destruct Hx as [Hx|[Hx|[->| ->]]]; [left; exact Hx|right; apply in_or_app; left; exact Hx| |];
        right; apply in_or_app; right; [left|right; left]; reflexivity. }
    specialize (Hrn x Hi). rewrite Hb in Hrn. rewrite forallb_forall in Hrn. specialize (Hrn t Ht).
    apply orb_true_iff in Hrn as [Hr|Hr].
    + left. unfold resolves in Hr. destruct (enter_flat h (S (length h)) t); [discriminate|discriminate].
    + right. destruct (find h t); [discriminate|reflexivity].
  - exact Hfresh.
  - intros p Hp. rewrite forallb_forall in Htodo. specialize (Htodo p Hp).
    destruct (find h p) as [n|]; [|discriminate]. apply andb_true_iff in Htodo as [Ht1 Ht3]. apply andb_true_iff in Ht1 as [Ht1 Ht2].
    exists n. split; [reflexivity|]. split; [apply negb_true_iff; exact Ht1|]. split; [exact Ht2|].
    intros c v t E. rewrite E in Ht3. discriminate.
  - apply nodupb_sound. exact Hndt.
  - apply nodupb_sound. exact Hndn.
  - intros a Ha. rewrite forallb_forall in Hnt. specialize (Hnt a Ha). apply negb_true_iff in Hnt. apply zmem_false in Hnt. exact Hnt.
  - unfold leafb in Hhdl. destruct (find h hd) as [n|]; [|discriminate]. exists n. split; [reflexivity|apply negb_true_iff; exact Hhdl].
  - intros a b Ha Hb E. rewrite forallb_forall in Hinjb. specialize (Hinjb a Ha). rewrite forallb_forall in Hinjb. specialize (Hinjb b Hb).
    apply orb_true_iff in Hinjb as [Hn|Hn]; [apply negb_true_iff in Hn; apply Z.eqb_neq in Hn; contradiction|apply Z.eqb_eq; exact Hn].
  - intros p Hp. rewrite forallb_forall in HGt. specialize (HGt p Hp). destruct (efind (RL h) p) as [b|]; [|discriminate].
    repeat (apply andb_true_iff in HGt as [HGt ?]).
    exists b. split; [reflexivity|]. split; [apply nonbranchb_sound; exact HGt|].
    split; [destruct (e_be b); [reflexivity|discriminate]|]. split; [apply nodupb_sound; assumption|].
    intros a Ha. match goal with X : forallb (fun a0 => negb (zmem a0 (e_jt b))) names = true |- _ => rewrite forallb_forall in X; specialize (X a Ha);
      apply negb_true_iff in X; apply zmem_false in X; exact X end.
  - intros a Ha. rewrite forallb_forall in Hnm. specialize (Hnm a Ha). repeat (apply andb_true_iff in Hnm as [Hnm ?]).
    repeat match goal with X : negb (Z.eqb _ _) = true |- _ => apply negb_true_iff in X; apply Z.eqb_neq in X end. auto.
  - apply negb_true_iff in Hltop, Hlt. apply Z.eqb_neq in Hltop. apply zmem_false in Hlt. auto.
  - intros Hn. rewrite Hn in Hsx. cbn [negb orb] in Hsx. repeat (apply andb_true_iff in Hsx as [Hsx ?]).
    repeat match goal with X : negb (Z.eqb _ _) = true |- _ => apply negb_true_iff in X; apply Z.eqb_neq in X end.
    match goal with X : negb (zmem sexit todo) = true |- _ => apply negb_true_iff in X; apply zmem_false in X end. auto.
  - split; [apply nodupb_sound; exact Hxnd|]. split.
    + intros x Hx. rewrite forallb_forall in Hxin. apply zmem_In. apply Hxin. exact Hx.
    + apply negb_true_iff in Hhdx. apply zmem_false in Hhdx. exact Hhdx.
  - split; [apply negb_true_iff in Hevbv; apply Z.eqb_neq in Hevbv; exact Hevbv|].
    intros x b Hb. rewrite forallb_forall in Hvars. unfold efind in Hb. apply zassoc_In in Hb. specialize (Hvars (x, b) Hb).
    unfold vars_okb in Hvars. cbn [snd] in Hvars. destruct (e_kind b) as [c|a|c v t]; [exact I| |].
    + intros p Hp. rewrite forallb_forall in Hvars. specialize (Hvars p Hp). apply andb_true_iff in Hvars as [A B0].
      apply negb_true_iff in A, B0. apply Z.eqb_neq in A, B0. auto.
    + apply andb_true_iff in Hvars as [A B0]. apply negb_true_iff in A, B0. apply Z.eqb_neq in A, B0. auto.
Qed.

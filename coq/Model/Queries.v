(* Queries.v — property C13: the graph queries of SCFG and transformations.py.
   find_head / find_headers_and_entries / find_exiting_and_exits are modelled
   line by line and specified directly.  Reachability, dominators,
   post-dominators and strongly connected components get reference
   definitions built on the verified closure of Graph.v, with specifications
   in terms of paths; the implementation is compared with them. *)
From Coq Require Import List ZArith Bool Lia Sorting.Sorted.
Import ListNotations.
From V Require Import Valid.Hier Model.Graph.
Local Open Scope Z_scope.

(* successors as the queries see them: non-back-edge targets; names outside the graph are sinks *)
Definition gsucc (g : graph) (x : name) : list name :=
  match gfind g x with Some b => jts b | None => [] end.

(* the same restricted to targets inside the graph (compute_scc, _doms) *)
Definition gsucc_in (g : graph) (x : name) : list name :=
  filter (fun t => zmem t (keys g)) (gsucc g x).

Definition gpred_in (g : graph) (x : name) : list name :=
  if zmem x (keys g)
  then filter (fun p => zmem x (gsucc g p)) (keys g) else [].

Definition universe (g : graph) : list name := keys g ++ flat_map (fun p => b_jt (snd p)) g.
Definition fuel_of (g : graph) : nat := Datatypes.S (length (universe g)).

(* ---------- find_head ---------- *)
Definition find_head (g : graph) : option name :=       (* None = AssertionError *)
  match filter (fun k => negb (existsb (fun p => zmem k (jts (snd p))) g)) (keys g) with
  | [h] => Some h
  | _ => None
  end.

Definition Targeted (g : graph) (k : name) : Prop := exists x b, In (x, b) g /\ In k (jts b).

Lemma targeted_dec g k :
  existsb (fun p => zmem k (jts (snd p))) g = true <-> Targeted g k.
Proof.
  rewrite existsb_exists. split.
  - intros [[x b] [Hin H]]. exists x, b. split; [exact Hin|apply zmem_In; exact H].
  - intros [x [b [Hin H]]]. exists (x, b). split; [exact Hin|apply zmem_In; exact H].
Qed.

Lemma filter_singleton {A} (f : A -> bool) (l : list A) (h : A) :
  NoDup l -> filter f l = [h] ->
  In h l /\ f h = true /\ forall k, In k l -> k <> h -> f k = false.
Proof.
  intros Hnd Hf.
  assert (Hh : In h (filter f l)) by (rewrite Hf; left; reflexivity).
  apply filter_In in Hh as [Hin Hfh]. split; [exact Hin|]. split; [exact Hfh|].
  intros k Hk Hne. destruct (f k) eqn:E; [|reflexivity].
  assert (In k (filter f l)) by (apply filter_In; auto). rewrite Hf in H.
  destruct H as [->|[]]. contradiction.
Qed.

Theorem find_head_spec g h :
  NoDup (keys g) -> find_head g = Some h ->
  In h (keys g) /\ ~ Targeted g h /\ forall k, In k (keys g) -> k <> h -> Targeted g k.
Proof.
  unfold find_head. intros Hnd H.
  set (f := fun k => negb (existsb (fun p : name * blk => zmem k (jts (snd p))) g)) in *.
  destruct (filter f (keys g)) as [|h' [|? ?]] eqn:Hf; try discriminate. injection H as ->.
  destruct (filter_singleton f _ _ Hnd Hf) as [Hin [Hh Hothers]]. unfold f in *.
  split; [exact Hin|]. split.
  - intros Ht. apply targeted_dec in Ht. rewrite Ht in Hh. discriminate.
  - intros k Hk Hne. specialize (Hothers k Hk Hne). apply negb_false_iff in Hothers.
    apply targeted_dec. exact Hothers.
Qed.

Theorem find_head_complete g h :
  NoDup (keys g) -> In h (keys g) -> ~ Targeted g h ->
  (forall k, In k (keys g) -> k <> h -> Targeted g k) -> find_head g = Some h.
Proof.
  intros Hnd Hin Hnt Hall. unfold find_head.
  set (f := fun k => negb (existsb (fun p => zmem k (jts (snd p))) g)).
  assert (Hf : forall k, In k (filter f (keys g)) <-> k = h).
  { intros k. rewrite filter_In. unfold f. split.
    - intros [Hk Hn]. destruct (Z.eq_dec k h) as [|Hne]; [assumption|].
      specialize (Hall k Hk Hne). apply targeted_dec in Hall. rewrite Hall in Hn. discriminate.
    - intros ->. split; [exact Hin|]. apply negb_true_iff.
      destruct (existsb _ g) eqn:E; [|reflexivity]. apply targeted_dec in E. contradiction. }
  assert (Hnd' : NoDup (filter f (keys g))) by (apply NoDup_filter; exact Hnd).
  destruct (filter f (keys g)) as [|a [|b r]] eqn:E.
  - exfalso. exact (proj2 (Hf h) eq_refl).
  - f_equal. apply Hf. left; reflexivity.
  - exfalso. assert (a = h) by (apply Hf; left; reflexivity).
    assert (b = h) by (apply Hf; right; left; reflexivity). subst.
    inversion Hnd' as [|? ? Hn _]. apply Hn. left; reflexivity.
Qed.

(* ---------- find_headers_and_entries ---------- *)
(* parent_entries: what the enclosing region's graph reports for this region
   (only used by the documented fallback; [] for the top-level graph) *)
Definition headers_entries (g : graph) (sub : list name) (parent_entries : list name)
  : option (list name * list name) :=
  let outside := filter (fun k => negb (zmem k sub)) (keys g) in
  let hits o := match gfind g o with
                | Some b => filter (fun t => zmem t sub) (b_jt b)
                | None => [] end in
  let headers := flat_map hits outside in
  let entries := filter (fun o => match hits o with [] => false | _ => true end) outside in
  match headers with
  | [] => match find_head g with
          | Some h => Some ([h], zsort parent_entries)
          | None => None
          end
  | _ => Some (zsort headers, zsort entries)
  end.

Definition IsHeader (g : graph) (sub : list name) (x : name) : Prop :=
  In x sub /\ exists o b, In o (keys g) /\ ~ In o sub /\ gfind g o = Some b /\ In x (b_jt b).
Definition IsEntry (g : graph) (sub : list name) (o : name) : Prop :=
  In o (keys g) /\ ~ In o sub /\ exists b x, gfind g o = Some b /\ In x (b_jt b) /\ In x sub.

Theorem headers_entries_spec g sub pe hs es :
  headers_entries g sub pe = Some (hs, es) ->
  StronglySorted Z.lt es /\
  ((exists x, IsHeader g sub x) ->
     StronglySorted Z.lt hs /\
     (forall x, In x hs <-> IsHeader g sub x) /\ (forall o, In o es <-> IsEntry g sub o)) /\
  ((~ exists x, IsHeader g sub x) ->
     (exists h, find_head g = Some h /\ hs = [h]) /\ (forall o, In o es <-> In o pe)).
Proof.
  unfold headers_entries.
  set (outside := filter (fun k => negb (zmem k sub)) (keys g)).
  set (hits := fun o => match gfind g o with
                        | Some b => filter (fun t => zmem t sub) (b_jt b) | None => [] end).
  assert (Hout : forall o, In o outside <-> In o (keys g) /\ ~ In o sub).
  { intros o. unfold outside. rewrite filter_In, negb_true_iff, zmem_false. tauto. }
  assert (Hhits : forall o x, In x (hits o) <-> exists b, gfind g o = Some b /\ In x (b_jt b) /\ In x sub).
  { intros o x. unfold hits. destruct (gfind g o) as [b|].
    - rewrite filter_In, zmem_In. split; [intros [? ?]; eauto|intros [b' [[= <-] [? ?]]]; auto].
    - split; [intros []|intros [b' [? _]]; discriminate]. }
  assert (Hhdr : forall x, In x (flat_map hits outside) <-> IsHeader g sub x).
  { intros x. rewrite in_flat_map. unfold IsHeader. split.
    - intros [o [Ho Hx]]. apply Hout in Ho as [Hk Hns]. apply Hhits in Hx as [b [Hb [Hx Hs]]].
      split; [exact Hs|]. exists o, b. auto.
    - intros [Hs [o [b [Hk [Hns [Hb Hx]]]]]]. exists o. split; [apply Hout; auto|].
      apply Hhits. exists b. auto. }
  assert (Hent : forall o, In o (filter (fun o => match hits o with [] => false | _ => true end) outside)
                           <-> IsEntry g sub o).
  { intros o. rewrite filter_In, Hout. unfold IsEntry. split.
    - intros [[Hk Hns] Hne]. split; [exact Hk|]. split; [exact Hns|].
      destruct (hits o) as [|x r] eqn:E; [discriminate|].
      assert (Hx : In x (hits o)) by (rewrite E; left; reflexivity).
      apply Hhits in Hx as [b [Hb [Hx Hs]]]. exists b, x. auto.
    - intros [Hk [Hns [b [x [Hb [Hx Hs]]]]]]. split; [auto|].
      assert (Hin : In x (hits o)) by (apply Hhits; exists b; auto).
      destruct (hits o); [destruct Hin|reflexivity]. }
  destruct (flat_map hits outside) as [|h0 r] eqn:E.
  - destruct (find_head g) as [h|] eqn:Hh; [|discriminate]. intros [= <- <-].
    split; [apply zsort_sorted|]. split.
    + intros [x Hx]. apply Hhdr in Hx. destruct Hx.
    + intros _. split; [exists h; auto|]. intros o. apply zsort_In.
  - intros [= <- <-]. change (zinsert h0 (zsort r)) with (zsort (h0 :: r)).
    split; [apply zsort_sorted|]. split.
    + intros _. split; [apply zsort_sorted|]. split.
      * intros x. rewrite zsort_In. apply Hhdr.
      * intros o. rewrite zsort_In. apply Hent.
    + intros Hno. exfalso. apply Hno. exists h0. apply Hhdr. left; reflexivity.
Qed.

(* ---------- find_exiting_and_exits ---------- *)
Definition exiting_exits (g : graph) (sub : list name) : option (list name * list name) :=
  if forallb (fun x => zmem x (keys g)) sub then      (* otherwise KeyError *)
    let outs x := filter (fun t => negb (zmem t sub)) (gsucc g x) in
    Some (zsort (filter (fun x => match outs x with [] => match gsucc g x with [] => true | _ => false end
                                               | _ => true end) sub),
          zsort (flat_map outs sub))
  else None.

Definition IsExiting (g : graph) (sub : list name) (x : name) : Prop :=
  In x sub /\ ((exists t, In t (gsucc g x) /\ ~ In t sub) \/ gsucc g x = []).
Definition IsExit (g : graph) (sub : list name) (t : name) : Prop :=
  ~ In t sub /\ exists x, In x sub /\ In t (gsucc g x).

Theorem exiting_exits_spec g sub xs es :
  exiting_exits g sub = Some (xs, es) ->
  StronglySorted Z.lt xs /\ StronglySorted Z.lt es /\
  (forall x, In x xs <-> IsExiting g sub x) /\ (forall t, In t es <-> IsExit g sub t).
Proof.
  unfold exiting_exits. destruct (forallb (fun x => zmem x (keys g)) sub); [|discriminate].
  intros [= <- <-].
  set (outs := fun x => filter (fun t => negb (zmem t sub)) (gsucc g x)).
  assert (Houts : forall x t, In t (outs x) <-> In t (gsucc g x) /\ ~ In t sub).
  { intros x t. unfold outs. rewrite filter_In, negb_true_iff, zmem_false. tauto. }
  split; [apply zsort_sorted|]. split; [apply zsort_sorted|]. split.
  - intros x. rewrite zsort_In, filter_In. unfold IsExiting. split.
    + intros [Hs H]. split; [exact Hs|]. fold (outs x) in H.
      destruct (outs x) as [|t r] eqn:E.
      * destruct (gsucc g x) eqn:Eg; [right; reflexivity|discriminate H].
      * left. exists t. apply Houts. rewrite E. left; reflexivity.
    + intros [Hs [[t [Ht Hns]]|He]]; (split; [exact Hs|]); fold (outs x).
      * assert (Hin : In t (outs x)) by (apply Houts; auto).
        destruct (outs x); [destruct Hin|reflexivity].
      * unfold outs. rewrite He. reflexivity.
  - intros t. rewrite zsort_In, in_flat_map. unfold IsExit. split.
    + intros [x [Hs Ht]]. apply Houts in Ht as [Ht Hns]. split; [exact Hns|]. exists x. auto.
    + intros [Hns [x [Hs Ht]]]. exists x. split; [exact Hs|]. apply Houts. auto.
Qed.

(* ---------- is_reachable_dfs: a path of at least one edge ---------- *)
Definition reach_ref (g : graph) (a b : name) : option bool :=
  match gfind g a with
  | None => None                                        (* KeyError *)
  | Some ba =>
    match closure (gsucc g) (fuel_of g) (jts ba) with
    | Some Rs => Some (zmem b Rs)
    | None => None
    end
  end.

Definition PathGe1 (g : graph) (a b : name) : Prop :=
  exists t, In t (gsucc g a) /\ Reach (gsucc g) t b.

Theorem reach_ref_spec g a b r :
  reach_ref g a b = Some r -> (r = true <-> PathGe1 g a b).
Proof.
  unfold reach_ref, PathGe1. destruct (gfind g a) as [ba|] eqn:Ha; [|discriminate].
  destruct (closure _ _ _) as [Rs|] eqn:Hc; [|discriminate]. intros [= <-].
  rewrite zmem_In, (closure_spec _ _ _ _ Hc). unfold gsucc at 2. rewrite Ha. tauto.
Qed.

(* ---------- dominators, generic in the direction ---------- *)
Section Dom.
Variable nodes : list name.
Variable sx : name -> list name.        (* successors in the chosen direction *)
Variable px : name -> list name.        (* predecessors in the chosen direction *)

Definition dentries : list name := filter (fun k => match px k with [] => true | _ => false end) nodes.
Definition sx_avoid (a x : name) : list name := if Z.eqb x a then [] else sx x.

(* a dominates b: a = b, or no entry reaches b along nodes different from a *)
Definition Dominates (a b : name) : Prop :=
  a = b \/ forall e, In e dentries -> e <> a -> ~ Reach (sx_avoid a) e b.

Definition dom_ref (fuel : nat) (a b : name) : option bool :=
  if Z.eqb a b then Some true else
  match closure (sx_avoid a) fuel (filter (fun e => negb (Z.eqb e a)) dentries) with
  | Some Rs => Some (negb (zmem b Rs))
  | None => None
  end.

Theorem dom_ref_spec fuel a b r : dom_ref fuel a b = Some r -> (r = true <-> Dominates a b).
Proof.
  unfold dom_ref, Dominates. destruct (Z.eqb a b) eqn:E.
  - apply Z.eqb_eq in E. intros [= <-]. tauto.
  - apply Z.eqb_neq in E. destruct (closure _ _ _) as [Rs|] eqn:Hc; [|discriminate].
    intros [= <-]. rewrite negb_true_iff, zmem_false, (closure_spec _ _ _ _ Hc). split.
    + intros Hn. right. intros e He Hne Hr. apply Hn. exists e. split; [|exact Hr].
      apply filter_In. split; [exact He|]. apply negb_true_iff. apply Z.eqb_neq. exact Hne.
    + intros [->|H]; [contradiction|]. intros [e [He Hr]]. apply filter_In in He as [He Hne].
      apply negb_true_iff in Hne. apply Z.eqb_neq in Hne. exact (H e He Hne Hr).
Qed.

(* the whole table: for every node b, the sorted list of its dominators *)
Definition doms_ref (fuel : nat) : option (list (name * list name)) :=
  match dentries with
  | [] => None                                         (* RuntimeError: no entry points *)
  | _ =>
    fold_right (fun b acc =>
      match acc with
      | None => None
      | Some tbl =>
        let col := map (fun a => (a, dom_ref fuel a b)) nodes in
        if forallb (fun p => match snd p with Some _ => true | None => false end) col
        then Some ((b, zsort (map fst (filter (fun p => match snd p with Some true => true | _ => false end) col))) :: tbl)
        else None
      end) (Some []) nodes
  end.
End Dom.

Definition doms_fwd (g : graph) := doms_ref (keys g) (gsucc_in g) (gpred_in g) (fuel_of g).
Definition doms_bwd (g : graph) := doms_ref (keys g) (gpred_in g) (gsucc_in g) (fuel_of g).

(* ---------- strongly connected components ---------- *)
Definition scc_of (g : graph) (x : name) : option (list name) :=
  match closure (gsucc_in g) (fuel_of g) [x] with
  | None => None
  | Some Rx =>
    let back y := match closure (gsucc_in g) (fuel_of g) [y] with
                  | Some Ry => Some (zmem x Ry) | None => None end in
    if forallb (fun y => match back y with Some _ => true | None => false end) (keys g)
    then Some (zsort (filter (fun y => zmem y Rx && match back y with Some true => true | _ => false end)
                             (keys g)))
    else None
  end.

Theorem scc_of_spec g x C :
  scc_of g x = Some C ->
  StronglySorted Z.lt C /\
  forall y, In y C <-> In y (keys g) /\ Reach (gsucc_in g) x y /\ Reach (gsucc_in g) y x.
Proof.
  unfold scc_of. destruct (closure (gsucc_in g) (fuel_of g) [x]) as [Rx|] eqn:Hx; [|discriminate].
  destruct (forallb _ (keys g)) eqn:Hall; [|discriminate]. intros [= <-].
  split; [apply zsort_sorted|]. intros y. rewrite zsort_In, filter_In.
  rewrite forallb_forall in Hall.
  split.
  - intros [Hk H]. apply andb_true_iff in H as [H1 H2]. split; [exact Hk|].
    apply zmem_In in H1. apply (closure_spec _ _ _ _ Hx) in H1 as [x' [[<-|[]] Hr]].
    split; [exact Hr|].
    destruct (closure (gsucc_in g) (fuel_of g) [y]) as [Ry|] eqn:Hy; [|discriminate].
    destruct (zmem x Ry) eqn:Hm; [|discriminate].
    apply zmem_In in Hm. apply (closure_spec _ _ _ _ Hy) in Hm as [y' [[<-|[]] Hr']]. exact Hr'.
  - intros [Hk [Hr Hr']]. split; [exact Hk|]. apply andb_true_iff. split.
    + apply zmem_In. apply (closure_spec _ _ _ _ Hx). exists x. split; [left; reflexivity|exact Hr].
    + specialize (Hall y Hk).
      destruct (closure (gsucc_in g) (fuel_of g) [y]) as [Ry|] eqn:Hy; [|discriminate].
      assert (In x Ry) as Hin
        by (apply (closure_spec _ _ _ _ Hy); exists y; split; [left; reflexivity|exact Hr']).
      apply zmem_In in Hin. rewrite Hin. reflexivity.
Qed.

(* is a list of components (as the implementation returns them) exactly the partition into SCCs? *)
Definition scc_agrees (g : graph) (comps : list (list name)) : bool :=
  forallb (fun x => match filter (zmem x) comps with
                    | [c] => match scc_of g x with
                             | Some C => list_eqb (zsort c) C
                             | None => false end
                    | _ => false end) (keys g) &&
  forallb (fun c => match c with [] => false | _ => forallb (fun y => zmem y (keys g)) c end) comps.

(* HierCols.v — sound per-call columns for the two edits that are modelled on whole hierarchies:
   insert_block_and_control_blocks (CbHier.insert_cb_h, region and branching predecessors included) and
   extract_region (Extract.extract).  Value 1 = the call does not raise in the model, the premises of the
   universal path theorem hold (Applic.walk_pre_cbh / walk_pre_extract) and the model's result is fit for
   flattening, keeps the original blocks and equals the hierarchy the implementation produced up to the order
   of the node list.  *_col_sound: then that hierarchy has every flat walk of the hierarchy before the call. *)
From Coq Require Import List ZArith Bool.
Import ListNotations.
From V Require Import Valid.Hier Valid.Walk Valid.FlatRegion Model.Graph Model.Edits Model.Refine Model.CbPath
     Model.Extract Model.ExtractPath Model.CbHier Model.CbHierPath Model.Applic Model.LoopHierRun Model.HierEquiv Model.UniHierRun Model.TotalRun.
Local Open Scope Z_scope.

Definition cbh_col_of (h ha : hier) (lvl new : name) (var : Z) (preds Ss names : list name) : Z :=
  match insert_cb_h h lvl new var preds Ss names with
  | XOk h' => if walk_pre_cbh h lvl new var preds Ss names && walks_cert h h' ha then 1 else 0
  | _ => 0
  end.

Theorem cbh_col_sound h ha lvl new var preds Ss names strict :
  cbh_col_of h ha lvl new var preds Ss names = 1 ->
  forall n e e' ds tr st,
    (exists b p, find h n = Some b /\ n_kind b = KOrig p) -> E (Fc var) e e' ->
    WTrace h (resolve_flat h) strict n e ds tr st -> WTrace ha (resolve_flat ha) strict n e' ds tr st.
Proof.
  unfold cbh_col_of. destruct (insert_cb_h h lvl new var preds Ss names) as [h'| |] eqn:Hcb; try discriminate.
  destruct (walk_pre_cbh h lvl new var preds Ss names && walks_cert h h' ha) eqn:Hb; [|discriminate]. intros _.
  apply andb_true_iff in Hb as [Hpre Hc].
  exact (walks_cert_sound h h' ha strict (Fc var) (insert_cb_h_keeps_walks_b h lvl new var preds Ss names h' strict Hcb Hpre) Hc).
Qed.

Theorem cbh_col_sound_c h ha lvl new var preds Ss names strict :
  cbh_col_of h ha lvl new var preds Ss names = 1 ->
  forall n e e' ds,
    (exists b p, find h n = Some b /\ n_kind b = KOrig p) -> E (Fc var) e e' ->
    CTrace h (resolve_flat h) strict n e ds -> CTrace ha (resolve_flat ha) strict n e' ds.
Proof.
  unfold cbh_col_of. destruct (insert_cb_h h lvl new var preds Ss names) as [h'| |] eqn:Hcb; try discriminate.
  destruct (walk_pre_cbh h lvl new var preds Ss names && walks_cert h h' ha) eqn:Hb; [|discriminate]. intros _.
  apply andb_true_iff in Hb as [Hpre Hc].
  exact (ctrace_cert_sound h h' ha strict (Fc var) (insert_cb_h_keeps_ctrace_b h lvl new var preds Ss names h' strict Hcb Hpre) Hc).
Qed.

Definition extract_col_of (h ha : hier) (lvl : name) (blocks entries : list name) (hd ex : name) (rk : Z) (rname : name) : Z :=
  match extract h lvl blocks entries hd ex rk rname with
  | XOk h' => if walk_pre_extract h lvl hd rname && walks_cert h h' ha then 1 else 0
  | _ => 0
  end.

Theorem extract_col_sound h ha lvl blocks entries hd ex rk rname strict :
  extract_col_of h ha lvl blocks entries hd ex rk rname = 1 ->
  forall n e e' ds tr st,
    (exists b p, find h n = Some b /\ n_kind b = KOrig p) -> E Fx e e' ->
    WTrace h (resolve_flat h) strict n e ds tr st -> WTrace ha (resolve_flat ha) strict n e' ds tr st.
Proof.
  unfold extract_col_of. destruct (extract h lvl blocks entries hd ex rk rname) as [h'| |] eqn:Hx; try discriminate.
  destruct (walk_pre_extract h lvl hd rname && walks_cert h h' ha) eqn:Hb; [|discriminate]. intros _.
  apply andb_true_iff in Hb as [Hpre Hc].
  exact (walks_cert_sound h h' ha strict Fx (extract_keeps_walks_b hd rname h lvl blocks entries ex rk h' strict Hx Hpre) Hc).
Qed.

Theorem extract_col_sound_c h ha lvl blocks entries hd ex rk rname strict :
  extract_col_of h ha lvl blocks entries hd ex rk rname = 1 ->
  forall n e e' ds,
    (exists b p, find h n = Some b /\ n_kind b = KOrig p) -> E Fx e e' ->
    CTrace h (resolve_flat h) strict n e ds -> CTrace ha (resolve_flat ha) strict n e' ds.
Proof.
  unfold extract_col_of. destruct (extract h lvl blocks entries hd ex rk rname) as [h'| |] eqn:Hx; try discriminate.
  destruct (walk_pre_extract h lvl hd rname && walks_cert h h' ha) eqn:Hb; [|discriminate]. intros _.
  apply andb_true_iff in Hb as [Hpre Hc].
  exact (ctrace_cert_sound h h' ha strict Fx (extract_keeps_ctrace_b hd rname h lvl blocks entries ex rk h' strict Hx Hpre) Hc).
Qed.

(* the drivers' fifth column *)
Definition walk_of_extract2 (rows : list (list Z)) : Z :=
  let '(br, ar, op, st) := split_x rows in
  match decode br, decode ar, op with
  | Some (_, h), Some (_, ha), lvl :: hd :: ex :: rk :: rname :: r =>
    match take_list r with
    | Some (blocks, r1) =>
      match take_list r1 with
      | Some (entries, []) => extract_col_of h ha lvl blocks entries hd ex rk rname
      | _ => 0
      end
    | None => 0
    end
  | _, _, _ => 0
  end.

Definition walk_of_cbh2 (rows : list (list Z)) : Z :=
  let '(br, ar, op, st) := split_cbh rows in
  match decode br, decode ar, op with
  | Some (_, h), Some (_, ha), lvl :: new :: var :: r =>
    match take_list r with
    | Some (preds, r1) =>
      match take_list r1 with
      | Some (Ss, r2) =>
        match take_list r2 with
        | Some (names, []) => cbh_col_of h ha lvl new var preds Ss names
        | _ => 0
        end
      | None => 0
      end
    | None => 0
    end
  | _, _, _ => 0
  end.

Definition run_extract3 (rows : list (list Z)) : list Z := run_extract rows ++ [pre_of_extract rows; walk_of_extract2 rows].
Definition run_cbh3 (rows : list (list Z)) : list Z := run_cbh rows ++ [pre_of_cbh rows; walk_of_cbh2 rows].

(* NameGen.v — model of numba_scfg's NameGenerator and the freshness theorems
   of property C18.  Strings are lists of characters; [dec] prints a natural
   number the way Python's str(int) does.

   A name template is (pre, mid, post): the generated name is
       pre ++ kind ++ mid ++ dec idx ++ post.
   The three templates the library uses are re-read from the source on every
   run (Gen/NameTemplates.v); everything here holds for ANY template family
   that passes the decidable side condition [tpls_ok]. *)
From Coq Require Import List Ascii String NArith Bool Lia DecimalString DecimalN DecimalPos.
Import ListNotations.
Local Open Scope list_scope.

Definition str := list ascii.
Definition lit (s : string) : str := list_ascii_of_string s.

(* ---------- decimal rendering ---------- *)
Definition dec (n : N) : str := lit (NilZero.string_of_uint (N.to_uint n)).

Lemma lit_inj a b : lit a = lit b -> a = b.
Proof.
  unfold lit. intros H.
  rewrite <- (string_of_list_ascii_of_string a), <- (string_of_list_ascii_of_string b).
  congruence.
Qed.

Lemma to_uint_nonnil n : N.to_uint n <> Decimal.Nil.
Proof. destruct n; cbn; [discriminate|apply DecimalPos.Unsigned.to_uint_nonnil]. Qed.

Lemma dec_inj n m : dec n = dec m -> n = m.
Proof.
  unfold dec. intros H. apply lit_inj in H.
  pose proof (NilZero.usu _ (to_uint_nonnil n)) as En.
  pose proof (NilZero.usu _ (to_uint_nonnil m)) as Em.
  rewrite H in En. rewrite En in Em. injection Em as Em.
  rewrite <- (DecimalN.Unsigned.of_to n), <- (DecimalN.Unsigned.of_to m). congruence.
Qed.

Definition is_digit (c : ascii) : bool :=
  let n := nat_of_ascii c in Nat.leb 48 n && Nat.leb n 57.

Lemma string_of_uint_digits d : forallb is_digit (lit (NilEmpty.string_of_uint d)) = true.
Proof. induction d; cbn; auto. Qed.

Lemma dec_digits n : forallb is_digit (dec n) = true.
Proof.
  unfold dec, NilZero.string_of_uint. destruct (N.to_uint n); try reflexivity;
    apply string_of_uint_digits.
Qed.

Lemma dec_nonempty n : dec n <> [].
Proof.
  unfold dec, NilZero.string_of_uint. pose proof (to_uint_nonnil n) as H.
  destruct (N.to_uint n); cbn; congruence.
Qed.

(* ---------- splitting off the maximal digit suffix ---------- *)
Fixpoint digit_suffix (s : str) : str * str :=     (* (prefix, suffix) *)
  match s with
  | [] => ([], [])
  | c :: r =>
    let '(p, d) := digit_suffix r in
    match p with
    | [] => if is_digit c then ([], c :: d) else ([c], d)
    | _ => (c :: p, d)
    end
  end.

Definition ends_nondigit (s : str) : bool :=
  match rev s with
  | c :: _ => negb (is_digit c)
  | [] => false
  end.

Lemma ends_nondigit_split s : ends_nondigit s = true ->
  exists p c, s = p ++ [c] /\ is_digit c = false.
Proof.
  unfold ends_nondigit. destruct (rev s) as [|c r] eqn:E; [discriminate|].
  intros H. exists (rev r), c. split.
  - rewrite <- (rev_involutive s), E. reflexivity.
  - apply negb_true_iff. exact H.
Qed.

Lemma digit_suffix_digits d : forallb is_digit d = true -> digit_suffix d = ([], d).
Proof.
  induction d as [|x d IH]; cbn; [reflexivity|].
  intros H. apply andb_true_iff in H as [Hx Hd]. rewrite (IH Hd). rewrite Hx. reflexivity.
Qed.

Lemma digit_suffix_app p d :
  forallb is_digit d = true -> ends_nondigit p = true -> digit_suffix (p ++ d) = (p, d).
Proof.
  intros Hd Hp. destruct (ends_nondigit_split _ Hp) as [p0 [c [-> Hc]]].
  induction p0 as [|a p0 IH]; cbn.
  - rewrite (digit_suffix_digits _ Hd). rewrite Hc. reflexivity.
  - cbn in IH. rewrite IH.
    + destruct (p0 ++ [c]) eqn:E; [destruct p0; discriminate|reflexivity].
    + unfold ends_nondigit. rewrite rev_app_distr. cbn. rewrite Hc. reflexivity.
Qed.

Lemma ends_nondigit_app a b : ends_nondigit b = true -> ends_nondigit (a ++ b) = true.
Proof.
  unfold ends_nondigit. rewrite rev_app_distr. destruct (rev b); [discriminate|]. cbn. auto.
Qed.

(* ---------- templates ---------- *)
Record tpl := mkTpl { pre : str; mid : str; post : str }.

Definition render (t : tpl) (k : str) (i : N) : str :=
  pre t ++ k ++ mid t ++ dec i ++ post t.

(* a template is usable when the counter can be read back: mid ends with a
   non-digit, and post is empty or ends with a non-digit *)
Definition tpl_ok (t : tpl) : bool :=
  ends_nondigit (mid t) && (match post t with [] => true | _ => ends_nondigit (post t) end).

Lemma render_self_inj t k1 i1 k2 i2 :
  tpl_ok t = true -> render t k1 i1 = render t k2 i2 -> k1 = k2 /\ i1 = i2.
Proof.
  unfold tpl_ok, render. intros Hok H. apply andb_true_iff in Hok as [Hm _].
  rewrite !app_assoc in H. apply app_inv_tail in H.
  rewrite <- !app_assoc in H.
  assert (E1 : digit_suffix ((pre t ++ k1 ++ mid t) ++ dec i1) = (pre t ++ k1 ++ mid t, dec i1)).
  { apply digit_suffix_app; [apply dec_digits|]. rewrite app_assoc. apply ends_nondigit_app. exact Hm. }
  assert (E2 : digit_suffix ((pre t ++ k2 ++ mid t) ++ dec i2) = (pre t ++ k2 ++ mid t, dec i2)).
  { apply digit_suffix_app; [apply dec_digits|]. rewrite app_assoc. apply ends_nondigit_app. exact Hm. }
  rewrite <- !app_assoc in E1, E2. rewrite H in E1. rewrite E1 in E2.
  injection E2 as Ek Ei. split.
  - apply app_inv_head in Ek. apply app_inv_tail in Ek. exact Ek.
  - apply dec_inj. exact Ei.
Qed.

(* two different templates never produce the same name when
   (a) exactly one of them has a post (its names end with a non-digit, the
       other's with a digit), or
   (b) neither has a post, both have an empty pre, and neither mid is a suffix
       of the other *)
Fixpoint is_prefix (a b : str) : bool :=
  match a, b with
  | [], _ => true
  | x :: a', y :: b' => Ascii.eqb x y && is_prefix a' b'
  | _, _ => false
  end.
Definition is_suffix (a b : str) : bool := is_prefix (rev a) (rev b).

Lemma is_prefix_app a l : is_prefix a (a ++ l) = true.
Proof. induction a as [|x a IH]; cbn; [reflexivity|]. rewrite Ascii.eqb_refl. exact IH. Qed.

Lemma is_suffix_app a l : is_suffix a (l ++ a) = true.
Proof. unfold is_suffix. rewrite rev_app_distr. apply is_prefix_app. Qed.

Definition apart (t1 t2 : tpl) : bool :=
  match post t1, post t2 with
  | [], _ :: _ => ends_nondigit (post t2)
  | _ :: _, [] => ends_nondigit (post t1)
  | [], [] =>
    match pre t1, pre t2 with
    | [], [] => negb (is_suffix (mid t1) (mid t2)) && negb (is_suffix (mid t2) (mid t1))
    | _, _ => false
    end
  | _, _ => false
  end.

Lemma last_digit_dec i l : exists p c, l ++ dec i = p ++ [c] /\ is_digit c = true.
Proof.
  pose proof (dec_nonempty i) as Hne. pose proof (dec_digits i) as Hd.
  destruct (exists_last Hne) as [p [c E]]. rewrite E in *.
  exists (l ++ p), c. split; [rewrite app_assoc; reflexivity|].
  rewrite forallb_app in Hd. apply andb_true_iff in Hd as [_ Hc]. cbn in Hc.
  apply andb_true_iff in Hc as [Hc _]. exact Hc.
Qed.

Lemma app_last_eq {A} (p q : list A) c d : p ++ [c] = q ++ [d] -> c = d.
Proof.
  intros H. apply (f_equal (@rev A)) in H. rewrite !rev_app_distr in H. cbn in H. congruence.
Qed.

Lemma render_apart t1 t2 k1 i1 k2 i2 :
  tpl_ok t1 = true -> tpl_ok t2 = true -> apart t1 t2 = true ->
  render t1 k1 i1 <> render t2 k2 i2.
Proof.
  unfold apart, render. intros Hok1 Hok2 Hap H.
  destruct (post t1) as [|c1 p1] eqn:Hp1; destruct (post t2) as [|c2 p2] eqn:Hp2;
    try discriminate.
  - (* no posts *)
    destruct (pre t1) eqn:Hpre1; [|discriminate]. destruct (pre t2) eqn:Hpre2; [|discriminate].
    cbn [app] in H. rewrite !app_nil_r in H.
    apply andb_true_iff in Hok1 as [Hm1 _]. apply andb_true_iff in Hok2 as [Hm2 _].
    assert (E1 : digit_suffix ((k1 ++ mid t1) ++ dec i1) = (k1 ++ mid t1, dec i1))
      by (apply digit_suffix_app; [apply dec_digits|apply ends_nondigit_app; exact Hm1]).
    assert (E2 : digit_suffix ((k2 ++ mid t2) ++ dec i2) = (k2 ++ mid t2, dec i2))
      by (apply digit_suffix_app; [apply dec_digits|apply ends_nondigit_app; exact Hm2]).
    rewrite <- !app_assoc in E1, E2. rewrite H in E1. rewrite E1 in E2. injection E2 as Ek _.
    apply andb_true_iff in Hap as [Ha Hb].
    apply negb_true_iff in Ha. apply negb_true_iff in Hb.
    apply app_eq_app in Ek. destruct Ek as [l [[_ E]|[_ E]]].
    + rewrite E, is_suffix_app in Ha. discriminate.
    + rewrite E, is_suffix_app in Hb. discriminate.
  - (* t1 ends with a digit, t2 with a non-digit *)
    rewrite app_nil_r in H.
    destruct (ends_nondigit_split _ Hap) as [q [c [Eq Hc]]].
    destruct (last_digit_dec i1 (pre t1 ++ k1 ++ mid t1)) as [p [d [Ed Hd]]].
    rewrite <- !app_assoc in Ed. rewrite Ed in H. rewrite Eq in H.
    rewrite !app_assoc in H. apply app_last_eq in H. congruence.
  - rewrite app_nil_r in H.
    destruct (ends_nondigit_split _ Hap) as [q [c [Eq Hc]]].
    destruct (last_digit_dec i2 (pre t2 ++ k2 ++ mid t2)) as [p [d [Ed Hd]]].
    rewrite <- !app_assoc in Ed. rewrite Ed in H. rewrite Eq in H.
    rewrite !app_assoc in H. apply app_last_eq in H. congruence.
Qed.

(* ---------- the three categories ---------- *)
Inductive cat := CBlock | CRegion | CVar.
Definition cat_eqb (a b : cat) : bool :=
  match a, b with CBlock, CBlock | CRegion, CRegion | CVar, CVar => true | _, _ => false end.

Section Family.
Variable T : cat -> tpl.

Definition tpls_ok : bool :=
  tpl_ok (T CBlock) && tpl_ok (T CRegion) && tpl_ok (T CVar) &&
  apart (T CBlock) (T CRegion) && apart (T CBlock) (T CVar) && apart (T CRegion) (T CVar).

Lemma apart_sym_render t1 t2 k1 i1 k2 i2 :
  tpl_ok t1 = true -> tpl_ok t2 = true -> apart t1 t2 = true ->
  render t2 k2 i2 <> render t1 k1 i1.
Proof. intros A B C H. symmetry in H. revert H. apply render_apart; assumption. Qed.

Theorem render_injective :
  tpls_ok = true ->
  forall c1 k1 i1 c2 k2 i2,
    render (T c1) k1 i1 = render (T c2) k2 i2 -> c1 = c2 /\ k1 = k2 /\ i1 = i2.
Proof.
  unfold tpls_ok. intros H.
  apply andb_true_iff in H as [H Hrv]. apply andb_true_iff in H as [H Hbv].
  apply andb_true_iff in H as [H Hbr]. apply andb_true_iff in H as [H Hv].
  apply andb_true_iff in H as [Hb Hr].
  intros c1 k1 i1 c2 k2 i2 E.
  destruct c1, c2.
  - destruct (render_self_inj _ _ _ _ _ Hb E); auto.
  - exfalso. revert E. apply render_apart; assumption.
  - exfalso. revert E. apply render_apart; assumption.
  - exfalso. revert E. apply apart_sym_render; assumption.
  - destruct (render_self_inj _ _ _ _ _ Hr E); auto.
  - exfalso. revert E. apply render_apart; assumption.
  - exfalso. revert E. apply apart_sym_render; assumption.
  - exfalso. revert E. apply apart_sym_render; assumption.
  - destruct (render_self_inj _ _ _ _ _ Hv E); auto.
Qed.

(* ---------- the generator: one counter per kind, shared by the categories ---------- *)
Definition gen := list (str * N).

Fixpoint str_eqb (a b : str) : bool :=
  match a, b with
  | [], [] => true
  | x :: a', y :: b' => Ascii.eqb x y && str_eqb a' b'
  | _, _ => false
  end.

Lemma str_eqb_eq a b : str_eqb a b = true <-> a = b.
Proof.
  revert b. induction a as [|x a IH]; intros [|y b]; cbn; split; try discriminate; auto.
  - intros H. apply andb_true_iff in H as [H1 H2]. apply Ascii.eqb_eq in H1. apply IH in H2. congruence.
  - intros [= -> ->]. rewrite Ascii.eqb_refl. apply IH. reflexivity.
Qed.

Fixpoint cnt (g : gen) (k : str) : N :=
  match g with
  | [] => 0
  | (k', i) :: r => if str_eqb k k' then i else cnt r k
  end.

(* dict assignment: an existing key keeps its place, a new key goes last *)
Fixpoint gset (g : gen) (k : str) (v : N) : gen :=
  match g with
  | [] => [(k, v)]
  | (k', i) :: r => if str_eqb k k' then (k', v) :: r else (k', i) :: gset r k v
  end.

Lemma cnt_gset g k v k' : cnt (gset g k v) k' = if str_eqb k' k then v else cnt g k'.
Proof.
  induction g as [|[k0 i0] r IH]; cbn.
  - destruct (str_eqb k' k); reflexivity.
  - destruct (str_eqb k k0) eqn:E; cbn.
    + apply str_eqb_eq in E. subst k0. destruct (str_eqb k' k); reflexivity.
    + destruct (str_eqb k' k0) eqn:E2; [|exact IH].
      apply str_eqb_eq in E2. subst k0.
      destruct (str_eqb k' k) eqn:E3; [|reflexivity].
      apply str_eqb_eq in E3. subst. rewrite (proj2 (str_eqb_eq k k) eq_refl) in E. discriminate.
Qed.

Definition request (g : gen) (c : cat) (k : str) : str * gen :=
  let i := cnt g k in (render (T c) k i, gset g k (i + 1)%N).

Fixpoint run (g : gen) (reqs : list (cat * str)) : list str * gen :=
  match reqs with
  | [] => ([], g)
  | (c, k) :: r =>
    let '(n, g1) := request g c k in
    let '(ns, g2) := run g1 r in (n :: ns, g2)
  end.

(* every name handed out from generator state g uses an index >= the counter of its kind in g *)
Definition Above (g : gen) (n : str) : Prop :=
  exists c k i, n = render (T c) k i /\ (cnt g k <= i)%N.

Lemma run_above reqs : forall g n, In n (fst (run g reqs)) -> Above g n.
Proof.
  induction reqs as [|[c k] r IH]; intros g n; cbn; [intros []|].
  destruct (run (gset g k (cnt g k + 1)) r) as [ns g2] eqn:E. cbn.
  intros [<-|Hin].
  - exists c, k, (cnt g k). split; [reflexivity|lia].
  - specialize (IH (gset g k (cnt g k + 1)%N) n). rewrite E in IH. cbn in IH.
    destruct (IH Hin) as [c' [k' [i' [-> Hle]]]]. exists c', k', i'. split; [reflexivity|].
    rewrite cnt_gset in Hle. destruct (str_eqb k' k) eqn:Ek; [|exact Hle].
    apply str_eqb_eq in Ek. subst. lia.
Qed.

Theorem names_distinct :
  tpls_ok = true -> forall reqs g, NoDup (fst (run g reqs)).
Proof.
  intros Hok. induction reqs as [|[c k] r IH]; intros g; cbn; [constructor|].
  destruct (run (gset g k (cnt g k + 1)) r) as [ns g2] eqn:E. cbn.
  constructor.
  - intros Hin. pose proof (run_above r (gset g k (cnt g k + 1)%N) (render (T c) k (cnt g k))) as Ha.
    rewrite E in Ha. destruct (Ha Hin) as [c' [k' [i' [Heq Hle]]]].
    destruct (render_injective Hok _ _ _ _ _ _ Heq) as [_ [-> <-]].
    rewrite cnt_gset in Hle. rewrite (proj2 (str_eqb_eq k' k') eq_refl) in Hle. lia.
  - specialize (IH (gset g k (cnt g k + 1)%N)). rewrite E in IH. exact IH.
Qed.

(* a generator covers a set of names when every name of a generated shape in
   the set uses an index below the counter of its kind *)
Definition Covers (g : gen) (names : list str) : Prop :=
  forall c k i, In (render (T c) k i) names -> (i < cnt g k)%N.

Theorem fresh_wrt_graph :
  tpls_ok = true -> forall g names c k,
    Covers g names -> ~ In (fst (request g c k)) names.
Proof.
  intros Hok g names c k Hcov Hin. cbn in Hin. specialize (Hcov _ _ _ Hin). lia.
Qed.

Theorem covers_preserved :
  tpls_ok = true -> forall g names c k,
    Covers g names -> Covers (snd (request g c k)) (fst (request g c k) :: names).
Proof.
  intros Hok g names c k Hcov c' k' i' [Heq|Hin]; cbn [request snd]; rewrite cnt_gset.
  - cbn in Heq. destruct (render_injective Hok _ _ _ _ _ _ Heq) as [_ [<- <-]].
    rewrite (proj2 (str_eqb_eq k k) eq_refl). lia.
  - specialize (Hcov _ _ _ Hin). destruct (str_eqb k' k) eqn:E; [|exact Hcov].
    apply str_eqb_eq in E. subst. lia.
Qed.

(* ---------- reading a generated name back: NameGenerator.reserve_names ---------- *)
Fixpoint strip_prefix (m s : str) : option str :=
  match m, s with
  | [], _ => Some s
  | x :: m', y :: s' => if Ascii.eqb x y then strip_prefix m' s' else None
  | _, _ => None
  end.

Definition strip_suffix (m s : str) : option str :=
  match strip_prefix (rev m) (rev s) with Some r => Some (rev r) | None => None end.

Lemma strip_prefix_app m s : strip_prefix m (m ++ s) = Some s.
Proof. induction m as [|x m IH]; cbn; [reflexivity|]. rewrite Ascii.eqb_refl. exact IH. Qed.

Lemma strip_prefix_sound m : forall s r, strip_prefix m s = Some r -> s = m ++ r.
Proof.
  induction m as [|x m IH]; intros s r; cbn; [intros [= ->]; reflexivity|].
  destruct s as [|y s]; [discriminate|]. destruct (Ascii.eqb x y) eqn:E; [|discriminate].
  apply Ascii.eqb_eq in E. subst. intros H. rewrite (IH _ _ H). reflexivity.
Qed.

Lemma strip_suffix_app m s : strip_suffix m (s ++ m) = Some s.
Proof. unfold strip_suffix. rewrite rev_app_distr, strip_prefix_app, rev_involutive. reflexivity. Qed.

Lemma strip_suffix_sound m s r : strip_suffix m s = Some r -> s = r ++ m.
Proof.
  unfold strip_suffix. destruct (strip_prefix (rev m) (rev s)) as [q|] eqn:E; [|discriminate].
  intros [= <-]. apply strip_prefix_sound in E.
  rewrite <- (rev_involutive s), E, rev_app_distr, rev_involutive. reflexivity.
Qed.

(* int(digits): Python's int() of a non-empty digit string, leading zeros allowed *)
Definition idx_of (d : str) : option N :=
  match NilZero.uint_of_string (string_of_list_ascii d) with
  | Some u => Some (N.of_uint u)
  | None => None
  end.

Lemma idx_of_dec i : idx_of (dec i) = Some i.
Proof.
  unfold idx_of, dec, lit. rewrite string_of_list_ascii_of_string.
  rewrite (NilZero.usu _ (to_uint_nonnil i)). rewrite DecimalN.Unsigned.of_to. reflexivity.
Qed.

(* one alternative of the regular expression: pre, any kind, mid, one or more digits, post *)
Definition parse_t (t : tpl) (name : str) : option (str * N) :=
  match strip_suffix (post t) name with
  | None => None
  | Some r =>
    let '(p, d) := digit_suffix r in
    match d with
    | [] => None
    | _ =>
      match strip_suffix (mid t) p with
      | None => None
      | Some q =>
        match strip_prefix (pre t) q with
        | None => None
        | Some k => match idx_of d with Some i => Some (k, i) | None => None end
        end
      end
    end
  end.

Lemma parse_t_render t k i : tpl_ok t = true -> parse_t t (render t k i) = Some (k, i).
Proof.
  unfold tpl_ok, parse_t, render. intros Hok. apply andb_true_iff in Hok as [Hm _].
  replace (pre t ++ k ++ mid t ++ dec i ++ post t) with ((pre t ++ k ++ mid t ++ dec i) ++ post t)
    by (rewrite <- !app_assoc; reflexivity).
  rewrite strip_suffix_app.
  replace (pre t ++ k ++ mid t ++ dec i) with (((pre t ++ k) ++ mid t) ++ dec i)
    by (rewrite <- !app_assoc; reflexivity).
  rewrite digit_suffix_app; [|apply dec_digits|apply ends_nondigit_app; exact Hm].
  destruct (dec i) eqn:Ed; [exfalso; eapply dec_nonempty; eauto|]. rewrite <- Ed.
  rewrite strip_suffix_app, strip_prefix_app, idx_of_dec. reflexivity.
Qed.

(* digit_suffix really splits: the suffix is all digits, the prefix ends with a non-digit *)
Lemma digit_suffix_spec s : forall p d, digit_suffix s = (p, d) ->
  s = p ++ d /\ forallb is_digit d = true /\ (p = [] \/ ends_nondigit p = true).
Proof.
  induction s as [|c r IH]; cbn; intros p d.
  - intros [= <- <-]. auto.
  - destruct (digit_suffix r) as [p0 d0] eqn:E. destruct (IH _ _ eq_refl) as [Hs [Hd Hp]].
    destruct p0 as [|a p0].
    + destruct (is_digit c) eqn:Hc; intros [= <- <-].
      * cbn. rewrite Hc, Hd. subst r. auto.
      * subst r. cbn. split; [reflexivity|]. split; [exact Hd|].
        right. unfold ends_nondigit. cbn. rewrite Hc. reflexivity.
    + intros [= <- <-]. subst r. split; [reflexivity|]. split; [exact Hd|]. right.
      destruct Hp as [Hp|Hp]; [discriminate|].
      change (c :: a :: p0) with ([c] ++ a :: p0). apply ends_nondigit_app. exact Hp.
Qed.

Lemma parse_t_sound t name k i : parse_t t name = Some (k, i) ->
  exists d, name = pre t ++ k ++ mid t ++ d ++ post t /\ forallb is_digit d = true /\ d <> [].
Proof.
  unfold parse_t. destruct (strip_suffix (post t) name) as [r|] eqn:E1; [|discriminate].
  destruct (digit_suffix r) as [p d] eqn:E2. destruct d as [|c d]; [discriminate|].
  destruct (strip_suffix (mid t) p) as [q|] eqn:E3; [|discriminate].
  destruct (strip_prefix (pre t) q) as [k'|] eqn:E4; [|discriminate].
  destruct (idx_of (c :: d)); [|discriminate]. intros [= <- <-].
  apply strip_suffix_sound in E1. apply strip_suffix_sound in E3. apply strip_prefix_sound in E4.
  destruct (digit_suffix_spec _ _ _ E2) as [Hr [Hd _]].
  exists (c :: d). subst. rewrite <- !app_assoc. split; [reflexivity|]. split; [exact Hd|discriminate].
Qed.

(* the same shape with an arbitrary digit string never collides with a name of an apart template *)
Lemma shape_apart t1 t2 k1 d1 k2 i2 :
  tpl_ok t1 = true -> tpl_ok t2 = true -> (apart t1 t2 = true \/ apart t2 t1 = true) ->
  forallb is_digit d1 = true -> d1 <> [] ->
  pre t1 ++ k1 ++ mid t1 ++ d1 ++ post t1 <> render t2 k2 i2.
Proof.
  intros Hok1 Hok2 Hap Hd Hne H. unfold render in H.
  assert (Hlast : forall l, exists p c, l ++ d1 = p ++ [c] /\ is_digit c = true).
  { intros l. destruct (exists_last Hne) as [p [c E]]. rewrite E in *.
    exists (l ++ p), c. split; [rewrite app_assoc; reflexivity|].
    rewrite forallb_app in Hd. apply andb_true_iff in Hd as [_ Hc]. cbn in Hc.
    apply andb_true_iff in Hc as [Hc _]. exact Hc. }
  assert (Hds : forall p, ends_nondigit p = true -> digit_suffix (p ++ d1) = (p, d1))
    by (intros; apply digit_suffix_app; assumption).
  unfold apart in Hap.
  destruct (post t1) as [|c1 p1] eqn:Hp1; destruct (post t2) as [|c2 p2] eqn:Hp2.
  - destruct (pre t1) eqn:Hpre1; destruct (pre t2) eqn:Hpre2;
      try (cbn in Hap; destruct Hap; discriminate).
    cbn [app] in H. rewrite !app_nil_r in H.
    apply andb_true_iff in Hok1 as [Hm1 _]. apply andb_true_iff in Hok2 as [Hm2 _].
    assert (E1 : digit_suffix ((k1 ++ mid t1) ++ d1) = (k1 ++ mid t1, d1))
      by (apply Hds; apply ends_nondigit_app; exact Hm1).
    assert (E2 : digit_suffix ((k2 ++ mid t2) ++ dec i2) = (k2 ++ mid t2, dec i2))
      by (apply digit_suffix_app; [apply dec_digits|apply ends_nondigit_app; exact Hm2]).
    rewrite <- !app_assoc in E1, E2. rewrite H in E1. rewrite E1 in E2. injection E2 as Ek _.
    apply app_eq_app in Ek. destruct Ek as [l [[_ E]|[_ E]]].
    + destruct Hap as [Hap|Hap]; apply andb_true_iff in Hap as [Ha Hb];
        apply negb_true_iff in Ha; apply negb_true_iff in Hb.
      * rewrite E, is_suffix_app in Ha. discriminate.
      * rewrite E, is_suffix_app in Hb. discriminate.
    + destruct Hap as [Hap|Hap]; apply andb_true_iff in Hap as [Ha Hb];
        apply negb_true_iff in Ha; apply negb_true_iff in Hb.
      * rewrite E, is_suffix_app in Hb. discriminate.
      * rewrite E, is_suffix_app in Ha. discriminate.
  - rewrite app_nil_r in H.
    assert (Hnd : ends_nondigit (c2 :: p2) = true) by (destruct Hap; assumption).
    destruct (ends_nondigit_split _ Hnd) as [q [c [Eq Hc]]].
    destruct (Hlast (pre t1 ++ k1 ++ mid t1)) as [p [dd [Ed Hdd]]].
    rewrite <- !app_assoc in Ed. rewrite Ed in H. rewrite Eq in H.
    rewrite !app_assoc in H. apply app_last_eq in H. congruence.
  - rewrite app_nil_r in H.
    assert (Hnd : ends_nondigit (c1 :: p1) = true) by (destruct Hap; assumption).
    destruct (ends_nondigit_split _ Hnd) as [q [c [Eq Hc]]].
    destruct (last_digit_dec i2 (pre t2 ++ k2 ++ mid t2)) as [p [dd [Ed Hdd]]].
    rewrite <- !app_assoc in Ed. rewrite Ed in H. rewrite Eq in H.
    rewrite !app_assoc in H. apply app_last_eq in H. congruence.
  - destruct Hap; discriminate.
Qed.

(* the regular expression as a whole: alternatives tried in order block, region, variable *)
Definition parse (name : str) : option (str * N) :=
  match parse_t (T CBlock) name with
  | Some r => Some r
  | None => match parse_t (T CRegion) name with
            | Some r => Some r
            | None => parse_t (T CVar) name
            end
  end.

Lemma tpls_ok_parts :
  tpls_ok = true ->
  tpl_ok (T CBlock) = true /\ tpl_ok (T CRegion) = true /\ tpl_ok (T CVar) = true /\
  apart (T CBlock) (T CRegion) = true /\ apart (T CBlock) (T CVar) = true /\
  apart (T CRegion) (T CVar) = true.
Proof.
  unfold tpls_ok. intros H.
  apply andb_true_iff in H as [H Hrv]. apply andb_true_iff in H as [H Hbv].
  apply andb_true_iff in H as [H Hbr]. apply andb_true_iff in H as [H Hv].
  apply andb_true_iff in H as [Hb Hr]. auto 10.
Qed.

Lemma parse_t_other t1 t2 k i :
  tpl_ok t1 = true -> tpl_ok t2 = true -> (apart t1 t2 = true \/ apart t2 t1 = true) ->
  parse_t t1 (render t2 k i) = None.
Proof.
  intros H1 H2 Hap. destruct (parse_t t1 (render t2 k i)) as [[k' i']|] eqn:E; [|reflexivity].
  exfalso. destruct (parse_t_sound _ _ _ _ E) as [d [Heq [Hd Hne]]].
  symmetry in Heq. revert Heq. apply shape_apart; assumption.
Qed.

Theorem parse_render : tpls_ok = true -> forall c k i, parse (render (T c) k i) = Some (k, i).
Proof.
  intros Hok c k i. destruct (tpls_ok_parts Hok) as [Hb [Hr [Hv [Hbr [Hbv Hrv]]]]].
  unfold parse. destruct c.
  - rewrite parse_t_render by assumption. reflexivity.
  - rewrite (parse_t_other (T CBlock) (T CRegion)) by auto.
    rewrite parse_t_render by assumption. reflexivity.
  - rewrite (parse_t_other (T CBlock) (T CVar)) by auto.
    rewrite (parse_t_other (T CRegion) (T CVar)) by auto.
    apply parse_t_render. assumption.
Qed.

Definition reserve1 (g : gen) (name : str) : gen :=
  match parse name with
  | Some (k, i) => gset g k (N.max (cnt g k) (i + 1))
  | None => g
  end.

Definition reserve (g : gen) (names : list str) : gen := fold_left reserve1 names g.

Lemma reserve1_mono g name k : (cnt g k <= cnt (reserve1 g name) k)%N.
Proof.
  unfold reserve1. destruct (parse name) as [[k' i']|]; [|lia].
  rewrite cnt_gset. destruct (str_eqb k k') eqn:E; [|lia].
  apply str_eqb_eq in E. subst. lia.
Qed.

Lemma reserve_mono names : forall g k, (cnt g k <= cnt (reserve g names) k)%N.
Proof.
  induction names as [|n r IH]; intros g k; cbn; [lia|].
  specialize (IH (reserve1 g n) k). pose proof (reserve1_mono g n k). unfold reserve in *. lia.
Qed.

Theorem reserve_covers : tpls_ok = true -> forall names g, Covers (reserve g names) names.
Proof.
  intros Hok. induction names as [|n r IH]; intros g c k i; cbn; [intros []|].
  intros [Heq|Hin].
  - pose proof (reserve_mono r (reserve1 g n) k) as Hm. unfold reserve in Hm.
    assert (i < cnt (reserve1 g n) k)%N; [|lia].
    unfold reserve1. rewrite Heq, (parse_render Hok). rewrite cnt_gset.
    rewrite (proj2 (str_eqb_eq k k) eq_refl). lia.
  - exact (IH (reserve1 g n) c k i Hin).
Qed.

Lemma covers_mono g g' names :
  (forall k, (cnt g k <= cnt g' k)%N) -> Covers g names -> Covers g' names.
Proof. intros Hm Hc c k i Hin. specialize (Hc _ _ _ Hin). specialize (Hm k). lia. Qed.

(* ---------- the discipline of SCFG: construction and add_block reserve, requests are fresh ---------- *)
Inductive op :=
| OConstruct (names : list str)      (* SCFG(graph, name_gen): reserves the keys (and control variables) *)
| OAdd (name : str)                  (* add_block *)
| ORequest (c : cat) (k : str).      (* new_block_name / new_region_name / new_var_name *)

(* state: generator, names present in the graph(s) sharing it, names handed out so far *)
Definition st := (gen * list str * list str)%type.

Definition step (s : st) (o : op) : st :=
  let '(g, present, issued) := s in
  match o with
  | OConstruct names => (reserve g names, names ++ present, issued)
  | OAdd name => (reserve1 g name, name :: present, issued)
  | ORequest c k => let '(n, g') := request g c k in (g', present, n :: issued)
  end.

Definition StInv (s : st) : Prop :=
  let '(g, present, issued) := s in
  Covers g present /\ Covers g issued /\ NoDup issued /\
  (forall n, In n issued -> exists c k i, n = render (T c) k i).

Theorem step_inv : tpls_ok = true -> forall s o, StInv s -> StInv (step s o).
Proof.
  intros Hok [[g present] issued] o [Hp [Hi [Hnd Hsh]]]. destruct o as [names|name|c k]; cbn.
  - repeat split; auto.
    + intros c k i Hin. apply in_app_or in Hin as [Hin|Hin].
      * exact (reserve_covers Hok names g c k i Hin).
      * pose proof (reserve_mono names g k). specialize (Hp _ _ _ Hin). lia.
    + eapply covers_mono; [|exact Hi]. intros k. apply reserve_mono.
  - repeat split; auto.
    + intros c k i [Heq|Hin].
      * exact (reserve_covers Hok [name] g c k i (or_introl Heq)).
      * pose proof (reserve1_mono g name k). specialize (Hp _ _ _ Hin). lia.
    + eapply covers_mono; [|exact Hi]. intros k. apply reserve1_mono.
  - repeat split.
    + eapply covers_mono; [|exact Hp]. intros k'. rewrite cnt_gset.
      destruct (str_eqb k' k) eqn:E; [|lia]. apply str_eqb_eq in E. subst. lia.
    + exact (covers_preserved Hok g issued c k Hi).
    + constructor; [|exact Hnd]. exact (fresh_wrt_graph Hok g issued c k Hi).
    + intros n [<-|Hin]; [exists c, k, (cnt g k); reflexivity|auto].
Qed.

(* the statement of C18 on the model: whatever the history, a requested name is
   neither present in the graph nor was it handed out before *)
Theorem request_fresh : tpls_ok = true -> forall ops s c k,
  StInv s ->
  let '(g, present, issued) := fold_left step ops s in
  ~ In (fst (request g c k)) present /\ ~ In (fst (request g c k)) issued.
Proof.
  intros Hok ops. induction ops as [|o r IH]; intros s c k Hinv; cbn.
  - destruct s as [[g present] issued]. destruct Hinv as [Hp [Hi _]].
    split; [exact (fresh_wrt_graph Hok g present c k Hp)|exact (fresh_wrt_graph Hok g issued c k Hi)].
  - apply IH. apply step_inv; assumption.
Qed.

Lemma init_inv : StInv ([], [], []).
Proof. repeat split; try (intros ? ? ? []); try constructor. intros n []. Qed.

End Family.

(* BackSem.v — what the generated tree does, as a walk: the tree (Back.ast) is
   laid out as a flat graph of the kinds the validators know (original blocks,
   constant assignments to control variables, branches on control variables,
   stops), and the verified simulation checker of C01 (Walk.sim_state) decides
   that, from the function's first statement, EVERY decision list drives that
   graph through the original blocks exactly as it drives the input graph.

   The layout IS the reading of the generated Python used here:
     stmts of block b ; [if test_b: T else: E]   one node for b, successors (T, E) or the continuation
     v = c                                        assignment node
     if v in (c1, ..): T else: E                  branch on v: listed values to T, every other value v can hold to E
     __scfg_loop_cont_k__ = True; while ..k..: B  assignment; branch on the flag: 1 to B (which continues at the
                                                  branch again), 0 to the continuation
     __scfg_loop_cont_k__ = not v                 branch on v: 0 to (flag := 1), other values to (flag := 0)
     pass                                         nothing
     return __scfg_return_value__                 stop
   A block's statements must appear together, in order, each once (else the tree is rejected). *)
From Coq Require Import List ZArith Bool Lia.
Import ListNotations.
From V Require Import Valid.Hier Valid.Walk Valid.FlatRegion Model.Graph Model.Edits Model.Back.
Local Open Scope Z_scope.

Record cst := mkC { c_next : Z; c_nodes : list node }.

Definition fresh (st : cst) : name * cst := (- c_next st, mkC (c_next st + 1) (c_nodes st)).
Definition addn (n : node) (st : cst) : cst := mkC (c_next st) (n :: c_nodes st).

Definition loop_var (k : Z) : Z := - (k + 1).

Section Layout.
Variable g : ograph.
Variable info : list (name * oinfo).

(* the block a statement identity belongs to *)
Definition block_of (id : Z) : option name :=
  match filter (fun p => zmem id (oi_ids (snd p))) info with
  | (b, _) :: _ => Some b
  | [] => None
  end.

(* values a control variable is ever given in the tree *)
Fixpoint assigned (fuel : nat) (v : Z) (l : list ast) : list Z :=
  match fuel with
  | O => []
  | S f =>
    flat_map (fun a => match a with
                       | AAssign v' z => if Z.eqb v v' then [z] else []
                       | AIfTest _ t e | AIfIn _ _ t e => assigned f v t ++ assigned f v e
                       | AWhile _ b => assigned f v b
                       | _ => [] end) l
  end.

Variable whole : list ast.
Variable big : nat.

Definition universe (v : Z) (extra : list Z) : list Z := dedupe (assigned big v whole ++ extra).

(* take the statements of block b from the front of l: ids must match in order *)
Fixpoint take_ids (ids : list Z) (l : list ast) : option (list ast) :=
  match ids with
  | [] => Some l
  | i :: r =>
    match l with
    | AOrig j :: l' => if Z.eqb i j then take_ids r l' else None
    | _ => None
    end
  end.

(* layout of a statement list followed by continuation k; None = tree rejected *)
Fixpoint layout (fuel : nat) (l : list ast) (k : name) (st : cst) : option (name * cst) :=
  match fuel with
  | O => None
  | S f =>
    match l with
    | [] => Some (k, st)
    | AOrig id :: _ =>
      match block_of id with
      | None => None
      | Some b =>
        match zassoc b info, ofind g b with
        | Some oi, Some ob =>
          match o_succ ob with
          | [_; _] =>
            (* all but the last identity, then the if on the last *)
            match take_ids (removelast (oi_ids oi)) l with
            | Some (AIfTest tid t e :: rest) =>
              if Z.eqb tid (last (oi_ids oi) 0) then
                match layout f rest k st with
                | Some (kr, st1) =>
                  match layout f t kr st1 with
                  | Some (nt, st2) =>
                    match layout f e kr st2 with
                    | Some (ne, st3) => Some (b, addn (mkNode b 0 [nt; ne] [] (KOrig 1)) st3)
                    | None => None end
                  | None => None end
                | None => None end
              else None
            | _ => None
            end
          | [] =>
            (* an exit of the input graph: either it still ends the function (its return statement is
               emitted as it is), or the graph was closed and its return became an assignment followed,
               eventually, by the common return *)
            match take_ids (oi_ids oi) l with
            | Some _ => Some (b, addn (mkNode b 0 [] [] (KOrig 1)) st)
            | None =>
              match take_ids (removelast (oi_ids oi)) l with
              | Some (ARetAssign j :: r) =>
                if Z.eqb j (last (oi_ids oi) 0) && oi_last_ret oi then
                  match layout f r k st with
                  | Some (kr, st1) => Some (b, addn (mkNode b 0 [kr] [] (KOrig 1)) st1)
                  | None => None end
                else None
              | _ => None
              end
            end
          | [_] =>
            match take_ids (oi_ids oi) l with
            | Some r =>
              match layout f r k st with
              | Some (kr, st1) => Some (b, addn (mkNode b 0 [kr] [] (KOrig 1)) st1)
              | None => None end
            | None => None
            end
          | _ => None
          end
        | _, _ => None
        end
      end
    | AIfTest tid t e :: rest =>
      (* a two-way block whose only identity is its test *)
      match block_of tid with
      | Some b =>
        match zassoc b info, ofind g b with
        | Some oi, Some ob =>
          match oi_ids oi, o_succ ob with
          | [tid'], [_; _] =>
            if Z.eqb tid tid' then
              match layout f rest k st with
              | Some (kr, st1) =>
                match layout f t kr st1 with
                | Some (nt, st2) =>
                  match layout f e kr st2 with
                  | Some (ne, st3) => Some (b, addn (mkNode b 0 [nt; ne] [] (KOrig 1)) st3)
                  | None => None end
                | None => None end
              | None => None end
            else None
          | _, _ => None
          end
        | _, _ => None
        end
      | None => None
      end
    | ARetAssign lid :: rest =>
      (* a one-way block whose only identity is its return *)
      match block_of lid with
      | Some b =>
        match zassoc b info, ofind g b with
        | Some oi, Some ob =>
          match oi_ids oi, o_succ ob with
          | [lid'], [] =>
            if Z.eqb lid lid' && oi_last_ret oi then
              match layout f rest k st with
              | Some (kr, st1) => Some (b, addn (mkNode b 0 [kr] [] (KOrig 1)) st1)
              | None => None end
            else None
          | _, _ => None
          end
        | _, _ => None
        end
      | None => None
      end
    | AAssign v z :: rest =>
      match layout f rest k st with
      | Some (kr, st1) => let '(n, st2) := fresh st1 in Some (n, addn (mkNode n 0 [kr] [] (KAssign [(v, z)])) st2)
      | None => None end
    | APass :: rest => layout f rest k st
    | AReturn :: _ => let '(n, st1) := fresh st in Some (n, addn (mkNode n 0 [] [] (KPlain 3)) st1)
    | ACont j :: rest =>
      match layout f rest k st with
      | Some (kr, st1) => let '(n, st2) := fresh st1 in
                          Some (n, addn (mkNode n 0 [kr] [] (KAssign [(loop_var j, 1)])) st2)
      | None => None end
    | ALatch j v :: rest =>
      match layout f rest k st with
      | Some (kr, st1) =>
        let '(a1, st2) := fresh st1 in
        let '(a0, st3) := fresh st2 in
        let '(bn, st4) := fresh st3 in
        let tbl := map (fun z => (z, if Z.eqb z 0 then a1 else a0)) (universe v [0]) in
        Some (bn, addn (mkNode bn 0 [a1; a0] [] (KBranch 12 v tbl))
                   (addn (mkNode a1 0 [kr] [] (KAssign [(loop_var j, 1)]))
                   (addn (mkNode a0 0 [kr] [] (KAssign [(loop_var j, 0)])) st4)))
      | None => None end
    | AIfIn v vals t e :: rest =>
      match layout f rest k st with
      | Some (kr, st1) =>
        match layout f t kr st1 with
        | Some (nt, st2) =>
          match layout f e kr st2 with
          | Some (ne, st3) =>
            let '(bn, st4) := fresh st3 in
            let tbl := map (fun z => (z, if zmem z vals then nt else ne)) (universe v vals) in
            Some (bn, addn (mkNode bn 0 [nt; ne] [] (KBranch 13 v tbl)) st4)
          | None => None end
        | None => None end
      | None => None end
    | AWhile j body :: rest =>
      match layout f rest k st with
      | Some (kr, st1) =>
        let '(hn, st2) := fresh st1 in
        match layout f body hn st2 with
        | Some (nb, st3) =>
          Some (hn, addn (mkNode hn 0 [nb; kr] [] (KBranch 12 (loop_var j) [(1, nb); (0, kr)])) st3)
        | None => None end
      | None => None end
    end
  end.
End Layout.

Definition tree_graph (g : ograph) (info : list (name * oinfo)) (tree : list ast) : option (name * hier) :=
  let big := (S (S (length (concat (map (fun p => oi_ids (snd p)) info)) + 4 * length tree)) * 8)%nat in
  let fuel := (big * 4)%nat in
  (* falling off the end of the function: a stop *)
  let endn := mkNode (-1) 0 [] [] (KPlain 3) in
  match layout g info tree big fuel tree (-1) (mkC 2 [endn]) with
  | Some (start, st) => Some (start, c_nodes st)
  | None => None
  end.

(* ---------- blocks without statements ----------
   A one-way block that holds no statement (the front end keeps such an entry block in front of a
   loop header) leaves no trace in the generated code: the comparison is made with the input graph
   in which those blocks are by-passed. *)
Definition is_empty_block (g : ograph) (info : list (name * oinfo)) (x : name) : option name :=
  match ofind g x, zassoc x info with
  | Some ob, Some oi => match oi_ids oi, o_succ ob with [], [t] => Some t | _, _ => None end
  | _, _ => None
  end.

Fixpoint bypass (g : ograph) (info : list (name * oinfo)) (fuel : nat) (x : name) : name :=
  match fuel with
  | O => x
  | S f => match is_empty_block g info x with Some t => bypass g info f t | None => x end
  end.

Definition contract (g : ograph) (info : list (name * oinfo)) : ograph :=
  flat_map (fun ob => match is_empty_block g info (o_name ob) with
                      | Some _ => []
                      | None => [mkO (o_name ob) (o_payload ob) (map (bypass g info (S (length g))) (o_succ ob))]
                      end) g.

Definition entry_of (g : ograph) (info : list (name * oinfo)) : option name :=
  match oentry g with Some en => Some (bypass g info (S (length g)) en) | None => None end.

(* ---------- the check and what it establishes ---------- *)
Definition TreeEq (g : ograph) (en start : name) (hT : hier) : Prop :=
  NoDup (names hT) /\
  exists e0,
    SRun hT (resolve_flat hT) false start [] (Reached en e0) /\
    forall ds, WTrace hT (resolve_flat hT) false en e0 ds (fst (otrace g en ds)) (snd (otrace g en ds)).

Definition bigsteps : nat := Z.to_nat 400000.

Definition tree_check (g : ograph) (en start : name) (hT : hier) : bool :=
  nodupb (names hT) &&
  let rs := resolve_flat hT in
  let fuel := S (length hT) in
  match srun hT rs false fuel start [] with
  | Reached m e0 =>
    Z.eqb m en &&
    let R := explore hT rs false bigsteps fuel [(en, e0)] [] in
    in_R R en e0 && forallb (sim_state hT rs false g fuel R) R
  | _ => false
  end.

Theorem tree_check_sound g en start hT : tree_check g en start hT = true -> TreeEq g en start hT.
Proof.
  unfold tree_check, TreeEq. intros H.
  apply andb_true_iff in H as [Hnd H]. split; [apply nodupb_NoDup; exact Hnd|].
  destruct (srun hT (resolve_flat hT) false (S (length hT)) start []) as [m e0| |] eqn:Hs; try discriminate.
  apply andb_true_iff in H as [Hm H]. apply Z.eqb_eq in Hm. subst m.
  apply andb_true_iff in H as [Hin Hall].
  assert (Hle0 : le_env [] []) by (intros v z Hv; exact Hv).
  pose proof (srun_sound hT (resolve_flat hT) false (S (length hT)) start [] [] Hle0) as Hr. rewrite Hs in Hr.
  destruct Hr as [e' [Hrun Hle]].
  exists e'. split; [exact Hrun|].
  intros ds. apply (sim_states_sound hT (resolve_flat hT) false g _ _ Hall).
  eapply in_R_inv; [exact Hin|exact Hle].
Qed.

(* the whole back-end check of one instance *)
Definition back_check (g : ograph) (info : list (name * oinfo)) (tree : list ast) : bool :=
  let g' := contract g info in
  match entry_of g info, tree_graph g' info tree with
  | Some en, Some (start, hT) => tree_check g' en start hT
  | _, _ => false
  end.

Theorem back_check_sound g info tree : back_check g info tree = true ->
  exists en start hT, entry_of g info = Some en /\ tree_graph (contract g info) info tree = Some (start, hT) /\
                      TreeEq (contract g info) en start hT.
Proof.
  unfold back_check. destruct (entry_of g info) as [en|]; [|discriminate].
  destruct (tree_graph (contract g info) info tree) as [[start hT]|]; [|discriminate].
  intros H. exists en, start, hT. split; [reflexivity|]. split; [reflexivity|]. apply tree_check_sound. exact H.
Qed.

(* Bytecode.v — property C09: FlowInfo.from_bytecode + build_basicblocks modelled
   line by line over an abstract instruction stream, and the theorem that the
   blocks tile the stream and carry exactly the successors of their last
   instruction — for every stream satisfying the stated hypotheses. *)
From Coq Require Import List ZArith Bool Lia Sorting.Sorted.
Import ListNotations.
From V Require Import Valid.Hier Model.Graph.
Local Open Scope Z_scope.

Inductive icls := IPlain | ICond | IUncond | IRet.

(* what dis.Bytecode yields (inline cache entries hidden): offset, size in
   bytes including the instruction's cache entries, class, jump argument
   (argval), is_jump_target *)
Record instr := mkI { i_off : Z; i_size : Z; i_cls : icls; i_arg : Z; i_tgt : bool }.
Definition stream := list instr.

Definition offs (s : stream) : list Z := map i_off s.

(* ---------- FlowInfo.from_bytecode ---------- *)
Definition leaders_of (i : instr) : list Z :=
  (if Z.eqb (i_off i) 0 || i_tgt i then [i_off i] else []) ++
  match i_cls i with
  | ICond => [i_off i + 2; i_arg i]
  | IUncond => [i_arg i]
  | _ => []
  end.

Definition raw_leaders (s : stream) : list Z := flat_map leaders_of s.

Definition jump_of (i : instr) : option (list Z) :=
  match i_cls i with
  | ICond => Some [i_off i + 2; i_arg i]
  | IUncond => Some [i_arg i]
  | IRet => Some []
  | IPlain => None
  end.

(* jump_insts: a later instruction at the same offset would overwrite; offsets are distinct *)
Fixpoint jump_insts (s : stream) (o : Z) : option (list Z) :=
  match s with
  | [] => None
  | i :: r => match jump_insts r o with
              | Some t => Some t
              | None => if Z.eqb (i_off i) o then jump_of i else None
              end
  end.

Definition last_offset (s : stream) : Z := last (offs s) 0.

(* ---------- build_basicblocks ---------- *)
Record bblock := mkB { b_begin : Z; b_end : Z; b_succ : list Z }.   (* successors by their begin offset *)

Definition consec (l : list Z) (e : Z) : list (Z * Z) := combine l (tl l ++ [e]).

(* None = KeyError *)
Definition targets_of (s : stream) (L : list Z) (e : Z) : option (list Z) :=
  match jump_insts s (e - 2) with
  | None => if zmem e L then Some [e] else None
  | Some ts => if forallb (fun t => zmem t L) ts then Some ts else None
  end.

Fixpoint mapM {A B} (f : A -> option B) (l : list A) : option (list B) :=
  match l with
  | [] => Some []
  | a :: r => match f a, mapM f r with
              | Some b, Some br => Some (b :: br)
              | _, _ => None
              end
  end.

Definition leaders (s : stream) : list Z := zsort (raw_leaders s).
Definition end_offset (s : stream) : Z := last_offset s + 2.

Definition mk_block (s : stream) (be : Z * Z) : option bblock :=
  match targets_of s (leaders s) (snd be) with
  | Some ts => Some (mkB (fst be) (snd be) ts)
  | None => None
  end.

Definition cut (s : stream) : option (list bblock) :=
  mapM (mk_block s) (consec (leaders s) (end_offset s)).

(* ---------- hypotheses on the stream ---------- *)
Fixpoint chained (s : stream) : Prop :=
  match s with
  | [] => True
  | i :: r => 2 <= i_size i /\ Z.even (i_size i) = true /\
              match r with
              | [] => True
              | j :: _ => i_off j = i_off i + i_size i
              end /\ chained r
  end.

Definition next_off (i : instr) : Z := i_off i + i_size i.

Record WfStream (s : stream) : Prop := {
  wf_nonempty : s <> [];
  wf_first : forall i r, s = i :: r -> i_off i = 0;
  wf_chain : chained s;
  (* jump arguments are instruction offsets *)
  wf_args : forall i, In i s -> (i_cls i = ICond \/ i_cls i = IUncond) -> In (i_arg i) (offs s);
  (* jumps and returns carry no inline cache (holds for the interpreter's table: cachefree) *)
  wf_cachefree : forall i, In i s -> (i_cls i = IUncond \/ i_cls i = IRet) -> i_size i = 2;
  (* the compiler emits no dead code: what follows a jump or return is a jump target *)
  wf_nodead : forall i j, In i s -> In j s -> i_off j = next_off i ->
                          (i_cls i = IUncond \/ i_cls i = IRet) -> i_tgt j = true;
  (* a conditional jump with cache entries is followed by an instruction that is not a leader *)
  wf_condcache : forall i, In i s -> i_cls i = ICond -> 2 < i_size i ->
                           ~ In (next_off i) (raw_leaders s);
  (* control does not fall off the end *)
  wf_closed : forall i, In i s -> i_off i = last_offset s -> (i_cls i = IUncond \/ i_cls i = IRet)
}.

(* what the interpreter does after an instruction *)
Definition isucc (i : instr) : list Z :=
  match i_cls i with
  | IPlain => [next_off i]
  | ICond => [next_off i; i_arg i]
  | IUncond => [i_arg i]
  | IRet => []
  end.

Definition InBlock (b : bblock) (o : Z) : Prop := b_begin b <= o < b_end b.

(* the block that holds offset o is the one named by its begin *)
Definition Holds (bl : list bblock) (begin o : Z) : Prop :=
  exists b, In b bl /\ b_begin b = begin /\ InBlock b o.

Record CutSpec (s : stream) (bl : list bblock) : Prop := {
  (* contiguous, gap-free, overlap-free tiling of [0, end): the begins are
     strictly increasing from 0 and every end is the next begin, the last one
     the end of the stream *)
  cs_begins : StronglySorted Z.lt (map b_begin bl) /\ hd_error (map b_begin bl) = Some 0;
  cs_ends : map b_end bl = tl (map b_begin bl) ++ [last_offset s + 2];
  cs_nonempty : forall b, In b bl -> b_begin b < b_end b;
  (* every instruction lies in a block (exactly one, by the tiling) *)
  cs_cover : forall i, In i s -> exists b, In b bl /\ InBlock b (i_off i);
  (* control enters a block only at its begin: jump targets are block begins *)
  cs_enter : forall i b, In i s -> In b bl -> InBlock b (i_off i) -> i_tgt i = true ->
                         i_off i = b_begin b;
  (* inside a block, every instruction but the last just falls through to the next one *)
  cs_inner : forall i j b, In i s -> In j s -> In b bl -> InBlock b (i_off i) -> InBlock b (i_off j) ->
                           i_off i < i_off j -> i_cls i = IPlain;
  (* the successors of a block are those of its last instruction, in order,
     each named by the block that holds it *)
  cs_succ : forall i b, In i s -> In b bl -> InBlock b (i_off i) ->
              (forall j, In j s -> InBlock b (i_off j) -> i_off j <= i_off i) ->
              length (b_succ b) = length (isucc i) /\
              forall k t o, nth_error (b_succ b) k = Some t -> nth_error (isucc i) k = Some o ->
                            Holds bl t o
}.

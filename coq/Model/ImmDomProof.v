(* ImmDomProof.v — _imm_doms returns the immediate dominators whatever the enumeration orders, when the
   strict-dominator sets are chains (witnessed by idom); never `[v] = vs` on a non-singleton, never a KeyError. *)
From Coq Require Import List ZArith Bool Lia.
Import ListNotations.
From V Require Import Valid.Hier Model.Graph Model.Edits Model.ImmDom.
Local Open Scope Z_scope.

Lemma diff_In a b x : In x (diff a b) <-> In x a /\ ~ In x b.
Proof. unfold diff. rewrite filter_In, negb_true_iff, zmem_false. tauto. Qed.

Lemma diff_nodup a b : NoDup a -> NoDup (diff a b).
Proof. unfold diff. apply NoDup_filter. Qed.

Lemma diff_same a b : (forall x, In x a -> ~ In x b) -> diff a b = a.
Proof.
  unfold diff. induction a as [|x r IH]; intros H; [reflexivity|]. cbn.
  assert (zmem x b = false) as -> by (apply zmem_false; apply H; left; reflexivity). cbn.
  rewrite IH; [reflexivity|]. intros y Hy. apply H. right. exact Hy.
Qed.

Lemma nodup_single (l : list name) m : NoDup l -> (forall x, In x l <-> x = m) -> l = [m].
Proof.
  intros Hn H. destruct l as [|a r]; [exfalso; apply (proj2 (H m) eq_refl)|].
  assert (a = m) by (apply H; left; reflexivity). subst a.
  destruct r as [|b r']; [reflexivity|]. exfalso.
  assert (b = m) by (apply H; right; left; reflexivity). subst b.
  inversion Hn as [|? ? Hni _]; subst. apply Hni. left. reflexivity.
Qed.

Section Proof.
Variable snap : name -> list name -> list name.
Hypothesis snap_spec : forall k vs x, In x (snap k vs) <-> In x vs.
Variable I0 : imap.                       (* idoms as first built: doms[k] - {k} *)
Variable idom : name -> option name.      (* the witness *)
Hypothesis Hkeys : NoDup (map fst I0).
Hypothesis HA : forall k vs, zassoc k I0 = Some vs ->
  NoDup vs /\ match idom k with Some m => In m vs | None => vs = [] end.
Hypothesis HB : forall k vs m, zassoc k I0 = Some vs -> idom k = Some m ->
  forall c, In c vs -> c <> m -> exists c', In c' vs /\ idom c' = Some c.
Hypothesis HC : forall k vs m, zassoc k I0 = Some vs -> idom k = Some m ->
  forall c dc, In c vs -> zassoc c I0 = Some dc -> ~ In m dc.
Hypothesis HD : forall k vs c, zassoc k I0 = Some vs -> In c vs -> zassoc c I0 <> None.
(* a block is no strict dominator of itself (the sets are doms[k] - {k}) *)
Hypothesis Hirr : forall k vs, zassoc k I0 = Some vs -> ~ In k vs.

Definition fin (k : name) : list name := match idom k with Some m => [m] | None => [] end.

(* every set is as first built or already final *)
Definition J (I : imap) : Prop :=
  map fst I = map fst I0 /\
  forall k vs0, zassoc k I0 = Some vs0 -> zassoc k I = Some vs0 \/ zassoc k I = Some (fin k).

Lemma dset_keys_same {A} (l : list (Z * A)) k v : zassoc k l <> None -> map fst (dset l k v) = map fst l.
Proof.
  induction l as [|[k' v'] r IH]; cbn; [congruence|].
  destruct (Z.eqb_spec k k') as [->|Hne]; cbn; [reflexivity|]. intros H. f_equal. apply IH. exact H.
Qed.

Lemma J_cur I k vs0 c : J I -> zassoc k I0 = Some vs0 -> idom k = Some c ->
  exists dv, zassoc k I = Some dv /\ In c dv /\ (forall x, In x dv -> In x vs0).
Proof.
  intros [_ HJ] H0 Hi. destruct (HJ k vs0 H0) as [E|E].
  - exists vs0. split; [exact E|]. split; [|auto]. destruct (HA k vs0 H0) as [_ H]. rewrite Hi in H. exact H.
  - exists (fin k). split; [exact E|]. unfold fin. rewrite Hi. split; [left; reflexivity|].
    intros x [<-|[]]. destruct (HA k vs0 H0) as [_ H]. rewrite Hi in H. exact H.
Qed.

Lemma J_sub I k vs0 dv : J I -> zassoc k I0 = Some vs0 -> zassoc k I = Some dv -> forall x, In x dv -> In x vs0.
Proof.
  intros [_ HJ] H0 E x Hx. destruct (HJ k vs0 H0) as [E'|E']; rewrite E in E'; injection E' as ->; [exact Hx|].
  unfold fin in Hx. destruct (idom k) as [m|] eqn:Hi; [|destruct Hx]. destruct Hx as [<-|[]].
  destruct (HA k vs0 H0) as [_ H]. rewrite Hi in H. exact H.
Qed.

(* pruning along any list of elements of the set: a fold of differences *)
Lemma prune_spec I : J I -> forall sn vs vs0 k, zassoc k I0 = Some vs0 ->
  (forall v, In v sn -> In v vs0) ->
  exists r, prune I vs sn = Some r /\
    forall x, In x r <-> In x vs /\ forall v dv, In v sn -> zassoc v I = Some dv -> ~ In x dv.
Proof.
  intros HJ. induction sn as [|v rest IH]; intros vs vs0 k H0 Hsn; cbn [prune].
  - exists vs. split; [reflexivity|]. intros x. split; [intros H; split; [exact H|intros ? ? []]|tauto].
  - assert (Hv0 : zassoc v I0 <> None) by (apply (HD k vs0 v H0); apply Hsn; left; reflexivity).
    destruct (zassoc v I0) as [dv0|] eqn:Ev0; [|congruence].
    destruct HJ as [HK HJ']. destruct (HJ' v dv0 Ev0) as [E|E]; rewrite E.
    + destruct (IH (diff vs dv0) vs0 k H0 (fun y Hy => Hsn y (or_intror Hy))) as [r [Er Hr]].
      exists r. split; [exact Er|]. intros x. rewrite Hr, diff_In. split.
      * intros [[H1 H2] H3]. split; [exact H1|]. intros v' dv' [<-|Hv'] Ed; [rewrite E in Ed; injection Ed as <-; exact H2|eapply H3; eauto].
      * intros [H1 H2]. split; [split; [exact H1|apply (H2 v dv0 (or_introl eq_refl) E)]|]. intros v' dv' Hv'. apply H2. right. exact Hv'.
    + destruct (IH (diff vs (fin v)) vs0 k H0 (fun y Hy => Hsn y (or_intror Hy))) as [r [Er Hr]].
      exists r. split; [exact Er|]. intros x. rewrite Hr, diff_In. split.
      * intros [[H1 H2] H3]. split; [exact H1|]. intros v' dv' [<-|Hv'] Ed; [rewrite E in Ed; injection Ed as <-; exact H2|eapply H3; eauto].
      * intros [H1 H2]. split; [split; [exact H1|apply (H2 v (fin v) (or_introl eq_refl) E)]|]. intros v' dv' Hv'. apply H2. right. exact Hv'.
Qed.

Lemma prune_sub I : forall sn vs r, prune I vs sn = Some r -> forall x, In x r -> In x vs.
Proof.
  induction sn as [|v rest IH]; intros vs r H x Hx; cbn [prune] in H; [injection H as <-; exact Hx|].
  destruct (zassoc v I) as [dv|]; [|discriminate]. apply (IH _ _ H) in Hx. apply diff_In in Hx. apply Hx.
Qed.

Lemma prune_nodup I : forall sn vs r, NoDup vs -> prune I vs sn = Some r -> NoDup r.
Proof.
  induction sn as [|v rest IH]; intros vs r Hn H; cbn [prune] in H; [injection H as <-; exact Hn|].
  destruct (zassoc v I) as [dv|]; [|discriminate]. apply (IH _ _ (diff_nodup vs dv Hn) H).
Qed.

(* one block: whatever the snapshot order, an as-first-built set becomes final, a final one stays *)
Lemma step_final I k vs0 : J I -> zassoc k I0 = Some vs0 ->
  forall vs, zassoc k I = Some vs ->
  exists vs', prune I vs (snap k vs) = Some vs' /\ vs' = fin k /\ (vs = fin k -> vs' = vs).
Proof.
  intros HJ H0 vs E.
  assert (Hsub : forall x, In x vs -> In x vs0) by (apply (J_sub I k vs0 vs HJ H0 E)).
  destruct (prune_spec I HJ (snap k vs) vs vs0 k H0) as [r [Er Hr]].
  { intros v Hv. apply Hsub. apply snap_spec in Hv. exact Hv. }
  exists r. split; [exact Er|].
  destruct (HA k vs0 H0) as [Hnd0 Hm].
  assert (Hndvs : NoDup vs).
  { destruct HJ as [_ HJ']. destruct (HJ' k vs0 H0) as [E'|E']; rewrite E in E'; injection E' as ->; [exact Hnd0|].
    unfold fin. destruct (idom k); repeat constructor. intros []. }
  assert (Hndr : NoDup r) by (apply (prune_nodup I _ _ _ Hndvs Er)).
  assert (Hfin : r = fin k).
  { unfold fin. destruct (idom k) as [m|] eqn:Hi.
    - apply nodup_single; [exact Hndr|]. intros x. rewrite Hr. split.
      + intros [Hx Hno]. destruct (Z.eq_dec x m) as [->|Hne]; [reflexivity|]. exfalso.
        destruct (HB k vs0 m H0 Hi x (Hsub x Hx) Hne) as [c' [Hc' Hic']].
        (* c' is in the snapshot?  it is in vs0; is it in vs? *)
        destruct HJ as [HK HJ']. destruct (HJ' k vs0 H0) as [E'|E']; rewrite E in E'; injection E' as ->.
        * assert (Hc0 : zassoc c' I0 <> None) by (apply (HD k vs0 c' H0 Hc')).
          destruct (zassoc c' I0) as [dc0|] eqn:Ec0; [|congruence].
          destruct (J_cur I c' dc0 x (conj HK HJ') Ec0 Hic') as [dv [Edv [Hin _]]].
          apply (Hno c' dv); [apply snap_spec; exact Hc'|exact Edv|exact Hin].
        * unfold fin in Hx. rewrite Hi in Hx. destruct Hx as [<-|[]]. congruence.
      + intros ->. split.
        * destruct HJ as [HK HJ']. destruct (HJ' k vs0 H0) as [E'|E']; rewrite E in E'; injection E' as ->; [exact Hm|].
          unfold fin. rewrite Hi. left. reflexivity.
        * intros v dv Hv Edv Hin. apply snap_spec in Hv. pose proof (Hsub v Hv) as Hv0.
          assert (Hv00 : zassoc v I0 <> None) by (apply (HD k vs0 v H0 Hv0)).
          destruct (zassoc v I0) as [dv0|] eqn:Ev0; [|congruence].
          apply (HC k vs0 m H0 Hi v dv0 Hv0 Ev0). apply (J_sub I v dv0 dv HJ Ev0 Edv). exact Hin.
    - subst vs0. destruct r as [|x r']; [reflexivity|]. exfalso.
      assert (Hx : In x vs) by (apply (prune_sub I _ _ _ Er); left; reflexivity). destruct (Hsub x Hx). }
  split; [exact Hfin|]. intros Ev. rewrite Hfin, Ev. reflexivity.
Qed.

Lemma J_dset I k vs0 : J I -> zassoc k I0 = Some vs0 -> J (dset I k (fin k)).
Proof.
  intros [HK HJ] H0. split.
  - rewrite dset_keys_same; [exact HK|]. destruct (HJ k vs0 H0) as [E|E]; rewrite E; discriminate.
  - intros k' vs' H'. rewrite zassoc_dset. destruct (Z.eqb_spec k' k) as [->|_]; [right; reflexivity|apply HJ; exact H'].
Qed.

(* a pass over any duplicate-free list of keys *)
Lemma pass_spec : forall keys I ch, J I -> NoDup keys -> (forall k, In k keys -> zassoc k I0 <> None) ->
  exists I' ch', pass snap I keys ch = Some (I', ch') /\ J I' /\
    (forall k, In k keys -> zassoc k I' = Some (fin k)) /\
    (forall k, ~ In k keys -> zassoc k I' = zassoc k I) /\
    ((forall k, In k keys -> zassoc k I = Some (fin k)) -> ch' = ch).
Proof.
  induction keys as [|k rest IH]; intros I ch HJ Hnd Hk; cbn [pass].
  - exists I, ch. split; [reflexivity|]. split; [exact HJ|]. split; [intros k []|]. split; [reflexivity|]. reflexivity.
  - apply NoDup_cons_iff in Hnd as [Hnk Hnd'].
    destruct (zassoc k I0) as [vs0|] eqn:H0; [|exfalso; apply (Hk k (or_introl eq_refl)); exact H0].
    destruct HJ as [HK HJ']. destruct (HJ' k vs0 H0) as [E|E].
    + (* as first built *)
      rewrite E. destruct (step_final I k vs0 (conj HK HJ') H0 vs0 E) as [vs' [Ep [Hf Hst]]]. rewrite Ep, Hf.
      destruct (IH (dset I k (fin k)) (ch || Nat.ltb (length (fin k)) (length vs0))%bool (J_dset I k vs0 (conj HK HJ') H0) Hnd')
        as [I' [ch' [E' [J' [F' [O' C']]]]]].
      { intros k' Hk'. apply Hk. right. exact Hk'. }
      exists I', ch'. split; [exact E'|]. split; [exact J'|]. split; [|split].
      * intros k' [<-|Hk']; [|apply F'; exact Hk']. rewrite (O' k Hnk), zassoc_dset, Z.eqb_refl. reflexivity.
      * intros k' Hk'. rewrite O' by (intros Hi; apply Hk'; right; exact Hi). rewrite zassoc_dset.
        destruct (Z.eqb_spec k' k) as [->|_]; [exfalso; apply Hk'; left; reflexivity|reflexivity].
      * intros Hall. assert (Ek : zassoc k I = Some (fin k)) by (apply Hall; left; reflexivity).
        rewrite E in Ek. injection Ek as Ek. rewrite C'.
        -- rewrite Ek, Nat.ltb_irrefl, orb_false_r. reflexivity.
        -- intros k' Hk'. rewrite zassoc_dset. destruct (Z.eqb_spec k' k) as [->|]; [reflexivity|]. apply Hall. right. exact Hk'.
    + (* already final *)
      rewrite E. destruct (step_final I k vs0 (conj HK HJ') H0 (fin k) E) as [vs' [Ep [Hf Hst]]]. rewrite Ep, Hf.
      destruct (IH (dset I k (fin k)) (ch || Nat.ltb (length (fin k)) (length (fin k)))%bool (J_dset I k vs0 (conj HK HJ') H0) Hnd')
        as [I' [ch' [E' [J' [F' [O' C']]]]]].
      { intros k' Hk'. apply Hk. right. exact Hk'. }
      exists I', ch'. split; [exact E'|]. split; [exact J'|]. split; [|split].
      * intros k' [<-|Hk']; [|apply F'; exact Hk']. rewrite (O' k Hnk), zassoc_dset, Z.eqb_refl. reflexivity.
      * intros k' Hk'. rewrite O' by (intros Hi; apply Hk'; right; exact Hi). rewrite zassoc_dset.
        destruct (Z.eqb_spec k' k) as [->|_]; [exfalso; apply Hk'; left; reflexivity|reflexivity].
      * intros Hall. rewrite C'.
        -- rewrite Nat.ltb_irrefl, orb_false_r. reflexivity.
        -- intros k' Hk'. rewrite zassoc_dset. destruct (Z.eqb_spec k' k) as [->|]; [reflexivity|]. apply Hall. right. exact Hk'.
Qed.

Lemma keys_defined I : J I -> forall k, In k (map fst I) -> zassoc k I0 <> None.
Proof.
  intros [HK _] k Hk. rewrite HK in Hk. apply in_map_iff in Hk as [[k' v] [<- Hin]]. cbn.
  clear -Hin. induction I0 as [|[a b] r IH]; [destruct Hin|]. cbn. destruct (Z.eqb_spec k' a); [discriminate|].
  destruct Hin as [[= -> ->]|Hin]; [congruence|apply IH; exact Hin].
Qed.

Lemma J_init : J I0.
Proof. split; [reflexivity|]. intros k vs0 H. left. exact H. Qed.

(* the loop ends after at most two passes, with every set final *)
Theorem loop_final : forall fuel, (2 <= fuel)%nat ->
  exists I, loop snap fuel I0 = Some I /\ map fst I = map fst I0 /\
    forall k, In k (map fst I0) -> zassoc k I = Some (fin k).
Proof.
  intros fuel Hf. destruct fuel as [|[|f]]; try lia. cbn [loop].
  destruct (pass_spec (map fst I0) I0 false J_init Hkeys (keys_defined I0 J_init)) as [I1 [ch1 [E1 [J1 [F1 [_ _]]]]]].
  rewrite E1. destruct ch1.
  - (* second pass: nothing changes *)
    assert (Hk1 : map fst I1 = map fst I0) by apply J1.
    destruct (pass_spec (map fst I1) I1 false J1) as [I2 [ch2 [E2 [J2 [F2 [_ C2]]]]]].
    { rewrite Hk1. exact Hkeys. }
    { apply keys_defined. exact J1. }
    rewrite E2. rewrite C2 by (intros k Hk; apply F1; rewrite <- Hk1; exact Hk).
    exists I2. split; [reflexivity|]. split; [rewrite (proj1 J2); reflexivity|].
    intros k Hk. apply F2. rewrite Hk1. exact Hk.
  - exists I1. split; [reflexivity|]. split; [apply J1|exact F1].
Qed.

Lemma fix_output_final : forall I, (forall k vs, In (k, vs) I -> vs = fin k) ->
  fix_output I = Some (flat_map (fun p => match idom (fst p) with Some m => [(fst p, m)] | None => [] end) I).
Proof.
  induction I as [|[k vs] r IH]; intros H; [reflexivity|]. cbn [fix_output flat_map fst].
  rewrite IH by (intros k' vs' Hin; apply H; right; exact Hin).
  rewrite (H k vs (or_introl eq_refl)). unfold fin. destruct (idom k); reflexivity.
Qed.
End Proof.

Lemma flat_map_keys {A} (f : name -> list A) (l : imap) :
  flat_map (fun p => f (fst p)) l = flat_map f (map fst l).
Proof. induction l as [|p r IH]; [reflexivity|]. cbn. rewrite IH. reflexivity. Qed.

Lemma in_zassoc (l : imap) k v : NoDup (map fst l) -> In (k, v) l -> zassoc k l = Some v.
Proof.
  induction l as [|[a b] r IH]; intros Hn Hin; [destruct Hin|]. cbn in *. apply NoDup_cons_iff in Hn as [Ha Hr].
  destruct Hin as [[= -> ->]|Hin]; [rewrite Z.eqb_refl; reflexivity|].
  destruct (Z.eqb_spec k a) as [->|_]; [exfalso; apply Ha; apply in_map_iff; exists (a, v); auto|apply IH; assumption].
Qed.

(* _imm_doms returns the witness, for every enumeration order of the snapshots *)
Theorem imm_doms_correct snap doms idom fuel :
  let I0 := map (fun p => (fst p, diff (snd p) [fst p])) doms in
  (forall k vs x, In x (snap k vs) <-> In x vs) ->
  NoDup (map fst I0) ->
  (forall k vs, zassoc k I0 = Some vs -> NoDup vs /\ match idom k with Some m => In m vs | None => vs = [] end) ->
  (forall k vs m, zassoc k I0 = Some vs -> idom k = Some m ->
     forall c, In c vs -> c <> m -> exists c', In c' vs /\ idom c' = Some c) ->
  (forall k vs m, zassoc k I0 = Some vs -> idom k = Some m ->
     forall c dc, In c vs -> zassoc c I0 = Some dc -> ~ In m dc) ->
  (forall k vs c, zassoc k I0 = Some vs -> In c vs -> zassoc c I0 <> None) ->
  (2 <= fuel)%nat ->
  imm_doms snap fuel doms =
  IOk (flat_map (fun k => match idom k with Some m => [(k, m)] | None => [] end) (map fst doms)).
Proof.
  intros I0 Hsnap Hk HA HB HC HD Hf. unfold imm_doms. fold I0.
  destruct fuel as [|f]; [lia|].
  destruct (loop_final snap Hsnap I0 idom Hk HA HB HC HD (S f) Hf) as [M [EM [KM FM]]]. rewrite EM.
  rewrite (fix_output_final idom M).
  - f_equal. rewrite (flat_map_keys (fun k => match idom k with Some m => [(k, m)] | None => [] end) M), KM.
    unfold I0. rewrite map_map. cbn [fst]. reflexivity.
  - intros k vs Hin. assert (Hz : zassoc k M = Some vs) by (apply in_zassoc; [rewrite KM; exact Hk|exact Hin]).
    rewrite FM in Hz; [injection Hz as <-; reflexivity|]. rewrite <- KM. apply in_map_iff. exists (k, vs). auto.
Qed.

(* two runs with different enumeration orders give the same answer *)
Corollary imm_doms_order_free snap1 snap2 doms idom fuel1 fuel2 :
  let I0 := map (fun p => (fst p, diff (snd p) [fst p])) doms in
  (forall k vs x, In x (snap1 k vs) <-> In x vs) -> (forall k vs x, In x (snap2 k vs) <-> In x vs) ->
  NoDup (map fst I0) ->
  (forall k vs, zassoc k I0 = Some vs -> NoDup vs /\ match idom k with Some m => In m vs | None => vs = [] end) ->
  (forall k vs m, zassoc k I0 = Some vs -> idom k = Some m ->
     forall c, In c vs -> c <> m -> exists c', In c' vs /\ idom c' = Some c) ->
  (forall k vs m, zassoc k I0 = Some vs -> idom k = Some m ->
     forall c dc, In c vs -> zassoc c I0 = Some dc -> ~ In m dc) ->
  (forall k vs c, zassoc k I0 = Some vs -> In c vs -> zassoc c I0 <> None) ->
  (2 <= fuel1)%nat -> (2 <= fuel2)%nat ->
  imm_doms snap1 fuel1 doms = imm_doms snap2 fuel2 doms.
Proof.
  intros I0 S1 S2 Hk HA HB HC HD F1 F2.
  rewrite (imm_doms_correct snap1 doms idom fuel1 S1 Hk HA HB HC HD F1).
  rewrite (imm_doms_correct snap2 doms idom fuel2 S2 Hk HA HB HC HD F2). reflexivity.
Qed.

(* ImmDomRun.v — the hypotheses of ImmDomProof.imm_doms_correct as a boolean (with the witness given as a
   table), proved to imply them, and the correspondence driver for transformations._imm_doms.
   rows:  71 k doms[k]..     the argument, in dictionary order, every set sorted
          72 status          0 returned, 1 KeyError, 4 ValueError (`[v] = vs` on a set that is no singleton)
          73 k v             the returned dictionary, in order
   answer: [decoded; same outcome; same dictionary, order-exact; the chain hypotheses hold with the returned
            dictionary as witness - so the universal theorem applies to this call] *)
From Coq Require Import List ZArith Bool Lia.
Import ListNotations.
From V Require Import Valid.Hier Model.Graph Model.Edits Model.ImmDom Model.ImmDomProof Model.Total2.
Local Open Scope Z_scope.

Definition opt_eqb (a b : option name) : bool :=
  match a, b with Some x, Some y => Z.eqb x y | None, None => true | _, _ => false end.

Definition imm_pre (doms : imap) (w : list (name * name)) : bool :=
  let I0 := map (fun p => (fst p, diff (snd p) [fst p])) doms in
  let idom := fun k => zassoc k w in
  nodupb (map fst I0) &&
  forallb (fun p =>
    let k := fst p in let vs := snd p in
    nodupb vs &&
    match idom k with
    | Some m =>
      zmem m vs &&
      forallb (fun c => Z.eqb c m || existsb (fun c' => opt_eqb (idom c') (Some c)) vs) vs &&
      forallb (fun c => match zassoc c I0 with Some dc => negb (zmem m dc) | None => true end) vs
    | None => match vs with [] => true | _ => false end
    end &&
    forallb (fun c => match zassoc c I0 with Some _ => true | None => false end) vs) I0.

Lemma imm_pre_sound doms w : imm_pre doms w = true ->
  let I0 := map (fun p => (fst p, diff (snd p) [fst p])) doms in
  let idom := fun k => zassoc k w in
  NoDup (map fst I0) /\
  (forall k vs, zassoc k I0 = Some vs -> NoDup vs /\ match idom k with Some m => In m vs | None => vs = [] end) /\
  (forall k vs m, zassoc k I0 = Some vs -> idom k = Some m ->
     forall c, In c vs -> c <> m -> exists c', In c' vs /\ idom c' = Some c) /\
  (forall k vs m, zassoc k I0 = Some vs -> idom k = Some m ->
     forall c dc, In c vs -> zassoc c I0 = Some dc -> ~ In m dc) /\
  (forall k vs c, zassoc k I0 = Some vs -> In c vs -> zassoc c I0 <> None).
Proof.
  intros H. cbv zeta. unfold imm_pre in H. cbv zeta in H.
  set (I0 := map (fun p => (fst p, diff (snd p) [fst p])) doms) in *.
  cbv beta in *.
  apply andb_true_iff in H as [Hk Hall]. rewrite forallb_forall in Hall.
  assert (Hp : forall k vs, zassoc k I0 = Some vs ->
    nodupb vs = true /\
    match zassoc k w with
    | Some m => zmem m vs = true /\
                forallb (fun c => Z.eqb c m || existsb (fun c' => opt_eqb (zassoc c' w) (Some c)) vs) vs = true /\
                forallb (fun c => match zassoc c I0 with Some dc => negb (zmem m dc) | None => true end) vs = true
    | None => vs = []
    end /\
    forallb (fun c => match zassoc c I0 with Some _ => true | None => false end) vs = true).
  { intros k vs Hz. apply zassoc_In in Hz. specialize (Hall (k, vs) Hz). cbn [fst snd] in Hall.
    apply andb_true_iff in Hall as [Hall H3]. apply andb_true_iff in Hall as [H1 H2].
    split; [exact H1|]. split; [|exact H3].
    destruct (zassoc k w) as [m|].
    - apply andb_true_iff in H2 as [H2 Hc]. apply andb_true_iff in H2 as [Ha Hb]. auto.
    - destruct vs; [reflexivity|discriminate]. }
  split; [apply nodupb_sound; exact Hk|]. split; [|split; [|split]].
  - intros k vs Hz. destruct (Hp k vs Hz) as [H1 [H2 _]]. split; [apply nodupb_sound; exact H1|].
    destruct (zassoc k w) as [m|]; [apply zmem_In; apply H2|exact H2].
  - intros k vs m Hz Hi c Hc Hne. destruct (Hp k vs Hz) as [_ [H2 _]]. rewrite Hi in H2. destruct H2 as [_ [Hb _]].
    rewrite forallb_forall in Hb. specialize (Hb c Hc). apply orb_true_iff in Hb as [E|E]; [apply Z.eqb_eq in E; contradiction|].
    apply existsb_exists in E as [c' [Hc' E]]. exists c'. split; [exact Hc'|].
    unfold opt_eqb in E. destruct (zassoc c' w) as [y|]; [|discriminate]. apply Z.eqb_eq in E. congruence.
  - intros k vs m Hz Hi c dc Hc Hdc. destruct (Hp k vs Hz) as [_ [H2 _]]. rewrite Hi in H2. destruct H2 as [_ [_ Hcc]].
    rewrite forallb_forall in Hcc. specialize (Hcc c Hc). rewrite Hdc in Hcc. apply negb_true_iff in Hcc. apply zmem_false in Hcc. exact Hcc.
  - intros k vs c Hz Hc. destruct (Hp k vs Hz) as [_ [_ H3]]. rewrite forallb_forall in H3. specialize (H3 c Hc).
    destruct (zassoc c I0); [discriminate|discriminate].
Qed.

(* the theorem with a computable premise *)
Theorem imm_doms_correct_b snap doms w fuel :
  (forall k vs x, In x (snap k vs) <-> In x vs) ->
  imm_pre doms w = true -> (2 <= fuel)%nat ->
  imm_doms snap fuel doms =
  IOk (flat_map (fun k => match zassoc k w with Some m => [(k, m)] | None => [] end) (map fst doms)).
Proof.
  intros Hs Hp Hf. destruct (imm_pre_sound doms w Hp) as [A [B [C [D E]]]].
  exact (imm_doms_correct snap doms (fun k => zassoc k w) fuel Hs A B C D E Hf).
Qed.

Record immrows := mkIR { ir_doms : imap; ir_status : list Z; ir_out : list (name * name); ir_bad : bool }.

Fixpoint split_imm (rows : list (list Z)) : immrows :=
  match rows with
  | [] => mkIR [] [] [] false
  | row :: rest =>
    let r := split_imm rest in
    match row with
    | 71 :: k :: l => mkIR ((k, l) :: ir_doms r) (ir_status r) (ir_out r) (ir_bad r)
    | 72 :: l => mkIR (ir_doms r) l (ir_out r) (ir_bad r)
    | [73; k; v] => mkIR (ir_doms r) (ir_status r) ((k, v) :: ir_out r) (ir_bad r)
    | _ => mkIR (ir_doms r) (ir_status r) (ir_out r) true
    end
  end.

Definition pairs_eqb (a b : list (name * name)) : bool :=
  list_eqb (map fst a) (map fst b) && list_eqb (map snd a) (map snd b).

Definition run_imm (rows : list (list Z)) : list Z :=
  let r := split_imm rows in
  if ir_bad r then [0; 0; 0; 0] else
  match imm_doms (fun _ vs => vs) 3 (ir_doms r), ir_status r with
  | IOk o, [0] => [1; 1; if pairs_eqb o (ir_out r) then 1 else 0; if imm_pre (ir_doms r) (ir_out r) then 1 else 0]
  | IKey, [1] => [1; 1; 1; 2]
  | IOne, [4] => [1; 1; 1; 2]
  | _, _ => [1; 0; 0; 0]
  end.

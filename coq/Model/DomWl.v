(* DomWl.v — transformations._find_dominators_internal, line by line: the
   work-list algorithm with its todo stack, the order in which the successors of
   a changed node are pushed (the iteration order of a Python set: an input
   here), the comparison `new_doms != doms[n]` and the assertion
   `len(new_doms) < len(doms[n])`.  Sets are strictly sorted lists, so set
   equality is list equality and the size is the length.
   Results: WOk (the table, the log of processed nodes with changed/unchanged),
   WAssert (the assertion), WKey (a KeyError), WNoEntry (the RuntimeError),
   WFuel (the model ran out of fuel). *)
From Coq Require Import List ZArith Bool Lia.
Import ListNotations.
From V Require Import Valid.Hier Model.Graph Model.Edits.
Local Open Scope Z_scope.

Definition dmap := list (name * list name).

Inductive wres :=
| WOk (D : dmap) (log : list (name * bool))
| WAssert | WKey | WNoEntry | WFuel.

Definition inter (a b : list name) : list name := filter (fun x => zmem x b) a.

Section WL.
Variable nodes : list name.
Variable entries : list name.
Variable preds : name -> list name.
Variable succs : name -> list name.      (* in the order the implementation iterates the set *)

(* [doms[p] for p in preds] *)
Fixpoint gather (D : dmap) (ps : list name) : option (list (list name)) :=
  match ps with
  | [] => Some []
  | p :: r =>
    match zassoc p D, gather D r with
    | Some s, Some l => Some (s :: l)
    | _, _ => None
    end
  end.

Definition new_doms (n : name) (ds : list (list name)) : list name :=
  match ds with
  | [] => [n]
  | d :: r => zinsert n (fold_left inter r d)
  end.

(* stk: the todo list as a stack, last element first *)
Fixpoint wl (fuel : nat) (D : dmap) (stk : list name) (log : list (name * bool)) : wres :=
  match fuel with
  | 0%nat => WFuel
  | S f =>
    match stk with
    | [] => WOk D (rev log)
    | n :: t =>
      if zmem n entries then wl f D t log
      else
        match gather D (preds n) with
        | None => WKey
        | Some ds =>
          let new := new_doms n ds in
          match zassoc n D with
          | None => WKey
          | Some old =>
            if list_eqb new old then wl f D t ((n, false) :: log)
            else if Nat.ltb (length new) (length old)
                 then wl f (dset D n new) (rev (succs n) ++ t) ((n, true) :: log)
                 else WAssert
          end
        end
    end
  end.

Definition init_D : dmap :=
  fold_left (fun D n => if zmem n entries then D else dset D n (zsort nodes)) nodes
            (fold_left (fun D e => dset D e [e]) entries []).

Definition init_stk : list name := rev (filter (fun n => negb (zmem n entries)) nodes).

Definition find_dominators (fuel : nat) : wres :=
  match entries with
  | [] => WNoEntry
  | _ => wl fuel init_D init_stk []
  end.
End WL.

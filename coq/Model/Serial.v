(* Serial.v — property C15: what SCFGIO.to_dict writes for a hierarchy, and the
   theorem that the written dictionary determines the hierarchy: two
   well-formed hierarchies with the same dictionary have the same blocks,
   types, payloads, successor tuples (in order), back edges, value tables,
   assignments, region nesting, headers and exiting blocks.  (Dictionary order
   inside a graph and the name of the anonymous top region are not recorded.) *)
From Coq Require Import List ZArith Bool Lia Sorting.Sorted.
Import ListNotations.
From V Require Import Valid.Hier Valid.FlatRegion Valid.Wf Model.Graph.
Local Open Scope Z_scope.

(* one entry of the dictionary: blocks[name] (type and type-specific fields),
   edges[name], backedges[name] *)
Record dentry := mkDE { d_name : Z; d_type : Z; d_edges : list Z; d_back : list Z; d_extra : list Z }.

Fixpoint flat_pairs (l : list (Z * Z)) : list Z :=
  match l with [] => [] | (a, b) :: r => a :: b :: flat_pairs r end.

Definition entry_of (n : node) : dentry :=
  match n_kind n with
  | KOrig p => mkDE (n_name n) 100 (n_jt n) (n_be n) [p]
  | KPlain c => mkDE (n_name n) c (n_jt n) (n_be n) []
  | KAssign a => mkDE (n_name n) 20 (n_jt n) (n_be n) (flat_pairs a)
  | KBranch c v tbl => mkDE (n_name n) c (n_jt n) (n_be n) (v :: flat_pairs tbl)
  | KRegion rk hd ex ch pd _ => mkDE (n_name n) 50 (n_jt n) (n_be n) (rk :: hd :: ex :: pd :: zsort ch)
  end.

(* the top (meta) region itself is not written *)
Definition to_dict (h : hier) : list dentry :=
  map entry_of (filter (fun n => negb (Z.eqb (n_parent n) 0)) h).

Definition SameDict (h1 h2 : hier) : Prop := forall e, In e (to_dict h1) <-> In e (to_dict h2).

Lemma flat_pairs_inj a b : flat_pairs a = flat_pairs b -> a = b.
Proof.
  revert b. induction a as [|[x y] a IH]; intros [|[x' y'] b]; cbn; try discriminate; auto.
  intros [= -> -> H]. f_equal. apply IH. exact H.
Qed.

(* class codes of the different block families never coincide (export.CLS):
   plain synthetic 1..9, branching synthetic 10..19, assignment 20, region 50, input blocks 100 *)
Definition codes_ok (n : node) : bool :=
  match n_kind n with
  | KPlain c => Z.leb 1 c && Z.leb c 9
  | KBranch c _ _ => Z.leb 10 c && Z.leb c 19
  | _ => true
  end.

(* the same entry describes the same block, up to the order of a region's children *)
Definition SameNode (n1 n2 : node) : Prop :=
  n_name n1 = n_name n2 /\ n_jt n1 = n_jt n2 /\ n_be n1 = n_be n2 /\
  match n_kind n1, n_kind n2 with
  | KOrig p1, KOrig p2 => p1 = p2
  | KPlain c1, KPlain c2 => c1 = c2
  | KAssign a1, KAssign a2 => a1 = a2
  | KBranch c1 v1 t1, KBranch c2 v2 t2 => c1 = c2 /\ v1 = v2 /\ t1 = t2
  | KRegion rk1 hd1 ex1 ch1 pd1 _, KRegion rk2 hd2 ex2 ch2 pd2 _ =>
    rk1 = rk2 /\ hd1 = hd2 /\ ex1 = ex2 /\ pd1 = pd2 /\ zsort ch1 = zsort ch2
  | _, _ => False
  end.

Lemma entry_inj n1 n2 : codes_ok n1 = true -> codes_ok n2 = true ->
  entry_of n1 = entry_of n2 -> SameNode n1 n2.
Proof.
  unfold entry_of, codes_ok, SameNode. intros C1 C2 He.
  assert (Hn : d_name (entry_of n1) = d_name (entry_of n2)) by (unfold entry_of; rewrite He; reflexivity).
  assert (Ht : d_type (entry_of n1) = d_type (entry_of n2)) by (unfold entry_of; rewrite He; reflexivity).
  assert (Hj : d_edges (entry_of n1) = d_edges (entry_of n2)) by (unfold entry_of; rewrite He; reflexivity).
  assert (Hb : d_back (entry_of n1) = d_back (entry_of n2)) by (unfold entry_of; rewrite He; reflexivity).
  assert (Hx : d_extra (entry_of n1) = d_extra (entry_of n2)) by (unfold entry_of; rewrite He; reflexivity).
  clear He. unfold entry_of in *.
  destruct (n_kind n1) as [p1|c1|a1|c1 v1 t1|rk1 hd1 ex1 ch1 pd1 ok1];
  destruct (n_kind n2) as [p2|c2|a2|c2 v2 t2|rk2 hd2 ex2 ch2 pd2 ok2];
    cbn in Hn, Ht, Hj, Hb, Hx;
    try (apply andb_true_iff in C1 as [C1a C1b]; apply Z.leb_le in C1a; apply Z.leb_le in C1b);
    try (apply andb_true_iff in C2 as [C2a C2b]; apply Z.leb_le in C2a; apply Z.leb_le in C2b);
    try (exfalso; lia); try discriminate Ht;
    (split; [exact Hn|]; split; [exact Hj|]; split; [exact Hb|]).
  - congruence.
  - exact Ht.
  - apply flat_pairs_inj. exact Hx.
  - injection Hx as Hv Hx. split; [exact Ht|]. split; [exact Hv|]. apply flat_pairs_inj. exact Hx.
  - injection Hx as H1 H2 H3 H4 H5. auto.
Qed.

Lemma in_to_dict h e : In e (to_dict h) <-> exists n, In n h /\ n_parent n <> 0 /\ entry_of n = e.
Proof.
  unfold to_dict. rewrite in_map_iff. split.
  - intros [n [He Hin]]. apply filter_In in Hin as [Hin Hp]. exists n.
    apply negb_true_iff in Hp. apply Z.eqb_neq in Hp. auto.
  - intros [n [Hin [Hp He]]]. exists n. split; [exact He|]. apply filter_In. split; [exact Hin|].
    apply negb_true_iff. apply Z.eqb_neq. exact Hp.
Qed.

Lemma entry_name n : d_name (entry_of n) = n_name n.
Proof. unfold entry_of. destruct (n_kind n); reflexivity. Qed.

Lemma find_of_In h n : NoDup (names h) -> In n h -> find h (n_name n) = Some n.
Proof.
  induction h as [|m r IH]; intros Hnd Hin; [destruct Hin|].
  cbn [names map] in Hnd. inversion Hnd as [|? ? Hnot Hnd']; subst.
  cbn [find]. destruct Hin as [->|Hin]; [rewrite Z.eqb_refl; reflexivity|].
  destruct (Z.eqb (n_name m) (n_name n)) eqn:E.
  - apply Z.eqb_eq in E. exfalso. apply Hnot. rewrite E. apply in_map. exact Hin.
  - apply IH; assumption.
Qed.

(* the block-level content: every written block of h1 is in h2 with the same content *)
Theorem same_dict_same_blocks h1 h2 :
  NoDup (names h2) -> forallb codes_ok h1 = true -> forallb codes_ok h2 = true ->
  SameDict h1 h2 ->
  forall n1, In n1 h1 -> n_parent n1 <> 0 ->
    exists n2, find h2 (n_name n1) = Some n2 /\ n_parent n2 <> 0 /\ SameNode n1 n2.
Proof.
  intros Hnd2 C1 C2 Hsame n1 Hin1 Hp1.
  rewrite forallb_forall in C1, C2.
  assert (He : In (entry_of n1) (to_dict h1)) by (apply in_to_dict; eauto).
  apply Hsame in He. apply in_to_dict in He as [n2 [Hin2 [Hp2 He]]].
  pose proof (entry_inj n1 n2 (C1 _ Hin1) (C2 _ Hin2) (eq_sym He)) as Hs.
  exists n2. split; [|split; [exact Hp2|exact Hs]].
  destruct Hs as [Hn _]. rewrite Hn. apply find_of_In; assumption.
Qed.

(* the nesting: in a well-formed hierarchy a block lies in the graph of region
   p exactly when p's entry lists it — so the same dictionary means the same nesting *)
Definition Contains (h : hier) (p x : name) : Prop :=
  exists np rk hd ex ch pd ok, find h p = Some np /\ n_kind np = KRegion rk hd ex ch pd ok /\
                               n_parent np <> 0 /\ In x ch.

Theorem same_dict_same_nesting h1 h2 :
  NoDup (names h1) -> NoDup (names h2) ->
  forallb codes_ok h1 = true -> forallb codes_ok h2 = true ->
  SameDict h1 h2 -> forall p x, Contains h1 p x -> Contains h2 p x.
Proof.
  intros Hnd1 Hnd2 C1 C2 Hsame p x [np [rk [hd [ex [ch [pd [ok [Hf [Hk [Hp Hx]]]]]]]]]].
  destruct (find_In _ _ _ Hf) as [Hin Hname].
  destruct (same_dict_same_blocks h1 h2 Hnd2 C1 C2 Hsame np Hin Hp) as [n2 [Hf2 [Hp2 Hs]]].
  destruct Hs as [_ [_ [_ Hkind]]]. rewrite Hk in Hkind.
  destruct (n_kind n2) as [| | | |rk2 hd2 ex2 ch2 pd2 ok2] eqn:Hk2; try contradiction.
  destruct Hkind as [-> [-> [-> [-> Hch]]]].
  exists n2, rk2, hd2, ex2, ch2, pd2, ok2. rewrite <- Hname. repeat split; auto.
  apply zsort_In. rewrite <- Hch. apply zsort_In. exact Hx.
Qed.

(* ---------- correspondence driver ----------
   rows: the exported hierarchy (Hier.v tags), then the dictionary the
   implementation wrote for it:
     80 name type E edges.. B backedges.. X extra..
   answer: [to_dict (model) = dictionary (as sets of entries); every class code in its family] *)
Definition dentry_eqb (a b : dentry) : bool :=
  Z.eqb (d_name a) (d_name b) && Z.eqb (d_type a) (d_type b) && list_eqb (d_edges a) (d_edges b) &&
  list_eqb (d_back a) (d_back b) && list_eqb (d_extra a) (d_extra b).

Definition decode_dentry (row : list Z) : option dentry :=
  match row with
  | 80 :: nm :: ty :: r =>
    match take_list r with
    | Some (e, r1) =>
      match take_list r1 with
      | Some (b, r2) =>
        match take_list r2 with
        | Some (x, []) => Some (mkDE nm ty e b x)
        | _ => None end
      | None => None end
    | None => None end
  | _ => None
  end.

Fixpoint split_c15 (rows : list (list Z)) : list (list Z) * list (list Z) :=
  match rows with
  | [] => ([], [])
  | row :: rest =>
    let '(hr, dr) := split_c15 rest in
    match row with
    | 80 :: _ => (hr, row :: dr)
    | _ => (row :: hr, dr)
    end
  end.

Fixpoint decode_all (rows : list (list Z)) : option (list dentry) :=
  match rows with
  | [] => Some []
  | r :: rest => match decode_dentry r, decode_all rest with
                 | Some e, Some l => Some (e :: l)
                 | _, _ => None
                 end
  end.

Definition same_entries (a b : list dentry) : bool :=
  Nat.eqb (length a) (length b) &&
  forallb (fun e => existsb (dentry_eqb e) b) a && forallb (fun e => existsb (dentry_eqb e) a) b.

Definition run_c15 (rows : list (list Z)) : list Z :=
  let '(hr, dr) := split_c15 rows in
  match decode hr, decode_all dr with
  | Some (_, h), Some d =>
    [ (if same_entries (to_dict h) d then 1 else 0);
      (if forallb codes_ok h && nodupb (names h) then 1 else 0) ]
  | _, _ => [0; 0]
  end.

(* Total2.v — region extraction and header unification on hierarchies never abort
   (property C02, edit by edit, for ALL hierarchies).  The precondition of
   extract_region is a boolean (pre_extract) that the correspondence check
   evaluates on every call the pipeline makes; under it the model returns XOk.
   The relation HRel says which facts about a hierarchy decide the outcome
   (which names exist, parents, exiting blocks, region kinds, who is a child of
   whom) and every step of the edits keeps it. *)
From Coq Require Import List ZArith Bool Lia.
Import ListNotations.
From V Require Import Valid.Hier Model.Graph Model.Edits Model.Extract Model.ExtractPath Model.CbHier Model.Total.
Local Open Scope Z_scope.

Definition exiting_of (n : node) : option name :=
  match n_kind n with KRegion _ _ ex _ _ _ => Some ex | _ => None end.
Definition children_of (n : node) : list name :=
  match n_kind n with KRegion _ _ _ ch _ _ => ch | _ => [] end.
Definition rk_of (n : node) : Z :=
  match n_kind n with KRegion rk _ _ _ _ _ => rk | _ => 0 end.

Definition NRel (n n' : node) : Prop :=
  n_name n' = n_name n /\ n_parent n' = n_parent n /\ exiting_of n' = exiting_of n /\ rk_of n' = rk_of n /\
  length (n_jt n') = length (n_jt n) /\
  forall x, zmem x (children_of n') = zmem x (children_of n).

Definition HRel (h h' : hier) : Prop := forall x,
  match find h x, find h' x with
  | Some n, Some n' => NRel n n'
  | None, None => True
  | _, _ => False
  end.

Lemma NRel_refl n : NRel n n.
Proof. unfold NRel. auto 10. Qed.

Lemma NRel_trans a b c : NRel a b -> NRel b c -> NRel a c.
Proof.
  unfold NRel. intros [A1 [A2 [A3 [A4 [A5 A6]]]]] [B1 [B2 [B3 [B4 [B5 B6]]]]].
  repeat split; try (eapply eq_trans; eassumption). intros x. rewrite B6. apply A6.
Qed.

Lemma NRel_region a b : NRel a b -> is_region b = is_region a.
Proof.
  unfold NRel, is_region, exiting_of. intros [_ [_ [E _]]].
  destruct (n_kind a), (n_kind b); try reflexivity; discriminate.
Qed.

Lemma HRel_refl h : HRel h h.
Proof. intros x. destruct (find h x); [apply NRel_refl|exact I]. Qed.

Lemma HRel_trans a b c : HRel a b -> HRel b c -> HRel a c.
Proof.
  intros H1 H2 x. specialize (H1 x). specialize (H2 x).
  destruct (find a x), (find b x), (find c x); try contradiction; auto. eapply NRel_trans; eauto.
Qed.

Lemma HRel_find h h' x n : HRel h h' -> find h x = Some n -> exists n', find h' x = Some n' /\ NRel n n'.
Proof. intros H E. specialize (H x). rewrite E in H. destruct (find h' x) as [n'|]; [eauto|contradiction]. Qed.

(* replacing a node by a related one *)
Lemma HRel_hset h0 h n0 n' :
  HRel h0 h -> find h0 (n_name n') = Some n0 -> NRel n0 n' -> HRel h0 (hset h n').
Proof.
  intros H E R x.
  destruct (HRel_find _ _ _ _ H E) as [m [Em _]].
  rewrite find_hset by (rewrite Em; discriminate).
  destruct (Z.eqb_spec x (n_name n')) as [->|Hne]; [rewrite E; exact R|apply H].
Qed.

Lemma find_name h x n : find h x = Some n -> n_name n = x.
Proof. intros H. apply find_In in H. apply H. Qed.

(* ---------- the node-level steps ---------- *)
Lemma table_rewrite_same_arity0 tbl jt jt' :
  length jt' = length jt -> table_rewrite tbl jt jt' jt 0 [] <> None.
Proof. intros H. apply table_rewrite_same_arity; auto. Qed.

Lemma node_replace_jt_total n jt' :
  length jt' = length (n_jt n) -> exists n', node_replace_jt n jt' = Some n' /\ NRel n n' /\ n_be n' = n_be n.
Proof.
  intros Hl. unfold node_replace_jt.
  destruct (n_kind n) as [p|c|a|c v tbl|rk hd ex ch pd ok] eqn:Ek;
    try (eexists; split; [reflexivity|]; split; [|reflexivity];
         unfold NRel, exiting_of, children_of, rk_of; cbn; rewrite Ek; auto 10).
  destruct (table_rewrite tbl (n_jt n) jt' (n_jt n) 0 []) as [t'|] eqn:E.
  - eexists; split; [reflexivity|]; split; [|reflexivity].
    unfold NRel, exiting_of, children_of, rk_of; cbn; rewrite Ek; auto 10.
  - exfalso. revert E. apply table_rewrite_same_arity0. exact Hl.
Qed.

Lemma rename1_length a b l : length (rename1 a b l) = length l.
Proof. unfold rename1. apply map_length. Qed.

Lemma rename_node_total n a b : exists n', rename_node n a b = Some n' /\ NRel n n'.
Proof.
  unfold rename_node.
  destruct (node_replace_jt_total n (rename1 a b (n_jt n)) (rename1_length _ _ _)) as [n1 [E [R _]]].
  rewrite E. eexists. split; [reflexivity|].
  eapply NRel_trans; [exact R|]. unfold NRel, with_be, exiting_of, children_of, rk_of. cbn. auto 10.
Qed.

Lemma zmem_app x l1 l2 : zmem x (l1 ++ l2) = zmem x l1 || zmem x l2.
Proof. unfold zmem. apply existsb_app. Qed.

Lemma zmem_remove x y l : zmem x (remove_name y l) = zmem x l && negb (Z.eqb x y).
Proof.
  unfold remove_name, zmem. induction l as [|z r IH]; [reflexivity|]. cbn [filter existsb].
  destruct (Z.eqb_spec z y) as [->|Hzy]; cbn [negb existsb].
  - rewrite IH. destruct (Z.eqb_spec x y); cbn; [rewrite andb_false_r; reflexivity|reflexivity].
  - rewrite IH. destruct (Z.eqb_spec x z) as [->|]; cbn; [|reflexivity].
    destruct (Z.eqb_spec z y); [contradiction|reflexivity].
Qed.

Lemma zmem_move_last x y l : zmem y l = true -> zmem x (move_last y l) = zmem x l.
Proof.
  intros Hy. unfold move_last. rewrite zmem_app, zmem_remove. unfold zmem at 2. cbn. rewrite orb_false_r.
  destruct (Z.eqb_spec x y) as [->|]; cbn; [rewrite andb_false_r; cbn; symmetry; exact Hy|rewrite andb_true_r, orb_false_r; reflexivity].
Qed.

Lemma with_children_rel n y : zmem y (children_of n) = true -> NRel n (with_children n (move_last y)).
Proof.
  unfold with_children, NRel, exiting_of, children_of, rk_of.
  destruct (n_kind n) as [p|c|a|c v tbl|rk hd ex ch pd ok] eqn:Ek; cbn; intros Hy; try (rewrite Ek; auto 10).
  repeat split; auto. intros x. apply zmem_move_last. exact Hy.
Qed.

(* ---------- update_exiting ---------- *)
Fixpoint chain_ok (fuel : nat) (h : hier) (e : name) : bool :=
  match fuel with
  | 0%nat => false
  | Datatypes.S f =>
    match find h e with
    | Some ne =>
      match exiting_of ne with
      | Some ex =>
        zmem ex (children_of ne) &&
        match find h ex with
        | Some nx => Z.eqb (n_parent nx) e && (if is_region nx then chain_ok f h ex else true)
        | None => false
        end
      | None => false
      end
    | None => false
    end
  end.

Lemma chain_ok_rel h h' : HRel h h' -> forall f e, chain_ok f h' e = chain_ok f h e.
Proof.
  intros H. induction f as [|f IH]; intros e; [reflexivity|]. cbn [chain_ok].
  pose proof (H e) as He. destruct (find h e) as [ne|], (find h' e) as [ne'|]; try contradiction; [|reflexivity].
  destruct He as [_ [_ [E3 [_ [_ E6]]]]]. rewrite E3. destruct (exiting_of ne) as [ex|]; [|reflexivity].
  rewrite E6. f_equal.
  pose proof (H ex) as Hx. destruct (find h ex) as [nx|], (find h' ex) as [nx'|]; try contradiction; [|reflexivity].
  rewrite (NRel_region _ _ Hx). destruct Hx as [_ [E2 _]]. rewrite E2. rewrite IH. reflexivity.
Qed.

Theorem upd_exiting_total a b : forall f h e,
  chain_ok f h e = true -> exists h', upd_exiting f h e a b = XOk h' /\ HRel h h'.
Proof.
  induction f as [|f IH]; intros h e Hc; [discriminate|]. cbn [chain_ok] in Hc. cbn [upd_exiting].
  destruct (find h e) as [ne|] eqn:Ee; [|discriminate].
  unfold exiting_of in Hc. destruct (n_kind ne) as [p|c|aa|c v tbl|rk hd ex ch pd ok] eqn:Ek; try discriminate.
  apply andb_true_iff in Hc as [Hch Hc].
  destruct (find h ex) as [nx|] eqn:Ex; [|discriminate].
  apply andb_true_iff in Hc as [Hp Hc]. rewrite Hp. cbn [negb].
  destruct (rename_node_total nx a b) as [nx' [Er Rx]]. rewrite Er.
  assert (Hnx : n_name nx' = ex) by (destruct Rx as [R1 _]; rewrite R1; apply (find_name _ _ _ Ex)).
  assert (Hne : n_name ne = e) by apply (find_name _ _ _ Ee).
  assert (H1 : HRel h (hset h nx')).
  { apply (HRel_hset h h nx nx' (HRel_refl h)); [rewrite Hnx; exact Ex|exact Rx]. }
  assert (Hwc : NRel ne (with_children ne (move_last ex))).
  { apply with_children_rel. exact Hch. }
  assert (H2 : HRel h (hset (hset h nx') (with_children ne (move_last ex)))).
  { apply (HRel_hset h _ ne); [exact H1| |exact Hwc].
    destruct Hwc as [W1 _]. rewrite W1, Hne. exact Ee. }
  rewrite (NRel_region _ _ Rx).
  destruct (is_region nx) eqn:Hr.
  - rewrite <- (chain_ok_rel _ _ H2) in Hc. destruct (IH _ _ Hc) as [h' [E' R']].
    exists h'. split; [exact E'|]. eapply HRel_trans; eauto.
  - eexists. split; [reflexivity|exact H2].
Qed.

(* ---------- extract_region ---------- *)
Definition entry_ok (fuel : nat) (h : hier) (nl : node) (e : name) : bool :=
  if zmem e (children_of nl) then
    match find h e with
    | Some ne => if is_region ne then chain_ok fuel h e else true
    | None => false
    end
  else negb (Z.eqb (rk_of nl) 1).

Lemma children_of_kind n : match n_kind n with KRegion _ _ _ ch _ _ => ch | _ => [] end = children_of n.
Proof. reflexivity. Qed.
Lemma rk_of_kind n : match n_kind n with KRegion rk _ _ _ _ _ => rk | _ => 0 end = rk_of n.
Proof. reflexivity. Qed.

Lemma do_entries_total fuel h0 lvl nl0 hd rname :
  find h0 lvl = Some nl0 ->
  forall entries, forallb (entry_ok fuel h0 nl0) entries = true ->
  forall h, HRel h0 h -> exists h', do_entries fuel h lvl entries hd rname = XOk h' /\ HRel h0 h'.
Proof.
  intros Hl. induction entries as [|e rest IH]; intros Hall h HR; cbn [do_entries]; [eauto|].
  cbn [forallb] in Hall. apply andb_true_iff in Hall as [He Hall].
  destruct (HRel_find _ _ _ _ HR Hl) as [nl [El Rl]]. rewrite El.
  rewrite children_of_kind, rk_of_kind.
  destruct Rl as [L1 [L2 [L3 [L4 [L5 L6]]]]]. rewrite L6, L4.
  unfold entry_ok in He. destruct (zmem e (children_of nl0)) eqn:Hm; cbn [negb].
  - destruct (find h0 e) as [ne0|] eqn:Ee0; [|discriminate].
    destruct (HRel_find _ _ _ _ HR Ee0) as [ne [Ee Re]]. rewrite Ee.
    destruct (rename_node_total ne hd rname) as [ne' [Er Rr]]. rewrite Er.
    assert (Hname : n_name ne' = e).
    { destruct Rr as [R1 _]. rewrite R1. apply (find_name _ _ _ Ee). }
    assert (H1 : HRel h0 (hset h ne')).
    { apply (HRel_hset h0 h ne0); [exact HR|rewrite Hname; exact Ee0|eapply NRel_trans; eauto]. }
    rewrite (NRel_region _ _ Rr), (NRel_region _ _ Re).
    assert (Hstep : exists h2, (if is_region ne0 then upd_exiting fuel (hset h ne') e hd rname else XOk (hset h ne')) = XOk h2 /\ HRel h0 h2).
    { destruct (is_region ne0).
      - rewrite <- (chain_ok_rel _ _ H1) in He. destruct (upd_exiting_total hd rname _ _ _ He) as [h2 [E2 R2]].
        exists h2. split; [exact E2|]. eapply HRel_trans; eauto.
      - eexists. split; [reflexivity|exact H1]. }
    destruct Hstep as [h2 [E2 R2]]. rewrite E2.
    destruct (HRel_find _ _ _ _ R2 Hl) as [nl2 [El2 Rl2]]. rewrite El2.
    apply IH; [exact Hall|].
    apply (HRel_hset h0 h2 nl0); [exact R2| |].
    + assert (Hn2 : n_name (with_children nl2 (move_last e)) = lvl).
      { assert (W : NRel nl2 (with_children nl2 (move_last e))).
        { apply with_children_rel. destruct Rl2 as [_ [_ [_ [_ [_ M]]]]]. rewrite M. exact Hm. }
        destruct W as [W1 _]. rewrite W1. apply (find_name _ _ _ El2). }
      rewrite Hn2. exact Hl.
    + eapply NRel_trans; [exact Rl2|]. apply with_children_rel.
      destruct Rl2 as [_ [_ [_ [_ [_ M]]]]]. rewrite M. exact Hm.
  - apply negb_true_iff in He. rewrite He. apply IH; auto.
Qed.

Definition pre_extract (h : hier) (lvl : name) (entries : list name) (ex : name) : bool :=
  match find h lvl, find h ex with
  | Some nl, Some _ => forallb (entry_ok (Datatypes.S (length h)) h nl) entries
  | _, _ => false
  end.

(* extract_region never aborts: the level and the exiting block exist, every entry that is a child of the
   level exists and - when it is a region - has a proper chain of exiting blocks; an entry outside the
   level is allowed when the level is not the top (meta) region *)
Theorem extract_total h lvl blocks entries hd ex rk rname :
  pre_extract h lvl entries ex = true -> exists h', extract h lvl blocks entries hd ex rk rname = XOk h'.
Proof.
  unfold pre_extract, extract. intros Hp.
  destruct (find h lvl) as [nl|] eqn:El; [|discriminate].
  destruct (find h ex) as [nx|] eqn:Ex; [|discriminate].
  destruct (do_entries_total (Datatypes.S (length h)) h lvl nl hd rname El entries Hp h (HRel_refl h)) as [h1 [E1 R1]].
  rewrite E1.
  destruct (HRel_find _ _ _ _ R1 Ex) as [nx1 [Ex1 _]]. destruct (HRel_find _ _ _ _ R1 El) as [nl1 [El1 _]].
  rewrite Ex1, El1. eauto.
Qed.

(* ---------- header unification at any level (CbHier.insert_cb_h) ---------- *)
(* the monotone relation: old names keep existing with the same parent, exiting block, kind of region and
   arity; regions may gain children and the hierarchy may gain nodes *)
Definition NExt (n n' : node) : Prop :=
  n_name n' = n_name n /\ n_parent n' = n_parent n /\ exiting_of n' = exiting_of n /\ rk_of n' = rk_of n /\
  length (n_jt n') = length (n_jt n) /\
  forall x, zmem x (children_of n) = true -> zmem x (children_of n') = true.

Definition HExt (h h' : hier) : Prop :=
  forall x n, find h x = Some n -> exists n', find h' x = Some n' /\ NExt n n'.

Lemma NRel_NExt n n' : NRel n n' -> NExt n n'.
Proof. intros [A1 [A2 [A3 [A4 [A5 A6]]]]]. repeat split; auto. intros x Hx. rewrite A6. exact Hx. Qed.

Lemma NExt_refl n : NExt n n.
Proof. apply NRel_NExt, NRel_refl. Qed.

Lemma NExt_trans a b c : NExt a b -> NExt b c -> NExt a c.
Proof.
  intros [A1 [A2 [A3 [A4 [A5 A6]]]]] [B1 [B2 [B3 [B4 [B5 B6]]]]].
  repeat split; try (eapply eq_trans; eassumption). intros x Hx. apply B6, A6, Hx.
Qed.

Lemma NExt_region a b : NExt a b -> is_region b = is_region a.
Proof.
  unfold NExt, is_region, exiting_of. intros [_ [_ [E _]]].
  destruct (n_kind a), (n_kind b); try reflexivity; discriminate.
Qed.

Lemma HExt_refl h : HExt h h.
Proof. intros x n E. exists n. split; [exact E|apply NExt_refl]. Qed.

Lemma HExt_trans a b c : HExt a b -> HExt b c -> HExt a c.
Proof.
  intros H1 H2 x n E. destruct (H1 x n E) as [n1 [E1 R1]]. destruct (H2 x n1 E1) as [n2 [E2 R2]].
  exists n2. split; [exact E2|eapply NExt_trans; eauto].
Qed.

Lemma HRel_HExt h h' : HRel h h' -> HExt h h'.
Proof. intros H x n E. destruct (HRel_find _ _ _ _ H E) as [n' [E' R]]. exists n'. split; [exact E'|apply NRel_NExt, R]. Qed.

Lemma HExt_app h n : HExt h (h ++ [n]).
Proof. intros x m E. exists m. split; [rewrite find_app_none, E; reflexivity|apply NExt_refl]. Qed.

Lemma HExt_hset h n0 n' : find h (n_name n') = Some n0 -> NExt n0 n' -> HExt h (hset h n').
Proof.
  intros E R x m Em. rewrite find_hset by (rewrite E; discriminate).
  destruct (Z.eqb_spec x (n_name n')) as [->|Hne].
  - exists n'. split; [reflexivity|]. rewrite E in Em. injection Em as <-. exact R.
  - exists m. split; [exact Em|apply NExt_refl].
Qed.

Lemma chain_ok_ext h h' : HExt h h' -> forall f e, chain_ok f h e = true -> chain_ok f h' e = true.
Proof.
  intros H. induction f as [|f IH]; intros e Hc; [discriminate|]. cbn [chain_ok] in *.
  destruct (find h e) as [ne|] eqn:Ee; [|discriminate].
  destruct (H e ne Ee) as [ne' [Ee' [_ [_ [E3 [_ [_ E6]]]]]]]. rewrite Ee', E3.
  destruct (exiting_of ne) as [ex|]; [|discriminate].
  apply andb_true_iff in Hc as [Hch Hc]. rewrite (E6 _ Hch). cbn [andb].
  destruct (find h ex) as [nx|] eqn:Ex; [|discriminate].
  destruct (H ex nx Ex) as [nx' [Ex' Rx]]. rewrite Ex'. rewrite (NExt_region _ _ Rx).
  destruct Rx as [_ [E2 _]]. rewrite E2.
  apply andb_true_iff in Hc as [Hp Hc]. rewrite Hp. cbn [andb].
  destruct (is_region nx); [apply IH; exact Hc|reflexivity].
Qed.

(* the names update_exiting touches *)
Fixpoint chain_names (fuel : nat) (h : hier) (e : name) : list name :=
  match fuel with
  | 0%nat => []
  | Datatypes.S f =>
    e :: match find h e with
         | Some ne =>
           match exiting_of ne with
           | Some ex =>
             match find h ex with
             | Some nx => if is_region nx then chain_names f h ex else [ex]
             | None => []
             end
           | None => []
           end
         | None => []
         end
  end.

Lemma chain_names_ext h h' : HExt h h' -> forall f e, chain_ok f h e = true -> chain_names f h' e = chain_names f h e.
Proof.
  intros H. induction f as [|f IH]; intros e Hc; [reflexivity|]. cbn [chain_ok chain_names] in *.
  destruct (find h e) as [ne|] eqn:Ee; [|discriminate].
  destruct (H e ne Ee) as [ne' [Ee' [_ [_ [E3 _]]]]]. rewrite Ee', E3.
  destruct (exiting_of ne) as [ex|]; [|discriminate].
  apply andb_true_iff in Hc as [_ Hc].
  destruct (find h ex) as [nx|] eqn:Ex; [|discriminate].
  destruct (H ex nx Ex) as [nx' [Ex' Rx]]. rewrite Ex'. rewrite (NExt_region _ _ Rx).
  apply andb_true_iff in Hc as [_ Hc].
  destruct (is_region nx); [rewrite (IH _ Hc); reflexivity|reflexivity].
Qed.

Lemma upd_exiting_untouched a b : forall f h e h',
  chain_ok f h e = true -> upd_exiting f h e a b = XOk h' ->
  forall q, ~ In q (chain_names f h e) -> find h' q = find h q.
Proof.
  induction f as [|f IH]; intros h e h' Hc Hu q Hq; [discriminate|].
  cbn [chain_ok chain_names upd_exiting] in *.
  destruct (find h e) as [ne|] eqn:Ee; [|discriminate].
  unfold exiting_of in *. destruct (n_kind ne) as [p|c|aa|c v tbl|rk hd ex ch pd ok] eqn:Ek; try discriminate.
  apply andb_true_iff in Hc as [Hch Hc].
  destruct (find h ex) as [nx|] eqn:Ex; [|discriminate].
  apply andb_true_iff in Hc as [Hp Hc]. rewrite Hp in Hu. cbn [negb] in Hu.
  destruct (rename_node_total nx a b) as [nx' [Er Rx]]. rewrite Er in Hu.
  assert (Hnx : n_name nx' = ex) by (destruct Rx as [R1 _]; rewrite R1; apply (find_name _ _ _ Ex)).
  assert (Hne : n_name ne = e) by apply (find_name _ _ _ Ee).
  assert (Hwc : NRel ne (with_children ne (move_last ex))) by (apply with_children_rel; exact Hch).
  assert (H1 : HRel h (hset h nx')).
  { apply (HRel_hset h h nx nx' (HRel_refl h)); [rewrite Hnx; exact Ex|exact Rx]. }
  assert (H2 : HRel h (hset (hset h nx') (with_children ne (move_last ex)))).
  { apply (HRel_hset h _ ne); [exact H1| |exact Hwc]. destruct Hwc as [W1 _]. rewrite W1, Hne. exact Ee. }
  assert (Hqe : q <> e) by (intros ->; apply Hq; left; reflexivity).
  assert (Hfind : find (hset (hset h nx') (with_children ne (move_last ex))) q = find h q \/ q = ex).
  { destruct (Z.eq_dec q ex) as [->|Hqx]; [right; reflexivity|left].
    rewrite find_hset.
    - destruct Hwc as [W1 _]. rewrite W1, Hne. destruct (Z.eqb_spec q e); [contradiction|].
      rewrite find_hset by (rewrite Hnx, Ex; discriminate). rewrite Hnx.
      destruct (Z.eqb_spec q ex); [contradiction|reflexivity].
    - destruct Hwc as [W1 _]. rewrite W1, Hne.
      destruct (HRel_find _ _ _ _ H1 Ee) as [m [Em _]]. rewrite Em. discriminate. }
  rewrite (NRel_region _ _ Rx) in Hu.
  destruct (is_region nx) eqn:Hr.
  - assert (Hc1 : chain_ok f (hset (hset h nx') (with_children ne (move_last ex))) ex = true)
      by (rewrite (chain_ok_rel _ _ H2); exact Hc).
    assert (Hq1 : ~ In q (chain_names f (hset (hset h nx') (with_children ne (move_last ex))) ex)).
    { rewrite (chain_names_ext _ _ (HRel_HExt _ _ H2) _ _ Hc). intros Hi. apply Hq. right. exact Hi. }
    rewrite (IH _ _ _ Hc1 Hu q Hq1).
    destruct Hfind as [Hf| ->]; [exact Hf|].
    exfalso. apply Hq. right. destruct f as [|f']; [discriminate|]. cbn [chain_names]. left. reflexivity.
  - injection Hu as <-. destruct Hfind as [Hf| ->]; [exact Hf|]. exfalso. apply Hq. right. left. reflexivity.
Qed.

Lemma push_down_total fuel p : forall renamed h,
  chain_ok fuel h p = true ->
  exists h', push_down fuel h p renamed = XOk h' /\ HRel h h' /\
             forall q, ~ In q (chain_names fuel h p) -> find h' q = find h q.
Proof.
  induction renamed as [|[s a] rest IH]; intros h Hc; cbn [push_down].
  - exists h. split; [reflexivity|]. split; [apply HRel_refl|reflexivity].
  - destruct (upd_exiting_total s a _ _ _ Hc) as [h1 [E1 R1]]. rewrite E1.
    assert (Hc1 : chain_ok fuel h1 p = true) by (rewrite (chain_ok_rel _ _ R1); exact Hc).
    destruct (IH h1 Hc1) as [h' [E' [R' U']]]. exists h'. split; [exact E'|]. split; [eapply HRel_trans; eauto|].
    intros q Hq. rewrite U'.
    + apply (upd_exiting_untouched s a _ _ _ _ Hc E1 q Hq).
    + rewrite (chain_names_ext _ _ (HRel_HExt _ _ R1) _ _ Hc). exact Hq.
Qed.

Lemma add_child_ext h lvl x : HExt h (add_child h lvl x).
Proof.
  unfold add_child. destruct (find h lvl) as [nl|] eqn:El; [|apply HExt_refl].
  apply (HExt_hset h nl).
  - assert (Hn : n_name (with_children nl (fun ch => ch ++ [x])) = lvl).
    { unfold with_children. destruct (n_kind nl); cbn; apply (find_name _ _ _ El). }
    rewrite Hn. exact El.
  - unfold with_children, NExt, exiting_of, children_of, rk_of.
    destruct (n_kind nl) as [p|c|a|c v tbl|rk hd ex ch pd ok] eqn:Ek; cbn [n_name n_parent n_jt n_be n_kind]; try (rewrite Ek; auto 10).
    repeat split; auto. intros y Hy. rewrite zmem_app, Hy. reflexivity.
Qed.

Lemma add_child_find h lvl x q : q <> lvl -> find (add_child h lvl x) q = find h q.
Proof.
  intros Hq. unfold add_child. destruct (find h lvl) as [nl|] eqn:El; [|reflexivity].
  rewrite find_hset.
  - assert (Hn : n_name (with_children nl (fun ch => ch ++ [x])) = lvl).
    { unfold with_children. destruct (n_kind nl); cbn; apply (find_name _ _ _ El). }
    rewrite Hn. destruct (Z.eqb_spec q lvl); [contradiction|reflexivity].
  - assert (Hn : n_name (with_children nl (fun ch => ch ++ [x])) = lvl).
    { unfold with_children. destruct (n_kind nl); cbn; apply (find_name _ _ _ El). }
    rewrite Hn, El. discriminate.
Qed.

Lemma cbh_arcs_total lvl new var : forall ss h jt value tbl names renamed,
  (length ss <= length names)%nat ->
  exists h1 jt1 v1 tbl1 ren1,
    cbh_arcs h lvl new var ss jt value tbl names renamed = Some (h1, jt1, v1, tbl1, skipn (length ss) names, ren1) /\
    length jt1 = length jt /\ HExt h h1 /\
    forall q n, q <> lvl -> find h q = Some n -> find h1 q = Some n.
Proof.
  induction ss as [|s r IH]; intros h jt value tbl names renamed Hl; cbn [cbh_arcs].
  - exists h, jt, value, tbl, renamed. split; [reflexivity|]. split; [reflexivity|]. split; [apply HExt_refl|auto].
  - destruct names as [|a names']; cbn in Hl; [lia|].
    assert (Hl' : (length r <= length names')%nat) by lia.
    match goal with |- context [cbh_arcs ?H lvl new var r ?J ?V ?T names' ?R] =>
      destruct (IH H J V T names' R Hl') as [h1 [jt1 [v1 [tbl1 [ren1 [E1 [L1 [X1 U1]]]]]]]] end.
    exists h1, jt1, v1, tbl1, ren1. split; [exact E1|]. split; [rewrite L1; apply Edits3.replace_first_length|].
    split.
    + eapply HExt_trans; [|exact X1]. eapply HExt_trans; [apply HExt_app|apply add_child_ext].
    + intros q n Hq Hf. apply U1; [exact Hq|]. rewrite add_child_find by exact Hq.
      rewrite find_app_none, Hf. reflexivity.
Qed.

Section CbH.
Variables (lvl new var : Z) (Ss : list name) (fuel : nat).

Definition nselh (n : node) : nat := length (zsort (filter (fun t => zmem t Ss) (n_jt n))).

Fixpoint needh (h : hier) (preds : list name) : nat :=
  match preds with
  | [] => 0%nat
  | p :: r => ((match find h p with Some n => nselh n | None => 0%nat end) + needh h r)%nat
  end.

Lemma needh_ext h h' preds : (forall p, In p preds -> find h' p = find h p) -> needh h' preds = needh h preds.
Proof.
  induction preds as [|p r IH]; intros H; cbn [needh]; [reflexivity|].
  rewrite (H p (or_introl eq_refl)), IH; [reflexivity|]. intros q Hq. apply H. right. exact Hq.
Qed.

(* one predecessor is fine: a child of the level, not the level itself, and - when it is a region - with a
   proper chain of exiting blocks that contains none of the other predecessors *)
Definition pred_ok (h : hier) (nl : node) (preds : list name) (p : name) : bool :=
  negb (Z.eqb p lvl) && zmem p (children_of nl) &&
  match find h p with
  | Some np =>
    if is_region np then
      chain_ok fuel h p && forallb (fun q => Z.eqb q p || negb (zmem q (chain_names fuel h p))) preds
    else true
  | None => false
  end.

Lemma cbh_preds_total h0 nl0 all :
  find h0 lvl = Some nl0 ->
  forall preds h value tbl names,
    NoDup preds -> incl preds all ->
    forallb (pred_ok h0 nl0 all) preds = true ->
    HExt h0 h -> (forall q, In q preds -> find h q = find h0 q) ->
    (needh h0 preds <= length names)%nat ->
    exists h' tbl', cbh_preds fuel h lvl new var Ss preds value tbl names = XOk (h', tbl').
Proof.
  intros Hl0. induction preds as [|p rest IH]; intros h value tbl names Hnd Hincl Hall HX Hsame Hneed; cbn [cbh_preds]; [eauto|].
  cbn [forallb] in Hall. apply andb_true_iff in Hall as [Hp Hall].
  unfold pred_ok in Hp. apply andb_true_iff in Hp as [Hp Hp3]. apply andb_true_iff in Hp as [Hp1 Hp2].
  apply negb_true_iff in Hp1. apply Z.eqb_neq in Hp1.
  destruct (find h0 p) as [np|] eqn:Ep0; [|discriminate].
  assert (Ep : find h p = Some np) by (rewrite (Hsame p (or_introl eq_refl)); exact Ep0). rewrite Ep.
  destruct (HX lvl nl0 Hl0) as [nl [El Rl]]. rewrite El. rewrite children_of_kind.
  destruct Rl as [_ [_ [_ [_ [_ Lm]]]]]. rewrite (Lm _ Hp2). cbn [negb].
  cbn [needh] in Hneed. rewrite Ep0 in Hneed.
  destruct (cbh_arcs_total lvl new var (zsort (filter (fun t => zmem t Ss) (n_jt np))) h (n_jt np) value tbl names [])
    as [h1 [jt1 [v1 [tbl1 [ren1 [E1 [L1 [X1 U1]]]]]]]].
  { eapply Nat.le_trans; [|exact Hneed]. apply Nat.le_add_r. }
  rewrite E1. rewrite (U1 p np Hp1 Ep).
  destruct (node_replace_jt_total np jt1 L1) as [np' [Er [Rr _]]]. rewrite Er.
  assert (Hnp' : n_name np' = p) by (destruct Rr as [R1 _]; rewrite R1; apply (find_name _ _ _ Ep)).
  assert (X2 : HExt h1 (hset h1 np')).
  { apply (HExt_hset h1 np); [rewrite Hnp'; apply (U1 p np Hp1 Ep)|apply NRel_NExt, Rr]. }
  assert (X02 : HExt h0 (hset h1 np')) by (eapply HExt_trans; [exact HX|]; eapply HExt_trans; eauto).
  apply NoDup_cons_iff in Hnd as [Hnp Hnd'].
  assert (Hq2 : forall q, In q rest -> find (hset h1 np') q = find h0 q).
  { intros q Hq. assert (q <> p) by (intros ->; contradiction).
    rewrite find_hset by (rewrite Hnp', (U1 p np Hp1 Ep); discriminate). rewrite Hnp'.
    destruct (Z.eqb_spec q p); [contradiction|].
    assert (Hql : q <> lvl).
    { rewrite forallb_forall in Hall. specialize (Hall q Hq). unfold pred_ok in Hall.
      apply andb_true_iff in Hall as [Hall _]. apply andb_true_iff in Hall as [Hall _].
      apply negb_true_iff in Hall. apply Z.eqb_neq in Hall. exact Hall. }
    rewrite <- (Hsame q (or_intror Hq)).
    destruct (find h q) as [nq|] eqn:Eq; [apply (U1 q nq Hql Eq)|].
    exfalso. rewrite forallb_forall in Hall. specialize (Hall q Hq). unfold pred_ok in Hall.
    apply andb_true_iff in Hall as [_ Hall]. rewrite <- (Hsame q (or_intror Hq)), Eq in Hall. discriminate. }
  rewrite (NRel_region _ _ Rr).
  assert (Hstep : exists h3, (if is_region np then push_down fuel (hset h1 np') p ren1 else XOk (hset h1 np')) = XOk h3 /\
                             HExt h0 h3 /\ forall q, In q rest -> find h3 q = find h0 q).
  { destruct (is_region np) eqn:Hr.
    - apply andb_true_iff in Hp3 as [Hc Hdis].
      assert (Hc2 : chain_ok fuel (hset h1 np') p = true) by (apply (chain_ok_ext _ _ X02); exact Hc).
      destruct (push_down_total fuel p ren1 _ Hc2) as [h3 [E3 [R3 U3]]].
      exists h3. split; [exact E3|]. split; [eapply HExt_trans; [exact X02|apply HRel_HExt, R3]|].
      intros q Hq. rewrite U3; [apply Hq2; exact Hq|].
      rewrite (chain_names_ext _ _ X02 _ _ Hc).
      rewrite forallb_forall in Hdis. specialize (Hdis q (Hincl q (or_intror Hq))).
      apply orb_true_iff in Hdis as [Hd|Hd].
      + apply Z.eqb_eq in Hd. subst q. contradiction.
      + apply negb_true_iff in Hd. intros Hi. apply zmem_In in Hi. congruence.
    - exists (hset h1 np'). split; [reflexivity|]. split; [exact X02|exact Hq2]. }
  destruct Hstep as [h3 [E3 [X3 U3]]]. rewrite E3.
  destruct (X3 lvl nl0 Hl0) as [nl3 [El3 Rl3]]. rewrite El3.
  assert (Hn3 : n_name (with_children nl3 (move_last p)) = lvl).
  { unfold with_children. destruct (n_kind nl3); cbn; apply (find_name _ _ _ El3). }
  assert (Hm3 : zmem p (children_of nl3) = true) by (destruct Rl3 as [_ [_ [_ [_ [_ M]]]]]; apply M; exact Hp2).
  apply IH.
  - exact Hnd'.
  - intros q Hq. apply Hincl. right. exact Hq.
  - exact Hall.
  - eapply HExt_trans; [exact X3|]. apply (HExt_hset h3 nl3); [rewrite Hn3; exact El3|].
    apply NRel_NExt, with_children_rel. exact Hm3.
  - intros q Hq. rewrite find_hset by (rewrite Hn3, El3; discriminate). rewrite Hn3.
    assert (Hql : q <> lvl).
    { rewrite forallb_forall in Hall. specialize (Hall q Hq). unfold pred_ok in Hall.
      apply andb_true_iff in Hall as [Hall _]. apply andb_true_iff in Hall as [Hall _].
      apply negb_true_iff in Hall. apply Z.eqb_neq in Hall. exact Hall. }
    destruct (Z.eqb_spec q lvl); [contradiction|]. apply U3. exact Hq.
  - rewrite skipn_length. apply Nat.le_add_le_sub_l. exact Hneed.
Qed.
End CbH.

Fixpoint nodupb (l : list Z) : bool :=
  match l with [] => true | x :: r => negb (zmem x r) && nodupb r end.

Lemma nodupb_sound l : nodupb l = true -> NoDup l.
Proof.
  induction l as [|x r IH]; intros H; [constructor|]. cbn in H. apply andb_true_iff in H as [H1 H2].
  constructor; [|apply IH; exact H2]. intros Hi. apply zmem_In in Hi. rewrite Hi in H1. discriminate.
Qed.

Definition pre_cbh (h : hier) (lvl : name) (preds Ss names : list name) : bool :=
  match find h lvl with
  | Some nl =>
    nodupb preds && forallb (pred_ok lvl (Datatypes.S (length h + length names)) h nl preds) preds &&
    Nat.leb (needh Ss h preds) (length names)
  | None => false
  end.

(* insert_block_and_control_blocks at any level never aborts: the predecessors are distinct children of the
   level, a region among them has a proper chain of exiting blocks that meets no other predecessor, and
   the generator hands out one name per (distinct) successor in S of each predecessor *)
Theorem insert_cb_h_total h lvl new var preds Ss names :
  pre_cbh h lvl preds Ss names = true -> exists h', insert_cb_h h lvl new var preds Ss names = XOk h'.
Proof.
  unfold pre_cbh, insert_cb_h. destruct (find h lvl) as [nl|] eqn:El; [|discriminate]. intros Hp.
  apply andb_true_iff in Hp as [Hp H3]. apply andb_true_iff in Hp as [H1 H2].
  destruct (cbh_preds_total lvl new var Ss (Datatypes.S (length h + length names)) h nl preds El preds h 0 [] names)
    as [h' [tbl' E]].
  - apply nodupb_sound, H1.
  - apply incl_refl.
  - exact H2.
  - apply HExt_refl.
  - reflexivity.
  - apply Nat.leb_le, H3.
  - rewrite E. eauto.
Qed.

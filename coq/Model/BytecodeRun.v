(* BytecodeRun.v — decidable form of the stream hypotheses (sound), and the
   correspondence driver for C09. *)
From Coq Require Import List ZArith Bool Lia Sorting.Sorted.
Import ListNotations.
From V Require Import Valid.Hier Model.Graph Model.Bytecode Model.BytecodeProof.
Local Open Scope Z_scope.

Definition icls_eqb (a b : icls) : bool :=
  match a, b with
  | IPlain, IPlain | ICond, ICond | IUncond, IUncond | IRet, IRet => true
  | _, _ => false
  end.

Lemma icls_eqb_eq a b : icls_eqb a b = true -> a = b.
Proof. destruct a, b; cbn; congruence. Qed.

Fixpoint chainedb (s : stream) : bool :=
  match s with
  | [] => true
  | i :: r => Z.leb 2 (i_size i) && Z.even (i_size i) &&
              match r with [] => true | j :: _ => Z.eqb (i_off j) (i_off i + i_size i) end &&
              chainedb r
  end.

Lemma chainedb_sound s : chainedb s = true -> chained s.
Proof.
  induction s as [|i r IH]; cbn; [auto|]. intros H.
  apply andb_true_iff in H as [H H4]. apply andb_true_iff in H as [H H3].
  apply andb_true_iff in H as [H1 H2]. apply Z.leb_le in H1.
  repeat split; auto. destruct r; [exact I|apply Z.eqb_eq; exact H3].
Qed.

Definition is_jump (c : icls) : bool := match c with ICond | IUncond => true | _ => false end.
Definition is_stop (c : icls) : bool := match c with IUncond | IRet => true | _ => false end.

Definition wf_streamb (s : stream) : bool :=
  match s with
  | [] => false
  | a :: _ =>
    Z.eqb (i_off a) 0 && chainedb s &&
    forallb (fun i => negb (is_jump (i_cls i)) || zmem (i_arg i) (offs s)) s &&
    forallb (fun i => negb (is_stop (i_cls i)) || Z.eqb (i_size i) 2) s &&
    forallb (fun i => negb (is_stop (i_cls i)) ||
                      forallb (fun j => negb (Z.eqb (i_off j) (next_off i)) || i_tgt j) s) s &&
    forallb (fun i => negb (icls_eqb (i_cls i) ICond) || negb (Z.ltb 2 (i_size i)) ||
                      negb (zmem (next_off i) (raw_leaders s))) s &&
    forallb (fun i => negb (Z.eqb (i_off i) (last_offset s)) || is_stop (i_cls i)) s
  end.

Lemma is_jump_true c : is_jump c = true <-> c = ICond \/ c = IUncond.
Proof. destruct c; cbn; split; intros; try discriminate; auto; destruct H; discriminate. Qed.
Lemma is_stop_true c : is_stop c = true <-> c = IUncond \/ c = IRet.
Proof. destruct c; cbn; split; intros; try discriminate; auto; destruct H; discriminate. Qed.

Theorem wf_streamb_sound s : wf_streamb s = true -> WfStream s.
Proof.
  unfold wf_streamb. destruct s as [|a r] eqn:Es; [discriminate|]. rewrite <- Es. intros H.
  apply andb_true_iff in H as [H H7]. apply andb_true_iff in H as [H H6].
  apply andb_true_iff in H as [H H5]. apply andb_true_iff in H as [H H4].
  apply andb_true_iff in H as [H H3]. apply andb_true_iff in H as [H1 H2].
  rewrite forallb_forall in H3, H4, H5, H6, H7.
  constructor.
  - rewrite Es. discriminate.
  - intros i r' E. rewrite Es in E. injection E as <- _. apply Z.eqb_eq. exact H1.
  - apply chainedb_sound. exact H2.
  - intros i Hi Hk. specialize (H3 i Hi). apply (proj2 (is_jump_true _)) in Hk. rewrite Hk in H3.
    cbn in H3. apply zmem_In. exact H3.
  - intros i Hi Hk. specialize (H4 i Hi). apply (proj2 (is_stop_true _)) in Hk. rewrite Hk in H4.
    cbn in H4. apply Z.eqb_eq. exact H4.
  - intros i j Hi Hj He Hk. specialize (H5 i Hi). apply (proj2 (is_stop_true _)) in Hk. rewrite Hk in H5.
    cbn in H5. rewrite forallb_forall in H5. specialize (H5 j Hj).
    rewrite He, Z.eqb_refl in H5. cbn in H5. exact H5.
  - intros i Hi Hk Hsz Hin. specialize (H6 i Hi). rewrite Hk in H6. cbn in H6.
    apply Z.ltb_lt in Hsz. rewrite Hsz in H6. cbn in H6.
    apply negb_true_iff in H6. apply zmem_false in H6. contradiction.
  - intros i Hi He. specialize (H7 i Hi). rewrite He, Z.eqb_refl in H7. cbn in H7.
    apply is_stop_true. exact H7.
Qed.

(* ---------- correspondence driver ----------
   rows: 70 off size cls arg tgt      one per instruction, in order (cls: 0 plain 1 cond 2 uncond 3 ret,
                                       as the LIBRARY's tables classify the opcode)
         71 status                    0 = built, 1 = KeyError
         72 begin end N succ_begins.. one per block, sorted by begin
   answer: [model = implementation; wf_streamb] *)
Definition cls_of (z : Z) : icls :=
  match z with 1 => ICond | 2 => IUncond | 3 => IRet | _ => IPlain end.

Record c09case := mkC9 { c9_s : stream; c9_status : Z; c9_blocks : list bblock; c9_bad : bool }.

Fixpoint decode_c09 (rows : list (list Z)) : c09case :=
  match rows with
  | [] => mkC9 [] 0 [] false
  | row :: rest =>
    let c := decode_c09 rest in
    match row with
    | [70; o; sz; k; a; t] =>
      mkC9 (mkI o sz (cls_of k) a (Z.eqb t 1) :: c9_s c) (c9_status c) (c9_blocks c) (c9_bad c)
    | [71; st] => mkC9 (c9_s c) st (c9_blocks c) (c9_bad c)
    | 72 :: b :: e :: r =>
      match take_list r with
      | Some (ss, []) => mkC9 (c9_s c) (c9_status c) (mkB b e ss :: c9_blocks c) (c9_bad c)
      | _ => mkC9 [] 0 [] true
      end
    | _ => mkC9 [] 0 [] true
    end
  end.

Definition bblock_eqb (a b : bblock) : bool :=
  Z.eqb (b_begin a) (b_begin b) && Z.eqb (b_end a) (b_end b) && list_eqb (b_succ a) (b_succ b).

Fixpoint blocks_eqb (a b : list bblock) : bool :=
  match a, b with
  | [], [] => true
  | x :: a', y :: b' => bblock_eqb x y && blocks_eqb a' b'
  | _, _ => false
  end.

Definition b2z (b : bool) : Z := if b then 1 else 0.

Definition run_c09 (rows : list (list Z)) : list Z :=
  let c := decode_c09 rows in
  if c9_bad c then [0; 0] else
  [ b2z (match cut (c9_s c) with
         | Some bl => Z.eqb (c9_status c) 0 && blocks_eqb bl (c9_blocks c)
         | None => Z.eqb (c9_status c) 1
         end);
    b2z (wf_streamb (c9_s c)) ].

(* Front.v — property C11: the statement dispatcher of the source front end
   (AST2SCFGTransformer.handle_ast_node and the statement-visiting skeleton of
   its handlers), parametrised by the translated dispatch table. *)
From Coq Require Import String List Bool Arith Lia.
Import ListNotations.
Local Open Scope string_scope.

Inductive action :=
| AFun        (* first function definition: enter its body; any further one is refused *)
| ALeaf       (* recorded in the current block; has no statement children *)
| AIf | AWhile | AFor      (* handler visits the listed statement fields *)
| ARefuse     (* raise NotImplementedError *)
| AFallThrough. (* no else arm: the node would be silently dropped *)

(* a statement: its class name and its statement-list fields *)
Inductive tree := Node (k : string) (slots : list (string * list tree)).

Definition smem (x : string) (l : list string) : bool := existsb (String.eqb x) l.

Section Dispatcher.
Variable dispatch : list (list string * action).
Variable default : action.
Variable visits : action -> list string.
Variable kinds : list (string * list string * list string).   (* name, isinstance-of, statement fields *)
Variable jumps : list string.   (* classes after which codegen stops processing a suite *)

Definition ancestors (k : string) : list string :=
  match find (fun e => String.eqb (fst (fst e)) k) kinds with
  | Some e => snd (fst e)
  | None => [k]
  end.

(* the first arm whose isinstance test succeeds *)
Definition action_of (k : string) : action :=
  match find (fun arm => existsb (fun c => smem c (ancestors k)) (fst arm)) dispatch with
  | Some arm => snd arm
  | None => default
  end.

Fixpoint slot (f : string) (slots : list (string * list tree)) : list tree :=
  match slots with
  | [] => []
  | (g, l) :: r => if String.eqb f g then l else slot f r
  end.

Inductive result := Done (seen : bool) | NotImpl | OutOfFuel.

Definition kind_of (t : tree) : string := match t with Node k _ => k end.
Definition slots_of (t : tree) : list (string * list tree) := match t with Node _ s => s end.

(* codegen stops after a return / break / continue: what follows in the same suite is dead code *)
Definition is_jump (t : tree) : bool := existsb (fun c => smem c (ancestors (kind_of t))) jumps.

Fixpoint live (l : list tree) : list tree :=
  match l with
  | [] => []
  | x :: r => if is_jump x then [x] else x :: live r
  end.

(* the statement fields a handler descends into *)
Definition vis (a : action) : list string :=
  match a with
  | AFun | AIf | AWhile | AFor => visits a
  | _ => []
  end.

Section Lists.
Variable rn : tree -> bool -> result.

Fixpoint run_list (l : list tree) (seen : bool) : result :=
  match l with
  | [] => Done seen
  | x :: r => match rn x seen with
              | Done s' => if is_jump x then Done s' else run_list r s'
              | e => e
              end
  end.

Fixpoint run_fields (slots : list (string * list tree)) (fs : list string) (seen : bool) : result :=
  match fs with
  | [] => Done seen
  | g :: r => match run_list (slot g slots) seen with
              | Done s' => run_fields slots r s'
              | e => e
              end
  end.
End Lists.

(* seen: a function definition has been entered already *)
Fixpoint run_node (fuel : nat) (t : tree) (seen : bool) : result :=
  match fuel with
  | O => OutOfFuel
  | S f =>
    match t with
    | Node k slots =>
      match action_of k with
      | AFun => if seen then NotImpl else run_fields (run_node f) slots (vis AFun) true
      | ALeaf => Done seen
      | AIf => run_fields (run_node f) slots (vis AIf) seen
      | AWhile => run_fields (run_node f) slots (vis AWhile) seen
      | AFor => run_fields (run_node f) slots (vis AFor) seen
      | ARefuse => NotImpl
      | AFallThrough => Done seen
      end
    end
  end.

(* AST2SCFGTransformer.transform on a module body: the first node must be a
   function definition (assertion), then every node is dispatched in order *)
Inductive status := SOk | SNotImplemented | SAssertion | SFuel.

Definition front_status (fuel : nat) (top : list tree) : status :=
  match top with
  | Node k _ :: _ =>
    if smem "FunctionDef" (ancestors k) then
      match run_list (run_node fuel) top false with
      | Done _ => SOk
      | NotImpl => SNotImplemented
      | OutOfFuel => SFuel
      end
    else SAssertion
  | [] => SAssertion          (* IndexError in the implementation: refused as well *)
  end.

(* the nodes the front end looks at below t (t included) *)
Inductive Visited : tree -> tree -> Prop :=
| V_self t : Visited t t
| V_child t f c n : In f (vis (action_of (kind_of t))) -> In c (live (slot f (slots_of t))) -> Visited c n ->
    Visited t n.

Lemma visited_inv t n : Visited t n ->
  n = t \/ exists f c, In f (vis (action_of (kind_of t))) /\ In c (live (slot f (slots_of t))) /\ Visited c n.
Proof. destruct 1 as [t|t f c n Hf Hc Hv]; [left; reflexivity|right; eauto]. Qed.

Definition Good (t : tree) (seen : bool) (s' : bool) : Prop :=
  (* nothing the front end looked at was an unsupported statement *)
  (forall n, Visited t n -> action_of (kind_of n) <> ARefuse) /\
  (* once a function definition has been entered, no other one is *)
  (seen = true -> forall n, Visited t n -> action_of (kind_of n) <> AFun) /\
  (seen = true -> s' = true) /\
  (action_of (kind_of t) = AFun ->
     s' = true /\
     forall f c n, In f (vis AFun) -> In c (live (slot f (slots_of t))) -> Visited c n ->
                   action_of (kind_of n) <> AFun).

Definition GoodList (l : list tree) (seen s' : bool) : Prop :=
  (forall c n, In c (live l) -> Visited c n -> action_of (kind_of n) <> ARefuse) /\
  (seen = true -> forall c n, In c (live l) -> Visited c n -> action_of (kind_of n) <> AFun) /\
  (seen = true -> s' = true).

Lemma run_list_good rn :
  (forall t seen s', rn t seen = Done s' -> Good t seen s') ->
  forall l seen s', run_list rn l seen = Done s' -> GoodList l seen s'.
Proof.
  intros Hrn. induction l as [|x r IH]; intros seen s' H; cbn [run_list] in H.
  - injection H as <-. repeat split; auto; intros; contradiction.
  - destruct (rn x seen) as [s1| |] eqn:Ex; try discriminate.
    destruct (Hrn _ _ _ Ex) as [A [B [C _]]]. unfold GoodList. cbn [live].
    destruct (is_jump x).
    + injection H as <-. repeat split.
      * intros c n [<-|[]] Hv. apply A; exact Hv.
      * intros Hs c n [<-|[]] Hv. apply B; auto.
      * exact C.
    + destruct (IH _ _ H) as [A' [B' C']]. repeat split.
      * intros c n [<-|Hc] Hv; [apply A; exact Hv|eapply A'; eauto].
      * intros Hs c n [<-|Hc] Hv; [apply B; auto|exact (B' (C Hs) c n Hc Hv)].
      * intros Hs. auto.
Qed.

Lemma run_fields_good rn slots :
  (forall t seen s', rn t seen = Done s' -> Good t seen s') ->
  forall fs seen s', run_fields rn slots fs seen = Done s' ->
    (forall g c n, In g fs -> In c (live (slot g slots)) -> Visited c n -> action_of (kind_of n) <> ARefuse) /\
    (seen = true -> forall g c n, In g fs -> In c (live (slot g slots)) -> Visited c n ->
                    action_of (kind_of n) <> AFun) /\
    (seen = true -> s' = true).
Proof.
  intros Hrn. induction fs as [|g r IH]; intros seen s' H; cbn in H.
  - injection H as <-. repeat split; auto; intros; contradiction.
  - destruct (run_list rn (slot g slots) seen) as [s1| |] eqn:Ex; try discriminate.
    destruct (run_list_good rn Hrn _ _ _ Ex) as [A [B C]]. destruct (IH _ _ H) as [A' [B' C']].
    repeat split.
    + intros g' c n [<-|Hg] Hc Hv; [eapply A; eauto|eapply A'; eauto].
    + intros Hs g' c n [<-|Hg] Hc Hv; [eapply B; eauto|eapply (B' (C Hs)); eauto].
    + intros Hs. auto.
Qed.

Lemma run_node_good fuel : forall t seen s', run_node fuel t seen = Done s' -> Good t seen s'.
Proof.
  induction fuel as [|f IH]; intros t seen s' H; [discriminate|].
  destruct t as [k slots]. cbn [run_node] in H.
  (* a node whose handler descends with the unchanged flag *)
  assert (Hplain : forall a, action_of k = a -> a <> ARefuse -> a <> AFun ->
            run_fields (run_node f) slots (vis a) seen = Done s' -> Good (Node k slots) seen s').
  { intros a Ea Hnr Hnf Hr.
    destruct (run_fields_good (run_node f) slots IH _ _ _ Hr) as [A [B C]].
    split; [|split; [|split]].
    - intros n Hv. destruct (visited_inv _ _ Hv) as [->|[g [c [Hg [Hc Hv']]]]].
      + cbn. rewrite Ea. exact Hnr.
      + cbn in Hg, Hc. rewrite Ea in Hg. eapply A; eauto.
    - intros Hs n Hv. destruct (visited_inv _ _ Hv) as [->|[g [c [Hg [Hc Hv']]]]].
      + cbn. rewrite Ea. exact Hnf.
      + cbn in Hg, Hc. rewrite Ea in Hg. eapply B; eauto.
    - exact C.
    - intros Hf. cbn in Hf. congruence. }
  (* a node without statement children *)
  assert (Hleaf : forall a, action_of k = a -> a <> ARefuse -> a <> AFun -> vis a = [] -> s' = seen ->
            Good (Node k slots) seen s').
  { intros a Ea Hnr Hnf Hv Es. subst s'. split; [|split; [|split]].
    - intros n Hvn. destruct (visited_inv _ _ Hvn) as [->|[g [c [Hg [Hc Hv']]]]].
      + cbn. rewrite Ea. exact Hnr.
      + cbn in Hg. rewrite Ea, Hv in Hg. destruct Hg.
    - intros Hs n Hvn. destruct (visited_inv _ _ Hvn) as [->|[g [c [Hg [Hc Hv']]]]].
      + cbn. rewrite Ea. exact Hnf.
      + cbn in Hg. rewrite Ea, Hv in Hg. destruct Hg.
    - auto.
    - intros Hf. cbn in Hf. congruence. }
  destruct (action_of k) eqn:Ea.
  - (* the function definition: refused if one was entered before; its body runs with the flag set *)
    destruct seen; [discriminate|].
    destruct (run_fields_good (run_node f) slots IH _ _ _ H) as [A [B C]].
    split; [|split; [|split]].
    + intros n Hv. destruct (visited_inv _ _ Hv) as [->|[g [c [Hg [Hc Hv']]]]].
      * cbn. rewrite Ea. discriminate.
      * cbn in Hg, Hc. rewrite Ea in Hg. eapply A; eauto.
    + discriminate.
    + discriminate.
    + intros _. split; [auto|]. intros g c n Hg Hc Hv. cbn in Hc. eapply B; eauto.
  - injection H as <-. apply (Hleaf ALeaf); auto; discriminate.
  - apply (Hplain AIf); auto; discriminate.
  - apply (Hplain AWhile); auto; discriminate.
  - apply (Hplain AFor); auto; discriminate.
  - discriminate.
  - injection H as <-. apply (Hleaf AFallThrough); auto; discriminate.
Qed.

(* The statement of C11 on the model: if the front end accepts a module body,
   its first node is a function definition, nothing it looked at is a statement
   kind the dispatcher refuses, and no function definition other than that
   first node was entered — at any depth. *)
Theorem front_accepts_only_supported fuel t0 rest :
  front_status fuel (t0 :: rest) = SOk ->
  action_of (kind_of t0) = AFun ->
  (forall c n, In c (live (t0 :: rest)) -> Visited c n -> action_of (kind_of n) <> ARefuse) /\
  (forall n, Visited t0 n -> action_of (kind_of n) = AFun -> n = t0) /\
  (is_jump t0 = false -> forall c n, In c (live rest) -> Visited c n -> action_of (kind_of n) <> AFun).
Proof.
  unfold front_status. destruct t0 as [k slots]. destruct (smem "FunctionDef" (ancestors k)); [|discriminate].
  destruct (run_list (run_node fuel) (Node k slots :: rest) false) as [s'| |] eqn:E; try discriminate.
  intros _ Hfun.
  destruct (run_list_good (run_node fuel) (run_node_good fuel) _ _ _ E) as [A _].
  cbn [run_list] in E. destruct (run_node fuel (Node k slots) false) as [s1| |] eqn:E0; try discriminate.
  destruct (run_node_good fuel _ _ _ E0) as [_ [_ [_ G]]]. destruct (G Hfun) as [Hs1 Hbelow].
  split; [exact A|]. split.
  - intros n Hv Hf. destruct (visited_inv _ _ Hv) as [->|[g [c [Hg [Hc Hv']]]]]; [reflexivity|].
    exfalso. cbn in Hg, Hc. cbn in Hfun. rewrite Hfun in Hg. exact (Hbelow g c n Hg Hc Hv' Hf).
  - subst s1. intros Hj. rewrite Hj in E.
    destruct (run_list_good (run_node fuel) (run_node_good fuel) _ _ _ E) as [_ [B _]].
    intros c n Hc Hv. exact (B eq_refl c n Hc Hv).
Qed.

(* ---------- every statement position is looked at ---------- *)
Definition stmt_fields (k : string) : list string :=
  match find (fun e => String.eqb (fst (fst e)) k) kinds with
  | Some e => snd e
  | None => []
  end.

(* all live statements below t (not after a return / break / continue in their
   suite), through every statement-list field of every node *)
Inductive Desc : tree -> tree -> Prop :=
| D_self t : Desc t t
| D_child t f c n : In f (stmt_fields (kind_of t)) -> In c (live (slot f (slots_of t))) -> Desc c n -> Desc t n.

(* a handler that descends visits all statement fields of its class; a class
   handled as a leaf has none *)
Definition covers_kind (k : string) : bool :=
  match action_of k with
  | AFun | AIf | AWhile | AFor => forallb (fun f => smem f (vis (action_of k))) (stmt_fields k)
  | ARefuse => true
  | ALeaf | AFallThrough => match stmt_fields k with [] => true | _ => false end
  end.

Definition covers : bool := forallb (fun e => covers_kind (fst (fst e))) kinds.

Lemma smem_In x l : smem x l = true -> In x l.
Proof.
  unfold smem. rewrite existsb_exists. intros [y [Hy He]]. apply String.eqb_eq in He. subst. exact Hy.
Qed.

Lemma covers_kind_of k f : covers = true -> In f (stmt_fields k) -> covers_kind k = true.
Proof.
  unfold covers, stmt_fields. intros Hc Hf. rewrite forallb_forall in Hc.
  destruct (find (fun e => String.eqb (fst (fst e)) k) kinds) as [e|] eqn:E; [|destruct Hf].
  apply find_some in E as [Hin He]. apply String.eqb_eq in He. subst k. apply Hc. exact Hin.
Qed.

Theorem desc_visited : covers = true -> forall t n, Desc t n ->
  (forall m, Visited t m -> action_of (kind_of m) <> ARefuse) -> Visited t n.
Proof.
  intros Hcov t n Hd. induction Hd as [t|t f c n Hf Hc Hd IH]; intros Hacc; [apply V_self|].
  pose proof (covers_kind_of _ _ Hcov Hf) as Hk. unfold covers_kind in Hk.
  pose proof (Hacc t (V_self t)) as Hself.
  assert (Hvis : In f (vis (action_of (kind_of t)))).
  { destruct (action_of (kind_of t)) eqn:Ea.
    - rewrite forallb_forall in Hk. apply smem_In. apply Hk. exact Hf.
    - destruct (stmt_fields (kind_of t)); [destruct Hf|discriminate].
    - rewrite forallb_forall in Hk. apply smem_In. apply Hk. exact Hf.
    - rewrite forallb_forall in Hk. apply smem_In. apply Hk. exact Hf.
    - rewrite forallb_forall in Hk. apply smem_In. apply Hk. exact Hf.
    - contradiction.
    - destruct (stmt_fields (kind_of t)); [destruct Hf|discriminate]. }
  apply (V_child t f c n Hvis Hc). apply IH.
  intros m Hm. apply Hacc. eapply V_child; eauto.
Qed.

(* C11, full strength on the model: if the front end accepts, then NO statement
   at ANY depth below the module body is of a refused kind *)
Theorem front_accepts_nothing_unsupported fuel t0 rest :
  covers = true ->
  front_status fuel (t0 :: rest) = SOk -> action_of (kind_of t0) = AFun ->
  forall c n, In c (live (t0 :: rest)) -> Desc c n ->
    action_of (kind_of n) <> ARefuse /\ (action_of (kind_of n) = AFun -> n = t0).
Proof.
  intros Hcov Hok Hfun c n Hc Hd.
  destruct (front_accepts_only_supported fuel t0 rest Hok Hfun) as [A [B C]].
  assert (Hv : Visited c n) by (apply desc_visited; auto; intros m Hm; eapply A; eauto).
  split; [eapply A; eauto|]. intros Hf. cbn [live] in Hc.
  destruct (is_jump t0) eqn:Hj.
  - destruct Hc as [<-|[]]. apply B; assumption.
  - destruct Hc as [<-|Hc]; [apply B; assumption|]. exfalso. exact (C eq_refl c n Hc Hv Hf).
Qed.

End Dispatcher.

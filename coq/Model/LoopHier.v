(* LoopHier.v — transformations.loop_restructure_helper as the pipeline calls it: on the
   graph of ONE LEVEL of a hierarchy (the `scfg` argument is the sub-graph of a region; its
   dictionary holds blocks and region blocks alike, and the function treats them alike).
   The model is the flat model (LoopEdit.loop_rest / loop_rotate, line by line) applied to the
   dictionary of that level and written back into the hierarchy; a header unification
   (several headers) is CbHier.insert_cb_h, which also descends into region entries.
   Compared with the code on every call the pipeline makes: the whole hierarchy before and
   after, children of every region in dictionary order. *)
From Coq Require Import List ZArith Bool Lia.
Import ListNotations.
From V Require Import Valid.Hier Model.Graph Model.Edits Model.Edits2 Model.LoopEdit Model.Extract Model.CbHier.
Local Open Scope Z_scope.

Definition children_h (n : node) : list name :=
  match n_kind n with KRegion _ _ _ ch _ _ => ch | _ => [] end.

(* a block of the level's dictionary; a region block is just a block with targets *)
Definition ekind_of (k : nkind) : ekind :=
  match k with
  | KOrig _ => EPlain 100
  | KPlain c => EPlain c
  | KAssign a => EAssign a
  | KBranch c v t => EBranch c v t
  | KRegion _ _ _ _ _ _ => EPlain 0
  end.
Definition eblk_of (n : node) : eblk := mkE (n_jt n) (n_be n) (ekind_of (n_kind n)).

Fixpoint collect (h : hier) (ch : list name) : option egraph :=
  match ch with
  | [] => Some []
  | c :: r =>
    match find h c, collect h r with
    | Some n, Some g => Some ((c, eblk_of n) :: g)
    | _, _ => None
    end
  end.

Definition level_graph (h : hier) (lvl : name) : option egraph :=
  match find h lvl with
  | Some nl => collect h (children_h nl)
  | None => None
  end.

(* an existing block keeps what the edit does not touch (payload, class, a region's fields) *)
Definition kind_back (old : nkind) (k : ekind) : nkind :=
  match k with
  | EBranch c v t => KBranch c v t
  | EAssign a => KAssign a
  | EPlain _ => old
  end.
Definition kind_new (k : ekind) : nkind :=
  match k with
  | EBranch c v t => KBranch c v t
  | EAssign a => KAssign a
  | EPlain c => KPlain c
  end.

Fixpoint write_nodes (h : hier) (lvl : name) (g : egraph) : hier :=
  match g with
  | [] => h
  | (x, b) :: r =>
    let h1 := match find h x with
              | Some n => hset h (mkNode x (n_parent n) (e_jt b) (e_be b) (kind_back (n_kind n) (e_kind b)))
              | None => h ++ [mkNode x lvl (e_jt b) (e_be b) (kind_new (e_kind b))]
              end in
    write_nodes h1 lvl r
  end.

Definition write_back (h : hier) (lvl : name) (g : egraph) : hier :=
  let h1 := write_nodes h lvl g in
  match find h1 lvl with
  | Some nl => hset h1 (with_children nl (fun _ => ekeys g))
  | None => h1
  end.

Definition arcs_into_h (h : hier) (preds S : list name) : nat :=
  fold_left (fun acc p => match find h p with
                          | Some n => (acc + length (zsort (filter (fun t => zmem t S) (n_jt n))))%nat
                          | None => acc end) preds 0%nat.

Definition lift_res {A} (r : res A) : xres A :=
  match r with Ok a => XOk a | KeyError => XKey | AssertionError => XAssert end.

Definition loop_helper_h (h : hier) (lvl : name) (loop headers entries exiting exits : list name)
           (doms : list (name * list name)) (blocknames : list name) (varnames : list Z) : xres hier :=
  let unified := match headers with _ :: _ :: _ => true | _ => false end in
  let step1 : xres (hier * name * list name * list name * list Z) :=
    if unified then
      match blocknames, varnames with
      | hn :: bn, v :: vn =>
        let k := arcs_into_h h entries headers in
        match insert_cb_h h lvl hn v entries headers (firstn k bn) with
        | XOk h1 => XOk (h1, hn, loop ++ [hn], skipn k bn, vn)
        | XKey => XKey
        | XAssert => XAssert
        end
      | _, _ => XAssert
      end
    else match headers with
         | [hd] => XOk (h, hd, loop, blocknames, varnames)
         | _ => XAssert
         end in
  match step1 with
  | XKey => XKey
  | XAssert => XAssert
  | XOk (h1, hd, loop1, bn, vn) =>
    match level_graph h1 lvl with
    | None => XKey
    | Some g1 =>
      match loop_rest g1 hd loop1 headers exiting exits unified doms bn vn with
      | Ok g' => XOk (write_back h1 lvl g')
      | KeyError => XKey
      | AssertionError => XAssert
      end
    end
  end.

(* ---------- correspondence driver ----------
   rows: the hierarchy before the call (Hier.v tags 1-6), then
     49 lvl L loop.. H headers.. N entries.. X exiting.. E exits.. B blocknames.. V varnames..
     45 name D dominators..     (one row per block of the level, as _doms returns them)
     50 status
     47 <row>                   the hierarchy after the call
   answer: [decoded; same outcome; every block and region equal, children in dictionary order] *)
Fixpoint split_lh (rows : list (list Z)) : list (list Z) * list (list Z) * list Z * list Z * list (name * list name) :=
  match rows with
  | [] => ([], [], [], [], [])
  | row :: rest =>
    let '(b, a, op, st, dm) := split_lh rest in
    match row with
    | 47 :: r => (b, r :: a, op, st, dm)
    | 49 :: r => (b, a, r, st, dm)
    | 50 :: r => (b, a, op, r, dm)
    | 45 :: k :: r => match take_list r with Some (l, []) => (b, a, op, st, (k, l) :: dm) | _ => (b, a, op, st, dm) end
    | _ => (row :: b, a, op, st, dm)
    end
  end.

Definition run_looph (rows : list (list Z)) : list Z :=
  let '(br, ar, op, st, dm) := split_lh rows in
  match decode br, op with
  | Some (_, h), lvl :: r0 =>
    match take_list r0 with
    | Some (loop, r1) =>
      match take_list r1 with
      | Some (headers, r2) =>
        match take_list r2 with
        | Some (entries, r3) =>
          match take_list r3 with
          | Some (exiting, r4) =>
            match take_list r4 with
            | Some (exits, r5) =>
              match take_list r5 with
              | Some (bnames, r6) =>
                match take_list r6 with
                | Some (vnames, []) =>
                  match loop_helper_h h lvl loop headers entries exiting exits dm bnames vnames, st with
                  | XOk h', [0] =>
                    match decode ar with
                    | Some (_, ha) =>
                      [1; 1; if Nat.eqb (length h') (length ha) &&
                                forallb (fun n => match find ha (n_name n) with Some m => xnode_eqb n m | None => false end) h'
                             then 1 else 0]
                    | None => [0; 0; 0]
                    end
                  | XKey, [1] => [1; 1; 1]
                  | XAssert, [2] => [1; 1; 1]
                  | _, _ => [1; 0; 0]
                  end
                | _ => [0; 0; 0]
                end
              | None => [0; 0; 0]
              end
            | None => [0; 0; 0]
            end
          | None => [0; 0; 0]
          end
        | None => [0; 0; 0]
        end
      | None => [0; 0; 0]
      end
    | None => [0; 0; 0]
    end
  | _, _ => [0; 0; 0]
  end.

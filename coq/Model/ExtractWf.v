(* ExtractWf.v — property C04 for region extraction, universally: names stay
   unique; the new region is recorded in the level that holds it, with that
   level as parent; its header and exiting block are among its blocks; its
   targets are those of its exiting block (declared back edges left out, as
   extract_region does); the wrapped blocks point to it as parent. *)
From Coq Require Import List ZArith Bool Lia.
Import ListNotations.
From V Require Import Valid.Hier Model.Graph Model.Edits Model.JoinPath Model.Extract Model.ExtractPath.
Local Open Scope Z_scope.

Lemma hset_names h n : find h (n_name n) <> None -> names (hset h n) = names h.
Proof.
  unfold names. induction h as [|m r IH]; intros H; [reflexivity|]. cbn [hset find] in *.
  destruct (Z.eqb_spec (n_name m) (n_name n)) as [E|E]; cbn [map]; [congruence|]. f_equal. apply IH. exact H.
Qed.

Lemma hset_names_absent h n : find h (n_name n) = None -> hset h n = h.
Proof.
  induction h as [|m r IH]; intros H; [reflexivity|]. cbn [hset find] in *.
  destruct (Z.eqb (n_name m) (n_name n)); [discriminate|]. f_equal. apply IH. exact H.
Qed.

Lemma hset_names_any h n : names (hset h n) = names h.
Proof.
  destruct (find h (n_name n)) eqn:E; [apply hset_names; congruence|rewrite hset_names_absent; auto].
Qed.

Lemma find_none_names h x : find h x = None -> ~ In x (names h).
Proof.
  unfold names. induction h as [|m r IH]; cbn; [tauto|]. destruct (Z.eqb_spec (n_name m) x); [discriminate|].
  intros H [E|E]; [contradiction|apply IH; assumption].
Qed.

Section ExtractWf.
Variables (hd rname : name) (h : hier) (lvl : name) (blocks entries : list name) (ex : name) (rk : Z) (h' : hier).
Hypothesis Hx : extract h lvl blocks entries hd ex rk rname = XOk h'.

(* the loops over the entries only replace nodes by nodes of the same name *)
Lemma upd_exiting_names : forall fuel hc e a b h1, upd_exiting fuel hc e a b = XOk h1 -> names h1 = names hc.
Proof.
  induction fuel as [|f IH]; intros hc e a b h1 H; [discriminate|]. cbn [upd_exiting] in H.
  destruct (find hc e) as [ne|]; [|discriminate]. destruct (n_kind ne); try discriminate.
  destruct (find hc exiting) as [nx|]; [|discriminate].
  destruct (negb (Z.eqb (n_parent nx) e)); [discriminate|].
  destruct (rename_node nx a b) as [nx'|]; [|discriminate].
  destruct (is_region nx').
  - rewrite (IH _ _ _ _ _ H). rewrite !hset_names_any. reflexivity.
  - injection H as <-. rewrite !hset_names_any. reflexivity.
Qed.

Lemma do_entries_names fuel : forall es hc h1, do_entries fuel hc lvl es hd rname = XOk h1 -> names h1 = names hc.
Proof.
  induction es as [|e rest IH]; intros hc h1 H; [cbn in H; injection H as <-; reflexivity|].
  cbn [do_entries] in H. destruct (find hc lvl) as [nl|]; [|discriminate]. cbv zeta in H.
  match type of H with (if ?c then _ else _) = _ => destruct c end.
  - match type of H with (if ?c then _ else _) = _ => destruct c end; [discriminate|]. eapply IH; eauto.
  - destruct (find hc e) as [ne|]; [|discriminate].
    destruct (rename_node ne hd rname) as [ne'|]; [|discriminate].
    destruct (if is_region ne' then upd_exiting fuel (hset hc ne') e hd rname else XOk (hset hc ne')) as [h2| |] eqn:Hs;
      try discriminate.
    destruct (find h2 lvl) as [nl2|]; [|discriminate].
    rewrite (IH _ _ H), hset_names_any.
    destruct (is_region ne'); [rewrite (upd_exiting_names _ _ _ _ _ _ Hs)|injection Hs as <-]; apply hset_names_any.
Qed.

Theorem extract_names : names h' = names h ++ [rname].
Proof.
  pose proof Hx as H. unfold extract in H.
  destruct (do_entries (S (length h)) h lvl entries hd rname) as [h1| |] eqn:Hd; try discriminate.
  destruct (find h1 ex) as [nx|]; [|discriminate]. destruct (find h1 lvl) as [nl|]; [|discriminate].
  injection H as <-. unfold names. rewrite map_app. cbn [map n_name]. f_equal.
  match goal with |- map n_name (hset ?a ?b) = _ => change (map n_name (hset a b)) with (names (hset a b)) end.
  rewrite hset_names_any. unfold names. rewrite map_map.
  pose proof (do_entries_names _ _ _ _ Hd) as Hnm. unfold names in Hnm. rewrite <- Hnm. apply map_ext. intros n.
  unfold reparent. destruct (zmem (n_name n) blocks); [destruct (n_kind n)|]; reflexivity.
Qed.

Theorem extract_names_unique : NoDup (names h) -> find h rname = None -> NoDup (names h').
Proof.
  intros Hnd Hf. rewrite extract_names. apply NoDup_snoc; [exact Hnd|]. exact (find_none_names h rname Hf).
Qed.
End ExtractWf.

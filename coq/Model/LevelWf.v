(* LevelWf.v — property C04 for every edit that works on the dictionary of ONE level and is written back
   (LoopHier.write_back: the loop rotation with one or several headers, the early return, the insertion of
   a block in front of one successor): if the hierarchy was self-consistent (Wf.WfHier) and the new
   dictionary keeps the level's children, adds only unused names, leaves region blocks as they are, keeps
   every arc inside the level - the exiting block's may leave as the region's own do - and keeps the
   exiting block's outgoing targets, then the result is self-consistent.  All conditions are decidable
   (level_okb); the extracted checker evaluates them on every such call the pipeline makes. *)
From Coq Require Import List ZArith Bool Lia.
Import ListNotations.
From V Require Import Valid.Hier Valid.FlatRegion Valid.Wf Valid.Struct Model.Graph Model.Edits Model.Extract
     Model.LoopHier Model.JoinPath Model.LoopHierPath Model.Total2.
Local Open Scope Z_scope.

Lemma filter_single {A} (P : A -> bool) (l : list A) (x : A) :
  NoDup l -> In x l -> P x = true -> (forall y, In y l -> P y = true -> y = x) -> filter P l = [x].
Proof.
  induction l as [|a r IH]; intros Hnd Hin Hp Hu; [destruct Hin|]. cbn [filter].
  apply NoDup_cons_iff in Hnd as [Ha Hnd]. destruct Hin as [->|Hin].
  - rewrite Hp. f_equal. clear IH. induction r as [|b r IH]; [reflexivity|]. cbn [filter].
    destruct (P b) eqn:Eb.
    + exfalso. apply Ha. left. apply (Hu b (or_intror (or_introl eq_refl)) Eb).
    + apply IH.
      * intros Hi. apply Ha. right. exact Hi.
      * apply NoDup_cons_iff in Hnd. apply Hnd.
      * intros y [->|Hy] Hy2; [reflexivity|]. apply Hu; [right; right; exact Hy|exact Hy2].
  - destruct (P a) eqn:Ea.
    + exfalso. apply Ha. rewrite (Hu a (or_introl eq_refl) Ea). exact Hin.
    + apply IH; auto. intros y Hy. apply Hu. right. exact Hy.
Qed.

Lemma filter_single_inv {A} (P : A -> bool) (l : list A) (x : A) :
  filter P l = [x] -> In x l /\ P x = true /\ forall y, In y l -> P y = true -> y = x.
Proof.
  intros E. assert (Hx : In x (filter P l)) by (rewrite E; left; reflexivity). apply filter_In in Hx as [A1 A2].
  split; [exact A1|]. split; [exact A2|]. intros y Hy Hp.
  assert (Hi : In y (filter P l)) by (apply filter_In; auto). rewrite E in Hi. destruct Hi as [<-|[]]. reflexivity.
Qed.

Section LevelWf.
Variables (h : hier) (lvl : name) (g' : egraph) (nl : node) (rk hd ex : Z) (ch : list name) (pd : Z) (ok : bool).
Let h' := write_back h lvl g'.

Hypothesis W : WfHier h.
Hypothesis Hl : find h lvl = Some nl.
Hypothesis Hk : n_kind nl = KRegion rk hd ex ch pd ok.
Hypothesis Hnd' : NoDup (names h').
Hypothesis Hkeys' : NoDup (ekeys g').
Hypothesis Hlvl' : efind g' lvl = None.
Hypothesis Hlvl0 : lvl <> 0.
Hypothesis Hcases : forall x, In x (ekeys g') -> find h x = None \/ In x ch.
Hypothesis Hch : forall c, In c ch -> In c (ekeys g').
Hypothesis Hanc : ~ In (n_parent nl) (ekeys g').
(* region blocks of the level are left as they are *)
Hypothesis Hregion : forall x n b, efind g' x = Some b -> find h x = Some n -> is_region n = true ->
  e_jt b = n_jt n /\ e_be b = n_be n /\ exists c, e_kind b = EPlain c.
(* every arc stays inside the level; the exiting block's may leave as the region's own do *)
Hypothesis Hscope : forall x b t, efind g' x = Some b -> In t (e_jt b ++ e_be b) ->
  In t (ekeys g') \/ (x = ex /\ Visible h lvl t).
(* the exiting block keeps its outgoing targets *)
Hypothesis Hrjt : n_parent nl <> 0 -> forall b, efind g' ex = Some b ->
  filter (fun t => negb (zmem t (e_be b))) (e_jt b) = n_jt nl.

Let nl' := with_children nl (fun _ => ekeys g').

Lemma nl'_eq : nl' = mkNode (n_name nl) (n_parent nl) (n_jt nl) (n_be nl) (KRegion rk hd ex (ekeys g') pd ok).
Proof. unfold nl', with_children. rewrite Hk. reflexivity. Qed.

Lemma name_nl : n_name nl = lvl.
Proof. apply (find_name _ _ _ Hl). Qed.

Lemma find_lvl' : find h' lvl = Some nl'.
Proof. unfold h', nl'. apply (find_write_back_lvl h lvl g' nl Hkeys' Hl Hlvl'). Qed.

Lemma find_other x : x <> lvl ->
  find h' x = match efind g' x with Some b => Some (node_back h lvl x b) | None => find h x end.
Proof. intros Hx. unfold h'. apply (find_write_back h lvl g' x nl Hkeys' Hl Hlvl' Hx). Qed.

Lemma in_h'_find n : In n h' -> find h' (n_name n) = Some n.
Proof. apply find_of_In_nodup. exact Hnd'. Qed.

(* a child of the level has the level as its parent *)
Lemma child_parent c n : In c ch -> find h c = Some n -> n_parent n = lvl.
Proof.
  intros Hc Hn. destruct (find_In _ _ _ Hl) as [Hin _].
  destruct (wf_down h W nl rk hd ex ch pd ok Hin Hk) as [_ Hd]. destruct (Hd c Hc) as [n0 [Hn0 Hp]].
  rewrite Hn in Hn0. injection Hn0 as <-. rewrite Hp. exact name_nl.
Qed.

(* a region block of the level is written back as it was *)
Lemma region_back x n b : efind g' x = Some b -> find h x = Some n -> is_region n = true -> node_back h lvl x b = n.
Proof.
  intros Hb Hn Hr. destruct (Hregion x n b Hb Hn Hr) as [Ej [Eb [c Ek]]].
  unfold node_back. rewrite Hn, Ej, Eb, Ek. cbn [kind_back]. rewrite <- (find_name _ _ _ Hn). apply node_eta.
Qed.

(* what a name of the old hierarchy is in the new one *)
Lemma find_old x n : find h x = Some n -> exists n', find h' x = Some n' /\ n_parent n' = n_parent n /\ n_name n' = x /\
  (is_region n = true -> x <> lvl -> n' = n) /\ (is_region n' = true -> is_region n = true).
Proof.
  intros Hn. destruct (Z.eq_dec x lvl) as [->|Hx].
  - rewrite Hl in Hn. injection Hn as <-. exists nl'. split; [exact find_lvl'|]. rewrite nl'_eq. cbn.
    split; [reflexivity|]. split; [exact name_nl|]. split; [intros _ E; contradiction|]. intros _. unfold is_region. rewrite Hk. reflexivity.
  - rewrite (find_other x Hx). destruct (efind g' x) as [b|] eqn:Eb.
    + exists (node_back h lvl x b). split; [reflexivity|]. unfold node_back. rewrite Hn. cbn [n_parent n_name].
      split; [reflexivity|]. split; [reflexivity|]. split.
      * intros Hr _. pose proof (region_back x n b Eb Hn Hr) as E. unfold node_back in E. rewrite Hn in E. exact E.
      * unfold is_region. cbn [n_kind]. destruct (e_kind b); cbn [kind_back]; try discriminate. auto.
    + exists n. split; [exact Hn|]. split; [reflexivity|]. split; [apply (find_name _ _ _ Hn)|]. split; auto.
Qed.

(* a name that is new *)
Lemma find_new x b : efind g' x = Some b -> find h x = None ->
  find h' x = Some (mkNode x lvl (e_jt b) (e_be b) (kind_new (e_kind b))).
Proof.
  intros Hb Hn. assert (Hx : x <> lvl) by (intros ->; rewrite Hl in Hn; discriminate).
  rewrite (find_other x Hx), Hb. unfold node_back. rewrite Hn. reflexivity.
Qed.

(* every node of the new hierarchy: the level's region, a block of the new dictionary, or an old node *)
Lemma node_cases n : In n h' ->
  n = nl' \/
  (exists b, n_name n <> lvl /\ efind g' (n_name n) = Some b /\ n = node_back h lvl (n_name n) b) \/
  (n_name n <> lvl /\ efind g' (n_name n) = None /\ find h (n_name n) = Some n).
Proof.
  intros Hin. pose proof (in_h'_find n Hin) as Hf. destruct (Z.eq_dec (n_name n) lvl) as [E|Hx].
  - left. rewrite E, find_lvl' in Hf. congruence.
  - right. rewrite (find_other _ Hx) in Hf. destruct (efind g' (n_name n)) as [b|] eqn:Eb.
    + left. exists b. split; [exact Hx|]. split; [reflexivity|]. congruence.
    + right. auto.
Qed.

(* the regions of the new hierarchy *)
Lemma region_cases p : In p h' -> is_region p = true -> p = nl' \/ (n_name p <> lvl /\ find h (n_name p) = Some p /\ find h' (n_name p) = Some p).
Proof.
  intros Hin Hr. pose proof (in_h'_find p Hin) as Hf. destruct (node_cases p Hin) as [E|[[b [Hx [Eb E]]]|[Hx [Eb E]]]]; [left; exact E| |].
  - right. split; [exact Hx|]. destruct (find h (n_name p)) as [n|] eqn:En.
    + assert (Hrn : is_region n = true).
      { rewrite E in Hr. unfold node_back in Hr. rewrite En in Hr. unfold is_region in Hr |- *. cbn [n_kind] in Hr.
        destruct (e_kind b); cbn [kind_back] in Hr; try discriminate. exact Hr. }
      rewrite (region_back _ n b Eb En Hrn) in E. subst n. split; [reflexivity|exact Hf].
    + exfalso. rewrite E in Hr. unfold node_back in Hr. rewrite En in Hr. unfold is_region in Hr. cbn [n_kind] in Hr.
      destruct (e_kind b); discriminate.
  - right. split; [exact Hx|]. split; [exact E|exact Hf].
Qed.

(* the region a name of the old hierarchy lies in, in the new one: same header and exiting block, children kept *)
Lemma parent_region q p rk0 hd0 ex0 ch0 pd0 ok0 : find h q = Some p -> n_kind p = KRegion rk0 hd0 ex0 ch0 pd0 ok0 ->
  exists p' ch1, find h' q = Some p' /\ n_kind p' = KRegion rk0 hd0 ex0 ch1 pd0 ok0 /\ n_name p' = n_name p /\
                 n_parent p' = n_parent p /\ n_jt p' = n_jt p /\ n_be p' = n_be p /\ (forall t, In t ch0 -> In t ch1).
Proof.
  intros Hp Hkp. destruct (Z.eq_dec q lvl) as [->|Hq].
  - rewrite Hl in Hp. injection Hp as <-. rewrite Hk in Hkp. injection Hkp as <- <- <- <- <- <-.
    exists nl', (ekeys g'). split; [exact find_lvl'|]. rewrite nl'_eq. cbn. repeat split; auto.
  - destruct (find_old q p Hp) as [p' [Hf [_ [_ [Hsame _]]]]].
    assert (Hr : is_region p = true) by (unfold is_region; rewrite Hkp; reflexivity).
    rewrite (Hsame Hr Hq) in Hf. exists p, ch0. repeat split; auto.
Qed.

Lemma vis_mono x t : Visible h x t -> Visible h' x t.
Proof.
  induction 1 as [x t nx p rk0 hd0 ex0 ch0 pd0 ok0 Hx Hp Hkp Ht|x t nx p rk0 hd0 ex0 ch0 pd0 ok0 Hx Hp Hkp Hex _ IH].
  - destruct (find_old x nx Hx) as [nx' [Hx' [Hpar _]]].
    destruct (parent_region _ p _ _ _ _ _ _ Hp Hkp) as [p' [ch1 [Hp' [Hkp' [_ [_ [_ [_ Hsub]]]]]]]].
    eapply Vis_sib; [exact Hx'|rewrite Hpar; exact Hp'|exact Hkp'|apply Hsub; exact Ht].
  - destruct (find_old x nx Hx) as [nx' [Hx' [Hpar _]]].
    destruct (parent_region _ p _ _ _ _ _ _ Hp Hkp) as [p' [ch1 [Hp' [Hkp' [Hname [_ [_ [_ Hsub]]]]]]]].
    eapply Vis_up; [exact Hx'|rewrite Hpar; exact Hp'|exact Hkp'|exact Hex|rewrite Hname; exact IH].
Qed.

(* a block of the new dictionary lies in the level *)
Lemma key_node x b : efind g' x = Some b -> exists n, find h' x = Some n /\ n_parent n = lvl /\
  n_jt n = e_jt b /\ n_be n = e_be b /\ n_name n = x.
Proof.
  intros Hb. assert (Hx : x <> lvl) by (intros ->; rewrite Hlvl' in Hb; discriminate).
  rewrite (find_other x Hx), Hb. eexists. split; [reflexivity|]. unfold node_back.
  destruct (find h x) as [n|] eqn:Hn; cbn; [|auto].
  destruct (Hcases x (efind_keys _ _ _ Hb)) as [E|Hc]; [congruence|]. rewrite (child_parent x n Hc Hn). auto.
Qed.

Lemma nl_in : In nl h.
Proof. apply (find_In _ _ _ Hl). Qed.

(* ---------- the fields ---------- *)
Lemma wf_up' : forall n, In n h' -> n_parent n <> 0 ->
  exists p rk0 hd0 ex0 ch0 pd0 ok0, find h' (n_parent n) = Some p /\ n_kind p = KRegion rk0 hd0 ex0 ch0 pd0 ok0 /\ In (n_name n) ch0.
Proof.
  intros n Hin Hp0. destruct (node_cases n Hin) as [E|[[b [Hx [Eb E]]]|[Hx [Eb E]]]].
  - subst n. rewrite nl'_eq in *. cbn [n_parent n_name] in *.
    destruct (wf_up h W nl nl_in Hp0) as [p [rk0 [hd0 [ex0 [ch0 [pd0 [ok0 [Hp [Hkp Hc]]]]]]]]].
    destruct (parent_region _ p _ _ _ _ _ _ Hp Hkp) as [p' [ch1 [Hp' [Hkp' [_ [_ [_ [_ Hsub]]]]]]]].
    exists p', rk0, hd0, ex0, ch1, pd0, ok0. split; [exact Hp'|]. split; [exact Hkp'|apply Hsub; exact Hc].
  - destruct (key_node _ b Eb) as [n0 [Hn0 [Hpar _]]]. rewrite (in_h'_find n Hin) in Hn0. injection Hn0 as <-.
    rewrite Hpar. exists nl', rk, hd, ex, (ekeys g'), pd, ok. split; [exact find_lvl'|]. split; [rewrite nl'_eq; reflexivity|].
    eapply efind_keys; eauto.
  - destruct (find_In _ _ _ E) as [Hinh _].
    destruct (wf_up h W n Hinh Hp0) as [p [rk0 [hd0 [ex0 [ch0 [pd0 [ok0 [Hp [Hkp Hc]]]]]]]]].
    destruct (parent_region _ p _ _ _ _ _ _ Hp Hkp) as [p' [ch1 [Hp' [Hkp' [_ [_ [_ [_ Hsub]]]]]]]].
    exists p', rk0, hd0, ex0, ch1, pd0, ok0. split; [exact Hp'|]. split; [exact Hkp'|apply Hsub; exact Hc].
Qed.

Lemma wf_down' : forall p rk0 hd0 ex0 ch0 pd0 ok0, In p h' -> n_kind p = KRegion rk0 hd0 ex0 ch0 pd0 ok0 ->
  NoDup ch0 /\ forall c, In c ch0 -> exists n, find h' c = Some n /\ n_parent n = n_name p.
Proof.
  intros p rk0 hd0 ex0 ch0 pd0 ok0 Hin Hkp.
  assert (Hr : is_region p = true) by (unfold is_region; rewrite Hkp; reflexivity).
  destruct (region_cases p Hin Hr) as [E|[Hx [Hph Hph']]].
  - subst p. rewrite nl'_eq in Hkp. cbn in Hkp. injection Hkp as <- <- <- <- <- <-. split; [exact Hkeys'|].
    intros c Hc. destruct (keys_efind g' c Hc) as [b Hb]. destruct (key_node c b Hb) as [n [Hn [Hpar _]]].
    exists n. split; [exact Hn|]. rewrite Hpar, nl'_eq. cbn. symmetry. exact name_nl.
  - destruct (find_In _ _ _ Hph) as [Hinh _]. destruct (wf_down h W p _ _ _ _ _ _ Hinh Hkp) as [Hnd Hd]. split; [exact Hnd|].
    intros c Hc. destruct (Hd c Hc) as [n [Hn Hpar]]. destruct (find_old c n Hn) as [n' [Hn' [Hpar' _]]].
    exists n'. split; [exact Hn'|]. rewrite Hpar'. exact Hpar.
Qed.

Lemma wf_hdr' : forall p rk0 hd0 ex0 ch0 pd0 ok0, In p h' -> n_kind p = KRegion rk0 hd0 ex0 ch0 pd0 ok0 ->
  n_parent p <> 0 -> In hd0 ch0 /\ In ex0 ch0.
Proof.
  intros p rk0 hd0 ex0 ch0 pd0 ok0 Hin Hkp Hp0.
  assert (Hr : is_region p = true) by (unfold is_region; rewrite Hkp; reflexivity).
  destruct (region_cases p Hin Hr) as [E|[Hx [Hph Hph']]].
  - subst p. rewrite nl'_eq in Hkp, Hp0. cbn in Hkp, Hp0. injection Hkp as <- <- <- <- <- <-.
    destruct (wf_hdr h W nl _ _ _ _ _ _ nl_in Hk Hp0) as [A B]. split; apply Hch; assumption.
  - destruct (find_In _ _ _ Hph) as [Hinh _]. exact (wf_hdr h W p _ _ _ _ _ _ Hinh Hkp Hp0).
Qed.

Lemma wf_scope' : forall n t, In n h' -> n_parent n <> 0 -> In t (n_jt n ++ n_be n) -> Visible h' (n_name n) t.
Proof.
  intros n t Hin Hp0 Ht. destruct (node_cases n Hin) as [E|[[b [Hx [Eb E]]]|[Hx [Eb E]]]].
  - subst n. rewrite nl'_eq in *. cbn [n_parent n_name n_jt n_be] in *. apply vis_mono.
    apply (wf_scope h W nl t nl_in Hp0 Ht).
  - destruct (key_node _ b Eb) as [n0 [Hn0 [Hpar [Hj [Hb _]]]]]. rewrite (in_h'_find n Hin) in Hn0. injection Hn0 as <-.
    rewrite Hj, Hb in Ht. destruct (Hscope _ b t Eb Ht) as [Hkey|[Hex Hvis]].
    + eapply Vis_sib; [apply (in_h'_find n Hin)|rewrite Hpar; exact find_lvl'|rewrite nl'_eq; reflexivity|exact Hkey].
    + eapply Vis_up; [apply (in_h'_find n Hin)|rewrite Hpar; exact find_lvl'|rewrite nl'_eq; reflexivity|exact Hex|].
      rewrite nl'_eq. cbn [n_name]. rewrite name_nl. apply vis_mono. exact Hvis.
  - destruct (find_In _ _ _ E) as [Hinh _]. apply vis_mono. exact (wf_scope h W n t Hinh Hp0 Ht).
Qed.

Lemma wf_rjt' : forall p rk0 hd0 ex0 ch0 pd0 ok0, In p h' -> n_kind p = KRegion rk0 hd0 ex0 ch0 pd0 ok0 ->
  n_parent p <> 0 -> exists nex, find h' ex0 = Some nex /\ n_jt p = jump_targets nex.
Proof.
  intros p rk0 hd0 ex0 ch0 pd0 ok0 Hin Hkp Hp0.
  assert (Hr : is_region p = true) by (unfold is_region; rewrite Hkp; reflexivity).
  destruct (region_cases p Hin Hr) as [E|[Hx [Hph Hph']]].
  - subst p. rewrite nl'_eq in Hkp, Hp0 |- *. cbn in Hkp, Hp0 |- *. injection Hkp as <- <- <- <- <- <-.
    destruct (wf_hdr h W nl _ _ _ _ _ _ nl_in Hk Hp0) as [_ Hexc].
    destruct (keys_efind g' ex (Hch ex Hexc)) as [b Hb]. destruct (key_node ex b Hb) as [n [Hn [_ [Hj [Hbe _]]]]].
    exists n. split; [exact Hn|]. unfold jump_targets. rewrite Hj, Hbe. symmetry. apply (Hrjt Hp0 b Hb).
  - destruct (find_In _ _ _ Hph) as [Hinh _].
    destruct (wf_rjt h W p _ _ _ _ _ _ Hinh Hkp Hp0) as [nex [Hnex Hj]].
    destruct (Z.eq_dec ex0 lvl) as [->|Hne].
    + rewrite Hl in Hnex. injection Hnex as <-. exists nl'. split; [exact find_lvl'|]. rewrite Hj, nl'_eq. reflexivity.
    + rewrite (find_other ex0 Hne). destruct (efind g' ex0) as [b|] eqn:Eb; [|eauto].
      (* the exiting block of another region is not a block of this level *)
      exfalso. destruct (Hcases ex0 (efind_keys _ _ _ Eb)) as [E|Hc]; [congruence|].
      pose proof (child_parent ex0 nex Hc Hnex) as P1.
      destruct (wf_hdr h W p _ _ _ _ _ _ Hinh Hkp Hp0) as [_ Hexc].
      destruct (wf_down h W p _ _ _ _ _ _ Hinh Hkp) as [_ Hd]. destruct (Hd ex0 Hexc) as [n0 [Hn0 P2]].
      rewrite Hnex in Hn0. injection Hn0 as <-. apply Hx. rewrite <- P2. exact P1.
Qed.

Lemma wf_parent' : forall p rk0 hd0 ex0 ch0 pd0 ok0, In p h' -> n_kind p = KRegion rk0 hd0 ex0 ch0 pd0 ok0 ->
  n_parent p <> 0 -> pd0 = n_parent p /\ ok0 = true.
Proof.
  intros p rk0 hd0 ex0 ch0 pd0 ok0 Hin Hkp Hp0.
  assert (Hr : is_region p = true) by (unfold is_region; rewrite Hkp; reflexivity).
  destruct (region_cases p Hin Hr) as [E|[Hx [Hph Hph']]].
  - subst p. rewrite nl'_eq in Hkp, Hp0 |- *. cbn in Hkp, Hp0 |- *. injection Hkp as <- <- <- <- <- <-.
    exact (wf_parent h W nl _ _ _ _ _ _ nl_in Hk Hp0).
  - destruct (find_In _ _ _ Hph) as [Hinh _]. exact (wf_parent h W p _ _ _ _ _ _ Hinh Hkp Hp0).
Qed.

Lemma wf_top' : exists top, top_region h' = Some top /\ is_region top = true.
Proof.
  destruct (wf_top h W) as [top [Htop Hr]]. unfold top_region in Htop.
  destruct (filter (fun n => Z.eqb (n_parent n) 0) h) as [|t0 [|t1 r]] eqn:Ef; try discriminate. injection Htop as ->.
  destruct (filter_single_inv _ _ _ Ef) as [Hin [Hp Hu]]. apply Z.eqb_eq in Hp.
  pose proof (find_of_In_nodup h top (wf_nodup h W) Hin) as Hft.
  destruct (find_old _ top Hft) as [top' [Hft' [Hpar [Hname [Hsame Hreg]]]]].
  exists top'. split.
  - unfold top_region. rewrite (filter_single (fun n => Z.eqb (n_parent n) 0) h' top'); [reflexivity| | | |].
    + apply (NoDup_map_inv n_name). exact Hnd'.
    + apply (find_In _ _ _ Hft').
    + apply Z.eqb_eq. rewrite Hpar. exact Hp.
    + intros y Hy Hpy. apply Z.eqb_eq in Hpy.
      assert (Hsuff : n_name y = n_name top).
      { destruct (node_cases y Hy) as [E|[[b [Hx [Eb E]]]|[Hx [Eb E]]]].
        - subst y. rewrite nl'_eq in Hpy |- *. cbn in Hpy |- *. assert (E : nl = top) by (apply Hu; [exact nl_in|apply Z.eqb_eq; exact Hpy]).
          rewrite E. reflexivity.
        - exfalso. destruct (key_node _ b Eb) as [n0 [Hn0 [Hpar0 _]]]. rewrite (in_h'_find y Hy) in Hn0. injection Hn0 as <-.
          apply Hlvl0. rewrite <- Hpar0. exact Hpy.
        - destruct (find_In _ _ _ E) as [Hinh _]. rewrite (Hu y Hinh); [reflexivity|apply Z.eqb_eq; exact Hpy]. }
      pose proof (in_h'_find y Hy) as Hfy. rewrite Hsuff, Hft' in Hfy. congruence.
  - destruct (Z.eq_dec (n_name top) lvl) as [E|Hne].
    + rewrite E, find_lvl' in Hft'. injection Hft' as <-. rewrite nl'_eq. reflexivity.
    + rewrite (Hsame Hr Hne). exact Hr.
Qed.

Theorem level_edit_keeps_wf : WfHier h'.
Proof.
  constructor.
  - exact Hnd'.
  - exact wf_top'.
  - exact wf_up'.
  - exact wf_down'.
  - exact wf_hdr'.
  - exact wf_scope'.
  - exact wf_rjt'.
  - exact wf_parent'.
Qed.
End LevelWf.

(* PruneWl.v — ASTCFG.prune_unreachable's work-list, line by line, with the set `to_visit`
   popped in ANY order: `pick` is an arbitrary selection (the iteration order of a Python set of
   strings depends on the hash seed).  Whatever the selection, with the stated fuel the loop ends
   and `reachable` is exactly the set of blocks reachable from the entry: the result does not
   depend on the order.  (Property C12, site `block = to_visit.pop()`.) *)
From Coq Require Import List ZArith Bool Lia.
Import ListNotations.
From V Require Import Valid.Hier Model.Graph.
Local Open Scope Z_scope.

Section Wl.
Variable succ : name -> option (list name).       (* self[block].jump_targets; None = KeyError *)
(* set.pop(): some element of the set and the set without it *)
Variable pick : list name -> option (name * list name).
Hypothesis pick_some : forall l, l <> [] -> exists x l', pick l = Some (x, l').
Hypothesis pick_spec : forall l x l', pick l = Some (x, l') ->
  In x l /\ (forall y, In y l' <-> In y l /\ y <> x) /\ NoDup l'.

Definition union (a b : list name) : list name := zunion a b.

Inductive pres := POk (reachable : list name) | PKey | PFuel.

Fixpoint wl (fuel : nat) (to_visit reachable : list name) : pres :=
  match fuel with
  | 0%nat => PFuel
  | S f =>
    match pick to_visit with
    | None => POk reachable
    | Some (b, rest) =>
      if zmem b reachable then wl f rest reachable
      else match succ b with
           | Some jt => wl f (union rest jt) (b :: reachable)
           | None => PKey
           end
    end
  end.

Definition sx (x : name) : list name := match succ x with Some l => l | None => [] end.

Variable start : name.
Variable U : list name.       (* every name that can turn up *)
Hypothesis HU_start : In start U.
Hypothesis HU_closed : forall x l y, In x U -> succ x = Some l -> In y l -> In y U.
Hypothesis Hdefined : forall x, In x U -> succ x <> None.

Record Inv (tv rs : list name) : Prop := {
  i_ndr : NoDup rs; i_ndt : NoDup tv;
  i_u : forall x, In x (tv ++ rs) -> In x U;
  i_reach : forall x, In x (tv ++ rs) -> Reach sx start x;
  i_closed : forall x y, In x rs -> In y (sx x) -> In y rs \/ In y tv;
  i_start : In start rs \/ In start tv }.

Lemma nodup_snoc (l : list name) x : NoDup l -> ~ In x l -> NoDup (l ++ [x]).
Proof.
  induction l as [|y r IH]; intros Hn Hx; [repeat constructor; intros []|]. cbn.
  inversion Hn as [|? ? Hy Hr]; subst. constructor.
  - intros Hi. apply in_app_or in Hi as [Hi|[<-|[]]]; [contradiction|]. apply Hx. left. reflexivity.
  - apply IH; [exact Hr|]. intros Hi. apply Hx. right. exact Hi.
Qed.

Lemma zunion_nodup : forall b a, NoDup a -> NoDup (zunion a b).
Proof.
  unfold zunion. induction b as [|x r IH]; intros a Ha; cbn [fold_left]; [exact Ha|].
  apply IH. unfold zadd. destruct (zmem x a) eqn:E; [exact Ha|].
  apply zmem_false in E. apply nodup_snoc; assumption.
Qed.

Definition mu (tv rs : list name) : nat := (length tv + (length U + 1) * (length U - length rs))%nat.

Theorem wl_correct : forall fuel tv rs,
  Inv tv rs -> (mu tv rs < fuel)%nat ->
  exists R, wl fuel tv rs = POk R /\ forall x, In x R <-> Reach sx start x.
Proof.
  induction fuel as [|f IH]; intros tv rs HI Hmu; [lia|]. cbn [wl].
  destruct (pick tv) as [[b rest]|] eqn:Hp.
  - destruct (pick_spec tv b rest Hp) as [Hb [Hrest Hndrest]].
    assert (Hbu : In b U) by (apply (i_u _ _ HI); apply in_or_app; left; exact Hb).
    assert (Hlen_rest : (S (length rest) <= length tv)%nat).
    { change (S (length rest)) with (length (b :: rest)). apply NoDup_incl_length.
      - constructor; [intros Hi; apply Hrest in Hi; destruct Hi as [_ Hn]; congruence|exact Hndrest].
      - intros y [<-|Hy]; [exact Hb|apply Hrest in Hy; apply Hy]. }
    destruct (zmem b rs) eqn:Hbr.
    + apply zmem_In in Hbr. apply IH.
      * destruct HI. constructor; auto.
        -- intros x Hx. apply i_u0. apply in_app_or in Hx as [Hx|Hx]; apply in_or_app; [left; apply Hrest in Hx; apply Hx|right; exact Hx].
        -- intros x Hx. apply i_reach0. apply in_app_or in Hx as [Hx|Hx]; apply in_or_app; [left; apply Hrest in Hx; apply Hx|right; exact Hx].
        -- intros x y Hx Hy. destruct (i_closed0 x y Hx Hy) as [H|H]; [left; exact H|].
           destruct (Z.eq_dec y b) as [->|Hne]; [left; exact Hbr|right; apply Hrest; auto].
        -- destruct i_start0 as [H|H]; [left; exact H|]. destruct (Z.eq_dec start b) as [->|Hne]; [left; exact Hbr|right; apply Hrest; auto].
      * unfold mu in *. lia.
    + apply zmem_false in Hbr. destruct (succ b) as [jt|] eqn:Hs; [|exfalso; exact (Hdefined b Hbu Hs)].
      assert (Hsx : sx b = jt) by (unfold sx; rewrite Hs; reflexivity).
      assert (Hrb : Reach sx start b) by (apply (i_reach _ _ HI); apply in_or_app; left; exact Hb).
      assert (Hlen_rs : (S (length rs) <= length U)%nat).
      { change (S (length rs)) with (length (b :: rs)). apply NoDup_incl_length.
        - constructor; [exact Hbr|apply (i_ndr _ _ HI)].
        - intros y [<-|Hy]; [exact Hbu|apply (i_u _ _ HI); apply in_or_app; right; exact Hy]. }
      assert (Hnd' : NoDup (union rest jt)) by (apply zunion_nodup; exact Hndrest).
      assert (Hu' : forall x, In x (union rest jt) -> In x U).
      { intros x Hx. unfold union in Hx. apply (zunion_In sx) in Hx. destruct Hx as [Hx|Hx].
        - apply (i_u _ _ HI). apply in_or_app. left. apply Hrest in Hx. apply Hx.
        - apply (HU_closed b jt x Hbu Hs Hx). }
      assert (Hlen_tv' : (length (union rest jt) <= length U)%nat) by (apply NoDup_incl_length; assumption).
      apply IH.
      * constructor.
        -- constructor; [exact Hbr|apply (i_ndr _ _ HI)].
        -- exact Hnd'.
        -- intros x Hx. apply in_app_or in Hx as [Hx|[<-|Hx]]; [apply Hu'; exact Hx|exact Hbu|].
           apply (i_u _ _ HI). apply in_or_app. right. exact Hx.
        -- intros x Hx. apply in_app_or in Hx as [Hx|[<-|Hx]]; [|exact Hrb|apply (i_reach _ _ HI); apply in_or_app; right; exact Hx].
           unfold union in Hx. apply (zunion_In sx) in Hx. destruct Hx as [Hx|Hx].
           ++ apply (i_reach _ _ HI). apply in_or_app. left. apply Hrest in Hx. apply Hx.
           ++ eapply R_step; [exact Hrb|rewrite Hsx; exact Hx].
        -- intros x y [<-|Hx] Hy.
           ++ right. apply (zunion_In sx). right. rewrite Hsx in Hy. exact Hy.
           ++ destruct (i_closed _ _ HI x y Hx Hy) as [H|H]; [left; right; exact H|].
              destruct (Z.eq_dec y b) as [->|Hne]; [left; left; reflexivity|right; apply (zunion_In sx); left; apply Hrest; auto].
        -- destruct (i_start _ _ HI) as [H|H]; [left; right; exact H|].
           destruct (Z.eq_dec start b) as [->|Hne]; [left; left; reflexivity|right; apply (zunion_In sx); left; apply Hrest; auto].
      * unfold mu in *. cbn [length]. nia.
  - assert (Htv : tv = []).
    { destruct tv as [|x r]; [reflexivity|]. destruct (pick_some (x :: r)) as [y [l' E]]; [discriminate|]. congruence. }
    subst tv. exists rs. split; [reflexivity|]. intros x. split.
    + intros Hx. apply (i_reach _ _ HI). exact Hx.
    + intros Hr. assert (Hs0 : In start rs) by (destruct (i_start _ _ HI) as [H|[]]; exact H).
      assert (Hall : forall s y, Reach sx s y -> In s rs -> In y rs).
      { intros s y R0. induction R0 as [s|s y z _ IHr Hz]; intros Hs1; [exact Hs1|].
        destruct (i_closed _ _ HI y z (IHr Hs1) Hz) as [H|[]]. exact H. }
      exact (Hall start x Hr Hs0).
Qed.

(* from the entry: to_visit = {start}, reachable = {} *)
Theorem prune_reachable_correct fuel :
  ((length U + 1) * (length U + 1) < fuel)%nat ->
  exists R, wl fuel [start] [] = POk R /\ forall x, In x R <-> Reach sx start x.
Proof.
  intros Hf. apply wl_correct.
  - constructor.
    + constructor.
    + repeat constructor. intros [].
    + intros x [<-|[]]. exact HU_start.
    + intros x [<-|[]]. constructor.
    + intros x y [].
    + right. left. reflexivity.
  - unfold mu. cbn [length]. nia.
Qed.
End Wl.

(* the set of reachable blocks does not depend on how the set to_visit is popped *)
Theorem prune_reachable_order_free succ pick1 pick2 start U fuel1 fuel2 :
  (forall l, l <> [] -> exists x l', pick1 l = Some (x, l')) ->
  (forall l x l', pick1 l = Some (x, l') -> In x l /\ (forall y, In y l' <-> In y l /\ y <> x) /\ NoDup l') ->
  (forall l, l <> [] -> exists x l', pick2 l = Some (x, l')) ->
  (forall l x l', pick2 l = Some (x, l') -> In x l /\ (forall y, In y l' <-> In y l /\ y <> x) /\ NoDup l') ->
  In start U ->
  (forall x l y, In x U -> succ x = Some l -> In y l -> In y U) ->
  (forall x, In x U -> succ x <> None) ->
  ((length U + 1) * (length U + 1) < fuel1)%nat -> ((length U + 1) * (length U + 1) < fuel2)%nat ->
  exists R1 R2, wl succ pick1 fuel1 [start] [] = POk R1 /\ wl succ pick2 fuel2 [start] [] = POk R2 /\
    forall x, In x R1 <-> In x R2.
Proof.
  intros A1 B1 A2 B2 Hs Hc Hd F1 F2.
  destruct (prune_reachable_correct succ pick1 A1 B1 start U Hs Hc Hd fuel1 F1) as [R1 [E1 C1]].
  destruct (prune_reachable_correct succ pick2 A2 B2 start U Hs Hc Hd fuel2 F2) as [R2 [E2 C2]].
  exists R1, R2. split; [exact E1|]. split; [exact E2|]. intros x. rewrite C1, C2. tauto.
Qed.

(* IterHier.v — the two iterators of SCFG on an exported hierarchy:
   ConcealedRegionView.region_view_iterator (per graph) and SCFG.__iter__
   (whole hierarchy), as instances of Iter.bfs; correspondence driver for C16. *)
From Coq Require Import List ZArith Bool Lia Permutation.
Import ListNotations.
From V Require Import Valid.Hier Valid.FlatRegion Model.Graph Model.Iter.
Local Open Scope Z_scope.

Definition children_of (h : hier) (p : name) : list name :=
  match find h p with
  | Some n => match n_kind n with KRegion _ _ _ ch _ _ => ch | _ => [] end
  | None => []
  end.

(* where the region-concealing view continues after x: a region is continued
   at the targets of its exiting block *)
Definition view_succs (h : hier) (x : name) : list name :=
  match find h x with
  | Some n =>
    match n_kind n with
    | KRegion _ _ ex _ _ _ => match find h ex with Some e => jump_targets e | None => [] end
    | _ => jump_targets n
    end
  | None => []
  end.

(* where SCFG.__iter__ continues after x: the block's (or region's) own targets *)
Definition iter_succs (h : hier) (x : name) : list name :=
  match find h x with Some n => jump_targets n | None => [] end.

Definition view_of (h : hier) (p : name) : option (list name) :=
  let ch := children_of h p in
  match graph_head h ch with
  | Some hd => view ch (view_succs h) hd
  | None => None
  end.

Fixpoint iter_of (h : hier) (fuel : nat) (p : name) : option (list name) :=
  match fuel with
  | O => None
  | S f =>
    let ch := children_of h p in
    match graph_head h ch with
    | None => None
    | Some hd =>
      match view ch (iter_succs h) hd with
      | None => None
      | Some l =>
        fold_right (fun x acc =>
                      match acc with
                      | None => None
                      | Some rest =>
                        match find h x with
                        | Some n => if is_region n
                                    then match iter_of h f x with
                                         | Some sub => Some (x :: sub ++ rest)
                                         | None => None end
                                    else Some (x :: rest)
                        | None => None
                        end
                      end) (Some []) l
      end
    end
  end.

(* every child of p is reachable from the head of p's graph, following succs inside the level *)
Definition connectedb (h : hier) (succs : name -> list name) (p : name) : bool :=
  let ch := children_of h p in
  match graph_head h ch with
  | Some hd =>
    match closure (succs_in ch succs) (S (length ch)) [hd] with
    | Some R => forallb (fun c => zmem c R) ch
    | None => false
    end
  | None => false
  end.

Theorem view_of_spec h p :
  NoDup (children_of h p) -> connectedb h (view_succs h) p = true ->
  exists hd l, graph_head h (children_of h p) = Some hd /\ view_of h p = Some l /\
    Permutation l (children_of h p) /\ hd_error l = Some hd /\
    forall x, In x l -> x = hd \/ Before (view_succs h) l x.
Proof.
  intros Hnd Hc. unfold connectedb, view_of in *.
  destruct (graph_head h (children_of h p)) as [hd|] eqn:Hh; [|discriminate].
  assert (Hin : inlevel (children_of h p) hd = true)
    by (apply zmem_In; eapply graph_head_in; eauto).
  destruct (closure _ _ _) as [R|] eqn:Hcl; [|discriminate].
  rewrite forallb_forall in Hc.
  destruct (view_spec (children_of h p) (view_succs h) hd Hnd Hin)
    as [l [E [Hnd' [Hhd [Hsub [Hall Hbef]]]]]].
  exists hd, l. split; [reflexivity|]. split; [exact E|]. split; [|split; [exact Hhd|exact Hbef]].
  apply NoDup_Permutation; auto. intros x. split; [apply Hsub|]. intros Hx. apply Hall.
  specialize (Hc x Hx). apply zmem_In in Hc.
  apply (closure_spec _ _ _ _ Hcl) in Hc as [y [[<-|[]] Hr]]. exact Hr.
Qed.

(* ---------- SCFG.__iter__ over the whole hierarchy ---------- *)
Fixpoint descendants (h : hier) (fuel : nat) (p : name) : list name :=
  match fuel with
  | O => []
  | S f =>
    flat_map (fun c => c :: match find h c with
                            | Some n => if is_region n then descendants h f c else []
                            | None => [] end) (children_of h p)
  end.

Fixpoint all_connectedb (h : hier) (fuel : nat) (p : name) : bool :=
  match fuel with
  | O => false
  | S f =>
    let ch := children_of h p in
    nodupb ch && connectedb h (iter_succs h) p &&
    forallb (fun c => match find h c with
                      | Some n => if is_region n then all_connectedb h f c else true
                      | None => false end) ch
  end.

Lemma perm_flat_map_pointwise {A B} (f g : A -> list B) (l : list A) :
  (forall x, In x l -> Permutation (f x) (g x)) -> Permutation (flat_map f l) (flat_map g l).
Proof.
  induction l as [|x r IH]; intros H; cbn; [constructor|].
  apply Permutation_app; [apply H; left; reflexivity|apply IH; intros y Hy; apply H; right; exact Hy].
Qed.

Theorem iter_of_spec h : forall fuel p,
  all_connectedb h fuel p = true ->
  exists l, iter_of h fuel p = Some l /\ Permutation l (descendants h fuel p) /\
            hd_error l = graph_head h (children_of h p).
Proof.
  induction fuel as [|f IH]; intros p Hc; [discriminate|]. cbn [all_connectedb] in Hc.
  apply andb_true_iff in Hc as [Hc Hall]. apply andb_true_iff in Hc as [Hnd Hconn].
  apply nodupb_NoDup in Hnd. rewrite forallb_forall in Hall.
  (* the level *)
  unfold connectedb in Hconn.
  destruct (graph_head h (children_of h p)) as [hd|] eqn:Hh; [|discriminate].
  assert (Hin : inlevel (children_of h p) hd = true)
    by (apply zmem_In; eapply graph_head_in; eauto).
  destruct (closure _ _ _) as [R|] eqn:Hcl; [|discriminate].
  rewrite forallb_forall in Hconn.
  destruct (view_spec (children_of h p) (iter_succs h) hd Hnd Hin)
    as [lv [E [Hnd' [Hhd [Hsub [Hallv _]]]]]].
  assert (Hperm : Permutation lv (children_of h p)).
  { apply NoDup_Permutation; auto. intros x. split; [apply Hsub|]. intros Hx. apply Hallv.
    specialize (Hconn x Hx). apply zmem_In in Hconn.
    apply (closure_spec _ _ _ _ Hcl) in Hconn as [y [[<-|[]] Hr]]. exact Hr. }
  cbn [iter_of]. rewrite Hh, E.
  set (expand := fun c => c :: match find h c with
                               | Some n => if is_region n then descendants h f c else []
                               | None => [] end).
  (* the fold computes a list that is, item by item, a permutation of expand *)
  assert (Hfold : forall l, (forall x, In x l -> In x (children_of h p)) ->
     exists r, fold_right (fun x acc =>
                      match acc with
                      | None => None
                      | Some rest =>
                        match find h x with
                        | Some n => if is_region n
                                    then match iter_of h f x with
                                         | Some sub => Some (x :: sub ++ rest)
                                         | None => None end
                                    else Some (x :: rest)
                        | None => None
                        end
                      end) (Some []) l = Some r /\ Permutation r (flat_map expand l) /\
               hd_error r = hd_error l).
  { induction l as [|x l IHl]; intros Hl; cbn [fold_right flat_map].
    - exists []. split; [reflexivity|]. split; [constructor|reflexivity].
    - destruct (IHl (fun y Hy => Hl y (or_intror Hy))) as [r [Er [Pr _]]]. rewrite Er.
      specialize (Hall x (Hl x (or_introl eq_refl))). unfold expand at 1.
      destruct (find h x) as [n|]; [|discriminate].
      destruct (is_region n).
      + destruct (IH x Hall) as [sub [Es [Ps _]]]. rewrite Es.
        exists (x :: sub ++ r). split; [reflexivity|]. split; [|reflexivity].
        cbn [app]. constructor. apply Permutation_app; assumption.
      + exists (x :: r). split; [reflexivity|]. split; [|reflexivity].
        cbn [app]. constructor. exact Pr. }
  destruct (Hfold lv Hsub) as [r [Er [Pr Hr]]].
  exists r. split; [exact Er|]. split; [|rewrite Hr; exact Hhd].
  cbn [descendants]. fold expand.
  eapply Permutation_trans; [exact Pr|]. apply Permutation_flat_map. exact Hperm.
Qed.

(* ---------- correspondence driver ----------
   rows: the hierarchy (tags 2..6 as in Hier.v), then
     60 region N names..   list(region.subregion.concealed_region_view)  (region = top for the SCFG itself)
     61 N names..          [name for name, _ in scfg]
   answers: per 60/61 row: 1 agree / 0 disagree; then, per 60 row, connectivity flag is folded in:
   2 = agree and the level is connected (so view_of_spec applies), 1 = agree but not connected *)
Definition b2z (b : bool) : Z := if b then 1 else 0.

Fixpoint split_c16 (rows : list (list Z)) : list (list Z) * list (list Z) :=
  match rows with
  | [] => ([], [])
  | row :: rest =>
    let '(hr, qs) := split_c16 rest in
    match row with
    | 60 :: _ => (hr, row :: qs)
    | 61 :: _ => (hr, row :: qs)
    | _ => (row :: hr, qs)
    end
  end.

Definition run_c16 (rows : list (list Z)) : list Z :=
  let '(hr, qs) := split_c16 rows in
  match decode hr with
  | None => [0]
  | Some (_, h) =>
    match top_region h with
    | None => [0]
    | Some top =>
      map (fun q =>
             match q with
             | 60 :: p :: r =>
               match take_list r with
               | Some (l, []) =>
                 match view_of h p with
                 | Some l' => if list_eqb l l'
                              then (if nodupb (children_of h p) && connectedb h (view_succs h) p then 2 else 1)
                              else 0
                 | None => 0
                 end
               | _ => 0 end
             | 61 :: r =>
               match take_list r with
               | Some (l, []) =>
                 match iter_of h (S (length h)) (n_name top) with
                 | Some l' => if list_eqb l l'
                              then (if all_connectedb h (S (length h)) (n_name top) then 2 else 1)
                              else 0
                 | None => 0
                 end
               | _ => 0 end
             | _ => 0
             end) qs
    end
  end.


(* LoopHierPath.v — the loop rotation at ANY level of a hierarchy keeps every flat walk.
   Route: the flat walk of a hierarchy is the walk of its resolved leaf graph
   (Flatten.v); the rotation of the level's dictionary, pushed through the
   resolution of region names, is the rotation of the resolved leaf graph
   (LoopRename.v); the rotation of a flat graph keeps every walk (LoopPath.v). *)
From Coq Require Import List ZArith Bool Lia.
Import ListNotations.
From V Require Import Valid.Hier Valid.Walk Valid.FlatRegion Model.Graph Model.Edits Model.Edits2 Model.Edits3
     Model.JoinPath Model.Refine Model.CbPath Model.ExtractPath Model.LoopEdit Model.LoopSpec Model.LoopPath
     Model.Extract Model.CbHier Model.LoopHier Model.Flatten Model.LoopRename.
Local Open Scope Z_scope.

(* ---------- what write_back does to a lookup ---------- *)
Definition node_back (h : hier) (lvl x : name) (b : eblk) : node :=
  match find h x with
  | Some n => mkNode x (n_parent n) (e_jt b) (e_be b) (kind_back (n_kind n) (e_kind b))
  | None => mkNode x lvl (e_jt b) (e_be b) (kind_new (e_kind b))
  end.

Lemma find_write_nodes lvl : forall g h x, NoDup (ekeys g) ->
  find (write_nodes h lvl g) x =
  match efind g x with Some b => Some (node_back h lvl x b) | None => find h x end.
Proof.
  induction g as [|[y b] r IH]; intros h x Hnd; [reflexivity|]. cbn [write_nodes].
  cbn [ekeys map fst] in Hnd. apply NoDup_cons_iff in Hnd as [Hny Hnd'].
  rewrite IH by exact Hnd'. unfold efind. cbn [zassoc].
  assert (Hy : zassoc y r = None).
  { destruct (zassoc y r) eqn:E; [|reflexivity]. exfalso. apply Hny. apply zassoc_In in E.
    unfold ekeys. apply in_map_iff. exists (y, e). auto. }
  destruct (Z.eqb_spec x y) as [->|Hne].
  - fold (efind r y). unfold efind. rewrite Hy.
    unfold node_back. destruct (find h y) as [n|] eqn:Ey.
    + rewrite find_hset by (cbn [n_name]; rewrite Ey; discriminate). cbn [n_name]. rewrite Z.eqb_refl. reflexivity.
    + rewrite find_app_none, Ey. cbn [find n_name]. rewrite Z.eqb_refl. reflexivity.
  - fold (efind r x). destruct (efind r x) as [b'|] eqn:Er.
    + f_equal. unfold node_back. destruct (find h y) as [n|] eqn:Ey.
      * rewrite find_hset by (cbn [n_name]; rewrite Ey; discriminate). cbn [n_name].
        destruct (Z.eqb_spec x y); [contradiction|reflexivity].
      * rewrite find_app_none. destruct (find h x); [reflexivity|]. cbn [find n_name].
        destruct (Z.eqb_spec y x); [congruence|reflexivity].
    + destruct (find h y) as [n|] eqn:Ey.
      * rewrite find_hset by (cbn [n_name]; rewrite Ey; discriminate). cbn [n_name].
        destruct (Z.eqb_spec x y); [contradiction|reflexivity].
      * rewrite find_app_none. destruct (find h x); [reflexivity|]. cbn [find n_name].
        destruct (Z.eqb_spec y x); [congruence|reflexivity].
Qed.

Lemma find_write_back h lvl g x nl : NoDup (ekeys g) -> find h lvl = Some nl -> efind g lvl = None -> x <> lvl ->
  find (write_back h lvl g) x =
  match efind g x with Some b => Some (node_back h lvl x b) | None => find h x end.
Proof.
  intros Hnd Hl Hgl Hx. unfold write_back.
  assert (E : find (write_nodes h lvl g) lvl = Some nl) by (rewrite find_write_nodes, Hgl by exact Hnd; exact Hl).
  rewrite E. rewrite find_hset.
  - assert (Hn : n_name (with_children nl (fun _ => ekeys g)) = lvl).
    { unfold with_children. destruct (n_kind nl); cbn; apply (find_name _ _ _ Hl). }
    rewrite Hn. destruct (Z.eqb_spec x lvl); [contradiction|]. apply find_write_nodes. exact Hnd.
  - assert (Hn : n_name (with_children nl (fun _ => ekeys g)) = lvl).
    { unfold with_children. destruct (n_kind nl); cbn; apply (find_name _ _ _ Hl). }
    rewrite Hn, E. discriminate.
Qed.

Lemma find_write_back_lvl h lvl g nl : NoDup (ekeys g) -> find h lvl = Some nl -> efind g lvl = None ->
  find (write_back h lvl g) lvl = Some (with_children nl (fun _ => ekeys g)).
Proof.
  intros Hnd Hl Hgl. unfold write_back.
  assert (E : find (write_nodes h lvl g) lvl = Some nl) by (rewrite find_write_nodes, Hgl by exact Hnd; exact Hl).
  rewrite E. rewrite find_hset.
  - assert (Hn : n_name (with_children nl (fun _ => ekeys g)) = lvl).
    { unfold with_children. destruct (n_kind nl); cbn; apply (find_name _ _ _ Hl). }
    rewrite Hn, Z.eqb_refl. reflexivity.
  - assert (Hn : n_name (with_children nl (fun _ => ekeys g)) = lvl).
    { unfold with_children. destruct (n_kind nl); cbn; apply (find_name _ _ _ Hl). }
    rewrite Hn, E. discriminate.
Qed.

(* the level's dictionary *)
Lemma efind_collect h : forall ch g x, collect h ch = Some g ->
  efind g x = if zmem x ch then option_map eblk_of (find h x) else None.
Proof.
  induction ch as [|c r IH]; intros g x H; cbn [collect] in H.
  - injection H as <-. reflexivity.
  - destruct (find h c) as [n|] eqn:Ec; [|discriminate]. destruct (collect h r) as [g0|] eqn:Eg; [|discriminate].
    injection H as <-. unfold efind. cbn [zassoc]. unfold zmem. cbn [existsb].
    destruct (Z.eqb_spec x c) as [->|Hne]; [rewrite Ec; reflexivity|]. cbn [orb]. apply (IH g0 x eq_refl).
Qed.

Lemma ekeys_collect h : forall ch g, collect h ch = Some g -> ekeys g = ch.
Proof.
  induction ch as [|c r IH]; intros g H; cbn [collect] in H.
  - injection H as <-. reflexivity.
  - destruct (find h c) as [n|]; [|discriminate]. destruct (collect h r) as [g0|] eqn:Eg; [|discriminate].
    injection H as <-. unfold ekeys in *. cbn [map fst]. rewrite (IH g0 eq_refl). reflexivity.
Qed.

Lemma write_nodes_length lvl : forall g h, (length h <= length (write_nodes h lvl g))%nat.
Proof.
  induction g as [|[y b] r IH]; intros h; [cbn; lia|]. cbn [write_nodes].
  destruct (find h y) as [n|].
  - eapply Nat.le_trans; [|apply IH]. rewrite hset_length. lia.
  - eapply Nat.le_trans; [|apply IH]. rewrite app_length. cbn. lia.
Qed.

Lemma write_back_length h lvl g : (length h <= length (write_back h lvl g))%nat.
Proof.
  unfold write_back. destruct (find (write_nodes h lvl g) lvl); [rewrite hset_length|]; apply write_nodes_length.
Qed.

Lemma mapb_eblk_of h n : mapb (rho h) (eblk_of n) = rl h n.
Proof. unfold mapb, eblk_of, rl, map_snd. cbn. destruct (n_kind n); reflexivity. Qed.

Lemma kind_back_same k : kind_back k (ekind_of k) = k.
Proof. destruct k; reflexivity. Qed.

Lemma node_eta n : mkNode (n_name n) (n_parent n) (n_jt n) (n_be n) (n_kind n) = n.
Proof. destruct n; reflexivity. Qed.

Definition tbl_targets (k : ekind) : list name :=
  match k with EBranch _ _ t => map snd t | _ => [] end.
Definition blk_targets (b : eblk) : list name := e_jt b ++ e_be b ++ tbl_targets (e_kind b).
Definition node_targets (n : node) : list name :=
  n_jt n ++ n_be n ++ match n_kind n with KBranch _ _ t => map snd t | _ => [] end.

Lemma map_ext_in' {A B} (f g : A -> B) l : (forall x, In x l -> f x = g x) -> map f l = map g l.
Proof. apply map_ext_in. Qed.

Section RotH.
Variables (h : hier) (lvl : name) (nl : node) (todo names : list name) (latch sexit : name)
          (g1 g1' G' : egraph).
Let h' := write_back h lvl g1'.
Let K := fun x => In x todo \/ In x names \/ x = latch \/ x = sexit.
Let rh := rho h.

Hypothesis Hl : find h lvl = Some nl.
Hypothesis Hlr : is_region nl = true.
Hypothesis HLG : collect h (children_h nl) = Some g1.
Hypothesis Hnd_h : NoDup (Hier.names h).
Hypothesis Hkeys' : NoDup (ekeys g1').
Hypothesis Hlvl' : efind g1' lvl = None.
Hypothesis Hfresh : forall x, (In x names \/ x = latch \/ x = sexit) -> find h x = None.
Hypothesis Htodo_h : forall p, In p todo -> exists n, find h p = Some n /\ is_region n = false /\
  zmem p (children_h nl) = true.
Hypothesis Hstay : forall p, In p todo -> efind g1' p <> None.
Hypothesis Hkind : forall p b b', In p todo -> efind g1 p = Some b -> efind g1' p = Some b' ->
  match e_kind b' with EBranch _ _ _ => True | k => k = e_kind b end.
(* what the renaming lemma gives *)
Hypothesis HK_rel : forall x, K x -> efind G' x = option_map (mapb rh) (efind g1' x).
Hypothesis HF1 : forall x, ~ K x -> efind g1' x = efind g1 x.
Hypothesis HF2 : forall x, ~ K x -> efind G' x = efind (RL h) x.
(* every successor, declared back edge and table target of a block of h resolves; the targets of the blocks
   the rotation wrote resolve in h or are new *)
Hypothesis Hres_h : forall x n t, find h x = Some n -> is_region n = false -> In t (node_targets n) ->
  enter_flat h (S (length h)) t <> None.
Hypothesis Hres_new : forall x b t, K x -> efind g1' x = Some b -> In t (blk_targets b) ->
  enter_flat h (S (length h)) t <> None \/ find h t = None.
(* a new name is not given a class reserved for regions; regions are not rewritten *)

Lemma efind_g1 x : efind g1 x = if zmem x (children_h nl) then option_map eblk_of (find h x) else None.
Proof. apply (efind_collect h _ _ _ HLG). Qed.

Lemma lvl_not_K : ~ K lvl.
Proof.
  intros [H|H].
  - destruct (Htodo_h lvl H) as [n [Hn [Hr _]]]. rewrite Hl in Hn. injection Hn as <-. congruence.
  - pose proof (Hfresh lvl H) as E. rewrite Hl in E. discriminate.
Qed.

Lemma K_dec x : {K x} + {~ K x}.
Proof.
  unfold K. destruct (in_dec Z.eq_dec x todo); [left; auto|]. destruct (in_dec Z.eq_dec x names); [left; auto|].
  destruct (Z.eq_dec x latch); [left; auto|]. destruct (Z.eq_dec x sexit); [left; auto|]. right. tauto.
Qed.

Lemma find_h' x : x <> lvl ->
  find h' x = match efind g1' x with Some b => Some (node_back h lvl x b) | None => find h x end.
Proof. intros Hx. unfold h'. apply (find_write_back h lvl g1' x nl Hkeys' Hl Hlvl' Hx). Qed.

(* an old node keeps its place in the nesting: same region-ness, a region its header *)
Lemma old_stays x n : find h x = Some n -> exists n', find h' x = Some n' /\
  match n_kind n with
  | KRegion rk hd0 ex ch pd ok => exists ch', n_kind n' = KRegion rk hd0 ex ch' pd ok
  | _ => is_region n' = false
  end.
Proof.
  intros Hn. destruct (Z.eq_dec x lvl) as [->|Hx].
  - rewrite Hl in Hn. injection Hn as <-. unfold h'. rewrite (find_write_back_lvl h lvl g1' nl Hkeys' Hl Hlvl').
    eexists. split; [reflexivity|]. unfold with_children. unfold is_region in Hlr.
    destruct (n_kind nl) eqn:Ek; try discriminate. cbn. eauto.
  - rewrite (find_h' x Hx). destruct (efind g1' x) as [b|] eqn:Eb.
    + eexists. split; [reflexivity|]. unfold node_back. rewrite Hn. cbn [n_kind].
      destruct (K_dec x) as [Kx|NKx].
      * (* a processed block: no region *)
        assert (Ht : In x todo).
        { destruct Kx as [H|H]; [exact H|]. rewrite (Hfresh x H) in Hn. discriminate. }
        destruct (Htodo_h x Ht) as [n0 [Hn0 [Hr0 Hz]]]. rewrite Hn in Hn0. injection Hn0 as <-.
        unfold is_region in Hr0. destruct (n_kind n) eqn:Ek; try discriminate;
          destruct (e_kind b); reflexivity.
      * rewrite (HF1 x NKx), efind_g1 in Eb. destruct (zmem x (children_h nl)); [|discriminate].
        rewrite Hn in Eb. injection Eb as <-. cbn [eblk_of e_kind]. rewrite kind_back_same.
        destruct (n_kind n) eqn:Ek; try reflexivity. eauto.
    + exists n. split; [exact Hn|]. destruct (n_kind n) eqn:Ek; try (unfold is_region; rewrite Ek; reflexivity). eauto.
Qed.

Lemma enter_stable : forall f t c, enter_flat h f t = Some c -> enter_flat h' f t = Some c.
Proof.
  induction f as [|f IH]; intros t c H; [discriminate|]. cbn [enter_flat] in *.
  destruct (find h t) as [n|] eqn:Hn; [|discriminate].
  destruct (old_stays t n Hn) as [n' [Hn' Hk]]. rewrite Hn'.
  destruct (n_kind n) as [p|c0|a|c0 v tbl|rk hd0 ex ch pd ok] eqn:Ek.
  - unfold is_region in Hk. destruct (n_kind n'); try exact H; discriminate.
  - unfold is_region in Hk. destruct (n_kind n'); try exact H; discriminate.
  - unfold is_region in Hk. destruct (n_kind n'); try exact H; discriminate.
  - unfold is_region in Hk. destruct (n_kind n'); try exact H; discriminate.
  - destruct Hk as [ch' Hk]. rewrite Hk. apply IH. exact H.
Qed.

Lemma rho_stable t : enter_flat h (S (length h)) t <> None \/ find h t = None -> rho h' t = rho h t.
Proof.
  intros [H|H].
  - destruct (enter_flat h (S (length h)) t) as [c|] eqn:E; [|congruence].
    unfold rho. rewrite E.
    pose proof (enter_stable _ _ _ E) as E'.
    pose proof (write_back_length h lvl g1') as Hlen. fold h' in Hlen.
    replace (S (length h')) with (S (length h) + (length h' - length h))%nat by lia.
    rewrite (enter_flat_mono h' _ _ _ _ E'). reflexivity.
  - unfold rho. assert (E : enter_flat h (S (length h)) t = None) by (cbn [enter_flat]; rewrite H; reflexivity).
    rewrite E. assert (Ht : t <> lvl) by (intros ->; rewrite Hl in H; discriminate).
    cbn [enter_flat]. rewrite (find_h' t Ht), H.
    destruct (efind g1' t) as [b|] eqn:Eb; [|reflexivity].
    unfold node_back. rewrite H. cbn [n_kind]. destruct (e_kind b); reflexivity.
Qed.

Lemma rl_stable n : (forall t, In t (node_targets n) -> enter_flat h (S (length h)) t <> None \/ find h t = None) ->
  rl h' n = rl h n.
Proof.
  intros Ht. unfold rl. f_equal.
  - apply map_ext_in. intros t Hi. apply rho_stable. apply Ht. unfold node_targets. apply in_or_app. left. exact Hi.
  - apply map_ext_in. intros t Hi. apply rho_stable. apply Ht. unfold node_targets. apply in_or_app. right. apply in_or_app. left. exact Hi.
  - destruct (n_kind n) as [| | |c0 v tbl|] eqn:Ek; try reflexivity. f_equal.
    apply map_ext_in. intros p Hp. f_equal. apply rho_stable. apply Ht. unfold node_targets. rewrite Ek.
    apply in_or_app. right. apply in_or_app. right. apply in_map. exact Hp.
Qed.

(* ---------- the resolved leaf graph of the result is the rotation of the resolved leaf graph ---------- *)
Lemma NoDup_names_h' : NoDup (Hier.names h') -> forall x, efind (RL h') x =
  match find h' x with Some n => if is_region n then None else Some (rl h' n) | None => None end.
Proof. intros Hnd x. apply efind_RL_gen. exact Hnd. Qed.

Theorem link : NoDup (Hier.names h') -> forall x, efind (RL h') x = efind G' x.
Proof.
  intros Hnd' x. rewrite (NoDup_names_h' Hnd').
  destruct (Z.eq_dec x lvl) as [->|Hx].
  - unfold h'. rewrite (find_write_back_lvl h lvl g1' nl Hkeys' Hl Hlvl').
    assert (is_region (with_children nl (fun _ => ekeys g1')) = true) as ->.
    { unfold with_children, is_region in *. destruct (n_kind nl); try discriminate. reflexivity. }
    rewrite (HF2 lvl lvl_not_K). unfold RL. rewrite (efind_RL_gen h h lvl Hnd_h), Hl, Hlr. reflexivity.
  - rewrite (find_h' x Hx). destruct (K_dec x) as [Kx|NKx].
    + rewrite (HK_rel x Kx). destruct (efind g1' x) as [b|] eqn:Eb; cbn [option_map].
      * (* a block the rotation wrote *)
        assert (Hrl : forall n', n_jt n' = e_jt b -> n_be n' = e_be b ->
                   (match n_kind n' with KBranch c v t => EBranch c v (map (fun p => (fst p, rho h' (snd p))) t) | k => ekind_of k end =
                    match e_kind b with EBranch c v t => EBranch c v (map_snd rh t) | k => k end) ->
                   rl h' n' = mapb rh b).
        { intros n' Hj Hbe Hk. unfold rl, mapb. rewrite Hj, Hbe, Hk. f_equal.
          - apply map_ext_in. intros t Hi. apply rho_stable. apply (Hres_new x b t Kx Eb). unfold blk_targets. apply in_or_app. left. exact Hi.
          - apply map_ext_in. intros t Hi. apply rho_stable. apply (Hres_new x b t Kx Eb). unfold blk_targets. apply in_or_app. right. apply in_or_app. left. exact Hi. }
        assert (Htbl : forall c v t, e_kind b = EBranch c v t ->
                       map (fun p => (fst p, rho h' (snd p))) t = map_snd rh t).
        { intros c v t Ek. unfold map_snd. apply map_ext_in. intros p Hp. f_equal. apply rho_stable.
          apply (Hres_new x b (snd p) Kx Eb). unfold blk_targets, tbl_targets. rewrite Ek.
          apply in_or_app. right. apply in_or_app. right. apply in_map. exact Hp. }
        unfold node_back. destruct (find h x) as [n|] eqn:Hn.
        -- assert (Ht : In x todo).
           { destruct Kx as [H|H]; [exact H|]. rewrite (Hfresh x H) in Hn. discriminate. }
           destruct (Htodo_h x Ht) as [n0 [Hn0 [Hr0 Hz]]]. rewrite Hn in Hn0. injection Hn0 as <-.
           assert (Eg1 : efind g1 x = Some (eblk_of n)) by (rewrite efind_g1, Hz, Hn; reflexivity).
           pose proof (Hkind x _ _ Ht Eg1 Eb) as Hkd.
           assert (Hleaf : is_region (mkNode x (n_parent n) (e_jt b) (e_be b) (kind_back (n_kind n) (e_kind b))) = false).
           { unfold is_region in *. cbn [n_kind]. destruct (e_kind b); cbn; [|reflexivity|reflexivity]. exact Hr0. }
           rewrite Hleaf. f_equal. apply Hrl; [reflexivity|reflexivity|]. cbn [n_kind].
           destruct (e_kind b) as [c0|a|c0 v t] eqn:Ek; cbn [kind_back].
           ++ cbn [eblk_of e_kind] in Hkd. destruct (n_kind n) eqn:Ekn; cbn in Hkd |- *; congruence.
           ++ reflexivity.
           ++ rewrite (Htbl c0 v t eq_refl). reflexivity.
        -- assert (Hleaf : is_region (mkNode x lvl (e_jt b) (e_be b) (kind_new (e_kind b))) = false).
           { unfold is_region. cbn [n_kind]. destruct (e_kind b); reflexivity. }
           rewrite Hleaf. f_equal. apply Hrl; [reflexivity|reflexivity|]. cbn [n_kind].
           destruct (e_kind b) as [c0|a|c0 v t] eqn:Ek; cbn [kind_new ekind_of]; try reflexivity.
           rewrite (Htbl c0 v t eq_refl). reflexivity.
      * destruct (find h x) as [n|] eqn:Hn; [|reflexivity].
        exfalso. destruct Kx as [H|H]; [exact (Hstay x H Eb)|]. rewrite (Hfresh x H) in Hn. discriminate.
    + rewrite (HF2 x NKx), (HF1 x NKx). unfold RL at 1. rewrite (efind_RL_gen h h x Hnd_h).
      rewrite efind_g1. destruct (zmem x (children_h nl)) eqn:Hz.
      * destruct (find h x) as [n|] eqn:Hn; cbn [option_map]; [|reflexivity].
        assert (Hnode : node_back h lvl x (eblk_of n) = n).
        { unfold node_back. rewrite Hn. cbn [eblk_of e_jt e_be e_kind]. rewrite kind_back_same.
          rewrite <- (find_name _ _ _ Hn). apply node_eta. }
        rewrite Hnode. destruct (is_region n) eqn:Hr; [reflexivity|]. f_equal. apply rl_stable.
        intros t Ht. left. apply (Hres_h x n t Hn Hr Ht).
      * destruct (find h x) as [n|] eqn:Hn; [|reflexivity].
        destruct (is_region n) eqn:Hr; [reflexivity|]. f_equal. apply rl_stable.
        intros t Ht. left. apply (Hres_h x n t Hn Hr Ht).
Qed.
End RotH.

(* ---------- facts about the resolved leaf graph ---------- *)
Lemma ekeys_RL_gen h0 h x :
  In x (map fst (flat_map (fun n => if is_region n then [] else [(n_name n, rl h0 n)]) h)) -> In x (Hier.names h).
Proof.
  induction h as [|n r IH]; cbn [flat_map map]; [tauto|].
  destruct (is_region n); cbn [app map fst]; [intros H; right; apply IH; exact H|].
  intros [<-|H]; [left; reflexivity|right; apply IH; exact H].
Qed.

Lemma ekeys_RL h x : In x (ekeys (RL h)) -> In x (Hier.names h).
Proof. apply ekeys_RL_gen. Qed.

Lemma RL_closed h : NoDup (Hier.names h) ->
  (forall x n t, find h x = Some n -> is_region n = false -> In t (n_jt n) -> enter_flat h (S (length h)) t <> None) ->
  forall x b t, efind (RL h) x = Some b -> In t (e_jt b) -> efind (RL h) t <> None.
Proof.
  intros Hnd Hres x b t Hb Ht. unfold RL in *. rewrite (efind_RL_gen h h x Hnd) in Hb.
  destruct (find h x) as [n|] eqn:Hn; [|discriminate]. destruct (is_region n) eqn:Hr; [discriminate|].
  injection Hb as <-. cbn [rl e_jt] in Ht. apply in_map_iff in Ht as [t0 [<- Ht0]].
  destruct (enter_flat h (S (length h)) t0) as [c|] eqn:E; [|exfalso; exact (Hres x n t0 Hn Hr Ht0 E)].
  unfold rho. rewrite E. destruct (enter_flat_result h _ _ _ E) as [nc [Hc Hlc]].
  rewrite (efind_RL_gen h h c Hnd), Hc, Hlc. discriminate.
Qed.

Lemma efind_RL' h x : NoDup (Hier.names h) -> efind (RL h) x =
  match find h x with Some n => if is_region n then None else Some (rl h n) | None => None end.
Proof. intros H. unfold RL. apply efind_RL_gen. exact H. Qed.

Lemma rho_fresh h t : find h t = None -> rho h t = t.
Proof. intros H. unfold rho. cbn [enter_flat]. rewrite H. reflexivity. Qed.

Lemma rho_leaf h t n : find h t = Some n -> is_region n = false -> rho h t = t.
Proof. intros H Hl. unfold rho. rewrite (enter_flat_leaf h t n _ H Hl). reflexivity. Qed.

(* ---------- the theorem ---------- *)
Section Final.
Variables (h : hier) (lvl top hd : name) (nl : node) (exits todo : list name) (isback : name -> name -> bool)
          (latch sexit : name) (ev bv : Z) (names : list name) (g1 g1' : egraph) (strict : bool).
Let h' := write_back h lvl g1'.
Let rh := rho h.
Let needs : bool := match exits with _ :: _ :: _ => true | _ => false end.
Let dl : list name :=
  exits ++ hd :: latch :: sexit :: names ++
  flat_map (fun p => match efind g1 p with Some b => e_jt b ++ e_be b | None => [] end) todo.

(* the model: the level's dictionary, rotated, written back *)
Hypothesis Hl : find h lvl = Some nl.
Hypothesis Hlr : is_region nl = true.
Hypothesis HLG : collect h (children_h nl) = Some g1.
Hypothesis Hrot1 : loop_rotate g1 hd [hd] exits todo false [] isback latch sexit ev bv names = Ok g1'.
(* both hierarchies: distinct names, top unused, no plain block of the class reserved for original blocks,
   every successor / declared back edge / table target of a block resolves, table targets are successors *)
Hypothesis Hnd_h : NoDup (Hier.names h).
Hypothesis Htop_h : ~ In top (Hier.names h).
Hypothesis Hplain_h : forall n, In n h -> n_kind n <> KPlain 100.
Hypothesis Hres_h : forall x n t, find h x = Some n -> is_region n = false -> In t (node_targets n) ->
  enter_flat h (S (length h)) t <> None.
Hypothesis Htab_h : forall x n c v tbl z t, find h x = Some n -> n_kind n = KBranch c v tbl ->
  zassoc z tbl = Some t -> In t (n_jt n).
Hypothesis Hnd_h' : NoDup (Hier.names h').
Hypothesis Htop_h' : ~ In top (Hier.names h').
Hypothesis Hplain_h' : forall n, In n h' -> n_kind n <> KPlain 100.
Hypothesis Hres_h' : forall x n t, find h' x = Some n -> is_region n = false -> In t (n_jt n) ->
  enter_flat h' (S (length h')) t <> None.
Hypothesis Htab_h' : forall x n c v tbl z t, find h' x = Some n -> n_kind n = KBranch c v tbl ->
  zassoc z tbl = Some t -> In t (n_jt n).
(* the rotated dictionary *)
Hypothesis Hkeys' : NoDup (ekeys g1').
Hypothesis Hlvl' : efind g1' lvl = None.
Hypothesis Hstay : forall p, In p todo -> efind g1' p <> None.
Hypothesis Hkind : forall p b b', In p todo -> efind g1 p = Some b -> efind g1' p = Some b' -> e_kind b' = e_kind b.
Hypothesis Hres_new : forall x b t, (In x todo \/ In x names \/ x = latch \/ x = sexit) -> efind g1' x = Some b ->
  In t (blk_targets b) -> enter_flat h (S (length h)) t <> None \/ find h t = None.
(* the arguments *)
Hypothesis Hfresh : forall x, (In x names \/ x = latch \/ x = sexit) -> find h x = None.
Hypothesis Htodo_h : forall p, In p todo -> exists n, find h p = Some n /\ is_region n = false /\
  zmem p (children_h nl) = true /\ (forall c v t, n_kind n <> KBranch c v t).
Hypothesis Hndt : NoDup todo.
Hypothesis Hndn : NoDup names.
Hypothesis Hnt : forall a, In a names -> ~ In a todo.
Hypothesis Hhd_leaf : exists n, find h hd = Some n /\ is_region n = false.
(* distinct names that matter resolve to distinct blocks *)
Hypothesis Hinj : forall a b, In a dl -> In b dl -> rh a = rh b -> a = b.
(* the hypotheses of the flat theorem, on the resolved leaf graph *)
Hypothesis HG_todo : forall p, In p todo -> exists b, efind (RL h) p = Some b /\ nonbranch b /\ e_be b = [] /\
  NoDup (e_jt b) /\ (forall a, In a names -> ~ In a (e_jt b)).
Hypothesis HG_names : forall a, In a names -> a <> latch /\ a <> sexit /\ a <> top.
Hypothesis HG_latch : latch <> top /\ ~ In latch todo.
Hypothesis HG_sexit : needs = true -> sexit <> latch /\ sexit <> top /\ ~ In sexit todo.
Hypothesis HG_exits : NoDup (map rh exits) /\ (forall x, In x (map rh exits) -> In x (ekeys (RL h))) /\ ~ In hd (map rh exits).
Hypothesis HG_vars : ev <> bv /\ forall x b, efind (RL h) x = Some b ->
  match e_kind b with
  | EAssign a => forall p, In p a -> fst p <> ev /\ fst p <> bv
  | EBranch _ v _ => v <> ev /\ v <> bv
  | EPlain _ => True
  end.

Let K := fun x => In x todo \/ In x names \/ x = latch \/ x = sexit.

Lemma Hres_jt : forall x n t, find h x = Some n -> is_region n = false -> In t (n_jt n) ->
  enter_flat h (S (length h)) t <> None.
Proof. intros x n t Hn Hr Ht. apply (Hres_h x n t Hn Hr). unfold node_targets. apply in_or_app. left. exact Ht. Qed.

Lemma efind_g1' x : efind g1 x = if zmem x (children_h nl) then option_map eblk_of (find h x) else None.
Proof. apply (efind_collect h _ _ _ HLG). Qed.

Lemma efind_G x : efind (RL h) x =
  match find h x with Some n => if is_region n then None else Some (rl h n) | None => None end.
Proof. unfold RL. apply efind_RL_gen. exact Hnd_h. Qed.

Lemma rel_g1_G : Rel rh K g1 (RL h).
Proof.
  intros x [Hx|Hx].
  - destruct (Htodo_h x Hx) as [n [Hn [Hr [Hz _]]]]. rewrite efind_G, efind_g1', Hn, Hr, Hz. cbn [option_map].
    unfold rh. rewrite mapb_eblk_of. reflexivity.
  - rewrite efind_G, efind_g1', (Hfresh x Hx). destruct (zmem x (children_h nl)); reflexivity.
Qed.

Lemma in_dl_todo p b t : In p todo -> efind g1 p = Some b -> In t (e_jt b ++ e_be b) -> In t dl.
Proof.
  intros Hp Hb Ht. unfold dl. apply in_or_app. right. right. right. right. apply in_or_app. right.
  apply in_flat_map. exists p. split; [exact Hp|]. rewrite Hb. exact Ht.
Qed.

Theorem loop_rotate_h_keeps_walks : forall n e e' ds tr st,
  (exists b p, find h n = Some b /\ n_kind b = KOrig p) ->
  E (Fl ev bv) e e' ->
  WTrace h (resolve_flat h) strict n e ds tr st -> WTrace h' (resolve_flat h') strict n e' ds tr st.
Proof.
  intros n e e' ds tr st [bn [pn [Hbn Hkn]]] He W.
  destruct Hhd_leaf as [nhd [Hhd Hhdl]].
  (* the rotation of the resolved leaf graph *)
  destruct (loop_rotate_rho rh (fun x => In x dl) Hinj g1 (RL h) hd [hd] exits todo false [] isback latch sexit ev bv names g1' Hrot1)
    as [G' [EG' [HKrel HF]]].
  - exact rel_g1_G.
  - exact Hndt.
  - exact Hndn.
  - intros x [<-|[]]. split; [apply (rho_leaf h hd nhd Hhd Hhdl)|]. unfold dl. apply in_or_app. right. left. reflexivity.
  - intros x Hx. unfold dl. apply in_or_app. left. exact Hx.
  - apply (rho_leaf h hd nhd Hhd Hhdl).
  - unfold dl. apply in_or_app. right. left. reflexivity.
  - apply rho_fresh. apply Hfresh. right. left. reflexivity.
  - unfold dl. apply in_or_app. right. right. left. reflexivity.
  - apply rho_fresh. apply Hfresh. right. right. reflexivity.
  - unfold dl. apply in_or_app. right. right. right. left. reflexivity.
  - intros p Hp. destruct (Htodo_h p Hp) as [np [Hnp [Hr [Hz Hnb]]]].
    assert (Eg : efind g1 p = Some (eblk_of np)) by (rewrite efind_g1', Hz, Hnp; reflexivity).
    exists (eblk_of np). split; [exact Eg|]. split.
    + unfold nonbranch, eblk_of. cbn. intros cc v t. destruct (n_kind np) eqn:Ek; cbn; try discriminate. exfalso. eapply Hnb; eauto.
    + split; intros y Hy; apply (in_dl_todo p (eblk_of np) y Hp Eg); apply in_or_app; [left|right]; exact Hy.
  - intros a Ha. split; [unfold dl; apply in_or_app; right; right; right; right; apply in_or_app; left; exact Ha|].
    split; [apply rho_fresh; apply Hfresh; left; exact Ha|apply Hnt; exact Ha].
  - (* the chain *)
    assert (Horig' : exists b' p', find h' n = Some b' /\ n_kind b' = KOrig p').
    { assert (Hnl : n <> lvl) by (intros ->; rewrite Hl in Hbn; injection Hbn as <-; unfold is_region in Hlr; rewrite Hkn in Hlr; discriminate).
      unfold h'. rewrite (find_write_back h lvl g1' n nl Hkeys' Hl Hlvl' Hnl).
      destruct (efind g1' n) as [b'|] eqn:Eb; [|eauto].
      eexists. exists pn. split; [reflexivity|]. unfold node_back. rewrite Hbn. cbn [n_kind].
      destruct (in_dec Z.eq_dec n todo) as [Ht|Hnt0].
      - destruct (Htodo_h n Ht) as [n0 [Hn0 [_ [Hz _]]]]. rewrite Hbn in Hn0. injection Hn0 as <-.
        assert (Eg : efind g1 n = Some (eblk_of bn)) by (rewrite efind_g1', Hz, Hbn; reflexivity).
        rewrite (Hkind n _ _ Ht Eg Eb). cbn [eblk_of e_kind]. rewrite Hkn. reflexivity.
      - assert (NK : ~ K n).
        { intros [H|H]; [contradiction|]. rewrite (Hfresh n H) in Hbn. discriminate. }
        destruct (HF n NK) as [A _]. rewrite A, efind_g1' in Eb. destruct (zmem n (children_h nl)); [|discriminate].
        rewrite Hbn in Eb. injection Eb as <-. cbn [eblk_of e_kind]. rewrite Hkn. reflexivity. }
    (* 1: h is its resolved leaf graph *)
    apply (proj1 (flatten_walk h top strict Hnd_h Htop_h Hplain_h Hres_jt Htab_h n e ds tr st (ex_intro _ bn (ex_intro _ pn (conj Hbn Hkn))))) in W.
    (* 2: the rotation of a flat graph keeps the walk *)
    assert (HnG : exists b, efind (RL h) n = Some b /\ e_kind b = EPlain 100).
    { exists (rl h bn). split; [rewrite efind_G, Hbn; unfold is_region; rewrite Hkn; reflexivity|]. unfold rl. cbn. rewrite Hkn. reflexivity. }
    assert (W2 : WTrace (ehier top G') (resolve_flat (ehier top G')) strict n e' ds tr st).
    { eapply (loop_rotate_keeps_walks (RL h) top hd (map rh exits) todo isback latch sexit ev bv names G' strict EG').
      - split; [exact Hndt|exact HG_todo].
      - split; [exact Hndn|]. intros a Ha. destruct (HG_names a Ha) as [A [B C]].
        split; [rewrite efind_G, (Hfresh a (or_introl Ha)); reflexivity|]. split; [apply Hnt; exact Ha|auto].
      - split; [rewrite efind_G, (Hfresh latch (or_intror (or_introl eq_refl))); reflexivity|exact HG_latch].
      - intros Hn. rewrite needs_map in Hn. split; [rewrite efind_G, (Hfresh sexit (or_intror (or_intror eq_refl))); reflexivity|apply HG_sexit; exact Hn].
      - exact HG_exits.
      - eapply efind_keys. rewrite efind_G, Hhd, Hhdl. reflexivity.
      - intros Hi. apply Htop_h. apply ekeys_RL. exact Hi.
      - intros x b t Hb Ht. destruct (efind (RL h) t) as [bt|] eqn:Et; [eapply efind_keys; eauto|].
        exfalso. exact (RL_closed h Hnd_h Hres_jt x b t Hb Ht Et).
      - exact HG_vars.
      - exact HnG.
      - exact He.
      - exact W. }
    (* 3: the rotated leaf graph is the leaf graph of the result *)
    assert (Hlink : forall x, efind (RL h') x = efind G' x).
    { assert (HtodoW : forall p, In p todo -> exists n0, find h p = Some n0 /\ is_region n0 = false /\ zmem p (children_h nl) = true).
      { intros p Hp. destruct (Htodo_h p Hp) as [np [A [B [C _]]]]. eauto. }
      assert (HkindW : forall p b b', In p todo -> efind g1 p = Some b -> efind g1' p = Some b' ->
                 match e_kind b' with EBranch _ _ _ => True | k => k = e_kind b end).
      { intros p b b' Hp Hb Hb'. rewrite (Hkind p b b' Hp Hb Hb'). destruct (e_kind b); reflexivity. }
      intros x. unfold h'.
      exact (link h lvl nl todo names latch sexit g1 g1' G' Hl Hlr HLG Hnd_h Hkeys' Hlvl' Hfresh HtodoW Hstay HkindW
                  HKrel (fun x0 NK => proj1 (HF x0 NK)) (fun x0 NK => proj2 (HF x0 NK)) Hres_h Hres_new Hnd_h' x). }
    assert (W3 : WTrace (ehier top (RL h')) (resolve_flat (ehier top (RL h'))) strict n e' ds tr st).
    { destruct Horig' as [b' [p' [Hb' Hk']]].
      assert (HnG' : exists b, efind (RL h') n = Some b /\ e_kind b = EPlain 100).
      { exists (rl h' b'). split; [rewrite (efind_RL' h' n Hnd_h'), Hb'; unfold is_region; rewrite Hk'; reflexivity|].
        unfold rl. cbn. rewrite Hk'. reflexivity. }
      apply (proj2 (ehier_congr (RL h') G' top strict Hlink
                      (fun Hi => Htop_h' (ekeys_RL h' top Hi))
                      (RL_closed h' Hnd_h' Hres_h') n e' ds tr st HnG')).
      exact W2. }
    (* 4: and that is the walk of the result *)
    exact (proj2 (flatten_walk h' top strict Hnd_h' Htop_h' Hplain_h' Hres_h' Htab_h' n e' ds tr st Horig') W3).
Qed.
Theorem loop_rotate_h_keeps_ctrace : forall n e e' ds,
  (exists b p, find h n = Some b /\ n_kind b = KOrig p) ->
  E (Fl ev bv) e e' ->
  CTrace h (resolve_flat h) strict n e ds -> CTrace h' (resolve_flat h') strict n e' ds.
Proof.
  intros n e e' ds [bn [pn [Hbn Hkn]]] He W.
  destruct Hhd_leaf as [nhd [Hhd Hhdl]].
  (* the rotation of the resolved leaf graph *)
  destruct (loop_rotate_rho rh (fun x => In x dl) Hinj g1 (RL h) hd [hd] exits todo false [] isback latch sexit ev bv names g1' Hrot1)
    as [G' [EG' [HKrel HF]]].
  - exact rel_g1_G.
  - exact Hndt.
  - exact Hndn.
  - intros x [<-|[]]. split; [apply (rho_leaf h hd nhd Hhd Hhdl)|]. unfold dl. apply in_or_app. right. left. reflexivity.
  - intros x Hx. unfold dl. apply in_or_app. left. exact Hx.
  - apply (rho_leaf h hd nhd Hhd Hhdl).
  - unfold dl. apply in_or_app. right. left. reflexivity.
  - apply rho_fresh. apply Hfresh. right. left. reflexivity.
  - unfold dl. apply in_or_app. right. right. left. reflexivity.
  - apply rho_fresh. apply Hfresh. right. right. reflexivity.
  - unfold dl. apply in_or_app. right. right. right. left. reflexivity.
  - intros p Hp. destruct (Htodo_h p Hp) as [np [Hnp [Hr [Hz Hnb]]]].
    assert (Eg : efind g1 p = Some (eblk_of np)) by (rewrite efind_g1', Hz, Hnp; reflexivity).
    exists (eblk_of np). split; [exact Eg|]. split.
    + unfold nonbranch, eblk_of. cbn. intros cc v t. destruct (n_kind np) eqn:Ek; cbn; try discriminate. exfalso. eapply Hnb; eauto.
    + split; intros y Hy; apply (in_dl_todo p (eblk_of np) y Hp Eg); apply in_or_app; [left|right]; exact Hy.
  - intros a Ha. split; [unfold dl; apply in_or_app; right; right; right; right; apply in_or_app; left; exact Ha|].
    split; [apply rho_fresh; apply Hfresh; left; exact Ha|apply Hnt; exact Ha].
  - (* the chain *)
    assert (Horig' : exists b' p', find h' n = Some b' /\ n_kind b' = KOrig p').
    { assert (Hnl : n <> lvl) by (intros ->; rewrite Hl in Hbn; injection Hbn as <-; unfold is_region in Hlr; rewrite Hkn in Hlr; discriminate).
      unfold h'. rewrite (find_write_back h lvl g1' n nl Hkeys' Hl Hlvl' Hnl).
      destruct (efind g1' n) as [b'|] eqn:Eb; [|eauto].
      eexists. exists pn. split; [reflexivity|]. unfold node_back. rewrite Hbn. cbn [n_kind].
      destruct (in_dec Z.eq_dec n todo) as [Ht|Hnt0].
      - destruct (Htodo_h n Ht) as [n0 [Hn0 [_ [Hz _]]]]. rewrite Hbn in Hn0. injection Hn0 as <-.
        assert (Eg : efind g1 n = Some (eblk_of bn)) by (rewrite efind_g1', Hz, Hbn; reflexivity).
        rewrite (Hkind n _ _ Ht Eg Eb). cbn [eblk_of e_kind]. rewrite Hkn. reflexivity.
      - assert (NK : ~ K n).
        { intros [H|H]; [contradiction|]. rewrite (Hfresh n H) in Hbn. discriminate. }
        destruct (HF n NK) as [A _]. rewrite A, efind_g1' in Eb. destruct (zmem n (children_h nl)); [|discriminate].
        rewrite Hbn in Eb. injection Eb as <-. cbn [eblk_of e_kind]. rewrite Hkn. reflexivity. }
    (* 1: h is its resolved leaf graph *)
    apply (proj1 (flatten_ctrace h top strict Hnd_h Htop_h Hplain_h Hres_jt Htab_h n e ds (ex_intro _ bn (ex_intro _ pn (conj Hbn Hkn))))) in W.
    (* 2: the rotation of a flat graph keeps the walk *)
    assert (HnG : exists b, efind (RL h) n = Some b /\ e_kind b = EPlain 100).
    { exists (rl h bn). split; [rewrite efind_G, Hbn; unfold is_region; rewrite Hkn; reflexivity|]. unfold rl. cbn. rewrite Hkn. reflexivity. }
    assert (W2 : CTrace (ehier top G') (resolve_flat (ehier top G')) strict n e' ds).
    { eapply (loop_rotate_keeps_ctrace (RL h) top hd (map rh exits) todo isback latch sexit ev bv names G' strict EG').
      - split; [exact Hndt|exact HG_todo].
      - split; [exact Hndn|]. intros a Ha. destruct (HG_names a Ha) as [A [B C]].
        split; [rewrite efind_G, (Hfresh a (or_introl Ha)); reflexivity|]. split; [apply Hnt; exact Ha|auto].
      - split; [rewrite efind_G, (Hfresh latch (or_intror (or_introl eq_refl))); reflexivity|exact HG_latch].
      - intros Hn. rewrite needs_map in Hn. split; [rewrite efind_G, (Hfresh sexit (or_intror (or_intror eq_refl))); reflexivity|apply HG_sexit; exact Hn].
      - exact HG_exits.
      - eapply efind_keys. rewrite efind_G, Hhd, Hhdl. reflexivity.
      - intros Hi. apply Htop_h. apply ekeys_RL. exact Hi.
      - intros x b t Hb Ht. destruct (efind (RL h) t) as [bt|] eqn:Et; [eapply efind_keys; eauto|].
        exfalso. exact (RL_closed h Hnd_h Hres_jt x b t Hb Ht Et).
      - exact HG_vars.
      - exact HnG.
      - exact He.
      - exact W. }
    (* 3: the rotated leaf graph is the leaf graph of the result *)
    assert (Hlink : forall x, efind (RL h') x = efind G' x).
    { assert (HtodoW : forall p, In p todo -> exists n0, find h p = Some n0 /\ is_region n0 = false /\ zmem p (children_h nl) = true).
      { intros p Hp. destruct (Htodo_h p Hp) as [np [A [B [C _]]]]. eauto. }
      assert (HkindW : forall p b b', In p todo -> efind g1 p = Some b -> efind g1' p = Some b' ->
                 match e_kind b' with EBranch _ _ _ => True | k => k = e_kind b end).
      { intros p b b' Hp Hb Hb'. rewrite (Hkind p b b' Hp Hb Hb'). destruct (e_kind b); reflexivity. }
      intros x. unfold h'.
      exact (link h lvl nl todo names latch sexit g1 g1' G' Hl Hlr HLG Hnd_h Hkeys' Hlvl' Hfresh HtodoW Hstay HkindW
                  HKrel (fun x0 NK => proj1 (HF x0 NK)) (fun x0 NK => proj2 (HF x0 NK)) Hres_h Hres_new Hnd_h' x). }
    assert (W3 : CTrace (ehier top (RL h')) (resolve_flat (ehier top (RL h'))) strict n e' ds).
    { destruct Horig' as [b' [p' [Hb' Hk']]].
      assert (HnG' : exists b, efind (RL h') n = Some b /\ e_kind b = EPlain 100).
      { exists (rl h' b'). split; [rewrite (efind_RL' h' n Hnd_h'), Hb'; unfold is_region; rewrite Hk'; reflexivity|].
        unfold rl. cbn. rewrite Hk'. reflexivity. }
      apply (proj2 (ehier_congr_c (RL h') G' top strict Hlink
                      (fun Hi => Htop_h' (ekeys_RL h' top Hi))
                      (RL_closed h' Hnd_h' Hres_h') n e' ds HnG')).
      exact W2. }
    (* 4: and that is the walk of the result *)
    exact (proj2 (flatten_ctrace h' top strict Hnd_h' Htop_h' Hplain_h' Hres_h' Htab_h' n e' ds Horig') W3).
Qed.

End Final.

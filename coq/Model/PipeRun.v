(* PipeRun.v — correspondence driver for the pipeline model (Pipe.v): the model is run
   on the input graph stage by stage and its whole state — every graph of the
   hierarchy in dictionary order, value tables, assignments, headers, exiting
   blocks, nesting, the counters of the name generator — is compared with what
   the implementation produced; an exception of the implementation must be
   matched by the same kind of error at the same stage.

   rows: 130                                   marker
         131 cat kind idx id                   name table of the generator (cat 0 block / 1 region / 2 variable)
         132 top                               name of the top region
         133 name cls N jts..                  input blocks, dictionary order
         134 k status                          stage k: 0 ran, 1 KeyError, 2 AssertionError, 3 RuntimeError,
                                               4 StopIteration, 9 anything else
         135 k region name J.. B.. kind..      block of the graph of `region` after stage k, dictionary order;
                                               kind: 0 cls | 1 N (var val).. | 2 cls var N (val target).. | 3 rk hd ex
         136 k kind count                      generator counters after stage k, dictionary order (k = -1: before)
         137 k region parent                   nesting after stage k
         138 k region                          the regions after stage k
   answer: [decoded; stage 0 agrees; stage 1 agrees; stage 2 agrees] *)
From Coq Require Import List ZArith Bool.
Import ListNotations.
From V Require Import Valid.Hier Model.Graph Model.Edits Model.Edits2 Model.Pipe.
Local Open Scope Z_scope.

Definition nm_of (tbl : list (list Z)) (cat kind idx : Z) : name :=
  match filter (fun r => match r with
                         | [c; k; i; _] => Z.eqb c cat && Z.eqb k kind && Z.eqb i idx
                         | _ => false end) tbl with
  | [_; _; _; id] :: _ => id
  | _ => -1
  end.

Definition rows_tag (rows : list (list Z)) (tag : Z) : list (list Z) :=
  flat_map (fun r => match r with t :: rest => if Z.eqb t tag then [rest] else [] | [] => [] end) rows.
Definition rows_k (rows : list (list Z)) (k : Z) : list (list Z) :=
  flat_map (fun r => match r with t :: rest => if Z.eqb t k then [rest] else [] | [] => [] end) rows.

Definition decode_pkind (r : list Z) : option pkind :=
  match r with
  | [3; rk; hd; ex] => Some (PRegion rk hd ex)
  | _ => match decode_kind r with Some k => Some (PLeaf k) | None => None end
  end.

Definition decode_pblk (r : list Z) : option (name * pblk) :=
  match r with
  | nm :: r0 =>
    match take_list r0 with
    | Some (jt, r1) =>
      match take_list r1 with
      | Some (be, r2) => match decode_pkind r2 with Some k => Some (nm, mkP jt be k) | None => None end
      | None => None end
    | None => None end
  | [] => None
  end.

Definition pkind_eqb (a b : pkind) : bool :=
  match a, b with
  | PLeaf x, PLeaf y => ekind_eqb x y
  | PRegion r1 h1 e1, PRegion r2 h2 e2 => Z.eqb r1 r2 && Z.eqb h1 h2 && Z.eqb e1 e2
  | _, _ => false
  end.

Definition pblk_eqb (a b : pblk) : bool :=
  list_eqb (p_jt a) (p_jt b) && list_eqb (p_be a) (p_be b) && pkind_eqb (p_kind a) (p_kind b).

Fixpoint pgraph_eqb (a b : pgraph) : bool :=
  match a, b with
  | [], [] => true
  | (x, bx) :: a', (y, by_) :: b' => Z.eqb x y && pblk_eqb bx by_ && pgraph_eqb a' b'
  | _, _ => false
  end.

(* expected graph of one region after stage k: rows "region name ..." filtered by region *)
Fixpoint decode_graph (rows : list (list Z)) : option pgraph :=
  match rows with
  | [] => Some []
  | r :: rest => match decode_pblk r, decode_graph rest with
                 | Some b, Some g => Some (b :: g)
                 | _, _ => None end
  end.

Definition state_agrees (rows : list (list Z)) (k : Z) (s : pst) : bool :=
  let regions := flat_map (fun r => match r with [x] => [x] | _ => [] end) (rows_k (rows_tag rows 138) k) in
  let blocks := rows_k (rows_tag rows 135) k in
  let gens := flat_map (fun r => match r with [a; b] => [(a, b)] | _ => [] end) (rows_k (rows_tag rows 136) k) in
  let pars := flat_map (fun r => match r with [a; b] => [(a, b)] | _ => [] end) (rows_k (rows_tag rows 137) k) in
  Nat.eqb (length regions) (length (s_store s)) &&
  forallb (fun rg => match decode_graph (rows_k blocks rg), zassoc rg (s_store s) with
                     | Some ge, Some gm => pgraph_eqb gm ge
                     | _, _ => false end) regions &&
  pairs_eqb gens (s_gen s) &&
  Nat.eqb (length pars) (length (s_parent s)) &&
  forallb (fun p => match zassoc (fst p) (s_parent s) with Some q => Z.eqb q (snd p) | None => false end) pars.

Definition err_code (e : perr) : Z :=
  match e with EKey => 1 | EAssert => 2 | ERuntime => 3 | EStop => 4 | EFuel => 8 | EIndex => 9 end.

Definition status_at (rows : list (list Z)) (k : Z) : Z :=
  match rows_k (rows_tag rows 134) k with [st] :: _ => st | _ => -1 end.

Definition b2z (b : bool) : Z := if b then 1 else 0.

Definition run_pipe (rows : list (list Z)) : list Z :=
  let nm := nm_of (rows_tag rows 131) in
  match rows_tag rows 132 with
  | [top] :: _ =>
    let g0 := flat_map (fun r => match r with
                                 | x :: cls :: r1 => match take_list r1 with
                                                     | Some (jt, []) => [(x, mkP jt [] (PLeaf (EPlain cls)))]
                                                     | _ => [] end
                                 | _ => [] end) (rows_tag rows 133) in
    let gens0 := flat_map (fun r => match r with [a; b] => [(a, b)] | _ => [] end) (rows_k (rows_tag rows 136) (-1)) in
    let s0 := mkS [(top, g0)] gens0 [] in
    if negb (Nat.eqb (length g0) (length (rows_tag rows 133))) then [0; 0; 0; 0] else
    let fix go (ks : list Z) (s : pst) : list Z :=
      match ks with
      | [] => []
      | k :: rest =>
        let st := status_at rows k in
        match p_stage nm k s top with
        | POk s' => if Z.eqb st 0 then b2z (state_agrees rows k s') :: go rest s'
                    else 0 :: map (fun _ => 0) rest
        | PErr e => if Z.eqb st (err_code e) then 1 :: map (fun _ => 1) rest
                    else 0 :: map (fun _ => 0) rest
        end
      end in
    1 :: go [0; 1; 2] s0
  | _ => [0; 0; 0; 0]
  end.

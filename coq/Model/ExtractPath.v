(* ExtractPath.v — property C01 for region extraction, universally: Extract.extract
   (the line-by-line model of transformations.extract_region) keeps the flat walk.
   For EVERY hierarchy with distinct names in which region headers lie below
   their regions, every level, every set of blocks with header hd and every
   fresh region name: each block keeps its kind and arity; a successor is kept
   or, where it was hd, becomes the new region, whose header is hd - so every
   successor still resolves to the same block, and from every original block,
   under every decision list and environment, the flat walk visits the same
   original blocks and ends the same way (plain and strict reading). *)
From Coq Require Import List ZArith Bool Lia.
Import ListNotations.
From V Require Import Valid.Hier Valid.Walk Valid.FlatRegion Model.Graph Model.Edits Model.TableSpec
                      Model.Extract Model.Refine.
Local Open Scope Z_scope.

(* ---------- lookups after replacing one node ---------- *)
Lemma find_hset h n x : find h (n_name n) <> None ->
  find (hset h n) x = if Z.eqb x (n_name n) then Some n else find h x.
Proof.
  induction h as [|m r IH]; intros Hin; [cbn in Hin; congruence|]. cbn [hset find] in *.
  destruct (Z.eqb_spec (n_name m) (n_name n)) as [E|E].
  - cbn [find]. destruct (Z.eqb_spec (n_name n) x) as [E2|E2].
    + subst x. rewrite Z.eqb_refl. reflexivity.
    + destruct (Z.eqb_spec x (n_name n)) as [E3|E3]; [congruence|].
      destruct (Z.eqb_spec (n_name m) x) as [E4|E4]; [congruence|reflexivity].
  - cbn [find]. destruct (Z.eqb_spec (n_name m) x) as [E3|E3].
    + subst x. destruct (Z.eqb_spec (n_name m) (n_name n)); [contradiction|reflexivity].
    + apply IH. exact Hin.
Qed.

Lemma hset_length h n : length (hset h n) = length h.
Proof. induction h as [|m r IH]; [reflexivity|]. cbn. destruct (Z.eqb (n_name m) (n_name n)); cbn; congruence. Qed.

Lemma find_app_none h1 h2 x : find (h1 ++ h2) x = match find h1 x with Some n => Some n | None => find h2 x end.
Proof. induction h1 as [|m r IH]; [reflexivity|]. cbn. destruct (Z.eqb (n_name m) x); [reflexivity|exact IH]. Qed.

Lemma find_map_same f h x : (forall n, n_name (f n) = n_name n) -> find (map f h) x = option_map f (find h x).
Proof.
  intros Hf. induction h as [|m r IH]; [reflexivity|]. cbn. rewrite Hf.
  destruct (Z.eqb (n_name m) x); [reflexivity|exact IH].
Qed.

Lemma enter_flat_mono h : forall f t c k, enter_flat h f t = Some c -> enter_flat h (f + k) t = Some c.
Proof.
  induction f as [|f IH]; intros t c k H; [discriminate|]. cbn [enter_flat Nat.add] in *.
  destruct (find h t) as [n|]; [|discriminate]. destruct (n_kind n); try exact H. apply IH. exact H.
Qed.

Lemma enter_flat_result h : forall f t c, enter_flat h f t = Some c ->
  exists n, find h c = Some n /\ is_region n = false.
Proof.
  induction f as [|f IH]; intros t c H; [discriminate|]. cbn [enter_flat] in H.
  destruct (find h t) as [n|] eqn:Hn; [|discriminate].
  destruct (n_kind n) eqn:Hk; try (injection H as <-; exists n; split; [exact Hn|unfold is_region; rewrite Hk; reflexivity]).
  eapply IH. exact H.
Qed.

Section ExtractPath.
Variables (hd rname : name).
Hypothesis Hne : rname <> hd.

(* ---------- what may happen to a block that is not a region ---------- *)
Definition PosRel (jt jt' : list name) : Prop :=
  length jt = length jt' /\
  forall k t t', nth_error jt k = Some t -> nth_error jt' k = Some t' -> t' = t \/ (t = hd /\ t' = rname).

Definition tgt_rel (o o' : option name) : Prop :=
  match o, o' with
  | Some t, Some t' => t' = t \/ (t = hd /\ t' = rname)
  | None, None => True
  | _, _ => False
  end.

Definition KindRel (n n' : node) : Prop :=
  match n_kind n, n_kind n' with
  | KOrig p, KOrig p' => p' = p
  | KPlain c, KPlain c' => c' = c
  | KAssign a, KAssign a' => a' = a
  | KBranch c v tbl, KBranch c' v' tbl' =>
    c' = c /\ v' = v /\ forall z, tgt_rel (proceed n tbl z) (proceed n' tbl' z)
  | _, _ => False
  end.

Definition LeafRel (n n' : node) : Prop :=
  n_name n' = n_name n /\ PosRel (n_jt n) (n_jt n') /\ KindRel n n'.

(* what keeps a later renaming harmless *)
Definition Good (n : node) : Prop :=
  NoDup (n_jt n) /\ (~ In rname (n_jt n) \/ ~ In hd (n_jt n)) /\
  (forall c v tbl, n_kind n = KBranch c v tbl -> NoDup (map fst tbl)).

Lemma PosRel_refl jt : PosRel jt jt.
Proof. split; [reflexivity|]. intros k t t' H1 H2. left. congruence. Qed.

Lemma PosRel_trans a b c : PosRel a b -> PosRel b c -> PosRel a c.
Proof.
  intros [L1 P1] [L2 P2]. split; [congruence|]. intros k t t2 Ht Ht2.
  destruct (nth_error b k) as [t1|] eqn:Hb.
  - destruct (P1 k t t1 Ht Hb) as [->|[-> ->]]; [exact (P2 k t t2 Hb Ht2)|].
    destruct (P2 k rname t2 Hb Ht2) as [->|[E _]]; [right; auto|congruence].
  - exfalso. apply nth_error_None in Hb. assert (k < length a)%nat by (apply nth_error_Some; congruence). lia.
Qed.

Lemma tgt_rel_refl o : tgt_rel o o.
Proof. destruct o; cbn; auto. Qed.

Lemma tgt_rel_trans a b c : tgt_rel a b -> tgt_rel b c -> tgt_rel a c.
Proof.
  destruct a as [t|], b as [t1|], c as [t2|]; cbn; try tauto.
  intros [->|[-> ->]] [->|[E ->]]; auto; congruence.
Qed.

Lemma LeafRel_refl n : is_region n = false -> LeafRel n n.
Proof.
  intros Hr. split; [reflexivity|]. split; [apply PosRel_refl|]. unfold KindRel, is_region in *.
  destruct (n_kind n); try reflexivity; [|discriminate]. repeat split. intros z. apply tgt_rel_refl.
Qed.

Lemma LeafRel_trans a b c : LeafRel a b -> LeafRel b c -> LeafRel a c.
Proof.
  intros [N1 [P1 K1]] [N2 [P2 K2]]. split; [congruence|]. split; [eapply PosRel_trans; eauto|].
  unfold KindRel in *. destruct (n_kind a), (n_kind b), (n_kind c); try contradiction; try congruence.
  destruct K1 as [-> [-> T1]], K2 as [-> [-> T2]]. repeat split. intros z. eapply tgt_rel_trans; eauto.
Qed.

(* renaming the successors position by position *)
Lemma rename1_pos jt : PosRel jt (rename1 hd rname jt).
Proof.
  unfold rename1. split; [rewrite map_length; reflexivity|].
  induction jt as [|u rr IH]; intros k t t' Ht Ht'; [destruct k; discriminate|].
  destruct k as [|k]; cbn in Ht, Ht'.
  - injection Ht as ->. injection Ht' as <-. destruct (Z.eqb t hd) eqn:E; [apply Z.eqb_eq in E; auto|auto].
  - eapply IH; eauto.
Qed.

Lemma rename1_id jt : ~ In hd jt -> rename1 hd rname jt = jt.
Proof.
  intros H. unfold rename1. induction jt as [|t r IH]; [reflexivity|]. cbn.
  destruct (Z.eqb t hd) eqn:E; [apply Z.eqb_eq in E; subst; exfalso; apply H; left; reflexivity|].
  f_equal. apply IH. intros Hi. apply H. right. exact Hi.
Qed.

Lemma rename1_nodup jt : NoDup jt -> ~ In rname jt -> NoDup (rename1 hd rname jt).
Proof.
  intros Hnd Hr. unfold rename1. induction jt as [|t r IH]; [constructor|]. cbn.
  inversion Hnd as [|? ? Ht Hnd']; subst.
  assert (Hr' : ~ In rname r) by (intros Hi; apply Hr; right; exact Hi).
  constructor; [|apply IH; assumption].
  intros Hi. apply in_map_iff in Hi as [u [Hu Hin]].
  destruct (Z.eqb t hd) eqn:E; destruct (Z.eqb u hd) eqn:E2.
  - apply Z.eqb_eq in E. apply Z.eqb_eq in E2. subst. contradiction.
  - subst u. contradiction.
  - apply Z.eqb_eq in E2. subst u. apply Hr. left. congruence.
  - subst u. contradiction.
Qed.

Lemma rename1_no_hd jt : ~ In hd (rename1 hd rname jt).
Proof.
  unfold rename1. intros Hi. apply in_map_iff in Hi as [u [Hu Hin]].
  destruct (Z.eqb u hd) eqn:E; [congruence|apply Z.eqb_neq in E; congruence].
Qed.

Lemma pos_fresh jt : NoDup jt -> (~ In rname jt \/ ~ In hd jt) ->
  forall k s t, nth_error jt k = Some s -> nth_error (rename1 hd rname jt) k = Some t -> t = s \/ ~ In t jt.
Proof.
  intros Hnd Hcase k s t Hs Ht. destruct (rename1_pos jt) as [_ P]. destruct (P k s t Hs Ht) as [->|[-> ->]]; [auto|].
  destruct Hcase as [A|A]; [right; exact A|]. exfalso. apply A. eapply nth_error_In; eauto.
Qed.

Lemma rename_leaf n n' : is_region n = false -> Good n -> rename_node n hd rname = Some n' ->
  LeafRel n n' /\ Good n' /\ is_region n' = false /\ n_parent n' = n_parent n.
Proof.
  intros Hr [Hnd [Hcase Hkeys]] H. unfold rename_node in H.
  destruct (node_replace_jt n (rename1 hd rname (n_jt n))) as [n1|] eqn:H1; [|discriminate].
  injection H as <-. unfold node_replace_jt in H1. unfold is_region in Hr.
  assert (Hnd' : NoDup (rename1 hd rname (n_jt n))).
  { destruct Hcase as [A|A]; [apply rename1_nodup; assumption|rewrite rename1_id by exact A; exact Hnd]. }
  assert (Hcase' : ~ In rname (rename1 hd rname (n_jt n)) \/ ~ In hd (rename1 hd rname (n_jt n)))
    by (right; apply rename1_no_hd).
  destruct (n_kind n) as [p|c|a|c v tbl|? ? ? ? ? ?] eqn:Hk; try discriminate;
    try (injection H1 as <-; split; [split; [reflexivity|]; split; [apply rename1_pos|];
           unfold KindRel; cbn [n_kind]; rewrite Hk; reflexivity|];
         split; [split; [exact Hnd'|]; split; [exact Hcase'|]; intros ? ? ? E; cbn in E; discriminate|];
         split; [unfold is_region; reflexivity|reflexivity]).
  destruct (table_rewrite tbl (n_jt n) (rename1 hd rname (n_jt n)) (n_jt n) 0 []) as [tbl'|] eqn:Htr; [|discriminate].
  injection H1 as <-. split; [|split; [|split; [unfold is_region; reflexivity|reflexivity]]].
  - split; [reflexivity|]. split; [apply rename1_pos|]. unfold KindRel. cbn [n_kind with_be]. rewrite Hk.
    split; [reflexivity|]. split; [reflexivity|]. intros z.
    pose proof (table_rewrite_lookup tbl (n_jt n) (rename1 hd rname (n_jt n)) (Hkeys c v tbl eq_refl)
                  (eq_sym (proj1 (rename1_pos (n_jt n)))) (pos_fresh (n_jt n) Hnd Hcase) Hnd tbl' Htr z) as Hz.
    unfold proceed. cbn [n_jt with_be].
    destruct (zassoc z tbl) as [t0|] eqn:Hzt.
    + destruct Hz as [Hin0 Hout0]. destruct (zmem t0 (n_jt n)) eqn:Hm.
      * apply zmem_In in Hm. apply In_nth_error in Hm as [k Hk0]. rewrite (Hin0 k Hk0).
        destruct (nth_error (rename1 hd rname (n_jt n)) k) as [t0'|] eqn:Hk'.
        -- assert (zmem t0' (rename1 hd rname (n_jt n)) = true) as -> by (apply zmem_In; eapply nth_error_In; eauto).
           cbn. apply (proj2 (rename1_pos (n_jt n)) k t0 t0' Hk0 Hk').
        -- exfalso. apply nth_error_None in Hk'. rewrite <- (proj1 (rename1_pos (n_jt n))) in Hk'.
           assert (k < length (n_jt n))%nat.
           { apply nth_error_Some. intros Hc. pose proof (eq_trans (eq_sym Hc) Hk0) as X. discriminate X. } lia.
      * apply zmem_false in Hm. rewrite (Hout0 Hm). exact I.
    + rewrite Hz. exact I.
  - split; [exact Hnd'|]. split; [exact Hcase'|]. cbn [n_kind with_be]. intros c0 v0 t0 [= <- <- <-].
    eapply table_rewrite_keys; [|exact Htr]. constructor.
Qed.

(* ---------- regions keep their header and exiting block ---------- *)
Definition RegRel (n n' : node) : Prop :=
  n_name n' = n_name n /\
  match n_kind n, n_kind n' with
  | KRegion _ h0 ex _ _ _, KRegion _ h0' ex' _ _ _ => h0' = h0 /\ ex' = ex
  | _, _ => False
  end.

Lemma RegRel_refl n : is_region n = true -> RegRel n n.
Proof. unfold is_region, RegRel. destruct (n_kind n); try discriminate. auto. Qed.

Lemma RegRel_trans a b c : RegRel a b -> RegRel b c -> RegRel a c.
Proof.
  intros [N1 K1] [N2 K2]. split; [congruence|]. destruct (n_kind a), (n_kind b), (n_kind c); try contradiction.
  destruct K1, K2. split; congruence.
Qed.

Lemma rename_region n a b n' : is_region n = true -> rename_node n a b = Some n' ->
  RegRel n n' /\ n_parent n' = n_parent n /\ is_region n' = true.
Proof.
  unfold is_region, rename_node, node_replace_jt. destruct (n_kind n) eqn:Hk; try discriminate.
  intros _ [= <-]. unfold RegRel. cbn. rewrite Hk. auto.
Qed.

Lemma children_region n f : is_region n = true ->
  RegRel n (with_children n f) /\ n_parent (with_children n f) = n_parent n /\ is_region (with_children n f) = true.
Proof.
  unfold is_region, with_children, RegRel. destruct (n_kind n) eqn:Hk; try discriminate. intros _. cbn. auto.
Qed.

(* ---------- the invariant of the loops ---------- *)
Definition NodeRel (n n' : node) : Prop :=
  n_parent n' = n_parent n /\
  (is_region n = false -> LeafRel n n' /\ Good n' /\ is_region n' = false) /\
  (is_region n = true -> RegRel n n').

Definition Inv (h0 hc : hier) : Prop :=
  length hc = length h0 /\
  (forall x, find h0 x = None -> find hc x = None) /\
  (forall x n, find h0 x = Some n -> exists n', find hc x = Some n' /\ NodeRel n n').

Lemma NodeRel_name n n' : NodeRel n n' -> n_name n' = n_name n.
Proof.
  intros [_ [A B]]. destruct (is_region n) eqn:E; [apply (B eq_refl)|apply (A eq_refl)].
Qed.

Lemma NodeRel_region n n' : NodeRel n n' -> is_region n' = is_region n.
Proof.
  intros [_ [A B]]. destruct (is_region n) eqn:E.
  - destruct (B eq_refl) as [_ K]. unfold is_region in *. destruct (n_kind n), (n_kind n'); try contradiction; reflexivity.
  - apply (A eq_refl).
Qed.

Lemma NodeRel_trans a b c : NodeRel a b -> NodeRel b c -> NodeRel a c.
Proof.
  intros R1 R2. pose proof (NodeRel_region a b R1) as Hr.
  destruct R1 as [P1 [A1 B1]], R2 as [P2 [A2 B2]]. split; [congruence|]. split.
  - intros Ha. destruct (A1 Ha) as [L1 [G1 Rb]]. destruct (A2 Rb) as [L2 [G2 Rc]].
    split; [eapply LeafRel_trans; eauto|auto].
  - intros Ha. rewrite Ha in Hr. eapply RegRel_trans; [apply B1; exact Ha|apply B2; exact Hr].
Qed.

Lemma Inv_cur h0 hc x n' : Inv h0 hc -> find hc x = Some n' -> exists n, find h0 x = Some n /\ NodeRel n n'.
Proof.
  intros [_ [Hn Hs]] Hx. destruct (find h0 x) as [n|] eqn:H0.
  - destruct (Hs x n H0) as [n1 [H1 R1]]. rewrite Hx in H1. injection H1 as <-. eauto.
  - rewrite (Hn x H0) in Hx. discriminate.
Qed.

Lemma Inv_set h0 hc m' : Inv h0 hc -> find hc (n_name m') <> None ->
  (forall n, find h0 (n_name m') = Some n -> NodeRel n m') -> Inv h0 (hset hc m').
Proof.
  intros [Hl [Hn Hs]] Hpres Hrel.
  split; [rewrite hset_length; exact Hl|]. split.
  - intros x Hx. rewrite find_hset by exact Hpres.
    destruct (Z.eqb_spec x (n_name m')) as [->|E]; [|apply Hn; exact Hx]. exfalso. apply Hpres. apply Hn. exact Hx.
  - intros x n Hx. rewrite find_hset by exact Hpres.
    destruct (Z.eqb_spec x (n_name m')) as [->|E]; [|apply Hs; exact Hx].
    exists m'. split; [reflexivity|apply Hrel; exact Hx].
Qed.

Lemma find_name h x n : find h x = Some n -> n_name n = x.
Proof. intros H. apply find_In in H. apply H. Qed.

(* one renaming step on the current image of a node *)
Lemma rename_rel n0 n n' : NodeRel n0 n -> rename_node n hd rname = Some n' -> NodeRel n0 n'.
Proof.
  intros R Hrn. apply (NodeRel_trans n0 n n' R). pose proof (NodeRel_region n0 n R) as Hreg.
  destruct (is_region n) eqn:Hrx.
  - destruct (rename_region n hd rname n' Hrx Hrn) as [RR [P Rr]]. split; [exact P|]. split; [congruence|intros _; exact RR].
  - destruct R as [_ [A _]]. destruct (A (eq_sym Hreg)) as [_ [G _]].
    destruct (rename_leaf n n' Hrx G Hrn) as [L [G' [Rr P]]]. split; [exact P|]. split; [intros _; auto|congruence].
Qed.

Lemma children_rel n0 n f : NodeRel n0 n -> is_region n = true -> NodeRel n0 (with_children n f).
Proof.
  intros R Hr. apply (NodeRel_trans n0 n _ R). destruct (children_region n f Hr) as [RR [P Rr]].
  split; [exact P|]. split; [congruence|intros _; exact RR].
Qed.

Lemma rename_name n n' : rename_node n hd rname = Some n' -> n_name n' = n_name n.
Proof.
  unfold rename_node, node_replace_jt. destruct (n_kind n) as [| | |c v tbl|]; try (intros [= <-]; reflexivity).
  destruct (table_rewrite _ _ _ _ _ _); [|discriminate]. intros [= <-]. reflexivity.
Qed.

Lemma children_name n f : n_name (with_children n f) = n_name n.
Proof. unfold with_children. destruct (n_kind n); reflexivity. Qed.

(* update_exiting keeps the invariant *)
Lemma upd_exiting_inv h0 : forall fuel hc e h1,
  Inv h0 hc -> upd_exiting fuel hc e hd rname = XOk h1 -> Inv h0 h1.
Proof.
  induction fuel as [|f IH]; intros hc e h1 HI H; [discriminate|]. cbn [upd_exiting] in H.
  destruct (find hc e) as [ne|] eqn:He; [|discriminate].
  destruct (n_kind ne) as [| | | |rk h00 ex ch pd ok] eqn:Hk; try discriminate.
  destruct (find hc ex) as [nx|] eqn:Hx; [|discriminate].
  destruct (negb (Z.eqb (n_parent nx) e)); [discriminate|].
  destruct (rename_node nx hd rname) as [nx'|] eqn:Hrn; [|discriminate].
  assert (Hner : is_region ne = true) by (unfold is_region; rewrite Hk; reflexivity).
  destruct (Inv_cur h0 hc ex nx HI Hx) as [n0x [H0x R0x]].
  destruct (Inv_cur h0 hc e ne HI He) as [n0e [H0e R0e]].
  assert (Hnx'n : n_name nx' = ex) by (rewrite (rename_name nx nx' Hrn); eapply find_name; eauto).
  assert (Hnen : n_name ne = e) by (eapply find_name; eauto).
  assert (HI1 : Inv h0 (hset hc nx')).
  { apply Inv_set; [exact HI|rewrite Hnx'n; congruence|].
    intros n Hn. rewrite Hnx'n, H0x in Hn. injection Hn as <-. eapply rename_rel; eauto. }
  assert (HI2 : Inv h0 (hset (hset hc nx') (with_children ne (move_last ex)))).
  { apply Inv_set; [exact HI1| |].
    - rewrite children_name, Hnen. rewrite find_hset by (rewrite Hnx'n; congruence).
      destruct (Z.eqb e (n_name nx')); [discriminate|congruence].
    - intros n Hn. rewrite children_name, Hnen, H0e in Hn. injection Hn as <-. apply children_rel; assumption. }
  destruct (is_region nx'); [eapply IH; eauto|]. injection H as <-. exact HI2.
Qed.

Lemma do_entries_inv h0 fuel lvl : forall entries hc h1,
  Inv h0 hc -> do_entries fuel hc lvl entries hd rname = XOk h1 -> Inv h0 h1.
Proof.
  induction entries as [|e rest IH]; intros hc h1 HI H; [cbn in H; injection H as <-; exact HI|].
  cbn [do_entries] in H. destruct (find hc lvl) as [nl|] eqn:Hl; [|discriminate]. cbv zeta in H.
  match type of H with (if ?c then _ else _) = _ => destruct c end.
  - match type of H with (if ?c then _ else _) = _ => destruct c end; [discriminate|].
    eapply IH; eauto.
  - destruct (find hc e) as [ne|] eqn:He; [|discriminate].
    destruct (rename_node ne hd rname) as [ne'|] eqn:Hrn; [|discriminate].
    destruct (Inv_cur h0 hc e ne HI He) as [n0e [H0e R0e]].
    assert (Hnn : n_name ne' = e) by (rewrite (rename_name ne ne' Hrn); eapply find_name; eauto).
    assert (HI1 : Inv h0 (hset hc ne')).
    { apply Inv_set; [exact HI|rewrite Hnn; congruence|].
      intros n Hn. rewrite Hnn, H0e in Hn. injection Hn as <-. eapply rename_rel; eauto. }
    assert (HI2 : forall h2, (if is_region ne' then upd_exiting fuel (hset hc ne') e hd rname else XOk (hset hc ne')) = XOk h2 ->
                             Inv h0 h2).
    { intros h2 Hs. destruct (is_region ne'); [eapply upd_exiting_inv; eauto|injection Hs as <-; exact HI1]. }
    destruct (if is_region ne' then upd_exiting fuel (hset hc ne') e hd rname else XOk (hset hc ne')) as [h2| |] eqn:Hs;
      try discriminate.
    specialize (HI2 h2 eq_refl).
    destruct (find h2 lvl) as [nl2|] eqn:Hl2; [|discriminate].
    destruct (Inv_cur h0 h2 lvl nl2 HI2 Hl2) as [n0l [H0l R0l]].
    eapply IH; [|exact H]. apply Inv_set; [exact HI2| |].
    + rewrite children_name. rewrite (find_name h2 lvl nl2 Hl2). congruence.
    + intros n Hn. rewrite children_name, (find_name h2 lvl nl2 Hl2), H0l in Hn. injection Hn as <-.
      destruct (is_region nl2) eqn:Hr2; [apply children_rel; assumption|].
      (* the level is a region; were it not, with_children leaves it alone *)
      unfold with_children. unfold is_region in Hr2. destruct (n_kind nl2) eqn:Hk2; try discriminate; destruct nl2; exact R0l.
Qed.

Lemma Inv_refl h0 : (forall x n, find h0 x = Some n -> is_region n = false -> Good n) -> Inv h0 h0.
Proof.
  intros HG. split; [reflexivity|]. split; [auto|]. intros x n Hx. exists n. split; [exact Hx|].
  split; [reflexivity|]. split.
  - intros Hr. split; [apply LeafRel_refl; exact Hr|]. split; [eapply HG; eauto|exact Hr].
  - intros Hr. apply RegRel_refl. exact Hr.
Qed.

(* ---------- the whole extraction ---------- *)
Section Final.
Variables (h : hier) (lvl : name) (blocks entries : list name) (ex : name) (rk : Z) (h' : hier) (strict : bool).
Hypothesis Hx : extract h lvl blocks entries hd ex rk rname = XOk h'.
Hypothesis Hfresh : find h rname = None.
Hypothesis HGood : forall x n, find h x = Some n -> is_region n = false -> Good n.
(* the level is a region; headers lie below their regions (the nesting is a tree); hd lies below the level *)
Hypothesis Hlvl : exists nl, find h lvl = Some nl /\ is_region nl = true.
Hypothesis Hrank : exists rank : name -> nat,
  (forall x n rk0 h0 e0 c0 p0 o0, find h x = Some n -> n_kind n = KRegion rk0 h0 e0 c0 p0 o0 -> (rank h0 < rank x)%nat) /\
  (rank hd < rank lvl)%nat.
(* every successor of every block resolves *)
Hypothesis Hres : forall x n t, find h x = Some n -> is_region n = false -> In t (n_jt n) ->
  enter_flat h (S (length h)) t <> None.

Let r := resolve_flat h.
Let r' := resolve_flat h'.
Definition Fx (w : Z) : Prop := False.
Definition Oldx (x : name) : Prop := exists n, find h x = Some n /\ is_region n = false.
Definition children (n : node) : list name := match n_kind n with KRegion _ _ _ ch _ _ => ch | _ => [] end.

Lemma reparent_name n : n_name (reparent rname blocks n) = n_name n.
Proof. unfold reparent. destruct (zmem (n_name n) blocks); [destruct (n_kind n)|]; reflexivity. Qed.

Lemma reparent_rel n0 n : NodeRel n0 n ->
  (is_region n0 = false -> LeafRel n0 (reparent rname blocks n) /\ is_region (reparent rname blocks n) = false) /\
  (is_region n0 = true -> RegRel n0 (reparent rname blocks n)).
Proof.
  intros R. pose proof (NodeRel_region n0 n R) as Hreg. destruct R as [_ [A B]]. split.
  - intros Hr. destruct (A Hr) as [[N [P K]] [_ Rn]]. unfold reparent. destruct (zmem (n_name n) blocks); [|split; [split; [exact N|split; [exact P|exact K]]|exact Rn]].
    unfold is_region in Rn. destruct (n_kind n) eqn:Hk; try discriminate;
      (split; [split; [exact N|]; split; [exact P|]; unfold KindRel in *; cbn [n_kind]; rewrite Hk in K; exact K
              |unfold is_region; reflexivity]).
  - intros Hr. destruct (B Hr) as [N K]. unfold reparent. destruct (zmem (n_name n) blocks); [|split; assumption].
    unfold RegRel in *. destruct (n_kind n0); try contradiction. destruct (n_kind n) eqn:Hk; try contradiction.
    cbn. split; [exact N|exact K].
Qed.

(* the pieces of the result *)
Lemma parts : exists h1 nx nl,
  Inv h h1 /\ find h1 ex = Some nx /\ find h1 lvl = Some nl /\
  h' = hset (map (reparent rname blocks) h1)
            (match n_kind nl with
             | KRegion rkl hdl exl ch pd ok =>
               mkNode (n_name nl) (n_parent nl) (n_jt nl) (n_be nl)
                      (KRegion rkl (if Z.eqb hd hdl then rname else hdl) (if Z.eqb ex exl then rname else exl)
                               (filter (fun y => negb (zmem y blocks)) ch ++ [rname]) pd ok)
             | _ => nl
             end)
       ++ [mkNode rname lvl (jump_targets nx) [] (KRegion rk hd ex (zsort blocks) lvl true)].
Proof.
  pose proof Hx as H. unfold extract in H.
  destruct (do_entries (S (length h)) h lvl entries hd rname) as [h1| |] eqn:Hd; try discriminate.
  destruct (find h1 ex) as [nx|] eqn:Hex; [|discriminate].
  destruct (find h1 lvl) as [nl|] eqn:Hl; [|discriminate].
  injection H as <-. exists h1, nx, nl. split; [|auto].
  eapply do_entries_inv; [apply Inv_refl; exact HGood|exact Hd].
Qed.

(* every node of h, in h' *)
Lemma node_after : forall x n, find h x = Some n ->
  exists n', find h' x = Some n' /\
    (is_region n = false -> LeafRel n n' /\ is_region n' = false) /\
    (is_region n = true ->
       match n_kind n, n_kind n' with
       | KRegion _ h0 _ _ _ _, KRegion _ h0' _ _ _ _ => h0' = h0 \/ (x = lvl /\ h0 = hd /\ h0' = rname)
       | _, _ => False
       end).
Proof.
  intros x n Hn. destruct parts as [h1 [nx [nl [HI [Hex [Hl ->]]]]]].
  destruct HI as [Hlen [Hnone Hsome]]. destruct (Hsome x n Hn) as [n1 [H1 R1]].
  assert (Hxr : x <> rname) by (intros ->; congruence).
  set (nl' := match n_kind nl with KRegion _ _ _ _ _ _ => _ | _ => nl end).
  assert (Hnl'name : n_name nl' = lvl).
  { unfold nl'. destruct (n_kind nl); cbn [n_name]; exact (find_name h1 lvl nl Hl). }
  assert (Hpres : find (map (reparent rname blocks) h1) (n_name nl') <> None).
  { rewrite find_map_same by apply reparent_name. rewrite Hnl'name, Hl. discriminate. }
  rewrite find_app_none, find_hset by exact Hpres. rewrite Hnl'name.
  destruct (Z.eqb_spec x lvl) as [->|Hxl].
  - (* the level itself *)
    rewrite Hl in H1. injection H1 as <-. exists nl'. split; [reflexivity|].
    destruct Hlvl as [nl0 [Hnl0 Hrl0]]. rewrite Hn in Hnl0. injection Hnl0 as <-.
    split; [congruence|]. intros _. destruct R1 as [_ [_ B]]. destruct (B Hrl0) as [_ K].
    unfold nl'. destruct (n_kind n) eqn:Hkn; try contradiction. destruct (n_kind nl) eqn:Hkl; try contradiction.
    cbn [n_kind]. destruct K as [-> _].
    destruct (Z.eqb_spec hd header) as [->|E]; [right; auto|left; reflexivity].
  - rewrite find_map_same by apply reparent_name. rewrite H1. cbn [option_map].
    exists (reparent rname blocks n1). split; [reflexivity|].
    destruct (reparent_rel n n1 R1) as [A B]. split; [exact A|].
    intros Hr. destruct (B Hr) as [_ K]. destruct (n_kind n); try contradiction.
    destruct (n_kind (reparent rname blocks n1)); try contradiction. left. apply K.
Qed.

Lemma rname_after : exists nx, find h' rname = Some (mkNode rname lvl (jump_targets nx) [] (KRegion rk hd ex (zsort blocks) lvl true)).
Proof.
  destruct parts as [h1 [nx [nl [HI [Hex [Hl ->]]]]]]. exists nx.
  destruct HI as [_ [Hnone _]].
  set (nl' := match n_kind nl with KRegion _ _ _ _ _ _ => _ | _ => nl end).
  assert (Hnl'name : n_name nl' = lvl).
  { unfold nl'. destruct (n_kind nl); cbn [n_name]; exact (find_name h1 lvl nl Hl). }
  assert (Hpres : find (map (reparent rname blocks) h1) (n_name nl') <> None).
  { rewrite find_map_same by apply reparent_name. rewrite Hnl'name, Hl. discriminate. }
  rewrite find_app_none, find_hset by exact Hpres. rewrite Hnl'name.
  assert (Hrl : rname <> lvl) by (intros E0; destruct Hlvl as [nl0 [A _]]; rewrite <- E0 in A; congruence).
  destruct (Z.eqb_spec rname lvl); [contradiction|].
  rewrite find_map_same by apply reparent_name. rewrite (Hnone rname Hfresh). cbn [option_map find n_name].
  rewrite Z.eqb_refl. reflexivity.
Qed.

Lemma length_after : length h' = S (length h).
Proof.
  destruct parts as [h1 [nx [nl [[Hlen _] [_ [_ ->]]]]]]. rewrite app_length, hset_length, map_length, Hlen. cbn. lia.
Qed.

(* ---------- names resolve as before ---------- *)
Lemma enter_below rank :
  (forall x n rk0 h0 e0 c0 p0 o0, find h x = Some n -> n_kind n = KRegion rk0 h0 e0 c0 p0 o0 -> (rank h0 < rank x)%nat) ->
  forall f t c, (rank t < rank lvl)%nat -> enter_flat h f t = Some c -> enter_flat h' f t = Some c.
Proof.
  intros Hr. induction f as [|f IH]; intros t c Hlt H; [discriminate|]. cbn [enter_flat] in *.
  destruct (find h t) as [n|] eqn:Hn; [|discriminate].
  destruct (node_after t n Hn) as [n' [Hn' [A B]]]. rewrite Hn'.
  destruct (n_kind n) as [| | | |rk0 h0 e0 c0 p0 o0] eqn:Hk.
  1-4: (assert (Hl : is_region n = false) by (unfold is_region; rewrite Hk; reflexivity);
        destruct (A Hl) as [[_ [_ K]] _]; unfold KindRel in K; rewrite Hk in K;
        destruct (n_kind n'); try contradiction; exact H).
  assert (Hl : is_region n = true) by (unfold is_region; rewrite Hk; reflexivity).
  specialize (B Hl). destruct (n_kind n'); try contradiction.
  destruct B as [->|[-> _]]; [|lia].
  apply IH; [|exact H]. pose proof (Hr t n _ _ _ _ _ _ Hn Hk). lia.
Qed.

Lemma enter_after rank :
  (forall x n rk0 h0 e0 c0 p0 o0, find h x = Some n -> n_kind n = KRegion rk0 h0 e0 c0 p0 o0 -> (rank h0 < rank x)%nat) ->
  (rank hd < rank lvl)%nat ->
  forall f t c, enter_flat h f t = Some c -> enter_flat h' (S f) t = Some c.
Proof.
  intros Hr Hhd. induction f as [|f IH]; intros t c H; [discriminate|]. cbn [enter_flat] in H.
  destruct (find h t) as [n|] eqn:Hn; [|discriminate].
  destruct (node_after t n Hn) as [n' [Hn' [A B]]].
  change (enter_flat h' (S (S f)) t) with
    (match find h' t with
     | Some n0 => match n_kind n0 with KRegion _ hd0 _ _ _ _ => enter_flat h' (S f) hd0 | _ => Some t end
     | None => None end). rewrite Hn'.
  destruct (n_kind n) as [| | | |rk0 h0 e0 c0 p0 o0] eqn:Hk.
  1-4: (assert (Hl : is_region n = false) by (unfold is_region; rewrite Hk; reflexivity);
        destruct (A Hl) as [[_ [_ K]] _]; unfold KindRel in K; rewrite Hk in K;
        destruct (n_kind n'); try contradiction; exact H).
  assert (Hl : is_region n = true) by (unfold is_region; rewrite Hk; reflexivity).
  specialize (B Hl). destruct (n_kind n'); try contradiction.
  destruct B as [->|[-> [-> ->]]]; [apply IH; exact H|].
  (* the level: its header is now the new region, whose header is hd *)
  destruct rname_after as [nx Hrn]. cbn [enter_flat]. rewrite Hrn. cbn [n_kind].
  eapply enter_below; eauto.
Qed.

Lemma resolve_same x t c : r x t = Some c -> r' x t = Some c.
Proof.
  unfold r, r', resolve_flat. intros H. rewrite length_after. destruct Hrank as [rank [A B]].
  apply (enter_after rank A B). exact H.
Qed.

Lemma resolve_new x c : r x hd = Some c -> r' x rname = Some c.
Proof.
  unfold r, r', resolve_flat. intros H. rewrite length_after. destruct Hrank as [rank [A B]].
  destruct rname_after as [nx Hrn].
  change (enter_flat h' (S (S (length h))) rname) with
    (match find h' rname with
     | Some n0 => match n_kind n0 with KRegion _ hd0 _ _ _ _ => enter_flat h' (S (length h)) hd0 | _ => Some rname end
     | None => None end). rewrite Hrn. cbn [n_kind].
  eapply enter_below; eauto.
Qed.

(* ---------- the walk ---------- *)
Lemma edge_x x b t t' : find h x = Some b -> is_region b = false -> In t (n_jt b) ->
  (t' = t \/ (t = hd /\ t' = rname)) -> Edge h' r r' strict Fx Oldx x t t'.
Proof.
  intros Hb Hl Hin Hrel e e' He.
  destruct (enter_flat h (S (length h)) t) as [c|] eqn:Hc; [|exfalso; exact (Hres x b t Hb Hl Hin Hc)].
  assert (Hr : r x t = Some c) by exact Hc.
  exists c, c, 0%nat, e'. split; [exact Hr|]. split; [exact (enter_flat_result h _ t c Hc)|].
  split; [destruct Hrel as [->|[-> ->]]; [apply resolve_same|apply resolve_new]; exact Hr|].
  split; [exact He|]. intros fuel. reflexivity.
Qed.

Lemma hold_x : forall x, Oldx x -> exists b b', find h x = Some b /\ find h' x = Some b' /\
  Compat h' r r' strict Fx Oldx x b b'.
Proof.
  intros x [b [Hb Hl]]. destruct (node_after x b Hb) as [b' [Hb' [A _]]].
  destruct (A Hl) as [[_ [[Hlen Hpos] K]] _].
  exists b, b'. split; [exact Hb|]. split; [exact Hb'|].
  assert (Hedge : forall k t t', nth_error (n_jt b) k = Some t -> nth_error (n_jt b') k = Some t' ->
                                 Edge h' r r' strict Fx Oldx x t t').
  { intros k t t' Ht Ht'. eapply edge_x; [exact Hb|exact Hl|eapply nth_error_In; exact Ht|exact (Hpos k t t' Ht Ht')]. }
  unfold Compat. unfold KindRel in K.
  destruct (n_kind b) as [p|c|a|c v tbl|? ? ? ? ? ?] eqn:Hk; destruct (n_kind b') as [p'|c'|a'|c' v' tbl'|? ? ? ? ? ?] eqn:Hk';
    try contradiction.
  - split; [exact Hlen|exact Hedge].
  - destruct (n_jt b) as [|t1 [|t2 r1]] eqn:Ej; destruct (n_jt b') as [|t1' [|t2' r2]] eqn:Ej'; try discriminate.
    + left. auto.
    + right. left. exists t1, t1'. split; [reflexivity|]. split; [reflexivity|]. apply (Hedge 0%nat); reflexivity.
    + right. right. exists t1, t2, r1, t1', t2', r2. auto.
  - split; [exact K|]. split; [intros p Hp []|].
    destruct (n_jt b) as [|t1 [|t2 r1]] eqn:Ej; destruct (n_jt b') as [|t1' [|t2' r2]] eqn:Ej'; try discriminate.
    + right. cbn. split; discriminate.
    + left. exists t1, t1'. split; [reflexivity|]. split; [reflexivity|]. apply (Hedge 0%nat); reflexivity.
    + right. cbn. split; discriminate.
  - destruct K as [_ [-> T]]. split; [reflexivity|]. split; [intros []|]. intros z. specialize (T z).
    destruct (proceed b tbl z) as [t|] eqn:Hp; destruct (proceed b' tbl' z) as [t'|] eqn:Hp'; cbn in T; try contradiction; [|exact I].
    eapply edge_x; [exact Hb|exact Hl| |exact T].
    unfold proceed in Hp. destruct (zassoc z tbl) as [t0|]; [|discriminate].
    destruct (zmem t0 (n_jt b)) eqn:Hm; [|discriminate]. injection Hp as <-. apply zmem_In. exact Hm.
Qed.

Theorem extract_keeps_walks : forall n e e' ds tr st,
  (exists b p, find h n = Some b /\ n_kind b = KOrig p) ->
  E Fx e e' ->
  WTrace h r strict n e ds tr st -> WTrace h' r' strict n e' ds tr st.
Proof.
  intros n e e' ds tr st [b [p [Hb Hk]]] He Hw.
  apply (walk_refines h h' r r' strict Fx Oldx hold_x n e ds tr st Hw e').
  - exists b. split; [exact Hb|]. unfold is_region. rewrite Hk. reflexivity.
  - eauto.
  - exact He.
Qed.

Theorem extract_keeps_ctrace : forall n e e' ds,
  (exists b p, find h n = Some b /\ n_kind b = KOrig p) ->
  E Fx e e' ->
  CTrace h r strict n e ds -> CTrace h' r' strict n e' ds.
Proof.
  intros n e e' ds [b [p [Hb Hk]]] He Hw.
  apply (ctrace_refines h h' r r' strict Fx Oldx hold_x n e ds Hw e').
  - exists b. split; [exact Hb|]. unfold is_region. rewrite Hk. reflexivity.
  - eauto.
  - exact He.
Qed.

(* ---------- property C04: the new region is consistent ---------- *)
Theorem region_consistent : In hd blocks -> In ex blocks -> ex <> lvl ->
  exists nr nxe nl',
    find h' rname = Some nr /\ n_parent nr = lvl /\
    n_kind nr = KRegion rk hd ex (zsort blocks) lvl true /\       (* recorded parent = the level that holds it *)
    In hd (zsort blocks) /\ In ex (zsort blocks) /\               (* header and exiting block lie inside *)
    find h' ex = Some nxe /\ n_parent nxe = rname /\
    n_jt nr = jump_targets nxe /\                                 (* its targets are its exiting block's *)
    find h' lvl = Some nl' /\ In rname (children nl') /\          (* the level lists it *)
    (forall x n, In x blocks -> x <> lvl -> find h x = Some n ->
       exists n', find h' x = Some n' /\ n_parent n' = rname).     (* the wrapped blocks point to it *)
Proof.
  intros Hhdb Hexb Hexl. destruct parts as [h1 [nx [nl [HI [Hex [Hl Eh']]]]]].
  destruct HI as [Hlen [Hnone Hsome]].
  set (nl' := match n_kind nl with
              | KRegion rkl hdl exl ch pd ok =>
                mkNode (n_name nl) (n_parent nl) (n_jt nl) (n_be nl)
                       (KRegion rkl (if Z.eqb hd hdl then rname else hdl) (if Z.eqb ex exl then rname else exl)
                                (filter (fun y => negb (zmem y blocks)) ch ++ [rname]) pd ok)
              | _ => nl end) in *.
  assert (Hnl'name : n_name nl' = lvl) by (unfold nl'; destruct (n_kind nl); cbn [n_name]; exact (find_name h1 lvl nl Hl)).
  assert (Hpres : find (map (reparent rname blocks) h1) (n_name nl') <> None).
  { rewrite find_map_same by apply reparent_name. rewrite Hnl'name, Hl. discriminate. }
  assert (Hrl : rname <> lvl) by (intros E0; destruct Hlvl as [nl0 [A _]]; rewrite <- E0 in A; congruence).
  assert (Hfind : forall x, x <> lvl -> x <> rname ->
                            find h' x = option_map (reparent rname blocks) (find h1 x)).
  { intros x A B. rewrite Eh', find_app_none, find_hset by exact Hpres. rewrite Hnl'name.
    destruct (Z.eqb_spec x lvl); [contradiction|]. rewrite find_map_same by apply reparent_name.
    destruct (find h1 x); [reflexivity|]. cbn [option_map find n_name]. destruct (Z.eqb_spec rname x); [congruence|reflexivity]. }
  assert (Hexr : ex <> rname).
  { intros ->. rewrite (Hnone rname Hfresh) in Hex. discriminate. }
  destruct rname_after as [nx0 Hrn].
  (* nx0 is the same nx (parts is deterministic) *)
  assert (Hrn' : find h' rname = Some (mkNode rname lvl (jump_targets nx) [] (KRegion rk hd ex (zsort blocks) lvl true))).
  { rewrite Eh', find_app_none, find_hset by exact Hpres. rewrite Hnl'name.
    destruct (Z.eqb_spec rname lvl); [contradiction|]. rewrite find_map_same by apply reparent_name.
    rewrite (Hnone rname Hfresh). cbn [option_map find n_name]. rewrite Z.eqb_refl. reflexivity. }
  eexists. exists (reparent rname blocks nx), nl'. split; [exact Hrn'|]. split; [reflexivity|]. split; [reflexivity|].
  split; [apply zsort_In; exact Hhdb|]. split; [apply zsort_In; exact Hexb|].
  split; [rewrite (Hfind ex Hexl Hexr), Hex; reflexivity|].
  assert (Hnxn : n_name nx = ex) by exact (find_name h1 ex nx Hex).
  split.
  { unfold reparent. rewrite Hnxn. assert (zmem ex blocks = true) as -> by (apply zmem_In; exact Hexb).
    destruct (n_kind nx); reflexivity. }
  split.
  { cbn [n_jt]. unfold reparent, jump_targets. destruct (zmem (n_name nx) blocks); [destruct (n_kind nx)|]; reflexivity. }
  split.
  { rewrite Eh', find_app_none, find_hset by exact Hpres. rewrite Hnl'name, Z.eqb_refl. reflexivity. }
  split.
  { destruct Hlvl as [nl0 [Hnl0 Hrl0]]. destruct (Hsome lvl nl0 Hnl0) as [nl1 [Hnl1 R]]. rewrite Hl in Hnl1. injection Hnl1 as <-.
    pose proof (NodeRel_region nl0 nl R) as Hreg. rewrite Hrl0 in Hreg.
    unfold nl'. unfold is_region in Hreg. destruct (n_kind nl); try discriminate.
    unfold children. cbn. apply in_or_app. right. left. reflexivity. }
  intros x n Hxb Hxl Hn. destruct (Hsome x n Hn) as [n1 [Hn1 _]].
  assert (Hxr : x <> rname) by (intros ->; congruence).
  exists (reparent rname blocks n1). split; [rewrite (Hfind x Hxl Hxr), Hn1; reflexivity|].
  unfold reparent. rewrite (find_name h1 x n1 Hn1). assert (zmem x blocks = true) as -> by (apply zmem_In; exact Hxb).
  destruct (n_kind n1); reflexivity.
Qed.
End Final.
End ExtractPath.

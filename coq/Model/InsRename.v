(* InsRename.v — insert_block with one successor commutes with a renaming of targets
   (injective on the names that matter, fixing the new block): value tables of branching
   predecessors included. *)
From Coq Require Import List ZArith Bool Lia.
Import ListNotations.
From V Require Import Valid.Hier Model.Graph Model.Edits Model.Edits2 Model.Edits3 Model.LoopEdit Model.LoopSpec
     Model.Total Model.LoopRename.
Local Open Scope Z_scope.

Section Rename.
Variable rho : name -> name.
Variable D : name -> Prop.
Hypothesis Hinj : forall a b, D a -> D b -> rho a = rho b -> a = b.

Notation msnd := (map_snd rho).
Notation mb := (mapb rho).

Lemma dset_msnd (tbl : list (Z * name)) k v : msnd (dset tbl k v) = dset (msnd tbl) k (rho v).
Proof.
  unfold map_snd. induction tbl as [|[k' v'] r IH]; [reflexivity|]. cbn [dset map fst snd].
  destruct (Z.eqb k k'); cbn [map fst snd]; [reflexivity|]. rewrite IH. reflexivity.
Qed.

Lemma copy_rho (tbl acc : list (Z * name)) target tgt :
  D target -> (forall p, In p tbl -> D (snd p)) ->
  msnd (fold_left (fun a kv => if Z.eqb (snd kv) target then tset a (fst kv) tgt else a) tbl acc) =
  fold_left (fun a kv => if Z.eqb (snd kv) (rho target) then tset a (fst kv) (rho tgt) else a) (msnd tbl) (msnd acc).
Proof.
  intros Ht. revert acc. induction tbl as [|[k v] r IH]; intros acc Hd; [reflexivity|].
  unfold map_snd at 2. cbn [fold_left map fst snd]. fold (map_snd rho r).
  assert (Hv : D v) by (apply (Hd (k, v)); left; reflexivity).
  assert (Hr : forall p, In p r -> D (snd p)) by (intros p Hp; apply Hd; right; exact Hp).
  destruct (Z.eqb_spec v target) as [->|Hne].
  - rewrite Z.eqb_refl. rewrite IH by exact Hr. unfold tset. rewrite dset_msnd. reflexivity.
  - destruct (Z.eqb_spec (rho v) (rho target)) as [E|_]; [exfalso; apply Hne; apply Hinj; auto|].
    apply IH. exact Hr.
Qed.

Lemma dedupe_rho l : (forall y, In y l -> D y) -> dedupe (map rho l) = map rho (dedupe l).
Proof.
  induction l as [|x r IH]; intros Hd; [reflexivity|]. cbn [dedupe map].
  rewrite (zmem_rho rho D Hinj x r (Hd x (or_introl eq_refl)) (fun y Hy => Hd y (or_intror Hy))).
  destruct (zmem x r); [apply IH|cbn [map]; rewrite IH; [reflexivity|]]; intros y Hy; apply Hd; right; exact Hy.
Qed.

Lemma filter_notin_rho all l : (forall y, In y l -> D y) -> (forall y, In y all -> D y) ->
  filter (fun t => negb (zmem t (map rho all))) (map rho l) = map rho (filter (fun t => negb (zmem t all)) l).
Proof.
  intros Hl Ha. induction l as [|x r IH]; [reflexivity|]. cbn [map filter].
  rewrite (zmem_rho rho D Hinj x all (Hl x (or_introl eq_refl)) Ha).
  destruct (zmem x all); cbn [negb map]; rewrite IH; auto; intros y Hy; apply Hl; right; exact Hy.
Qed.

Lemma dedupe_incl l y : In y (dedupe l) -> In y l.
Proof.
  induction l as [|x r IH]; cbn; [tauto|]. destruct (zmem x r); [intros H; right; apply IH; exact H|].
  intros [H|H]; [left; exact H|right; apply IH; exact H].
Qed.

Lemma table_rewrite_rho tbl new_jt all_old :
  (forall p, In p tbl -> D (snd p)) -> (forall y, In y new_jt -> D y) -> (forall y, In y all_old -> D y) ->
  forall old_jt idx acc, (forall y, In y old_jt -> D y) ->
    table_rewrite (msnd tbl) (map rho old_jt) (map rho new_jt) (map rho all_old) idx (msnd acc) =
    option_map msnd (table_rewrite tbl old_jt new_jt all_old idx acc).
Proof.
  intros Ht Hn Ha. induction old_jt as [|t r IH]; intros idx acc Ho; [reflexivity|].
  cbn [table_rewrite map].
  assert (Dt : D t) by (apply Ho; left; reflexivity).
  assert (Hr : forall y, In y r -> D y) by (intros y Hy; apply Ho; right; exact Hy).
  rewrite (zmem_rho rho D Hinj t new_jt Dt Hn).
  destruct (zmem t new_jt).
  - rewrite <- (copy_rho tbl acc t t Dt Ht). apply IH. exact Hr.
  - rewrite !map_length. destruct (Nat.eqb (length new_jt) (length all_old)).
    + rewrite nth_error_map. destruct (nth_error new_jt idx) as [nt|]; cbn [option_map]; [|reflexivity].
      rewrite <- (copy_rho tbl acc t nt Dt Ht). apply IH. exact Hr.
    + rewrite (filter_notin_rho all_old new_jt Hn Ha).
      rewrite dedupe_rho by (intros y Hy; apply filter_In in Hy; apply Hn; apply Hy).
      destruct (dedupe (filter (fun t0 => negb (zmem t0 all_old)) new_jt)) as [|nt [|? ?]]; cbn [map]; try reflexivity.
      rewrite <- (copy_rho tbl acc t nt Dt Ht). apply IH. exact Hr.
Qed.

Lemma replace_jt_rho b jt' :
  (forall y, In y (e_jt b) -> D y) -> (forall y, In y jt' -> D y) ->
  (forall c v t, e_kind b = EBranch c v t -> forall p, In p t -> D (snd p)) ->
  replace_jt (mb b) (map rho jt') = option_map mb (replace_jt b jt').
Proof.
  intros Hj Hn Ht. unfold replace_jt.
  destruct (e_kind b) as [c|a|c v t] eqn:Ek.
  - unfold mapb at 1. cbn [e_kind e_jt e_be]. rewrite Ek. cbv beta iota. cbn [option_map]. unfold mapb. cbn [e_kind e_jt e_be]. reflexivity.
  - unfold mapb at 1. cbn [e_kind e_jt e_be]. rewrite Ek. cbv beta iota. cbn [option_map]. unfold mapb. cbn [e_kind e_jt e_be]. reflexivity.
  - unfold mapb at 1. cbn [e_kind e_jt e_be]. rewrite Ek. cbv beta iota.
    pose proof (table_rewrite_rho t jt' (e_jt b) (Ht c v t eq_refl) Hn Hj (e_jt b) 0%nat [] Hj) as H.
    change (map_snd rho []) with (@nil (Z * name)) in H.
    change (e_jt (mapb rho b)) with (map rho (e_jt b)). change (e_be (mapb rho b)) with (map rho (e_be b)). rewrite H.
    destruct (table_rewrite t (e_jt b) jt' (e_jt b) 0 []) as [t'|]; cbn [option_map]; [|reflexivity].
    unfold mapb. cbn [e_kind e_jt e_be]. reflexivity.
Qed.

(* ---------- the successor rewrite for one successor ---------- *)
Lemma retarget1_rho new e0 jt : D new -> D e0 -> (forall y, In y jt -> D y) -> rho new = new ->
  map rho (retarget new [e0] jt) = retarget new [rho e0] (map rho jt).
Proof.
  intros Dn De Hj Fn. unfold retarget. cbn [fold_left]. unfold rt_step.
  rewrite (zmem_rho rho D Hinj e0 jt De Hj).
  assert (Hzn : zmem new (map rho jt) = zmem new jt) by (rewrite <- Fn at 1; apply (zmem_rho rho D Hinj new jt Dn Hj)).
  rewrite Hzn. destruct (zmem e0 jt); [|reflexivity].
  destruct (zmem new jt).
  - apply (remove_first_rho rho D Hinj e0 jt De Hj).
  - rewrite (replace_first_rho rho D Hinj e0 new jt De Hj), Fn. reflexivity.
Qed.

Lemma retarget1_incl new e0 jt y : In y (retarget new [e0] jt) -> y = new \/ In y jt.
Proof.
  unfold retarget. cbn [fold_left]. unfold rt_step. destruct (zmem e0 jt); [|auto].
  destruct (zmem new jt).
  - intros H. right. eapply remove_first_incl; eauto.
  - intros H. apply In_replace_first in H. exact H.
Qed.

Variables (new e0 : name).
Hypothesis Dnew : D new.
Hypothesis De0 : D e0.
Hypothesis Fnew : rho new = new.

Lemma insert_preds_rho (K : name -> Prop) : forall preds (g1 g2 g1' : egraph),
  insert_preds g1 new [e0] preds = Ok g1' ->
  Rel rho K g1 g2 ->
  (forall p, In p preds -> K p) ->
  NoDup preds ->
  (forall p b, In p preds -> efind g1 p = Some b ->
     (forall y, In y (e_jt b) -> D y) /\ (forall c v t, e_kind b = EBranch c v t -> forall q, In q t -> D (snd q))) ->
  exists g2', insert_preds g2 new [rho e0] preds = Ok g2' /\ Rel rho K g1' g2' /\
    (forall x, ~ K x -> efind g1' x = efind g1 x /\ efind g2' x = efind g2 x).
Proof.
  induction preds as [|p rest IH]; intros g1 g2 g1' H HR HK Hnd Hb.
  - cbn in H. injection H as <-. exists g2. cbn. repeat split; auto.
  - cbn [insert_preds] in H |- *.
    destruct (dpop g1 p) as [[b g1a]|] eqn:Hpop; [|discriminate].
    assert (Hp1 : efind g1 p = Some b) by (apply dpop_value in Hpop; exact Hpop).
    assert (Kp : K p) by (apply HK; left; reflexivity).
    assert (Hp2 : efind g2 p = Some (mb b)) by (rewrite (HR p Kp), Hp1; reflexivity).
    destruct (dpop_total g2 p (mb b) Hp2) as [g2a Hpop2]. rewrite Hpop2.
    destruct (Hb p b (or_introl eq_refl) Hp1) as [Hdj Hdt].
    assert (Hmj : e_jt (mb b) = map rho (e_jt b)) by reflexivity. rewrite Hmj.
    rewrite <- (retarget1_rho new e0 (e_jt b) Dnew De0 Hdj Fnew).
    rewrite (replace_jt_rho b (retarget new [e0] (e_jt b)) Hdj).
    2:{ intros y Hy. apply retarget1_incl in Hy as [->|Hy]; [exact Dnew|apply Hdj; exact Hy]. }
    2:{ exact Hdt. }
    destruct (replace_jt b (retarget new [e0] (e_jt b))) as [b'|] eqn:Hr; [|discriminate]. cbn [option_map].
    apply NoDup_cons_iff in Hnd as [Hnp Hnd'].
    assert (Hf1 : forall x, efind (dset g1a p b') x = if Z.eqb x p then Some b' else efind g1 x).
    { intros x. unfold efind. rewrite zassoc_dset. destruct (Z.eqb x p) eqn:E; [reflexivity|]. apply Z.eqb_neq in E. eapply zassoc_dpop; eauto. }
    assert (Hf2 : forall x, efind (dset g2a p (mb b')) x = if Z.eqb x p then Some (mb b') else efind g2 x).
    { intros x. unfold efind. rewrite zassoc_dset. destruct (Z.eqb x p) eqn:E; [reflexivity|]. apply Z.eqb_neq in E. eapply zassoc_dpop; eauto. }
    destruct (IH (dset g1a p b') (dset g2a p (mb b')) g1' H) as [g2' [E2 [R2 Fr]]].
    + intros x Kx. rewrite Hf1, Hf2. destruct (Z.eqb x p); [reflexivity|apply HR; exact Kx].
    + intros q Hq. apply HK. right. exact Hq.
    + exact Hnd'.
    + intros q bq Hq Hbq. rewrite Hf1 in Hbq. destruct (Z.eqb_spec q p) as [->|_]; [contradiction|].
      apply (Hb q bq (or_intror Hq) Hbq).
    + exists g2'. split; [exact E2|]. split; [exact R2|]. intros x Hx. destruct (Fr x Hx) as [A B].
      assert (x <> p) by (intros ->; contradiction).
      split; [rewrite A, Hf1|rewrite B, Hf2]; destruct (Z.eqb_spec x p); congruence.
Qed.

Theorem insert_block_rho (g1 g2 : egraph) preds cls g1' :
  insert_block g1 new preds [e0] cls = Ok g1' ->
  let K := fun x => In x preds \/ x = new in
  Rel rho K g1 g2 ->
  NoDup preds -> ~ In new preds ->
  (forall p b, In p preds -> efind g1 p = Some b ->
     (forall y, In y (e_jt b) -> D y) /\ (forall c v t, e_kind b = EBranch c v t -> forall q, In q t -> D (snd q))) ->
  exists g2', insert_block g2 new preds [rho e0] cls = Ok g2' /\
    (forall x, K x -> efind g2' x = option_map mb (efind g1' x)) /\
    (forall x, ~ K x -> efind g1' x = efind g1 x /\ efind g2' x = efind g2 x).
Proof.
  intros H K HR Hnd Hnn Hb. unfold insert_block in *.
  set (nb := mkE [e0] [] (EPlain cls)) in *.
  assert (Hnb : mkE [rho e0] [] (EPlain cls) = mb nb) by (unfold mapb, nb; cbn; reflexivity).
  rewrite Hnb.
  destruct (insert_preds_rho K preds (dset g1 new nb) (dset g2 new (mb nb)) g1' H) as [g2' [E2 [R2 Fr]]].
  - apply rel_dset. exact HR.
  - intros p Hp. left. exact Hp.
  - exact Hnd.
  - intros p b Hp Hbp. unfold efind in Hbp. rewrite zassoc_dset in Hbp.
    destruct (Z.eqb_spec p new) as [->|_]; [contradiction|]. apply (Hb p b Hp Hbp).
  - exists g2'. split; [exact E2|]. split; [exact R2|]. intros x Hx. destruct (Fr x Hx) as [A B].
    assert (x <> new) by (intros ->; apply Hx; right; reflexivity).
    split; [rewrite A|rewrite B]; unfold efind; rewrite zassoc_dset; destruct (Z.eqb_spec x new); congruence.
Qed.
End Rename.

(* SrcE.v — the source front end WITH its treatment of expressions
   (AST2SCFGTransformer.handle_expression / handle_bool_op): every and/or that
   the transformer can reach through comparisons, binary operations and call
   arguments is cut out of its statement into blocks of its own, its value
   carried in a temporary.  The model builds the same graph (block indices,
   instruction order and content, jump targets, creation order, numbering of the
   temporaries); a semantics of source and graph with values is given, and the
   two shapes on which the transformer changes the order of evaluation (known
   findings K2 and K-expr) are REFUTED by explicit witnesses.

   Leaves are opaque: a leaf is any sub-expression the transformer does not look
   into (it contains no and/or reachable through handled positions), identified
   by its text. *)
From Coq Require Import List ZArith Bool Lia.
Import ListNotations.
Local Open Scope Z_scope.

(* ---------- syntax ---------- *)
Inductive expr :=
| EAtom (a : Z)                              (* opaque leaf, by text *)
| EBool (isor : bool) (es : list expr)       (* and / or, two or more operands *)
| EOp (c : Z) (es : list expr).              (* comparison, binary operation or call: frame c, operands in evaluation order *)

Inductive stmt :=
| SAct (a : Z) (e : expr)                    (* assignment / augmented assignment / expression statement: frame a, value e *)
| SPass (a : Z)
| SRet (a : Z) (e : option expr)
| SBreak (a : Z)
| SContinue (a : Z)
| SIf (c : expr) (t e : stmts)
| SWhile (c : expr) (body orelse : stmts)
| SFor (h tgt : Z) (itr : expr) (body orelse : stmts)   (* itr: the iterable; target by text *)
with stmts := SNil | SCons (x : stmt) (r : stmts).

(* what is left of an expression in its statement *)
Inductive rexpr :=
| RAtom (a : Z)
| RTmp (k : Z)                               (* __scfg_bool_op_k__ *)
| ROp (c : Z) (es : list rexpr).

Inductive instr :=
| IAct (a : Z) (e : rexpr)
| IPass (a : Z)
| IRet (a : Z) (e : option rexpr)
| IBrk (a : Z) | ICnt (a : Z)
| ITest (e : rexpr)                          (* last instruction of a two-way block *)
| ISet (k : Z) (e : rexpr)                   (* __scfg_bool_op_k__ = e *)
(* the statements generated for a for-loop with header h and target tgt *)
| IForIter (h : Z) (e : rexpr)               (* __scfg_iterator_h__ = iter(e) *)
| IForInit (tgt : Z)                         (* tgt = None *)
| IForSave (h tgt : Z)                       (* __scfg_iter_last_h__ = tgt *)
| IForNext (h tgt : Z)                       (* tgt = next(__scfg_iterator_h__, sentinel) *)
| IForTest (tgt : Z)                         (* tgt != sentinel *)
| IForRestore (h tgt : Z).                   (* tgt = __scfg_iter_last_h__ *)

Record blk := mkB { b_idx : Z; b_ins : list instr; b_jt : list Z }.
Record bst := mkBst { done : list blk; cur : blk; next : Z; tmp : Z; okf : bool }.

Definition emit (i : instr) (st : bst) : bst :=
  mkBst (done st) (mkB (b_idx (cur st)) (b_ins (cur st) ++ [i]) (b_jt (cur st))) (next st) (tmp st) (okf st).
Definition setjt (jt : list Z) (st : bst) : bst :=
  mkBst (done st) (mkB (b_idx (cur st)) (b_ins (cur st)) jt) (next st) (tmp st) (okf st).
Definition addblk (i : Z) (st : bst) : bst := mkBst (cur st :: done st) (mkB i [] []) (next st) (tmp st) (okf st).
Definition bump (k : Z) (st : bst) : bst := mkBst (done st) (cur st) (next st + k) (tmp st) (okf st).
Definition newtmp (st : bst) : Z * bst :=
  (tmp st + 1, mkBst (done st) (cur st) (next st) (tmp st + 1) (okf st)).
Definition chk (b : bool) (st : bst) : bst := mkBst (done st) (cur st) (next st) (tmp st) (okf st && b).

(* ---------- handle_expression / handle_bool_op ---------- *)
(* handle_bool_op on operands given as "how to obtain the operand's residual":
   the first operand is obtained now, the second inside the new block *)
(* handle_bool_op: the first operand's residual is obtained now, the second inside the new block *)
Definition boolop (isor : bool) (first second : bst -> rexpr * bst) (st : bst) : rexpr * bst :=
  let '(k, st0) := newtmp st in
  let '(l, st1) := first st0 in
  let st2 := emit (ISet k l) st1 in
  let other := next st2 in                 (* false block (or) / true block (and) *)
  let merge := next st2 + 1 in
  let st3 := emit (ITest (RTmp k)) (bump 2 st2) in
  let st4 := addblk other (setjt (if isor then [merge; other] else [other; merge]) st3) in
  let '(r, st5) := second st4 in
  let st6 := addblk merge (setjt [merge] (emit (ISet k r) st5)) in
  (RTmp k, st6).

Fixpoint hexpr (e : expr) (st : bst) {struct e} : rexpr * bst :=
  match e with
  | EAtom a => (RAtom a, st)
  | EOp c es =>
    let '(rs, st1) := (fix hlist (es : list expr) (st : bst) : list rexpr * bst :=
                         match es with
                         | [] => ([], st)
                         | x :: r => let '(rx, st1) := hexpr x st in
                                     let '(rr, st2) := hlist r st1 in (rx :: rr, st2)
                         end) es st in
    (ROp c rs, st1)
  | EBool isor es =>
    (fix chain (es : list expr) (st : bst) : rexpr * bst :=
       match es with
       | [] => (RAtom 0, chk false st)
       | [a] => (RAtom 0, chk false st)
       | [a; b] =>
         (* two operands: both are processed first, then cut *)
         let '(ra, st1) := hexpr a st in
         let '(rb, st2) := hexpr b st1 in
         boolop isor (fun s => (ra, s)) (fun s => (rb, s)) st2
       | a :: rest =>
         (* more than two: the first now, the others (as one and/or) in the new block *)
         boolop isor (fun s => hexpr a s) (fun s => chain rest s) st
       end) es st
  end.

Definition hx (e : expr) (st : bst) : rexpr * bst := hexpr e st.

(* ---------- statements ---------- *)
Definition last_instr (b : blk) : option instr := last (map Some (b_ins b)) None.

Definition seal (loop : option (Z * Z)) (default : Z) (st : bst) : bst :=
  match loop, last_instr (cur st) with
  | Some (h, _), Some (ICnt _) => setjt [h] st
  | Some (_, e), Some (IBrk _) => setjt [e] st
  | _, Some (IRet _ _) => st
  | _, _ => setjt [default] st
  end.

Definition is_jump (x : stmt) : bool :=
  match x with SRet _ _ | SBreak _ | SContinue _ => true | _ => false end.

Fixpoint cg_stmt (x : stmt) (loop : option (Z * Z)) (st : bst) {struct x} : bst :=
  match x with
  | SAct a e => let '(r, st1) := hx e st in emit (IAct a r) st1
  | SPass a => emit (IPass a) st
  | SRet a None => emit (IRet a None) st
  | SRet a (Some e) => let '(r, st1) := hx e st in emit (IRet a (Some r)) st1
  | SBreak a => emit (IBrk a) st
  | SContinue a => emit (ICnt a) st
  | SIf c t e =>
    let n := next st in
    let '(r, st0) := hx c (bump 3 st) in
    let st1 := addblk n (setjt [n; n + 1] (emit (ITest r) st0)) in
    let st2 := seal loop (n + 2) (cg_stmts t loop st1) in
    let st3 := addblk (n + 1) st2 in
    let st4 := seal loop (n + 2) (cg_stmts e loop st3) in
    addblk (n + 2) st4
  | SWhile c body orelse =>
    let n := next st in                      (* head n, body n+1, exit n+2, else n+3 *)
    let st1 := addblk n (setjt [n] (bump 4 st)) in
    let '(r, st1') := hx c st1 in
    let st2 := addblk (n + 1) (setjt [n + 1; n + 3] (emit (ITest r) st1')) in
    let st3 := seal (Some (n, n + 2)) n (cg_stmts body (Some (n, n + 2)) st2) in
    let st4 := addblk (n + 3) st3 in
    let st5 := seal loop (n + 2) (cg_stmts orelse loop st4) in
    addblk (n + 2) st5
  | SFor h tgt itr body orelse =>
    let n := next st in                      (* head n, body n+1, else n+2, exit n+3 *)
    let '(ri, st0) := hx itr (bump 4 (chk (Z.eqb h n) st)) in
    let st0' := emit (IForInit tgt) (emit (IForIter h ri) st0) in
    let st1 := addblk n (setjt [n] st0') in
    let st2 := addblk (n + 1) (setjt [n + 1; n + 2]
                 (emit (IForTest tgt) (emit (IForNext h tgt) (emit (IForSave h tgt) st1)))) in
    let st3 := seal (Some (n, n + 3)) n (cg_stmts body (Some (n, n + 3)) st2) in
    let st4 := emit (IForRestore h tgt) (addblk (n + 2) st3) in
    let st5 := seal loop (n + 3) (cg_stmts orelse loop st4) in
    addblk (n + 3) st5
  end
with cg_stmts (l : stmts) (loop : option (Z * Z)) (st : bst) {struct l} : bst :=
  match l with
  | SNil => st
  | SCons x r => let st' := cg_stmt x loop st in if is_jump x then st' else cg_stmts r loop st'
  end.

Definition st_init : bst := mkBst [] (mkB 0 [] []) 1 0 true.
Definition blocks_of (st : bst) : list blk := rev (cur st :: done st).
Definition build (body : stmts) : list blk := blocks_of (cg_stmts body None st_init).
Definition build_ok (body : stmts) : bool := okf (cg_stmts body None st_init).

(* ---------- semantics with values ---------- *)
Section Semantics.
Variable state : Type.
Variable aval : Z -> state -> option (Z * state).          (* a leaf: value and effect; None: raises *)
Variable opf : Z -> list Z -> state -> option (Z * state).  (* frame applied to its operands' values *)
Variable act : Z -> option Z -> state -> option state.      (* a statement frame given the value of its expression *)

Inductive outcome :=
| ONormal (s : state) | OBreak (s : state) | OCont (s : state)
| ORet (a : Z) (s : state) | ORaise | OFuel | OStuck.

(* Python's order of evaluation: operands left to right; and/or stop as soon as the result is known *)
Fixpoint eval (e : expr) (s : state) {struct e} : option (Z * state) :=
  match e with
  | EAtom a => aval a s
  | EOp c es =>
    match (fix evlist (es : list expr) (s : state) : option (list Z * state) :=
             match es with
             | [] => Some ([], s)
             | x :: r => match eval x s with
                         | Some (v, s1) => match evlist r s1 with
                                           | Some (vs, s2) => Some (v :: vs, s2)
                                           | None => None end
                         | None => None end
             end) es s with
    | Some (vs, s1) => opf c vs s1
    | None => None
    end
  | EBool isor es =>
    (fix chain (es : list expr) (s : state) : option (Z * state) :=
       match es with
       | [] => None
       | [x] => eval x s
       | x :: r => match eval x s with
                   | Some (v, s1) => if Bool.eqb (negb (Z.eqb v 0)) isor then Some (v, s1) else chain r s1
                   | None => None end
       end) es s
  end.

Definition truth (v : Z) : bool := negb (Z.eqb v 0).

(* residual expressions read the temporaries *)
Definition tenv := list (Z * Z).
Fixpoint reval (e : rexpr) (te : tenv) (s : state) {struct e} : option (Z * state) :=
  match e with
  | RAtom a => aval a s
  | RTmp k => match find (fun p => Z.eqb (fst p) k) te with Some p => Some (snd p, s) | None => None end
  | ROp c es =>
    match (fix evlist (es : list rexpr) (s : state) : option (list Z * state) :=
             match es with
             | [] => Some ([], s)
             | x :: r => match reval x te s with
                         | Some (v, s1) => match evlist r s1 with
                                           | Some (vs, s2) => Some (v :: vs, s2)
                                           | None => None end
                         | None => None end
             end) es s with
    | Some (vs, s1) => opf c vs s1
    | None => None
    end
  end.

(* the for-loop statements are opaque actions of the state, named by slot *)
Variable foract : Z -> Z -> Z -> option Z -> state -> option state.   (* slot, h, tgt, value *)
Variable fortest : Z -> state -> option (bool * state).               (* tgt != sentinel *)

Fixpoint exec (fuel : nat) (l : stmts) (s : state) {struct fuel} : outcome :=
  match fuel with
  | O => OFuel
  | S f =>
    match l with
    | SNil => ONormal s
    | SCons x r =>
      match x with
      | SAct a e => match eval e s with
                    | Some (v, s1) => match act a (Some v) s1 with Some s2 => exec f r s2 | None => ORaise end
                    | None => ORaise end
      | SPass _ => exec f r s
      | SRet a None => match act a None s with Some s1 => ORet a s1 | None => ORaise end
      | SRet a (Some e) => match eval e s with
                           | Some (v, s1) => match act a (Some v) s1 with Some s2 => ORet a s2 | None => ORaise end
                           | None => ORaise end
      | SBreak _ => OBreak s
      | SContinue _ => OCont s
      | SIf c t e =>
        match eval c s with
        | None => ORaise
        | Some (v, s') =>
          match exec f (if truth v then t else e) s' with
          | ONormal s'' => exec f r s''
          | o => o
          end
        end
      | SWhile c body orelse =>
        match wloop f c body orelse s with
        | ONormal s' => exec f r s'
        | o => o
        end
      | SFor h tgt itr body orelse =>
        match eval itr s with
        | None => ORaise
        | Some (v, s0) =>
          match foract 0 h 0 (Some v) s0 with
          | None => ORaise
          | Some s1 =>
            match foract 1 0 tgt None s1 with
            | None => ORaise
            | Some s2 =>
              match floop f h tgt body orelse s2 with
              | ONormal s' => exec f r s'
              | o => o
              end
            end
          end
        end
      end
    end
  end
with wloop (fuel : nat) (c : expr) (body orelse : stmts) (s : state) {struct fuel} : outcome :=
  match fuel with
  | O => OFuel
  | S f =>
    match eval c s with
    | None => ORaise
    | Some (v, s2) =>
      if truth v then
        match exec f body s2 with
        | ONormal s3 | OCont s3 => wloop f c body orelse s3
        | OBreak s3 => ONormal s3
        | o => o
        end
      else exec f orelse s2
    end
  end
with floop (fuel : nat) (h tgt : Z) (body orelse : stmts) (s : state) {struct fuel} : outcome :=
  match fuel with
  | O => OFuel
  | S f =>
    match foract 2 h tgt None s with
    | None => ORaise
    | Some s1 =>
      match foract 3 h tgt None s1 with
      | None => ORaise
      | Some s2 =>
        match fortest tgt s2 with
        | None => ORaise
        | Some (true, s3) =>
          match exec f body s3 with
          | ONormal s4 | OCont s4 => floop f h tgt body orelse s4
          | OBreak s4 => ONormal s4
          | o => o
          end
        | Some (false, s3) =>
          match foract 5 h tgt None s3 with
          | None => ORaise
          | Some s4 => exec f orelse s4
          end
        end
      end
    end
  end.

(* ---------- block-by-block interpretation ---------- *)
Definition findb (G : list blk) (i : Z) : option blk := find (fun b => Z.eqb (b_idx b) i) G.
Definition tset (k v : Z) (te : tenv) : tenv := (k, v) :: filter (fun p => negb (Z.eqb (fst p) k)) te.

Inductive rres := RGo (te : tenv) (s : state) (lastb : option bool) | RHalt (o : outcome).

Fixpoint run_ins (l : list instr) (te : tenv) (s : state) : rres :=
  match l with
  | [] => RGo te s None
  | i :: r =>
    let testlast (b : bool) (s' : state) := match r with [] => RGo te s' (Some b) | _ => run_ins r te s' end in
    match i with
    | IAct a e => match reval e te s with
                  | Some (v, s1) => match act a (Some v) s1 with Some s2 => run_ins r te s2 | None => RHalt ORaise end
                  | None => RHalt ORaise end
    | IPass _ | IBrk _ | ICnt _ => run_ins r te s
    | IRet a None => match act a None s with Some s1 => RHalt (ORet a s1) | None => RHalt ORaise end
    | IRet a (Some e) => match reval e te s with
                         | Some (v, s1) => match act a (Some v) s1 with Some s2 => RHalt (ORet a s2) | None => RHalt ORaise end
                         | None => RHalt ORaise end
    | ITest e => match reval e te s with
                 | Some (v, s1) => testlast (truth v) s1
                 | None => RHalt ORaise end
    | ISet k e => match reval e te s with
                  | Some (v, s1) => run_ins r (tset k v te) s1
                  | None => RHalt ORaise end
    | IForIter h e => match reval e te s with
                      | Some (v, s1) => match foract 0 h 0 (Some v) s1 with Some s2 => run_ins r te s2 | None => RHalt ORaise end
                      | None => RHalt ORaise end
    | IForInit tgt => match foract 1 0 tgt None s with Some s1 => run_ins r te s1 | None => RHalt ORaise end
    | IForSave h tgt => match foract 2 h tgt None s with Some s1 => run_ins r te s1 | None => RHalt ORaise end
    | IForNext h tgt => match foract 3 h tgt None s with Some s1 => run_ins r te s1 | None => RHalt ORaise end
    | IForTest tgt => match fortest tgt s with Some (b, s1) => testlast b s1 | None => RHalt ORaise end
    | IForRestore h tgt => match foract 5 h tgt None s with Some s1 => run_ins r te s1 | None => RHalt ORaise end
    end
  end.

Fixpoint run (G : list blk) (fuel : nat) (pc : Z) (te : tenv) (s : state) : outcome :=
  match fuel with
  | O => OFuel
  | S f =>
    match findb G pc with
    | None => OStuck
    | Some b =>
      match run_ins (b_ins b) te s with
      | RHalt o => o
      | RGo te' s' lastb =>
        match b_jt b, lastb with
        | [t], _ => run G f t te' s'
        | [t1; t2], Some true => run G f t1 te' s'
        | [t1; t2], Some false => run G f t2 te' s'
        | _, _ => OStuck
        end
      end
    end
  end.
End Semantics.

Arguments ONormal {state}. Arguments OBreak {state}. Arguments OCont {state}.
Arguments ORet {state}. Arguments ORaise {state}. Arguments OFuel {state}. Arguments OStuck {state}.

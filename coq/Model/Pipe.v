(* Pipe.v — an executable model of the restructuring pipeline itself
   (SCFG.join_returns / restructure_loop / restructure_branch with
   transformations.loop_restructure_helper, extract_region, update_exiting,
   find_head_blocks, find_branch_regions, find_tail_blocks), written to compute
   the SAME result as the Python: same names, same dictionary order, same value
   tables.  The hierarchy is kept as a store of graphs keyed by the name of the
   region that owns them.  Set-valued intermediate results are kept sorted
   (their enumeration order is irrelevant wherever the code does not sort them:
   see SetOrder.v).  Errors of the Python are explicit results. *)
From Coq Require Import List ZArith Bool Lia.
Import ListNotations.
From V Require Import Valid.Hier Model.Graph Model.Edits.
Local Open Scope Z_scope.

(* ---------- data ---------- *)
Inductive pkind :=
| PLeaf (k : ekind)
| PRegion (rk : Z) (header exiting : name).
Record pblk := mkP { p_jt : list name; p_be : list name; p_kind : pkind }.
Definition pgraph := list (name * pblk).
Definition store := list (name * pgraph).

Inductive perr := EKey | EAssert | ERuntime | EFuel | EIndex | EStop.
Inductive pres (A : Type) := POk (a : A) | PErr (e : perr).
Arguments POk {A}. Arguments PErr {A}.
Definition bind {A B} (r : pres A) (f : A -> pres B) : pres B :=
  match r with POk a => f a | PErr e => PErr e end.
Notation "'do' x <- r ; k" := (bind r (fun x => k)) (at level 200, x pattern, r at level 100, k at level 200).

Record pst := mkS {
  s_store : store;
  s_gen : list (Z * Z);            (* NameGenerator.kinds: kind code -> next index, dictionary order *)
  s_parent : list (name * name)    (* region -> region whose graph holds it *)
}.

(* kind codes of the name generator *)
Definition K_HEAD := 1. Definition K_LATCH := 2. Definition K_EXIT := 3. Definition K_ASSIGN := 4.
Definition K_RETURN := 5. Definition K_TAIL := 6. Definition K_FILL := 7.
Definition K_LOOP := 10. Definition K_RHEAD := 11. Definition K_BRANCH := 12. Definition K_RTAIL := 13.
Definition K_META := 14.
Definition K_CONTROL := 20. Definition K_VEXIT := 21. Definition K_BACKEDGE := 22.
(* block class codes (harness/vh/export.py CLS) *)
Definition C_EXIT := 2. Definition C_RETURN := 3. Definition C_TAIL := 4. Definition C_FILL := 5.
Definition C_HEAD := 11. Definition C_LATCH := 12. Definition C_EXITBRANCH := 13.
(* region kinds (export.RK) *)
Definition R_META := 1. Definition R_LOOP := 2. Definition R_HEAD := 3. Definition R_BRANCH := 4. Definition R_TAIL := 5.

Section Pipeline.
(* the name the generator renders for (category 0 block / 1 region / 2 variable, kind, index) *)
Variable nm : Z -> Z -> Z -> name.

Definition gcount (g : list (Z * Z)) (k : Z) : Z := match zassoc k g with Some i => i | None => 0 end.

Definition new_name (cat kind : Z) (s : pst) : name * pst :=
  let i := gcount (s_gen s) kind in
  (nm cat kind i, mkS (s_store s) (dset (s_gen s) kind (i + 1)) (s_parent s)).

(* ---------- dictionary helpers on graphs ---------- *)
Definition gget (g : pgraph) (x : name) : option pblk := zassoc x g.
Definition gkeys (g : pgraph) : list name := map fst g.
Definition pjts (b : pblk) : list name := filter (fun t => negb (zmem t (p_be b))) (p_jt b).

Definition sget (s : pst) (r : name) : pres pgraph :=
  match zassoc r (s_store s) with Some g => POk g | None => PErr EKey end.
Definition sput (s : pst) (r : name) (g : pgraph) : pst := mkS (dset (s_store s) r g) (s_gen s) (s_parent s).

Definition is_pregion (b : pblk) : bool := match p_kind b with PRegion _ _ _ => true | _ => false end.

(* BasicBlock.replace_jump_targets, with the value-table rewrite for branching blocks *)
Definition p_replace_jt (b : pblk) (jt : list name) : pres pblk :=
  match p_kind b with
  | PLeaf k =>
    match replace_jt (mkE (p_jt b) (p_be b) k) jt with
    | Some e => POk (mkP (e_jt e) (e_be e) (PLeaf (e_kind e)))
    | None => PErr EAssert
    end
  | _ => POk (mkP jt (p_be b) (p_kind b))
  end.

Definition rename (old new : name) (l : list name) : list name :=
  map (fun t => if Z.eqb t old then new else t) l.

(* transformations.update_exiting: rename old -> new in the targets and back edges of
   the exiting block of region r, recursively through nested exiting regions *)
Fixpoint update_exiting (fuel : nat) (s : pst) (r : name) (rb : pblk) (old new : name) : pres pst :=
  match fuel with
  | O => PErr EFuel
  | S f =>
    match p_kind rb with
    | PRegion _ _ ex =>
      do g <- sget s r;
      match dpop g ex with
      | None => PErr EKey
      | Some (xb, g1) =>
        do xb1 <- p_replace_jt xb (rename old new (p_jt xb));
        let xb2 := mkP (p_jt xb1) (rename old new (p_be xb1)) (p_kind xb1) in
        do s1 <- (if is_pregion xb2 then update_exiting f s ex xb2 old new else POk s);
        POk (sput s1 r (dset g1 ex xb2))
      end
    | _ => POk s
    end
  end.

Definition DEPTH : nat := 64%nat.

(* ---------- queries (on the graph of one region) ---------- *)
Definition p_find_head (g : pgraph) : pres name :=
  match filter (fun k => negb (existsb (fun p => zmem k (pjts (snd p))) g)) (gkeys g) with
  | [h] => POk h
  | _ => PErr EAssert
  end.

Definition rkind_of (s : pst) (r : name) : Z :=
  (* kind of region r: looked up in its parent's graph; the top region is meta *)
  match zassoc r (s_parent s) with
  | None => R_META
  | Some p => match zassoc p (s_store s) with
              | Some g => match gget g r with
                          | Some b => match p_kind b with PRegion rk _ _ => rk | _ => 0 end
                          | None => 0 end
              | None => 0 end
  end.

(* find_headers_and_entries.  When nothing outside the set jumps into it the
   Python answers with the head of the graph and, inside a region, with the
   entries of the enclosing region block found through region/parent_region
   pointers.  Those entries are blocks of an enclosing graph: every consumer
   either ignores entries in that case (a single header) or skips the ones that
   are not in the graph at hand (extract_region), so the model answers [] for
   them.  (The pointer chase itself, and the assertions on its way, are not
   modelled: the correspondence check compares outcomes, errors included.) *)
Definition p_headers_entries (s : pst) (r : name) (sub : list name) : pres (list name * list name) :=
  do g <- sget s r;
  let outside := filter (fun k => negb (zmem k sub)) (gkeys g) in
  let hits o := match gget g o with
                | Some b => filter (fun t => zmem t sub) (p_jt b)
                | None => [] end in
  let headers := flat_map hits outside in
  let entries := filter (fun o => match hits o with [] => false | _ => true end) outside in
  match headers with
  | [] => do h <- p_find_head g; POk ([h], [])
  | _ => POk (zsort (dedupe headers), zsort entries)
  end.

Definition p_exiting_exits (g : pgraph) (sub : list name) : pres (list name * list name) :=
  if forallb (fun x => zmem x (gkeys g)) sub then
    let succ x := match gget g x with Some b => pjts b | None => [] end in
    let outs x := filter (fun t => negb (zmem t sub)) (succ x) in
    POk (zsort (filter (fun x => match outs x with [] => match succ x with [] => true | _ => false end
                                             | _ => true end) sub),
        zsort (flat_map outs sub))
  else PErr EKey.

Definition psucc_in (g : pgraph) (x : name) : list name :=
  match gget g x with Some b => filter (fun t => zmem t (gkeys g)) (pjts b) | None => [] end.
Definition ppred_in (g : pgraph) (x : name) : list name :=
  filter (fun p => zmem x (psucc_in g p)) (gkeys g).
Definition pfuel (g : pgraph) : nat := S (S (length g + length (flat_map (fun p => p_jt (snd p)) g))).

(* dominators as sets, from the proved reference definition (Queries.dom_ref):
   doms x = the blocks a such that no entry reaches x avoiding a *)
Definition dom_table (nodes : list name) (sx px : name -> list name) (fuel : nat)
  : pres (list (name * list name)) :=
  let entries := filter (fun k => match px k with [] => true | _ => false end) nodes in
  match entries with
  | [] => PErr ERuntime
  | _ =>
    (* avoid a = what the entries reach without passing through a *)
    let avoid := map (fun a => (a, closure (fun x => if Z.eqb x a then [] else sx x) fuel
                                           (filter (fun e => negb (Z.eqb e a)) entries))) nodes in
    POk (map (fun b => (b, filter (fun a => if Z.eqb a b then true else
                                     match zassoc a avoid with
                                     | Some (Some R) => negb (zmem b R)
                                     | _ => false end) nodes)) nodes)
  end.

Definition p_doms (g : pgraph) := dom_table (gkeys g) (psucc_in g) (ppred_in g) (pfuel g).
Definition p_postdoms (g : pgraph) := dom_table (gkeys g) (ppred_in g) (psucc_in g) (pfuel g).

Definition dset_of (tbl : list (name * list name)) (x : name) : list name :=
  match zassoc x tbl with Some l => l | None => [] end.

(* _imm_doms: the strict dominator that every other strict dominator dominates *)
Definition imm_dom (tbl : list (name * list name)) (x : name) : option name :=
  let strict := filter (fun a => negb (Z.eqb a x)) (dset_of tbl x) in
  match filter (fun d => forallb (fun a => zmem a (dset_of tbl d)) strict) strict with
  | [d] => Some d
  | _ => None
  end.

(* is_reachable_dfs as a set question (reference Queries.reach_ref) *)
Definition p_reach (g : pgraph) (a b : name) : pres bool :=
  match gget g a with
  | None => PErr EKey
  | Some ba =>
    match closure (fun x => match gget g x with Some bx => pjts bx | None => [] end) (pfuel g) (pjts ba) with
    | Some R => POk (zmem b R)
    | None => PErr EFuel
    end
  end.

(* ---------- vendored Tarjan, with its yield order ---------- *)
Record tj := mkTj { t_pre : list (name * Z); t_low : list (name * Z); t_found : list name;
                    t_sq : list name; t_i : Z; t_out : list (list name) }.

Definition aget (l : list (name * Z)) (x : name) : Z := match zassoc x l with Some v => v | None => 0 end.
Definition ahas (l : list (name * Z)) (x : name) : bool := match zassoc x l with Some _ => true | None => false end.

Fixpoint pop_while (pre : list (name * Z)) (pv : Z) (sq : list name) (acc : list name) : list name * list name :=
  match sq with
  | k :: r => if Z.ltb pv (aget pre k) then pop_while pre pv r (k :: acc) else (acc, sq)
  | [] => (acc, [])
  end.

Fixpoint tj_loop (succ : name -> list name) (fuel : nat) (queue : list name) (s : tj) : option tj :=
  match fuel with
  | O => None
  | S f =>
    match queue with
    | [] => Some s
    | v :: rest =>
      let s1 := if ahas (t_pre s) v then s
                else mkTj (dset (t_pre s) v (t_i s + 1)) (t_low s) (t_found s) (t_sq s) (t_i s + 1) (t_out s) in
      match filter (fun w => negb (ahas (t_pre s1) w)) (succ v) with
      | w :: _ => tj_loop succ f (w :: queue) s1
      | [] =>
        let pv := aget (t_pre s1) v in
        let lv := fold_left (fun acc w =>
                    if zmem w (t_found s1) then acc
                    else if Z.ltb pv (aget (t_pre s1) w) then Z.min acc (aget (t_low s1) w)
                         else Z.min acc (aget (t_pre s1) w)) (succ v) pv in
        let low' := dset (t_low s1) v lv in
        if Z.eqb lv pv then
          let '(popped, sq') := pop_while (t_pre s1) pv (t_sq s1) [] in
          let comp := v :: popped in
          tj_loop succ f rest (mkTj (t_pre s1) low' (t_found s1 ++ comp) sq' (t_i s1) (t_out s1 ++ [comp]))
        else
          tj_loop succ f rest (mkTj (t_pre s1) low' (t_found s1) (v :: t_sq s1) (t_i s1) (t_out s1))
      end
    end
  end.

Definition p_scc (g : pgraph) : pres (list (list name)) :=
  let fuel := (4 * pfuel g * pfuel g)%nat in
  let r := fold_left (fun acc src =>
             match acc with
             | None => None
             | Some s => if zmem src (t_found s) then Some s else tj_loop (psucc_in g) fuel [src] s
             end) (gkeys g) (Some (mkTj [] [] [] [] 0 [])) in
  match r with Some s => POk (t_out s) | None => PErr EFuel end.

(* ---------- edit primitives on the graph of region r ---------- *)
Definition padd (g : pgraph) (x : name) (b : pblk) : pgraph := dset g x b.

(* SCFG.insert_block *)
Fixpoint p_insert_preds (s : pst) (r : name) (new : name) (S : list name) (preds : list name) : pres pst :=
  match preds with
  | [] => POk s
  | p :: rest =>
    do g <- sget s r;
    match dpop g p with
    | None => PErr EKey
    | Some (b, g1) =>
      do b1 <- p_replace_jt b (retarget new S (p_jt b));
      let s0 := sput s r g1 in
      do sb <- (if is_pregion b1
                then fold_left (fun acc t => do sx <- acc; update_exiting DEPTH sx p b1 t new) S (POk s0)
                else POk s0);
      do g2 <- sget sb r;
      p_insert_preds (sput sb r (padd g2 p b1)) r new S rest
    end
  end.

Definition p_insert_block (s : pst) (r : name) (new : name) (preds S : list name) (cls : Z) : pres pst :=
  do g <- sget s r;
  p_insert_preds (sput s r (padd g new (mkP S [] (PLeaf (EPlain cls))))) r new S preds.

(* SCFG.insert_block_and_control_blocks *)
Fixpoint p_cb_arcs (s : pst) (r new var : name) (ss : list name) (jt : list name) (value : Z)
         (tbl : list (Z * name)) (renamed : list (name * name))
  : pres (pst * list name * Z * list (Z * name) * list (name * name)) :=
  match ss with
  | [] => POk (s, jt, value, tbl, renamed)
  | t :: rest =>
    let '(a, s1) := new_name 0 K_ASSIGN s in
    do g <- sget s1 r;
    let s2 := sput s1 r (padd g a (mkP [new] [] (PLeaf (EAssign [(var, value)])))) in
    p_cb_arcs s2 r new var rest (replace_first t a jt) (value + 1) (tset tbl value t) (renamed ++ [(t, a)])
  end.

Fixpoint p_cb_preds (s : pst) (r new var : name) (S : list name) (preds : list name) (value : Z)
         (tbl : list (Z * name)) : pres (pst * list (Z * name)) :=
  match preds with
  | [] => POk (s, tbl)
  | p :: rest =>
    do g <- sget s r;
    match gget g p with
    | None => PErr EKey
    | Some b =>
      let ss := zsort (filter (fun t => zmem t S) (p_jt b)) in
      do x <- p_cb_arcs s r new var ss (p_jt b) value tbl [];
      let '(s1, jt, value', tbl', renamed) := x in
      do g1 <- sget s1 r;
      match dpop g1 p with
      | None => PErr EKey
      | Some (b0, g2) =>
        do b1 <- p_replace_jt b0 jt;
        let s2 := sput s1 r g2 in
        do sb <- (if is_pregion b1
                  then fold_left (fun acc ta => do sx <- acc; update_exiting DEPTH sx p b1 (fst ta) (snd ta))
                                 renamed (POk s2)
                  else POk s2);
        do g3 <- sget sb r;
        p_cb_preds (sput sb r (padd g3 p b1)) r new var S rest value' tbl'
      end
    end
  end.

Definition p_insert_cb (s : pst) (r new : name) (preds S : list name) : pres pst :=
  let '(var, s1) := new_name 2 K_CONTROL s in
  do x <- p_cb_preds s1 r new var S preds 0 [];
  let '(s2, tbl) := x in
  do g <- sget s2 r;
  POk (sput s2 r (padd g new (mkP S [] (PLeaf (EBranch C_HEAD var tbl))))).

(* SCFG.join_returns on the top graph *)
Definition p_join_returns (s : pst) (top : name) : pres pst :=
  do g <- sget s top;
  let exits := map fst (filter (fun p => match pjts (snd p) with [] => true | _ => false end) g) in
  match exits with
  | _ :: _ :: _ =>
    let '(n, s1) := new_name 0 K_RETURN s in
    p_insert_block s1 top n exits [] C_RETURN
  | _ => POk s
  end.

(* SCFG.join_tails_and_exits *)
Definition p_join_tails_exits (s : pst) (r : name) (tails exits : list name) : pres pst :=
  match tails, exits with
  | [_], [_] => POk s
  | [_], _ :: _ :: _ =>
    let '(e, s1) := new_name 0 K_EXIT s in p_insert_block s1 r e tails exits C_EXIT
  | _ :: _ :: _, [_] =>
    let '(t, s1) := new_name 0 K_TAIL s in p_insert_block s1 r t tails exits C_TAIL
  | _ :: _ :: _, _ :: _ :: _ =>
    let '(t, s1) := new_name 0 K_TAIL s in
    let '(e, s2) := new_name 0 K_EXIT s1 in
    do s3 <- p_insert_block s2 r t tails exits C_TAIL;
    p_insert_block s3 r e [t] exits C_EXIT
  | _, _ => PErr EAssert
  end.

(* ---------- transformations.extract_region ---------- *)
Definition region_header (s : pst) (r : name) : option (name * name) :=
  (* (header, exiting) recorded for region r; None for the top region *)
  match zassoc r (s_parent s) with
  | None => None
  | Some p => match zassoc p (s_store s) with
              | Some g => match gget g r with
                          | Some b => match p_kind b with PRegion _ hd ex => Some (hd, ex) | _ => None end
                          | None => None end
              | None => None end
  end.

Definition set_region_field (s : pst) (r : name) (f : pblk -> pblk) : pst :=
  match zassoc r (s_parent s) with
  | None => s
  | Some p => match zassoc p (s_store s) with
              | Some g => match gget g r with
                          | Some b => sput s p (dset g r (f b))
                          | None => s end
              | None => s end
  end.

Definition p_extract_region (s : pst) (r : name) (blocks : list name) (rk kcode : Z) : pres pst :=
  do he <- p_headers_entries s r blocks;
  do g0 <- sget s r;
  do xe <- p_exiting_exits g0 blocks;
  match fst he, fst xe with
  | [hd], [ex] =>
    let '(rname, s1) := new_name 1 kcode s in
    (* SCFG(...) for the sub-graph asks for a meta region name *)
    let '(_, s2) := new_name 1 K_META s1 in
    let sub := flat_map (fun x => match gget g0 x with Some b => [(x, b)] | None => [] end) (zsort blocks) in
    (* entries: rename the header to the region *)
    do s3 <- fold_left (fun acc e =>
               do sx <- acc;
               do g <- sget sx r;
               if negb (zmem e (gkeys g)) then
                 (if Z.eqb (rkind_of sx r) R_META then PErr EAssert else POk sx)
               else
                 match dpop g e with
                 | None => PErr EKey
                 | Some (eb, g1) =>
                   do eb1 <- p_replace_jt eb (rename hd rname (p_jt eb));
                   let eb2 := mkP (p_jt eb1) (rename hd rname (p_be eb1)) (p_kind eb1) in
                   let s0 := sput sx r g1 in
                   do sb <- (if is_pregion eb2 then update_exiting DEPTH s0 e eb2 hd rname else POk s0);
                   do g2 <- sget sb r;
                   POk (sput sb r (padd g2 e eb2))
                 end) (snd he) (POk s2);
    do g3 <- sget s3 r;
    match gget g3 ex with
    | None => PErr EKey
    | Some exb =>
      let region := mkP (pjts exb) [] (PRegion rk hd ex) in
      let g4 := filter (fun p => negb (zmem (fst p) blocks)) g3 in
      let s4 := sput (sput s3 r (padd g4 rname region)) rname sub in
      (* parents: the new region belongs to r; regions among its blocks now belong to it *)
      let par := dset (fold_left (fun acc p => if is_pregion (snd p) then dset acc (fst p) rname else acc)
                                 sub (s_parent s4)) rname r in
      let s5 := mkS (s_store s4) (s_gen s4) par in
      (* header / exiting of the region that holds r's graph *)
      let s6 := match region_header s5 r with
                | Some (phd, pex) =>
                  let s' := if Z.eqb hd phd
                            then set_region_field s5 r (fun b => match p_kind b with
                                   | PRegion k _ e => mkP (p_jt b) (p_be b) (PRegion k rname e) | _ => b end)
                            else s5 in
                  if Z.eqb ex pex
                  then set_region_field s' r (fun b => match p_kind b with
                         | PRegion k h _ => mkP (p_jt b) (p_be b) (PRegion k h rname) | _ => b end)
                  else s'
                | None => s5
                end in
      POk s6
    end
  | _, _ => PErr EAssert
  end.

(* ---------- transformations.loop_restructure_helper ---------- *)
Definition rev_lookup (tbl : list (Z * name)) (v : name) : Z :=
  match filter (fun p => Z.eqb (snd p) v) tbl with (k, _) :: _ => k | [] => -1 end.

Definition enumerate (l : list name) : list (Z * name) :=
  combine (map Z.of_nat (seq 0 (length l))) l.

Definition p_declare_backedge (b : pblk) (t : name) : pres pblk :=
  if zmem t (pjts b) then
    match p_be b with [] => POk (mkP (p_jt b) [t] (p_kind b)) | _ => PErr EAssert end
  else POk b.

(* the per-target work inside `for name in sorted(loop)`; returns the state and new_jt *)
Fixpoint p_loop_targets (s : pst) (r : name) (name_ : name) (jts_snapshot : list name) (new_jt : list name)
         (headers exit_blocks : list name) (needs_exit unified : bool)
         (exit_var back_var latch loop_head exit_target : name)
         (exit_tbl back_tbl header_tbl : list (Z * name)) (doms : list (name * list name))
         (new_blocks : list name)
  : pres (pst * list name * list name) :=
  match jts_snapshot with
  | [] => POk (s, new_jt, new_blocks)
  | jt :: rest =>
    if zmem jt exit_blocks then
      let '(a, s1) := new_name 0 K_ASSIGN s in
      let asg := (if needs_exit then [(exit_var, rev_lookup exit_tbl jt)] else []) ++
                 [(back_var, rev_lookup back_tbl exit_target)] in
      do g <- sget s1 r;
      let s2 := sput s1 r (padd g a (mkP [latch] [] (PLeaf (EAssign asg)))) in
      p_loop_targets s2 r name_ rest (replace_first jt a new_jt) headers exit_blocks needs_exit unified
                     exit_var back_var latch loop_head exit_target exit_tbl back_tbl header_tbl doms
                     (new_blocks ++ [a])
    else if zmem jt headers && (negb (zmem name_ (dset_of doms jt)) || Z.eqb name_ jt) then
      let '(a, s1) := new_name 0 K_ASSIGN s in
      let asg := [(back_var, rev_lookup back_tbl loop_head)] ++
                 (if needs_exit || unified then [(exit_var, rev_lookup header_tbl jt)] else []) in
      do g <- sget s1 r;
      match dpop g name_ with
      | None => PErr EKey
      | Some (b, g1) =>
        let jts' := fold_left (fun acc h => remove_first h acc) headers (pjts b) in
        do b1 <- p_replace_jt b jts';
        let g2 := padd (padd g1 name_ b1) a (mkP [latch] [] (PLeaf (EAssign asg))) in
        p_loop_targets (sput s1 r g2) r name_ rest (replace_first jt a new_jt) headers exit_blocks needs_exit
                       unified exit_var back_var latch loop_head exit_target exit_tbl back_tbl header_tbl doms
                       (new_blocks ++ [a])
      end
    else
      p_loop_targets s r name_ rest new_jt headers exit_blocks needs_exit unified exit_var back_var latch
                     loop_head exit_target exit_tbl back_tbl header_tbl doms new_blocks
  end.

(* returns the state and the (grown) loop *)
Definition p_loop_helper (s : pst) (r : name) (loop : list name) : pres (pst * list name) :=
  do he <- p_headers_entries s r loop;
  do g0 <- sget s r;
  do xe <- p_exiting_exits g0 loop;
  let headers := fst he in let entries := snd he in
  let exiting := fst xe in let exit_blocks := snd xe in
  let unified := match headers with _ :: _ :: _ => true | _ => false end in
  do x <- (if unified then
             let '(h, s1) := new_name 0 K_HEAD s in
             do s2 <- p_insert_cb s1 r h entries headers; POk (s2, h, loop ++ [h])
           else match headers with
                | [h] => POk (s, h, loop)
                | _ => PErr EAssert end);
  let '(s1, loop_head, loop1) := x in
  do g1 <- sget s1 r;
  let backedge_blocks := filter (fun b => match gget g1 b with
                                          | Some bb => existsb (fun t => zmem t headers) (pjts bb)
                                          | None => false end) loop1 in
  let early := match backedge_blocks, exiting with
               | [bb], [xb] => Z.eqb bb xb
               | _, _ => false end in
  if early then
    match backedge_blocks with
    | bb :: _ =>
      match dpop g1 bb with
      | None => PErr EKey
      | Some (b, g2) => do b1 <- p_declare_backedge b loop_head; POk (sput s1 r (padd g2 bb b1), loop1)
      end
    | [] => PErr EAssert
    end
  else
    let '(latch, s2) := new_name 0 K_LATCH s1 in
    let needs := match exit_blocks with _ :: _ :: _ => true | _ => false end in
    let '(sexit, s3) := if needs then new_name 0 K_EXIT s2 else (0, s2) in
    let head_branch := match gget g1 loop_head with
                       | Some hb => match p_kind hb with
                                    | PLeaf (EBranch _ v tbl) => Some (v, tbl)
                                    | _ => None end
                       | None => None end in
    do y <- (if unified then
               match head_branch with
               | Some (v, tbl) => POk (v, tbl, s3)
               | None => PErr EAssert end
             else let '(v, s') := new_name 2 K_VEXIT s3 in POk (v, [], s'));
    let '(exit_var, header_tbl, s4) := y in
    let '(back_var, s5) := new_name 2 K_BACKEDGE s4 in
    let exit_tbl := enumerate exit_blocks in
    do exit_target <- (if needs then POk sexit
                       else match exit_blocks with e :: _ => POk e | [] => PErr EStop end);
    let back_tbl := [(0, loop_head); (1, exit_target)] in
    do g5 <- sget s5 r;
    do doms <- p_doms g5;
    do z <- fold_left (fun acc name_ =>
              do a <- acc;
              let '(sa, nb) := a in
              if zmem name_ exiting || zmem name_ backedge_blocks then
                do ga <- sget sa r;
                match gget ga name_ with
                | None => PErr EKey
                | Some b =>
                  do t <- p_loop_targets sa r name_ (pjts b) (pjts b) headers exit_blocks needs unified
                            exit_var back_var latch loop_head exit_target exit_tbl back_tbl header_tbl doms nb;
                  let '(sb, new_jt, nb') := t in
                  do gb <- sget sb r;
                  match dpop gb name_ with
                  | None => PErr EKey
                  | Some (b0, gb1) =>
                    do b1 <- p_replace_jt b0 new_jt;
                    POk (sput sb r (padd gb1 name_ b1), nb')
                  end
                end
              else POk (sa, nb)) (zsort loop1) (POk (s5, []));
    let '(s6, new_blocks) := z in
    do g6 <- sget s6 r;
    let g7 := padd g6 latch (mkP [exit_target; loop_head] [loop_head] (PLeaf (EBranch C_LATCH back_var back_tbl))) in
    let g8 := if needs then padd g7 sexit (mkP exit_blocks [] (PLeaf (EBranch C_EXITBRANCH exit_var exit_tbl)))
              else g7 in
    POk (sput s6 r g8, loop1 ++ new_blocks ++ [latch]).

(* transformations.restructure_loop on the graph of region r *)
Definition p_restructure_loop (s : pst) (r : name) : pres pst :=
  do g <- sget s r;
  do scc <- p_scc g;
  let loops := filter (fun c => match c with
                                | [x] => match gget g x with Some b => zmem x (pjts b) | None => false end
                                | _ => true end) scc in
  fold_left (fun acc loop =>
    do sa <- acc;
    do x <- p_loop_helper sa r loop;
    let '(sb, loop') := x in
    p_extract_region sb r loop' R_LOOP K_LOOP) loops (POk s).

(* ---------- branch restructuring ---------- *)
(* ConcealedRegionView iteration over the graph of region r *)
Fixpoint p_view (fuel : nat) (s : pst) (g : pgraph) (queue seen : list name) (out : list name)
  : pres (list name) :=
  match fuel with
  | O => PErr EFuel
  | S f =>
    match queue with
    | [] => POk out
    | x :: rest =>
      if zmem x seen then p_view f s g rest seen out
      else
        match gget g x with
        | None => p_view f s g rest (x :: seen) out
        | Some b =>
          do nexts <- (match p_kind b with
                       | PRegion _ _ ex =>
                         do gx <- sget s x;
                         match gget gx ex with Some xb => POk (pjts xb) | None => PErr EKey end
                       | _ => POk (pjts b) end);
          p_view f s g (rest ++ nexts) (x :: seen) (out ++ [x])
        end
    end
  end.

Definition p_first_branch_region (s : pst) (g : pgraph) : pres (option (name * name)) :=
  do h <- p_find_head g;
  do order <- p_view (pfuel g * pfuel g) s g [h] [] [];
  do doms <- p_doms g;
  do pdoms <- p_postdoms g;
  let fix go (l : list name) : pres (option (name * name)) :=
    match l with
    | [] => POk None
    | b :: rest =>
      match gget g b with
      | None => PErr EKey
      | Some bb =>
        match pjts bb with
        | _ :: _ :: _ =>
          match imm_dom pdoms b with
          | Some e =>
            match imm_dom doms e with
            | Some d => if Z.eqb d b then POk (Some (b, e)) else go rest
            | None => PErr EKey
            end
          | None => go rest
          end
        | _ => go rest
        end
      end
    end in
  go order.

Fixpoint p_head_blocks (fuel : nat) (g : pgraph) (cur begin_ : name) (acc : list name) : pres (list name) :=
  match fuel with
  | O => PErr EFuel
  | S f =>
    let acc' := zadd cur acc in
    if Z.eqb cur begin_ then POk acc'
    else match gget g cur with
         | None => PErr EKey
         | Some b => match pjts b with
                     | [t] => p_head_blocks f g t begin_ acc'
                     | _ => PErr EAssert end
         end
  end.

Definition p_find_head_blocks (g : pgraph) (begin_ : name) : pres (list name) :=
  do h <- p_find_head g; p_head_blocks (pfuel g) g h begin_ [].

(* None = the placeholder for an empty branch *)
Definition p_branch_regions (g : pgraph) (begin_ end_ : name) : pres (list (option (name * list name))) :=
  do doms <- p_doms g;
  match gget g begin_ with
  | None => PErr EKey
  | Some bb =>
    let jts := pjts bb in
    fold_left (fun acc bra =>
      do l <- acc;
      (* the inner for/else: the first other target that reaches bra decides; a KeyError on the way is raised *)
      let fix scan (ts : list name) : pres bool :=
        match ts with
        | [] => POk false
        | t :: rest => if Z.eqb t bra then scan rest
                       else do rch <- p_reach g t bra; if rch then POk true else scan rest
        end in
      do reached <- scan jts;
      if reached then POk (l ++ [None])
      else POk (l ++ [Some (bra, filter (fun k => zmem bra (dset_of doms k) && negb (zmem end_ (dset_of doms k)))
                                        (gkeys g))])) jts (POk [])
  end.

Definition p_tail_blocks (g : pgraph) (begin_ : name) (heads : list name)
           (regions : list (option (name * list name))) : list name :=
  let drop := begin_ :: heads ++ flat_map (fun o => match o with Some (b, sub) => b :: sub | None => [] end) regions in
  filter (fun k => negb (zmem k drop)) (gkeys g).

Definition p_restructure_branch (s : pst) (r : name) : pres pst :=
  do g <- sget s r;
  do fr <- p_first_branch_region s g;
  match fr with
  | None => POk s
  | Some (begin_, end0) =>
    do heads <- p_find_head_blocks g begin_;
    do regs <- p_branch_regions g begin_ end0;
    let tails := p_tail_blocks g begin_ heads regs in
    do he <- p_headers_entries s r tails;
    do x <- (match fst he with
             | _ :: _ :: _ =>
               let '(e, s1) := new_name 0 K_HEAD s in
               do s2 <- p_insert_cb s1 r e (snd he) (fst he); POk (s2, e)
             | _ => POk (s, end0) end);
    let '(s1, end_) := x in
    do g1 <- sget s1 r;
    do heads1 <- p_find_head_blocks g1 begin_;
    do regs1 <- p_branch_regions g1 begin_ end_;
    let tails1 := p_tail_blocks g1 begin_ heads1 regs1 in
    do s2 <- fold_left (fun acc reg =>
               do sa <- acc;
               match reg with
               | Some (_, []) => POk sa
               | Some (_, inner) =>
                 do ga <- sget sa r;
                 do xe <- p_exiting_exits ga inner;
                 do th <- p_headers_entries sa r tails1;
                 p_join_tails_exits sa r (fst xe) (fst th)
               | None =>
                 do th <- p_headers_entries sa r tails1;
                 let '(f, sb) := new_name 0 K_FILL sa in
                 p_insert_block sb r f [begin_] (fst th) C_FILL
               end) regs1 (POk s1);
    do g2 <- sget s2 r;
    do heads2 <- p_find_head_blocks g2 begin_;
    do regs2 <- p_branch_regions g2 begin_ end_;
    let tails2 := p_tail_blocks g2 begin_ heads2 regs2 in
    do s3 <- p_extract_region s2 r heads2 R_HEAD K_RHEAD;
    do s4 <- fold_left (fun acc reg =>
               do sa <- acc;
               match reg with
               | Some (_, ((_ :: _) as inner)) => p_extract_region sa r inner R_BRANCH K_BRANCH
               | _ => POk sa end) regs2 (POk s3);
    p_extract_region s4 r tails2 R_TAIL K_RTAIL
  end.

(* ---------- SCFG.restructure_loop / restructure_branch: the region itself, then
   every sub-region in the order of iter_subregions (a live pre-order walk) ---------- *)
Fixpoint p_walk (pass : pst -> name -> pres pst) (fuel : nat) (s : pst) (r : name) : pres pst :=
  match fuel with
  | O => PErr EFuel
  | S f =>
    do g <- sget s r;
    fold_left (fun acc k =>
      do sa <- acc;
      do ga <- sget sa r;
      match gget ga k with
      | Some b => if is_pregion b then do sb <- pass sa k; p_walk pass f sb k else POk sa
      | None => POk sa
      end) (gkeys g) (POk s)
  end.

Definition p_pass (pass : pst -> name -> pres pst) (s : pst) (top : name) : pres pst :=
  do s1 <- pass s top; p_walk pass DEPTH s1 top.

Definition p_stage (k : Z) (s : pst) (top : name) : pres pst :=
  if Z.eqb k 0 then p_join_returns s top
  else if Z.eqb k 1 then p_pass p_restructure_loop s top
  else p_pass p_restructure_branch s top.

End Pipeline.

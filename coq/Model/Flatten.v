(* Flatten.v — the flat walk of ANY hierarchy is the walk of a flat graph.
   RL h: the blocks of every level (regions dropped), every successor and table
   target replaced by the block it resolves to (a region name stands for its
   header, recursively).  Under mild, decidable conditions (distinct names, every
   arc resolves, table targets are successors) the flat walk of h and the walk of
   the flat hierarchy ehier top (RL h) coincide, in both directions - two
   instances of the refinement theorem with empty bridges.  This reduces a
   statement about the flat walk of nested hierarchies to one about flat graphs. *)
From Coq Require Import List ZArith Bool Lia.
Import ListNotations.
From V Require Import Valid.Hier Valid.Walk Valid.FlatRegion Model.Graph Model.Edits Model.Edits2 Model.JoinPath
     Model.Refine Model.CbPath Model.ExtractPath Model.LoopEdit Model.Extract Model.CbHier Model.LoopHier.
Local Open Scope Z_scope.

Definition rho (h : hier) (t : name) : name :=
  match enter_flat h (S (length h)) t with Some c => c | None => t end.

Definition rl (h : hier) (n : node) : eblk :=
  mkE (map (rho h) (n_jt n)) (map (rho h) (n_be n))
      (match n_kind n with
       | KBranch c v t => EBranch c v (map (fun p => (fst p, rho h (snd p))) t)
       | k => ekind_of k
       end).

Definition RL (h : hier) : egraph :=
  flat_map (fun n => if is_region n then [] else [(n_name n, rl h n)]) h.

Lemma RL_none h0 h x : ~ In x (names h) ->
  efind (flat_map (fun n => if is_region n then [] else [(n_name n, rl h0 n)]) h) x = None.
Proof.
  induction h as [|n r IH]; intros Hx; [reflexivity|]. cbn [flat_map].
  assert (Hn : n_name n <> x) by (intros E; apply Hx; left; exact E).
  assert (Hr : ~ In x (names r)) by (intros Hi; apply Hx; right; exact Hi).
  destruct (is_region n); cbn [app]; [apply IH; exact Hr|].
  unfold efind. cbn [zassoc]. destruct (Z.eqb_spec x (n_name n)); [congruence|]. apply IH. exact Hr.
Qed.

Lemma efind_RL_gen h0 h x : NoDup (names h) ->
  efind (flat_map (fun n => if is_region n then [] else [(n_name n, rl h0 n)]) h) x =
  match find h x with Some n => if is_region n then None else Some (rl h0 n) | None => None end.
Proof.
  induction h as [|n r IH]; intros Hnd; [reflexivity|]. cbn [flat_map find names map] in *.
  inversion Hnd as [|? ? Hnx Hnr]; subst.
  destruct (Z.eqb_spec (n_name n) x) as [E|E].
  - subst x. destruct (is_region n); cbn [app]; [apply RL_none; exact Hnx|].
    unfold efind. cbn [zassoc]. rewrite Z.eqb_refl. reflexivity.
  - destruct (is_region n); cbn [app]; [apply IH; exact Hnr|].
    unfold efind. cbn [zassoc]. destruct (Z.eqb_spec x (n_name n)); [congruence|]. apply IH. exact Hnr.
Qed.

Lemma zassoc_map_snd {A B} (f : A -> B) z (tbl : list (Z * A)) :
  zassoc z (map (fun p => (fst p, f (snd p))) tbl) = option_map f (zassoc z tbl).
Proof.
  induction tbl as [|[k v] r IH]; [reflexivity|]. cbn. destruct (Z.eqb z k); [reflexivity|exact IH].
Qed.

Lemma edge0 h' r r' strict (F : Z -> Prop) (Old : name -> Prop) x t t' c :
  r x t = Some c -> Old c -> r' x t' = Some c -> Edge h' r r' strict F Old x t t'.
Proof.
  intros H1 H2 H3 e e' He. exists c, c, 0%nat, e'. split; [exact H1|]. split; [exact H2|]. split; [exact H3|].
  split; [exact He|]. intros fuel. reflexivity.
Qed.

Section Flatten.
Variables (h : hier) (top : name) (strict : bool).
Hypothesis Hnd : NoDup (names h).
Hypothesis Htop : ~ In top (names h).
Hypothesis Hplain : forall n, In n h -> n_kind n <> KPlain 100.
Hypothesis Hres : forall x n t, find h x = Some n -> is_region n = false -> In t (n_jt n) ->
  enter_flat h (S (length h)) t <> None.
Hypothesis Htab : forall x n c v tbl z t, find h x = Some n -> n_kind n = KBranch c v tbl ->
  zassoc z tbl = Some t -> In t (n_jt n).

Definition H0 : hier := ehier top (RL h).
Let r := resolve_flat h.
Let r0 := resolve_flat H0.
Definition Leaf (x : name) : Prop := exists n, find h x = Some n /\ is_region n = false.
Definition F0 (v : Z) : Prop := False.

Lemma efind_RL x : efind (RL h) x =
  match find h x with Some n => if is_region n then None else Some (rl h n) | None => None end.
Proof. apply efind_RL_gen. exact Hnd. Qed.

Lemma leaf_ne_top x : Leaf x -> x <> top.
Proof. intros [n [Hn _]] ->. apply Htop. destruct (find_In _ _ _ Hn) as [Hi Hname]. unfold names. rewrite <- Hname. apply in_map. exact Hi. Qed.

Lemma find_H0 x n : find h x = Some n -> is_region n = false -> find H0 x = Some (node_of top (x, rl h n)).
Proof.
  intros Hn Hl. unfold H0. rewrite find_ehier by (apply leaf_ne_top; exists n; auto).
  rewrite efind_RL, Hn, Hl. reflexivity.
Qed.

Lemma leaf_H0 x n : is_region (node_of top (x, rl h n)) = false.
Proof.
  unfold is_region, node_of. cbn. pose proof (kind_of_not_region (rl h n)). destruct (kind_of (rl h n)); try reflexivity. contradiction.
Qed.

Lemma res_h x t c : enter_flat h (S (length h)) t = Some c -> r x t = Some c /\ rho h t = c /\ Leaf c.
Proof.
  intros E. split; [exact E|]. split; [unfold rho; rewrite E; reflexivity|].
  destruct (enter_flat_result h _ _ _ E) as [n [Hn Hl]]. exists n. auto.
Qed.

Lemma res_H0 x c : Leaf c -> r0 x c = Some c.
Proof.
  intros [n [Hn Hl]]. unfold r0, resolve_flat. eapply enter_flat_leaf; [apply (find_H0 c n Hn Hl)|apply leaf_H0].
Qed.

Lemma arc x n t : find h x = Some n -> is_region n = false -> In t (n_jt n) ->
  exists c, r x t = Some c /\ Leaf c /\ r0 x (rho h t) = Some c.
Proof.
  intros Hn Hl Ht. destruct (enter_flat h (S (length h)) t) as [c|] eqn:E; [|exfalso; exact (Hres x n t Hn Hl Ht E)].
  destruct (res_h x t c E) as [A [B C]]. exists c. split; [exact A|]. split; [exact C|]. rewrite B. apply res_H0. exact C.
Qed.

Lemma kind_rl_orig n p : n_kind n = KOrig p -> kind_of (rl h n) = KOrig 1.
Proof. intros E. unfold kind_of, rl. cbn. rewrite E. reflexivity. Qed.

Lemma kind_rl_plain n c : In n h -> n_kind n = KPlain c -> kind_of (rl h n) = KPlain c.
Proof.
  intros Hi E. unfold kind_of, rl. cbn. rewrite E. cbn. destruct (Z.eqb_spec c 100) as [->|]; [|reflexivity].
  exfalso. exact (Hplain n Hi E).
Qed.

(* ---------- h is refined by its flat graph ---------- *)
Lemma hold_fwd : forall x, Leaf x -> exists b b', find h x = Some b /\ find H0 x = Some b' /\
  Compat H0 r r0 strict F0 Leaf x b b'.
Proof.
  intros x [n [Hn Hl]]. exists n, (node_of top (x, rl h n)). split; [exact Hn|]. split; [apply find_H0; assumption|].
  destruct (find_In _ _ _ Hn) as [Hin _].
  assert (Hedge : forall t, In t (n_jt n) -> Edge H0 r r0 strict F0 Leaf x t (rho h t)).
  { intros t Ht. destruct (arc x n t Hn Hl Ht) as [c [A [B C]]]. eapply edge0; eauto. }
  unfold Compat, node_of. cbn [n_kind n_jt fst snd]. unfold is_region in Hl.
  destruct (n_kind n) as [p|c0|a|c0 v tbl|? ? ? ? ? ?] eqn:Hk; try discriminate.
  - rewrite (kind_rl_orig n p Hk). cbn [rl e_jt]. split; [rewrite map_length; reflexivity|].
    intros d t t' Ht Ht'. rewrite nth_error_map, Ht in Ht'. injection Ht' as <-. apply Hedge. eapply nth_error_In; eauto.
  - rewrite (kind_rl_plain n c0 Hin Hk). cbn [rl e_jt].
    destruct (n_jt n) as [|t [|t2 rr]] eqn:Ej.
    + left. auto.
    + right. left. exists t, (rho h t). split; [reflexivity|]. split; [reflexivity|]. apply Hedge. left; reflexivity.
    + right. right. cbn [map]. eauto 10.
  - assert (Ek : kind_of (rl h n) = KAssign a) by (unfold kind_of, rl; cbn; rewrite Hk; reflexivity).
    rewrite Ek. cbn [rl e_jt]. split; [reflexivity|]. split; [intros p _ []|].
    destruct (n_jt n) as [|t [|t2 rr]] eqn:Ej.
    + right. cbn. split; discriminate.
    + left. exists t, (rho h t). split; [reflexivity|]. split; [reflexivity|]. apply Hedge. left; reflexivity.
    + right. cbn. split; discriminate.
  - assert (Ek : kind_of (rl h n) = KBranch c0 v (map (fun p => (fst p, rho h (snd p))) tbl))
      by (unfold kind_of, rl; cbn; rewrite Hk; reflexivity).
    rewrite Ek. split; [reflexivity|]. split; [intros []|]. intros z. unfold proceed. cbn [n_jt rl e_jt].
    rewrite zassoc_map_snd. destruct (zassoc z tbl) as [t|] eqn:Hz; cbn [option_map]; [|exact I].
    pose proof (Htab x n c0 v tbl z t Hn Hk Hz) as Hin_t.
    assert (zmem t (n_jt n) = true) as -> by (apply zmem_In; exact Hin_t).
    assert (zmem (rho h t) (map (rho h) (n_jt n)) = true) as -> by (apply zmem_In; apply in_map; exact Hin_t).
    apply Hedge. exact Hin_t.
Qed.

(* ---------- and the flat graph by h ---------- *)
Lemma hold_bwd : forall x, Leaf x -> exists b' b, find H0 x = Some b' /\ find h x = Some b /\
  Compat h r0 r strict F0 Leaf x b' b.
Proof.
  intros x [n [Hn Hl]]. exists (node_of top (x, rl h n)), n. split; [apply find_H0; assumption|]. split; [exact Hn|].
  destruct (find_In _ _ _ Hn) as [Hin _].
  assert (Hedge : forall t, In t (n_jt n) -> Edge h r0 r strict F0 Leaf x (rho h t) t).
  { intros t Ht. destruct (arc x n t Hn Hl Ht) as [c [A [B C]]]. eapply edge0; eauto. }
  unfold Compat, node_of. cbn [n_kind n_jt fst snd]. unfold is_region in Hl.
  destruct (n_kind n) as [p|c0|a|c0 v tbl|? ? ? ? ? ?] eqn:Hk; try discriminate.
  - rewrite (kind_rl_orig n p Hk). cbn [rl e_jt]. split; [rewrite map_length; reflexivity|].
    intros d t' t Ht' Ht. rewrite nth_error_map, Ht in Ht'. injection Ht' as <-. apply Hedge. eapply nth_error_In; eauto.
  - rewrite (kind_rl_plain n c0 Hin Hk). cbn [rl e_jt].
    destruct (n_jt n) as [|t [|t2 rr]] eqn:Ej.
    + left. auto.
    + right. left. exists (rho h t), t. split; [reflexivity|]. split; [reflexivity|]. apply Hedge. left; reflexivity.
    + right. right. cbn [map]. eauto 10.
  - assert (Ek : kind_of (rl h n) = KAssign a) by (unfold kind_of, rl; cbn; rewrite Hk; reflexivity).
    rewrite Ek. cbn [rl e_jt]. split; [reflexivity|]. split; [intros p _ []|].
    destruct (n_jt n) as [|t [|t2 rr]] eqn:Ej.
    + right. cbn. split; discriminate.
    + left. exists (rho h t), t. split; [reflexivity|]. split; [reflexivity|]. apply Hedge. left; reflexivity.
    + right. cbn. split; discriminate.
  - assert (Ek : kind_of (rl h n) = KBranch c0 v (map (fun p => (fst p, rho h (snd p))) tbl))
      by (unfold kind_of, rl; cbn; rewrite Hk; reflexivity).
    rewrite Ek. split; [reflexivity|]. split; [intros []|]. intros z. unfold proceed. cbn [n_jt rl e_jt].
    rewrite zassoc_map_snd. destruct (zassoc z tbl) as [t|] eqn:Hz; cbn [option_map]; [|exact I].
    pose proof (Htab x n c0 v tbl z t Hn Hk Hz) as Hin_t.
    assert (zmem t (n_jt n) = true) as -> by (apply zmem_In; exact Hin_t).
    assert (zmem (rho h t) (map (rho h) (n_jt n)) = true) as -> by (apply zmem_In; apply in_map; exact Hin_t).
    apply Hedge. exact Hin_t.
Qed.

Lemma E_refl e : E F0 e e.
Proof. intros v _. reflexivity. Qed.

Theorem flatten_walk n e ds tr st :
  (exists b p, find h n = Some b /\ n_kind b = KOrig p) ->
  (WTrace h r strict n e ds tr st <-> WTrace H0 r0 strict n e ds tr st).
Proof.
  intros [b [p [Hb Hk]]].
  assert (Hl : Leaf n) by (exists b; split; [exact Hb|unfold is_region; rewrite Hk; reflexivity]).
  split; intros W.
  - apply (walk_refines h H0 r r0 strict F0 Leaf hold_fwd n e ds tr st W e Hl); [eauto|apply E_refl].
  - apply (walk_refines H0 h r0 r strict F0 Leaf hold_bwd n e ds tr st W e Hl); [|apply E_refl].
    exists (node_of top (n, rl h b)), 1. split; [apply find_H0; [exact Hb|unfold is_region; rewrite Hk; reflexivity]|].
    unfold node_of. cbn [n_kind]. apply (kind_rl_orig b p Hk).
Qed.

Theorem flatten_ctrace n e ds :
  (exists b p, find h n = Some b /\ n_kind b = KOrig p) ->
  (CTrace h r strict n e ds <-> CTrace H0 r0 strict n e ds).
Proof.
  intros [b [p [Hb Hk]]].
  assert (Hl : Leaf n) by (exists b; split; [exact Hb|unfold is_region; rewrite Hk; reflexivity]).
  split; intros W.
  - apply (ctrace_refines h H0 r r0 strict F0 Leaf hold_fwd n e ds W e Hl); [eauto|apply E_refl].
  - apply (ctrace_refines H0 h r0 r strict F0 Leaf hold_bwd n e ds W e Hl); [|apply E_refl].
    exists (node_of top (n, rl h b)), 1. split; [apply find_H0; [exact Hb|unfold is_region; rewrite Hk; reflexivity]|].
    unfold node_of. cbn [n_kind]. apply (kind_rl_orig b p Hk).
Qed.
End Flatten.

(* ---------- the walk of a flat hierarchy depends on the graph only through efind ---------- *)
Lemma compat_refl h' r r' strict (F : Z -> Prop) (Old : name -> Prop) x b :
  is_region b = false ->
  (forall t, In t (n_jt b) -> Edge h' r r' strict F Old x t t) ->
  (forall a, n_kind b = KAssign a -> forall p, In p a -> ~ F (fst p)) ->
  (forall c v tbl, n_kind b = KBranch c v tbl -> ~ F v) ->
  Compat h' r r' strict F Old x b b.
Proof.
  intros Hl Hedge Ha Hb. unfold Compat. unfold is_region in Hl.
  destruct (n_kind b) as [p|c0|a|c0 v tbl|? ? ? ? ? ?] eqn:Hk; try discriminate.
  - split; [reflexivity|]. intros d t t' Ht Ht'. rewrite Ht in Ht'. injection Ht' as <-. apply Hedge. eapply nth_error_In; eauto.
  - destruct (n_jt b) as [|t [|t2 rr]] eqn:Ej.
    + left. auto.
    + right. left. exists t, t. split; [reflexivity|]. split; [reflexivity|]. apply Hedge. left; reflexivity.
    + right. right. eauto 10.
  - split; [reflexivity|]. split; [apply (Ha a eq_refl)|].
    destruct (n_jt b) as [|t [|t2 rr]] eqn:Ej.
    + right. cbn. split; discriminate.
    + left. exists t, t. split; [reflexivity|]. split; [reflexivity|]. apply Hedge. left; reflexivity.
    + right. cbn. split; discriminate.
  - split; [reflexivity|]. split; [apply (Hb c0 v tbl eq_refl)|]. intros z. unfold proceed.
    destruct (zassoc z tbl) as [t|]; [|exact I]. destruct (zmem t (n_jt b)) eqn:Hm; [|exact I].
    apply Hedge. apply zmem_In. exact Hm.
Qed.

Section EhierCongr.
Variables (g1 g2 : egraph) (top : name) (strict : bool).
Hypothesis Hsame : forall x, efind g1 x = efind g2 x.
Hypothesis Htop1 : ~ In top (ekeys g1).
(* closed: every successor is a block *)
Hypothesis Hclosed : forall x b t, efind g1 x = Some b -> In t (e_jt b) -> efind g1 t <> None.

Let h1 := ehier top g1.
Let h2 := ehier top g2.
Definition K1 (x : name) : Prop := In x (ekeys g1).

Lemma k1_ne_top x : K1 x -> x <> top.
Proof. intros H ->. exact (Htop1 H). Qed.

Lemma find_h1 x b : efind g1 x = Some b -> find h1 x = Some (node_of top (x, b)).
Proof.
  intros Hb. unfold h1. rewrite find_ehier by (apply k1_ne_top; eapply efind_keys; eauto). rewrite Hb. reflexivity.
Qed.

Lemma find_h2 x b : efind g1 x = Some b -> find h2 x = Some (node_of top (x, b)).
Proof.
  intros Hb. unfold h2. rewrite find_ehier by (apply k1_ne_top; eapply efind_keys; eauto). rewrite <- Hsame, Hb. reflexivity.
Qed.

Lemma leaf_node x b : is_region (node_of top (x, b)) = false.
Proof.
  unfold is_region, node_of. cbn. pose proof (kind_of_not_region b). destruct (kind_of b); try reflexivity. contradiction.
Qed.

Lemma hold_congr (hA hB : hier) :
  (forall x b, efind g1 x = Some b -> find hA x = Some (node_of top (x, b))) ->
  (forall x b, efind g1 x = Some b -> find hB x = Some (node_of top (x, b))) ->
  forall x, K1 x -> exists b b', find hA x = Some b /\ find hB x = Some b' /\
    Compat hB (resolve_flat hA) (resolve_flat hB) strict F0 K1 x b b'.
Proof.
  intros HA HB x Hx. destruct (keys_efind g1 x Hx) as [b Hb].
  exists (node_of top (x, b)), (node_of top (x, b)). split; [apply HA; exact Hb|]. split; [apply HB; exact Hb|].
  apply compat_refl.
  - apply leaf_node.
  - intros t Ht. cbn [node_of n_jt fst snd] in Ht.
    destruct (efind g1 t) as [bt|] eqn:Et; [|exfalso; exact (Hclosed x b t Hb Ht Et)].
    apply (edge0 hB _ _ strict F0 K1 x t t t).
    + unfold resolve_flat. eapply enter_flat_leaf; [apply HA; exact Et|apply leaf_node].
    + eapply efind_keys; eauto.
    + unfold resolve_flat. eapply enter_flat_leaf; [apply HB; exact Et|apply leaf_node].
  - intros a _ p _ [].
  - intros c v tbl _ [].
Qed.

Theorem ehier_congr n e ds tr st :
  (exists b, efind g1 n = Some b /\ e_kind b = EPlain 100) ->
  (WTrace h1 (resolve_flat h1) strict n e ds tr st <-> WTrace h2 (resolve_flat h2) strict n e ds tr st).
Proof.
  intros [b [Hb Hk]].
  assert (Hn : K1 n) by (eapply efind_keys; eauto).
  assert (Ho1 : exists b0 p, find h1 n = Some b0 /\ n_kind b0 = KOrig p).
  { exists (node_of top (n, b)), 1. split; [apply find_h1; exact Hb|]. unfold node_of, kind_of. cbn. rewrite Hk. reflexivity. }
  assert (Ho2 : exists b0 p, find h2 n = Some b0 /\ n_kind b0 = KOrig p).
  { exists (node_of top (n, b)), 1. split; [apply find_h2; exact Hb|]. unfold node_of, kind_of. cbn. rewrite Hk. reflexivity. }
  split; intros W.
  - apply (walk_refines h1 h2 _ _ strict F0 K1 (hold_congr h1 h2 find_h1 find_h2) n e ds tr st W e Hn Ho1). intros v _. reflexivity.
  - apply (walk_refines h2 h1 _ _ strict F0 K1 (hold_congr h2 h1 find_h2 find_h1) n e ds tr st W e Hn Ho2). intros v _. reflexivity.
Qed.

Theorem ehier_congr_c n e ds :
  (exists b, efind g1 n = Some b /\ e_kind b = EPlain 100) ->
  (CTrace h1 (resolve_flat h1) strict n e ds <-> CTrace h2 (resolve_flat h2) strict n e ds).
Proof.
  intros [b [Hb Hk]].
  assert (Hn : K1 n) by (eapply efind_keys; eauto).
  assert (Ho1 : exists b0 p, find h1 n = Some b0 /\ n_kind b0 = KOrig p).
  { exists (node_of top (n, b)), 1. split; [apply find_h1; exact Hb|]. unfold node_of, kind_of. cbn. rewrite Hk. reflexivity. }
  assert (Ho2 : exists b0 p, find h2 n = Some b0 /\ n_kind b0 = KOrig p).
  { exists (node_of top (n, b)), 1. split; [apply find_h2; exact Hb|]. unfold node_of, kind_of. cbn. rewrite Hk. reflexivity. }
  split; intros W.
  - apply (ctrace_refines h1 h2 _ _ strict F0 K1 (hold_congr h1 h2 find_h1 find_h2) n e ds W e Hn Ho1). intros v _. reflexivity.
  - apply (ctrace_refines h2 h1 _ _ strict F0 K1 (hold_congr h2 h1 find_h2 find_h1) n e ds W e Hn Ho2). intros v _. reflexivity.
Qed.
End EhierCongr.

(* Total.v — the edits never abort (property C02, edit by edit, for ALL graphs).
   The models return an explicit result for every exception the Python can raise
   (KeyError, AssertionError: Edits.res / Extract.xres, None for the value-table
   assertion).  Here: under the preconditions the callers establish (the blocks
   named exist, the generator hands out enough fresh names) every edit returns
   Ok.  The only assertion inside the edits is the one of
   SyntheticBranch.replace_jump_targets; it cannot fire when the arity is kept
   (table_rewrite_same_arity), and every edit of header unification and region
   extraction keeps the arity (replace_first, rename1). *)
From Coq Require Import List ZArith Bool Lia.
Import ListNotations.
From V Require Import Valid.Hier Model.Graph Model.Edits Model.Edits2 Model.Edits3 Model.LoopEdit Model.LoopSpec.
Local Open Scope Z_scope.

(* ---------- the value-table assertion ---------- *)
Lemma table_rewrite_same_arity tbl new_jt all_old :
  length new_jt = length all_old ->
  forall old_jt idx acc, (idx + length old_jt = length all_old)%nat ->
    table_rewrite tbl old_jt new_jt all_old idx acc <> None.
Proof.
  intros Hlen. induction old_jt as [|t r IH]; intros idx acc Hi; simpl; [discriminate|].
  simpl in Hi. destruct (zmem t new_jt); [apply IH; lia|].
  rewrite (proj2 (Nat.eqb_eq _ _) Hlen).
  destruct (nth_error new_jt idx) eqn:E; [apply IH; lia|].
  apply nth_error_None in E. lia.
Qed.

Lemma replace_jt_total b jt' : length jt' = length (e_jt b) -> exists b', replace_jt b jt' = Some b'.
Proof.
  intros Hl. unfold replace_jt. destruct (e_kind b) as [c|a|c v tbl]; eauto.
  destruct (table_rewrite tbl (e_jt b) jt' (e_jt b) 0 []) eqn:E; eauto.
  exfalso. revert E. apply table_rewrite_same_arity; auto.
Qed.

Lemma zinsert_length x l : (length (zinsert x l) <= S (length l))%nat.
Proof.
  induction l as [|y r IH]; simpl; [lia|].
  destruct (Z.ltb x y); simpl; [lia|]. destruct (Z.eqb x y); simpl; lia.
Qed.

Lemma zsort_length l : (length (zsort l) <= length l)%nat.
Proof.
  induction l as [|x r IH]; simpl; [lia|]. pose proof (zinsert_length x (zsort r)). lia.
Qed.

Lemma dpop_total {A} (g : list (Z * A)) k v : zassoc k g = Some v -> exists r, dpop g k = Some (v, r).
Proof.
  induction g as [|[k' v'] g' IH]; simpl; [discriminate|].
  destruct (Z.eqb k k'); [intros [= ->]; eauto|].
  intros H. destruct (IH H) as [r Hr]. rewrite Hr. eauto.
Qed.

Lemma In_skipn {A} (a : A) : forall n l, In a (skipn n l) -> In a l.
Proof.
  induction n as [|n IHn]; intros l Ha; [exact Ha|].
  destruct l as [|x r]; [destruct Ha|]. right. apply IHn. exact Ha.
Qed.

(* ---------- header unification on a flat graph ---------- *)
Section Cb.
Variables (new var : Z) (S : list name).

Definition nsel (b : eblk) : nat := length (zsort (filter (fun t => zmem t S) (e_jt b))).

Fixpoint need (g : egraph) (preds : list name) : nat :=
  match preds with
  | [] => 0%nat
  | p :: r => ((match efind g p with Some b => nsel b | None => 0%nat end) + need g r)%nat
  end.

Lemma need_ext g g' preds : (forall p, In p preds -> efind g' p = efind g p) -> need g' preds = need g preds.
Proof.
  induction preds as [|p r IH]; intros H; simpl; [reflexivity|].
  rewrite (H p (or_introl eq_refl)), IH; [reflexivity|]. intros q Hq. apply H. right. exact Hq.
Qed.

Lemma cb_arcs_total : forall ss g jt value tbl names,
  (length ss <= length names)%nat ->
  exists g1 jt1 v1 tbl1,
    cb_arcs g new var ss jt value tbl names = Some (g1, jt1, v1, tbl1, skipn (length ss) names) /\
    length jt1 = length jt /\
    forall x, ~ In x names -> efind g1 x = efind g x.
Proof.
  induction ss as [|s r IH]; intros g jt value tbl names Hl; simpl.
  - exists g, jt, value, tbl. auto.
  - destruct names as [|a names']; simpl in Hl; [lia|].
    assert (Hl' : (length r <= length names')%nat) by lia.
    destruct (IH (dset g a (mkE [new] [] (EAssign [(var, value)]))) (replace_first s a jt) (value + 1)
                 (tset tbl value s) names' Hl') as [g1 [jt1 [v1 [tbl1 [H1 [H2 H3]]]]]].
    exists g1, jt1, v1, tbl1. split; [exact H1|]. split; [rewrite H2; apply replace_first_length|].
    intros x Hx. rewrite H3; [|intros Hi; apply Hx; right; exact Hi].
    unfold efind. rewrite zassoc_dset. destruct (Z.eqb_spec x a) as [->|]; [exfalso; apply Hx; left; reflexivity|reflexivity].
Qed.

Theorem cb_preds_total : forall preds g value tbl names,
  NoDup preds ->
  (forall p, In p preds -> efind g p <> None) ->
  (forall a, In a names -> ~ In a preds) ->
  (need g preds <= length names)%nat ->
  exists g1 tbl1, cb_preds g new var S preds value tbl names = Ok (g1, tbl1).
Proof.
  induction preds as [|p rest IH]; intros g value tbl names Hnd Hex Hfresh Hneed; simpl; [eauto|].
  destruct (efind g p) as [b|] eqn:Hb; [|exfalso; apply (Hex p (or_introl eq_refl)); exact Hb].
  simpl in Hneed. rewrite Hb in Hneed.
  destruct (cb_arcs_total (zsort (filter (fun t => zmem t S) (e_jt b))) g (e_jt b) value tbl names)
    as [g1 [jt1 [v1 [tbl1 [H1 [H2 H3]]]]]]; [eapply Nat.le_trans; [|exact Hneed]; apply Nat.le_add_r|].
  rewrite H1.
  assert (Hp : ~ In p names) by (intros Hi; apply (Hfresh p Hi); left; reflexivity).
  assert (Hb1 : efind g1 p = Some b) by (rewrite H3; auto).
  destruct (dpop_total g1 p b Hb1) as [g2 Hg2]. rewrite Hg2.
  destruct (replace_jt_total b jt1 H2) as [b' Hb']. rewrite Hb'.
  inversion Hnd as [|? ? Hnp Hnd']; subst.
  assert (Hsame : forall q, In q rest -> efind (dset g2 p b') q = efind g q).
  { intros q Hq. assert (q <> p) by (intros ->; contradiction).
    unfold efind. rewrite zassoc_dset. destruct (Z.eqb_spec q p); [contradiction|].
    rewrite (zassoc_dpop _ _ _ _ _ Hg2); auto. apply H3. intros Hi. apply (Hfresh q Hi). right. exact Hq. }
  apply IH.
  - exact Hnd'.
  - intros q Hq. rewrite (Hsame q Hq). apply Hex. right. exact Hq.
  - intros a Ha Hi. apply (Hfresh a).
    + eapply In_skipn; exact Ha.
    + right. exact Hi.
  - rewrite (need_ext g _ rest Hsame). rewrite skipn_length. apply Nat.le_add_le_sub_l. exact Hneed.
Qed.

(* insert_block_and_control_blocks never aborts: the predecessors exist, are distinct, and the
   generator hands out at least one fresh name per (distinct) successor in S *)
Theorem insert_cb_total g preds names cls :
  NoDup preds ->
  (forall p, In p preds -> efind g p <> None) ->
  (forall a, In a names -> ~ In a preds) ->
  (need g preds <= length names)%nat ->
  exists g', insert_cb g new var preds S names cls = Ok g'.
Proof.
  intros H1 H2 H3 H4. unfold insert_cb.
  destruct (cb_preds_total preds g 0 [] names H1 H2 H3 H4) as [g1 [tbl1 E]]. rewrite E. eauto.
Qed.
End Cb.

(* ---------- loop rotation on a flat graph ---------- *)
Section Rot.
Variable c : lctx.

Definition rot_hit (p jt : name) : bool :=
  zmem jt (l_exits c) || (zmem jt (l_headers c) && l_isback c p jt).
Definition nrot (p : name) (b : eblk) : nat := length (filter (rot_hit p) (ejts b)).

Lemma nonbranch_replace b jt : nonbranch b -> nonbranch (mkE jt (e_be b) (e_kind b)).
Proof. unfold nonbranch. simpl. auto. Qed.

Lemma le_targets_total name_ : forall snap g new_jt names,
  ~ In name_ names ->
  (exists b, efind g name_ = Some b /\ nonbranch b) ->
  (length (filter (rot_hit name_) snap) <= length names)%nat ->
  exists g1 jt1,
    le_targets c g name_ snap new_jt names = Ok (g1, jt1, skipn (length (filter (rot_hit name_) snap)) names) /\
    (exists b, efind g1 name_ = Some b /\ nonbranch b) /\
    forall x, x <> name_ -> ~ In x names -> efind g1 x = efind g x.
Proof.
  induction snap as [|jt rest IH]; intros g new_jt names Hn Hb Hl; simpl.
  - exists g, new_jt. auto.
  - cbn [filter] in Hl |- *.
    assert (ER : rot_hit name_ jt = zmem jt (l_exits c) || (zmem jt (l_headers c) && l_isback c name_ jt)) by reflexivity.
    destruct (zmem jt (l_exits c)) eqn:E1; simpl in ER; rewrite ER in Hl |- *; clear ER; simpl in Hl |- *.
    + destruct names as [|a names']; simpl in Hl; [lia|].
      assert (Hna : name_ <> a) by (intros ->; apply Hn; left; reflexivity).
      assert (Hn' : ~ In name_ names') by (intros Hi; apply Hn; right; exact Hi).
      match goal with |- context [le_targets c ?G name_ rest ?J names'] =>
        destruct (IH G J names' Hn') as [g1 [jt1 [H1 [H2 H3]]]] end.
      * destruct Hb as [b [Hb1 Hb2]]. exists b. split; [|exact Hb2].
        unfold efind. rewrite zassoc_dset. destruct (Z.eqb_spec name_ a); [contradiction|exact Hb1].
      * lia.
      * exists g1, jt1. split; [exact H1|]. split; [exact H2|].
        intros x Hx Hxn. rewrite H3; auto; [|intros Hi; apply Hxn; right; exact Hi].
        unfold efind. rewrite zassoc_dset. destruct (Z.eqb_spec x a) as [->|]; [exfalso; apply Hxn; left; reflexivity|reflexivity].
    + destruct (zmem jt (l_headers c) && l_isback c name_ jt) eqn:E2; simpl in Hl |- *.
      * destruct names as [|a names']; simpl in Hl; [lia|].
        assert (Hna : name_ <> a) by (intros ->; apply Hn; left; reflexivity).
        assert (Hn' : ~ In name_ names') by (intros Hi; apply Hn; right; exact Hi).
        destruct Hb as [b [Hb1 Hb2]]. destruct (dpop_total g name_ b Hb1) as [g0 Hg0]. rewrite Hg0.
        rewrite (replace_jt_nonbranch b _ Hb2).
        match goal with |- context [le_targets c ?G name_ rest ?J names'] =>
          destruct (IH G J names' Hn') as [g1 [jt1 [H1 [H2 H3]]]] end.
        -- eexists. split; [|apply nonbranch_replace; exact Hb2].
           unfold efind. rewrite zassoc_dset. destruct (Z.eqb_spec name_ a); [contradiction|].
           rewrite zassoc_dset. rewrite Z.eqb_refl. reflexivity.
        -- lia.
        -- exists g1, jt1. split; [exact H1|]. split; [exact H2|].
           intros x Hx Hxn. rewrite H3; auto; [|intros Hi; apply Hxn; right; exact Hi].
           unfold efind. rewrite zassoc_dset. destruct (Z.eqb_spec x a) as [->|]; [exfalso; apply Hxn; left; reflexivity|].
           rewrite zassoc_dset. destruct (Z.eqb_spec x name_); [contradiction|].
           apply (zassoc_dpop _ _ _ _ _ Hg0). assumption.
      * apply IH; auto.
Qed.

Fixpoint needl (g : egraph) (todo : list name) : nat :=
  match todo with
  | [] => 0%nat
  | p :: r => ((match efind g p with Some b => nrot p b | None => 0%nat end) + needl g r)%nat
  end.

Lemma needl_ext g g' todo : (forall p, In p todo -> efind g' p = efind g p) -> needl g' todo = needl g todo.
Proof.
  induction todo as [|p r IH]; intros H; simpl; [reflexivity|].
  rewrite (H p (or_introl eq_refl)), IH; [reflexivity|]. intros q Hq. apply H. right. exact Hq.
Qed.

Theorem le_blocks_total : forall todo g names,
  NoDup todo ->
  (forall p, In p todo -> exists b, efind g p = Some b /\ nonbranch b) ->
  (forall a, In a names -> ~ In a todo) ->
  (needl g todo <= length names)%nat ->
  exists g1 names1, le_blocks c g todo names = Ok (g1, names1).
Proof.
  induction todo as [|p rest IH]; intros g names Hnd Hex Hfresh Hneed; simpl; [eauto|].
  destruct (Hex p (or_introl eq_refl)) as [b [Hb Hnb]]. rewrite Hb.
  simpl in Hneed. rewrite Hb in Hneed.
  assert (Hp : ~ In p names) by (intros Hi; apply (Hfresh p Hi); left; reflexivity).
  destruct (le_targets_total p (ejts b) g (ejts b) names Hp) as [g1 [jt1 [H1 [[b0 [Hb0 Hnb0]] H3]]]].
  - eauto.
  - eapply Nat.le_trans; [|exact Hneed]. apply Nat.le_add_r.
  - rewrite H1. destruct (dpop_total g1 p b0 Hb0) as [g2 Hg2]. rewrite Hg2.
    rewrite (replace_jt_nonbranch b0 _ Hnb0).
    inversion Hnd as [|? ? Hnp Hnd']; subst.
    assert (Hsame : forall q, In q rest -> efind (dset g2 p (mkE jt1 (e_be b0) (e_kind b0))) q = efind g q).
    { intros q Hq. assert (q <> p) by (intros ->; contradiction).
      unfold efind. rewrite zassoc_dset. destruct (Z.eqb_spec q p); [contradiction|].
      rewrite (zassoc_dpop _ _ _ _ _ Hg2); auto. apply H3; auto. intros Hi. apply (Hfresh q Hi). right. exact Hq. }
    apply IH.
    + exact Hnd'.
    + intros q Hq. rewrite (Hsame q Hq). apply Hex. right. exact Hq.
    + intros a Ha Hi. apply (Hfresh a); [eapply In_skipn; exact Ha|right; exact Hi].
    + rewrite (needl_ext g _ rest Hsame). rewrite skipn_length. apply Nat.le_add_le_sub_l. exact Hneed.
Qed.
End Rot.

(* the rotation never aborts: the loop has an exit, the processed blocks exist, are distinct and carry no
   value table, and the generator hands out one fresh name per arc that leaves the loop or goes back *)
Theorem loop_rotate_total g hd headers exits todo unified header_tbl isback latch sexit ev bv names :
  exits <> [] ->
  NoDup todo ->
  (forall p, In p todo -> exists b, efind g p = Some b /\ nonbranch b) ->
  (forall a, In a names -> ~ In a todo) ->
  (forall c, l_headers c = headers -> l_exits c = exits -> l_isback c = isback -> (needl c g todo <= length names)%nat) ->
  exists g', loop_rotate g hd headers exits todo unified header_tbl isback latch sexit ev bv names = Ok g'.
Proof.
  intros Hex Hnd Hb Hf Hneed. unfold loop_rotate.
  destruct (if match exits with _ :: _ :: _ => true | _ => false end then Some sexit else hd_error exits) as [et|] eqn:E.
  - match goal with |- context [le_blocks ?C g todo names] =>
      destruct (le_blocks_total C todo g names Hnd Hb Hf) as [g1 [n1 H1]] end.
    + apply Hneed; reflexivity.
    + rewrite H1. eauto.
  - destruct exits as [|x [|y r]]; simpl in E; try discriminate. contradiction.
Qed.

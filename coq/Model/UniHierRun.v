(* UniHierRun.v — the last column of run_looph2 for a call with SEVERAL headers:
   4  the hypotheses of the universal path theorem for a unified rotation hold
      (UniHierApplic.walk_pre_uni: the entries are blocks of the level, ...) and the hierarchy the theorem
      speaks about - the level's dictionary, unified, rotated with these arguments, written back - is the
      hierarchy the implementation produced;
   5  after the unification only a back edge is declared (the early return): the hypotheses of
      Applic.insert_cb_h_keeps_walks_b and of BeOnly.early_return_keeps_walks hold (unified_early_keeps_walks
      below composes them) and the resulting hierarchy is the one the implementation produced;
   6  some entry of the loop is a region: the theorem does not speak about this call (the unification then
      also rewrites the exiting blocks inside that region; CbHierPath covers that step, not the rotation after it);
   2  neither. *)
From Coq Require Import List ZArith Bool.
Import ListNotations.
From V Require Import Valid.Hier Valid.Walk Valid.FlatRegion Model.Graph Model.Edits Model.Edits2 Model.Refine Model.CbPath
     Model.LoopEdit Model.Extract Model.CbHier Model.LoopHier Model.LoopHierApplic Model.Applic Model.Total2
     Model.LoopHierRun Model.BeOnly Model.HierEquiv Model.CbHierPath Model.UniHierPath Model.UniHierApplic.
Local Open Scope Z_scope.

Record uniargs := mkUA { ua_H : name; ua_v : Z; ua_names_cb : list name; ua_g1 : egraph; ua_loop1 : list name;
                         ua_bn : list name; ua_vn : list Z }.

(* step 1 of loop_helper on the level's dictionary *)
Definition uni_step1 (g0 : egraph) (loop headers entries : list name) (bn : list name) (vn : list Z) : option uniargs :=
  match headers, bn, vn with
  | _ :: _ :: _, hn :: bn1, v :: vn1 =>
    let k := arcs_into g0 entries headers in
    match insert_cb g0 hn v entries headers (firstn k bn1) C_HEAD with
    | Ok g1 => Some (mkUA hn v (firstn k bn1) g1 (loop ++ [hn]) (skipn k bn1) vn1)
    | _ => None
    end
  | _, _, _ => None
  end.

Definition backedge_blocks_of (g1 : egraph) (loop1 headers : list name) : list name :=
  filter (fun x => match efind g1 x with
                   | Some b => existsb (fun t => zmem t headers) (ejts b)
                   | None => false end) (zsort loop1).

Definition is_early (bbs exiting : list name) : option name :=
  match bbs, exiting with
  | [bb], [xb] => if Z.eqb bb xb then Some bb else None
  | _, _ => None
  end.

(* every original block of h is an original block of h1 *)
Definition orig_keptb (h h1 : hier) : bool :=
  forallb (fun n => match n_kind n with
                    | KOrig _ => match find h1 (n_name n) with
                                 | Some m => match n_kind m with KOrig _ => true | _ => false end
                                 | None => false end
                    | _ => true end) h.

Lemma orig_keptb_sound h h1 : orig_keptb h h1 = true ->
  forall n b p, find h n = Some b -> n_kind b = KOrig p -> exists b' p', find h1 n = Some b' /\ n_kind b' = KOrig p'.
Proof.
  unfold orig_keptb. intros H n b p Hb Hk. pose proof (find_forallb h _ H n b Hb) as Hn. cbv beta in Hn.
  rewrite Hk in Hn. rewrite (find_name _ _ _ Hb) in Hn. destruct (find h1 n) as [m|]; [|discriminate].
  destruct (n_kind m) eqn:Em; try discriminate. eauto.
Qed.

(* what the per-call comparison adds to a path theorem about h -> h': when h' is fit for flattening, keeps the
   original blocks of h and equals the implementation's hierarchy ha up to the order of the node list, the
   theorem holds for h -> ha *)
Definition walks_cert (h h' ha : hier) : bool :=
  xhier_eqb h' ha && flat_okb h' TOP true && orig_keptb h h'.

Lemma walks_cert_sound h h' ha strict (F : Z -> Prop) :
  (forall n e e' ds tr st, (exists b p, find h n = Some b /\ n_kind b = KOrig p) -> E F e e' ->
     WTrace h (resolve_flat h) strict n e ds tr st -> WTrace h' (resolve_flat h') strict n e' ds tr st) ->
  walks_cert h h' ha = true ->
  forall n e e' ds tr st, (exists b p, find h n = Some b /\ n_kind b = KOrig p) -> E F e e' ->
     WTrace h (resolve_flat h) strict n e ds tr st -> WTrace ha (resolve_flat ha) strict n e' ds tr st.
Proof.
  intros Hthm Hc n e e' ds tr st Hn He W. unfold walks_cert in Hc.
  apply andb_true_iff in Hc as [Hc Hk]. apply andb_true_iff in Hc as [Heq Hf].
  destruct Hn as [b [p [Hb Hkb]]].
  apply (proj1 (compared_equal_same_walks h' ha TOP strict Heq Hf n e' ds tr st (orig_keptb_sound h h' Hk n b p Hb Hkb))).
  apply (Hthm n e e' ds tr st); eauto.
Qed.

Lemma ctrace_cert_sound h h' ha strict (F : Z -> Prop) :
  (forall n e e' ds, (exists b p, find h n = Some b /\ n_kind b = KOrig p) -> E F e e' ->
     CTrace h (resolve_flat h) strict n e ds -> CTrace h' (resolve_flat h') strict n e' ds) ->
  walks_cert h h' ha = true ->
  forall n e e' ds, (exists b p, find h n = Some b /\ n_kind b = KOrig p) -> E F e e' ->
     CTrace h (resolve_flat h) strict n e ds -> CTrace ha (resolve_flat ha) strict n e' ds.
Proof.
  intros Hthm Hc n e e' ds Hn He W. unfold walks_cert in Hc.
  apply andb_true_iff in Hc as [Hc Hk]. apply andb_true_iff in Hc as [Heq Hf].
  destruct Hn as [b [p [Hb Hkb]]].
  apply (proj1 (compared_equal_same_ctrace h' ha TOP strict Heq Hf n e' ds (orig_keptb_sound h h' Hk n b p Hb Hkb))).
  apply (Hthm n e e' ds); eauto.
Qed.

(* the unification followed by the early return keeps every walk *)
Theorem unified_early_keeps_walks h lvl hn v entries headers names_cb hA nlA gA g2 bb b b1 strict :
  insert_cb_h h lvl hn v entries headers names_cb = XOk hA ->
  walk_pre_cbh h lvl hn v entries headers names_cb = true ->
  orig_keptb h hA = true ->
  find hA lvl = Some nlA -> is_region nlA = true ->
  collect hA (children_h nlA) = Some gA ->
  dpop gA bb = Some (b, g2) -> declare_backedge b hn = Some b1 ->
  NoDup (ekeys (dset g2 bb b1)) -> efind gA lvl = None ->
  (forall x n t, find hA x = Some n -> is_region n = false -> In t (n_jt n) -> enter_flat hA (S (length hA)) t <> None) ->
  forall n e e' ds tr st,
    (exists b0 p, find h n = Some b0 /\ n_kind b0 = KOrig p) ->
    E (Fc v) e e' ->
    WTrace h (resolve_flat h) strict n e ds tr st ->
    WTrace (write_back hA lvl (dset g2 bb b1)) (resolve_flat (write_back hA lvl (dset g2 bb b1))) strict n e' ds tr st.
Proof.
  intros Hcb Hpre Hok Hl Hlr HLG Hpop Hdecl Hnd Hlvl Hres n e e' ds tr st Hn He W.
  pose proof (insert_cb_h_keeps_walks_b h lvl hn v entries headers names_cb hA strict Hcb Hpre n e e' ds tr st Hn He W) as W1.
  destruct Hn as [b0 [p [Hb0 Hk0]]].
  exact (early_return_keeps_walks hA lvl nlA gA g2 bb hn b b1 strict Hl Hlr HLG Hpop Hdecl Hnd Hlvl Hres n e' ds tr st
           (orig_keptb_sound h hA Hok n b0 p Hb0 Hk0) W1).
Qed.

Theorem unified_early_keeps_ctrace h lvl hn v entries headers names_cb hA nlA gA g2 bb b b1 strict :
  insert_cb_h h lvl hn v entries headers names_cb = XOk hA ->
  walk_pre_cbh h lvl hn v entries headers names_cb = true ->
  orig_keptb h hA = true ->
  find hA lvl = Some nlA -> is_region nlA = true ->
  collect hA (children_h nlA) = Some gA ->
  dpop gA bb = Some (b, g2) -> declare_backedge b hn = Some b1 ->
  NoDup (ekeys (dset g2 bb b1)) -> efind gA lvl = None ->
  (forall x n t, find hA x = Some n -> is_region n = false -> In t (n_jt n) -> enter_flat hA (S (length hA)) t <> None) ->
  forall n e e' ds,
    (exists b0 p, find h n = Some b0 /\ n_kind b0 = KOrig p) ->
    E (Fc v) e e' ->
    CTrace h (resolve_flat h) strict n e ds ->
    CTrace (write_back hA lvl (dset g2 bb b1)) (resolve_flat (write_back hA lvl (dset g2 bb b1))) strict n e' ds.
Proof.
  intros Hcb Hpre Hok Hl Hlr HLG Hpop Hdecl Hnd Hlvl Hres n e e' ds Hn He W.
  pose proof (insert_cb_h_keeps_ctrace_b h lvl hn v entries headers names_cb hA strict Hcb Hpre n e e' ds Hn He W) as W1.
  destruct Hn as [b0 [p [Hb0 Hk0]]].
  exact (early_return_keeps_ctrace hA lvl nlA gA g2 bb hn b b1 strict Hl Hlr HLG Hpop Hdecl Hnd Hlvl Hres n e' ds
           (orig_keptb_sound h hA Hok n b0 p Hb0 Hk0) W1).
Qed.

Definition uni_col_of (h ha : hier) (lvl : name) (loop headers entries exiting exits : list name)
           (doms : list (name * list name)) (bnames : list name) (vnames : list Z) : Z :=
  if negb (forallb (leafb h) entries) then 6 else
  match level_graph h lvl with
  | None => 2
  | Some g0 =>
    match uni_step1 g0 loop headers entries bnames vnames with
    | None => 2
    | Some a =>
      let g1 := ua_g1 a in
      let bbs := backedge_blocks_of g1 (ua_loop1 a) headers in
      match is_early bbs exiting with
      | Some bb =>
        (* unification, then only a back edge is declared *)
        match insert_cb_h h lvl (ua_H a) (ua_v a) entries headers (ua_names_cb a) with
        | XOk hA =>
          if walk_pre_cbh h lvl (ua_H a) (ua_v a) entries headers (ua_names_cb a) && orig_keptb h hA then
            match level_graph hA lvl with
            | Some gA => if Z.eqb (early_col hA ha lvl gA (ua_H a) bb) 3 then 5 else 2
            | None => 2
            end
          else 2
        | _ => 2
        end
      | None =>
        let needs := match exits with _ :: _ :: _ => true | _ => false end in
        match ua_bn a with
        | [] => 2
        | latch :: bn1 =>
          let '(sexit, bn2) := if needs then (match bn1 with s :: r => (s, r) | [] => (0, []) end) else (0, bn1) in
          match ua_vn a, head_tbl g1 (ua_H a) (ua_v a) headers with
          | bv :: _, Some tbl =>
            let isback name_ jt := negb (zmem name_ (match zassoc jt doms with Some d => d | None => [] end))
                                   || Z.eqb name_ jt in
            let todo := filter (fun x => zmem x exiting || zmem x bbs) (zsort (ua_loop1 a)) in
            if walk_pre_uni h lvl TOP (ua_H a) (ua_v a) entries headers (ua_names_cb a) exits todo isback latch sexit bv bn2 then
              match loop_rotate g1 (ua_H a) headers exits todo true tbl isback latch sexit (ua_v a) bv bn2 with
              | Ok g1' => if walks_cert h (write_back h lvl g1') ha then 4 else 2
              | _ => 2
              end
            else 2
          | _, _ => 2
          end
        end
      end
    end
  end.

Definition uni_col (rows : list (list Z)) : Z :=
  let '(br, ar, op, st, dm) := split_lh rows in
  match decode br, decode ar, op with
  | Some (_, h), Some (_, ha), lvl :: r0 =>
    match take_list r0 with
    | Some (loop, r1) =>
      match take_list r1 with
      | Some (headers, r2) =>
        match take_list r2 with
        | Some (entries, r3) =>
          match take_list r3 with
          | Some (exiting, r4) =>
            match take_list r4 with
            | Some (exits, r5) =>
              match take_list r5 with
              | Some (bnames, r6) =>
                match take_list r6 with
                | Some (vnames, []) => uni_col_of h ha lvl loop headers entries exiting exits dm bnames vnames
                | _ => 2
                end
              | None => 2
              end
            | None => 2
            end
          | None => 2
          end
        | None => 2
        end
      | None => 2
      end
    | None => 2
    end
  | _, _, _ => 2
  end.

Definition rot_col2 (rows : list (list Z)) : Z :=
  let c := rot_col rows in if Z.eqb c 2 then uni_col rows else c.

Definition run_looph3 (rows : list (list Z)) : list Z := run_looph rows ++ [rot_col2 rows].

Lemma uni_step1_spec g0 loop headers entries bn vn a : uni_step1 g0 loop headers entries bn vn = Some a ->
  insert_cb g0 (ua_H a) (ua_v a) entries headers (ua_names_cb a) C_HEAD = Ok (ua_g1 a).
Proof.
  unfold uni_step1. destruct headers as [|h0 [|h1 hr]]; try discriminate.
  destruct bn as [|hn bn1]; [discriminate|]. destruct vn as [|v vn1]; [discriminate|].
  destruct (insert_cb g0 hn v entries (h0 :: h1 :: hr) (firstn (arcs_into g0 entries (h0 :: h1 :: hr)) bn1) C_HEAD) as [g1| |] eqn:E; try discriminate.
  intros [= <-]. cbn. exact E.
Qed.

(* what the column value 4 means for the hierarchy the implementation produced *)
Theorem uni_col_sound h ha lvl loop headers entries exiting exits doms bnames vnames strict :
  uni_col_of h ha lvl loop headers entries exiting exits doms bnames vnames = 4 ->
  exists v bv, forall n e e' ds tr st,
    (exists b p, find h n = Some b /\ n_kind b = KOrig p) -> E (LoopPath2.Fu v bv) e e' ->
    WTrace h (resolve_flat h) strict n e ds tr st -> WTrace ha (resolve_flat ha) strict n e' ds tr st.
Proof.
  unfold uni_col_of. destruct (negb (forallb (leafb h) entries)); [discriminate|].
  destruct (level_graph h lvl) as [g0|] eqn:Hlg; [|discriminate].
  destruct (uni_step1 g0 loop headers entries bnames vnames) as [a|] eqn:Hs1; [|discriminate]. cbv zeta.
  destruct (is_early (backedge_blocks_of (ua_g1 a) (ua_loop1 a) headers) exiting) as [bb|].
  - destruct (insert_cb_h h lvl (ua_H a) (ua_v a) entries headers (ua_names_cb a)) as [hA| |]; try discriminate.
    destruct (walk_pre_cbh h lvl (ua_H a) (ua_v a) entries headers (ua_names_cb a) && orig_keptb h hA); [|discriminate].
    destruct (level_graph hA lvl) as [gA|]; [|discriminate]. destruct (Z.eqb (early_col hA ha lvl gA (ua_H a) bb) 3); discriminate.
  - destruct (ua_bn a) as [|latch bn1]; [discriminate|].
    destruct (if match exits with _ :: _ :: _ => true | _ => false end
              then match bn1 with s :: r => (s, r) | [] => (0, []) end else (0, bn1)) as [sexit bn2].
    destruct (ua_vn a) as [|bv vr]; [discriminate|].
    destruct (head_tbl (ua_g1 a) (ua_H a) (ua_v a) headers) as [tbl|] eqn:Htbl; [|discriminate].
    match goal with |- context [walk_pre_uni h lvl TOP (ua_H a) (ua_v a) entries headers (ua_names_cb a) exits ?todo ?isback latch sexit bv bn2] =>
      set (td := todo); set (ib := isback) end.
    destruct (walk_pre_uni h lvl TOP (ua_H a) (ua_v a) entries headers (ua_names_cb a) exits td ib latch sexit bv bn2) eqn:Hpre; [|discriminate].
    destruct (loop_rotate (ua_g1 a) (ua_H a) headers exits td true tbl ib latch sexit (ua_v a) bv bn2) as [g1'| |] eqn:Hrot; try discriminate.
    destruct (walks_cert h (write_back h lvl g1') ha) eqn:Hc; [|discriminate]. intros _.
    exists (ua_v a), bv.
    destruct (unified_rotation_h_keeps_walks_b h lvl TOP (ua_H a) (ua_v a) entries headers (ua_names_cb a) exits td ib latch sexit bv bn2 strict Hpre)
      as [nl [g0' [g1 [tbl' [g1'' [Hl [HLG [Hcb [Htbl' [Hrot' Hthm]]]]]]]]]].
    (* the dictionaries the theorem speaks about are the ones computed here *)
    assert (E0 : g0' = g0) by (unfold level_graph in Hlg; rewrite Hl, HLG in Hlg; congruence). subst g0'.
    rewrite (uni_step1_spec _ _ _ _ _ _ _ Hs1) in Hcb. injection Hcb as <-.
    rewrite Htbl in Htbl'. injection Htbl' as <-. rewrite Hrot in Hrot'. injection Hrot' as <-.
    exact (walks_cert_sound h (write_back h lvl g1') ha strict (LoopPath2.Fu (ua_v a) bv) Hthm Hc).
Qed.

Theorem uni_col_sound_c h ha lvl loop headers entries exiting exits doms bnames vnames strict :
  uni_col_of h ha lvl loop headers entries exiting exits doms bnames vnames = 4 ->
  exists v bv, forall n e e' ds,
    (exists b p, find h n = Some b /\ n_kind b = KOrig p) -> E (LoopPath2.Fu v bv) e e' ->
    CTrace h (resolve_flat h) strict n e ds -> CTrace ha (resolve_flat ha) strict n e' ds.
Proof.
  unfold uni_col_of. destruct (negb (forallb (leafb h) entries)); [discriminate|].
  destruct (level_graph h lvl) as [g0|] eqn:Hlg; [|discriminate].
  destruct (uni_step1 g0 loop headers entries bnames vnames) as [a|] eqn:Hs1; [|discriminate]. cbv zeta.
  destruct (is_early (backedge_blocks_of (ua_g1 a) (ua_loop1 a) headers) exiting) as [bb|].
  - destruct (insert_cb_h h lvl (ua_H a) (ua_v a) entries headers (ua_names_cb a)) as [hA| |]; try discriminate.
    destruct (walk_pre_cbh h lvl (ua_H a) (ua_v a) entries headers (ua_names_cb a) && orig_keptb h hA); [|discriminate].
    destruct (level_graph hA lvl) as [gA|]; [|discriminate]. destruct (Z.eqb (early_col hA ha lvl gA (ua_H a) bb) 3); discriminate.
  - destruct (ua_bn a) as [|latch bn1]; [discriminate|].
    destruct (if match exits with _ :: _ :: _ => true | _ => false end
              then match bn1 with s :: r => (s, r) | [] => (0, []) end else (0, bn1)) as [sexit bn2].
    destruct (ua_vn a) as [|bv vr]; [discriminate|].
    destruct (head_tbl (ua_g1 a) (ua_H a) (ua_v a) headers) as [tbl|] eqn:Htbl; [|discriminate].
    match goal with |- context [walk_pre_uni h lvl TOP (ua_H a) (ua_v a) entries headers (ua_names_cb a) exits ?todo ?isback latch sexit bv bn2] =>
      set (td := todo); set (ib := isback) end.
    destruct (walk_pre_uni h lvl TOP (ua_H a) (ua_v a) entries headers (ua_names_cb a) exits td ib latch sexit bv bn2) eqn:Hpre; [|discriminate].
    destruct (loop_rotate (ua_g1 a) (ua_H a) headers exits td true tbl ib latch sexit (ua_v a) bv bn2) as [g1'| |] eqn:Hrot; try discriminate.
    destruct (walks_cert h (write_back h lvl g1') ha) eqn:Hc; [|discriminate]. intros _.
    exists (ua_v a), bv.
    destruct (unified_rotation_h_keeps_ctrace_b h lvl TOP (ua_H a) (ua_v a) entries headers (ua_names_cb a) exits td ib latch sexit bv bn2 strict Hpre)
      as [nl [g0' [g1 [tbl' [g1'' [Hl [HLG [Hcb [Htbl' [Hrot' Hthm]]]]]]]]]].
    (* the dictionaries the theorem speaks about are the ones computed here *)
    assert (E0 : g0' = g0) by (unfold level_graph in Hlg; rewrite Hl, HLG in Hlg; congruence). subst g0'.
    rewrite (uni_step1_spec _ _ _ _ _ _ _ Hs1) in Hcb. injection Hcb as <-.
    rewrite Htbl in Htbl'. injection Htbl' as <-. rewrite Hrot in Hrot'. injection Hrot' as <-.
    exact (ctrace_cert_sound h (write_back h lvl g1') ha strict (LoopPath2.Fu (ua_v a) bv) Hthm Hc).
Qed.

Lemma uni_col_cases h ha lvl loop headers entries exiting exits doms bnames vnames :
  let c := uni_col_of h ha lvl loop headers entries exiting exits doms bnames vnames in
  c = 2 \/ c = 4 \/ c = 5 \/ c = 6.
Proof.
  cbv zeta. unfold uni_col_of.
  destruct (negb (forallb (leafb h) entries)); [auto|].
  destruct (level_graph h lvl) as [g0|]; [|auto].
  destruct (uni_step1 g0 loop headers entries bnames vnames) as [a|]; [|auto]. cbv zeta.
  destruct (is_early (backedge_blocks_of (ua_g1 a) (ua_loop1 a) headers) exiting) as [bb|].
  - destruct (insert_cb_h h lvl (ua_H a) (ua_v a) entries headers (ua_names_cb a)) as [hA| |]; auto.
    destruct (walk_pre_cbh h lvl (ua_H a) (ua_v a) entries headers (ua_names_cb a) && orig_keptb h hA); auto.
    destruct (level_graph hA lvl) as [gA|]; auto. destruct (Z.eqb (early_col hA ha lvl gA (ua_H a) bb) 3); auto.
  - destruct (ua_bn a) as [|latch bn1]; [auto|].
    destruct (if match exits with _ :: _ :: _ => true | _ => false end
              then match bn1 with s :: r => (s, r) | [] => (0, []) end else (0, bn1)) as [sexit bn2].
    destruct (ua_vn a) as [|bv vr]; [auto|].
    destruct (head_tbl (ua_g1 a) (ua_H a) (ua_v a) headers) as [tbl|]; [|auto].
    match goal with |- context [if ?c then _ else _] => destruct c end; [|auto].
    match goal with |- context [match ?c with Ok _ => _ | _ => _ end] => destruct c end; auto.
    match goal with |- context [if ?c then _ else _] => destruct c end; auto.
Qed.

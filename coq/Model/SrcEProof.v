(* SrcEProof.v — forward simulation for the front-end model with expressions
   (SrcE.v), on the programs where the transformer keeps Python's order of
   evaluation (predicates good...): for every such program, every meaning of
   leaves, operator frames and statement frames, every state — whenever the
   function returns or raises, so does the block-by-block interpretation of the
   graph the model builds, in the same state.  (The shapes excluded by them are
   refuted in SrcERefute.v.) *)
From Coq Require Import List ZArith Bool Lia.
Import ListNotations.
From V Require Import Model.SrcE.
Local Open Scope Z_scope.

Scheme stmt_mut := Induction for stmt Sort Prop
  with stmts_mut := Induction for stmts Sort Prop.
Combined Scheme stmt_stmts_ind from stmt_mut, stmts_mut.

Section Proof.
Variable state : Type.
Variable aval : Z -> state -> option (Z * state).
Variable opf : Z -> list Z -> state -> option (Z * state).
Variable act : Z -> option Z -> state -> option state.
Variable foract : Z -> Z -> Z -> option Z -> state -> option state.
Variable fortest : Z -> state -> option (bool * state).
Variable G : list blk.

Notation outcome := (outcome state).
Notation reval := (reval state aval opf).
Notation eval := (eval state aval opf).

(* ---------- one instruction ---------- *)
Inductive ires := INext (te : tenv) (s : state) | IBranch (b : bool) (s : state) | IReturn (a : Z) (s : state) | IRaise.

Definition istep (i : instr) (te : tenv) (s : state) : ires :=
  match i with
  | IAct a e => match reval e te s with
                | Some (v, s1) => match act a (Some v) s1 with Some s2 => INext te s2 | None => IRaise end
                | None => IRaise end
  | IPass _ | IBrk _ | ICnt _ => INext te s
  | IRet a None => match act a None s with Some s1 => IReturn a s1 | None => IRaise end
  | IRet a (Some e) => match reval e te s with
                       | Some (v, s1) => match act a (Some v) s1 with Some s2 => IReturn a s2 | None => IRaise end
                       | None => IRaise end
  | ITest e => match reval e te s with Some (v, s1) => IBranch (truth v) s1 | None => IRaise end
  | ISet k e => match reval e te s with Some (v, s1) => INext (tset k v te) s1 | None => IRaise end
  | IForIter h e => match reval e te s with
                    | Some (v, s1) => match foract 0 h 0 (Some v) s1 with Some s2 => INext te s2 | None => IRaise end
                    | None => IRaise end
  | IForInit tgt => match foract 1 0 tgt None s with Some s1 => INext te s1 | None => IRaise end
  | IForSave h tgt => match foract 2 h tgt None s with Some s1 => INext te s1 | None => IRaise end
  | IForNext h tgt => match foract 3 h tgt None s with Some s1 => INext te s1 | None => IRaise end
  | IForTest tgt => match fortest tgt s with Some (b, s1) => IBranch b s1 | None => IRaise end
  | IForRestore h tgt => match foract 5 h tgt None s with Some s1 => INext te s1 | None => IRaise end
  end.

(* ---------- small-step reading of the block interpretation ---------- *)
Definition conf := (Z * nat * tenv * state)%type.

Inductive step : conf -> conf -> Prop :=
| st_ins pc k te s b i te' s' :
    findb G pc = Some b -> nth_error (b_ins b) k = Some i -> istep i te s = INext te' s' ->
    step (pc, k, te, s) (pc, S k, te', s')
| st_branch pc k te s b i bv s' t1 t2 :
    findb G pc = Some b -> nth_error (b_ins b) k = Some i -> S k = length (b_ins b) ->
    istep i te s = IBranch bv s' -> b_jt b = [t1; t2] ->
    step (pc, k, te, s) ((if bv then t1 else t2), O, te, s')
| st_goto pc k te s b t :
    findb G pc = Some b -> k = length (b_ins b) -> b_jt b = [t] -> step (pc, k, te, s) (t, O, te, s).

Inductive steps : conf -> conf -> Prop :=
| steps_refl c : steps c c
| steps_cons c1 c2 c3 : step c1 c2 -> steps c2 c3 -> steps c1 c3.

Inductive halts : conf -> outcome -> Prop :=
| h_ret pc k te s b i a s' :
    findb G pc = Some b -> nth_error (b_ins b) k = Some i -> istep i te s = IReturn a s' ->
    halts (pc, k, te, s) (ORet a s')
| h_raise pc k te s b i :
    findb G pc = Some b -> nth_error (b_ins b) k = Some i -> istep i te s = IRaise ->
    halts (pc, k, te, s) ORaise
| h_step c1 c2 o : step c1 c2 -> halts c2 o -> halts c1 o.

Lemma steps_trans c1 c2 c3 : steps c1 c2 -> steps c2 c3 -> steps c1 c3.
Proof. induction 1; intros; [assumption|]. econstructor; eauto. Qed.
Lemma steps_one c1 c2 : step c1 c2 -> steps c1 c2.
Proof. intros. econstructor; [eassumption|constructor]. Qed.
Lemma steps_halts c1 c2 o : steps c1 c2 -> halts c2 o -> halts c1 o.
Proof. induction 1; intros; [assumption|]. eapply h_step; eauto. Qed.

(* ---------- the final graph extends every intermediate builder state ---------- *)
Definition prefix {A} (l1 l2 : list A) : Prop := exists r, l2 = l1 ++ r.

Definition Ext (st : bst) : Prop :=
  (forall b, In b (done st) -> findb G (b_idx b) = Some b) /\
  (exists bG, findb G (b_idx (cur st)) = Some bG /\ prefix (b_ins (cur st)) (b_ins bG)).

Lemma Ext_emit i st : Ext (emit i st) -> Ext st.
Proof.
  intros [H1 [bG [H2 [r H3]]]]. split; [exact H1|]. exists bG. split; [exact H2|].
  cbn in H3. exists ([i] ++ r). rewrite H3. rewrite <- app_assoc. reflexivity.
Qed.
Lemma Ext_setjt jt st : Ext (setjt jt st) -> Ext st.
Proof. intros [H1 H2]. split; [exact H1|exact H2]. Qed.
Lemma Ext_bump k st : Ext (bump k st) -> Ext st.
Proof. intros [H1 H2]. split; [exact H1|exact H2]. Qed.
Lemma Ext_chk b st : Ext (chk b st) -> Ext st.
Proof. intros [H1 H2]. split; [exact H1|exact H2]. Qed.
Lemma Ext_newtmp st : Ext (snd (newtmp st)) -> Ext st.
Proof. intros [H1 H2]. split; [exact H1|exact H2]. Qed.
Lemma Ext_addblk i st : Ext (addblk i st) -> Ext st.
Proof.
  intros [H1 _]. split.
  - intros b Hb. apply H1. right. exact Hb.
  - exists (cur st). split; [apply H1; left; reflexivity|]. exists []. rewrite app_nil_r. reflexivity.
Qed.
Lemma Ext_seal lp d st : Ext (seal lp d st) -> Ext st.
Proof.
  unfold seal. destruct lp as [[h e]|]; destruct (last_instr (cur st)) as [[]|];
    intros H; try exact H; eapply Ext_setjt; eauto.
Qed.

(* ---------- positions ---------- *)
Definition at_ (st : bst) (te : tenv) (s : state) : conf :=
  (b_idx (cur st), length (b_ins (cur st)), te, s).

Lemma nth_emit i st : Ext (emit i st) ->
  exists bG, findb G (b_idx (cur st)) = Some bG /\ nth_error (b_ins bG) (length (b_ins (cur st))) = Some i.
Proof.
  intros [_ [bG [H2 [r H3]]]]. exists bG. split; [exact H2|]. cbn in H3. rewrite H3.
  rewrite <- app_assoc. rewrite nth_error_app2 by lia. rewrite Nat.sub_diag. reflexivity.
Qed.

Lemma at_emit i st te s : at_ (emit i st) te s = (b_idx (cur st), S (length (b_ins (cur st))), te, s).
Proof. unfold at_. cbn. rewrite app_length. cbn. rewrite Nat.add_1_r. reflexivity. Qed.

Lemma step_emit i st te s te' s' : Ext (emit i st) -> istep i te s = INext te' s' ->
  step (at_ st te s) (at_ (emit i st) te' s').
Proof.
  intros HE Hi. destruct (nth_emit _ _ HE) as [bG [Hf Hn]]. rewrite at_emit. eapply st_ins; eauto.
Qed.

Lemma halt_emit_ret i st te s a s' : Ext (emit i st) -> istep i te s = IReturn a s' ->
  halts (at_ st te s) (ORet a s').
Proof. intros HE Hi. destruct (nth_emit _ _ HE) as [bG [Hf Hn]]. eapply h_ret; eauto. Qed.

Lemma halt_emit_raise i st te s : Ext (emit i st) -> istep i te s = IRaise -> halts (at_ st te s) ORaise.
Proof. intros HE Hi. destruct (nth_emit _ _ HE) as [bG [Hf Hn]]. eapply h_raise; eauto. Qed.

Lemma done_exact i st : Ext (addblk i st) -> findb G (b_idx (cur st)) = Some (cur st).
Proof. intros [H1 _]. apply H1. left. reflexivity. Qed.

(* the test instruction that closes a two-way block *)
Lemma step_branch i t1 t2 j st te s bv s' :
  Ext (addblk j (setjt [t1; t2] (emit i st))) -> istep i te s = IBranch bv s' ->
  step (at_ st te s) ((if bv then t1 else t2), O, te, s').
Proof.
  intros HE Hi. pose proof (done_exact _ _ HE) as Hf. cbn in Hf.
  eapply st_branch; [exact Hf| | |exact Hi|reflexivity]; cbn.
  - rewrite nth_error_app2 by lia. rewrite Nat.sub_diag. reflexivity.
  - rewrite app_length. cbn. lia.
Qed.

Lemma halt_branch_raise i t1 t2 j st te s :
  Ext (addblk j (setjt [t1; t2] (emit i st))) -> istep i te s = IRaise -> halts (at_ st te s) ORaise.
Proof.
  intros HE Hi. pose proof (done_exact _ _ HE) as Hf. cbn in Hf.
  eapply h_raise; [exact Hf| |exact Hi]. cbn.
  rewrite nth_error_app2 by lia. rewrite Nat.sub_diag. reflexivity.
Qed.

Lemma step_goto t j st te s : Ext (addblk j (setjt [t] st)) -> step (at_ st te s) (t, O, te, s).
Proof.
  intros HE. pose proof (done_exact _ _ HE) as Hf. cbn in Hf.
  eapply st_goto; [exact Hf| |]; reflexivity.
Qed.

(* ---------- expressions: auxiliary definitions and unfolding equations ---------- *)
Fixpoint hlist (es : list expr) (st : bst) : list rexpr * bst :=
  match es with
  | [] => ([], st)
  | x :: r => let '(rx, st1) := hexpr x st in
              let '(rr, st2) := hlist r st1 in (rx :: rr, st2)
  end.

Fixpoint hchain (isor : bool) (es : list expr) (st : bst) : rexpr * bst :=
  match es with
  | [] => (RAtom 0, chk false st)
  | [a] => (RAtom 0, chk false st)
  | [a; b] =>
    let '(ra, st1) := hexpr a st in
    let '(rb, st2) := hexpr b st1 in
    boolop isor (fun s => (ra, s)) (fun s => (rb, s)) st2
  | a :: rest => boolop isor (fun s => hexpr a s) (fun s => hchain isor rest s) st
  end.

Lemma hexpr_op c es st : hexpr (EOp c es) st = let '(rs, st1) := hlist es st in (ROp c rs, st1).
Proof.
  cbn [hexpr]. 
  assert (H : forall es st, (fix hlist (es : list expr) (st : bst) : list rexpr * bst :=
                         match es with
                         | [] => ([], st)
                         | x :: r => let '(rx, st1) := hexpr x st in
                                     let '(rr, st2) := hlist r st1 in (rx :: rr, st2)
                         end) es st = hlist es st).
  { clear. induction es as [|x r IH]; intros st; [reflexivity|]. cbn [hlist]. destruct (hexpr x st) as [rx st1].
    rewrite IH. reflexivity. }
  rewrite H. reflexivity.
Qed.

Lemma hexpr_bool isor es st : hexpr (EBool isor es) st = hchain isor es st.
Proof.
  cbn [hexpr]. revert st. induction es as [|a es IH]; intros st; [reflexivity|].
  destruct es as [|b [|c r]]; try reflexivity.
  cbn [hchain]. unfold boolop. destruct (newtmp st) as [k st0]. destruct (hexpr a st0) as [l st1].
  rewrite IH. reflexivity.
Qed.

Fixpoint evlist (es : list expr) (s : state) : option (list Z * state) :=
  match es with
  | [] => Some ([], s)
  | x :: r => match eval x s with
              | Some (v, s1) => match evlist r s1 with
                                | Some (vs, s2) => Some (v :: vs, s2)
                                | None => None end
              | None => None end
  end.

Fixpoint evchain (isor : bool) (es : list expr) (s : state) : option (Z * state) :=
  match es with
  | [] => None
  | [x] => eval x s
  | x :: r => match eval x s with
              | Some (v, s1) => if Bool.eqb (negb (Z.eqb v 0)) isor then Some (v, s1) else evchain isor r s1
              | None => None end
  end.

Lemma eval_op c es s :
  eval (EOp c es) s = match evlist es s with Some (vs, s1) => opf c vs s1 | None => None end.
Proof.
  cbn [SrcE.eval].
  assert (H : forall es s, (fix evlist (es : list expr) (s : state) : option (list Z * state) :=
             match es with
             | [] => Some ([], s)
             | x :: r => match eval x s with
                         | Some (v, s1) => match evlist r s1 with
                                           | Some (vs, s2) => Some (v :: vs, s2)
                                           | None => None end
                         | None => None end
             end) es s = evlist es s).
  { clear. induction es as [|x r IH]; intros s; [reflexivity|]. cbn [evlist]. destruct (eval x s) as [[v s1]|]; [|reflexivity].
    rewrite IH. reflexivity. }
  rewrite H. reflexivity.
Qed.

Lemma eval_bool isor es s : eval (EBool isor es) s = evchain isor es s.
Proof.
  cbn [SrcE.eval]. revert s. induction es as [|a [|b r] IH]; intros s; try reflexivity.
  cbn [evchain]. destruct (eval a s) as [[v s1]|]; [|reflexivity].
  destruct (Bool.eqb _ _); [reflexivity|]. apply IH.
Qed.

Fixpoint revlist (es : list rexpr) (te : tenv) (s : state) : option (list Z * state) :=
  match es with
  | [] => Some ([], s)
  | x :: r => match reval x te s with
              | Some (v, s1) => match revlist r te s1 with
                                | Some (vs, s2) => Some (v :: vs, s2)
                                | None => None end
              | None => None end
  end.

Lemma reval_op c es te s :
  reval (ROp c es) te s = match revlist es te s with Some (vs, s1) => opf c vs s1 | None => None end.
Proof.
  cbn [SrcE.reval].
  assert (H : forall es s, (fix evlist (es : list rexpr) (s : state) : option (list Z * state) :=
             match es with
             | [] => Some ([], s)
             | x :: r => match reval x te s with
                         | Some (v, s1) => match evlist r s1 with
                                           | Some (vs, s2) => Some (v :: vs, s2)
                                           | None => None end
                         | None => None end
             end) es s = revlist es te s).
  { clear. induction es as [|x r IH]; intros s; [reflexivity|]. cbn [revlist]. destruct (reval x te s) as [[v s1]|]; [|reflexivity].
    rewrite IH. reflexivity. }
  rewrite H. reflexivity.
Qed.

(* ---------- induction over expressions ---------- *)
Fixpoint expr_ind' (P : expr -> Prop)
  (Ha : forall a, P (EAtom a))
  (Hb : forall o es, Forall P es -> P (EBool o es))
  (Ho : forall c es, Forall P es -> P (EOp c es)) (e : expr) {struct e} : P e :=
  match e with
  | EAtom a => Ha a
  | EBool o es =>
    Hb o es ((fix go (l : list expr) : Forall P l :=
                match l with
                | [] => Forall_nil P
                | x :: r => Forall_cons x (expr_ind' P Ha Hb Ho x) (go r)
                end) es)
  | EOp c es =>
    Ho c es ((fix go (l : list expr) : Forall P l :=
                match l with
                | [] => Forall_nil P
                | x :: r => Forall_cons x (expr_ind' P Ha Hb Ho x) (go r)
                end) es)
  end.

(* ---------- the shapes on which the order of evaluation is kept ---------- *)
Definition is_ebool (e : expr) : bool := match e with EBool _ _ => true | _ => false end.

Fixpoint cutfree (e : expr) : bool :=
  match e with
  | EAtom _ => true
  | EBool _ _ => false
  | EOp _ es => (fix cf (l : list expr) : bool := match l with [] => true | x :: r => cutfree x && cf r end) es
  end.

Fixpoint cutfrees (l : list expr) : bool := match l with [] => true | x :: r => cutfree x && cutfrees r end.

Lemma cutfree_op c es : cutfree (EOp c es) = cutfrees es.
Proof. cbn [cutfree]. induction es as [|x r IH]; [reflexivity|]. cbn [cutfrees]. rewrite <- IH. reflexivity. Qed.

Fixpoint good (e : expr) : bool :=
  match e with
  | EAtom _ => true
  | EOp _ es =>
    (fix gl (l : list expr) : bool :=
       match l with
       | [] => true
       | x :: r => good x && (if is_ebool x then gl r else cutfrees r)
       end) es
  | EBool _ es =>
    (fix gc (l : list expr) : bool :=
       match l with
       | [] => false
       | [a; b] => good a && cutfree b
       | a :: rest => good a && gc rest
       end) es
  end.

Fixpoint goodlist (l : list expr) : bool :=
  match l with
  | [] => true
  | x :: r => good x && (if is_ebool x then goodlist r else cutfrees r)
  end.

Fixpoint goodchain (l : list expr) : bool :=
  match l with
  | [] => false
  | [a; b] => good a && cutfree b
  | a :: rest => good a && goodchain rest
  end.

Lemma good_op c es : good (EOp c es) = goodlist es.
Proof. cbn [good]. induction es as [|x r IH]; [reflexivity|]. cbn [goodlist]. rewrite <- IH. reflexivity. Qed.

Lemma good_bool o es : good (EBool o es) = goodchain es.
Proof.
  cbn [good]. induction es as [|a es IH]; [reflexivity|]. destruct es as [|b [|c r]]; reflexivity.
Qed.

(* an expression without and/or stays in its statement as it is *)
Fixpoint rof (e : expr) : rexpr :=
  match e with
  | EAtom a => RAtom a
  | EBool _ _ => RAtom 0
  | EOp c es => ROp c ((fix m (l : list expr) : list rexpr := match l with [] => [] | x :: r => rof x :: m r end) es)
  end.

Lemma rof_op c es : rof (EOp c es) = ROp c (map rof es).
Proof. reflexivity. Qed.

Lemma cutfree_hexpr e : cutfree e = true -> forall st, hexpr e st = (rof e, st).
Proof.
  induction e as [a|o es IH|c es IH] using expr_ind'; intros Hc st; [reflexivity|discriminate|].
  rewrite cutfree_op in Hc. rewrite hexpr_op, rof_op.
  assert (H : forall st, hlist es st = (map rof es, st)).
  { clear st. induction es as [|x r IHr]; intros st; [reflexivity|]. cbn [cutfrees] in Hc.
    apply andb_true_iff in Hc as [Hx Hr]. inversion IH as [|? ? Px Pr]; subst.
    cbn [hlist map]. rewrite (Px Hx). rewrite (IHr Pr Hr). reflexivity. }
  rewrite H. reflexivity.
Qed.

Lemma cutfrees_hlist es : cutfrees es = true -> forall st, hlist es st = (map rof es, st).
Proof.
  induction es as [|x r IH]; intros Hc st; [reflexivity|]. cbn [cutfrees] in Hc.
  apply andb_true_iff in Hc as [Hx Hr]. cbn [hlist map]. rewrite (cutfree_hexpr x Hx). rewrite (IH Hr). reflexivity.
Qed.

Lemma cutfree_reval e : cutfree e = true -> forall te s, reval (rof e) te s = eval e s.
Proof.
  induction e as [a|o es IH|c es IH] using expr_ind'; intros Hc te s; [reflexivity|discriminate|].
  rewrite cutfree_op in Hc. rewrite rof_op, reval_op, eval_op.
  assert (H : forall s, revlist (map rof es) te s = evlist es s).
  { clear s. induction es as [|x r IHr]; intros s; [reflexivity|]. cbn [cutfrees] in Hc.
    apply andb_true_iff in Hc as [Hx Hr]. inversion IH as [|? ? Px Pr]; subst.
    cbn [map revlist evlist]. rewrite (Px Hx). destruct (eval x s) as [[v s1]|]; [|reflexivity].
    rewrite (IHr Pr Hr). reflexivity. }
  rewrite H. reflexivity.
Qed.

Lemma cutfrees_revlist es : cutfrees es = true -> forall te s, revlist (map rof es) te s = evlist es s.
Proof.
  induction es as [|x r IH]; intros Hc te s; [reflexivity|]. cbn [cutfrees] in Hc.
  apply andb_true_iff in Hc as [Hx Hr]. cbn [map revlist evlist]. rewrite (cutfree_reval x Hx).
  destruct (eval x s) as [[v s1]|]; [|reflexivity]. rewrite (IH Hr). reflexivity.
Qed.

Lemma cutfree_good e : cutfree e = true -> good e = true.
Proof.
  induction e as [a|o es IH|c es IH] using expr_ind'; intros Hc; [reflexivity|discriminate|].
  rewrite cutfree_op in Hc. rewrite good_op.
  induction es as [|x r IHr]; [reflexivity|]. cbn [cutfrees] in Hc. apply andb_true_iff in Hc as [Hx Hr].
  inversion IH as [|? ? Px Pr]; subst. cbn [goodlist]. rewrite (Px Hx). cbn.
  destruct (is_ebool x); [apply IHr; assumption|exact Hr].
Qed.

(* ---------- temporaries ---------- *)
Definition tlook (te : tenv) (k : Z) : option Z :=
  match find (fun p => Z.eqb (fst p) k) te with Some p => Some (snd p) | None => None end.

Lemma reval_tmp k te s : reval (RTmp k) te s = match tlook te k with Some v => Some (v, s) | None => None end.
Proof. cbn [SrcE.reval]. unfold tlook. destruct (find _ te); reflexivity. Qed.

Lemma tlook_tset_same k v te : tlook (tset k v te) k = Some v.
Proof. unfold tlook, tset. cbn. rewrite Z.eqb_refl. reflexivity. Qed.

Lemma tlook_tset_other k v te j : j <> k -> tlook (tset k v te) j = tlook te j.
Proof.
  intros Hne. unfold tlook, tset. cbn [find fst].
  destruct (Z.eqb k j) eqn:E; [apply Z.eqb_eq in E; congruence|].
  induction te as [|[a b] r IH]; [reflexivity|]. cbn [filter fst].
  destruct (Z.eqb a k) eqn:E1; cbn [negb].
  - apply Z.eqb_eq in E1. subst a. cbn [find fst]. rewrite E. exact IH.
  - cbn [find fst]. destruct (Z.eqb a j); [reflexivity|exact IH].
Qed.

Definition Keeps (n : Z) (te te' : tenv) : Prop := forall k, k <= n -> tlook te' k = tlook te k.

Lemma Keeps_refl n te : Keeps n te te.
Proof. intros k _. reflexivity. Qed.
Lemma Keeps_trans n m te1 te2 te3 : n <= m -> Keeps n te1 te2 -> Keeps m te2 te3 -> Keeps n te1 te3.
Proof. intros Hnm H1 H2 k Hk. rewrite H2 by lia. apply H1. exact Hk. Qed.
Lemma Keeps_tset n k v te te' : n < k -> Keeps n te te' -> Keeps n te (tset k v te').
Proof. intros Hk H j Hj. rewrite tlook_tset_other by lia. apply H. exact Hj. Qed.
Lemma Keeps_weaken n m te te' : n <= m -> Keeps m te te' -> Keeps n te te'.
Proof. intros Hnm H k Hk. apply H. lia. Qed.

(* ---------- a piece of the builder that produces a residual, and what it does ---------- *)
Definition Mono (st st' : bst) : Prop := (Ext st' -> Ext st) /\ tmp st <= tmp st' /\ next st <= next st'.

Definition ThunkSim (th : bst -> rexpr * bst) (ev : tenv -> state -> option (Z * state)) : Prop :=
  forall st r st', th st = (r, st') ->
    Mono st st' /\
    (Ext st' -> forall te s,
      match ev te s with
      | Some (v, s2) => exists te' s1, steps (at_ st te s) (at_ st' te' s1) /\ reval r te' s1 = Some (v, s2) /\
                                       Keeps (tmp st) te te'
      | None => halts (at_ st te s) ORaise \/
                exists te' s1, steps (at_ st te s) (at_ st' te' s1) /\ reval r te' s1 = None
      end).

(* the strong form for an and/or: everything happens in the cut, the residual is a temporary *)
Definition CutSim (th : bst -> rexpr * bst) (ev : tenv -> state -> option (Z * state)) : Prop :=
  forall st r st', th st = (r, st') ->
    Mono st st' /\
    (Ext st' -> forall te s,
      match ev te s with
      | Some (v, s2) => exists te' k, steps (at_ st te s) (at_ st' te' s2) /\ r = RTmp k /\ tmp st < k <= tmp st' /\
                                      tlook te' k = Some v /\ Keeps (tmp st) te te'
      | None => halts (at_ st te s) ORaise
      end).

Lemma CutSim_ThunkSim th ev : CutSim th ev -> ThunkSim th ev.
Proof.
  intros H st r st' Hth. destruct (H st r st' Hth) as [A D]. split; [exact A|].
  intros HE te s. specialize (D HE te s).
  destruct (ev te s) as [[v s2]|]; [|left; exact D].
  destruct D as [te' [k [S1 [-> [Hk [Hl Hkp]]]]]]. exists te', s2. split; [exact S1|].
  split; [rewrite reval_tmp, Hl; reflexivity|exact Hkp].
Qed.

Lemma at_newtmp st te s : at_ (snd (newtmp st)) te s = at_ st te s.
Proof. reflexivity. Qed.
Lemma at_bump k st te s : at_ (bump k st) te s = at_ st te s.
Proof. reflexivity. Qed.
Lemma at_chk b st te s : at_ (chk b st) te s = at_ st te s.
Proof. reflexivity. Qed.

Definition truthv (v : Z) : bool := negb (Z.eqb v 0).

Lemma boolop_sim isor first second evF evS :
  ThunkSim first evF -> ThunkSim second evS -> (forall te te' s, evS te s = evS te' s) ->
  CutSim (boolop isor first second)
         (fun te s => match evF te s with
                      | Some (va, s1) => if Bool.eqb (truthv va) isor then Some (va, s1) else evS te s1
                      | None => None end).
Proof.
  intros HF HS IndS st r st' Hth. unfold boolop in Hth.
  destruct (newtmp st) as [k st0] eqn:Ent.
  assert (Hk : k = tmp st + 1) by (unfold newtmp in Ent; injection Ent as <- _; reflexivity).
  assert (Hst0 : st0 = snd (newtmp st)) by (rewrite Ent; reflexivity).
  destruct (first st0) as [l st1] eqn:EF.
  set (st2 := emit (ISet k l) st1) in *.
  set (other := next st2) in *. set (merge := other + 1) in *.
  set (jts := if isor then [merge; other] else [other; merge]) in *.
  set (st4 := addblk other (setjt jts (emit (ITest (RTmp k)) (bump 2 st2)))) in *.
  destruct (second st4) as [r2 st5] eqn:ES.
  injection Hth as <- <-.
  destruct (HS st4 r2 st5 ES) as [[X45 [T45 N45]] SimS].
  destruct (HF st0 l st1 EF) as [[X01 [T01 N01]] SimF].
  assert (T0 : tmp st0 = tmp st + 1) by (rewrite Hst0; reflexivity).
  assert (N0 : next st0 = next st) by (rewrite Hst0; reflexivity).
  assert (T4 : tmp st4 = tmp st1) by reflexivity.
  assert (N4 : next st4 = next st1 + 2) by reflexivity.
  assert (Hmono : forall HE : Ext (addblk merge (setjt [merge] (emit (ISet k r2) st5))),
            Ext (emit (ISet k r2) st5) /\ Ext st5 /\ Ext st4 /\ Ext st2 /\ Ext st1 /\ Ext st0).
  { intros HE.
    assert (E5e : Ext (emit (ISet k r2) st5)) by (eapply Ext_setjt, Ext_addblk; exact HE).
    assert (E5 : Ext st5) by (eapply Ext_emit; exact E5e).
    assert (E4 : Ext st4) by (apply X45; exact E5).
    assert (E3 : Ext (emit (ITest (RTmp k)) (bump 2 st2))) by (eapply Ext_setjt, Ext_addblk; exact E4).
    assert (E2 : Ext st2) by (eapply Ext_bump, Ext_emit; exact E3).
    assert (E1 : Ext st1) by (eapply Ext_emit; exact E2).
    auto 10. }
  split.
  { split; [|split; cbn; lia]. intros HE. destruct (Hmono HE) as [_ [_ [_ [_ [_ E0]]]]].
    rewrite Hst0 in E0. apply Ext_newtmp. exact E0. }
  intros HE te s. destruct (Hmono HE) as [E5e [E5 [E4 [E2 [E1 E0]]]]].
  specialize (SimF E1 te s).
  assert (Hat0 : forall te0 s0, at_ st0 te0 s0 = at_ st te0 s0) by (intros; rewrite Hst0; reflexivity).
  destruct (evF te s) as [[va s1a]|] eqn:EvF.
  2:{ destruct SimF as [Hh|[te1 [s1 [S1 Hr]]]].
      - rewrite Hat0 in Hh. exact Hh.
      - rewrite Hat0 in S1. eapply steps_halts; [exact S1|]. eapply halt_emit_raise; [exact E2|].
        cbn [istep]. rewrite Hr. reflexivity. }
  destruct SimF as [te1 [s1 [S1 [Hr K1]]]]. rewrite Hat0 in S1.
  set (teA := tset k va te1).
  assert (SA : step (at_ st1 te1 s1) (at_ st2 teA s1a)).
  { apply step_emit; [exact E2|]. cbn [istep]. rewrite Hr. reflexivity. }
  assert (HtA : tlook teA k = Some va) by apply tlook_tset_same.
  assert (SB : step (at_ st2 teA s1a) ((if truthv va then hd 0 jts else hd 0 (tl jts)), O, teA, s1a)).
  { rewrite <- (at_bump 2). unfold jts. destruct isor; cbn [hd tl].
    - apply (step_branch (ITest (RTmp k)) merge other other (bump 2 st2) teA s1a (truthv va) s1a).
      + exact E4.
      + cbn [istep]. rewrite reval_tmp, HtA. reflexivity.
    - apply (step_branch (ITest (RTmp k)) other merge other (bump 2 st2) teA s1a (truthv va) s1a).
      + exact E4.
      + cbn [istep]. rewrite reval_tmp, HtA. reflexivity. }
  assert (KA : Keeps (tmp st) te teA).
  { apply Keeps_tset; [lia|]. eapply Keeps_weaken; [|exact K1]. lia. }
  destruct (Bool.eqb (truthv va) isor) eqn:Edec.
  - exists teA, k. split.
    + eapply steps_trans; [exact S1|]. econstructor; [exact SA|]. apply steps_one.
      replace (at_ (addblk merge (setjt [merge] (emit (ISet k r2) st5))) teA s1a) with (merge, O, teA, s1a) by reflexivity.
      apply Bool.eqb_prop in Edec. unfold jts in SB. rewrite Edec in SB. destruct isor; cbn in SB; exact SB.
    + split; [reflexivity|]. split; [cbn; lia|]. split; [exact HtA|exact KA].
  - assert (SB' : step (at_ st2 teA s1a) (at_ st4 teA s1a)).
    { replace (at_ st4 teA s1a) with (other, O, teA, s1a) by reflexivity.
      apply Bool.eqb_false_iff in Edec. unfold jts in SB. destruct isor; destruct (truthv va); cbn in SB; try congruence; exact SB. }
    specialize (SimS E5 teA s1a).
    rewrite (IndS te teA s1a).
    destruct (evS teA s1a) as [[vb s2]|] eqn:EvS.
    2:{ eapply steps_halts; [eapply steps_trans; [exact S1|]; econstructor; [exact SA|apply steps_one; exact SB']|].
        destruct SimS as [Hh|[te5 [s5 [S5 Hr5]]]]; [exact Hh|].
        eapply steps_halts; [exact S5|]. eapply halt_emit_raise; [exact E5e|]. cbn [istep]. rewrite Hr5. reflexivity. }
    destruct SimS as [te5 [s5 [S5 [Hr5 K5]]]].
    set (teB := tset k vb te5).
    exists teB, k. split.
    + eapply steps_trans; [exact S1|]. econstructor; [exact SA|]. econstructor; [exact SB'|].
      eapply steps_trans; [exact S5|]. econstructor.
      * apply (step_emit (ISet k r2) st5 te5 s5 teB s2 E5e). cbn [istep]. rewrite Hr5. reflexivity.
      * apply steps_one.
        replace (at_ (addblk merge (setjt [merge] (emit (ISet k r2) st5))) teB s2) with (merge, O, teB, s2) by reflexivity.
        apply (step_goto merge merge (emit (ISet k r2) st5) teB s2 HE).
    + split; [reflexivity|]. split; [cbn; lia|]. split; [apply tlook_tset_same|].
      apply Keeps_tset; [lia|]. eapply Keeps_trans; [|exact KA|exact K5]. lia.
Qed.

(* ---------- expressions ---------- *)
Definition EvOf (e : expr) : tenv -> state -> option (Z * state) := fun _ s => eval e s.

Definition ExprP (e : expr) : Prop :=
  good e = true -> ThunkSim (hexpr e) (EvOf e) /\ (is_ebool e = true -> CutSim (hexpr e) (EvOf e)).

Definition ListSim (es : list expr) : Prop :=
  forall st rs st', hlist es st = (rs, st') ->
    Mono st st' /\
    (Ext st' -> forall te s,
      match evlist es s with
      | Some (vs, s2) => exists te' s1, steps (at_ st te s) (at_ st' te' s1) /\ revlist rs te' s1 = Some (vs, s2) /\
                                        Keeps (tmp st) te te'
      | None => halts (at_ st te s) ORaise \/
                exists te' s1, steps (at_ st te s) (at_ st' te' s1) /\ revlist rs te' s1 = None
      end).

Lemma Mono_refl st : Mono st st.
Proof. split; [auto|split; lia]. Qed.
Lemma Mono_trans a b c : Mono a b -> Mono b c -> Mono a c.
Proof. intros [X1 [T1 N1]] [X2 [T2 N2]]. split; [auto|split; lia]. Qed.

Lemma list_sim es : Forall ExprP es -> goodlist es = true -> ListSim es.
Proof.
  induction es as [|x r IH]; intros HP Hg st rs st' Hh.
  - cbn in Hh. injection Hh as <- <-. split; [apply Mono_refl|]. intros HE te s.
    cbn. exists te, s. split; [constructor|]. split; [reflexivity|apply Keeps_refl].
  - inversion HP as [|? ? Px Pr]; subst. cbn [goodlist] in Hg. apply andb_true_iff in Hg as [Hgx Hgr].
    cbn [hlist] in Hh. destruct (hexpr x st) as [rx st1] eqn:Ex. destruct (hlist r st1) as [rr st2] eqn:Er.
    injection Hh as <- <-. destruct (Px Hgx) as [Tx Cx].
    destruct (is_ebool x) eqn:Eb.
    + specialize (IH Pr Hgr). destruct (IH st1 rr st2 Er) as [M12 Sr].
      destruct (Cx eq_refl st rx st1 Ex) as [M01 Sx].
      split; [eapply Mono_trans; eauto|]. intros HE te s.
      assert (E1 : Ext st1) by (apply (proj1 M12); exact HE).
      specialize (Sx E1 te s). cbn [evlist]. unfold EvOf in Sx.
      destruct (eval x s) as [[v s2x]|] eqn:Evx; [|left; exact Sx].
      destruct Sx as [te1 [k [S1 [-> [Hk [Hl K1]]]]]].
      specialize (Sr HE te1 s2x).
      destruct (evlist r s2x) as [[vs s2]|] eqn:Evr.
      * destruct Sr as [te2 [s1r [S2 [Hrr K2]]]]. exists te2, s1r. split; [eapply steps_trans; eauto|].
        split; [|eapply Keeps_trans; [|exact K1|exact K2]; exact (proj1 (proj2 M01))].
        cbn [revlist]. rewrite reval_tmp. rewrite (K2 k) by lia. rewrite Hl. rewrite Hrr. reflexivity.
      * destruct Sr as [Hh|[te2 [s1r [S2 Hrr]]]]; [left; eapply steps_halts; eauto|].
        right. exists te2, s1r. split; [eapply steps_trans; eauto|].
        cbn [revlist]. rewrite reval_tmp.
        destruct (tlook te2 k); [rewrite Hrr; reflexivity|reflexivity].
    + rewrite (cutfrees_hlist r Hgr) in Er. injection Er as <- <-.
      destruct (Tx st rx st1 Ex) as [M01 Sx].
      split; [exact M01|]. intros HE te s. specialize (Sx HE te s). cbn [evlist]. unfold EvOf in Sx.
      destruct (eval x s) as [[v s2x]|] eqn:Evx.
      * destruct Sx as [te1 [s1 [S1 [Hr K1]]]].
        destruct (evlist r s2x) as [[vs s2]|] eqn:Evr.
        -- exists te1, s1. split; [exact S1|]. split; [|exact K1].
           cbn [revlist]. rewrite Hr. rewrite (cutfrees_revlist r Hgr), Evr. reflexivity.
        -- right. exists te1, s1. split; [exact S1|].
           cbn [revlist]. rewrite Hr. rewrite (cutfrees_revlist r Hgr), Evr. reflexivity.
      * destruct Sx as [Hh|[te1 [s1 [S1 Hr]]]]; [left; exact Hh|].
        right. exists te1, s1. split; [exact S1|]. cbn [revlist]. rewrite Hr. reflexivity.
Qed.

Lemma const_thunk r ev :
  (forall te s, ev te s = reval r te s) -> ThunkSim (fun st => (r, st)) ev.
Proof.
  intros Hev st r0 st' Hth. injection Hth as <- <-.
  split; [apply Mono_refl|]. intros HE te s. rewrite Hev.
  destruct (reval r te s) as [[v s2]|] eqn:E.
  - exists te, s. split; [constructor|]. split; [exact E|apply Keeps_refl].
  - right. exists te, s. split; [constructor|exact E].
Qed.

Lemma chain_sim isor es : Forall ExprP es -> goodchain es = true ->
  CutSim (hchain isor es) (fun _ s => evchain isor es s).
Proof.
  induction es as [|a es IH]; intros HP Hg; [discriminate|].
  inversion HP as [|? ? Pa Pr]; subst.
  destruct es as [|b [|c r]].
  - cbn in Hg. rewrite andb_false_r in Hg. discriminate.
  - cbn [goodchain] in Hg. apply andb_true_iff in Hg as [Hga Hcb].
    destruct (Pa Hga) as [Ta _].
    intros st r st' Hth. cbn [hchain] in Hth.
    destruct (hexpr a st) as [ra st1] eqn:Ea. rewrite (cutfree_hexpr b Hcb) in Hth.
    assert (HB : CutSim (boolop isor (fun s0 => (ra, s0)) (fun s0 => (rof b, s0)))
                        (fun te0 s0 => match reval ra te0 s0 with
                                       | Some (va, s1) => if Bool.eqb (truthv va) isor then Some (va, s1) else eval b s1
                                       | None => None end)).
    { apply (boolop_sim isor _ _ (fun te0 s0 => reval ra te0 s0) (fun _ s0 => eval b s0)).
      - apply const_thunk. reflexivity.
      - apply const_thunk. intros te0 s0. rewrite (cutfree_reval b Hcb). reflexivity.
      - reflexivity. }
    destruct (HB st1 r st' Hth) as [M1 Sb]. destruct (Ta st ra st1 Ea) as [M0 Sa].
    split; [eapply Mono_trans; eauto|]. intros HE te s.
    assert (E1 : Ext st1) by (apply (proj1 M1); exact HE).
    specialize (Sa E1 te s). cbn [evchain]. unfold EvOf in Sa.
    destruct (eval a s) as [[va s1a]|] eqn:Eva.
    + destruct Sa as [te1 [s1 [S1 [Hr K1]]]].
      specialize (Sb HE te1 s1). rewrite Hr in Sb. unfold truthv in Sb.
      destruct (if Bool.eqb (negb (Z.eqb va 0)) isor then Some (va, s1a) else eval b s1a) as [[v s2]|] eqn:Ec.
      * destruct Sb as [te' [k [S2 [-> [Hk [Hl K2]]]]]]. exists te', k.
        split; [eapply steps_trans; eauto|]. split; [reflexivity|].
        split; [destruct M0 as [_ [T0 _]]; lia|]. split; [exact Hl|].
        eapply Keeps_trans; [|exact K1|exact K2]. exact (proj1 (proj2 M0)).
      * eapply steps_halts; eauto.
    + destruct Sa as [Hh|[te1 [s1 [S1 Hr]]]]; [exact Hh|].
      specialize (Sb HE te1 s1). rewrite Hr in Sb. eapply steps_halts; eauto.
  - assert (Hg' : good a = true /\ goodchain (b :: c :: r) = true).
    { cbn [goodchain] in Hg. apply andb_true_iff in Hg. exact Hg. }
    destruct Hg' as [Hga Hgr]. destruct (Pa Hga) as [Ta _].
    specialize (IH Pr Hgr).
    change (hchain isor (a :: b :: c :: r)) with (boolop isor (fun s => hexpr a s) (fun s => hchain isor (b :: c :: r) s)).
    assert (HB := boolop_sim isor (fun s => hexpr a s) (fun s => hchain isor (b :: c :: r) s)
                             (EvOf a) (fun _ s0 => evchain isor (b :: c :: r) s0) Ta (CutSim_ThunkSim _ _ IH)
                             (fun _ _ _ => eq_refl)).
    intros st r0 st' Hth. destruct (HB st r0 st' Hth) as [A D].
    split; [exact A|]. intros HE te s. specialize (D HE te s).
    unfold EvOf in D. cbn [evchain]. unfold truthv in D. exact D.
Qed.

Theorem expr_sim e : ExprP e.
Proof.
  induction e as [a|o es IH|c es IH] using expr_ind'; intros Hg.
  - split; [|discriminate]. intros st r st' Hth. cbn in Hth. injection Hth as <- <-.
    split; [apply Mono_refl|]. intros HE te s. unfold EvOf. cbn [SrcE.eval].
    destruct (aval a s) as [[v s2]|] eqn:E.
    + exists te, s. split; [constructor|]. split; [exact E|apply Keeps_refl].
    + right. exists te, s. split; [constructor|exact E].
  - rewrite good_bool in Hg.
    assert (HC : CutSim (hexpr (EBool o es)) (EvOf (EBool o es))).
    { intros st r st' Hth. rewrite hexpr_bool in Hth.
      destruct (chain_sim o es IH Hg st r st' Hth) as [A D]. split; [exact A|].
      intros HE te s. specialize (D HE te s). unfold EvOf. rewrite eval_bool. exact D. }
    split; [apply CutSim_ThunkSim; exact HC|intros _; exact HC].
  - rewrite good_op in Hg. split; [|discriminate].
    intros st r st' Hth. rewrite hexpr_op in Hth.
    destruct (hlist es st) as [rs st1] eqn:El. injection Hth as <- <-.
    destruct (list_sim es IH Hg st rs st1 El) as [A D].
    split; [exact A|]. intros HE te s. specialize (D HE te s). unfold EvOf. rewrite eval_op.
    destruct (evlist es s) as [[vs sx]|] eqn:Ev.
    + destruct D as [te' [s1 [S1 [Hr K]]]].
      destruct (opf c vs sx) as [[v s2]|] eqn:Eo.
      * exists te', s1. split; [exact S1|]. split; [rewrite reval_op, Hr; exact Eo|exact K].
      * right. exists te', s1. split; [exact S1|]. rewrite reval_op, Hr. exact Eo.
    + destruct D as [Hh|[te' [s1 [S1 Hr]]]]; [left; exact Hh|].
      right. exists te', s1. split; [exact S1|]. rewrite reval_op, Hr. reflexivity.
Qed.

(* ---------- statements ---------- *)
Notation exec := (exec state aval opf act foract fortest).
Notation wloop := (wloop state aval opf act foract fortest).
Notation floop := (floop state aval opf act foract fortest).

Fixpoint good_stmt (x : stmt) : bool :=
  match x with
  | SAct _ e => good e
  | SRet _ (Some e) => good e
  | SIf c t e => good c && good_stmts t && good_stmts e
  | SWhile c b o => good c && good_stmts b && good_stmts o
  | SFor _ _ it b o => good it && good_stmts b && good_stmts o
  | _ => true
  end
with good_stmts (l : stmts) : bool :=
  match l with
  | SNil => true
  | SCons x r => good_stmt x && good_stmts r
  end.

Lemma hx_sim e : good e = true -> ThunkSim (hx e) (EvOf e).
Proof. intros Hg. exact (proj1 (expr_sim e Hg)). Qed.

Lemma Ext_hx e st r st' : good e = true -> hx e st = (r, st') -> Ext st' -> Ext st.
Proof. intros Hg Hh. destruct (hx_sim e Hg st r st' Hh) as [[X _] _]. exact X. Qed.

Lemma Ext_cg :
  (forall x lp st, good_stmt x = true -> Ext (cg_stmt x lp st) -> Ext st) /\
  (forall l lp st, good_stmts l = true -> Ext (cg_stmts l lp st) -> Ext st).
Proof.
  apply stmt_stmts_ind.
  - intros a e lp st Hg H. cbn [cg_stmt good_stmt] in *. destruct (hx e st) as [r st1] eqn:E.
    apply Ext_emit in H. eapply Ext_hx; eauto.
  - intros a lp st _ H. eapply Ext_emit; eauto.
  - intros a [e|] lp st Hg H; cbn [cg_stmt good_stmt] in *.
    + destruct (hx e st) as [r st1] eqn:E. apply Ext_emit in H. eapply Ext_hx; eauto.
    + eapply Ext_emit; eauto.
  - intros a lp st _ H. eapply Ext_emit; eauto.
  - intros a lp st _ H. eapply Ext_emit; eauto.
  - intros c t IHt e IHe lp st Hg H. cbn [cg_stmt good_stmt] in *.
    apply andb_true_iff in Hg as [Hg Hge]. apply andb_true_iff in Hg as [Hgc Hgt].
    destruct (hx c (bump 3 st)) as [r st0] eqn:E.
    apply Ext_addblk, Ext_seal, (IHe _ _ Hge), Ext_addblk, Ext_seal, (IHt _ _ Hgt), Ext_addblk, Ext_setjt, Ext_emit in H.
    apply (Ext_hx c _ _ _ Hgc E) in H. apply Ext_bump in H. exact H.
  - intros c b IHb o IHo lp st Hg H. cbn [cg_stmt good_stmt] in *.
    apply andb_true_iff in Hg as [Hg Hgo]. apply andb_true_iff in Hg as [Hgc Hgb].
    destruct (hx c (addblk (next st) (setjt [next st] (bump 4 st)))) as [r st1'] eqn:E.
    apply Ext_addblk, Ext_seal, (IHo _ _ Hgo), Ext_addblk, Ext_seal, (IHb _ _ Hgb), Ext_addblk, Ext_setjt, Ext_emit in H.
    apply (Ext_hx c _ _ _ Hgc E) in H. apply Ext_addblk, Ext_setjt, Ext_bump in H. exact H.
  - intros h tg it b IHb o IHo lp st Hg H. cbn [cg_stmt good_stmt] in *.
    apply andb_true_iff in Hg as [Hg Hgo]. apply andb_true_iff in Hg as [Hgi Hgb].
    destruct (hx it (bump 4 (chk (Z.eqb h (next st)) st))) as [ri st0] eqn:E.
    apply Ext_addblk, Ext_seal, (IHo _ _ Hgo), Ext_emit, Ext_addblk, Ext_seal, (IHb _ _ Hgb), Ext_addblk, Ext_setjt,
          Ext_emit, Ext_emit, Ext_emit, Ext_addblk, Ext_setjt, Ext_emit, Ext_emit in H.
    apply (Ext_hx it _ _ _ Hgi E) in H. apply Ext_bump, Ext_chk in H. exact H.
  - intros lp st _ H. exact H.
  - intros x IHx r IHr lp st Hg H. cbn [cg_stmts good_stmts] in *. apply andb_true_iff in Hg as [Hgx Hgr].
    destruct (is_jump x); [eapply IHx; eauto|eapply IHx; [exact Hgx|]; eapply IHr; eauto].
Qed.

Definition Ext_cg_stmts := proj2 Ext_cg.

(* sealing *)
Definition nojump (b : blk) : Prop :=
  match last_instr b with
  | Some (IBrk _) | Some (ICnt _) | Some (IRet _ _) => False
  | _ => True
  end.

Lemma seal_normal lp d j st te s : nojump (cur st) -> Ext (addblk j (seal lp d st)) -> step (at_ st te s) (d, O, te, s).
Proof.
  unfold nojump, seal. intros Hn HE.
  destruct lp as [[h e]|]; destruct (last_instr (cur st)) as [[]|]; try contradiction;
    eapply step_goto; exact HE.
Qed.

Lemma seal_brk h e d j st te s a : last_instr (cur st) = Some (IBrk a) ->
  Ext (addblk j (seal (Some (h, e)) d st)) -> step (at_ st te s) (e, O, te, s).
Proof. unfold seal. intros Hl HE. rewrite Hl in HE. eapply step_goto; exact HE. Qed.

Lemma seal_cnt h e d j st te s a : last_instr (cur st) = Some (ICnt a) ->
  Ext (addblk j (seal (Some (h, e)) d st)) -> step (at_ st te s) (h, O, te, s).
Proof. unfold seal. intros Hl HE. rewrite Hl in HE. eapply step_goto; exact HE. Qed.

Lemma last_instr_emit i st : last_instr (cur (emit i st)) = Some i.
Proof.
  unfold last_instr. cbn. rewrite map_app. cbn.
  induction (map Some (b_ins (cur st))) as [|x l IH]; [reflexivity|].
  cbn. destruct (l ++ [Some i]) eqn:E; [destruct l; discriminate|]. exact IH.
Qed.

Lemma nojump_empty i st : nojump (cur (addblk i st)).
Proof. unfold nojump. cbn. exact I. Qed.

Lemma nojump_emit i st : (match i with IBrk _ | ICnt _ | IRet _ _ => False | _ => True end) -> nojump (cur (emit i st)).
Proof. intros H. unfold nojump. rewrite last_instr_emit. destruct i; try exact I; contradiction. Qed.

(* what a suite's code does, before and after it is sealed; the temporaries are existential *)
Definition post (lp : option (Z * Z)) (c0 : conf) (stF : bst) (o : outcome) : Prop :=
  match o with
  | ONormal s' => (exists te', steps c0 (at_ stF te' s')) /\ nojump (cur stF)
  | OBreak s' =>
    match lp with
    | None => True
    | Some (h, e) => (exists te', steps c0 (at_ stF te' s') /\ exists a, last_instr (cur stF) = Some (IBrk a)) \/
                     exists te', steps c0 (e, O, te', s')
    end
  | OCont s' =>
    match lp with
    | None => True
    | Some (h, e) => (exists te', steps c0 (at_ stF te' s') /\ exists a, last_instr (cur stF) = Some (ICnt a)) \/
                     exists te', steps c0 (h, O, te', s')
    end
  | ORet a s' => halts c0 (ORet a s')
  | ORaise => halts c0 ORaise
  | OFuel | OStuck => True
  end.

Definition spost (lp : option (Z * Z)) (c0 : conf) (d : Z) (o : outcome) : Prop :=
  match o with
  | ONormal s' => exists te', steps c0 (d, O, te', s')
  | OBreak s' => match lp with None => True | Some (h, e) => exists te', steps c0 (e, O, te', s') end
  | OCont s' => match lp with None => True | Some (h, e) => exists te', steps c0 (h, O, te', s') end
  | ORet a s' => halts c0 (ORet a s')
  | ORaise => halts c0 ORaise
  | OFuel | OStuck => True
  end.

Lemma post_prepend lp c0 c1 stF o : steps c0 c1 -> post lp c1 stF o -> post lp c0 stF o.
Proof.
  intros Hs. destruct o as [s'|s'|s'|a s'| | |]; cbn; try tauto.
  - intros [[te' H1] H2]. split; [exists te'; eapply steps_trans; eauto|exact H2].
  - destruct lp as [[h e]|]; [|tauto]. intros [[te' [H1 H2]]|[te' H1]];
      [left; exists te'; split; [eapply steps_trans; eauto|exact H2]|right; exists te'; eapply steps_trans; eauto].
  - destruct lp as [[h e]|]; [|tauto]. intros [[te' [H1 H2]]|[te' H1]];
      [left; exists te'; split; [eapply steps_trans; eauto|exact H2]|right; exists te'; eapply steps_trans; eauto].
  - intros H. eapply steps_halts; eauto.
  - intros H. eapply steps_halts; eauto.
Qed.

Lemma spost_prepend lp c0 c1 d o : steps c0 c1 -> spost lp c1 d o -> spost lp c0 d o.
Proof.
  intros Hs. destruct o as [s'|s'|s'|a s'| | |]; cbn; try tauto.
  - intros [te' H]. exists te'. eapply steps_trans; eauto.
  - destruct lp as [[h e]|]; [|tauto]. intros [te' H]. exists te'. eapply steps_trans; eauto.
  - destruct lp as [[h e]|]; [|tauto]. intros [te' H]. exists te'. eapply steps_trans; eauto.
  - intros H. eapply steps_halts; eauto.
  - intros H. eapply steps_halts; eauto.
Qed.

Lemma post_seal lp c0 d j stB o : post lp c0 stB o -> Ext (addblk j (seal lp d stB)) -> spost lp c0 d o.
Proof.
  intros Hp HE. destruct o as [s'|s'|s'|a s'| | |]; cbn in *; try tauto.
  - destruct Hp as [[te' H1] H2]. exists te'. eapply steps_trans; [exact H1|]. apply steps_one. eapply seal_normal; eauto.
  - destruct lp as [[h e]|]; [|tauto]. destruct Hp as [[te' [H1 [a H2]]]|H1]; [|exact H1].
    exists te'. eapply steps_trans; [exact H1|]. apply steps_one. eapply seal_brk; eauto.
  - destruct lp as [[h e]|]; [|tauto]. destruct Hp as [[te' [H1 [a H2]]]|H1]; [|exact H1].
    exists te'. eapply steps_trans; [exact H1|]. apply steps_one. eapply seal_cnt; eauto.
Qed.

Lemma spost_abrupt lp c0 d o stF :
  spost lp c0 d o -> (forall s', o <> ONormal s') -> post lp c0 stF o.
Proof.
  destruct o as [s'|s'|s'|a s'| | |]; cbn; intros H Hn; try tauto.
  - exfalso. eapply Hn. reflexivity.
  - destruct lp as [[h e]|]; [right; exact H|exact I].
  - destruct lp as [[h e]|]; [right; exact H|exact I].
Qed.

(* ---------- unfolding equations ---------- *)
Lemma exec_cons f x r s :
  exec (S f) (SCons x r) s =
  match x with
  | SAct a e => match eval e s with
                | Some (v, s1) => match act a (Some v) s1 with Some s2 => exec f r s2 | None => ORaise end
                | None => ORaise end
  | SPass _ => exec f r s
  | SRet a None => match act a None s with Some s1 => ORet a s1 | None => ORaise end
  | SRet a (Some e) => match eval e s with
                       | Some (v, s1) => match act a (Some v) s1 with Some s2 => ORet a s2 | None => ORaise end
                       | None => ORaise end
  | SBreak _ => OBreak s
  | SContinue _ => OCont s
  | SIf c t e =>
    match eval c s with
    | None => ORaise
    | Some (v, s') => match exec f (if truth v then t else e) s' with ONormal s'' => exec f r s'' | o => o end
    end
  | SWhile c body orelse => match wloop f c body orelse s with ONormal s' => exec f r s' | o => o end
  | SFor h tgt itr body orelse =>
    match eval itr s with
    | None => ORaise
    | Some (v, s0) =>
      match foract 0 h 0 (Some v) s0 with
      | None => ORaise
      | Some s1 =>
        match foract 1 0 tgt None s1 with
        | None => ORaise
        | Some s2 => match floop f h tgt body orelse s2 with ONormal s' => exec f r s' | o => o end
        end
      end
    end
  end.
Proof. reflexivity. Qed.

Lemma wloop_S f c body orelse s :
  wloop (S f) c body orelse s =
  match eval c s with
  | None => ORaise
  | Some (v, s2) =>
    if truth v then
      match exec f body s2 with
      | ONormal s3 | OCont s3 => wloop f c body orelse s3
      | OBreak s3 => ONormal s3
      | o => o
      end
    else exec f orelse s2
  end.
Proof. reflexivity. Qed.

Lemma floop_S f h tgt body orelse s :
  floop (S f) h tgt body orelse s =
  match foract 2 h tgt None s with
  | None => ORaise
  | Some s1 =>
    match foract 3 h tgt None s1 with
    | None => ORaise
    | Some s2 =>
      match fortest tgt s2 with
      | None => ORaise
      | Some (true, s3) =>
        match exec f body s3 with
        | ONormal s4 | OCont s4 => floop f h tgt body orelse s4
        | OBreak s4 => ONormal s4
        | o => o
        end
      | Some (false, s3) =>
        match foract 5 h tgt None s3 with
        | None => ORaise
        | Some s4 => exec f orelse s4
        end
      end
    end
  end.
Proof. reflexivity. Qed.

(* ---------- the simulation ---------- *)
Definition P_exec (fuel : nat) : Prop :=
  forall l lp st te s, good_stmts l = true -> nojump (cur st) -> Ext (cg_stmts l lp st) ->
    post lp (at_ st te s) (cg_stmts l lp st) (exec fuel l s).

(* one loop: a header phase that ends in a two-way branch, the body sealed back to the header,
   the else part sealed to the exit *)
Lemma gloop_step f (L : nat -> state -> outcome)
      (hsem : state -> option (bool * state)) (esem : state -> option state)
      body orelse lp n bi ei xi (st2 st4 : bst) :
  P_exec f ->
  (forall te s, match hsem s with
                | Some (b, s2) => exists te', steps (n, O, te, s) ((if b then bi else ei), O, te', s2)
                | None => halts (n, O, te, s) ORaise end) ->
  cur st2 = mkB bi [] [] ->
  (forall te s, match esem s with
                | Some s3 => exists te', steps (ei, O, te, s) (at_ st4 te' s3)
                | None => halts (ei, O, te, s) ORaise end) ->
  nojump (cur st4) ->
  (Ext st4 -> Ext (addblk ei (seal (Some (n, xi)) n (cg_stmts body (Some (n, xi)) st2)))) ->
  Ext (addblk xi (seal lp xi (cg_stmts orelse lp st4))) ->
  good_stmts body = true -> good_stmts orelse = true ->
  (forall s, L (S f) s =
     match hsem s with
     | None => ORaise
     | Some (true, s2) => match exec f body s2 with
                          | ONormal s3 | OCont s3 => L f s3
                          | OBreak s3 => ONormal s3
                          | o => o end
     | Some (false, s2) => match esem s2 with None => ORaise | Some s3 => exec f orelse s3 end
     end) ->
  (forall te s, spost lp (n, O, te, s) xi (L f s)) ->
  forall te s, spost lp (n, O, te, s) xi (L (S f) s).
Proof.
  intros IHe Hhd Hc2 Hel Hnj4 X4 HE Hgb Hgo HL IHl te s. rewrite HL.
  set (stB := cg_stmts body (Some (n, xi)) st2) in *.
  set (stO := cg_stmts orelse lp st4) in *.
  assert (EO : Ext stO) by (eapply Ext_seal, Ext_addblk; exact HE).
  assert (E4 : Ext st4) by (eapply Ext_cg_stmts; [exact Hgo|exact EO]).
  assert (E3a := X4 E4).
  assert (EB : Ext stB) by (eapply Ext_seal, Ext_addblk; exact E3a).
  specialize (Hhd te s).
  destruct (hsem s) as [[b s2]|]; [|exact Hhd].
  destruct Hhd as [te1 S1]. destruct b.
  - assert (Hat2 : (bi, O, te1, s2) = at_ st2 te1 s2) by (unfold at_; rewrite Hc2; reflexivity).
    rewrite Hat2 in S1.
    assert (Hnj2 : nojump (cur st2)) by (rewrite Hc2; exact I).
    pose proof (IHe body (Some (n, xi)) st2 te1 s2 Hgb Hnj2 EB) as Pb. fold stB in Pb.
    pose proof (post_seal _ _ n ei stB _ Pb E3a) as Sb.
    destruct (exec f body s2) as [s3|s3|s3|a s3| | |] eqn:Eb; cbn in Sb.
    + destruct Sb as [te2 Sb]. eapply spost_prepend; [eapply steps_trans; [exact S1|exact Sb]|]. apply IHl.
    + destruct Sb as [te2 Sb]. cbn. exists te2. eapply steps_trans; [exact S1|exact Sb].
    + destruct Sb as [te2 Sb]. eapply spost_prepend; [eapply steps_trans; [exact S1|exact Sb]|]. apply IHl.
    + cbn. eapply steps_halts; [exact S1|exact Sb].
    + cbn. eapply steps_halts; [exact S1|exact Sb].
    + exact I.
    + exact I.
  - specialize (Hel te1 s2). destruct (esem s2) as [s3|].
    2:{ cbn. eapply steps_halts; [exact S1|exact Hel]. }
    destruct Hel as [te2 S2].
    pose proof (IHe orelse lp st4 te2 s3 Hgo Hnj4 EO) as Po. fold stO in Po.
    pose proof (post_seal _ _ xi xi stO _ Po HE) as So.
    eapply spost_prepend; [eapply steps_trans; [exact S1|exact S2]|exact So].
Qed.

Definition P_wloop (fuel : nat) : Prop :=
  forall c body orelse lp st te s,
    good c = true -> good_stmts body = true -> good_stmts orelse = true ->
    Ext (cg_stmt (SWhile c body orelse) lp st) ->
    spost lp (next st, O, te, s) (next st + 2) (wloop fuel c body orelse s).

Definition P_floop (fuel : nat) : Prop :=
  forall h tgt body orelse lp n st1 te s,
    cur st1 = mkB n [] [] ->
    good_stmts body = true -> good_stmts orelse = true ->
    Ext (addblk (n + 3) (seal lp (n + 3) (cg_stmts orelse lp
          (emit (IForRestore h tgt) (addblk (n + 2) (seal (Some (n, n + 3)) n (cg_stmts body (Some (n, n + 3))
             (addblk (n + 1) (setjt [n + 1; n + 2]
                (emit (IForTest tgt) (emit (IForNext h tgt) (emit (IForSave h tgt) st1)))))))))))) ->
    spost lp (n, O, te, s) (n + 3) (floop fuel h tgt body orelse s).

Lemma wloop_step f : P_exec f -> P_wloop f -> P_wloop (S f).
Proof.
  intros IHe IHl. unfold P_wloop. intros c body orelse lp st te s Hgc Hgb Hgo HE.
  cbn [cg_stmt] in HE. set (n := next st) in *.
  set (st1 := addblk n (setjt [n] (bump 4 st))) in *.
  destruct (hx c st1) as [r st1'] eqn:Ec.
  set (st2 := addblk (n + 1) (setjt [n + 1; n + 3] (emit (ITest r) st1'))) in *.
  set (st3 := seal (Some (n, n + 2)) n (cg_stmts body (Some (n, n + 2)) st2)) in *.
  set (st4 := addblk (n + 3) st3) in *.
  assert (EO : Ext (cg_stmts orelse lp st4)) by (eapply Ext_seal, Ext_addblk; exact HE).
  assert (E4 : Ext st4) by (eapply Ext_cg_stmts; [exact Hgo|exact EO]).
  assert (EB : Ext (cg_stmts body (Some (n, n + 2)) st2)) by (eapply Ext_seal, Ext_addblk; exact E4).
  assert (E2 : Ext st2) by (eapply Ext_cg_stmts; [exact Hgb|exact EB]).
  assert (E1' : Ext st1') by (eapply Ext_emit, Ext_setjt, Ext_addblk; exact E2).
  destruct (hx_sim c Hgc st1 r st1' Ec) as [_ Sc].
  apply (gloop_step f (fun f0 s0 => wloop f0 c body orelse s0)
           (fun s0 => match eval c s0 with Some (v, s2) => Some (truth v, s2) | None => None end)
           (fun s0 => Some s0) body orelse lp n (n + 1) (n + 3) (n + 2) st2 st4 IHe).
  - intros te0 s0. specialize (Sc E1' te0 s0). unfold EvOf in Sc.
    replace (n, O, te0, s0) with (at_ st1 te0 s0) by reflexivity.
    destruct (eval c s0) as [[v s2]|].
    + destruct Sc as [te' [s1 [S1 [Hr _]]]]. exists te'.
      eapply steps_trans; [exact S1|]. apply steps_one.
      apply (step_branch (ITest r) (n + 1) (n + 3) (n + 1) st1' te' s1 (truth v) s2 E2).
      cbn [istep]. rewrite Hr. reflexivity.
    + destruct Sc as [Hh|[te' [s1 [S1 Hr]]]]; [exact Hh|].
      eapply steps_halts; [exact S1|].
      apply (halt_branch_raise (ITest r) (n + 1) (n + 3) (n + 1) st1' te' s1 E2). cbn [istep]. rewrite Hr. reflexivity.
  - reflexivity.
  - intros te0 s0. exists te0. constructor.
  - apply nojump_empty.
  - intros H. exact H.
  - exact HE.
  - exact Hgb.
  - exact Hgo.
  - intros s0. rewrite wloop_S. destruct (eval c s0) as [[v s2]|]; [|reflexivity]. destruct (truth v); reflexivity.
  - intros te0 s0. apply (IHl c body orelse lp st te0 s0 Hgc Hgb Hgo).
    cbn [cg_stmt]. fold n. fold st1. rewrite Ec. exact HE.
Qed.

Lemma floop_step f : P_exec f -> P_floop f -> P_floop (S f).
Proof.
  intros IHe IHl. unfold P_floop. intros h tgt body orelse lp n st1 te s Hc Hgb Hgo HE.
  set (stH := emit (IForNext h tgt) (emit (IForSave h tgt) st1)) in *.
  set (st2 := addblk (n + 1) (setjt [n + 1; n + 2] (emit (IForTest tgt) stH))) in *.
  set (st3 := seal (Some (n, n + 3)) n (cg_stmts body (Some (n, n + 3)) st2)) in *.
  set (st4 := emit (IForRestore h tgt) (addblk (n + 2) st3)) in *.
  assert (EO : Ext (cg_stmts orelse lp st4)) by (eapply Ext_seal, Ext_addblk; exact HE).
  assert (E4 : Ext st4) by (eapply Ext_cg_stmts; [exact Hgo|exact EO]).
  assert (E3a : Ext (addblk (n + 2) st3)) by (eapply Ext_emit; exact E4).
  assert (EB : Ext (cg_stmts body (Some (n, n + 3)) st2)) by (eapply Ext_seal, Ext_addblk; exact E3a).
  assert (E2 : Ext st2) by (eapply Ext_cg_stmts; [exact Hgb|exact EB]).
  assert (EH : Ext stH) by (eapply Ext_emit, Ext_setjt, Ext_addblk; exact E2).
  assert (EH1 : Ext (emit (IForSave h tgt) st1)) by (eapply Ext_emit; exact EH).
  apply (gloop_step f (fun f0 s0 => floop f0 h tgt body orelse s0)
           (fun s0 => match foract 2 h tgt None s0 with
                      | None => None
                      | Some s1 => match foract 3 h tgt None s1 with None => None | Some s2 => fortest tgt s2 end
                      end)
           (fun s0 => foract 5 h tgt None s0) body orelse lp n (n + 1) (n + 2) (n + 3) st2 st4 IHe).
  - intros te0 s0. replace (n, O, te0, s0) with (at_ st1 te0 s0) by (unfold at_; rewrite Hc; reflexivity).
    destruct (foract 2 h tgt None s0) as [s1|] eqn:F2.
    2:{ eapply halt_emit_raise; [exact EH1|]. cbn [istep]. rewrite F2. reflexivity. }
    assert (S1 : step (at_ st1 te0 s0) (at_ (emit (IForSave h tgt) st1) te0 s1)).
    { apply step_emit; [exact EH1|]. cbn [istep]. rewrite F2. reflexivity. }
    destruct (foract 3 h tgt None s1) as [s2|] eqn:F3.
    2:{ eapply h_step; [exact S1|]. eapply halt_emit_raise; [exact EH|]. cbn [istep]. rewrite F3. reflexivity. }
    assert (S2 : step (at_ (emit (IForSave h tgt) st1) te0 s1) (at_ stH te0 s2)).
    { apply step_emit; [exact EH|]. cbn [istep]. rewrite F3. reflexivity. }
    destruct (fortest tgt s2) as [[b s3]|] eqn:Ft.
    + exists te0. econstructor; [exact S1|]. econstructor; [exact S2|]. apply steps_one.
      apply (step_branch (IForTest tgt) (n + 1) (n + 2) (n + 1) stH te0 s2 b s3 E2). cbn [istep]. rewrite Ft. reflexivity.
    + eapply h_step; [exact S1|]. eapply h_step; [exact S2|].
      apply (halt_branch_raise (IForTest tgt) (n + 1) (n + 2) (n + 1) stH te0 s2 E2). cbn [istep]. rewrite Ft. reflexivity.
  - reflexivity.
  - intros te0 s0. replace (n + 2, O, te0, s0) with (at_ (addblk (n + 2) st3) te0 s0) by reflexivity.
    destruct (foract 5 h tgt None s0) as [s3|] eqn:F5.
    + exists te0. apply steps_one. apply step_emit; [exact E4|]. cbn [istep]. rewrite F5. reflexivity.
    + eapply halt_emit_raise; [exact E4|]. cbn [istep]. rewrite F5. reflexivity.
  - apply nojump_emit. exact I.
  - intros H. eapply Ext_emit; exact H.
  - exact HE.
  - exact Hgb.
  - exact Hgo.
  - intros s0. rewrite floop_S. destruct (foract 2 h tgt None s0) as [s1|]; [|reflexivity].
    destruct (foract 3 h tgt None s1) as [s2|]; [|reflexivity].
    destruct (fortest tgt s2) as [[[|] s3]|]; reflexivity.
  - intros te0 s0. apply (IHl h tgt body orelse lp n st1 te0 s0 Hc Hgb Hgo HE).
Qed.

(* continuing with the rest of a suite after a compound statement *)
Lemma after_compound f lp c0 d (st' : bst) r o :
  P_exec f -> (forall te' s', (d, O, te', s') = at_ st' te' s') -> nojump (cur st') ->
  good_stmts r = true -> Ext (cg_stmts r lp st') ->
  spost lp c0 d o ->
  post lp c0 (cg_stmts r lp st')
       (match o with
        | ONormal s'' => exec f r s''
        | OBreak s0 => OBreak s0 | OCont s0 => OCont s0 | ORet a s0 => ORet a s0
        | ORaise => ORaise | OFuel => OFuel | OStuck => OStuck
        end).
Proof.
  intros IHe Hat Hn Hg HE Hs.
  destruct o as [s'|s'|s'|a s'| | |] eqn:Eo.
  - cbn in Hs. destruct Hs as [te' Hs]. eapply post_prepend; [exact Hs|]. rewrite Hat. apply IHe; assumption.
  - eapply spost_abrupt; [exact Hs|intros; discriminate].
  - eapply spost_abrupt; [exact Hs|intros; discriminate].
  - eapply spost_abrupt; [exact Hs|intros; discriminate].
  - eapply spost_abrupt; [exact Hs|intros; discriminate].
  - exact I.
  - exact I.
Qed.

Lemma exec_step f : P_exec f -> P_wloop f -> P_floop f -> P_exec (S f).
Proof.
  intros IHe IHw IHf. unfold P_exec. intros l lp st te s Hg Hnj HE.
  destruct l as [|x r].
  - cbn. split; [exists te; constructor|exact Hnj].
  - rewrite exec_cons. cbn [good_stmts] in Hg. apply andb_true_iff in Hg as [Hgx Hgr].
    destruct x as [a e|a|a oe|a|a|c t e|c body orelse|h tg it body orelse];
      cbn [cg_stmts cg_stmt is_jump good_stmt] in *.
    + (* SAct *)
      destruct (hx e st) as [re st1] eqn:Ee.
      assert (E1e : Ext (emit (IAct a re) st1)) by (eapply Ext_cg_stmts; [exact Hgr|exact HE]).
      assert (E1 : Ext st1) by (eapply Ext_emit; exact E1e).
      destruct (hx_sim e Hgx st re st1 Ee) as [_ Se]. specialize (Se E1 te s). unfold EvOf in Se.
      destruct (eval e s) as [[v s1]|].
      * destruct Se as [te' [s0 [S0 [Hr _]]]].
        destruct (act a (Some v) s1) as [s2|] eqn:Ea.
        -- eapply post_prepend; [eapply steps_trans; [exact S0|]; apply steps_one;
                                 apply (step_emit (IAct a re) st1 te' s0 te' s2 E1e); cbn [istep]; rewrite Hr, Ea; reflexivity|].
           apply IHe; [exact Hgr|apply nojump_emit; exact I|exact HE].
        -- cbn. eapply steps_halts; [exact S0|]. eapply halt_emit_raise; [exact E1e|]. cbn [istep]. rewrite Hr, Ea. reflexivity.
      * cbn. destruct Se as [Hh|[te' [s0 [S0 Hr]]]]; [exact Hh|].
        eapply steps_halts; [exact S0|]. eapply halt_emit_raise; [exact E1e|]. cbn [istep]. rewrite Hr. reflexivity.
    + (* SPass *)
      assert (E1 : Ext (emit (IPass a) st)) by (eapply Ext_cg_stmts; [exact Hgr|exact HE]).
      eapply post_prepend; [apply steps_one; apply (step_emit (IPass a) st te s te s E1); reflexivity|].
      apply IHe; [exact Hgr|apply nojump_emit; exact I|exact HE].
    + (* SRet *)
      destruct oe as [e|].
      * destruct (hx e st) as [re st1] eqn:Ee.
        assert (E1 : Ext st1) by (eapply Ext_emit; exact HE).
        destruct (hx_sim e Hgx st re st1 Ee) as [_ Se]. specialize (Se E1 te s). unfold EvOf in Se.
        destruct (eval e s) as [[v s1]|].
        -- destruct Se as [te' [s0 [S0 [Hr _]]]].
           destruct (act a (Some v) s1) as [s2|] eqn:Ea; cbn.
           ++ eapply steps_halts; [exact S0|]. eapply halt_emit_ret; [exact HE|]. cbn [istep]. rewrite Hr, Ea. reflexivity.
           ++ eapply steps_halts; [exact S0|]. eapply halt_emit_raise; [exact HE|]. cbn [istep]. rewrite Hr, Ea. reflexivity.
        -- cbn. destruct Se as [Hh|[te' [s0 [S0 Hr]]]]; [exact Hh|].
           eapply steps_halts; [exact S0|]. eapply halt_emit_raise; [exact HE|]. cbn [istep]. rewrite Hr. reflexivity.
      * destruct (act a None s) as [s1|] eqn:Ea; cbn.
        -- eapply halt_emit_ret; [exact HE|]. cbn [istep]. rewrite Ea. reflexivity.
        -- eapply halt_emit_raise; [exact HE|]. cbn [istep]. rewrite Ea. reflexivity.
    + (* SBreak *)
      cbn. destruct lp as [[h e]|]; [|exact I]. left. exists te. split.
      * apply steps_one. apply (step_emit (IBrk a) st te s te s HE). reflexivity.
      * exists a. apply last_instr_emit.
    + (* SContinue *)
      cbn. destruct lp as [[h e]|]; [|exact I]. left. exists te. split.
      * apply steps_one. apply (step_emit (ICnt a) st te s te s HE). reflexivity.
      * exists a. apply last_instr_emit.
    + (* SIf *)
      apply andb_true_iff in Hgx as [Hgx Hge]. apply andb_true_iff in Hgx as [Hgc Hgt].
      set (n := next st) in *.
      destruct (hx c (bump 3 st)) as [rc st0] eqn:Ec.
      set (stT0 := addblk n (setjt [n; n + 1] (emit (ITest rc) st0))) in *.
      set (stT := cg_stmts t lp stT0) in *.
      set (st3 := addblk (n + 1) (seal lp (n + 2) stT)) in *.
      set (stE := cg_stmts e lp st3) in *.
      set (st' := addblk (n + 2) (seal lp (n + 2) stE)) in *.
      assert (E' : Ext st') by (eapply Ext_cg_stmts; [exact Hgr|exact HE]).
      assert (EE : Ext stE) by (eapply Ext_seal, Ext_addblk; exact E').
      assert (E3 : Ext st3) by (eapply Ext_cg_stmts; [exact Hge|exact EE]).
      assert (ET : Ext stT) by (eapply Ext_seal, Ext_addblk; exact E3).
      assert (ET0 : Ext stT0) by (eapply Ext_cg_stmts; [exact Hgt|exact ET]).
      assert (E0 : Ext st0) by (eapply Ext_emit, Ext_setjt, Ext_addblk; exact ET0).
      destruct (hx_sim c Hgc (bump 3 st) rc st0 Ec) as [_ Sc]. specialize (Sc E0 te s). unfold EvOf in Sc.
      rewrite at_bump in Sc.
      destruct (eval c s) as [[v s1]|].
      2:{ cbn. destruct Sc as [Hh|[te' [s0 [S0 Hr]]]]; [exact Hh|].
          eapply steps_halts; [exact S0|].
          apply (halt_branch_raise (ITest rc) n (n + 1) n st0 te' s0 ET0). cbn [istep]. rewrite Hr. reflexivity. }
      destruct Sc as [te' [s0 [S0 [Hr _]]]].
      assert (S1 : steps (at_ st te s) ((if truth v then n else n + 1), O, te', s1)).
      { eapply steps_trans; [exact S0|]. apply steps_one.
        apply (step_branch (ITest rc) n (n + 1) n st0 te' s0 (truth v) s1 ET0). cbn [istep]. rewrite Hr. reflexivity. }
      destruct (truth v).
      * pose proof (IHe t lp stT0 te' s1 Hgt (nojump_empty n _) ET) as Pt. fold stT in Pt.
        pose proof (post_seal _ _ (n + 2) (n + 1) stT _ Pt E3) as St.
        apply (after_compound f lp (at_ st te s) (n + 2) st' r (exec f t s1) IHe);
          [intros; reflexivity|apply nojump_empty|exact Hgr|exact HE|].
        eapply spost_prepend; [exact S1|exact St].
      * pose proof (IHe e lp st3 te' s1 Hge (nojump_empty (n + 1) _) EE) as Pe. fold stE in Pe.
        pose proof (post_seal _ _ (n + 2) (n + 2) stE _ Pe E') as Se.
        apply (after_compound f lp (at_ st te s) (n + 2) st' r (exec f e s1) IHe);
          [intros; reflexivity|apply nojump_empty|exact Hgr|exact HE|].
        eapply spost_prepend; [exact S1|exact Se].
    + (* SWhile *)
      apply andb_true_iff in Hgx as [Hgx Hgo]. apply andb_true_iff in Hgx as [Hgc Hgb].
      assert (E' : Ext (cg_stmt (SWhile c body orelse) lp st)).
      { cbn [cg_stmt]. eapply Ext_cg_stmts; [exact Hgr|exact HE]. }
      pose proof (IHw c body orelse lp st te s Hgc Hgb Hgo E') as Sl.
      set (n := next st) in *.
      (* reach the header *)
      assert (E1 : Ext (addblk n (setjt [n] (bump 4 st)))).
      { cbn [cg_stmt] in E'. fold n in E'.
        destruct (hx c (addblk n (setjt [n] (bump 4 st)))) as [rc st1'] eqn:Ec.
        apply Ext_addblk, Ext_seal, (Ext_cg_stmts _ _ _ Hgo), Ext_addblk, Ext_seal, (Ext_cg_stmts _ _ _ Hgb),
              Ext_addblk, Ext_setjt, Ext_emit in E'.
        eapply Ext_hx; eauto. }
      pose proof (step_goto n n (bump 4 st) te s E1) as S1. rewrite at_bump in S1.
      destruct (hx c (addblk n (setjt [n] (bump 4 st)))) as [rc st1'] eqn:Ec.
      match type of HE with Ext (cg_stmts r lp ?X) => set (st' := X) in * end.
      apply (after_compound f lp (at_ st te s) (n + 2) st' r _ IHe);
        [intros; reflexivity|apply nojump_empty|exact Hgr|exact HE|].
      eapply spost_prepend; [apply steps_one; exact S1|exact Sl].
    + (* SFor *)
      apply andb_true_iff in Hgx as [Hgx Hgo]. apply andb_true_iff in Hgx as [Hgi Hgb].
      set (n := next st) in *.
      destruct (hx it (bump 4 (chk (Z.eqb h n) st))) as [ri st0] eqn:Ei.
      set (st0a := emit (IForIter h ri) st0) in *.
      set (st0b := emit (IForInit tg) st0a) in *.
      set (st1 := addblk n (setjt [n] st0b)) in *.
      match type of HE with Ext (cg_stmts r lp ?X) => set (st' := X) in * end.
      assert (E' : Ext st') by (eapply Ext_cg_stmts; [exact Hgr|exact HE]).
      assert (E1 : Ext st1).
      { unfold st' in E'.
        apply Ext_addblk, Ext_seal, (Ext_cg_stmts _ _ _ Hgo), Ext_emit, Ext_addblk, Ext_seal, (Ext_cg_stmts _ _ _ Hgb),
              Ext_addblk, Ext_setjt, Ext_emit, Ext_emit, Ext_emit in E'.
        exact E'. }
      assert (E0b : Ext st0b) by (eapply Ext_setjt, Ext_addblk; exact E1).
      assert (E0a : Ext st0a) by (eapply Ext_emit; exact E0b).
      assert (E0 : Ext st0) by (eapply Ext_emit; exact E0a).
      destruct (hx_sim it Hgi _ ri st0 Ei) as [_ Si]. specialize (Si E0 te s). unfold EvOf in Si.
      rewrite at_bump, at_chk in Si.
      destruct (eval it s) as [[v s0]|].
      2:{ cbn. destruct Si as [Hh|[te' [sx [S0 Hr]]]]; [exact Hh|].
          eapply steps_halts; [exact S0|]. eapply halt_emit_raise; [exact E0a|]. cbn [istep]. rewrite Hr. reflexivity. }
      destruct Si as [te' [sx [S0 [Hr _]]]].
      destruct (foract 0 h 0 (Some v) s0) as [s1|] eqn:F0.
      2:{ cbn. eapply steps_halts; [exact S0|]. eapply halt_emit_raise; [exact E0a|]. cbn [istep]. rewrite Hr, F0. reflexivity. }
      assert (Sa : step (at_ st0 te' sx) (at_ st0a te' s1)).
      { apply step_emit; [exact E0a|]. cbn [istep]. rewrite Hr, F0. reflexivity. }
      destruct (foract 1 0 tg None s1) as [s2|] eqn:F1.
      2:{ cbn. eapply steps_halts; [exact S0|]. eapply h_step; [exact Sa|].
          eapply halt_emit_raise; [exact E0b|]. cbn [istep]. rewrite F1. reflexivity. }
      assert (Sb : step (at_ st0a te' s1) (at_ st0b te' s2)).
      { apply step_emit; [exact E0b|]. cbn [istep]. rewrite F1. reflexivity. }
      pose proof (step_goto n n st0b te' s2 E1) as Sg.
      pose proof (IHf h tg body orelse lp n st1 te' s2 eq_refl Hgb Hgo E') as Sl.
      apply (after_compound f lp (at_ st te s) (n + 3) st' r _ IHe);
        [intros; reflexivity|apply nojump_empty|exact Hgr|exact HE|].
      eapply spost_prepend; [|exact Sl].
      eapply steps_trans; [exact S0|]. econstructor; [exact Sa|]. econstructor; [exact Sb|]. apply steps_one. exact Sg.
Qed.

Theorem simulation : forall fuel, P_exec fuel /\ P_wloop fuel /\ P_floop fuel.
Proof.
  induction fuel as [|f [IHe [IHw IHf]]].
  - split; [|split].
    + unfold P_exec. intros. exact I.
    + unfold P_wloop. intros. exact I.
    + unfold P_floop. intros. exact I.
  - split; [apply exec_step; assumption|split; [apply wloop_step; assumption|apply floop_step; assumption]].
Qed.

(* ---------- the finished graph extends the final builder state ---------- *)
Lemma findb_NoDup : NoDup (map b_idx G) -> forall b, In b G -> findb G (b_idx b) = Some b.
Proof.
  unfold findb. induction G as [|x l IH]; intros Hnd b Hin; [destruct Hin|].
  cbn in Hnd. inversion Hnd as [|? ? Hnot Hnd']; subst. cbn.
  destruct Hin as [->|Hin]; [rewrite Z.eqb_refl; reflexivity|].
  destruct (Z.eqb (b_idx x) (b_idx b)) eqn:E.
  - apply Z.eqb_eq in E. exfalso. apply Hnot. rewrite E. apply in_map. exact Hin.
  - apply IH; assumption.
Qed.

Lemma Ext_final st : G = blocks_of st -> NoDup (map b_idx G) -> Ext st.
Proof.
  intros HG Hnd. split.
  - intros b Hb. apply findb_NoDup; [exact Hnd|]. rewrite HG. unfold blocks_of. apply in_rev.
    rewrite rev_involutive. right. exact Hb.
  - exists (cur st). split.
    + apply findb_NoDup; [exact Hnd|]. rewrite HG. unfold blocks_of. apply in_rev.
      rewrite rev_involutive. left. reflexivity.
    + exists []. rewrite app_nil_r. reflexivity.
Qed.

Theorem graph_simulates_source body fuel s :
  good_stmts body = true -> G = build body -> NoDup (map b_idx G) ->
  match exec fuel body s with
  | ORet a s' => halts (0, O, [], s) (ORet a s')
  | ORaise => halts (0, O, [], s) ORaise
  | _ => True
  end.
Proof.
  intros Hg HG Hnd. destruct (simulation fuel) as [He _].
  pose proof (He body None st_init [] s Hg I (Ext_final _ HG Hnd)) as Hp.
  destruct (exec fuel body s); try exact I; exact Hp.
Qed.

(* ---------- from the small-step reading to the executable interpreter ---------- *)
Notation run := (run state aval opf act foract fortest).
Notation run_ins := (run_ins state aval opf act foract fortest).

Lemma run_ins_cons i r te s :
  run_ins (i :: r) te s =
  match istep i te s with
  | INext te' s' => run_ins r te' s'
  | IBranch b s' => match r with [] => RGo _ te s' (Some b) | _ => run_ins r te s' end
  | IReturn a s' => RHalt _ (ORet a s')
  | IRaise => RHalt _ ORaise
  end.
Proof.
  destruct i as [a e|a|a [e|]|a|a|e|k e|h e|t|h t|h t|t|h t]; cbn [SrcE.run_ins istep]; try reflexivity.
  - destruct (reval e te s) as [[v s1]|]; [|reflexivity]. destruct (act a (Some v) s1); reflexivity.
  - destruct (reval e te s) as [[v s1]|]; [|reflexivity]. destruct (act a (Some v) s1); reflexivity.
  - destruct (act a None s); reflexivity.
  - destruct (reval e te s) as [[v s1]|]; reflexivity.
  - destruct (reval e te s) as [[v s1]|]; reflexivity.
  - destruct (reval e te s) as [[v s1]|]; [|reflexivity]. destruct (foract 0 h 0 (Some v) s1); reflexivity.
  - destruct (foract 1 0 t None s); reflexivity.
  - destruct (foract 2 h t None s); reflexivity.
  - destruct (foract 3 h t None s); reflexivity.
  - destruct (fortest t s) as [[b s1]|]; reflexivity.
  - destruct (foract 5 h t None s); reflexivity.
Qed.

Definition cont (fuel : nat) (b : blk) (r : rres state) : outcome :=
  match r with
  | RHalt _ o => o
  | RGo _ te' s' lastb =>
    match b_jt b, lastb with
    | [t], _ => run G fuel t te' s'
    | [t1; t2], Some true => run G fuel t1 te' s'
    | [t1; t2], Some false => run G fuel t2 te' s'
    | _, _ => OStuck
    end
  end.

Lemma run_S fuel pc te s b : findb G pc = Some b ->
  run G (S fuel) pc te s = cont fuel b (run_ins (b_ins b) te s).
Proof. intros H. cbn [SrcE.run]. rewrite H. unfold cont. destruct (run_ins _ _ _); reflexivity. Qed.

Lemma skipn_nth {A} (l : list A) : forall k x, nth_error l k = Some x -> skipn k l = x :: skipn (S k) l.
Proof.
  induction l as [|y l IH]; intros [|k] x H; cbn in *; try discriminate.
  - injection H as ->. reflexivity.
  - apply IH. exact H.
Qed.

Lemma skipn_last {A} (l : list A) k x : nth_error l k = Some x -> S k = length l -> skipn k l = [x].
Proof. intros H1 H2. rewrite (skipn_nth _ _ _ H1). rewrite skipn_all2 by lia. reflexivity. Qed.

Lemma halts_run c o : halts c o ->
  exists fuel b, findb G (fst (fst (fst c))) = Some b /\
    cont fuel b (run_ins (skipn (snd (fst (fst c))) (b_ins b)) (snd (fst c)) (snd c)) = o.
Proof.
  induction 1 as [pc k te s b i a s' Hf Hn Hi|pc k te s b i Hf Hn Hi|c1 c2 o Hs Hh [fuel [b2 [Hf2 Hr2]]]];
    cbn [fst snd].
  - exists O, b. split; [exact Hf|]. rewrite (skipn_nth _ _ _ Hn). rewrite run_ins_cons, Hi. reflexivity.
  - exists O, b. split; [exact Hf|]. rewrite (skipn_nth _ _ _ Hn). rewrite run_ins_cons, Hi. reflexivity.
  - destruct Hs as [pc k te s b i te' s' Hf Hn Hi|pc k te s b i bv s' t1 t2 Hf Hn Hl Hi Hj|pc k te s b t Hf Hk Hj];
      cbn [fst snd] in *.
    + exists fuel, b2. split; [exact Hf2|]. rewrite Hf in Hf2. injection Hf2 as <-.
      rewrite (skipn_nth _ _ _ Hn). rewrite run_ins_cons, Hi. exact Hr2.
    + exists (S fuel), b. split; [exact Hf|]. rewrite (skipn_last _ _ _ Hn Hl). rewrite run_ins_cons, Hi.
      unfold cont at 1. rewrite Hj. destruct bv; rewrite (run_S _ _ _ _ _ Hf2); exact Hr2.
    + exists (S fuel), b. split; [exact Hf|]. subst k. rewrite skipn_all. cbn [SrcE.run_ins].
      unfold cont at 1. rewrite Hj. rewrite (run_S _ _ _ _ _ Hf2). exact Hr2.
Qed.

End Proof.

(* ---------- the statement for a whole function body ---------- *)
Theorem front_end_correct_e :
  forall (state : Type) (aval : Z -> state -> option (Z * state))
         (opf : Z -> list Z -> state -> option (Z * state))
         (act : Z -> option Z -> state -> option state)
         (foract : Z -> Z -> Z -> option Z -> state -> option state)
         (fortest : Z -> state -> option (bool * state))
         (body : stmts) (fuel : nat) (s : state) (o : outcome state),
    good_stmts body = true ->
    NoDup (map b_idx (build body)) ->
    exec state aval opf act foract fortest fuel body s = o ->
    (exists a s', o = ORet a s') \/ o = ORaise ->
    exists fuel', run state aval opf act foract fortest (build body) fuel' 0 [] s = o.
Proof.
  intros state aval opf act foract fortest body fuel s o Hg Hnd He Ho.
  pose proof (graph_simulates_source state aval opf act foract fortest (build body) body fuel s Hg eq_refl Hnd) as H.
  rewrite He in H.
  assert (Hh : halts state aval opf act foract fortest (build body) (0, O, [], s) o).
  { destruct Ho as [[a [s' ->]]| ->]; exact H. }
  destruct (halts_run _ _ _ _ _ _ _ _ _ Hh) as [fuel' [b [Hf Hr]]]. cbn [fst snd] in *.
  exists (S fuel'). rewrite (run_S state aval opf act foract fortest (build body) fuel' 0 [] s b Hf). exact Hr.
Qed.

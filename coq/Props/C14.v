(* C14 — graph edit primitives reroute exactly the requested arcs.
   Universal statements over the line-by-line models of Edits.v. *)
From Coq Require Import List ZArith.
Import ListNotations.
From V Require Import Valid.Hier Model.Graph Model.Edits Model.Edits2 Model.Edits3 Model.TableSpec.

(* the successors that are neither in S nor the new block keep their order *)
Theorem C14_remaining_successors_untouched :
  forall new S jt, S <> [] -> others new S (retarget new S jt) = others new S jt.
Proof. exact retarget_others. Qed.
Print Assumptions C14_remaining_successors_untouched.

(* with distinct successors and a fresh name: every former arc into S is gone,
   nothing foreign appears, the new block is a successor exactly when an arc
   into S existed (or it already was one), and exactly once *)
Theorem C14_arcs_rerouted :
  forall new S jt, S <> [] -> NoDup jt -> ~ In new S ->
    let jt' := retarget new S jt in
    NoDup jt' /\ (forall s, In s S -> ~ In s jt') /\
    (forall x, In x jt' -> x = new \/ In x jt) /\
    (In new jt' <-> In new jt \/ exists s, In s S /\ In s jt).
Proof. exact retarget_arcs. Qed.
Print Assumptions C14_arcs_rerouted.

(* insert_block: the new block has exactly the successors S; blocks that are
   not predecessors are untouched; a predecessor keeps its back edges and its
   successors are the retargeted ones (S = [] : the new block is appended) *)
Theorem C14_insert_block :
  forall g new preds S cls g', NoDup preds -> ~ In new preds ->
    insert_block g new preds S cls = Ok g' ->
    efind g' new = Some (mkE S [] (EPlain cls)) /\
    (forall x, ~ In x preds -> x <> new -> efind g' x = efind g x) /\
    (forall p, In p preds -> exists b b', efind g p = Some b /\ efind g' p = Some b' /\
         e_jt b' = retarget new S (e_jt b) /\ e_be b' = e_be b).
Proof. exact insert_block_spec. Qed.
Print Assumptions C14_insert_block.

(* closing the graph: a no-op with at most one exit ... *)
Theorem C14_join_returns_noop :
  forall g fresh cls, (length (exits_of g) <= 1)%nat -> join_returns g fresh cls = Ok g.
Proof. exact join_returns_noop. Qed.
Print Assumptions C14_join_returns_noop.

(* ... otherwise one new exit, reached from every former exit, nothing else changed *)
Theorem C14_join_returns :
  forall g fresh cls g', NoDup (ekeys g) -> ~ In fresh (ekeys g) -> (2 <= length (exits_of g))%nat ->
    join_returns g fresh cls = Ok g' ->
    efind g' fresh = Some (mkE [] [] (EPlain cls)) /\
    (forall x, ~ In x (exits_of g) -> x <> fresh -> efind g' x = efind g x) /\
    (forall p, In p (exits_of g) -> exists b b', efind g p = Some b /\ efind g' p = Some b' /\
         e_jt b' = e_jt b ++ [fresh] /\ e_be b' = e_be b).
Proof. exact join_returns_spec. Qed.
Print Assumptions C14_join_returns.

(* control-block variant, decided per result by a verified checker: every
   successor position of every predecessor is unchanged or now goes to its own
   assignment block -> new head, whose table sends the assigned value to the
   arc's original target *)
Theorem C14_control_blocks_checker :
  forall g g' new preds S, cb_ok g g' new preds S = true ->
    exists cls var tbl, efind g' new = Some (mkE S [] (EBranch cls var tbl)) /\
    forall p, In p preds -> exists b b', efind g p = Some b /\ efind g' p = Some b' /\
      length (e_jt b) = length (e_jt b') /\
      forall k s t', nth_error (e_jt b) k = Some s -> nth_error (e_jt b') k = Some t' ->
                     ArcOk g' new var tbl s t'.
Proof. exact cb_ok_sound. Qed.
Print Assumptions C14_control_blocks_checker.

(* control-block variant, for every graph, every P and S and every supply of fresh
   assignment names: the new head has exactly the successors S and a table; a
   predecessor keeps its arity, its back edges, its kind (it is the old block
   with the new successors: replace_jt) and every successor outside S in place; every position that went into S now holds an assignment block of the
   supply, which continues to the head and sets the control variable to a value
   the table sends to the arc's original target; no assignment block is shared,
   neither inside a predecessor (its successors stay distinct) nor between two
   predecessors; every other block is untouched *)
Theorem C14_control_blocks :
  forall g new var preds Ss names cls g',
  NoDup preds -> ~ In new preds -> NoDup names ->
  (forall a, In a names -> efind g a = None /\ a <> new /\ ~ In a preds /\ ~ In a Ss) ->
  (forall p b, In p preds -> efind g p = Some b -> NoDup (e_jt b) /\ forall a, In a names -> ~ In a (e_jt b)) ->
  insert_cb g new var preds Ss names cls = Ok g' ->
  exists tbl,
    efind g' new = Some (mkE Ss [] (EBranch cls var tbl)) /\
    (forall p, In p preds -> exists b b', efind g p = Some b /\ efind g' p = Some b' /\
       length (e_jt b) = length (e_jt b') /\ e_be b' = e_be b /\ replace_jt b (e_jt b') = Some b' /\ NoDup (e_jt b') /\
       forall k s t', nth_error (e_jt b) k = Some s -> nth_error (e_jt b') k = Some t' ->
         (~ In s Ss -> t' = s) /\
         (In s Ss -> In t' names /\
            exists i, efind g' t' = Some (mkE [new] [] (EAssign [(var, i)])) /\ zassoc i tbl = Some s)) /\
    (forall p q b1 b2, In p preds -> In q preds -> p <> q -> efind g' p = Some b1 -> efind g' q = Some b2 ->
       forall a, In a names -> In a (e_jt b1) -> ~ In a (e_jt b2)) /\
    (forall x, x <> new -> ~ In x preds -> ~ In x names -> efind g' x = efind g x).
Proof. exact insert_cb_reroutes. Qed.
Print Assumptions C14_control_blocks.

(* the same without asking the predecessors' successors to be distinct: every
   position is unchanged or rerouted through an assignment block as above *)
Theorem C14_control_blocks_any_targets :
  forall g new var preds Ss names cls g',
  NoDup preds -> ~ In new preds -> NoDup names ->
  (forall a, In a names -> efind g a = None /\ a <> new /\ ~ In a preds /\ ~ In a Ss) ->
  insert_cb g new var preds Ss names cls = Ok g' ->
  exists tbl,
    efind g' new = Some (mkE Ss [] (EBranch cls var tbl)) /\
    (forall p, In p preds -> exists b b', efind g p = Some b /\ efind g' p = Some b' /\
       length (e_jt b) = length (e_jt b') /\ e_be b' = e_be b /\ replace_jt b (e_jt b') = Some b' /\
       forall k s t', nth_error (e_jt b) k = Some s -> nth_error (e_jt b') k = Some t' ->
                      ArcOk g' new var tbl s t') /\
    (forall x, x <> new -> ~ In x preds -> ~ In x names -> efind g' x = efind g x).
Proof. exact insert_cb_spec. Qed.
Print Assumptions C14_control_blocks_any_targets.

(* value-table maintenance of a branching predecessor (SyntheticBranch.replace_jump_targets):
   when the successors are replaced position by position - each stays or becomes a name that
   was no successor - every value is sent to the new successor at the position of its old one,
   and values whose target was no successor disappear; for every table with distinct keys and
   every tuple of distinct successors *)
Theorem C14_table_follows_successors :
  forall tbl all_old new_jt, NoDup (map fst tbl) -> length new_jt = length all_old ->
    (forall k s t, nth_error all_old k = Some s -> nth_error new_jt k = Some t -> t = s \/ ~ In t all_old) ->
    NoDup all_old ->
    forall res, table_rewrite tbl all_old new_jt all_old O [] = Some res ->
    forall z, match zassoc z tbl with
              | Some t => (forall k, nth_error all_old k = Some t -> zassoc z res = nth_error new_jt k) /\
                          (~ In t all_old -> zassoc z res = None)
              | None => zassoc z res = None
              end.
Proof. exact table_rewrite_lookup. Qed.
Print Assumptions C14_table_follows_successors.

(* non-vacuity *)
Local Open Scope Z_scope.
Example C14_example :
  retarget 9 [2; 3] [1; 3; 2; 4] = [1; 9; 4] /\ retarget 9 [] [1] = [1; 9] /\
  insert_block [(1, mkE [2; 3] [] (EPlain 0)); (2, mkE [] [] (EPlain 0)); (3, mkE [] [] (EPlain 0))]
               9 [1] [2; 3] 4
  = Ok [(2, mkE [] [] (EPlain 0)); (3, mkE [] [] (EPlain 0)); (9, mkE [2; 3] [] (EPlain 4));
        (1, mkE [9] [] (EPlain 0))].
Proof. vm_compute. repeat split; reflexivity. Qed.

(* the hypotheses of C14_control_blocks are met and the call succeeds *)
Example C14_control_blocks_example :
  insert_cb [(1, mkE [3; 4] [] (EPlain 0)); (2, mkE [4; 5] [] (EPlain 0)); (3, mkE [] [] (EPlain 0));
             (4, mkE [] [] (EPlain 0)); (5, mkE [] [] (EPlain 0))] 9 7 [1; 2] [3; 4] [20; 21; 22; 23] 6
  = Ok [(3, mkE [] [] (EPlain 0)); (4, mkE [] [] (EPlain 0)); (5, mkE [] [] (EPlain 0));
        (20, mkE [9] [] (EAssign [(7, 0)])); (21, mkE [9] [] (EAssign [(7, 1)]));
        (1, mkE [20; 21] [] (EPlain 0)); (22, mkE [9] [] (EAssign [(7, 2)]));
        (2, mkE [22; 5] [] (EPlain 0));
        (9, mkE [3; 4] [] (EBranch 6 7 [(0, 3); (1, 4); (2, 4)]))].
Proof. vm_compute. reflexivity. Qed.

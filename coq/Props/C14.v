(* C14 — graph edit primitives reroute exactly the requested arcs.
   Universal statements over the line-by-line models of Edits.v. *)
From Coq Require Import List ZArith.
Import ListNotations.
From V Require Import Valid.Hier Model.Graph Model.Edits Model.Edits2.

(* the successors that are neither in S nor the new block keep their order *)
Theorem C14_remaining_successors_untouched :
  forall new S jt, S <> [] -> others new S (retarget new S jt) = others new S jt.
Proof. exact retarget_others. Qed.
Print Assumptions C14_remaining_successors_untouched.

(* with distinct successors and a fresh name: every former arc into S is gone,
   nothing foreign appears, the new block is a successor exactly when an arc
   into S existed (or it already was one), and exactly once *)
Theorem C14_arcs_rerouted :
  forall new S jt, S <> [] -> NoDup jt -> ~ In new S ->
    let jt' := retarget new S jt in
    NoDup jt' /\ (forall s, In s S -> ~ In s jt') /\
    (forall x, In x jt' -> x = new \/ In x jt) /\
    (In new jt' <-> In new jt \/ exists s, In s S /\ In s jt).
Proof. exact retarget_arcs. Qed.
Print Assumptions C14_arcs_rerouted.

(* insert_block: the new block has exactly the successors S; blocks that are
   not predecessors are untouched; a predecessor keeps its back edges and its
   successors are the retargeted ones (S = [] : the new block is appended) *)
Theorem C14_insert_block :
  forall g new preds S cls g', NoDup preds -> ~ In new preds ->
    insert_block g new preds S cls = Ok g' ->
    efind g' new = Some (mkE S [] (EPlain cls)) /\
    (forall x, ~ In x preds -> x <> new -> efind g' x = efind g x) /\
    (forall p, In p preds -> exists b b', efind g p = Some b /\ efind g' p = Some b' /\
         e_jt b' = retarget new S (e_jt b) /\ e_be b' = e_be b).
Proof. exact insert_block_spec. Qed.
Print Assumptions C14_insert_block.

(* closing the graph: a no-op with at most one exit ... *)
Theorem C14_join_returns_noop :
  forall g fresh cls, (length (exits_of g) <= 1)%nat -> join_returns g fresh cls = Ok g.
Proof. exact join_returns_noop. Qed.
Print Assumptions C14_join_returns_noop.

(* ... otherwise one new exit, reached from every former exit, nothing else changed *)
Theorem C14_join_returns :
  forall g fresh cls g', NoDup (ekeys g) -> ~ In fresh (ekeys g) -> (2 <= length (exits_of g))%nat ->
    join_returns g fresh cls = Ok g' ->
    efind g' fresh = Some (mkE [] [] (EPlain cls)) /\
    (forall x, ~ In x (exits_of g) -> x <> fresh -> efind g' x = efind g x) /\
    (forall p, In p (exits_of g) -> exists b b', efind g p = Some b /\ efind g' p = Some b' /\
         e_jt b' = e_jt b ++ [fresh] /\ e_be b' = e_be b).
Proof. exact join_returns_spec. Qed.
Print Assumptions C14_join_returns.

(* control-block variant, decided per result by a verified checker: every
   successor position of every predecessor is unchanged or now goes to its own
   assignment block -> new head, whose table sends the assigned value to the
   arc's original target *)
Theorem C14_control_blocks_checker :
  forall g g' new preds S, cb_ok g g' new preds S = true ->
    exists cls var tbl, efind g' new = Some (mkE S [] (EBranch cls var tbl)) /\
    forall p, In p preds -> exists b b', efind g p = Some b /\ efind g' p = Some b' /\
      length (e_jt b) = length (e_jt b') /\
      forall k s t', nth_error (e_jt b) k = Some s -> nth_error (e_jt b') k = Some t' ->
                     ArcOk g' new var tbl s t'.
Proof. exact cb_ok_sound. Qed.
Print Assumptions C14_control_blocks_checker.

(* non-vacuity *)
Local Open Scope Z_scope.
Example C14_example :
  retarget 9 [2; 3] [1; 3; 2; 4] = [1; 9; 4] /\ retarget 9 [] [1] = [1; 9] /\
  insert_block [(1, mkE [2; 3] [] (EPlain 0)); (2, mkE [] [] (EPlain 0)); (3, mkE [] [] (EPlain 0))]
               9 [1] [2; 3] 4
  = Ok [(2, mkE [] [] (EPlain 0)); (3, mkE [] [] (EPlain 0)); (9, mkE [2; 3] [] (EPlain 4));
        (1, mkE [9] [] (EPlain 0))].
Proof. vm_compute. repeat split; reflexivity. Qed.

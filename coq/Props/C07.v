(* C07 — source round trip is observationally equivalent or refused.
   The round trip is source -> graph -> restructured graph -> source.
   * first leg (front end): C07_front_leg — for every program of the control
     skeleton the pruned graph means what the source means (universal, from C08);
   * graph -> regenerated tree (restructuring and code generation together):
     C07_back_leg — per instance, a verified checker: if it accepts, the
     generated tree, laid out as a walk (Model/BackSem.v: the reading of the
     generated Python), passes through the original blocks exactly as the input
     graph does under EVERY decision list;
   * the middle leg alone: C01 (path equivalence) per instance; census: C10.
   Not proved: that the layout of BackSem.v is what CPython does with the
   unparsed text (modelled), and/or operands and for-desugaring (known
   findings), refusals being the only other outcome (decided by running the
   pipeline), diverging runs.  Path-exhaustive differential execution against
   CPython covers those on generated programs. *)
From Coq Require Import List ZArith Permutation.
Import ListNotations.
From V Require Import Valid.Hier Valid.Walk Valid.FlatRegion Model.Prune Model.Src Model.SrcPrune Model.Back Model.BackSem.
From V Require Props.C08.

Theorem C07_middle_leg :
  forall rw g h, c01_check rw g h = true -> PathEq rw g h.
Proof. exact c01_check_sound. Qed.
Print Assumptions C07_middle_leg.

Theorem C07_census :
  forall expected got, census_check expected got = true -> Permutation expected got.
Proof. exact census_check_sound. Qed.
Print Assumptions C07_census.

Theorem C07_front_leg :
  forall (state : Type) (act : Z -> state -> option state) (test : Z -> state -> option (bool * state))
         (body : stmts) (fuel : nat) (s : state) (o : outcome state) (G' : list blk) (e' : Z),
    exec state act test fuel body s = o ->
    (exists a s', o = ORet a s') \/ (exists a, o = ORaise a) ->
    sprune (build body) 0 = Some (G', e') ->
    exists fuel', run state act test G' fuel' e' s = o.
Proof. exact Props.C08.C08_pruned_graph_means_source. Qed.
Print Assumptions C07_front_leg.

Theorem C07_back_leg :
  forall g info tree, back_check g info tree = true ->
    exists en start hT, entry_of g info = Some en /\
      tree_graph (contract g info) info tree = Some (start, hT) /\
      NoDup (names hT) /\
      exists e0,
        SRun hT (resolve_flat hT) false start [] (Reached en e0) /\
        forall ds, WTrace hT (resolve_flat hT) false en e0 ds
                          (fst (otrace (contract g info) en ds)) (snd (otrace (contract g info) en ds)).
Proof.
  intros g info tree H. destruct (back_check_sound g info tree H) as [en [start [hT [A [B [C D]]]]]].
  exists en, start, hT. auto.
Qed.
Print Assumptions C07_back_leg.

(* C07 — source round trip is observationally equivalent or refused.
   NO theorem decides this property.  The round trip is source -> graph ->
   restructured graph -> source.  The middle leg is covered per instance by
   C01 (path equivalence) and C05 (payloads untouched); the census of the
   regenerated tree by C10; the two outer legs (front end, code generation)
   are decided by path-exhaustive differential execution only.  The two
   statements below are the Coq facts the check relies on, restated. *)
From Coq Require Import List ZArith Permutation.
Import ListNotations.
From V Require Import Valid.Hier Valid.Walk Valid.FlatRegion Model.Prune.

Theorem C07_middle_leg :
  forall rw g h, c01_check rw g h = true -> PathEq rw g h.
Proof. exact c01_check_sound. Qed.
Print Assumptions C07_middle_leg.

Theorem C07_census :
  forall expected got, census_check expected got = true -> Permutation expected got.
Proof. exact census_check_sound. Qed.
Print Assumptions C07_census.

(* C15 — dictionary and YAML serialisation round-trips every graph.
   Decomposition: (i) the implementation's round trip is evaluated per graph
   (to_dict(from_dict(to_dict x)) == to_dict x, also through YAML); (ii) the
   dictionaries equal the model's to_dict of the exported graphs; (iii) the
   theorems below: the dictionary determines the hierarchy.  Hence the re-read
   graph has the same blocks, types, payloads, ordered successors, back edges,
   tables, assignments and nesting as the graph that was written. *)
From Coq Require Import List ZArith.
Import ListNotations.
From V Require Import Valid.Hier Valid.FlatRegion Model.Serial.

Theorem C15_entry_determines_block :
  forall n1 n2, codes_ok n1 = true -> codes_ok n2 = true -> entry_of n1 = entry_of n2 -> SameNode n1 n2.
Proof. exact entry_inj. Qed.
Print Assumptions C15_entry_determines_block.

Theorem C15_same_dictionary_same_blocks :
  forall h1 h2, NoDup (names h2) -> forallb codes_ok h1 = true -> forallb codes_ok h2 = true ->
    SameDict h1 h2 ->
    forall n1, In n1 h1 -> n_parent n1 <> 0%Z ->
      exists n2, find h2 (n_name n1) = Some n2 /\ n_parent n2 <> 0%Z /\ SameNode n1 n2.
Proof. exact same_dict_same_blocks. Qed.
Print Assumptions C15_same_dictionary_same_blocks.

Theorem C15_same_dictionary_same_nesting :
  forall h1 h2, NoDup (names h1) -> NoDup (names h2) ->
    forallb codes_ok h1 = true -> forallb codes_ok h2 = true ->
    SameDict h1 h2 -> forall p x, Contains h1 p x -> Contains h2 p x.
Proof. exact same_dict_same_nesting. Qed.
Print Assumptions C15_same_dictionary_same_nesting.

(* non-vacuity *)
Local Open Scope Z_scope.
Example C15_example :
  to_dict [ mkNode 1 0 [] [] (KRegion 1 0 0 [5; 10] 0 true);
            mkNode 5 1 [10] [] (KOrig 7);
            mkNode 10 1 [] [] (KRegion 2 3 3 [3] 1 true);
            mkNode 3 10 [3] [3] (KBranch 12 2 [(0, 3)]) ]
  = [ mkDE 5 100 [10] [] [7]; mkDE 10 50 [] [] [2; 3; 3; 1; 3]; mkDE 3 12 [3] [3] [2; 0; 3] ].
Proof. vm_compute. reflexivity. Qed.

(* C15 — dictionary and YAML serialisation round-trips every graph.
   Decomposition: (i) the implementation's round trip is evaluated per graph
   (to_dict(from_dict(to_dict x)) == to_dict x, also through YAML); (ii) the
   dictionaries equal the model's to_dict of the exported graphs; (iii) the
   theorems below: the dictionary determines the hierarchy.  Hence the re-read
   graph has the same blocks, types, payloads, ordered successors, back edges,
   tables, assignments and nesting as the graph that was written. *)
From Coq Require Import List ZArith.
Import ListNotations.
From V Require Import Valid.Hier Valid.FlatRegion Model.Serial Model.Serial2 Model.Serial2Proof.

Theorem C15_entry_determines_block :
  forall n1 n2, codes_ok n1 = true -> codes_ok n2 = true -> entry_of n1 = entry_of n2 -> SameNode n1 n2.
Proof. exact entry_inj. Qed.
Print Assumptions C15_entry_determines_block.

Theorem C15_same_dictionary_same_blocks :
  forall h1 h2, NoDup (names h2) -> forallb codes_ok h1 = true -> forallb codes_ok h2 = true ->
    SameDict h1 h2 ->
    forall n1, In n1 h1 -> n_parent n1 <> 0%Z ->
      exists n2, find h2 (n_name n1) = Some n2 /\ n_parent n2 <> 0%Z /\ SameNode n1 n2.
Proof. exact same_dict_same_blocks. Qed.
Print Assumptions C15_same_dictionary_same_blocks.

Theorem C15_same_dictionary_same_nesting :
  forall h1 h2, NoDup (names h1) -> NoDup (names h2) ->
    forallb codes_ok h1 = true -> forallb codes_ok h2 = true ->
    SameDict h1 h2 -> forall p x, Contains h1 p x -> Contains h2 p x.
Proof. exact same_dict_same_nesting. Qed.
Print Assumptions C15_same_dictionary_same_nesting.

(* The round trip itself, over the model of SCFGIO.from_dict / make_scfg
   (Model/Serial2.v, compared with the implementation run by run).  For EVERY
   closed hierarchy - unique names; class codes in their families; successors
   and back edges naming written blocks; each block listed by its parent and
   only there; the outermost graph closed under successors; in each region the
   header inside, only the exiting block leaving, every block reachable from the
   header, the recorded parent the actual one; the nesting a tree - of any size
   and depth: with enough steps the reader does not raise; the outermost region
   keeps its name whenever a region recorded it; its graph holds the same
   blocks; every written block is rebuilt with the same class, payload, ordered
   successors, back edges, table or assignments, and every region with the same
   kind, header, exiting block, parent and the same blocks in its graph (Rep);
   nothing else is built; and writing the result gives the same dictionary. *)
Theorem C15_round_trip :
  forall h topn, Closed h topn -> children topn <> [] ->
  exists N, forall fuel fresh, (N <= fuel)%nat ->
    exists top ch nodes,
      from_dict (to_dict h) fuel fresh = Some (top, ch, nodes) /\
      (top = n_name topn \/
       top = fresh /\ forall x n, In x (children topn) -> find h x = Some n -> is_region n = false) /\
      NoDup ch /\ (forall x, In x ch <-> In x (children topn)) /\
      (forall n, In n h -> nontop n -> exists n', In n' nodes /\ Rep topn top n n') /\
      (forall n', In n' nodes -> exists n, In n h /\ nontop n /\ Rep topn top n n') /\
      (forall e, In e (map entry_of nodes) <-> In e (to_dict h)).
Proof. exact round_trip. Qed.
Print Assumptions C15_round_trip.

(* whatever number of steps is allowed: a result is the written hierarchy *)
Theorem C15_reading_back :
  forall h topn fuel fresh top ch nodes, Closed h topn ->
  from_dict (to_dict h) fuel fresh = Some (top, ch, nodes) ->
  (top = n_name topn \/
   top = fresh /\ forall x n, In x (children topn) -> find h x = Some n -> is_region n = false) /\
  NoDup ch /\ (forall x, In x ch <-> In x (children topn)) /\
  (forall n, In n h -> nontop n -> exists n', In n' nodes /\ Rep topn top n n') /\
  (forall n', In n' nodes -> exists n, In n h /\ nontop n /\ Rep topn top n n').
Proof. exact from_dict_round_trip. Qed.
Print Assumptions C15_reading_back.

(* the hypothesis is decidable; the checker is run on every exported hierarchy *)
Theorem C15_closed_decided :
  forall h, closedb h = true -> exists topn, topof h = Some topn /\ Closed h topn.
Proof. exact closedb_sound. Qed.
Print Assumptions C15_closed_decided.

(* non-vacuity *)
Local Open Scope Z_scope.
Example C15_example :
  to_dict [ mkNode 1 0 [] [] (KRegion 1 0 0 [5; 10] 0 true);
            mkNode 5 1 [10] [] (KOrig 7);
            mkNode 10 1 [] [] (KRegion 2 3 3 [3] 1 true);
            mkNode 3 10 [3] [3] (KBranch 12 2 [(0, 3)]) ]
  = [ mkDE 5 100 [10] [] [7]; mkDE 10 50 [] [] [2; 3; 3; 1; 3]; mkDE 3 12 [3] [3] [2; 0; 3] ].
Proof. vm_compute. reflexivity. Qed.

(* the hypotheses of C15_round_trip are met: a loop region inside the outermost graph
   (all outer blocks are heads of the walk, in sorted order: the insertion order may differ) *)
Example C15_round_trip_example :
  let h := [ mkNode 1 0 [] [] (KRegion 1 0 0 [5; 10; 7] 0 true);
             mkNode 5 1 [10] [] (KOrig 7);
             mkNode 10 1 [7] [] (KRegion 2 3 4 [3; 4] 1 true);
             mkNode 3 10 [4] [] (KOrig 8);
             mkNode 4 10 [3; 7] [3] (KBranch 12 2 [(0, 3); (1, 7)]);
             mkNode 7 1 [] [] (KOrig 9) ] in
  closedb h = true /\
  from_dict (to_dict h) 100 99 =
    Some (1, [5; 7; 10],
          [ mkNode 5 1 [10] [] (KOrig 7);
            mkNode 7 1 [] [] (KOrig 9);
            mkNode 10 1 [7] [] (KRegion 2 3 4 [3; 4] 1 true);
            mkNode 3 10 [4] [] (KOrig 8);
            mkNode 4 10 [3; 7] [3] (KBranch 12 2 [(0, 3); (1, 7)]) ]).
Proof. vm_compute. split; reflexivity. Qed.
